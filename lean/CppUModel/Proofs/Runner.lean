import CppUModel.Spec.Runner
import CppUModel.Proofs.ListLemmas
import CppUModel.Props.C03
set_option linter.unusedSimpArgs false
/-!
Helper lemmas for the C01 theorems: the operational runner model (`Model/Runner.lean`) is
brought into a closed form, phase by phase, test by test, repetition by repetition.
-/
namespace Runner

/-! ## projections distribute -/

@[simp] theorem failuresOf_nil : failuresOf [] = [] := rfl
@[simp] theorem failuresOf_append (a b : List Ev) : failuresOf (a ++ b) = failuresOf a ++ failuresOf b := by
  simp [failuresOf, List.filterMap_append]
@[simp] theorem marksIn_nil : marksIn [] = [] := rfl
@[simp] theorem marksIn_append (a b : List Ev) : marksIn (a ++ b) = marksIn a ++ marksIn b := by
  simp [marksIn, List.filterMap_append]
@[simp] theorem entersOf_nil : entersOf [] = [] := rfl
@[simp] theorem entersOf_append (a b : List Ev) : entersOf (a ++ b) = entersOf a ++ entersOf b := by
  simp [entersOf, List.filterMap_append]
@[simp] theorem summariesOf_nil : summariesOf [] = [] := rfl
@[simp] theorem summariesOf_append (a b : List Ev) : summariesOf (a ++ b) = summariesOf a ++ summariesOf b := by
  simp [summariesOf, List.filterMap_append]
@[simp] theorem endedOf_nil : endedOf [] = [] := rfl
@[simp] theorem endedOf_append (a b : List Ev) : endedOf (a ++ b) = endedOf a ++ endedOf b := by
  simp [endedOf, List.filterMap_append]

@[simp] theorem failuresOf_cons (e : Ev) (l : List Ev) :
    failuresOf (e :: l) = (Ev.failure? e).toList ++ failuresOf l := by
  cases h : Ev.failure? e <;> simp [failuresOf, h]
@[simp] theorem marksIn_cons (e : Ev) (l : List Ev) :
    marksIn (e :: l) = (Ev.mark? e).toList ++ marksIn l := by
  cases h : Ev.mark? e <;> simp [marksIn, h]
@[simp] theorem entersOf_cons (e : Ev) (l : List Ev) :
    entersOf (e :: l) = (Ev.enter? e).toList ++ entersOf l := by
  cases h : Ev.enter? e <;> simp [entersOf, h]
@[simp] theorem summariesOf_cons (e : Ev) (l : List Ev) :
    summariesOf (e :: l) = (Ev.summary? e).toList ++ summariesOf l := by
  cases h : Ev.summary? e <;> simp [summariesOf, h]
@[simp] theorem endedOf_cons (e : Ev) (l : List Ev) :
    endedOf (e :: l) = (Ev.ended? e).toList ++ endedOf l := by
  cases h : Ev.ended? e <;> simp [endedOf, h]

@[simp] theorem plainToksOf_nil : plainToksOf [] = [] := rfl
@[simp] theorem plainToksOf_append (a b : List Ev) : plainToksOf (a ++ b) = plainToksOf a ++ plainToksOf b := by
  simp [plainToksOf, List.filterMap_append]
@[simp] theorem plainToksOf_cons (e : Ev) (l : List Ev) :
    plainToksOf (e :: l) = (Ev.tok? e).toList ++ plainToksOf l := by
  cases h : Ev.tok? e <;> simp [plainToksOf, h]
@[simp] theorem recordsOf_nil : recordsOf [] = [] := rfl
@[simp] theorem recordsOf_append (a b : List Ev) : recordsOf (a ++ b) = recordsOf a ++ recordsOf b := by
  simp [recordsOf, List.filterMap_append]
@[simp] theorem recordsOf_cons (e : Ev) (l : List Ev) :
    recordsOf (e :: l) = (Ev.record? e).toList ++ recordsOf l := by
  cases h : Ev.record? e <;> simp [recordsOf, h]
@[simp] theorem clocksOf_nil : clocksOf [] = [] := rfl
@[simp] theorem clocksOf_append (a b : List Ev) : clocksOf (a ++ b) = clocksOf a ++ clocksOf b := by
  simp [clocksOf, List.filterMap_append]
@[simp] theorem clocksOf_cons (e : Ev) (l : List Ev) :
    clocksOf (e :: l) = (Ev.clock? e).toList ++ clocksOf l := by
  cases h : Ev.clock? e <;> simp [clocksOf, h]

/-! ## glue to property C03's model of the check macros -/

/-- whether a `checkKind` statement fails, as C03's model of the macro computes it on the
    harness' operands, is what the textbook rule says -/
theorem outcome_fails (k : CheckKind) (pass : Bool) : (k.outcome pass).fails = k.failsWhen pass := by
  cases k <;> cases pass <;> rfl

/-- **the count of C03's model is the documented rule**: every check of the `assert*` family counts
    exactly one (`Asserts.assert_family_counts_one`, `integer_macros_count_one`, …), a `CHECK_COMPARE`
    that holds counts none (`Asserts.compare_pass_counts_zero`), one that does not counts one. -/
theorem outcome_counted (k : CheckKind) (pass : Bool) : (k.outcome pass).counted = k.countsWhen pass := by
  obtain ⟨hTrue, _, _, _, _, _, _, hPtr, hFptr, hBits, _, _, hStr, hStrN, hNoCase, hCont, hNoCaseCont, hBin⟩ :=
    Asserts.assert_family_counts_one
  cases k
  case compare =>
    cases pass
    · exact (Asserts.compare_fail_counts_one _ rfl).1
    · exact (Asserts.compare_pass_counts_zero _ rfl).1
  case check => exact hTrue _
  case checkText => exact hTrue _
  case checkEqual => exact Asserts.CHECK_EQUAL_counts_one _
  case longs => exact (Asserts.integer_macros_count_one 1 (if pass then 1 else 2) default default).1
  case ulongs => exact (Asserts.integer_macros_count_one 1 (if pass then 1 else 2) default default).2.1
  case longlongs => exact (Asserts.integer_macros_count_one 1 (if pass then 1 else 2) default default).2.2.1
  case ulonglongs => exact (Asserts.integer_macros_count_one 1 (if pass then 1 else 2) default default).2.2.2.1
  case bytes => exact (Asserts.integer_macros_count_one 0 0 ⟨Asserts.tyInt, 257⟩ ⟨Asserts.tyInt, if pass then 513 else 514⟩).2.2.2.2.1
  case sbytes => exact (Asserts.integer_macros_count_one (-1) (if pass then -1 else 2) default default).2.2.2.2.2.1
  case pointers => exact hPtr _ _
  case fpointers => exact hFptr _ _
  case doubles => exact Asserts.assertDoublesEqual_counts_one _ _ _ _
  case strcmp => exact hStr _ _
  case strncmp => exact hStrN _ _ _
  case strcmpNocase => exact hNoCase _ _
  case strcmpContains => exact hCont _ _
  case strcmpNocaseContains => exact hNoCaseCont _ _
  case memcmp0 => exact hBin _ _ _
  case memcmp => exact hBin _ _ _
  case bits => exact hBits _ _ _ 4
  case enumsInt => exact Asserts.ENUMS_EQUAL_TYPE_counts_one _ _ _
  case throws => exact Asserts.CHECK_THROWS_counts_one _
  case cInt => exact (Asserts.integer_macros_count_one 1 (if pass then 1 else 2) default default).2.2.2.2.2.2.2.2.1
  case cReal => exact Asserts.assertDoublesEqual_counts_one _ _ _ _
  case cString => exact hStr _ _
  case cPointer => exact hPtr _ _
  case cMemcmp0 => exact hBin _ _ _
  case cMemcmp => exact hBin _ _ _
  case cBits => exact hBits _ _ _ 4
  case checkC => exact (Asserts.integer_macros_count_one (if pass then 1 else 0) 0 default default).2.2.2.2.2.2.2.2.2.2.2.2.2.2.2.2.2.1

/-! ## one phase -/

/-- the failing checks among the executed statements (exceptions are recorded by the catch clauses) -/
def Stmt.checkFailure (cfg : Cfg) (t : Test) : Stmt → Option FailRec
  | .failCpp loc msg => some (mkRec cfg t loc msg)
  | .failC loc msg => some (mkRec cfg t loc msg)
  | .check k pass loc msg => if k.failsWhen pass then some (mkRec cfg t loc msg) else none
  | _ => none

def checkFailures (cfg : Cfg) (t : Test) (p : List Stmt) : List FailRec :=
  (executed cfg.exceptions p).filterMap (Stmt.checkFailure cfg t)

/-- how control leaves the phase -/
def exitOf (exc : Bool) : List Stmt → Exit
  | [] => .normal
  | .failCpp _ _ :: _ => if exc then .exc .failed else .longjmp
  | .failC _ _ :: _ => .longjmp
  | .exitTest :: _ => if exc then .exc .failed else .longjmp
  | .exitTestC :: _ => .longjmp
  | .throwStd :: rest => if exc then .exc .std else exitOf exc rest
  | .throwOther :: rest => if exc then .exc .other else exitOf exc rest
  | .mark _ :: rest => exitOf exc rest
  | .checkPass :: rest => exitOf exc rest
  | .check k pass _ _ :: rest =>
    if k.failsWhen pass then (if k.isC then .longjmp else if exc then .exc .failed else .longjmp)
    else exitOf exc rest

/-- the record the catch clauses add for an escaping exception -/
def excRecs (cfg : Cfg) (t : Test) : Exit → List FailRec
  | .exc .std => [mkRecAtTest cfg t cfg.stdExcMsg]
  | .exc .other => [mkRecAtTest cfg t cfg.otherExcMsg]
  | _ => []

@[simp] theorem term_mark (exc : Bool) (n : Nat) : (Stmt.mark n).terminates exc = false := rfl
@[simp] theorem term_checkPass (exc : Bool) : Stmt.checkPass.terminates exc = false := rfl
@[simp] theorem term_failCpp (exc : Bool) (l : Loc) (m : String) : (Stmt.failCpp l m).terminates exc = true := rfl
@[simp] theorem term_failC (exc : Bool) (l : Loc) (m : String) : (Stmt.failC l m).terminates exc = true := rfl
@[simp] theorem term_exitTest (exc : Bool) : Stmt.exitTest.terminates exc = true := rfl
@[simp] theorem term_exitTestC (exc : Bool) : Stmt.exitTestC.terminates exc = true := rfl
@[simp] theorem term_check (exc : Bool) (k : CheckKind) (pass : Bool) (l : Loc) (m : String) :
    (Stmt.check k pass l m).terminates exc = k.failsWhen pass := rfl
@[simp] theorem term_throwStd (exc : Bool) : Stmt.throwStd.terminates exc = exc := rfl
@[simp] theorem term_throwOther (exc : Bool) : Stmt.throwOther.terminates exc = exc := rfl

@[simp] theorem executed_nil (exc : Bool) : executed exc [] = [] := rfl
@[simp] theorem executed_mark (exc : Bool) (n : Nat) (rest : List Stmt) :
    executed exc (.mark n :: rest) = .mark n :: executed exc rest := by simp [executed, Stmt.terminates]
@[simp] theorem executed_checkPass (exc : Bool) (rest : List Stmt) :
    executed exc (.checkPass :: rest) = .checkPass :: executed exc rest := by simp [executed, Stmt.terminates]
@[simp] theorem executed_failCpp (exc : Bool) (l : Loc) (m : String) (rest : List Stmt) :
    executed exc (.failCpp l m :: rest) = [.failCpp l m] := by simp [executed, Stmt.terminates]
@[simp] theorem executed_failC (exc : Bool) (l : Loc) (m : String) (rest : List Stmt) :
    executed exc (.failC l m :: rest) = [.failC l m] := by simp [executed, Stmt.terminates]
@[simp] theorem executed_exitTest (exc : Bool) (rest : List Stmt) :
    executed exc (.exitTest :: rest) = [.exitTest] := by simp [executed, Stmt.terminates]
@[simp] theorem executed_exitTestC (exc : Bool) (rest : List Stmt) :
    executed exc (.exitTestC :: rest) = [.exitTestC] := by simp [executed, Stmt.terminates]
theorem executed_check_fails (exc : Bool) (k : CheckKind) (pass : Bool) (l : Loc) (m : String) (rest : List Stmt)
    (h : k.failsWhen pass = true) : executed exc (.check k pass l m :: rest) = [.check k pass l m] := by
  simp [executed, h]
theorem executed_check_passes (exc : Bool) (k : CheckKind) (pass : Bool) (l : Loc) (m : String) (rest : List Stmt)
    (h : k.failsWhen pass = false) :
    executed exc (.check k pass l m :: rest) = .check k pass l m :: executed exc rest := by
  simp [executed, h]
@[simp] theorem executed_throwStd_exc (rest : List Stmt) :
    executed true (.throwStd :: rest) = [.throwStd] := by simp [executed, Stmt.terminates]
@[simp] theorem executed_throwStd_noexc (rest : List Stmt) :
    executed false (.throwStd :: rest) = .throwStd :: executed false rest := by simp [executed, Stmt.terminates]
@[simp] theorem executed_throwOther_exc (rest : List Stmt) :
    executed true (.throwOther :: rest) = [.throwOther] := by simp [executed, Stmt.terminates]
@[simp] theorem executed_throwOther_noexc (rest : List Stmt) :
    executed false (.throwOther :: rest) = .throwOther :: executed false rest := by simp [executed, Stmt.terminates]

theorem runStmts_marks (cfg : Cfg) (t : Test) (ph : Phase) (d : Int) :
    ∀ (p : List Stmt) (res : Result) (hf : Bool),
      marksIn (runStmts cfg t ph d res hf p).evs = (marksOf (executed cfg.exceptions p)).map (fun n => (ph, n))
  | [], res, hf => by simp [runStmts, marksOf]
  | s :: rest, res, hf => by
    have ih := runStmts_marks cfg t ph d rest
    cases hexc : cfg.exceptions <;> simp only [hexc] at ih <;>
    simp only [marksOf] at ih ⊢ <;>
    (cases s with
      | check k pass loc msg =>
        cases hfw : k.failsWhen pass <;>
          simp [runStmts, PhaseOut.cons, Ev.mark?, Stmt.markNo, ih, hexc, List.filterMap_cons, outcome_fails, outcome_counted, hfw, executed_check_fails, executed_check_passes,
            Stmt.checkCount, Result.countChecks]
      | _ => simp [runStmts, PhaseOut.cons, Ev.mark?, Stmt.markNo, ih, hexc, List.filterMap_cons])

theorem runStmts_enters (cfg : Cfg) (t : Test) (ph : Phase) (d : Int) :
    ∀ (p : List Stmt) (res : Result) (hf : Bool),
      entersOf (runStmts cfg t ph d res hf p).evs = [] ∧ summariesOf (runStmts cfg t ph d res hf p).evs = []
        ∧ endedOf (runStmts cfg t ph d res hf p).evs = []
  | [], res, hf => by simp [runStmts]
  | s :: rest, res, hf => by
    have ih := runStmts_enters cfg t ph d rest
    cases hexc : cfg.exceptions <;>
    (cases s with
      | check k pass loc msg =>
        cases hfw : k.failsWhen pass <;>
          simp [runStmts, PhaseOut.cons, Ev.enter?, Ev.summary?, Ev.ended?, ih, hexc, outcome_fails, outcome_counted, hfw, executed_check_fails, executed_check_passes,
            Stmt.checkCount, Result.countChecks]
      | _ => simp [runStmts, PhaseOut.cons, Ev.enter?, Ev.summary?, Ev.ended?, ih, hexc])

theorem runStmts_plain (cfg : Cfg) (t : Test) (ph : Phase) (d : Int) :
    ∀ (p : List Stmt) (res : Result) (hf : Bool), plainToksOf (runStmts cfg t ph d res hf p).evs = []
  | [], res, hf => by simp [runStmts]
  | s :: rest, res, hf => by
    have ih := runStmts_plain cfg t ph d rest
    cases hexc : cfg.exceptions <;>
    (cases s with
      | check k pass loc msg =>
        cases hfw : k.failsWhen pass <;>
          simp [runStmts, PhaseOut.cons, Ev.tok?, ih, hexc, outcome_fails, outcome_counted, hfw, executed_check_fails, executed_check_passes,
            Stmt.checkCount, Result.countChecks]
      | _ => simp [runStmts, PhaseOut.cons, Ev.tok?, ih, hexc])

theorem runStmts_records (cfg : Cfg) (t : Test) (ph : Phase) (d : Int) :
    ∀ (p : List Stmt) (res : Result) (hf : Bool),
      recordsOf (runStmts cfg t ph d res hf p).evs = failuresOf (runStmts cfg t ph d res hf p).evs
  | [], res, hf => by simp [runStmts]
  | s :: rest, res, hf => by
    have ih := runStmts_records cfg t ph d rest
    cases hexc : cfg.exceptions <;>
    (cases s with
      | check k pass loc msg =>
        cases hfw : k.failsWhen pass <;> simp [runStmts, PhaseOut.cons, Ev.record?, Ev.failure?, ih, hexc, outcome_fails, hfw]
      | _ => simp [runStmts, PhaseOut.cons, Ev.record?, Ev.failure?, ih, hexc])

theorem runStmts_failures (cfg : Cfg) (t : Test) (ph : Phase) (d : Int) :
    ∀ (p : List Stmt) (res : Result) (hf : Bool),
      failuresOf (runStmts cfg t ph d res hf p).evs = checkFailures cfg t p
  | [], res, hf => by simp [runStmts, checkFailures]
  | s :: rest, res, hf => by
    have ih := runStmts_failures cfg t ph d rest
    simp only [checkFailures] at ih ⊢
    cases hexc : cfg.exceptions <;> simp only [hexc] at ih <;>
    (cases s with
      | check k pass loc msg =>
        cases hfw : k.failsWhen pass <;>
          simp [runStmts, PhaseOut.cons, Ev.failure?, Stmt.checkFailure, ih, hexc, List.filterMap_cons, outcome_fails, outcome_counted, hfw, executed_check_fails, executed_check_passes,
            Stmt.checkCount, Result.countChecks]
      | _ => simp [runStmts, PhaseOut.cons, Ev.failure?, Stmt.checkFailure, ih, hexc, List.filterMap_cons])

theorem runStmts_exit (cfg : Cfg) (t : Test) (ph : Phase) (d : Int) :
    ∀ (p : List Stmt) (res : Result) (hf : Bool),
      (runStmts cfg t ph d res hf p).exit = exitOf cfg.exceptions p
  | [], res, hf => by simp [runStmts, exitOf]
  | s :: rest, res, hf => by
    have ih := runStmts_exit cfg t ph d rest
    cases hexc : cfg.exceptions <;> simp only [hexc] at ih <;>
    (cases s with
      | check k pass loc msg =>
        cases hfw : k.failsWhen pass <;>
          simp [runStmts, PhaseOut.cons, exitOf, normalTerminator, ih, hexc, outcome_fails, outcome_counted, hfw, executed_check_fails, executed_check_passes,
            Stmt.checkCount, Result.countChecks]
      | _ => simp [runStmts, PhaseOut.cons, exitOf, normalTerminator, ih, hexc])

theorem runStmts_res (cfg : Cfg) (t : Test) (ph : Phase) (d : Int) :
    ∀ (p : List Stmt) (res : Result) (hf : Bool),
      (runStmts cfg t ph d res hf p).res =
        { res with checkCount := res.checkCount + checksOf (executed cfg.exceptions p),
                   failureCount := res.failureCount + (checkFailures cfg t p).length }
  | [], res, hf => by simp [runStmts, checksOf, checkFailures]
  | s :: rest, res, hf => by
    have ih := runStmts_res cfg t ph d rest
    simp only [checkFailures, checksOf] at ih ⊢
    cases hexc : cfg.exceptions <;> simp only [hexc] at ih <;>
    (cases s with
      | check k pass loc msg =>
        cases hfw : k.failsWhen pass <;>
          simp [runStmts, PhaseOut.cons, Stmt.checkFailure, Stmt.checkCount, ih, hexc, List.filterMap_cons,
            Result.countCheck, Result.countChecks, Result.countFailure, outcome_fails, outcome_counted, hfw,
            executed_check_fails, executed_check_passes] <;> omega
      | _ =>
        simp [runStmts, PhaseOut.cons, Stmt.checkFailure, Stmt.checkCount, ih, hexc, List.filterMap_cons,
          Result.countCheck, Result.countFailure] <;> omega)

theorem runStmts_hasFailed (cfg : Cfg) (t : Test) (ph : Phase) (d : Int) :
    ∀ (p : List Stmt) (res : Result) (hf : Bool),
      (runStmts cfg t ph d res hf p).hasFailed = (hf || !(checkFailures cfg t p).isEmpty)
  | [], res, hf => by simp [runStmts, checkFailures]
  | s :: rest, res, hf => by
    have ih := runStmts_hasFailed cfg t ph d rest
    simp only [checkFailures] at ih ⊢
    cases hexc : cfg.exceptions <;> simp only [hexc] at ih <;>
    (cases s with
      | check k pass loc msg =>
        cases hfw : k.failsWhen pass <;>
          simp [runStmts, PhaseOut.cons, Stmt.checkFailure, ih, hexc, List.filterMap_cons, outcome_fails, outcome_counted, hfw, executed_check_fails, executed_check_passes,
            Stmt.checkCount, Result.countChecks]
      | _ => simp [runStmts, PhaseOut.cons, Stmt.checkFailure, ih, hexc, List.filterMap_cons])

theorem exitOf_normal_iff (exc : Bool) : ∀ (p : List Stmt), exitOf exc p = .normal ↔ completes exc p = true
  | [] => by simp [exitOf, completes]
  | s :: rest => by
    have ih := exitOf_normal_iff exc rest
    simp only [completes] at ih ⊢
    cases exc <;>
    (cases s with
      | check k pass loc msg =>
        cases hfw : k.failsWhen pass
        · simpa [exitOf, hfw] using ih
        · cases hc : k.isC <;> simp [exitOf, hfw, hc]
      | _ => simp [exitOf] <;> simpa using ih)

/-- the failures the property demands of a phase: its failing check, or the record of the
    exception that leaves it -/
theorem phaseFailures_eq (cfg : Cfg) (t : Test) : ∀ (p : List Stmt),
    phaseFailures cfg t p = checkFailures cfg t p ++ excRecs cfg t (exitOf cfg.exceptions p)
  | [] => by simp [phaseFailures, checkFailures, exitOf, excRecs]
  | s :: rest => by
    have ih := phaseFailures_eq cfg t rest
    simp only [phaseFailures, checkFailures] at ih ⊢
    cases hexc : cfg.exceptions <;> simp only [hexc] at ih <;>
    (cases s with
      | check k pass loc msg =>
        cases hfw : k.failsWhen pass <;>
          simp [exitOf, excRecs, Stmt.failure, Stmt.checkFailure, hexc, List.filterMap_cons, ih, outcome_fails, outcome_counted, hfw, executed_check_fails, executed_check_passes,
            Stmt.checkCount, Result.countChecks] <;>
          (try (cases hc : k.isC <;> simp [hc]))
      | _ => simp [exitOf, excRecs, Stmt.failure, Stmt.checkFailure, hexc, List.filterMap_cons, ih])

/-! ## PlatformSpecificSetJmp around one phase -/

/-- the phase as `Utest::run` runs it when `jmp_buf_index = st.depth` (the user code sees depth + 1) -/
def phaseOut (cfg : Cfg) (t : Test) (ph : Phase) (st : TSt) : PhaseOut :=
  runStmts cfg t ph (st.depth + 1) st.res st.hasFailed (stmtsOf t ph)

def phaseEvs (cfg : Cfg) (t : Test) (ph : Phase) (st : TSt) : List Ev :=
  .enter ph (st.depth + 1) :: (phaseOut cfg t ph st).evs

/-- state after the phase, index back where it was -/
def stAfter (cfg : Cfg) (t : Test) (ph : Phase) (st : TSt) : TSt :=
  ⟨(phaseOut cfg t ph st).res, (phaseOut cfg t ph st).hasFailed, st.depth, st.current⟩

theorem setJmp_phase (cfg : Cfg) (t : Test) (ph : Phase) (st : TSt) (h : inBuf st.depth = true) :
    setJmp st (phaseFn cfg t ph) =
      .ok (match (phaseOut cfg t ph st).exit with
        | .normal => ⟨stAfter cfg t ph st, phaseEvs cfg t ph st, true, none⟩
        | .longjmp => ⟨stAfter cfg t ph st, phaseEvs cfg t ph st, false, none⟩
        | .exc k => ⟨{ stAfter cfg t ph st with depth := st.depth + 1 }, phaseEvs cfg t ph st, false, some k⟩) := by
  unfold setJmp
  simp only [h, Bool.not_true, Bool.false_eq_true, if_false, phaseFn]
  simp only [setJmpAfter, phaseOut, stAfter, phaseEvs, TSt.dec]
  cases hx : (runStmts cfg t ph (st.depth + 1) st.res st.hasFailed (stmtsOf t ph)).exit with
  | normal => simp
  | longjmp => simp [h]
  | exc k => simp

/-! ## very verbose strings carry no structured event -/

@[simp] theorem failuresOf_vv (cfg : Cfg) (s : String) : failuresOf (vv cfg s) = [] := by
  unfold vv; split <;> simp [Ev.failure?]
@[simp] theorem marksIn_vv (cfg : Cfg) (s : String) : marksIn (vv cfg s) = [] := by
  unfold vv; split <;> simp [Ev.mark?]
@[simp] theorem entersOf_vv (cfg : Cfg) (s : String) : entersOf (vv cfg s) = [] := by
  unfold vv; split <;> simp [Ev.enter?]
@[simp] theorem summariesOf_vv (cfg : Cfg) (s : String) : summariesOf (vv cfg s) = [] := by
  unfold vv; split <;> simp [Ev.summary?]
@[simp] theorem endedOf_vv (cfg : Cfg) (s : String) : endedOf (vv cfg s) = [] := by
  unfold vv; split <;> simp [Ev.ended?]
@[simp] theorem failuresOf_vvU (cfg : Cfg) (s : String) : failuresOf (vvU cfg s) = [] := by
  unfold vvU; split <;> simp [Ev.failure?]
@[simp] theorem marksIn_vvU (cfg : Cfg) (s : String) : marksIn (vvU cfg s) = [] := by
  unfold vvU; split <;> simp [Ev.mark?]
@[simp] theorem entersOf_vvU (cfg : Cfg) (s : String) : entersOf (vvU cfg s) = [] := by
  unfold vvU; split <;> simp [Ev.enter?]
@[simp] theorem summariesOf_vvU (cfg : Cfg) (s : String) : summariesOf (vvU cfg s) = [] := by
  unfold vvU; split <;> simp [Ev.summary?]
@[simp] theorem endedOf_vvU (cfg : Cfg) (s : String) : endedOf (vvU cfg s) = [] := by
  unfold vvU; split <;> simp [Ev.ended?]

/-- the "after" print of a phase: skipped when an exception leaves the SetJmp call -/
def vvTail (cfg : Cfg) (ph : Phase) : Exit → List Ev
  | .exc _ => []
  | _ => vvU cfg (vvAfter ph)

@[simp] theorem failuresOf_vvTail (cfg : Cfg) (ph : Phase) (e : Exit) : failuresOf (vvTail cfg ph e) = [] := by
  unfold vvTail; split <;> simp
@[simp] theorem marksIn_vvTail (cfg : Cfg) (ph : Phase) (e : Exit) : marksIn (vvTail cfg ph e) = [] := by
  unfold vvTail; split <;> simp
@[simp] theorem entersOf_vvTail (cfg : Cfg) (ph : Phase) (e : Exit) : entersOf (vvTail cfg ph e) = [] := by
  unfold vvTail; split <;> simp
@[simp] theorem summariesOf_vvTail (cfg : Cfg) (ph : Phase) (e : Exit) : summariesOf (vvTail cfg ph e) = [] := by
  unfold vvTail; split <;> simp
@[simp] theorem endedOf_vvTail (cfg : Cfg) (ph : Phase) (e : Exit) : endedOf (vvTail cfg ph e) = [] := by
  unfold vvTail; split <;> simp

/-! ## Utest::run in closed form -/

/-- rethrow mode does not matter for this way of leaving a phase -/
def QuietExit (cfg : Cfg) (e : Exit) : Prop := cfg.rethrow = false ∨ (e ≠ .exc .std ∧ e ≠ .exc .other)

/-- no phase of the test lets a std / foreign exception out, or rethrow mode is off -/
def QuietTest (cfg : Cfg) (t : Test) : Prop :=
  cfg.rethrow = false ∨ ∀ ph, exitOf cfg.exceptions (stmtsOf t ph) ≠ .exc .std ∧ exitOf cfg.exceptions (stmtsOf t ph) ≠ .exc .other

/-- what the catch clauses do to the state (index already restored) -/
def caught (st : TSt) : Exit → TSt
  | .exc .std => shellAddFailure st
  | .exc .other => shellAddFailure st
  | _ => st

/-- one phase with its `try`/`catch`: state after it, everything it printed -/
def phaseStep (cfg : Cfg) (t : Test) (ph : Phase) (st : TSt) : Acc :=
  ⟨caught (stAfter cfg t ph st) (phaseOut cfg t ph st).exit,
   vvU cfg (vvBefore ph) ++ (phaseEvs cfg t ph st ++ (excRecs cfg t (phaseOut cfg t ph st).exit).map Ev.failure)
     ++ vvTail cfg ph (phaseOut cfg t ph st).exit⟩

@[simp] theorem caught_depth (st : TSt) (e : Exit) : (caught st e).depth = st.depth := by
  unfold caught; split <;> simp [shellAddFailure]
@[simp] theorem caught_current (st : TSt) (e : Exit) : (caught st e).current = st.current := by
  unfold caught; split <;> simp [shellAddFailure]
@[simp] theorem phaseStep_depth (cfg : Cfg) (t : Test) (ph : Phase) (st : TSt) :
    (phaseStep cfg t ph st).st.depth = st.depth := by simp [phaseStep, stAfter]
@[simp] theorem phaseStep_current (cfg : Cfg) (t : Test) (ph : Phase) (st : TSt) :
    (phaseStep cfg t ph st).st.current = st.current := by simp [phaseStep, stAfter]

theorem phaseOut_exit (cfg : Cfg) (t : Test) (ph : Phase) (st : TSt) :
    (phaseOut cfg t ph st).exit = exitOf cfg.exceptions (stmtsOf t ph) := by
  simp only [phaseOut, runStmts_exit]

theorem quietExit_of_test {cfg : Cfg} {t : Test} (hq : QuietTest cfg t) (ph : Phase) (st : TSt) :
    QuietExit cfg (phaseOut cfg t ph st).exit := by
  rw [phaseOut_exit]
  rcases hq with h | h
  · exact Or.inl h
  · exact Or.inr (h ph)

theorem try_phase (cfg : Cfg) (t : Test) (ph : Phase) (st : TSt) (before : List Ev)
    (hq : QuietExit cfg (phaseOut cfg t ph st).exit) (h : inBuf st.depth = true) :
    (match setJmp st (phaseFn cfg t ph) with
      | .error f => (.error f : Except Stop Acc)
      | .ok j => afterTry cfg t j (before ++ vvU cfg (vvBefore ph)) (vvU cfg (vvAfter ph)))
      = .ok ⟨(phaseStep cfg t ph st).st, before ++ (phaseStep cfg t ph st).evs⟩ := by
  rw [setJmp_phase cfg t ph st h]
  simp only [phaseStep]
  cases hx : (phaseOut cfg t ph st).exit with
  | normal => simp [afterTry, caught, excRecs, vvTail]
  | longjmp => simp [afterTry, caught, excRecs, vvTail]
  | exc k =>
    rw [hx] at hq
    cases k with
    | failed => simp [afterTry, catchClauses, caught, excRecs, vvTail, restoreJumpBuffer, TSt.dec, stAfter]
    | std =>
      have hr : cfg.rethrow = false := by
        rcases hq with h | h
        · exact h
        · exact absurd rfl h.1
      simp [afterTry, catchClauses, caught, excRecs, vvTail, hr, restoreJumpBuffer, shellAddFailure, TSt.dec, stAfter]
    | other =>
      have hr : cfg.rethrow = false := by
        rcases hq with h | h
        · exact h
        · exact absurd rfl h.2
      simp [afterTry, catchClauses, caught, excRecs, vvTail, hr, restoreJumpBuffer, shellAddFailure, TSt.dec, stAfter]

theorem exitOf_noexc (p : List Stmt) (k : ExcKind) : exitOf false p ≠ .exc k := by
  induction p with
  | nil => simp [exitOf]
  | cons s rest ih =>
    cases s with
    | check k pass loc msg =>
      cases hfw : k.failsWhen pass
      · simpa [exitOf, hfw] using ih
      · cases hc : k.isC <;> simp [exitOf, hfw, hc]
    | _ => simp [exitOf, ih]

theorem phaseOut_exit_noexc (cfg : Cfg) (t : Test) (ph : Phase) (st : TSt) (k : ExcKind)
    (hx : cfg.exceptions = false) : (phaseOut cfg t ph st).exit ≠ .exc k := by
  simp only [phaseOut, runStmts_exit, hx]; exact exitOf_noexc _ k

theorem vvU_noexc (cfg : Cfg) (s : String) (hx : cfg.exceptions = false) : vvU cfg s = [] := by
  simp [vvU, hx]

theorem noexc_phase (cfg : Cfg) (t : Test) (ph : Phase) (st : TSt) (before : List Ev)
    (hx : cfg.exceptions = false) (h : inBuf st.depth = true) :
    (match setJmp st (phaseFn cfg t ph) with
      | .error f => (.error f : Except Stop Acc)
      | .ok j => noEsc j before)
      = .ok ⟨(phaseStep cfg t ph st).st, before ++ (phaseStep cfg t ph st).evs⟩ := by
  rw [setJmp_phase cfg t ph st h]
  simp only [phaseStep]
  cases hex : (phaseOut cfg t ph st).exit with
  | normal => simp [noEsc, caught, excRecs, vvTail, vvU_noexc cfg _ hx]
  | longjmp => simp [noEsc, caught, excRecs, vvTail, vvU_noexc cfg _ hx]
  | exc k => exact absurd hex (phaseOut_exit_noexc cfg t ph st k hx)

/-- state and events after setup and (if setup returned normally) body -/
def afterBody (cfg : Cfg) (t : Test) (st : TSt) : Acc :=
  if (phaseOut cfg t .setup st).exit = .normal then
    ⟨(phaseStep cfg t .body (phaseStep cfg t .setup st).st).st,
     (phaseStep cfg t .setup st).evs ++ (phaseStep cfg t .body (phaseStep cfg t .setup st).st).evs⟩
  else phaseStep cfg t .setup st

@[simp] theorem afterBody_depth (cfg : Cfg) (t : Test) (st : TSt) : (afterBody cfg t st).st.depth = st.depth := by
  unfold afterBody; split <;> simp
@[simp] theorem afterBody_current (cfg : Cfg) (t : Test) (st : TSt) : (afterBody cfg t st).st.current = st.current := by
  unfold afterBody; split <;> simp

/-- `Utest::run`: setup; body if setup returned normally; teardown -/
def utestClosed (cfg : Cfg) (t : Test) (st : TSt) : Acc :=
  ⟨(phaseStep cfg t .teardown (afterBody cfg t st).st).st,
   (afterBody cfg t st).evs ++ (phaseStep cfg t .teardown (afterBody cfg t st).st).evs⟩

theorem tryBlock1_closed (cfg : Cfg) (t : Test) (st : TSt)
    (hq : QuietTest cfg t) (h : inBuf st.depth = true) :
    tryBlock1 cfg t st = .ok (afterBody cfg t st) := by
  have hs := try_phase cfg t .setup st [] (quietExit_of_test hq .setup st) h
  simp only [List.nil_append] at hs
  unfold tryBlock1 afterBody
  cases hj : setJmp st (phaseFn cfg t .setup) with
  | error f => rw [hj] at hs; simp at hs
  | ok j1 =>
    rw [hj] at hs
    simp only [] at hs ⊢
    rw [hs]
    simp only []
    have hjp := setJmp_phase cfg t .setup st h
    rw [hj] at hjp
    cases hx : (phaseOut cfg t .setup st).exit with
    | normal =>
      rw [hx] at hjp
      have hj1 : j1 = ⟨stAfter cfg t .setup st, phaseEvs cfg t .setup st, true, none⟩ := Except.ok.inj hjp
      subst hj1
      simp only [bodyIfSetupReturned, if_true]
      exact try_phase cfg t .body (phaseStep cfg t .setup st).st (phaseStep cfg t .setup st).evs
        (quietExit_of_test hq .body _) (by simpa using h)
    | longjmp =>
      rw [hx] at hjp
      have hj1 : j1 = ⟨stAfter cfg t .setup st, phaseEvs cfg t .setup st, false, none⟩ := Except.ok.inj hjp
      subst hj1
      simp [bodyIfSetupReturned]
    | exc k =>
      rw [hx] at hjp
      have hj1 : j1 = ⟨{ stAfter cfg t .setup st with depth := st.depth + 1 }, phaseEvs cfg t .setup st, false, some k⟩ :=
        Except.ok.inj hjp
      subst hj1
      simp

theorem tryBlock2_closed (cfg : Cfg) (t : Test) (a : Acc)
    (hq : QuietTest cfg t) (h : inBuf a.st.depth = true) :
    tryBlock2 cfg t a = .ok ⟨(phaseStep cfg t .teardown a.st).st, a.evs ++ (phaseStep cfg t .teardown a.st).evs⟩ := by
  unfold tryBlock2
  exact try_phase cfg t .teardown a.st a.evs (quietExit_of_test hq .teardown _) h

theorem utestRunExc_closed (cfg : Cfg) (t : Test) (st : TSt)
    (hq : QuietTest cfg t) (h : inBuf st.depth = true) :
    utestRunExc cfg t st = .ok (utestClosed cfg t st) := by
  unfold utestRunExc
  rw [tryBlock1_closed cfg t st hq h]
  simp only []
  rw [tryBlock2_closed cfg t _ hq (by simpa using h)]
  rfl

theorem phaseStep_of_normal (cfg : Cfg) (t : Test) (ph : Phase) (st : TSt)
    (hn : cfg.exceptions = false) (hx : (phaseOut cfg t ph st).exit = .normal) :
    phaseStep cfg t ph st = ⟨stAfter cfg t ph st, phaseEvs cfg t ph st⟩ := by
  simp [phaseStep, hx, caught, excRecs, vvTail, vvU_noexc cfg _ hn]

theorem phaseStep_of_longjmp (cfg : Cfg) (t : Test) (ph : Phase) (st : TSt)
    (hn : cfg.exceptions = false) (hx : (phaseOut cfg t ph st).exit = .longjmp) :
    phaseStep cfg t ph st = ⟨stAfter cfg t ph st, phaseEvs cfg t ph st⟩ := by
  simp [phaseStep, hx, caught, excRecs, vvTail, vvU_noexc cfg _ hn]

theorem bodyNoExc_closed (cfg : Cfg) (t : Test) (st : TSt)
    (hx : cfg.exceptions = false) (h : inBuf st.depth = true) :
    (match setJmp st (phaseFn cfg t .setup) with
      | .error f => (.error f : Except Stop Acc)
      | .ok j1 => bodyNoExc cfg t j1) = .ok (afterBody cfg t st) := by
  unfold afterBody
  rw [setJmp_phase cfg t .setup st h]
  cases hex : (phaseOut cfg t .setup st).exit with
  | normal =>
    rw [phaseStep_of_normal cfg t .setup st hx hex]
    simp only [bodyNoExc, if_true]
    exact noexc_phase cfg t .body (stAfter cfg t .setup st) (phaseEvs cfg t .setup st) hx (by simpa [stAfter] using h)
  | longjmp =>
    rw [phaseStep_of_longjmp cfg t .setup st hx hex]
    simp [bodyNoExc]
  | exc k => exact absurd hex (phaseOut_exit_noexc cfg t .setup st k hx)

theorem utestRunNoExc_closed (cfg : Cfg) (t : Test) (st : TSt)
    (hx : cfg.exceptions = false) (h : inBuf st.depth = true) :
    utestRunNoExc cfg t st = .ok (utestClosed cfg t st) := by
  have hb := bodyNoExc_closed cfg t st hx h
  unfold utestRunNoExc
  cases hs : setJmp st (phaseFn cfg t .setup) with
  | error f => simp [hs] at hb
  | ok j1 =>
    simp only [hs] at hb
    simp only [hb, teardownNoExc, utestClosed]
    exact noexc_phase cfg t .teardown _ _ hx (by simpa using h)

theorem utestRun_closed (cfg : Cfg) (t : Test) (st : TSt)
    (hq : QuietTest cfg t) (h : inBuf st.depth = true) :
    utestRun cfg t st = .ok (utestClosed cfg t st) := by
  unfold utestRun
  cases hx : cfg.exceptions with
  | true => simp [utestRunExc_closed cfg t st hq h]
  | false => simp [utestRunNoExc_closed cfg t st hx h]

/-! ## what one test does, read off the closed form -/

/-- `checks` more checks counted, `fails` more failures counted -/
def Result.bump (r : Result) (checks fails : Nat) : Result :=
  { r with checkCount := r.checkCount + checks, failureCount := r.failureCount + fails }

@[simp] theorem bump_bump (r : Result) (a b c d : Nat) : (r.bump a b).bump c d = r.bump (a + c) (b + d) := by
  simp [Result.bump, Nat.add_assoc]
@[simp] theorem bump_zero (r : Result) : r.bump 0 0 = r := by simp [Result.bump]

theorem phaseStep_enters (cfg : Cfg) (t : Test) (ph : Phase) (st : TSt) :
    entersOf (phaseStep cfg t ph st).evs = [ph] := by
  have h := (runStmts_enters cfg t ph (st.depth + 1) (stmtsOf t ph) st.res st.hasFailed).1
  simp only [phaseStep, phaseEvs, phaseOut, entersOf_append, entersOf_cons, h]
  cases (runStmts cfg t ph (st.depth + 1) st.res st.hasFailed (stmtsOf t ph)).exit with
  | normal => simp [excRecs, Ev.enter?]
  | longjmp => simp [excRecs, Ev.enter?]
  | exc k => cases k <;> simp [excRecs, Ev.enter?]

theorem phaseStep_marks (cfg : Cfg) (t : Test) (ph : Phase) (st : TSt) :
    marksIn (phaseStep cfg t ph st).evs = (marksOf (executed cfg.exceptions (stmtsOf t ph))).map (fun n => (ph, n)) := by
  have h := runStmts_marks cfg t ph (st.depth + 1) (stmtsOf t ph) st.res st.hasFailed
  simp only [phaseStep, phaseEvs, phaseOut, marksIn_append, marksIn_cons, h]
  cases (runStmts cfg t ph (st.depth + 1) st.res st.hasFailed (stmtsOf t ph)).exit with
  | normal => simp [excRecs, Ev.mark?]
  | longjmp => simp [excRecs, Ev.mark?]
  | exc k => cases k <;> simp [excRecs, Ev.mark?]

theorem failuresOf_map_failure (l : List FailRec) : failuresOf (l.map Ev.failure) = l := by
  induction l with
  | nil => rfl
  | cons a l ih => simp [Ev.failure?, ih]

theorem phaseStep_failures (cfg : Cfg) (t : Test) (ph : Phase) (st : TSt) :
    failuresOf (phaseStep cfg t ph st).evs = phaseFailures cfg t (stmtsOf t ph) := by
  have h := runStmts_failures cfg t ph (st.depth + 1) (stmtsOf t ph) st.res st.hasFailed
  have hx := runStmts_exit cfg t ph (st.depth + 1) (stmtsOf t ph) st.res st.hasFailed
  simp only [phaseStep, phaseEvs, phaseOut, failuresOf_append, failuresOf_cons, h, hx, failuresOf_map_failure,
    phaseFailures_eq]
  simp [Ev.failure?]

theorem phaseStep_other (cfg : Cfg) (t : Test) (ph : Phase) (st : TSt) :
    summariesOf (phaseStep cfg t ph st).evs = [] ∧ endedOf (phaseStep cfg t ph st).evs = [] := by
  have h := runStmts_enters cfg t ph (st.depth + 1) (stmtsOf t ph) st.res st.hasFailed
  simp only [phaseStep, phaseEvs, phaseOut, summariesOf_append, summariesOf_cons, endedOf_append, endedOf_cons, h.2.1, h.2.2]
  cases (runStmts cfg t ph (st.depth + 1) st.res st.hasFailed (stmtsOf t ph)).exit with
  | normal => simp [excRecs, Ev.summary?, Ev.ended?]
  | longjmp => simp [excRecs, Ev.summary?, Ev.ended?]
  | exc k => cases k <;> simp [excRecs, Ev.summary?, Ev.ended?]

theorem phaseStep_res (cfg : Cfg) (t : Test) (ph : Phase) (st : TSt) :
    (phaseStep cfg t ph st).st.res =
      st.res.bump (checksOf (executed cfg.exceptions (stmtsOf t ph))) (phaseFailures cfg t (stmtsOf t ph)).length := by
  have h := runStmts_res cfg t ph (st.depth + 1) (stmtsOf t ph) st.res st.hasFailed
  have hx := runStmts_exit cfg t ph (st.depth + 1) (stmtsOf t ph) st.res st.hasFailed
  simp only [phaseStep, stAfter, phaseOut, h, hx, phaseFailures_eq, List.length_append]
  cases exitOf cfg.exceptions (stmtsOf t ph) with
  | normal => simp [caught, excRecs, Result.bump]
  | longjmp => simp [caught, excRecs, Result.bump]
  | exc k => cases k <;> simp [caught, excRecs, Result.bump, shellAddFailure, Result.countFailure, Nat.add_assoc]

theorem phaseStep_hasFailed (cfg : Cfg) (t : Test) (ph : Phase) (st : TSt) :
    (phaseStep cfg t ph st).st.hasFailed = (st.hasFailed || !(phaseFailures cfg t (stmtsOf t ph)).isEmpty) := by
  have h := runStmts_hasFailed cfg t ph (st.depth + 1) (stmtsOf t ph) st.res st.hasFailed
  have hx := runStmts_exit cfg t ph (st.depth + 1) (stmtsOf t ph) st.res st.hasFailed
  simp only [phaseStep, stAfter, phaseOut, h, hx, phaseFailures_eq]
  cases exitOf cfg.exceptions (stmtsOf t ph) with
  | normal => simp [caught, excRecs]
  | longjmp => simp [caught, excRecs]
  | exc k => cases k <;> simp [caught, excRecs, shellAddFailure]

theorem setup_normal_iff (cfg : Cfg) (t : Test) (st : TSt) :
    (phaseOut cfg t .setup st).exit = .normal ↔ completes cfg.exceptions t.setup = true := by
  simp only [phaseOut, runStmts_exit, stmtsOf]
  exact exitOf_normal_iff cfg.exceptions t.setup

theorem utestClosed_enters (cfg : Cfg) (t : Test) (st : TSt) :
    entersOf (utestClosed cfg t st).evs = phasesRun cfg t := by
  simp only [utestClosed, afterBody, phasesRun, setup_normal_iff]
  cases completes cfg.exceptions t.setup <;> simp [phaseStep_enters]

theorem utestClosed_marks (cfg : Cfg) (t : Test) (st : TSt) :
    marksIn (utestClosed cfg t st).evs = testMarks cfg t := by
  simp only [utestClosed, afterBody, testMarks, phasesRun, setup_normal_iff]
  cases completes cfg.exceptions t.setup <;> simp [phaseStep_marks]

theorem utestClosed_failures (cfg : Cfg) (t : Test) (st : TSt) :
    failuresOf (utestClosed cfg t st).evs = testPhaseFailures cfg t := by
  simp only [utestClosed, afterBody, testPhaseFailures, phasesRun, setup_normal_iff]
  cases completes cfg.exceptions t.setup <;> simp [phaseStep_failures]

theorem utestClosed_other (cfg : Cfg) (t : Test) (st : TSt) :
    summariesOf (utestClosed cfg t st).evs = [] ∧ endedOf (utestClosed cfg t st).evs = [] := by
  simp only [utestClosed, afterBody]
  split <;> simp [phaseStep_other]

theorem utestClosed_res (cfg : Cfg) (t : Test) (st : TSt) :
    (utestClosed cfg t st).st.res = st.res.bump (testChecks cfg t) (testPhaseFailures cfg t).length := by
  simp only [utestClosed, afterBody, testChecks, testPhaseFailures, phasesRun, setup_normal_iff]
  cases completes cfg.exceptions t.setup <;> simp [phaseStep_res, Nat.add_assoc]

theorem isEmpty_append' {α} (a b : List α) : (a ++ b).isEmpty = (a.isEmpty && b.isEmpty) := by
  cases a <;> simp

theorem utestClosed_hasFailed (cfg : Cfg) (t : Test) (st : TSt) :
    (utestClosed cfg t st).st.hasFailed = (st.hasFailed || !(testPhaseFailures cfg t).isEmpty) := by
  simp only [utestClosed, afterBody, testPhaseFailures, phasesRun, setup_normal_iff]
  cases completes cfg.exceptions t.setup <;> simp [phaseStep_hasFailed, Bool.or_assoc, isEmpty_append', Bool.not_and]

@[simp] theorem utestClosed_depth (cfg : Cfg) (t : Test) (st : TSt) : (utestClosed cfg t st).st.depth = st.depth := by
  simp [utestClosed]
@[simp] theorem utestClosed_current (cfg : Cfg) (t : Test) (st : TSt) : (utestClosed cfg t st).st.current = st.current := by
  simp [utestClosed]

/-! ## plugins -/

theorem reportErrs_spec (cfg : Cfg) (t : Test) : ∀ (errs : List PErr) (st : TSt),
    (reportErrs cfg t errs st).st = { st with res := st.res.bump 0 (pluginErrs cfg t errs).length } ∧
    (reportErrs cfg t errs st).evs = (pluginErrs cfg t errs).map Ev.failure
  | [], st => by simp [reportErrs, pluginErrs]
  | e :: rest, st => by
    have ih := reportErrs_spec cfg t rest
    unfold reportErrs
    cases h : e.applies t with
    | true =>
      simp only [if_true, pluginErrs, List.filter_cons, h, List.map_cons, List.length_cons]
      simp only [pluginErrs] at ih
      refine ⟨?_, ?_⟩
      · rw [(ih _).1]; simp [Result.bump, Result.countFailure]; omega
      · rw [(ih _).2]
    | false =>
      simp only [pluginErrs, List.filter_cons, h]
      simpa [pluginErrs] using ih st

/-- an event list that contains failure records and plugin notifications only -/
def OnlyFailures (evs : List Ev) : Prop :=
  marksIn evs = [] ∧ entersOf evs = [] ∧ summariesOf evs = [] ∧ endedOf evs = [] ∧ plainToksOf evs = []

theorem onlyFailures_map (l : List FailRec) : OnlyFailures (l.map Ev.failure) := by
  induction l with
  | nil => simp [OnlyFailures]
  | cons a l ih =>
    obtain ⟨h1, h2, h3, h4, h5⟩ := ih
    simp [OnlyFailures, Ev.mark?, Ev.enter?, Ev.summary?, Ev.ended?, Ev.tok?, h1, h2, h3, h4, h5]

theorem onlyFailures_append {a b : List Ev} (ha : OnlyFailures a) (hb : OnlyFailures b) : OnlyFailures (a ++ b) := by
  obtain ⟨a1, a2, a3, a4, a5⟩ := ha
  obtain ⟨b1, b2, b3, b4, b5⟩ := hb
  simp [OnlyFailures, a1, a2, a3, a4, a5, b1, b2, b3, b4, b5]

theorem onlyFailures_plug (name : String) (post : Bool) (d : Int) {a : List Ev} (ha : OnlyFailures a) :
    OnlyFailures (.plug name post d :: a) := by
  obtain ⟨a1, a2, a3, a4, a5⟩ := ha
  simp [OnlyFailures, Ev.mark?, Ev.enter?, Ev.summary?, Ev.ended?, Ev.tok?, a1, a2, a3, a4, a5]

theorem runAllPre_spec (cfg : Cfg) (t : Test) : ∀ (ps : List Plugin) (st : TSt),
    (runAllPre cfg t ps st).st = { st with res := st.res.bump 0 (preFailures cfg ps t).length } ∧
    failuresOf (runAllPre cfg t ps st).evs = preFailures cfg ps t ∧
    OnlyFailures (runAllPre cfg t ps st).evs
  | [], st => by simp [runAllPre, preFailures, OnlyFailures]
  | p :: rest, st => by
    have ih := runAllPre_spec cfg t rest
    unfold runAllPre
    cases h : p.enabled with
    | false => simpa [preFailures, List.filter_cons, h] using ih st
    | true =>
      have hr := reportErrs_spec cfg t p.pre st
      simp only [if_true, preFailures, List.filter_cons, h, List.flatMap_cons, List.length_append]
      simp only [preFailures] at ih
      refine ⟨?_, ?_, ?_⟩
      · rw [(ih _).1, hr.1]; simp
      · simp [Ev.failure?, hr.2, failuresOf_map_failure, (ih _).2.1]
      · exact onlyFailures_plug _ _ _ (onlyFailures_append (hr.2 ▸ onlyFailures_map _) (ih _).2.2)

theorem postFailures_cons (cfg : Cfg) (t : Test) (p : Plugin) (rest : List Plugin) :
    postFailures cfg (p :: rest) t =
      postFailures cfg rest t ++ (if p.enabled then pluginErrs cfg t p.post else []) := by
  simp only [postFailures, List.reverse_cons, List.filter_append, List.flatMap_append]
  cases h : p.enabled <;> simp [h]

theorem runAllPost_spec (cfg : Cfg) (t : Test) : ∀ (ps : List Plugin) (st : TSt),
    (runAllPost cfg t ps st).st = { st with res := st.res.bump 0 (postFailures cfg ps t).length } ∧
    failuresOf (runAllPost cfg t ps st).evs = postFailures cfg ps t ∧
    OnlyFailures (runAllPost cfg t ps st).evs
  | [], st => by simp [runAllPost, postFailures, OnlyFailures]
  | p :: rest, st => by
    have ih := runAllPost_spec cfg t rest st
    unfold runAllPost
    rw [postFailures_cons]
    cases h : p.enabled with
    | false => simpa [h] using ih
    | true =>
      have hr := reportErrs_spec cfg t p.post (runAllPost cfg t rest st).st
      simp only [if_true, List.length_append]
      refine ⟨?_, ?_, ?_⟩
      · rw [hr.1, ih.1]; simp
      · simp [Ev.failure?, hr.2, failuresOf_map_failure, ih.2.1]
      · exact onlyFailures_append ih.2.2 (onlyFailures_plug _ _ _ (hr.2 ▸ onlyFailures_map _))

@[simp] theorem runAllPre_depth (cfg : Cfg) (t : Test) (ps : List Plugin) (st : TSt) :
    (runAllPre cfg t ps st).st.depth = st.depth := by rw [(runAllPre_spec cfg t ps st).1]
@[simp] theorem runAllPre_current (cfg : Cfg) (t : Test) (ps : List Plugin) (st : TSt) :
    (runAllPre cfg t ps st).st.current = st.current := by rw [(runAllPre_spec cfg t ps st).1]
@[simp] theorem runAllPre_hasFailed (cfg : Cfg) (t : Test) (ps : List Plugin) (st : TSt) :
    (runAllPre cfg t ps st).st.hasFailed = st.hasFailed := by rw [(runAllPre_spec cfg t ps st).1]
@[simp] theorem runAllPre_res (cfg : Cfg) (t : Test) (ps : List Plugin) (st : TSt) :
    (runAllPre cfg t ps st).st.res = st.res.bump 0 (preFailures cfg ps t).length := by
  rw [(runAllPre_spec cfg t ps st).1]
@[simp] theorem runAllPost_depth (cfg : Cfg) (t : Test) (ps : List Plugin) (st : TSt) :
    (runAllPost cfg t ps st).st.depth = st.depth := by rw [(runAllPost_spec cfg t ps st).1]
@[simp] theorem runAllPost_current (cfg : Cfg) (t : Test) (ps : List Plugin) (st : TSt) :
    (runAllPost cfg t ps st).st.current = st.current := by rw [(runAllPost_spec cfg t ps st).1]
@[simp] theorem runAllPost_hasFailed (cfg : Cfg) (t : Test) (ps : List Plugin) (st : TSt) :
    (runAllPost cfg t ps st).st.hasFailed = st.hasFailed := by rw [(runAllPost_spec cfg t ps st).1]
@[simp] theorem runAllPost_res (cfg : Cfg) (t : Test) (ps : List Plugin) (st : TSt) :
    (runAllPost cfg t ps st).st.res = st.res.bump 0 (postFailures cfg ps t).length := by
  rw [(runAllPost_spec cfg t ps st).1]


/-! ## plain strings of one test -/

theorem plain_vv (cfg : Cfg) (s : String) (hv : cfg.veryVerbose = false) : plainToksOf (vv cfg s) = [] := by
  simp [vv, hv]
theorem plain_vvU (cfg : Cfg) (s : String) (hv : cfg.veryVerbose = false) : plainToksOf (vvU cfg s) = [] := by
  simp [vvU, hv]
theorem plain_vvTail (cfg : Cfg) (ph : Phase) (e : Exit) (hv : cfg.veryVerbose = false) :
    plainToksOf (vvTail cfg ph e) = [] := by
  unfold vvTail; split <;> simp [plain_vvU cfg _ hv]

theorem plain_map_failure (l : List FailRec) : plainToksOf (l.map Ev.failure) = [] := by
  induction l with
  | nil => rfl
  | cons a l ih => simp [Ev.tok?, ih]

/-! ## no plain string of the runner can be mistaken for a marker -/

theorem repr_ne_of_nondigit (n : Nat) (s : String) (c : Char) (hc : c ∈ s.toList) (hd : c.isDigit = false) :
    n.repr ≠ s := by
  intro h
  have hm : c ∈ Nat.toDigits 10 n := by rw [← Nat.toList_repr, h]; exact hc
  have := Nat.isDigit_of_mem_toDigits (by decide) (by decide) hm
  rw [hd] at this; exact absurd this (by decide)

theorem repr_ne_ranNothing (n : Nat) : n.repr ≠ "ran nothing, " :=
  repr_ne_of_nondigit n _ 'r' (by decide) (by decide)
theorem repr_ne_marker (n : Nat) : n.repr ≠ failureMarker :=
  repr_ne_of_nondigit n _ 'F' (by decide) (by decide)
theorem repr_ne_ok (n : Nat) : n.repr ≠ "OK (" :=
  repr_ne_of_nondigit n _ 'O' (by decide) (by decide)
theorem repr_ne_errors (n : Nat) : n.repr ≠ "Errors (" :=
  repr_ne_of_nondigit n _ 'E' (by decide) (by decide)
theorem repr_not_marker (n : Nat) : toString n ∉ markers := by
  simp [markers, repr_ne_ok, repr_ne_errors, (repr_ne_marker n : n.repr ≠ " Failure in ")]
  exact repr_ne_marker n



/-- no plain console string of the event list is one of the strings the reader keys on -/
def SafePlain (evs : List Ev) : Prop := ∀ s ∈ plainToksOf evs, s ∉ markers

@[simp] theorem safePlain_nil : SafePlain [] := by simp [SafePlain]
@[simp] theorem safePlain_append (a b : List Ev) : SafePlain (a ++ b) ↔ SafePlain a ∧ SafePlain b := by
  simp only [SafePlain, plainToksOf_append, List.mem_append]
  constructor
  · intro h; exact ⟨fun s hs => h s (Or.inl hs), fun s hs => h s (Or.inr hs)⟩
  · rintro ⟨h1, h2⟩ s (hs | hs)
    · exact h1 s hs
    · exact h2 s hs
theorem safePlain_cons (e : Ev) (l : List Ev) :
    SafePlain (e :: l) ↔ (∀ s, Ev.tok? e = some s → s ∉ markers) ∧ SafePlain l := by
  cases h : Ev.tok? e <;> simp [SafePlain, h]
theorem safePlain_of_nil {evs : List Ev} (h : plainToksOf evs = []) : SafePlain evs := by
  simp [SafePlain, h]

theorem endsParen (a : String) (m : String) (hm : m.toList.getLast? ≠ some ')') : a ++ ")" ≠ m := by
  intro h
  apply hm
  rw [← h]
  simp [String.toList_append]

theorem formattedName_not_marker (cfg : Cfg) (t : Test) : formattedName cfg t ∉ markers := by
  unfold formattedName markers
  simp only [List.mem_cons, List.mem_nil_iff, or_false, not_or]
  exact ⟨endsParen _ _ (by decide), endsParen _ _ (by decide), endsParen _ _ (by decide)⟩

theorem safePlain_vv (cfg : Cfg) (s : String) (hs : s ∉ markers) : SafePlain (vv cfg s) := by
  unfold vv; split
  · simp [safePlain_cons, Ev.tok?, hs]
  · simp
theorem safePlain_vvU (cfg : Cfg) (s : String) (hs : s ∉ markers) : SafePlain (vvU cfg s) := by
  unfold vvU; split
  · simp [safePlain_cons, Ev.tok?, hs]
  · simp
theorem vvBefore_safe (ph : Phase) : vvBefore ph ∉ markers := by cases ph <;> simp [vvBefore, markers]
theorem vvAfter_safe (ph : Phase) : vvAfter ph ∉ markers := by cases ph <;> simp [vvAfter, markers]
theorem safePlain_vvTail (cfg : Cfg) (ph : Phase) (e : Exit) : SafePlain (vvTail cfg ph e) := by
  unfold vvTail; split
  · simp
  · exact safePlain_vvU cfg _ (vvAfter_safe ph)

theorem phaseStep_safe (cfg : Cfg) (t : Test) (ph : Phase) (st : TSt) : SafePlain (phaseStep cfg t ph st).evs := by
  simp only [phaseStep, safePlain_append]
  refine ⟨⟨safePlain_vvU cfg _ (vvBefore_safe ph), ?_, ?_⟩, safePlain_vvTail cfg ph _⟩
  · apply safePlain_of_nil
    simp [phaseEvs, phaseOut, runStmts_plain, Ev.tok?]
  · exact safePlain_of_nil (plain_map_failure _)

theorem utestClosed_safe (cfg : Cfg) (t : Test) (st : TSt) : SafePlain (utestClosed cfg t st).evs := by
  simp only [utestClosed, afterBody]
  split <;> simp [phaseStep_safe]

theorem phaseStep_plain (cfg : Cfg) (t : Test) (ph : Phase) (st : TSt) (hv : cfg.veryVerbose = false) :
    plainToksOf (phaseStep cfg t ph st).evs = [] := by
  simp [phaseStep, phaseEvs, phaseOut, plain_vvU cfg _ hv, plain_vvTail cfg _ _ hv, runStmts_plain, Ev.tok?,
    plain_map_failure]

theorem utestClosed_plain (cfg : Cfg) (t : Test) (st : TSt) (hv : cfg.veryVerbose = false) :
    plainToksOf (utestClosed cfg t st).evs = [] := by
  simp only [utestClosed, afterBody]
  split <;> simp [phaseStep_plain cfg t _ _ hv]

/-! ## UtestShell::runOneTest -/

/-- everything the theorems need to know about one `runOneTest` call -/
structure TestOutcome (cfg : Cfg) (plugins : List Plugin) (t : Test) (st : TSt) (j : JmpOut) : Prop where
  esc : j.esc = none
  depth : j.st.depth = st.depth
  current : j.st.current = st.current
  res : j.st.res = (st.res.countRun).bump (testChecks cfg t) (testFailures cfg plugins t).length
  hasFailed : j.st.hasFailed = !(testPhaseFailures cfg t).isEmpty
  failures : failuresOf j.evs = testFailures cfg plugins t
  marks : marksIn j.evs = testMarks cfg t
  enters : entersOf j.evs = phasesRun cfg t
  summaries : summariesOf j.evs = []
  ended : endedOf j.evs = []
  plain : cfg.veryVerbose = false → plainToksOf j.evs = []
  safe : SafePlain j.evs

theorem runOneTest_closed (cfg : Cfg) (plugins : List Plugin) (t : Test) (st : TSt)
    (hq : QuietTest cfg t) (h0 : inBuf st.depth = true) (h1 : inBuf (st.depth + 1) = true) :
    ∃ j, runOneTest cfg plugins t st = .ok j ∧ TestOutcome cfg plugins t st j := by
  unfold runOneTest setJmp
  simp only [h0, Bool.not_true, Bool.false_eq_true, if_false, runOneTestInCurrentProcess]
  rw [utestRun_closed cfg t _ hq (by simpa using h1)]
  simp only [setJmpAfter, afterRun, beforeRun, TSt.dec]
  refine ⟨_, rfl, ?_⟩
  constructor
  · rfl
  · simp
  · simp
  · simp [utestClosed_res, testFailures, Nat.add_assoc]
  · simp [utestClosed_hasFailed]
  · simp [(runAllPre_spec cfg t plugins _).2.1, (runAllPost_spec cfg t plugins _).2.1, utestClosed_failures, testFailures]
  · simp [(runAllPre_spec cfg t plugins _).2.2.1, (runAllPost_spec cfg t plugins _).2.2.1, utestClosed_marks]
  · simp [(runAllPre_spec cfg t plugins _).2.2.2.1, (runAllPost_spec cfg t plugins _).2.2.2.1, utestClosed_enters]
  · simp [(runAllPre_spec cfg t plugins _).2.2.2.2.1, (runAllPost_spec cfg t plugins _).2.2.2.2.1, (utestClosed_other cfg t _).1]
  · simp [(runAllPre_spec cfg t plugins _).2.2.2.2.2.1, (runAllPost_spec cfg t plugins _).2.2.2.2.2.1, (utestClosed_other cfg t _).2]
  · intro hv
    simp [(runAllPre_spec cfg t plugins _).2.2.2.2.2.2, (runAllPost_spec cfg t plugins _).2.2.2.2.2.2,
      utestClosed_plain cfg t _ hv, plain_vv cfg _ hv]
  · simp only [safePlain_append]
    repeat' (apply And.intro)
    all_goals first
      | exact safePlain_vv cfg _ (by simp [markers])
      | exact utestClosed_safe cfg t _
      | exact safePlain_of_nil (runAllPre_spec cfg t plugins _).2.2.2.2.2.2
      | exact safePlain_of_nil (runAllPost_spec cfg t plugins _).2.2.2.2.2.2

/-! ## no "separate process" record inside one in-process test -/

theorem records_vv (cfg : Cfg) (s : String) : recordsOf (vv cfg s) = [] := by
  unfold vv; split <;> simp [Ev.record?]
theorem records_vvU (cfg : Cfg) (s : String) : recordsOf (vvU cfg s) = [] := by
  unfold vvU; split <;> simp [Ev.record?]
theorem records_vvTail (cfg : Cfg) (ph : Phase) (e : Exit) : recordsOf (vvTail cfg ph e) = [] := by
  unfold vvTail; split <;> simp [records_vvU]
theorem records_map_failure (l : List FailRec) : recordsOf (l.map Ev.failure) = l := by
  induction l with
  | nil => rfl
  | cons a l ih => simp [Ev.record?, ih]

theorem phaseStep_records (cfg : Cfg) (t : Test) (ph : Phase) (st : TSt) :
    recordsOf (phaseStep cfg t ph st).evs = failuresOf (phaseStep cfg t ph st).evs := by
  simp [phaseStep, phaseEvs, phaseOut, records_vvU, records_vvTail, runStmts_records, records_map_failure,
    failuresOf_map_failure, Ev.record?, Ev.failure?]

theorem utestClosed_records (cfg : Cfg) (t : Test) (st : TSt) :
    recordsOf (utestClosed cfg t st).evs = failuresOf (utestClosed cfg t st).evs := by
  simp only [utestClosed, afterBody]
  split <;> simp [phaseStep_records]

theorem reportErrs_records (cfg : Cfg) (t : Test) (errs : List PErr) (st : TSt) :
    recordsOf (reportErrs cfg t errs st).evs = failuresOf (reportErrs cfg t errs st).evs := by
  rw [(reportErrs_spec cfg t errs st).2, records_map_failure, failuresOf_map_failure]

theorem runAllPre_records (cfg : Cfg) (t : Test) : ∀ (ps : List Plugin) (st : TSt),
    recordsOf (runAllPre cfg t ps st).evs = failuresOf (runAllPre cfg t ps st).evs
  | [], st => by simp [runAllPre]
  | p :: rest, st => by
    unfold runAllPre
    cases p.enabled
    · simpa using runAllPre_records cfg t rest st
    · simp [Ev.record?, Ev.failure?, reportErrs_records, runAllPre_records cfg t rest]

theorem runAllPost_records (cfg : Cfg) (t : Test) : ∀ (ps : List Plugin) (st : TSt),
    recordsOf (runAllPost cfg t ps st).evs = failuresOf (runAllPost cfg t ps st).evs
  | [], st => by simp [runAllPost]
  | p :: rest, st => by
    unfold runAllPost
    cases p.enabled
    · simpa using runAllPost_records cfg t rest st
    · simp [Ev.record?, Ev.failure?, reportErrs_records, runAllPost_records cfg t rest]

/-! ## `runOneTestInCurrentProcess`, as the parent or as the forked child runs it -/

structure ChildOutcome (cfg : Cfg) (plugins : List Plugin) (t : Test) (st : TSt) (fr : Frame) : Prop where
  exit : fr.exit = .normal
  depth : fr.st.depth = st.depth
  res : fr.st.res = st.res.bump (testChecks cfg t) (testFailures cfg plugins t).length
  failures : failuresOf fr.evs = testFailures cfg plugins t
  records : recordsOf fr.evs = testFailures cfg plugins t
  marks : marksIn fr.evs = testMarks cfg t
  enters : entersOf fr.evs = phasesRun cfg t
  summaries : summariesOf fr.evs = []
  ended : endedOf fr.evs = []
  plain : cfg.veryVerbose = false → plainToksOf fr.evs = []
  safe : SafePlain fr.evs

theorem inProcess_closed (cfg : Cfg) (plugins : List Plugin) (t : Test) (st : TSt)
    (hq : QuietTest cfg t) (h : inBuf st.depth = true) :
    ∃ fr, runOneTestInCurrentProcess cfg plugins t st = .ok fr ∧ ChildOutcome cfg plugins t st fr := by
  unfold runOneTestInCurrentProcess
  simp only []
  rw [utestRun_closed cfg t _ hq (by simpa using h)]
  simp only [afterRun, beforeRun]
  refine ⟨_, rfl, ?_⟩
  have hf : failuresOf (vv cfg "\n-- before runAllPreTestAction: " ++ (runAllPre cfg t plugins st).evs ++
      vv cfg "\n-- after runAllPreTestAction: " ++ vv cfg "\n---- before createTest: " ++ vv cfg "\n---- after createTest: " ++
      vv cfg "\n------ before runTest: " ++
      (utestClosed cfg t { (runAllPre cfg t plugins st).st with current := some t.name }).evs ++
      vv cfg "\n------ after runTest: " ++ vv cfg "\n---- before destroyTest: " ++ vv cfg "\n---- after destroyTest: " ++
      vv cfg "\n-- before runAllPostTestAction: " ++
      (runAllPost cfg t plugins { (utestClosed cfg t { (runAllPre cfg t plugins st).st with current := some t.name }).st with
        current := (runAllPre cfg t plugins st).st.current }).evs ++ vv cfg "\n-- after runAllPostTestAction: ")
      = testFailures cfg plugins t := by
    simp [(runAllPre_spec cfg t plugins _).2.1, (runAllPost_spec cfg t plugins _).2.1, utestClosed_failures, testFailures]
  constructor
  · rfl
  · simp
  · simp [utestClosed_res, testFailures, Nat.add_assoc]
  · exact hf
  · rw [← hf]
    simp [records_vv, runAllPre_records, runAllPost_records, utestClosed_records]
  · simp [(runAllPre_spec cfg t plugins _).2.2.1, (runAllPost_spec cfg t plugins _).2.2.1, utestClosed_marks]
  · simp [(runAllPre_spec cfg t plugins _).2.2.2.1, (runAllPost_spec cfg t plugins _).2.2.2.1, utestClosed_enters]
  · simp [(runAllPre_spec cfg t plugins _).2.2.2.2.1, (runAllPost_spec cfg t plugins _).2.2.2.2.1, (utestClosed_other cfg t _).1]
  · simp [(runAllPre_spec cfg t plugins _).2.2.2.2.2.1, (runAllPost_spec cfg t plugins _).2.2.2.2.2.1, (utestClosed_other cfg t _).2]
  · intro hv
    simp [(runAllPre_spec cfg t plugins _).2.2.2.2.2.2, (runAllPost_spec cfg t plugins _).2.2.2.2.2.2,
      utestClosed_plain cfg t _ hv, plain_vv cfg _ hv]
  · simp only [safePlain_append]
    repeat' (apply And.intro)
    all_goals first
      | exact safePlain_vv cfg _ (by simp [markers])
      | exact utestClosed_safe cfg t _
      | exact safePlain_of_nil (runAllPre_spec cfg t plugins _).2.2.2.2.2.2
      | exact safePlain_of_nil (runAllPost_spec cfg t plugins _).2.2.2.2.2.2

/-! ## one test in the mode the command line selected (`-p` or not) -/

/-- what the run records for one `test->runOneTest(...)` in either mode -/
structure ModeOutcome (cfg : Cfg) (plugins : List Plugin) (t : Test) (st : TSt) (j : JmpOut) : Prop where
  esc : j.esc = none
  depth : j.st.depth = st.depth
  current : j.st.current = st.current
  res : j.st.res = (st.res.countRun).bump (testChecksCounted cfg t) (testFailCount cfg plugins t)
  hasFailed : j.st.hasFailed = (!cfg.separate && !(testPhaseFailures cfg t).isEmpty)
  failures : failuresOf j.evs = testFailures cfg plugins t
  records : recordsOf j.evs = testRecords cfg plugins t
  marks : marksIn j.evs = testMarks cfg t
  enters : entersOf j.evs = phasesRun cfg t
  summaries : summariesOf j.evs = []
  ended : endedOf j.evs = []
  plain : cfg.veryVerbose = false → plainToksOf j.evs = []
  safe : SafePlain j.evs

theorem sepRec_safe_cons (r : FailRec) (l : List Ev) : SafePlain (l ++ [.sepFailure r]) ↔ SafePlain l := by
  simp [safePlain_cons, Ev.tok?]

theorem runOneTestMode_closed (cfg : Cfg) (plugins : List Plugin) (t : Test) (st : TSt)
    (hq : QuietTest cfg t) (h0 : inBuf st.depth = true) (h1 : inBuf (st.depth + 1) = true) :
    ∃ j, runOneTestMode cfg plugins t st = .ok j ∧ ModeOutcome cfg plugins t st j := by
  unfold runOneTestMode
  cases hsep : cfg.separate with
  | false =>
    simp only [Bool.false_eq_true, if_false]
    obtain ⟨j, hj, o⟩ := runOneTest_closed cfg plugins t st hq h0 h1
    refine ⟨j, hj, ?_⟩
    have hrec : recordsOf j.evs = testFailures cfg plugins t := by
      -- the events are those of runOneTestInCurrentProcess
      unfold runOneTest setJmp at hj
      simp only [h0, Bool.not_true, Bool.false_eq_true, if_false] at hj
      obtain ⟨fr, hfr, ofr⟩ := inProcess_closed cfg plugins t
        { res := st.res.countRun, hasFailed := false, depth := st.depth + 1, current := st.current } hq h1
      rw [hfr] at hj
      simp only [setJmpAfter, ofr.exit] at hj
      have := Except.ok.inj hj
      rw [← this]
      exact ofr.records
    constructor
    · exact o.esc
    · exact o.depth
    · exact o.current
    · rw [o.res]; simp [testChecksCounted, testFailCount, hsep]
    · rw [o.hasFailed]; simp [hsep]
    · exact o.failures
    · rw [hrec]; simp [testRecords, hsep]
    · exact o.marks
    · exact o.enters
    · exact o.summaries
    · exact o.ended
    · exact o.plain
    · exact o.safe
  | true =>
    simp only [if_true]
    unfold runOneTestSeparate setJmp
    simp only [h0, Bool.not_true, Bool.false_eq_true, if_false, separateFn]
    obtain ⟨fr, hfr, ofr⟩ := inProcess_closed cfg plugins t
      { res := st.res.countRun, hasFailed := false, depth := st.depth + 1, current := st.current } hq h1
    rw [hfr]
    simp only [ofr.res]
    cases hne : (testFailures cfg plugins t) with
    | nil =>
      have hlt : ¬ (st.res.countRun.failureCount < (st.res.countRun.bump (testChecks cfg t) (testFailures cfg plugins t).length).failureCount) := by
        simp [Result.bump, hne]
      simp only [hne] at hlt ⊢
      simp only [hlt, if_false, setJmpAfter, TSt.dec]
      refine ⟨_, rfl, ?_⟩
      constructor
      · rfl
      · simp
      · rfl
      · simp [testChecksCounted, testFailCount, hsep, hne]
      · simp [hsep]
      · simpa [hne] using ofr.failures
      · simpa [testRecords, hne] using ofr.records
      · exact ofr.marks
      · exact ofr.enters
      · exact ofr.summaries
      · exact ofr.ended
      · exact ofr.plain
      · exact ofr.safe
    | cons r0 rs =>
      have hlt : st.res.countRun.failureCount < (st.res.countRun.bump (testChecks cfg t) (r0 :: rs).length).failureCount := by
        simp [Result.bump]
      simp only [hlt, if_true, setJmpAfter, TSt.dec]
      refine ⟨_, rfl, ?_⟩
      constructor
      · rfl
      · simp
      · rfl
      · simp [testChecksCounted, testFailCount, hsep, hne, Result.bump, Result.countFailure]
      · simp [hsep]
      · simpa [hne, Ev.failure?] using ofr.failures
      · simp [testRecords, hsep, hne, Ev.record?, sepRec, ofr.records]
      · simpa [Ev.mark?] using ofr.marks
      · simpa [Ev.enter?] using ofr.enters
      · simpa [Ev.summary?] using ofr.summaries
      · simpa [Ev.ended?] using ofr.ended
      · intro hv; simpa [Ev.tok?] using ofr.plain hv
      · exact (sepRec_safe_cons _ _).mpr ofr.safe

/-! ## the loop over the registry -/

/-- an event list without structured events (plain strings, clock readings) -/
def Inert (evs : List Ev) : Prop :=
  failuresOf evs = [] ∧ marksIn evs = [] ∧ entersOf evs = [] ∧ summariesOf evs = [] ∧ endedOf evs = []

/-- ... and no failure record of either kind -/
theorem records_testStartedToks (cfg : Cfg) (t : Test) : recordsOf (testStartedToks cfg t) = [] := by
  unfold testStartedToks; split <;> simp [Ev.record?]
theorem records_testEndedToks (cfg : Cfg) (ind : String) (dots time : Nat) : recordsOf (testEndedToks cfg ind dots time) = [] := by
  unfold testEndedToks; split
  · simp [Ev.record?]
  · split <;> simp [Ev.record?]
theorem records_testRunToks (a b : Nat) : recordsOf (testRunToks a b) = [] := by
  unfold testRunToks; split <;> simp [Ev.record?]
theorem records_groupStarted (cfg : Cfg) (s : LSt) : recordsOf (groupStarted cfg s).evs = [] := by
  unfold groupStarted; split <;> simp [Ev.record?]
theorem records_groupEnded (cfg : Cfg) (last : Bool) (s : LSt) : recordsOf (groupEnded cfg last s).evs = [] := by
  unfold groupEnded; split <;> simp [Ev.record?]

theorem testStartedToks_inert (cfg : Cfg) (t : Test) : Inert (testStartedToks cfg t) := by
  unfold testStartedToks Inert
  split <;> simp [Ev.failure?, Ev.mark?, Ev.enter?, Ev.summary?, Ev.ended?]

theorem testEndedToks_inert (cfg : Cfg) (ind : String) (dots time : Nat) : Inert (testEndedToks cfg ind dots time) := by
  unfold testEndedToks Inert
  split
  · simp [Ev.failure?, Ev.mark?, Ev.enter?, Ev.summary?, Ev.ended?]
  · split <;> simp [Ev.failure?, Ev.mark?, Ev.enter?, Ev.summary?, Ev.ended?]

theorem testRunToks_inert (a b : Nat) : Inert (testRunToks a b) := by
  unfold testRunToks Inert
  split <;> simp [Ev.failure?, Ev.mark?, Ev.enter?, Ev.summary?, Ev.ended?]

theorem groupStarted_inert (cfg : Cfg) (s : LSt) : Inert (groupStarted cfg s).evs := by
  unfold groupStarted Inert
  split <;> simp [Ev.failure?, Ev.mark?, Ev.enter?, Ev.summary?, Ev.ended?]

theorem groupEnded_inert (cfg : Cfg) (last : Bool) (s : LSt) : Inert (groupEnded cfg last s).evs := by
  unfold groupEnded Inert
  split <;> simp [Ev.failure?, Ev.mark?, Ev.enter?, Ev.summary?, Ev.ended?]

theorem testStartedToks_safe (cfg : Cfg) (t : Test) : SafePlain (testStartedToks cfg t) := by
  unfold testStartedToks; split
  · simp [safePlain_cons, Ev.tok?, formattedName_not_marker]
  · simp

theorem testEndedToks_safe (cfg : Cfg) (ind : String) (dots time : Nat) (hi : ind ∉ markers) :
    SafePlain (testEndedToks cfg ind dots time) := by
  unfold testEndedToks
  split
  · simp only [safePlain_cons, Ev.tok?, Option.some.injEq, forall_eq', safePlain_nil, and_true]
    exact ⟨by simp [markers], repr_not_marker time, by simp [markers]⟩
  · split
    · simp only [safePlain_cons, Ev.tok?, Option.some.injEq, forall_eq', safePlain_nil, and_true]
      exact ⟨hi, by simp [markers]⟩
    · simp only [safePlain_cons, Ev.tok?, Option.some.injEq, forall_eq', safePlain_nil, and_true]
      exact hi

theorem testRunToks_safe (a b : Nat) : SafePlain (testRunToks a b) := by
  unfold testRunToks; split
  · simp only [safePlain_cons, Ev.tok?, Option.some.injEq, forall_eq', safePlain_nil, and_true]
    exact ⟨by simp [markers], repr_not_marker a, by simp [markers], repr_not_marker b, by simp [markers]⟩
  · simp

theorem groupStarted_safe (cfg : Cfg) (s : LSt) : SafePlain (groupStarted cfg s).evs := by
  unfold groupStarted; split <;> simp [safePlain_cons, Ev.tok?]

theorem groupEnded_safe (cfg : Cfg) (last : Bool) (s : LSt) : SafePlain (groupEnded cfg last s).evs := by
  unfold groupEnded; split <;> simp [safePlain_cons, Ev.tok?]

/-- the per-test failed flag the property demands: the test ran and one of its phases failed -/
def failedFlag (cfg : Cfg) (t : Test) : Bool :=
  willRun cfg t && (!cfg.separate && !(testPhaseFailures cfg t).isEmpty)

/-- counters after one entry of the registry -/
def addTest (cfg : Cfg) (plugins : List Plugin) (r : Result) (t : Test) : Result :=
  if shouldRun cfg t then
    if willRun cfg t then (r.countTest.countRun).bump (testChecksCounted cfg t) (testFailCount cfg plugins t)
    else r.countTest.countIgnored
  else r.countTest.countFilteredOut

structure EntryOutcome (cfg : Cfg) (plugins : List Plugin) (ts : List Test) (s : LSt) (a : LAcc) : Prop where
  depth : a.st.depth = s.depth
  current : a.st.current = s.current
  res : a.st.res = ts.foldl (addTest cfg plugins) s.res
  failures : failuresOf a.evs = (running cfg ts).flatMap (testFailures cfg plugins)
  records : recordsOf a.evs = (running cfg ts).flatMap (testRecords cfg plugins)
  marks : marksIn a.evs = (running cfg ts).flatMap (testMarks cfg)
  enters : entersOf a.evs = (running cfg ts).flatMap (phasesRun cfg)
  summaries : summariesOf a.evs = []
  ended : endedOf a.evs = (selected cfg ts).map (fun t => (s.depth, s.current, failedFlag cfg t))
  dots : cfg.anyVerbose = false → a.st.out.dotCount = s.out.dotCount + (selected cfg ts).length
  plain : cfg.anyVerbose = false →
    plainToksOf a.evs = progressToks ((selected cfg ts).map (indicatorOf cfg)) s.out.dotCount
  safe : SafePlain a.evs

theorem anyVerbose_false {cfg : Cfg} (h : cfg.anyVerbose = false) : cfg.verbose = false ∧ cfg.veryVerbose = false := by
  simpa [Cfg.anyVerbose] using h

theorem runFiltered_closed (cfg : Cfg) (plugins : List Plugin) (t : Test) (s : LSt)
    (hq : QuietTest cfg t) (h0 : inBuf s.depth = true) (h1 : inBuf (s.depth + 1) = true) :
    ∃ a, runFiltered cfg plugins t s = .ok a ∧ EntryOutcome cfg plugins [t] s a := by
  unfold runFiltered
  cases hs : shouldRun cfg t with
  | false =>
    refine ⟨_, rfl, ?_⟩
    constructor <;> simp [addTest, hs, running, selected, progressToks]
  | true =>
    simp only [if_true, runSelected]
    cases hw : willRun cfg t with
    | false =>
      simp only [Bool.false_eq_true, if_false]
      refine ⟨_, rfl, ?_⟩
      obtain ⟨a1, a2, a3, a4, a5⟩ := testStartedToks_inert cfg t
      obtain ⟨b1, b2, b3, b4, b5⟩ := testEndedToks_inert cfg "!" s.out.dotCount
        (elapsed (readClock cfg (s.tick + 1)) (readClock cfg s.tick))
      constructor
      case safe =>
        simp only [safePlain_append]
        refine ⟨⟨testStartedToks_safe cfg t, ?_⟩, testEndedToks_safe cfg "!" _ _ (by simp [markers])⟩
        simp [safePlain_cons, Ev.tok?]
      any_goals
        simp [addTest, hs, hw, running, selected, failedFlag, a1, a2, a3, a4, a5, b1, b2, b3, b4, b5,
          Ev.failure?, Ev.mark?, Ev.enter?, Ev.summary?, Ev.ended?, Ev.record?, records_testStartedToks, records_testEndedToks]
      · intro hv; simp [dotsAfter, hv]
      · intro hv
        simp [testStartedToks, testEndedToks, hv, Ev.tok?, progressToks, indicatorOf, hw]
        split <;> simp [Ev.tok?]
    | true =>
      simp only [if_true]
      obtain ⟨j, hj, ho⟩ := runOneTestMode_closed cfg plugins t ⟨s.res.countTest, false, s.depth, s.current⟩ hq h0 h1
      rw [hj]
      simp only [ho.esc]
      refine ⟨_, rfl, ?_⟩
      obtain ⟨a1, a2, a3, a4, a5⟩ := testStartedToks_inert cfg t
      obtain ⟨b1, b2, b3, b4, b5⟩ := testEndedToks_inert cfg "." s.out.dotCount
        (elapsed (readClock cfg (s.tick + 1)) (readClock cfg s.tick))
      constructor
      case safe =>
        simp only [safePlain_append]
        refine ⟨⟨⟨⟨testStartedToks_safe cfg t, ?_⟩, ho.safe⟩, ?_⟩, testEndedToks_safe cfg "." _ _ (by simp [markers])⟩
        · simp [safePlain_cons, Ev.tok?]
        · simp [safePlain_cons, Ev.tok?]
      any_goals
        simp [addTest, hs, hw, running, selected, failedFlag, a1, a2, a3, a4, a5, b1, b2, b3, b4, b5,
          Ev.failure?, Ev.mark?, Ev.enter?, Ev.summary?, Ev.ended?, Ev.record?, records_testStartedToks, records_testEndedToks,
          ho.depth, ho.current, ho.res, ho.hasFailed, ho.failures, ho.records, ho.marks, ho.enters, ho.summaries, ho.ended]
      · intro hv; simp [dotsAfter, hv]
      · intro hv
        have hp := ho.plain (anyVerbose_false hv).2
        simp [testStartedToks, testEndedToks, hv, Ev.tok?, progressToks, indicatorOf, hw, hp]
        split <;> simp [Ev.tok?]

theorem runEntry_closed (cfg : Cfg) (plugins : List Plugin) (t : Test) (last : Bool) (s : LSt)
    (hq : QuietTest cfg t) (h0 : inBuf s.depth = true) (h1 : inBuf (s.depth + 1) = true) :
    ∃ a, runEntry cfg plugins t last s = .ok a ∧ EntryOutcome cfg plugins [t] s a := by
  have hgd : (groupStarted cfg s).st.depth = s.depth := by unfold groupStarted; split <;> rfl
  have hgc : (groupStarted cfg s).st.current = s.current := by unfold groupStarted; split <;> rfl
  have hgr : (groupStarted cfg s).st.res = s.res := by unfold groupStarted; split <;> rfl
  have hgo : (groupStarted cfg s).st.out = s.out := by unfold groupStarted; split <;> rfl
  have hgp : plainToksOf (groupStarted cfg s).evs = [] := by unfold groupStarted; split <;> simp [Ev.tok?]
  obtain ⟨a, ha, oa⟩ := runFiltered_closed cfg plugins t (groupStarted cfg s).st hq (by rw [hgd]; exact h0) (by rw [hgd]; exact h1)
  have hed : (groupEnded cfg last a.st).st.depth = a.st.depth := by unfold groupEnded; split <;> rfl
  have hec : (groupEnded cfg last a.st).st.current = a.st.current := by unfold groupEnded; split <;> rfl
  have her : (groupEnded cfg last a.st).st.res = a.st.res := by unfold groupEnded; split <;> rfl
  have heo : (groupEnded cfg last a.st).st.out = a.st.out := by unfold groupEnded; split <;> rfl
  have hep : plainToksOf (groupEnded cfg last a.st).evs = [] := by unfold groupEnded; split <;> simp [Ev.tok?]
  obtain ⟨g1, g2, g3, g4, g5⟩ := groupStarted_inert cfg s
  obtain ⟨e1, e2, e3, e4, e5⟩ := groupEnded_inert cfg last a.st
  unfold runEntry
  rw [ha]
  refine ⟨_, rfl, ?_⟩
  constructor
  · simp [hed, oa.depth, hgd]
  · simp [hec, oa.current, hgc]
  · simp [her, oa.res, hgr]
  · simp [g1, e1, oa.failures]
  · simp [records_groupStarted, records_groupEnded, oa.records]
  · simp [g2, e2, oa.marks]
  · simp [g3, e3, oa.enters]
  · simp [g4, e4, oa.summaries]
  · simp [g5, e5, oa.ended, hgd, hgc]
  · intro hv; simp [heo, oa.dots hv, hgo]
  · intro hv; simp [hgp, hep, oa.plain hv, hgo]
  · simp only [safePlain_append]
    exact ⟨⟨groupStarted_safe cfg s, oa.safe⟩, groupEnded_safe cfg last a.st⟩

theorem running_cons (cfg : Cfg) (t : Test) (ts : List Test) :
    running cfg (t :: ts) = running cfg [t] ++ running cfg ts := by
  simp only [running, selected]
  cases hs : shouldRun cfg t <;> cases hw : willRun cfg t <;> simp [hs, hw]

theorem selected_cons (cfg : Cfg) (t : Test) (ts : List Test) :
    selected cfg (t :: ts) = selected cfg [t] ++ selected cfg ts := by
  simp only [selected, List.filter_cons]
  cases shouldRun cfg t <;> simp

theorem progressToks_append (a b : List String) (d : Nat) :
    progressToks (a ++ b) d = progressToks a d ++ progressToks b (d + a.length) := by
  induction a generalizing d with
  | nil => simp [progressToks]
  | cons x a ih => simp [progressToks, ih, Nat.add_assoc, Nat.add_comm 1]

theorem runTests_closed (cfg : Cfg) (plugins : List Plugin) :
    ∀ (ts : List Test) (s : LSt), (∀ t ∈ ts, QuietTest cfg t) → inBuf s.depth = true → inBuf (s.depth + 1) = true →
      ∃ a, runTests cfg plugins ts s = .ok a ∧ EntryOutcome cfg plugins ts s a
  | [], s, _, _, _ => by
    refine ⟨_, rfl, ?_⟩
    constructor <;> simp [running, selected, progressToks]
  | t :: rest, s, hq, h0, h1 => by
    obtain ⟨a, ha, oa⟩ := runEntry_closed cfg plugins t (endOfGroup t rest) s (hq t (by simp)) h0 h1
    obtain ⟨b, hb, ob⟩ := runTests_closed cfg plugins rest a.st (fun x hx => hq x (by simp [hx]))
      (by rw [oa.depth]; exact h0) (by rw [oa.depth]; exact h1)
    unfold runTests
    rw [ha]; simp only []; rw [hb]
    refine ⟨_, rfl, ?_⟩
    constructor
    · simp [ob.depth, oa.depth]
    · simp [ob.current, oa.current]
    · simp [ob.res, oa.res]
    · rw [running_cons]; simp [oa.failures, ob.failures]
    · rw [running_cons]; simp [oa.records, ob.records]
    · rw [running_cons]; simp [oa.marks, ob.marks]
    · rw [running_cons]; simp [oa.enters, ob.enters]
    · simp [oa.summaries, ob.summaries]
    · rw [selected_cons]; simp [oa.ended, ob.ended, oa.depth, oa.current]
    · intro hv; rw [selected_cons]; simp [ob.dots hv, oa.dots hv, Nat.add_assoc]
    · intro hv
      rw [selected_cons, List.map_append, progressToks_append]
      simp [oa.plain hv, ob.plain hv, oa.dots hv]
    · simp only [safePlain_append]; exact ⟨oa.safe, ob.safe⟩

theorem selected_length_le (cfg : Cfg) (ts : List Test) : (selected cfg ts).length ≤ ts.length :=
  List.length_filter_le _ _

theorem running_length_le (cfg : Cfg) (ts : List Test) : (running cfg ts).length ≤ (selected cfg ts).length :=
  List.length_filter_le _ _

theorem foldl_addTest (cfg : Cfg) (plugins : List Plugin) : ∀ (ts : List Test) (r : Result),
    ts.foldl (addTest cfg plugins) r =
      { testCount := r.testCount + ts.length,
        runCount := r.runCount + (running cfg ts).length,
        checkCount := r.checkCount + ((running cfg ts).map (testChecksCounted cfg)).sum,
        failureCount := r.failureCount + ((running cfg ts).map (testFailCount cfg plugins)).sum,
        filteredOutCount := r.filteredOutCount + (ts.length - (selected cfg ts).length),
        ignoredCount := r.ignoredCount + ((selected cfg ts).length - (running cfg ts).length) }
  | [], r => by simp [running, selected]
  | t :: rest, r => by
    rw [List.foldl_cons, foldl_addTest cfg plugins rest]
    have h1 := selected_length_le cfg rest
    have h2 := running_length_le cfg rest
    rw [running_cons cfg t rest, selected_cons cfg t rest]
    have e1 : running cfg [t] = if shouldRun cfg t && willRun cfg t then [t] else [] := by
      simp only [running, selected]
      cases hs : shouldRun cfg t <;> cases hw : willRun cfg t <;> simp [hs, hw]
    have e2 : selected cfg [t] = if shouldRun cfg t then [t] else [] := by
      simp only [selected]
      cases hs : shouldRun cfg t <;> simp [hs]
    rw [e1, e2]
    generalize running cfg rest = R at h2 ⊢
    generalize selected cfg rest = S at h1 h2 ⊢
    cases hs : shouldRun cfg t <;> cases hw : willRun cfg t <;>
      simp [addTest, hs, hw, Result.bump, Result.countTest, Result.countRun,
        Result.countIgnored, Result.countFilteredOut] <;> omega

/-- the loop over the registry started with fresh counters ends with the true counts -/
theorem foldl_addTest_fresh (cfg : Cfg) (plugins : List Plugin) (ts : List Test) :
    ts.foldl (addTest cfg plugins) {} = expectedCounts cfg plugins ts := by
  rw [foldl_addTest]; simp [expectedCounts, expectedFailures]

/-! ## repetitions -/

def flattenRep {α} (k : Nat) (l : List α) : List α := (List.replicate k l).flatten

@[simp] theorem flattenRep_zero {α} (l : List α) : flattenRep 0 l = [] := by simp [flattenRep]
@[simp] theorem flattenRep_one {α} (l : List α) : flattenRep 1 l = l := by simp [flattenRep]
theorem flattenRep_succ {α} (k : Nat) (l : List α) : flattenRep (k + 1) l = l ++ flattenRep k l := by
  simp [flattenRep, List.replicate_succ]

/-- one `TestRegistry::runAllTests(tr)` with fresh counters -/
structure RegistryOutcome (cfg : Cfg) (plugins : List Plugin) (ts : List Test) (s : LSt) (a : LAcc) : Prop where
  depth : a.st.depth = s.depth
  current : a.st.current = s.current
  res : a.st.res = expectedCounts cfg plugins ts
  dots : a.st.out.dotCount = 0
  failures : failuresOf a.evs = expectedFailures cfg plugins ts
  records : recordsOf a.evs = expectedRecords cfg plugins ts
  marks : marksIn a.evs = (running cfg ts).flatMap (testMarks cfg)
  enters : entersOf a.evs = (running cfg ts).flatMap (phasesRun cfg)
  ended : endedOf a.evs = (selected cfg ts).map (fun t => (s.depth, s.current, failedFlag cfg t))
  /-- exactly one summary, with the true counts; its time is the last clock reading of the
      repetition minus the first one (unsigned) -/
  summary : ∃ first last, (clocksOf a.evs).head? = some first ∧ (clocksOf a.evs).getLast? = some last ∧
    summariesOf a.evs = [(expectedCounts cfg plugins ts, elapsed last first)]
  plain : cfg.anyVerbose = false →
    plainToksOf a.evs = progressToks ((selected cfg ts).map (indicatorOf cfg)) s.out.dotCount
  safe : SafePlain a.evs

theorem registryRunAll_closed (cfg : Cfg) (plugins : List Plugin) (ts : List Test) (s : LSt)
    (hres : s.res = {}) (hq : ∀ t ∈ ts, QuietTest cfg t) (h0 : inBuf s.depth = true) (h1 : inBuf (s.depth + 1) = true) :
    ∃ a, registryRunAll cfg plugins ts s = .ok a ∧ RegistryOutcome cfg plugins ts s a := by
  unfold registryRunAll
  obtain ⟨b, hb, ob⟩ := runTests_closed cfg plugins ts { s with tick := s.tick + 1, groupStart := true } hq h0 h1
  rw [hb]
  refine ⟨_, rfl, ?_⟩
  have hr : b.st.res = expectedCounts cfg plugins ts := by
    rw [ob.res]; simp only [hres]; exact foldl_addTest_fresh cfg plugins ts
  constructor
  · simp [ob.depth]
  · simp [ob.current]
  · simp [hr]
  · rfl
  · simp [ob.failures, expectedFailures, Ev.failure?]
  · simp [ob.records, expectedRecords, Ev.record?]
  · simp [ob.marks, Ev.mark?]
  · simp [ob.enters, Ev.enter?]
  · simp [ob.ended, Ev.ended?]
  · refine ⟨readClock cfg s.tick, readClock cfg b.st.tick, ?_, ?_, ?_⟩
    · simp [Ev.clock?]
    · simp only [clocksOf_cons, clocksOf_append, Ev.clock?, Option.toList, List.singleton_append, clocksOf_nil,
        List.append_nil]
      rw [List.getLast?_append]
      simp
    · simp [ob.summaries, Ev.summary?, hr]
  · intro hv; simp [ob.plain hv, Ev.tok?]
  · have h1 : SafePlain [Ev.clock (readClock cfg b.st.tick),
        Ev.summary b.st.res (elapsed (readClock cfg b.st.tick) (readClock cfg s.tick))] := by
      simp [safePlain_cons, Ev.tok?]
    have h2 : SafePlain (b.evs ++ [Ev.clock (readClock cfg b.st.tick),
        Ev.summary b.st.res (elapsed (readClock cfg b.st.tick) (readClock cfg s.tick))]) :=
      (safePlain_append _ _).mpr ⟨ob.safe, h1⟩
    exact (safePlain_cons _ _).mpr ⟨by simp [Ev.tok?], h2⟩

structure RepOutcome (cfg : Cfg) (plugins : List Plugin) (ts : List Test) (k : Nat) (s : RSt) (a : RAcc) : Prop where
  depth : a.st.depth = s.depth
  current : a.st.current = s.current
  reps : a.reps = List.replicate k (expectedCounts cfg plugins ts)
  failedTests : a.st.failedTestCount = s.failedTestCount + k * (expectedCounts cfg plugins ts).failureCount
  failedExecs : a.st.failedExecutionCount =
    s.failedExecutionCount + (if (expectedCounts cfg plugins ts).isFailure then k else 0)
  failures : failuresOf a.evs = flattenRep k (expectedFailures cfg plugins ts)
  records : recordsOf a.evs = flattenRep k (expectedRecords cfg plugins ts)
  marks : marksIn a.evs = flattenRep k ((running cfg ts).flatMap (testMarks cfg))
  enters : entersOf a.evs = flattenRep k ((running cfg ts).flatMap (phasesRun cfg))
  summaries : (summariesOf a.evs).map Prod.fst = List.replicate k (expectedCounts cfg plugins ts)
  ended : endedOf a.evs = flattenRep k ((selected cfg ts).map (fun t => (s.depth, s.current, failedFlag cfg t)))
  safe : SafePlain a.evs

theorem repetition_closed (cfg : Cfg) (plugins : List Plugin) (ts : List Test) (number total : Nat) (s : RSt)
    (hq : ∀ t ∈ ts, QuietTest cfg t) (h0 : inBuf s.depth = true) (h1 : inBuf (s.depth + 1) = true) :
    ∃ a, repetition cfg plugins ts number total s = .ok a ∧ RepOutcome cfg plugins ts 1 s a := by
  unfold repetition
  obtain ⟨b, hb, ob⟩ := registryRunAll_closed cfg plugins ts ⟨{}, s.depth, s.current, s.out, s.tick, true⟩ rfl hq h0 h1
  rw [hb]
  refine ⟨_, rfl, ?_⟩
  obtain ⟨t1, t2, t3, t4, t5⟩ := testRunToks_inert number total
  obtain ⟨first, last, _, _, hsum⟩ := ob.summary
  constructor
  · simp [ob.depth]
  · simp [ob.current]
  · simp [ob.res]
  · simp [ob.res]
  · simp only [ob.res]; split <;> simp
  · simp [t1, ob.failures]
  · simp [records_testRunToks, ob.records]
  · simp [t2, ob.marks]
  · simp [t3, ob.enters]
  · simp [t4, hsum]
  · simp [t5, ob.ended]
  · simp only [safePlain_append]; exact ⟨testRunToks_safe number total, ob.safe⟩

theorem repeatLoop_closed (cfg : Cfg) (plugins : List Plugin) (ts : List Test) (total : Nat)
    (hq : ∀ t ∈ ts, QuietTest cfg t) :
    ∀ (k number : Nat) (s : RSt), inBuf s.depth = true → inBuf (s.depth + 1) = true →
      ∃ a, repeatLoop cfg plugins ts total k number s = .ok a ∧ RepOutcome cfg plugins ts k s a
  | 0, number, s, _, _ => by
    refine ⟨_, rfl, ?_⟩
    constructor <;> simp
  | k + 1, number, s, h0, h1 => by
    obtain ⟨a, ha, oa⟩ := repetition_closed cfg plugins ts number total s hq h0 h1
    obtain ⟨b, hb, ob⟩ := repeatLoop_closed cfg plugins ts total hq k (number + 1) a.st
      (by rw [oa.depth]; exact h0) (by rw [oa.depth]; exact h1)
    unfold repeatLoop
    rw [ha]; simp only []; rw [hb]
    refine ⟨_, rfl, ?_⟩
    constructor
    · simp [ob.depth, oa.depth]
    · simp [ob.current, oa.current]
    · simp [ob.reps, oa.reps, List.replicate_succ]
    · simp only [ob.failedTests, oa.failedTests, Nat.add_mul]; omega
    · simp only [ob.failedExecs, oa.failedExecs]; split <;> omega
    · simp [ob.failures, oa.failures, flattenRep_succ]
    · simp [ob.records, oa.records, flattenRep_succ]
    · simp [ob.marks, oa.marks, flattenRep_succ]
    · simp [ob.enters, oa.enters, flattenRep_succ]
    · simp [ob.summaries, oa.summaries, List.replicate_succ]
    · simp [ob.ended, oa.ended, flattenRep_succ, oa.depth, oa.current]
    · simp only [safePlain_append]; exact ⟨oa.safe, ob.safe⟩

structure RunOutcome (cfg : Cfg) (plugins : List Plugin) (ts : List Test) (n : Nat) (d : Int) (o : RunOut) : Prop where
  depth : o.depth = d
  current : o.current = none
  reps : o.reps = List.replicate n (expectedCounts cfg plugins ts)
  ret : o.ret = Gen.Runner.returnValue (n * (expectedCounts cfg plugins ts).failureCount)
                  (if (expectedCounts cfg plugins ts).isFailure then n else 0)
  lastEv : o.evs.getLast? = some (.ret o.ret)
  failures : failuresOf o.evs = flattenRep n (expectedFailures cfg plugins ts)
  records : recordsOf o.evs = flattenRep n (expectedRecords cfg plugins ts)
  marks : marksIn o.evs = flattenRep n ((running cfg ts).flatMap (testMarks cfg))
  enters : entersOf o.evs = flattenRep n ((running cfg ts).flatMap (phasesRun cfg))
  summaries : (summariesOf o.evs).map Prod.fst = List.replicate n (expectedCounts cfg plugins ts)
  ended : endedOf o.evs = flattenRep n ((selected cfg ts).map (fun t => (d, none, failedFlag cfg t)))
  safe : SafePlain o.evs

theorem runAllTests_closed (cfg : Cfg) (plugins : List Plugin) (ts : List Test) (n : Nat) (d : Int)
    (hq : ∀ t ∈ ts, QuietTest cfg t) (h0 : inBuf d = true) (h1 : inBuf (d + 1) = true) :
    ∃ o, runAllTests cfg plugins ts n d = .ok o ∧ RunOutcome cfg plugins ts n d o := by
  unfold runAllTests
  obtain ⟨a, ha, oa⟩ := repeatLoop_closed cfg plugins ts n hq n 1 ⟨d, none, {}, 0, 0, 0⟩ h0 h1
  rw [ha]
  refine ⟨_, rfl, ?_⟩
  constructor
  · simp [oa.depth]
  · simp [oa.current]
  · simp [oa.reps]
  · simp [runnerReturn, oa.failedTests, oa.failedExecs]
  · simp
  · simp [oa.failures, Ev.failure?]
  · simp [oa.records, Ev.record?]
  · simp [oa.marks, Ev.mark?]
  · simp [oa.enters, Ev.enter?]
  · simp [oa.summaries, Ev.summary?]
  · simp [oa.ended, Ev.ended?]
  · rw [safePlain_append]
    exact ⟨oa.safe, by simp [safePlain_cons, Ev.tok?]⟩


/-! ## rethrow mode: the exception leaves the run -/

theorem throwsOut_eq (exc : Bool) : ∀ (p : List Stmt),
    throwsOut exc p = (match exitOf exc p with
      | .exc .std => some .std
      | .exc .other => some .other
      | _ => none)
  | [] => by simp [throwsOut, exitOf]
  | s :: rest => by
    have ih := throwsOut_eq exc rest
    cases exc <;>
    (cases s with
      | check k pass loc msg =>
        cases hfw : k.failsWhen pass
        · simp [throwsOut, exitOf, hfw, ih]
        · cases hc : k.isC <;> simp [throwsOut, exitOf, hfw, hc]
      | _ => simp [throwsOut, exitOf, ih])

theorem exit_of_throwsOut {exc : Bool} {p : List Stmt} {k : ExcKind} (h : throwsOut exc p = some k) :
    exitOf exc p = .exc k ∧ (k = .std ∨ k = .other) := by
  rw [throwsOut_eq] at h
  cases hx : exitOf exc p with
  | normal => simp [hx] at h
  | longjmp => simp [hx] at h
  | exc j => cases j <;> simp [hx] at h <;> subst h <;> simp

theorem quiet_of_not_throwsOut {cfg : Cfg} {p : List Stmt} (h : throwsOut cfg.exceptions p = none) :
    QuietExit cfg (exitOf cfg.exceptions p) := by
  rw [throwsOut_eq] at h
  refine Or.inr ?_
  cases hx : exitOf cfg.exceptions p with
  | normal => simp
  | longjmp => simp
  | exc j => cases j <;> simp [hx] at h ⊢

theorem bind_error {α β} {x : Except Stop α} {e : Stop} (h : x = .error e) (f : α → Except Stop β) :
    (match x with
      | .error s => (.error s : Except Stop β)
      | .ok a => f a) = .error e := by
  subst h; rfl

/-- what has been observed of a phase when its exception leaves `Utest::run` -/
def thrownEvs (cfg : Cfg) (t : Test) (ph : Phase) (st : TSt) : List Ev :=
  vvU cfg (vvBefore ph) ++ (phaseEvs cfg t ph st ++ (excRecs cfg t (phaseOut cfg t ph st).exit).map Ev.failure)

theorem try_phase_throws (cfg : Cfg) (t : Test) (ph : Phase) (st : TSt) (before : List Ev) (k : ExcKind)
    (hr : cfg.rethrow = true) (hx : (phaseOut cfg t ph st).exit = .exc k) (hk : k = .std ∨ k = .other)
    (h : inBuf st.depth = true) :
    (match setJmp st (phaseFn cfg t ph) with
      | .error f => (.error f : Except Stop Acc)
      | .ok j => afterTry cfg t j (before ++ vvU cfg (vvBefore ph)) (vvU cfg (vvAfter ph)))
      = .error (.propagated ⟨k, before ++ thrownEvs cfg t ph st, st.depth, st.current⟩) := by
  rw [setJmp_phase cfg t ph st h]
  simp only [thrownEvs, hx]
  rcases hk with rfl | rfl <;>
    simp [afterTry, catchClauses, excRecs, hr, restoreJumpBuffer, shellAddFailure, TSt.dec, stAfter]

/-- the first try block when neither setup nor body lets a std / foreign exception out -/
theorem tryBlock1_closed' (cfg : Cfg) (t : Test) (st : TSt)
    (hs : QuietExit cfg (exitOf cfg.exceptions t.setup)) (hb : QuietExit cfg (exitOf cfg.exceptions t.body))
    (h : inBuf st.depth = true) :
    tryBlock1 cfg t st = .ok (afterBody cfg t st) := by
  have hqs : QuietExit cfg (phaseOut cfg t .setup st).exit := by rw [phaseOut_exit]; exact hs
  have hsx := try_phase cfg t .setup st [] hqs h
  simp only [List.nil_append] at hsx
  unfold tryBlock1 afterBody
  cases hj : setJmp st (phaseFn cfg t .setup) with
  | error f => rw [hj] at hsx; simp at hsx
  | ok j1 =>
    rw [hj] at hsx
    simp only [] at hsx ⊢
    rw [hsx]
    simp only []
    have hjp := setJmp_phase cfg t .setup st h
    rw [hj] at hjp
    cases hx : (phaseOut cfg t .setup st).exit with
    | normal =>
      rw [hx] at hjp
      have hj1 : j1 = ⟨stAfter cfg t .setup st, phaseEvs cfg t .setup st, true, none⟩ := Except.ok.inj hjp
      subst hj1
      simp only [bodyIfSetupReturned, if_true]
      exact try_phase cfg t .body (phaseStep cfg t .setup st).st (phaseStep cfg t .setup st).evs
        (by rw [phaseOut_exit]; exact hb) (by simpa using h)
    | longjmp =>
      rw [hx] at hjp
      have hj1 : j1 = ⟨stAfter cfg t .setup st, phaseEvs cfg t .setup st, false, none⟩ := Except.ok.inj hjp
      subst hj1
      simp [bodyIfSetupReturned]
    | exc k =>
      rw [hx] at hjp
      have hj1 : j1 = ⟨{ stAfter cfg t .setup st with depth := st.depth + 1 }, phaseEvs cfg t .setup st, false, some k⟩ :=
        Except.ok.inj hjp
      subst hj1
      simp

/-- what the throwing test did before the exception left `Utest::run` -/
structure ThrowOutcome (cfg : Cfg) (t : Test) (ph : Phase) (k : ExcKind) (st : TSt) (p : Propagated) : Prop where
  kind : p.kind = k
  depth : p.depth = st.depth
  current : p.current = st.current
  enters : entersOf p.evs = phasesUpTo cfg t ph
  marks : marksIn p.evs = marksUpTo cfg t ph
  failures : failuresOf p.evs = (phasesUpTo cfg t ph).flatMap (fun q => phaseFailures cfg t (stmtsOf t q))
  summaries : summariesOf p.evs = []
  ended : endedOf p.evs = []

theorem thrownEvs_enters (cfg : Cfg) (t : Test) (ph : Phase) (st : TSt) :
    entersOf (thrownEvs cfg t ph st) = [ph] := by
  have h := phaseStep_enters cfg t ph st
  simpa [phaseStep, thrownEvs] using h

theorem thrownEvs_marks (cfg : Cfg) (t : Test) (ph : Phase) (st : TSt) :
    marksIn (thrownEvs cfg t ph st) = (marksOf (executed cfg.exceptions (stmtsOf t ph))).map (fun n => (ph, n)) := by
  have h := phaseStep_marks cfg t ph st
  simpa [phaseStep, thrownEvs] using h

theorem thrownEvs_failures (cfg : Cfg) (t : Test) (ph : Phase) (st : TSt) :
    failuresOf (thrownEvs cfg t ph st) = phaseFailures cfg t (stmtsOf t ph) := by
  have h := phaseStep_failures cfg t ph st
  simpa [phaseStep, thrownEvs] using h

theorem thrownEvs_other (cfg : Cfg) (t : Test) (ph : Phase) (st : TSt) :
    summariesOf (thrownEvs cfg t ph st) = [] ∧ endedOf (thrownEvs cfg t ph st) = [] := by
  have h := phaseStep_other cfg t ph st
  simpa [phaseStep, thrownEvs] using h

theorem completes_false_of_throws {exc : Bool} {p : List Stmt} {k : ExcKind} (h : throwsOut exc p = some k) :
    completes exc p = false := by
  have hx := (exit_of_throwsOut h).1
  cases hc : completes exc p with
  | false => rfl
  | true => rw [(exitOf_normal_iff exc p).mpr hc] at hx; cases hx

theorem utestRun_propagates (cfg : Cfg) (t : Test) (st : TSt) (ph : Phase) (k : ExcKind)
    (hx : cfg.exceptions = true) (hr : cfg.rethrow = true) (hf : firstThrow cfg t = some (ph, k))
    (h : inBuf st.depth = true) :
    ∃ p, utestRun cfg t st = .error (.propagated p) ∧ ThrowOutcome cfg t ph k st p := by
  unfold utestRun
  simp only [hx, if_true]
  unfold firstThrow phasesRun at hf
  cases hs : throwsOut cfg.exceptions t.setup with
  | some ks =>
    -- the exception of setup leaves
    have hc := completes_false_of_throws hs
    simp [hs, stmtsOf] at hf
    obtain ⟨rfl, rfl⟩ := hf
    obtain ⟨he, hk⟩ := exit_of_throwsOut hs
    have hpx : (phaseOut cfg t .setup st).exit = .exc ks := by rw [phaseOut_exit]; exact he
    have ht := try_phase_throws cfg t .setup st [] ks hr hpx hk h
    simp only [List.nil_append] at ht
    unfold utestRunExc tryBlock1
    cases hj : setJmp st (phaseFn cfg t .setup) with
    | error f => rw [hj] at ht; simp only [] at ht ⊢; rw [ht]; exact ⟨_, rfl, by
        constructor <;> simp [phasesUpTo, marksUpTo, phasesRun, hc, Phase.idx, thrownEvs_enters, thrownEvs_marks,
          thrownEvs_failures, (thrownEvs_other cfg t .setup st).1, (thrownEvs_other cfg t .setup st).2]⟩
    | ok j1 =>
      rw [hj] at ht
      simp only [] at ht ⊢
      rw [ht]
      exact ⟨_, rfl, by
        constructor <;> simp [phasesUpTo, marksUpTo, phasesRun, hc, Phase.idx, thrownEvs_enters, thrownEvs_marks,
          thrownEvs_failures, (thrownEvs_other cfg t .setup st).1, (thrownEvs_other cfg t .setup st).2]⟩
  | none =>
    have hqs := quiet_of_not_throwsOut hs
    cases hc : completes cfg.exceptions t.setup with
    | true =>
      cases hb : throwsOut cfg.exceptions t.body with
      | some kb =>
        simp [hs, hb, hc, stmtsOf] at hf
        obtain ⟨rfl, rfl⟩ := hf
        obtain ⟨he, hk⟩ := exit_of_throwsOut hb
        have hnorm : (phaseOut cfg t .setup st).exit = .normal := (setup_normal_iff cfg t st).mpr hc
        have hpx : (phaseOut cfg t .body (phaseStep cfg t .setup st).st).exit = .exc kb := by rw [phaseOut_exit]; exact he
        have ht := try_phase_throws cfg t .body (phaseStep cfg t .setup st).st (phaseStep cfg t .setup st).evs kb hr hpx hk
          (by simpa using h)
        have hsx := try_phase cfg t .setup st [] (by rw [phaseOut_exit]; exact hqs) h
        simp only [List.nil_append] at hsx
        have hjp := setJmp_phase cfg t .setup st h
        unfold utestRunExc tryBlock1
        cases hj : setJmp st (phaseFn cfg t .setup) with
        | error f => rw [hj] at hsx; simp at hsx
        | ok j1 =>
          rw [hj] at hsx hjp
          simp only [] at hsx ⊢
          rw [hsx]
          simp only []
          rw [hnorm] at hjp
          have hj1 : j1 = ⟨stAfter cfg t .setup st, phaseEvs cfg t .setup st, true, none⟩ := Except.ok.inj hjp
          subst hj1
          simp only [bodyIfSetupReturned, if_true]
          have hgoal : ∀ (x : Except Stop Acc), x = .error (.propagated ⟨kb,
                (phaseStep cfg t .setup st).evs ++ thrownEvs cfg t .body (phaseStep cfg t .setup st).st,
                (phaseStep cfg t .setup st).st.depth, (phaseStep cfg t .setup st).st.current⟩) →
              (match x with
                | .error f => (.error f : Except Stop Acc)
                | .ok a => tryBlock2 cfg t a) = .error (.propagated ⟨kb,
                (phaseStep cfg t .setup st).evs ++ thrownEvs cfg t .body (phaseStep cfg t .setup st).st,
                (phaseStep cfg t .setup st).st.depth, (phaseStep cfg t .setup st).st.current⟩) := by
            intro x hxx; subst hxx; rfl
          cases hj2 : setJmp (phaseStep cfg t .setup st).st (phaseFn cfg t .body) with
          | error f =>
            rw [hj2] at ht
            simp only [] at ht ⊢
            refine ⟨_, hgoal _ ht, ?_⟩
            constructor
            · rfl
            · simp
            · simp
            · simp [phasesUpTo, phasesRun, hc, Phase.idx, thrownEvs_enters, phaseStep_enters]
            · simp [marksUpTo, phasesUpTo, phasesRun, hc, Phase.idx, thrownEvs_marks, phaseStep_marks]
            · simp [phasesUpTo, phasesRun, hc, Phase.idx, thrownEvs_failures, phaseStep_failures]
            · simp [(thrownEvs_other cfg t .body _).1, (phaseStep_other cfg t .setup st).1]
            · simp [(thrownEvs_other cfg t .body _).2, (phaseStep_other cfg t .setup st).2]
          | ok j2 =>
          rw [hj2] at ht
          simp only [] at ht ⊢
          refine ⟨_, hgoal _ ht, ?_⟩
          constructor
          · rfl
          · simp
          · simp
          · simp [phasesUpTo, phasesRun, hc, Phase.idx, thrownEvs_enters, phaseStep_enters]
          · simp [marksUpTo, phasesUpTo, phasesRun, hc, Phase.idx, thrownEvs_marks, phaseStep_marks]
          · simp [phasesUpTo, phasesRun, hc, Phase.idx, thrownEvs_failures, phaseStep_failures]
          · simp [(thrownEvs_other cfg t .body _).1, (phaseStep_other cfg t .setup st).1]
          · simp [(thrownEvs_other cfg t .body _).2, (phaseStep_other cfg t .setup st).2]
      | none =>
        have hqb := quiet_of_not_throwsOut hb
        cases htd : throwsOut cfg.exceptions t.teardown with
        | none => simp [hs, hb, htd, hc, stmtsOf] at hf
        | some kt =>
          simp [hs, hb, htd, hc, stmtsOf] at hf
          obtain ⟨rfl, rfl⟩ := hf
          obtain ⟨he, hk⟩ := exit_of_throwsOut htd
          unfold utestRunExc
          rw [tryBlock1_closed' cfg t st hqs hqb h]
          simp only [tryBlock2]
          have hpx : (phaseOut cfg t .teardown (afterBody cfg t st).st).exit = .exc kt := by rw [phaseOut_exit]; exact he
          refine ⟨_, try_phase_throws cfg t .teardown (afterBody cfg t st).st (afterBody cfg t st).evs kt hr hpx hk
            (by simpa using h), ?_⟩
          have hnorm : (phaseOut cfg t .setup st).exit = .normal := (setup_normal_iff cfg t st).mpr hc
          constructor
          · rfl
          · simp
          · simp
          · simp [afterBody, hnorm, phasesUpTo, phasesRun, hc, Phase.idx, thrownEvs_enters, phaseStep_enters]
          · simp [afterBody, hnorm, marksUpTo, phasesUpTo, phasesRun, hc, Phase.idx, thrownEvs_marks, phaseStep_marks]
          · simp [afterBody, hnorm, phasesUpTo, phasesRun, hc, Phase.idx, thrownEvs_failures, phaseStep_failures]
          · simp [afterBody, hnorm, (thrownEvs_other cfg t .teardown _).1, (phaseStep_other cfg t _ _).1]
          · simp [afterBody, hnorm, (thrownEvs_other cfg t .teardown _).2, (phaseStep_other cfg t _ _).2]
    | false =>
      cases htd : throwsOut cfg.exceptions t.teardown with
      | none => simp [hs, htd, hc, stmtsOf] at hf
      | some kt =>
        simp [hs, htd, hc, stmtsOf] at hf
        obtain ⟨rfl, rfl⟩ := hf
        obtain ⟨he, hk⟩ := exit_of_throwsOut htd
        have hnn : (phaseOut cfg t .setup st).exit ≠ .normal := by
          intro hn; rw [(setup_normal_iff cfg t st).mp hn] at hc; cases hc
        -- the body does not run: its quietness is irrelevant; reuse the closed form with any body
        have hab : tryBlock1 cfg t st = .ok (afterBody cfg t st) := by
          have hsx := try_phase cfg t .setup st [] (by rw [phaseOut_exit]; exact hqs) h
          simp only [List.nil_append] at hsx
          have hjp := setJmp_phase cfg t .setup st h
          unfold tryBlock1 afterBody
          cases hj : setJmp st (phaseFn cfg t .setup) with
          | error f => rw [hj] at hsx; simp at hsx
          | ok j1 =>
            rw [hj] at hsx hjp
            simp only [] at hsx ⊢
            rw [hsx]
            simp only [hnn, if_false]
            cases hx2 : (phaseOut cfg t .setup st).exit with
            | normal => exact absurd hx2 hnn
            | longjmp =>
              rw [hx2] at hjp
              have hj1 : j1 = ⟨stAfter cfg t .setup st, phaseEvs cfg t .setup st, false, none⟩ := Except.ok.inj hjp
              subst hj1
              simp [bodyIfSetupReturned]
            | exc k2 =>
              rw [hx2] at hjp
              have hj1 : j1 = ⟨{ stAfter cfg t .setup st with depth := st.depth + 1 }, phaseEvs cfg t .setup st, false, some k2⟩ :=
                Except.ok.inj hjp
              subst hj1
              simp
        unfold utestRunExc
        rw [hab]
        simp only [tryBlock2]
        have hpx : (phaseOut cfg t .teardown (afterBody cfg t st).st).exit = .exc kt := by rw [phaseOut_exit]; exact he
        refine ⟨_, try_phase_throws cfg t .teardown (afterBody cfg t st).st (afterBody cfg t st).evs kt hr hpx hk
          (by simpa using h), ?_⟩
        constructor
        · rfl
        · simp
        · simp
        · simp [afterBody, hnn, phasesUpTo, phasesRun, hc, Phase.idx, thrownEvs_enters, phaseStep_enters]
        · simp [afterBody, hnn, marksUpTo, phasesUpTo, phasesRun, hc, Phase.idx, thrownEvs_marks, phaseStep_marks]
        · simp [afterBody, hnn, phasesUpTo, phasesRun, hc, Phase.idx, thrownEvs_failures, phaseStep_failures]
        · simp [afterBody, hnn, (thrownEvs_other cfg t .teardown _).1, (phaseStep_other cfg t _ _).1]
        · simp [afterBody, hnn, (thrownEvs_other cfg t .teardown _).2, (phaseStep_other cfg t _ _).2]


/-- what has been observed when the exception leaves an enclosing level: `pre` ran before it -/
structure LeftOutcome (cfg : Cfg) (plugins : List Plugin) (pre : List Test) (t : Test) (ph : Phase) (k : ExcKind)
    (d : Int) (p : Propagated) : Prop where
  kind : p.kind = k
  depth : p.depth = d + 1                         -- nobody decremented on the way out of runOneTest
  current : p.current = some t.name               -- the saved current test was not put back
  enters : entersOf p.evs = (running cfg pre).flatMap (phasesRun cfg) ++ phasesUpTo cfg t ph
  marks : marksIn p.evs = (running cfg pre).flatMap (testMarks cfg) ++ marksUpTo cfg t ph
  failures : failuresOf p.evs = (running cfg pre).flatMap (testFailures cfg plugins) ++ failuresUpTo cfg plugins t ph
  summaries : summariesOf p.evs = []
  endedCount : (endedOf p.evs).length = (selected cfg pre).length

theorem runOneTest_propagates (cfg : Cfg) (plugins : List Plugin) (t : Test) (st : TSt) (ph : Phase) (k : ExcKind)
    (hx : cfg.exceptions = true) (hr : cfg.rethrow = true) (hf : firstThrow cfg t = some (ph, k))
    (h0 : inBuf st.depth = true) (h1 : inBuf (st.depth + 1) = true) :
    ∃ p, runOneTest cfg plugins t st = .error (.propagated p) ∧ LeftOutcome cfg plugins [] t ph k st.depth p := by
  unfold runOneTest setJmp
  simp only [h0, Bool.not_true, Bool.false_eq_true, if_false, runOneTestInCurrentProcess]
  obtain ⟨q, hq, oq⟩ := utestRun_propagates cfg t
    { (runAllPre cfg t plugins { st with hasFailed := false, res := st.res.countRun, depth := st.depth + 1 }).st with
      current := some t.name } ph k hx hr hf (by simpa using h1)
  simp only [] at hq
  rw [hq]
  refine ⟨_, rfl, ?_⟩
  constructor
  · simp [Stop.prepend, oq.kind]
  · simp [oq.depth]
  · simp [oq.current]
  · simp [oq.enters, beforeRun, (runAllPre_spec cfg t plugins _).2.2.2.1, running, selected]
  · simp [oq.marks, beforeRun, (runAllPre_spec cfg t plugins _).2.2.1, running, selected]
  · simp [oq.failures, beforeRun, (runAllPre_spec cfg t plugins _).2.1, running, selected, failuresUpTo]
  · simp [oq.summaries, beforeRun, (runAllPre_spec cfg t plugins _).2.2.2.2.1]
  · simp [oq.ended, beforeRun, (runAllPre_spec cfg t plugins _).2.2.2.2.2.1, selected]

theorem runEntry_propagates (cfg : Cfg) (plugins : List Plugin) (t : Test) (last : Bool) (s : LSt) (ph : Phase) (k : ExcKind)
    (hx : cfg.exceptions = true) (hr : cfg.rethrow = true) (hsep : cfg.separate = false) (hs : shouldRun cfg t = true) (hw : willRun cfg t = true)
    (hf : firstThrow cfg t = some (ph, k)) (h0 : inBuf s.depth = true) (h1 : inBuf (s.depth + 1) = true) :
    ∃ p, runEntry cfg plugins t last s = .error (.propagated p) ∧ LeftOutcome cfg plugins [] t ph k s.depth p := by
  have hgd : (groupStarted cfg s).st.depth = s.depth := by unfold groupStarted; split <;> rfl
  have hgc : (groupStarted cfg s).st.current = s.current := by unfold groupStarted; split <;> rfl
  obtain ⟨g1, g2, g3, g4, g5⟩ := groupStarted_inert cfg s
  obtain ⟨a1, a2, a3, a4, a5⟩ := testStartedToks_inert cfg t
  obtain ⟨q, hq, oq⟩ := runOneTest_propagates cfg plugins t
    ⟨(groupStarted cfg s).st.res.countTest, false, (groupStarted cfg s).st.depth, (groupStarted cfg s).st.current⟩ ph k hx hr hf
    (by rw [hgd]; exact h0) (by rw [hgd]; exact h1)
  unfold runEntry runFiltered runSelected runOneTestMode
  simp only [hs, hw, if_true, hsep, Bool.false_eq_true, if_false]
  rw [hq]
  refine ⟨_, rfl, ?_⟩
  constructor
  · simp [Stop.prepend, oq.kind]
  · simp [Stop.prepend, oq.depth, hgd]
  · simp [Stop.prepend, oq.current]
  · simpa [Stop.prepend, g3, a3, Ev.enter?] using oq.enters
  · simpa [Stop.prepend, g2, a2, Ev.mark?] using oq.marks
  · simpa [Stop.prepend, g1, a1, Ev.failure?] using oq.failures
  · simpa [Stop.prepend, g4, a4, Ev.summary?] using oq.summaries
  · simpa [Stop.prepend, g5, a5, Ev.ended?] using oq.endedCount

theorem runTests_propagates (cfg : Cfg) (plugins : List Plugin) (t : Test) (post : List Test) (ph : Phase) (k : ExcKind)
    (hx : cfg.exceptions = true) (hr : cfg.rethrow = true) (hsep : cfg.separate = false) (hs : shouldRun cfg t = true) (hw : willRun cfg t = true)
    (hf : firstThrow cfg t = some (ph, k)) :
    ∀ (pre : List Test) (s : LSt), (∀ x ∈ pre, QuietTest cfg x) → inBuf s.depth = true → inBuf (s.depth + 1) = true →
      ∃ p, runTests cfg plugins (pre ++ t :: post) s = .error (.propagated p) ∧ LeftOutcome cfg plugins pre t ph k s.depth p
  | [], s, _, h0, h1 => by
    obtain ⟨q, hq, oq⟩ := runEntry_propagates cfg plugins t (endOfGroup t post) s ph k hx hr hsep hs hw hf h0 h1
    simp only [List.nil_append]
    unfold runTests
    rw [hq]
    exact ⟨_, rfl, oq⟩
  | x :: pre, s, hq, h0, h1 => by
    obtain ⟨a, ha, oa⟩ := runEntry_closed cfg plugins x (endOfGroup x (pre ++ t :: post)) s (hq x (by simp)) h0 h1
    obtain ⟨q, hqq, oq⟩ := runTests_propagates cfg plugins t post ph k hx hr hsep hs hw hf pre a.st
      (fun y hy => hq y (by simp [hy])) (by rw [oa.depth]; exact h0) (by rw [oa.depth]; exact h1)
    simp only [List.cons_append]
    unfold runTests
    rw [ha]; simp only []; rw [hqq]
    refine ⟨_, rfl, ?_⟩
    constructor
    · simp [Stop.prepend, oq.kind]
    · simp [Stop.prepend, oq.depth, oa.depth]
    · simp [Stop.prepend, oq.current]
    · rw [running_cons]; simp [Stop.prepend, oq.enters, oa.enters]
    · rw [running_cons]; simp [Stop.prepend, oq.marks, oa.marks]
    · rw [running_cons]; simp [Stop.prepend, oq.failures, oa.failures]
    · simp [Stop.prepend, oq.summaries, oa.summaries]
    · rw [selected_cons]; simp [Stop.prepend, oq.endedCount, oa.ended, Nat.add_comm]

theorem runAllTests_propagates (cfg : Cfg) (plugins : List Plugin) (pre : List Test) (t : Test) (post : List Test)
    (ph : Phase) (k : ExcKind) (n : Nat) (d : Int)
    (hx : cfg.exceptions = true) (hr : cfg.rethrow = true) (hsep : cfg.separate = false) (hq : ∀ x ∈ pre, QuietTest cfg x)
    (hs : shouldRun cfg t = true) (hw : willRun cfg t = true) (hf : firstThrow cfg t = some (ph, k)) (hn : 0 < n)
    (h0 : inBuf d = true) (h1 : inBuf (d + 1) = true) :
    ∃ p, runAllTests cfg plugins (pre ++ t :: post) n d = .error (.propagated p) ∧ LeftOutcome cfg plugins pre t ph k d p := by
  obtain ⟨m, rfl⟩ : ∃ m, n = m + 1 := ⟨n - 1, by omega⟩
  obtain ⟨q, hqq, oq⟩ := runTests_propagates cfg plugins t post ph k hx hr hsep hs hw hf pre
    ⟨{}, d, none, {}, 0 + 1, true⟩ hq h0 h1
  obtain ⟨t1, t2, t3, t4, t5⟩ := testRunToks_inert 1 (m + 1)
  unfold runAllTests repeatLoop repetition registryRunAll
  simp only []
  rw [hqq]
  refine ⟨_, rfl, ?_⟩
  constructor
  · simp [Stop.prepend, oq.kind]
  · simp [Stop.prepend, oq.depth]
  · simp [Stop.prepend, oq.current]
  · simp [Stop.prepend, oq.enters, t3, Ev.enter?]
  · simp [Stop.prepend, oq.marks, t2, Ev.mark?]
  · simp [Stop.prepend, oq.failures, t1, Ev.failure?]
  · simp [Stop.prepend, oq.summaries, t4, Ev.summary?]
  · simp [Stop.prepend, oq.endedCount, t5, Ev.ended?]


/-! ## reading the console text back -/

/-! ### failure records -/

theorem scanFrom_skip : ∀ (A : List String) (w B : List String), (∀ a ∈ A, a ≠ failureMarker) →
    scanFrom w (A ++ B) = scanFrom (A.reverse ++ w) B
  | [], w, B, _ => by simp
  | a :: A, w, B, h => by
    have ha : a ≠ failureMarker := h a (by simp)
    simp only [List.cons_append, scanFrom, ha, if_false]
    rw [scanFrom_skip A (a :: w) B (fun x hx => h x (by simp [hx]))]
    simp

theorem locToks_noMarker (f : String) (l : Nat) (hf : f ≠ failureMarker) : ∀ a ∈ locToks f l, a ≠ failureMarker := by
  intro a ha
  simp only [locToks, List.mem_cons, List.mem_nil_iff, or_false] at ha
  rcases ha with rfl | rfl | rfl | rfl | rfl | rfl
  · decide
  · exact hf
  · decide
  · exact repr_ne_marker l
  · decide
  · decide

theorem marker_of_clean {r : FailRec} (h : r.clean) :
    r.msg ≠ failureMarker ∧ r.file ≠ failureMarker ∧ r.testFile ≠ failureMarker ∧ r.testName ≠ failureMarker := by
  obtain ⟨_, h2, h3, h4, h5⟩ := h
  simp only [markers, List.mem_cons, List.mem_nil_iff, or_false, not_or] at h2 h3 h4 h5
  exact ⟨h2.1, h3.1, h4.1, h5.1⟩

theorem readRecord_oneLoc (l f name msg : String) (hmsg : msg ≠ ":") (w B : List String) :
    readRecord (" error:" :: ":" :: l :: ":" :: f :: "\n" :: w) (name :: "\n" :: "\t" :: msg :: "\n\n" :: B)
      = some ⟨f, l, name, msg, none⟩ := by
  rcases B with _ | ⟨b1, _ | ⟨b2, B⟩⟩ <;> simp [readRecord, parseLoc, parseTail, hmsg]

/-- **one record**: whatever was printed before (`w`) and is printed after (`B`), the reader finds
    exactly this record in its strings and nothing else -/
theorem scanFrom_failureToks (r : FailRec) (hc : r.clean) (w B : List String) :
    scanFrom w (failureToks r ++ B) = r.printed :: scanFrom ((failureToks r).reverse ++ w) B := by
  obtain ⟨hm, hf, htf, hn⟩ := marker_of_clean hc
  have hmsg : r.msg ≠ ":" := hc.1
  have hr : ∀ n : Nat, n.repr ≠ " Failure in " := repr_ne_marker
  simp only [failureMarker] at hm hf htf hn
  unfold failureToks
  cases h2 : r.twoLocations with
  | true =>
    simp [locToks, scanFrom, failureMarker, hm, hf, htf, hn, hr, readRecord, parseLoc, parseTail, FailRec.printed, h2]
  | false =>
    simp [locToks, scanFrom, failureMarker, hm, hf, htf, hn, hr, readRecord_oneLoc _ _ _ _ hmsg, FailRec.printed, h2]

theorem summaryToks_noMarker (c : Bool) (r : Result) (time : Nat) : ∀ a ∈ summaryToks c r time, a ≠ failureMarker := by
  have hr : ∀ n : Nat, n.repr ≠ " Failure in " := repr_ne_marker
  unfold summaryToks summaryHead failureMarker
  cases c <;> cases r.printsFailure <;> by_cases h0 : r.failureCount > 0 <;> simp [h0, noteText, hr] <;>
    (try (rintro a (⟨_, rfl⟩ | rfl) <;> simp))

/-- what the theorem asks of the free strings of an event list -/
def CleanEvs (evs : List Ev) : Prop :=
  (∀ s ∈ plainToksOf evs, s ∉ markers) ∧ (∀ r ∈ recordsOf evs, r.clean)

theorem scanFrom_toksOf (c : Bool) : ∀ (evs : List Ev) (w : List String), CleanEvs evs →
    scanFrom w (toksOf c evs) = (recordsOf evs).map FailRec.printed
  | [], w, _ => by simp [toksOf, scanFrom]
  | e :: evs, w, h => by
    have htl : CleanEvs evs := by
      refine ⟨fun s hs => h.1 s ?_, fun r hr => h.2 r ?_⟩
      · simp [hs]
      · simp [hr]
    have hto : toksOf c (e :: evs) = Ev.toks c e ++ toksOf c evs := by simp [toksOf]
    rw [hto]
    cases e with
    | tok s =>
      have hs : s ≠ failureMarker := by
        have := h.1 s (by simp [Ev.tok?])
        simp only [markers, List.mem_cons, List.mem_nil_iff, or_false, not_or] at this
        exact this.1
      simp only [Ev.toks, List.singleton_append, scanFrom, hs, if_false]
      simpa [Ev.record?] using scanFrom_toksOf c evs _ htl
    | failure r =>
      simp only [Ev.toks]
      rw [scanFrom_failureToks r (h.2 r (by simp [Ev.record?])) w (toksOf c evs), scanFrom_toksOf c evs _ htl]
      simp [Ev.record?]
    | sepFailure r =>
      simp only [Ev.toks]
      rw [scanFrom_failureToks r (h.2 r (by simp [Ev.record?])) w (toksOf c evs), scanFrom_toksOf c evs _ htl]
      simp [Ev.record?]
    | summary r time =>
      simp only [Ev.toks]
      rw [scanFrom_skip _ w _ (summaryToks_noMarker c r time), scanFrom_toksOf c evs _ htl]
      simp [Ev.record?]
    | enter ph d => simpa [Ev.toks, Ev.record?] using scanFrom_toksOf c evs w htl
    | mark ph n d => simpa [Ev.toks, Ev.record?] using scanFrom_toksOf c evs w htl
    | plug n po d => simpa [Ev.toks, Ev.record?] using scanFrom_toksOf c evs w htl
    | ended d cu f => simpa [Ev.toks, Ev.record?] using scanFrom_toksOf c evs w htl
    | clock v => simpa [Ev.toks, Ev.record?] using scanFrom_toksOf c evs w htl
    | ret v => simpa [Ev.toks, Ev.record?] using scanFrom_toksOf c evs w htl

/-! ### summaries -/

theorem parseSummaryAt_none (t : String) (rest : List String) (h1 : t ≠ "OK (") (h2 : t ≠ "Errors (") :
    parseSummaryAt (t :: rest) = none := by
  unfold parseSummaryAt
  split
  · rename_i h; injection h with h _; exact absurd h h1
  · rename_i h; injection h with h _; exact absurd h h2
  · rfl

theorem scanSummaries_skip : ∀ (A B : List String), (∀ a ∈ A, a ≠ "OK (" ∧ a ≠ "Errors (") →
    scanSummaries (A ++ B) = scanSummaries B
  | [], B, _ => by simp
  | a :: A, B, h => by
    have ha := h a (by simp)
    simp only [List.cons_append, scanSummaries, parseSummaryAt_none a _ ha.1 ha.2]
    exact scanSummaries_skip A B (fun x hx => h x (by simp [hx]))

theorem isFailure_iff (r : Result) : r.isFailure = true ↔ ¬ r.ok := by
  unfold Result.isFailure Gen.Runner.isFailure Result.ok
  simp only [Bool.or_eq_true, bne_iff_ne, beq_iff_eq, ne_eq]
  omega

/-- the verdict `printTestsEnded` prints is the one `TestResult::isFailure` gives (both regenerated) -/
theorem printsFailure_iff (r : Result) : r.printsFailure = true ↔ ¬ r.ok := by
  unfold Result.printsFailure Gen.Runner.summaryIsFailure
  exact isFailure_iff r

theorem printsFailure_false_iff (r : Result) : r.printsFailure = false ↔ r.ok := by
  have h := printsFailure_iff r
  by_cases hok : r.ok
  · cases hp : r.printsFailure
    · simp [hok]
    · exact absurd hok (h.mp hp)
  · have := h.mpr hok
    simp [this, hok]

theorem scan_summary_shape (pre : List String) (h : String) (mid B : List String) (p : PrintedSummary)
    (hpre : ∀ a ∈ pre, a ≠ "OK (" ∧ a ≠ "Errors (")
    (hparse : parseSummaryAt (h :: (mid ++ B)) = some p)
    (hmid : ∀ a ∈ mid, a ≠ "OK (" ∧ a ≠ "Errors (") :
    scanSummaries ((pre ++ h :: mid) ++ B) = p :: scanSummaries B := by
  rw [List.append_assoc, scanSummaries_skip pre _ hpre, List.cons_append]
  simp only [scanSummaries, hparse]
  rw [scanSummaries_skip mid B hmid]

/-- the twelve strings that carry the counts -/
def countToks (r : Result) (time : Nat) : List String :=
  [toString r.testCount, " tests, ", toString r.runCount, " ran, ", toString r.checkCount, " checks, ",
   toString r.ignoredCount, " ignored, ", toString r.filteredOutCount, " filtered out, ", toString time, " ms)"]

theorem countToks_noHead (r : Result) (time : Nat) : ∀ a ∈ countToks r time, a ≠ "OK (" ∧ a ≠ "Errors (" := by
  have h1 : ∀ n : Nat, n.repr ≠ "OK (" := repr_ne_ok
  have h2 : ∀ n : Nat, n.repr ≠ "Errors (" := repr_ne_errors
  simp [countToks, h1, h2]

theorem parseCounts_countToks (ok : Bool) (f : Option String) (r : Result) (time : Nat) (X : List String) :
    parseCounts ok f (countToks r time ++ X) =
      some ⟨ok, f, toString r.testCount, toString r.runCount, toString r.checkCount, toString r.ignoredCount,
            toString r.filteredOutCount, toString time⟩ := by
  simp [countToks, parseCounts]

/-- **one summary**: the reader finds exactly this summary in its strings -/
theorem scanSummaries_summaryToks (c : Bool) (r : Result) (time : Nat) (B : List String) :
    scanSummaries (summaryToks c r time ++ B) = r.printedSummary time :: scanSummaries B := by
  have h1 : ∀ n : Nat, n.repr ≠ "OK (" := repr_ne_ok
  have h2 : ∀ n : Nat, n.repr ≠ "Errors (" := repr_ne_errors
  have h3 : ∀ n : Nat, n.repr ≠ "ran nothing, " := repr_ne_ranNothing
  have hcn := countToks_noHead r time
  cases hp : r.printsFailure with
  | false =>
    have hok : r.ok := (printsFailure_false_iff r).mp hp
    have h0 : r.failureCount = 0 := hok.1
    have hshape : summaryToks c r time =
        ("\n" :: (if c then ["\x1b[32;1m"] else [])) ++ "OK (" :: (countToks r time ++ ((if c then ["\x1b[m"] else []) ++ ["\n\n"])) := by
      cases c <;> simp [summaryToks, summaryHead, hp, countToks]
    rw [hshape]
    apply scan_summary_shape
    · cases c <;> simp
    · simp only [parseSummaryAt, List.append_assoc, parseCounts_countToks]
      simp [Result.printedSummary, hok, h0]
    · intro a ha
      simp only [List.mem_append] at ha
      rcases ha with ha | ha
      · exact hcn a ha
      · cases c <;> simp at ha <;> rcases ha with rfl | rfl <;> simp
  | true =>
    have hnok : ¬ r.ok := (printsFailure_iff r).mp hp
    by_cases h0 : r.failureCount > 0
    · have hne : r.failureCount ≠ 0 := Nat.pos_iff_ne_zero.mp h0
      have hshape : summaryToks c r time =
          ("\n" :: (if c then ["\x1b[31;1m"] else [])) ++ "Errors (" ::
            (toString r.failureCount :: " failures, " :: (countToks r time ++ ((if c then ["\x1b[m"] else []) ++ ["\n\n"]))) := by
        cases c <;> simp [summaryToks, summaryHead, hp, h0, hne, countToks]
      rw [hshape]
      apply scan_summary_shape
      · cases c <;> simp
      · simp only [parseSummaryAt, parseErrorsHead, List.cons_append, List.append_assoc, parseCounts_countToks]
        simp [Result.printedSummary, hnok, hne, h3]
      · intro a ha
        simp only [List.mem_cons, List.mem_append] at ha
        rcases ha with rfl | rfl | ha | ha
        · exact ⟨h1 _, h2 _⟩
        · simp
        · exact hcn a ha
        · cases c <;> simp at ha <;> rcases ha with rfl | rfl <;> simp
    · have he : r.failureCount = 0 := by omega
      have hshape : summaryToks c r time =
          ("\n" :: (if c then ["\x1b[31;1m"] else [])) ++ "Errors (" ::
            ("ran nothing, " :: (countToks r time ++ ((if c then ["\x1b[m"] else []) ++ [noteText, "\n\n"]))) := by
        cases c <;> simp [summaryToks, summaryHead, hp, he, countToks]
      rw [hshape]
      apply scan_summary_shape
      · cases c <;> simp
      · simp only [parseSummaryAt, parseErrorsHead, List.cons_append, List.append_assoc, parseCounts_countToks]
        simp [Result.printedSummary, hnok, he]
      · intro a ha
        simp only [List.mem_cons, List.mem_append] at ha
        rcases ha with rfl | ha | ha
        · simp
        · exact hcn a ha
        · cases c <;> simp [noteText] at ha <;> rcases ha with rfl | rfl | rfl <;> simp

theorem failureToks_noHead (r : FailRec) (hc : r.clean) : ∀ a ∈ failureToks r, a ≠ "OK (" ∧ a ≠ "Errors (" := by
  obtain ⟨_, h2, h3, h4, h5⟩ := hc
  simp only [markers, List.mem_cons, List.mem_nil_iff, or_false, not_or] at h2 h3 h4 h5
  have h1 : ∀ n : Nat, n.repr ≠ "OK (" := repr_ne_ok
  have h1' : ∀ n : Nat, n.repr ≠ "Errors (" := repr_ne_errors
  unfold failureToks
  cases r.twoLocations <;> simp [locToks, h1, h1', h2.2, h3.2, h4.2, h5.2]

theorem scanSummaries_toksOf (c : Bool) : ∀ (evs : List Ev), CleanEvs evs →
    scanSummaries (toksOf c evs) = (summariesOf evs).map (fun x => x.1.printedSummary x.2)
  | [], _ => by simp [toksOf, scanSummaries]
  | e :: evs, h => by
    have htl : CleanEvs evs := by
      refine ⟨fun s hs => h.1 s ?_, fun r hr => h.2 r ?_⟩
      · simp [hs]
      · simp [hr]
    have ih := scanSummaries_toksOf c evs htl
    have hto : toksOf c (e :: evs) = Ev.toks c e ++ toksOf c evs := by simp [toksOf]
    rw [hto]
    cases e with
    | tok s =>
      have hs := h.1 s (by simp [Ev.tok?])
      simp only [markers, List.mem_cons, List.mem_nil_iff, or_false, not_or] at hs
      simp only [Ev.toks, List.singleton_append, scanSummaries, parseSummaryAt_none s _ hs.2.1 hs.2.2]
      simpa [Ev.summary?] using ih
    | failure r =>
      simp only [Ev.toks]
      rw [scanSummaries_skip _ _ (failureToks_noHead r (h.2 r (by simp [Ev.record?]))), ih]
      simp [Ev.summary?]
    | sepFailure r =>
      simp only [Ev.toks]
      rw [scanSummaries_skip _ _ (failureToks_noHead r (h.2 r (by simp [Ev.record?]))), ih]
      simp [Ev.summary?]
    | summary r time =>
      simp only [Ev.toks]
      rw [scanSummaries_summaryToks, ih]
      simp [Ev.summary?]
    | enter ph d => simpa [Ev.toks, Ev.summary?] using ih
    | mark ph n d => simpa [Ev.toks, Ev.summary?] using ih
    | plug n po d => simpa [Ev.toks, Ev.summary?] using ih
    | ended d cu f => simpa [Ev.toks, Ev.summary?] using ih
    | clock v => simpa [Ev.toks, Ev.summary?] using ih
    | ret v => simpa [Ev.toks, Ev.summary?] using ih

end Runner
