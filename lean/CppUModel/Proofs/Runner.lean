import CppUModel.Spec.Runner
import CppUModel.Proofs.ListLemmas
/-!
Helper lemmas for the C01 theorems: the operational runner model (`Model/Runner.lean`) is
brought into a closed form, phase by phase, test by test, repetition by repetition.
-/
namespace Runner

/-! ## projections distribute -/

@[simp] theorem failuresOf_nil : failuresOf [] = [] := rfl
@[simp] theorem failuresOf_append (a b : List Ev) : failuresOf (a ++ b) = failuresOf a ++ failuresOf b := by
  simp [failuresOf, List.filterMap_append]
@[simp] theorem marksIn_nil : marksIn [] = [] := rfl
@[simp] theorem marksIn_append (a b : List Ev) : marksIn (a ++ b) = marksIn a ++ marksIn b := by
  simp [marksIn, List.filterMap_append]
@[simp] theorem entersOf_nil : entersOf [] = [] := rfl
@[simp] theorem entersOf_append (a b : List Ev) : entersOf (a ++ b) = entersOf a ++ entersOf b := by
  simp [entersOf, List.filterMap_append]
@[simp] theorem summariesOf_nil : summariesOf [] = [] := rfl
@[simp] theorem summariesOf_append (a b : List Ev) : summariesOf (a ++ b) = summariesOf a ++ summariesOf b := by
  simp [summariesOf, List.filterMap_append]
@[simp] theorem endedOf_nil : endedOf [] = [] := rfl
@[simp] theorem endedOf_append (a b : List Ev) : endedOf (a ++ b) = endedOf a ++ endedOf b := by
  simp [endedOf, List.filterMap_append]

@[simp] theorem failuresOf_cons (e : Ev) (l : List Ev) :
    failuresOf (e :: l) = (Ev.failure? e).toList ++ failuresOf l := by
  cases h : Ev.failure? e <;> simp [failuresOf, h]
@[simp] theorem marksIn_cons (e : Ev) (l : List Ev) :
    marksIn (e :: l) = (Ev.mark? e).toList ++ marksIn l := by
  cases h : Ev.mark? e <;> simp [marksIn, h]
@[simp] theorem entersOf_cons (e : Ev) (l : List Ev) :
    entersOf (e :: l) = (Ev.enter? e).toList ++ entersOf l := by
  cases h : Ev.enter? e <;> simp [entersOf, h]
@[simp] theorem summariesOf_cons (e : Ev) (l : List Ev) :
    summariesOf (e :: l) = (Ev.summary? e).toList ++ summariesOf l := by
  cases h : Ev.summary? e <;> simp [summariesOf, h]
@[simp] theorem endedOf_cons (e : Ev) (l : List Ev) :
    endedOf (e :: l) = (Ev.ended? e).toList ++ endedOf l := by
  cases h : Ev.ended? e <;> simp [endedOf, h]

/-! ## one phase -/

/-- the failing checks among the executed statements (exceptions are recorded by the catch clauses) -/
def Stmt.checkFailure (cfg : Cfg) (t : Test) : Stmt → Option FailRec
  | .failCpp loc msg => some (mkRec cfg t loc msg)
  | .failC loc msg => some (mkRec cfg t loc msg)
  | _ => none

def checkFailures (cfg : Cfg) (t : Test) (p : List Stmt) : List FailRec :=
  (executed cfg.exceptions p).filterMap (Stmt.checkFailure cfg t)

/-- how control leaves the phase -/
def exitOf (exc : Bool) : List Stmt → Exit
  | [] => .normal
  | .failCpp _ _ :: _ => if exc then .exc .failed else .longjmp
  | .failC _ _ :: _ => .longjmp
  | .exitTest :: _ => if exc then .exc .failed else .longjmp
  | .throwStd :: rest => if exc then .exc .std else exitOf exc rest
  | .throwOther :: rest => if exc then .exc .other else exitOf exc rest
  | .mark _ :: rest => exitOf exc rest
  | .checkPass :: rest => exitOf exc rest

/-- the record the catch clauses add for an escaping exception -/
def excRecs (cfg : Cfg) (t : Test) : Exit → List FailRec
  | .exc .std => [mkRecAtTest cfg t cfg.stdExcMsg]
  | .exc .other => [mkRecAtTest cfg t cfg.otherExcMsg]
  | _ => []

@[simp] theorem term_mark (exc : Bool) (n : Nat) : (Stmt.mark n).terminates exc = false := rfl
@[simp] theorem term_checkPass (exc : Bool) : Stmt.checkPass.terminates exc = false := rfl
@[simp] theorem term_failCpp (exc : Bool) (l : Loc) (m : String) : (Stmt.failCpp l m).terminates exc = true := rfl
@[simp] theorem term_failC (exc : Bool) (l : Loc) (m : String) : (Stmt.failC l m).terminates exc = true := rfl
@[simp] theorem term_exitTest (exc : Bool) : Stmt.exitTest.terminates exc = true := rfl
@[simp] theorem term_throwStd (exc : Bool) : Stmt.throwStd.terminates exc = exc := rfl
@[simp] theorem term_throwOther (exc : Bool) : Stmt.throwOther.terminates exc = exc := rfl

@[simp] theorem executed_nil (exc : Bool) : executed exc [] = [] := rfl
@[simp] theorem executed_mark (exc : Bool) (n : Nat) (rest : List Stmt) :
    executed exc (.mark n :: rest) = .mark n :: executed exc rest := by simp [executed, Stmt.terminates]
@[simp] theorem executed_checkPass (exc : Bool) (rest : List Stmt) :
    executed exc (.checkPass :: rest) = .checkPass :: executed exc rest := by simp [executed, Stmt.terminates]
@[simp] theorem executed_failCpp (exc : Bool) (l : Loc) (m : String) (rest : List Stmt) :
    executed exc (.failCpp l m :: rest) = [.failCpp l m] := by simp [executed, Stmt.terminates]
@[simp] theorem executed_failC (exc : Bool) (l : Loc) (m : String) (rest : List Stmt) :
    executed exc (.failC l m :: rest) = [.failC l m] := by simp [executed, Stmt.terminates]
@[simp] theorem executed_exitTest (exc : Bool) (rest : List Stmt) :
    executed exc (.exitTest :: rest) = [.exitTest] := by simp [executed, Stmt.terminates]
@[simp] theorem executed_throwStd_exc (rest : List Stmt) :
    executed true (.throwStd :: rest) = [.throwStd] := by simp [executed, Stmt.terminates]
@[simp] theorem executed_throwStd_noexc (rest : List Stmt) :
    executed false (.throwStd :: rest) = .throwStd :: executed false rest := by simp [executed, Stmt.terminates]
@[simp] theorem executed_throwOther_exc (rest : List Stmt) :
    executed true (.throwOther :: rest) = [.throwOther] := by simp [executed, Stmt.terminates]
@[simp] theorem executed_throwOther_noexc (rest : List Stmt) :
    executed false (.throwOther :: rest) = .throwOther :: executed false rest := by simp [executed, Stmt.terminates]

theorem runStmts_marks (cfg : Cfg) (t : Test) (ph : Phase) (d : Int) :
    ∀ (p : List Stmt) (res : Result) (hf : Bool),
      marksIn (runStmts cfg t ph d res hf p).evs = (marksOf (executed cfg.exceptions p)).map (fun n => (ph, n))
  | [], res, hf => by simp [runStmts, marksOf]
  | s :: rest, res, hf => by
    have ih := runStmts_marks cfg t ph d rest
    cases hexc : cfg.exceptions <;> simp only [hexc] at ih <;>
    simp only [marksOf] at ih ⊢ <;>
    cases s <;> simp [runStmts, PhaseOut.cons, Ev.mark?, Stmt.markNo, ih, hexc, List.filterMap_cons]

theorem runStmts_enters (cfg : Cfg) (t : Test) (ph : Phase) (d : Int) :
    ∀ (p : List Stmt) (res : Result) (hf : Bool),
      entersOf (runStmts cfg t ph d res hf p).evs = [] ∧ summariesOf (runStmts cfg t ph d res hf p).evs = []
        ∧ endedOf (runStmts cfg t ph d res hf p).evs = []
  | [], res, hf => by simp [runStmts]
  | s :: rest, res, hf => by
    have ih := runStmts_enters cfg t ph d rest
    cases hexc : cfg.exceptions <;>
    cases s <;> simp [runStmts, PhaseOut.cons, Ev.enter?, Ev.summary?, Ev.ended?, ih, hexc]

theorem runStmts_failures (cfg : Cfg) (t : Test) (ph : Phase) (d : Int) :
    ∀ (p : List Stmt) (res : Result) (hf : Bool),
      failuresOf (runStmts cfg t ph d res hf p).evs = checkFailures cfg t p
  | [], res, hf => by simp [runStmts, checkFailures]
  | s :: rest, res, hf => by
    have ih := runStmts_failures cfg t ph d rest
    simp only [checkFailures] at ih ⊢
    cases hexc : cfg.exceptions <;> simp only [hexc] at ih <;>
    cases s <;> simp [runStmts, PhaseOut.cons, Ev.failure?, Stmt.checkFailure, ih, hexc, List.filterMap_cons]

theorem runStmts_exit (cfg : Cfg) (t : Test) (ph : Phase) (d : Int) :
    ∀ (p : List Stmt) (res : Result) (hf : Bool),
      (runStmts cfg t ph d res hf p).exit = exitOf cfg.exceptions p
  | [], res, hf => by simp [runStmts, exitOf]
  | s :: rest, res, hf => by
    have ih := runStmts_exit cfg t ph d rest
    cases hexc : cfg.exceptions <;> simp only [hexc] at ih <;>
    cases s <;> simp [runStmts, PhaseOut.cons, exitOf, normalTerminator, ih, hexc]

theorem runStmts_res (cfg : Cfg) (t : Test) (ph : Phase) (d : Int) :
    ∀ (p : List Stmt) (res : Result) (hf : Bool),
      (runStmts cfg t ph d res hf p).res =
        { res with checkCount := res.checkCount + checksOf (executed cfg.exceptions p),
                   failureCount := res.failureCount + (checkFailures cfg t p).length }
  | [], res, hf => by simp [runStmts, checksOf, checkFailures]
  | s :: rest, res, hf => by
    have ih := runStmts_res cfg t ph d rest
    simp only [checkFailures, checksOf] at ih ⊢
    cases hexc : cfg.exceptions <;> simp only [hexc] at ih <;>
    cases s <;> simp [runStmts, PhaseOut.cons, Stmt.checkFailure, Stmt.isCheck, ih, hexc, List.filterMap_cons,
      List.filter_cons, Result.countCheck, Result.countFailure] <;> omega

theorem runStmts_hasFailed (cfg : Cfg) (t : Test) (ph : Phase) (d : Int) :
    ∀ (p : List Stmt) (res : Result) (hf : Bool),
      (runStmts cfg t ph d res hf p).hasFailed = (hf || !(checkFailures cfg t p).isEmpty)
  | [], res, hf => by simp [runStmts, checkFailures]
  | s :: rest, res, hf => by
    have ih := runStmts_hasFailed cfg t ph d rest
    simp only [checkFailures] at ih ⊢
    cases hexc : cfg.exceptions <;> simp only [hexc] at ih <;>
    cases s <;> simp [runStmts, PhaseOut.cons, Stmt.checkFailure, ih, hexc, List.filterMap_cons]

theorem exitOf_normal_iff (exc : Bool) : ∀ (p : List Stmt), exitOf exc p = .normal ↔ completes exc p = true
  | [] => by simp [exitOf, completes]
  | s :: rest => by
    have ih := exitOf_normal_iff exc rest
    simp only [completes] at ih ⊢
    cases exc <;> cases s <;> simp [exitOf] <;> simpa using ih

/-- the failures the property demands of a phase: its failing check, or the record of the
    exception that leaves it -/
theorem phaseFailures_eq (cfg : Cfg) (t : Test) : ∀ (p : List Stmt),
    phaseFailures cfg t p = checkFailures cfg t p ++ excRecs cfg t (exitOf cfg.exceptions p)
  | [] => by simp [phaseFailures, checkFailures, exitOf, excRecs]
  | s :: rest => by
    have ih := phaseFailures_eq cfg t rest
    simp only [phaseFailures, checkFailures] at ih ⊢
    cases hexc : cfg.exceptions <;> simp only [hexc] at ih <;>
    cases s <;> simp [exitOf, excRecs, Stmt.failure, Stmt.checkFailure, hexc, List.filterMap_cons, ih]

/-! ## PlatformSpecificSetJmp around one phase -/

/-- the phase as `Utest::run` runs it when `jmp_buf_index = st.depth` (the user code sees depth + 1) -/
def phaseOut (cfg : Cfg) (t : Test) (ph : Phase) (st : TSt) : PhaseOut :=
  runStmts cfg t ph (st.depth + 1) st.res st.hasFailed (stmtsOf t ph)

def phaseEvs (cfg : Cfg) (t : Test) (ph : Phase) (st : TSt) : List Ev :=
  .enter ph (st.depth + 1) :: (phaseOut cfg t ph st).evs

/-- state after the phase, index back where it was -/
def stAfter (cfg : Cfg) (t : Test) (ph : Phase) (st : TSt) : TSt :=
  ⟨(phaseOut cfg t ph st).res, (phaseOut cfg t ph st).hasFailed, st.depth, st.current⟩

theorem setJmp_phase (cfg : Cfg) (t : Test) (ph : Phase) (st : TSt) (h : inBuf st.depth = true) :
    setJmp st (phaseFn cfg t ph) =
      .ok (match (phaseOut cfg t ph st).exit with
        | .normal => ⟨stAfter cfg t ph st, phaseEvs cfg t ph st, true, none⟩
        | .longjmp => ⟨stAfter cfg t ph st, phaseEvs cfg t ph st, false, none⟩
        | .exc k => ⟨{ stAfter cfg t ph st with depth := st.depth + 1 }, phaseEvs cfg t ph st, false, some k⟩) := by
  unfold setJmp
  simp only [h, Bool.not_true, Bool.false_eq_true, if_false, phaseFn]
  simp only [setJmpAfter, phaseOut, stAfter, phaseEvs, TSt.dec]
  cases hx : (runStmts cfg t ph (st.depth + 1) st.res st.hasFailed (stmtsOf t ph)).exit with
  | normal => simp
  | longjmp => simp [h]
  | exc k => simp

/-! ## Utest::run in closed form -/

/-- what the catch clauses do to the state (index already restored) -/
def caught (st : TSt) : Exit → TSt
  | .exc .std => shellAddFailure st
  | .exc .other => shellAddFailure st
  | _ => st

/-- one phase with its `try`/`catch`: state after it, everything it printed -/
def phaseStep (cfg : Cfg) (t : Test) (ph : Phase) (st : TSt) : Acc :=
  ⟨caught (stAfter cfg t ph st) (phaseOut cfg t ph st).exit,
   phaseEvs cfg t ph st ++ (excRecs cfg t (phaseOut cfg t ph st).exit).map Ev.failure⟩

@[simp] theorem caught_depth (st : TSt) (e : Exit) : (caught st e).depth = st.depth := by
  unfold caught; split <;> simp [shellAddFailure]
@[simp] theorem caught_current (st : TSt) (e : Exit) : (caught st e).current = st.current := by
  unfold caught; split <;> simp [shellAddFailure]
@[simp] theorem phaseStep_depth (cfg : Cfg) (t : Test) (ph : Phase) (st : TSt) :
    (phaseStep cfg t ph st).st.depth = st.depth := by simp [phaseStep, stAfter]
@[simp] theorem phaseStep_current (cfg : Cfg) (t : Test) (ph : Phase) (st : TSt) :
    (phaseStep cfg t ph st).st.current = st.current := by simp [phaseStep, stAfter]

theorem try_phase (cfg : Cfg) (t : Test) (ph : Phase) (st : TSt) (before : List Ev)
    (hr : cfg.rethrow = false) (h : inBuf st.depth = true) :
    (match setJmp st (phaseFn cfg t ph) with
      | .error f => (.error f : Except Fault Acc)
      | .ok j => afterTry cfg t j before)
      = .ok ⟨(phaseStep cfg t ph st).st, before ++ (phaseStep cfg t ph st).evs⟩ := by
  rw [setJmp_phase cfg t ph st h]
  simp only [phaseStep]
  cases hx : (phaseOut cfg t ph st).exit with
  | normal => simp [afterTry, caught, excRecs]
  | longjmp => simp [afterTry, caught, excRecs]
  | exc k =>
    cases k <;>
      simp [afterTry, catchClauses, caught, excRecs, hr, restoreJumpBuffer, shellAddFailure, TSt.dec, stAfter]

theorem exitOf_noexc (p : List Stmt) (k : ExcKind) : exitOf false p ≠ .exc k := by
  induction p with
  | nil => simp [exitOf]
  | cons s rest ih => cases s <;> simp [exitOf, ih]

theorem phaseOut_exit_noexc (cfg : Cfg) (t : Test) (ph : Phase) (st : TSt) (k : ExcKind)
    (hx : cfg.exceptions = false) : (phaseOut cfg t ph st).exit ≠ .exc k := by
  simp only [phaseOut, runStmts_exit, hx]; exact exitOf_noexc _ k

theorem noexc_phase (cfg : Cfg) (t : Test) (ph : Phase) (st : TSt) (before : List Ev)
    (hx : cfg.exceptions = false) (h : inBuf st.depth = true) :
    (match setJmp st (phaseFn cfg t ph) with
      | .error f => (.error f : Except Fault Acc)
      | .ok j => noEsc j before)
      = .ok ⟨(phaseStep cfg t ph st).st, before ++ (phaseStep cfg t ph st).evs⟩ := by
  rw [setJmp_phase cfg t ph st h]
  simp only [phaseStep]
  cases hex : (phaseOut cfg t ph st).exit with
  | normal => simp [noEsc, caught, excRecs]
  | longjmp => simp [noEsc, caught, excRecs]
  | exc k => exact absurd hex (phaseOut_exit_noexc cfg t ph st k hx)

theorem phaseStep_of_normal (cfg : Cfg) (t : Test) (ph : Phase) (st : TSt)
    (hx : (phaseOut cfg t ph st).exit = .normal) :
    phaseStep cfg t ph st = ⟨stAfter cfg t ph st, phaseEvs cfg t ph st⟩ := by
  simp [phaseStep, hx, caught, excRecs]

theorem phaseStep_of_longjmp (cfg : Cfg) (t : Test) (ph : Phase) (st : TSt)
    (hx : (phaseOut cfg t ph st).exit = .longjmp) :
    phaseStep cfg t ph st = ⟨stAfter cfg t ph st, phaseEvs cfg t ph st⟩ := by
  simp [phaseStep, hx, caught, excRecs]

/-- state and events after setup and (if setup returned normally) body -/
def afterBody (cfg : Cfg) (t : Test) (st : TSt) : Acc :=
  if (phaseOut cfg t .setup st).exit = .normal then
    ⟨(phaseStep cfg t .body (phaseStep cfg t .setup st).st).st,
     (phaseStep cfg t .setup st).evs ++ (phaseStep cfg t .body (phaseStep cfg t .setup st).st).evs⟩
  else phaseStep cfg t .setup st

@[simp] theorem afterBody_depth (cfg : Cfg) (t : Test) (st : TSt) : (afterBody cfg t st).st.depth = st.depth := by
  unfold afterBody; split <;> simp
@[simp] theorem afterBody_current (cfg : Cfg) (t : Test) (st : TSt) : (afterBody cfg t st).st.current = st.current := by
  unfold afterBody; split <;> simp

/-- `Utest::run`: setup; body if setup returned normally; teardown -/
def utestClosed (cfg : Cfg) (t : Test) (st : TSt) : Acc :=
  ⟨(phaseStep cfg t .teardown (afterBody cfg t st).st).st,
   (afterBody cfg t st).evs ++ (phaseStep cfg t .teardown (afterBody cfg t st).st).evs⟩

theorem tryBlock1_closed (cfg : Cfg) (t : Test) (st : TSt)
    (hr : cfg.rethrow = false) (h : inBuf st.depth = true) :
    tryBlock1 cfg t st = .ok (afterBody cfg t st) := by
  unfold tryBlock1 afterBody
  rw [setJmp_phase cfg t .setup st h]
  cases hx : (phaseOut cfg t .setup st).exit with
  | normal =>
    rw [phaseStep_of_normal cfg t .setup st hx]
    simp only [bodyIfSetupReturned, if_true]
    exact try_phase cfg t .body (stAfter cfg t .setup st) (phaseEvs cfg t .setup st) hr (by simpa [stAfter] using h)
  | longjmp =>
    rw [phaseStep_of_longjmp cfg t .setup st hx]
    simp [bodyIfSetupReturned]
  | exc k =>
    cases k <;>
      simp [bodyIfSetupReturned, catchClauses, phaseStep, caught, excRecs, hx, hr, restoreJumpBuffer,
        shellAddFailure, TSt.dec, stAfter]

theorem tryBlock2_closed (cfg : Cfg) (t : Test) (a : Acc)
    (hr : cfg.rethrow = false) (h : inBuf a.st.depth = true) :
    tryBlock2 cfg t a = .ok ⟨(phaseStep cfg t .teardown a.st).st, a.evs ++ (phaseStep cfg t .teardown a.st).evs⟩ := by
  unfold tryBlock2
  exact try_phase cfg t .teardown a.st a.evs hr h

theorem utestRunExc_closed (cfg : Cfg) (t : Test) (st : TSt)
    (hr : cfg.rethrow = false) (h : inBuf st.depth = true) :
    utestRunExc cfg t st = .ok (utestClosed cfg t st) := by
  unfold utestRunExc
  rw [tryBlock1_closed cfg t st hr h]
  simp only []
  rw [tryBlock2_closed cfg t _ hr (by simpa using h)]
  rfl

theorem bodyNoExc_closed (cfg : Cfg) (t : Test) (st : TSt)
    (hx : cfg.exceptions = false) (h : inBuf st.depth = true) :
    (match setJmp st (phaseFn cfg t .setup) with
      | .error f => (.error f : Except Fault Acc)
      | .ok j1 => bodyNoExc cfg t j1) = .ok (afterBody cfg t st) := by
  unfold afterBody
  rw [setJmp_phase cfg t .setup st h]
  cases hex : (phaseOut cfg t .setup st).exit with
  | normal =>
    rw [phaseStep_of_normal cfg t .setup st hex]
    simp only [bodyNoExc, if_true]
    exact noexc_phase cfg t .body (stAfter cfg t .setup st) (phaseEvs cfg t .setup st) hx (by simpa [stAfter] using h)
  | longjmp =>
    rw [phaseStep_of_longjmp cfg t .setup st hex]
    simp [bodyNoExc]
  | exc k => exact absurd hex (phaseOut_exit_noexc cfg t .setup st k hx)

theorem utestRunNoExc_closed (cfg : Cfg) (t : Test) (st : TSt)
    (hx : cfg.exceptions = false) (h : inBuf st.depth = true) :
    utestRunNoExc cfg t st = .ok (utestClosed cfg t st) := by
  have hb := bodyNoExc_closed cfg t st hx h
  unfold utestRunNoExc
  cases hs : setJmp st (phaseFn cfg t .setup) with
  | error f => simp [hs] at hb
  | ok j1 =>
    simp only [hs] at hb
    simp only [hb, teardownNoExc, utestClosed]
    exact noexc_phase cfg t .teardown _ _ hx (by simpa using h)

theorem utestRun_closed (cfg : Cfg) (t : Test) (st : TSt)
    (hr : cfg.rethrow = false) (h : inBuf st.depth = true) :
    utestRun cfg t st = .ok (utestClosed cfg t st) := by
  unfold utestRun
  cases hx : cfg.exceptions with
  | true => simp [utestRunExc_closed cfg t st hr h]
  | false => simp [utestRunNoExc_closed cfg t st hx h]

/-! ## what one test does, read off the closed form -/

/-- `checks` more checks counted, `fails` more failures counted -/
def Result.bump (r : Result) (checks fails : Nat) : Result :=
  { r with checkCount := r.checkCount + checks, failureCount := r.failureCount + fails }

@[simp] theorem bump_bump (r : Result) (a b c d : Nat) : (r.bump a b).bump c d = r.bump (a + c) (b + d) := by
  simp [Result.bump, Nat.add_assoc]
@[simp] theorem bump_zero (r : Result) : r.bump 0 0 = r := by simp [Result.bump]

theorem phaseStep_enters (cfg : Cfg) (t : Test) (ph : Phase) (st : TSt) :
    entersOf (phaseStep cfg t ph st).evs = [ph] := by
  have h := (runStmts_enters cfg t ph (st.depth + 1) (stmtsOf t ph) st.res st.hasFailed).1
  simp only [phaseStep, phaseEvs, phaseOut, entersOf_append, entersOf_cons, h]
  cases (runStmts cfg t ph (st.depth + 1) st.res st.hasFailed (stmtsOf t ph)).exit with
  | normal => simp [excRecs, Ev.enter?]
  | longjmp => simp [excRecs, Ev.enter?]
  | exc k => cases k <;> simp [excRecs, Ev.enter?]

theorem phaseStep_marks (cfg : Cfg) (t : Test) (ph : Phase) (st : TSt) :
    marksIn (phaseStep cfg t ph st).evs = (marksOf (executed cfg.exceptions (stmtsOf t ph))).map (fun n => (ph, n)) := by
  have h := runStmts_marks cfg t ph (st.depth + 1) (stmtsOf t ph) st.res st.hasFailed
  simp only [phaseStep, phaseEvs, phaseOut, marksIn_append, marksIn_cons, h]
  cases (runStmts cfg t ph (st.depth + 1) st.res st.hasFailed (stmtsOf t ph)).exit with
  | normal => simp [excRecs, Ev.mark?]
  | longjmp => simp [excRecs, Ev.mark?]
  | exc k => cases k <;> simp [excRecs, Ev.mark?]

theorem failuresOf_map_failure (l : List FailRec) : failuresOf (l.map Ev.failure) = l := by
  induction l with
  | nil => rfl
  | cons a l ih => simp [Ev.failure?, ih]

theorem phaseStep_failures (cfg : Cfg) (t : Test) (ph : Phase) (st : TSt) :
    failuresOf (phaseStep cfg t ph st).evs = phaseFailures cfg t (stmtsOf t ph) := by
  have h := runStmts_failures cfg t ph (st.depth + 1) (stmtsOf t ph) st.res st.hasFailed
  have hx := runStmts_exit cfg t ph (st.depth + 1) (stmtsOf t ph) st.res st.hasFailed
  simp only [phaseStep, phaseEvs, phaseOut, failuresOf_append, failuresOf_cons, h, hx, failuresOf_map_failure,
    phaseFailures_eq]
  simp [Ev.failure?]

theorem phaseStep_other (cfg : Cfg) (t : Test) (ph : Phase) (st : TSt) :
    summariesOf (phaseStep cfg t ph st).evs = [] ∧ endedOf (phaseStep cfg t ph st).evs = [] := by
  have h := runStmts_enters cfg t ph (st.depth + 1) (stmtsOf t ph) st.res st.hasFailed
  simp only [phaseStep, phaseEvs, phaseOut, summariesOf_append, summariesOf_cons, endedOf_append, endedOf_cons, h.2.1, h.2.2]
  cases (runStmts cfg t ph (st.depth + 1) st.res st.hasFailed (stmtsOf t ph)).exit with
  | normal => simp [excRecs, Ev.summary?, Ev.ended?]
  | longjmp => simp [excRecs, Ev.summary?, Ev.ended?]
  | exc k => cases k <;> simp [excRecs, Ev.summary?, Ev.ended?]

theorem phaseStep_res (cfg : Cfg) (t : Test) (ph : Phase) (st : TSt) :
    (phaseStep cfg t ph st).st.res =
      st.res.bump (checksOf (executed cfg.exceptions (stmtsOf t ph))) (phaseFailures cfg t (stmtsOf t ph)).length := by
  have h := runStmts_res cfg t ph (st.depth + 1) (stmtsOf t ph) st.res st.hasFailed
  have hx := runStmts_exit cfg t ph (st.depth + 1) (stmtsOf t ph) st.res st.hasFailed
  simp only [phaseStep, stAfter, phaseOut, h, hx, phaseFailures_eq, List.length_append]
  cases exitOf cfg.exceptions (stmtsOf t ph) with
  | normal => simp [caught, excRecs, Result.bump]
  | longjmp => simp [caught, excRecs, Result.bump]
  | exc k => cases k <;> simp [caught, excRecs, Result.bump, shellAddFailure, Result.countFailure, Nat.add_assoc]

theorem phaseStep_hasFailed (cfg : Cfg) (t : Test) (ph : Phase) (st : TSt) :
    (phaseStep cfg t ph st).st.hasFailed = (st.hasFailed || !(phaseFailures cfg t (stmtsOf t ph)).isEmpty) := by
  have h := runStmts_hasFailed cfg t ph (st.depth + 1) (stmtsOf t ph) st.res st.hasFailed
  have hx := runStmts_exit cfg t ph (st.depth + 1) (stmtsOf t ph) st.res st.hasFailed
  simp only [phaseStep, stAfter, phaseOut, h, hx, phaseFailures_eq]
  cases exitOf cfg.exceptions (stmtsOf t ph) with
  | normal => simp [caught, excRecs]
  | longjmp => simp [caught, excRecs]
  | exc k => cases k <;> simp [caught, excRecs, shellAddFailure]

theorem setup_normal_iff (cfg : Cfg) (t : Test) (st : TSt) :
    (phaseOut cfg t .setup st).exit = .normal ↔ completes cfg.exceptions t.setup = true := by
  simp only [phaseOut, runStmts_exit, stmtsOf]
  exact exitOf_normal_iff cfg.exceptions t.setup

theorem utestClosed_enters (cfg : Cfg) (t : Test) (st : TSt) :
    entersOf (utestClosed cfg t st).evs = phasesRun cfg t := by
  simp only [utestClosed, afterBody, phasesRun, setup_normal_iff]
  cases completes cfg.exceptions t.setup <;> simp [phaseStep_enters]

theorem utestClosed_marks (cfg : Cfg) (t : Test) (st : TSt) :
    marksIn (utestClosed cfg t st).evs = testMarks cfg t := by
  simp only [utestClosed, afterBody, testMarks, phasesRun, setup_normal_iff]
  cases completes cfg.exceptions t.setup <;> simp [phaseStep_marks]

theorem utestClosed_failures (cfg : Cfg) (t : Test) (st : TSt) :
    failuresOf (utestClosed cfg t st).evs = testPhaseFailures cfg t := by
  simp only [utestClosed, afterBody, testPhaseFailures, phasesRun, setup_normal_iff]
  cases completes cfg.exceptions t.setup <;> simp [phaseStep_failures]

theorem utestClosed_other (cfg : Cfg) (t : Test) (st : TSt) :
    summariesOf (utestClosed cfg t st).evs = [] ∧ endedOf (utestClosed cfg t st).evs = [] := by
  simp only [utestClosed, afterBody]
  split <;> simp [phaseStep_other]

theorem utestClosed_res (cfg : Cfg) (t : Test) (st : TSt) :
    (utestClosed cfg t st).st.res = st.res.bump (testChecks cfg t) (testPhaseFailures cfg t).length := by
  simp only [utestClosed, afterBody, testChecks, testPhaseFailures, phasesRun, setup_normal_iff]
  cases completes cfg.exceptions t.setup <;> simp [phaseStep_res, Nat.add_assoc]

theorem isEmpty_append' {α} (a b : List α) : (a ++ b).isEmpty = (a.isEmpty && b.isEmpty) := by
  cases a <;> simp

theorem utestClosed_hasFailed (cfg : Cfg) (t : Test) (st : TSt) :
    (utestClosed cfg t st).st.hasFailed = (st.hasFailed || !(testPhaseFailures cfg t).isEmpty) := by
  simp only [utestClosed, afterBody, testPhaseFailures, phasesRun, setup_normal_iff]
  cases completes cfg.exceptions t.setup <;> simp [phaseStep_hasFailed, Bool.or_assoc, isEmpty_append', Bool.not_and]

@[simp] theorem utestClosed_depth (cfg : Cfg) (t : Test) (st : TSt) : (utestClosed cfg t st).st.depth = st.depth := by
  simp [utestClosed]
@[simp] theorem utestClosed_current (cfg : Cfg) (t : Test) (st : TSt) : (utestClosed cfg t st).st.current = st.current := by
  simp [utestClosed]

/-! ## plugins -/

theorem reportErrs_spec (cfg : Cfg) (t : Test) : ∀ (errs : List PErr) (st : TSt),
    (reportErrs cfg t errs st).st = { st with res := st.res.bump 0 (pluginErrs cfg t errs).length } ∧
    (reportErrs cfg t errs st).evs = (pluginErrs cfg t errs).map Ev.failure
  | [], st => by simp [reportErrs, pluginErrs]
  | e :: rest, st => by
    have ih := reportErrs_spec cfg t rest
    unfold reportErrs
    cases h : e.applies t with
    | true =>
      simp only [if_true, pluginErrs, List.filter_cons, h, List.map_cons, List.length_cons]
      simp only [pluginErrs] at ih
      refine ⟨?_, ?_⟩
      · rw [(ih _).1]; simp [Result.bump, Result.countFailure]; omega
      · rw [(ih _).2]
    | false =>
      simp only [pluginErrs, List.filter_cons, h]
      simpa [pluginErrs] using ih st

/-- an event list that contains failure records and plugin notifications only -/
def OnlyFailures (evs : List Ev) : Prop :=
  marksIn evs = [] ∧ entersOf evs = [] ∧ summariesOf evs = [] ∧ endedOf evs = []

theorem onlyFailures_map (l : List FailRec) : OnlyFailures (l.map Ev.failure) := by
  induction l with
  | nil => simp [OnlyFailures]
  | cons a l ih =>
    obtain ⟨h1, h2, h3, h4⟩ := ih
    simp [OnlyFailures, Ev.mark?, Ev.enter?, Ev.summary?, Ev.ended?, h1, h2, h3, h4]

theorem onlyFailures_append {a b : List Ev} (ha : OnlyFailures a) (hb : OnlyFailures b) : OnlyFailures (a ++ b) := by
  obtain ⟨a1, a2, a3, a4⟩ := ha
  obtain ⟨b1, b2, b3, b4⟩ := hb
  simp [OnlyFailures, a1, a2, a3, a4, b1, b2, b3, b4]

theorem onlyFailures_plug (name : String) (post : Bool) (d : Int) {a : List Ev} (ha : OnlyFailures a) :
    OnlyFailures (.plug name post d :: a) := by
  obtain ⟨a1, a2, a3, a4⟩ := ha
  simp [OnlyFailures, Ev.mark?, Ev.enter?, Ev.summary?, Ev.ended?, a1, a2, a3, a4]

theorem runAllPre_spec (cfg : Cfg) (t : Test) : ∀ (ps : List Plugin) (st : TSt),
    (runAllPre cfg t ps st).st = { st with res := st.res.bump 0 (preFailures cfg ps t).length } ∧
    failuresOf (runAllPre cfg t ps st).evs = preFailures cfg ps t ∧
    OnlyFailures (runAllPre cfg t ps st).evs
  | [], st => by simp [runAllPre, preFailures, OnlyFailures]
  | p :: rest, st => by
    have ih := runAllPre_spec cfg t rest
    unfold runAllPre
    cases h : p.enabled with
    | false => simpa [preFailures, List.filter_cons, h] using ih st
    | true =>
      have hr := reportErrs_spec cfg t p.pre st
      simp only [if_true, preFailures, List.filter_cons, h, List.flatMap_cons, List.length_append]
      simp only [preFailures] at ih
      refine ⟨?_, ?_, ?_⟩
      · rw [(ih _).1, hr.1]; simp
      · simp [Ev.failure?, hr.2, failuresOf_map_failure, (ih _).2.1]
      · exact onlyFailures_plug _ _ _ (onlyFailures_append (hr.2 ▸ onlyFailures_map _) (ih _).2.2)

theorem postFailures_cons (cfg : Cfg) (t : Test) (p : Plugin) (rest : List Plugin) :
    postFailures cfg (p :: rest) t =
      postFailures cfg rest t ++ (if p.enabled then pluginErrs cfg t p.post else []) := by
  simp only [postFailures, List.reverse_cons, List.filter_append, List.flatMap_append]
  cases h : p.enabled <;> simp [h]

theorem runAllPost_spec (cfg : Cfg) (t : Test) : ∀ (ps : List Plugin) (st : TSt),
    (runAllPost cfg t ps st).st = { st with res := st.res.bump 0 (postFailures cfg ps t).length } ∧
    failuresOf (runAllPost cfg t ps st).evs = postFailures cfg ps t ∧
    OnlyFailures (runAllPost cfg t ps st).evs
  | [], st => by simp [runAllPost, postFailures, OnlyFailures]
  | p :: rest, st => by
    have ih := runAllPost_spec cfg t rest st
    unfold runAllPost
    rw [postFailures_cons]
    cases h : p.enabled with
    | false => simpa [h] using ih
    | true =>
      have hr := reportErrs_spec cfg t p.post (runAllPost cfg t rest st).st
      simp only [if_true, List.length_append]
      refine ⟨?_, ?_, ?_⟩
      · rw [hr.1, ih.1]; simp
      · simp [Ev.failure?, hr.2, failuresOf_map_failure, ih.2.1]
      · exact onlyFailures_append ih.2.2 (onlyFailures_plug _ _ _ (hr.2 ▸ onlyFailures_map _))

@[simp] theorem runAllPre_depth (cfg : Cfg) (t : Test) (ps : List Plugin) (st : TSt) :
    (runAllPre cfg t ps st).st.depth = st.depth := by rw [(runAllPre_spec cfg t ps st).1]
@[simp] theorem runAllPre_current (cfg : Cfg) (t : Test) (ps : List Plugin) (st : TSt) :
    (runAllPre cfg t ps st).st.current = st.current := by rw [(runAllPre_spec cfg t ps st).1]
@[simp] theorem runAllPre_hasFailed (cfg : Cfg) (t : Test) (ps : List Plugin) (st : TSt) :
    (runAllPre cfg t ps st).st.hasFailed = st.hasFailed := by rw [(runAllPre_spec cfg t ps st).1]
@[simp] theorem runAllPre_res (cfg : Cfg) (t : Test) (ps : List Plugin) (st : TSt) :
    (runAllPre cfg t ps st).st.res = st.res.bump 0 (preFailures cfg ps t).length := by
  rw [(runAllPre_spec cfg t ps st).1]
@[simp] theorem runAllPost_depth (cfg : Cfg) (t : Test) (ps : List Plugin) (st : TSt) :
    (runAllPost cfg t ps st).st.depth = st.depth := by rw [(runAllPost_spec cfg t ps st).1]
@[simp] theorem runAllPost_current (cfg : Cfg) (t : Test) (ps : List Plugin) (st : TSt) :
    (runAllPost cfg t ps st).st.current = st.current := by rw [(runAllPost_spec cfg t ps st).1]
@[simp] theorem runAllPost_hasFailed (cfg : Cfg) (t : Test) (ps : List Plugin) (st : TSt) :
    (runAllPost cfg t ps st).st.hasFailed = st.hasFailed := by rw [(runAllPost_spec cfg t ps st).1]
@[simp] theorem runAllPost_res (cfg : Cfg) (t : Test) (ps : List Plugin) (st : TSt) :
    (runAllPost cfg t ps st).st.res = st.res.bump 0 (postFailures cfg ps t).length := by
  rw [(runAllPost_spec cfg t ps st).1]

/-! ## UtestShell::runOneTest -/

/-- everything the theorems need to know about one `runOneTest` call -/
structure TestOutcome (cfg : Cfg) (plugins : List Plugin) (t : Test) (st : TSt) (j : JmpOut) : Prop where
  esc : j.esc = none
  depth : j.st.depth = st.depth
  current : j.st.current = st.current
  res : j.st.res = (st.res.countRun).bump (testChecks cfg t) (testFailures cfg plugins t).length
  hasFailed : j.st.hasFailed = !(testPhaseFailures cfg t).isEmpty
  failures : failuresOf j.evs = testFailures cfg plugins t
  marks : marksIn j.evs = testMarks cfg t
  enters : entersOf j.evs = phasesRun cfg t
  summaries : summariesOf j.evs = []
  ended : endedOf j.evs = []

theorem runOneTest_closed (cfg : Cfg) (plugins : List Plugin) (t : Test) (st : TSt)
    (hr : cfg.rethrow = false) (h0 : inBuf st.depth = true) (h1 : inBuf (st.depth + 1) = true) :
    ∃ j, runOneTest cfg plugins t st = .ok j ∧ TestOutcome cfg plugins t st j := by
  unfold runOneTest setJmp
  simp only [h0, Bool.not_true, Bool.false_eq_true, if_false, runOneTestInCurrentProcess]
  rw [utestRun_closed cfg t _ hr (by simpa using h1)]
  simp only [setJmpAfter, afterRun, TSt.dec]
  refine ⟨_, rfl, ?_⟩
  constructor
  · rfl
  · simp
  · simp
  · simp [utestClosed_res, testFailures, Nat.add_assoc]
  · simp [utestClosed_hasFailed]
  · simp [(runAllPre_spec cfg t plugins _).2.1, (runAllPost_spec cfg t plugins _).2.1, utestClosed_failures, testFailures]
  · simp [(runAllPre_spec cfg t plugins _).2.2.1, (runAllPost_spec cfg t plugins _).2.2.1, utestClosed_marks]
  · simp [(runAllPre_spec cfg t plugins _).2.2.2.1, (runAllPost_spec cfg t plugins _).2.2.2.1, utestClosed_enters]
  · simp [(runAllPre_spec cfg t plugins _).2.2.2.2.1, (runAllPost_spec cfg t plugins _).2.2.2.2.1, (utestClosed_other cfg t _).1]
  · simp [(runAllPre_spec cfg t plugins _).2.2.2.2.2, (runAllPost_spec cfg t plugins _).2.2.2.2.2, (utestClosed_other cfg t _).2]

/-! ## the loop over the registry -/

/-- an event list of plain console strings -/
def OnlyToks (evs : List Ev) : Prop :=
  failuresOf evs = [] ∧ marksIn evs = [] ∧ entersOf evs = [] ∧ summariesOf evs = [] ∧ endedOf evs = []

theorem testStartedToks_only (cfg : Cfg) (t : Test) : OnlyToks (testStartedToks cfg t) := by
  unfold testStartedToks OnlyToks
  split <;> simp [Ev.failure?, Ev.mark?, Ev.enter?, Ev.summary?, Ev.ended?]

theorem testEndedToks_only (cfg : Cfg) (ind : String) (dots : Nat) : OnlyToks (testEndedToks cfg ind dots) := by
  unfold testEndedToks OnlyToks
  split
  · simp [Ev.failure?, Ev.mark?, Ev.enter?, Ev.summary?, Ev.ended?]
  · split <;> simp [Ev.failure?, Ev.mark?, Ev.enter?, Ev.summary?, Ev.ended?]

theorem testRunToks_only (a b : Nat) : OnlyToks (testRunToks a b) := by
  unfold testRunToks OnlyToks
  split <;> simp [Ev.failure?, Ev.mark?, Ev.enter?, Ev.summary?, Ev.ended?]

/-- the per-test failed flag the property demands: the test ran and one of its phases failed -/
def failedFlag (cfg : Cfg) (t : Test) : Bool := willRun cfg t && !(testPhaseFailures cfg t).isEmpty

/-- counters after one entry of the registry -/
def addTest (cfg : Cfg) (plugins : List Plugin) (r : Result) (t : Test) : Result :=
  if shouldRun cfg t then
    if willRun cfg t then (r.countTest.countRun).bump (testChecks cfg t) (testFailures cfg plugins t).length
    else r.countTest.countIgnored
  else r.countTest.countFilteredOut

structure EntryOutcome (cfg : Cfg) (plugins : List Plugin) (ts : List Test) (s : LSt) (a : LAcc) : Prop where
  depth : a.st.depth = s.depth
  current : a.st.current = s.current
  res : a.st.res = ts.foldl (addTest cfg plugins) s.res
  failures : failuresOf a.evs = (running cfg ts).flatMap (testFailures cfg plugins)
  marks : marksIn a.evs = (running cfg ts).flatMap (testMarks cfg)
  enters : entersOf a.evs = (running cfg ts).flatMap (phasesRun cfg)
  summaries : summariesOf a.evs = []
  ended : endedOf a.evs = (selected cfg ts).map (fun t => (s.depth, s.current, failedFlag cfg t))

theorem runEntry_closed (cfg : Cfg) (plugins : List Plugin) (t : Test) (s : LSt)
    (hr : cfg.rethrow = false) (h0 : inBuf s.depth = true) (h1 : inBuf (s.depth + 1) = true) :
    ∃ a, runEntry cfg plugins t s = .ok a ∧ EntryOutcome cfg plugins [t] s a := by
  unfold runEntry
  cases hs : shouldRun cfg t with
  | false =>
    refine ⟨_, rfl, ?_⟩
    constructor <;> simp [addTest, hs, running, selected]
  | true =>
    simp only [if_true, runSelected]
    cases hw : willRun cfg t with
    | false =>
      simp only [Bool.false_eq_true, if_false]
      refine ⟨_, rfl, ?_⟩
      obtain ⟨a1, a2, a3, a4, a5⟩ := testStartedToks_only cfg t
      obtain ⟨b1, b2, b3, b4, b5⟩ := testEndedToks_only cfg "!" s.out.dotCount
      constructor <;>
        simp [addTest, hs, hw, running, selected, failedFlag, a1, a2, a3, a4, a5, b1, b2, b3, b4, b5,
          Ev.failure?, Ev.mark?, Ev.enter?, Ev.summary?, Ev.ended?]
    | true =>
      simp only [if_true]
      obtain ⟨j, hj, ho⟩ := runOneTest_closed cfg plugins t ⟨s.res.countTest, false, s.depth, s.current⟩ hr h0 h1
      rw [hj]
      simp only [ho.esc]
      refine ⟨_, rfl, ?_⟩
      obtain ⟨a1, a2, a3, a4, a5⟩ := testStartedToks_only cfg t
      obtain ⟨b1, b2, b3, b4, b5⟩ := testEndedToks_only cfg "." s.out.dotCount
      constructor <;>
        simp [addTest, hs, hw, running, selected, failedFlag, a1, a2, a3, a4, a5, b1, b2, b3, b4, b5,
          Ev.failure?, Ev.mark?, Ev.enter?, Ev.summary?, Ev.ended?,
          ho.depth, ho.current, ho.res, ho.hasFailed, ho.failures, ho.marks, ho.enters, ho.summaries, ho.ended]

theorem running_cons (cfg : Cfg) (t : Test) (ts : List Test) :
    running cfg (t :: ts) = running cfg [t] ++ running cfg ts := by
  simp only [running, selected]
  cases hs : shouldRun cfg t <;> cases hw : willRun cfg t <;> simp [hs, hw]

theorem selected_cons (cfg : Cfg) (t : Test) (ts : List Test) :
    selected cfg (t :: ts) = selected cfg [t] ++ selected cfg ts := by
  simp only [selected, List.filter_cons]
  cases shouldRun cfg t <;> simp

theorem runTests_closed (cfg : Cfg) (plugins : List Plugin) (hr : cfg.rethrow = false) :
    ∀ (ts : List Test) (s : LSt), inBuf s.depth = true → inBuf (s.depth + 1) = true →
      ∃ a, runTests cfg plugins ts s = .ok a ∧ EntryOutcome cfg plugins ts s a
  | [], s, _, _ => by
    refine ⟨_, rfl, ?_⟩
    constructor <;> simp [running, selected]
  | t :: rest, s, h0, h1 => by
    obtain ⟨a, ha, oa⟩ := runEntry_closed cfg plugins t s hr h0 h1
    obtain ⟨b, hb, ob⟩ := runTests_closed cfg plugins hr rest a.st (by rw [oa.depth]; exact h0) (by rw [oa.depth]; exact h1)
    unfold runTests
    rw [ha]; simp only []; rw [hb]
    refine ⟨_, rfl, ?_⟩
    constructor
    · simp [ob.depth, oa.depth]
    · simp [ob.current, oa.current]
    · simp [ob.res, oa.res]
    · rw [running_cons]; simp [oa.failures, ob.failures]
    · rw [running_cons]; simp [oa.marks, ob.marks]
    · rw [running_cons]; simp [oa.enters, ob.enters]
    · simp [oa.summaries, ob.summaries]
    · rw [selected_cons]; simp [oa.ended, ob.ended, oa.depth, oa.current]

theorem selected_length_le (cfg : Cfg) (ts : List Test) : (selected cfg ts).length ≤ ts.length :=
  List.length_filter_le _ _

theorem running_length_le (cfg : Cfg) (ts : List Test) : (running cfg ts).length ≤ (selected cfg ts).length :=
  List.length_filter_le _ _

theorem foldl_addTest (cfg : Cfg) (plugins : List Plugin) : ∀ (ts : List Test) (r : Result),
    ts.foldl (addTest cfg plugins) r =
      { testCount := r.testCount + ts.length,
        runCount := r.runCount + (running cfg ts).length,
        checkCount := r.checkCount + ((running cfg ts).map (testChecks cfg)).sum,
        failureCount := r.failureCount + ((running cfg ts).flatMap (testFailures cfg plugins)).length,
        filteredOutCount := r.filteredOutCount + (ts.length - (selected cfg ts).length),
        ignoredCount := r.ignoredCount + ((selected cfg ts).length - (running cfg ts).length) }
  | [], r => by simp [running, selected]
  | t :: rest, r => by
    rw [List.foldl_cons, foldl_addTest cfg plugins rest]
    have h1 := selected_length_le cfg rest
    have h2 := running_length_le cfg rest
    rw [running_cons cfg t rest, selected_cons cfg t rest]
    have e1 : running cfg [t] = if shouldRun cfg t && willRun cfg t then [t] else [] := by
      simp only [running, selected]
      cases hs : shouldRun cfg t <;> cases hw : willRun cfg t <;> simp [hs, hw]
    have e2 : selected cfg [t] = if shouldRun cfg t then [t] else [] := by
      simp only [selected]
      cases hs : shouldRun cfg t <;> simp [hs]
    rw [e1, e2]
    generalize running cfg rest = R at h2 ⊢
    generalize selected cfg rest = S at h1 h2 ⊢
    cases hs : shouldRun cfg t <;> cases hw : willRun cfg t <;>
      simp [addTest, hs, hw, Result.bump, Result.countTest, Result.countRun,
        Result.countIgnored, Result.countFilteredOut] <;> omega

/-- the loop over the registry started with fresh counters ends with the true counts -/
theorem foldl_addTest_fresh (cfg : Cfg) (plugins : List Plugin) (ts : List Test) :
    ts.foldl (addTest cfg plugins) {} = expectedCounts cfg plugins ts := by
  rw [foldl_addTest]; simp [expectedCounts, expectedFailures]

/-! ## repetitions -/

def flattenRep {α} (k : Nat) (l : List α) : List α := (List.replicate k l).flatten

@[simp] theorem flattenRep_zero {α} (l : List α) : flattenRep 0 l = [] := by simp [flattenRep]
@[simp] theorem flattenRep_one {α} (l : List α) : flattenRep 1 l = l := by simp [flattenRep]
theorem flattenRep_succ {α} (k : Nat) (l : List α) : flattenRep (k + 1) l = l ++ flattenRep k l := by
  simp [flattenRep, List.replicate_succ]

structure RepOutcome (cfg : Cfg) (plugins : List Plugin) (ts : List Test) (k : Nat) (s : RSt) (a : RAcc) : Prop where
  depth : a.st.depth = s.depth
  current : a.st.current = s.current
  reps : a.reps = List.replicate k (expectedCounts cfg plugins ts)
  failedTests : a.st.failedTestCount = s.failedTestCount + k * (expectedCounts cfg plugins ts).failureCount
  failedExecs : a.st.failedExecutionCount =
    s.failedExecutionCount + (if (expectedCounts cfg plugins ts).isFailure then k else 0)
  failures : failuresOf a.evs = flattenRep k (expectedFailures cfg plugins ts)
  marks : marksIn a.evs = flattenRep k ((running cfg ts).flatMap (testMarks cfg))
  enters : entersOf a.evs = flattenRep k ((running cfg ts).flatMap (phasesRun cfg))
  summaries : summariesOf a.evs = List.replicate k (expectedCounts cfg plugins ts)
  ended : endedOf a.evs = flattenRep k ((selected cfg ts).map (fun t => (s.depth, s.current, failedFlag cfg t)))

theorem repetition_closed (cfg : Cfg) (plugins : List Plugin) (ts : List Test) (number total : Nat) (s : RSt)
    (hr : cfg.rethrow = false) (h0 : inBuf s.depth = true) (h1 : inBuf (s.depth + 1) = true) :
    ∃ a, repetition cfg plugins ts number total s = .ok a ∧ RepOutcome cfg plugins ts 1 s a := by
  unfold repetition registryRunAll
  obtain ⟨b, hb, ob⟩ := runTests_closed cfg plugins hr ts ⟨{}, s.depth, s.current, s.out⟩ h0 h1
  rw [hb]
  refine ⟨_, rfl, ?_⟩
  obtain ⟨t1, t2, t3, t4, t5⟩ := testRunToks_only number total
  have hres : b.st.res = expectedCounts cfg plugins ts := by rw [ob.res]; exact foldl_addTest_fresh cfg plugins ts
  constructor
  · simp [ob.depth]
  · simp [ob.current]
  · simp [hres]
  · simp [hres]
  · simp only [hres]; split <;> simp
  · simp [t1, ob.failures, expectedFailures, Ev.failure?]
  · simp [t2, ob.marks, Ev.mark?]
  · simp [t3, ob.enters, Ev.enter?]
  · simp [t4, ob.summaries, Ev.summary?, hres]
  · simp [t5, ob.ended, Ev.ended?]

theorem repeatLoop_closed (cfg : Cfg) (plugins : List Plugin) (ts : List Test) (total : Nat)
    (hr : cfg.rethrow = false) :
    ∀ (k number : Nat) (s : RSt), inBuf s.depth = true → inBuf (s.depth + 1) = true →
      ∃ a, repeatLoop cfg plugins ts total k number s = .ok a ∧ RepOutcome cfg plugins ts k s a
  | 0, number, s, _, _ => by
    refine ⟨_, rfl, ?_⟩
    constructor <;> simp
  | k + 1, number, s, h0, h1 => by
    obtain ⟨a, ha, oa⟩ := repetition_closed cfg plugins ts number total s hr h0 h1
    obtain ⟨b, hb, ob⟩ := repeatLoop_closed cfg plugins ts total hr k (number + 1) a.st
      (by rw [oa.depth]; exact h0) (by rw [oa.depth]; exact h1)
    unfold repeatLoop
    rw [ha]; simp only []; rw [hb]
    refine ⟨_, rfl, ?_⟩
    constructor
    · simp [ob.depth, oa.depth]
    · simp [ob.current, oa.current]
    · simp [ob.reps, oa.reps, List.replicate_succ]
    · simp only [ob.failedTests, oa.failedTests, Nat.add_mul]; omega
    · simp only [ob.failedExecs, oa.failedExecs]; split <;> omega
    · simp [ob.failures, oa.failures, flattenRep_succ]
    · simp [ob.marks, oa.marks, flattenRep_succ]
    · simp [ob.enters, oa.enters, flattenRep_succ]
    · simp [ob.summaries, oa.summaries, List.replicate_succ]
    · simp [ob.ended, oa.ended, flattenRep_succ, oa.depth, oa.current]

structure RunOutcome (cfg : Cfg) (plugins : List Plugin) (ts : List Test) (n : Nat) (d : Int) (o : RunOut) : Prop where
  depth : o.depth = d
  current : o.current = none
  reps : o.reps = List.replicate n (expectedCounts cfg plugins ts)
  ret : o.ret = Gen.Runner.returnValue (n * (expectedCounts cfg plugins ts).failureCount)
                  (if (expectedCounts cfg plugins ts).isFailure then n else 0)
  lastEv : o.evs.getLast? = some (.ret o.ret)
  failures : failuresOf o.evs = flattenRep n (expectedFailures cfg plugins ts)
  marks : marksIn o.evs = flattenRep n ((running cfg ts).flatMap (testMarks cfg))
  enters : entersOf o.evs = flattenRep n ((running cfg ts).flatMap (phasesRun cfg))
  summaries : summariesOf o.evs = List.replicate n (expectedCounts cfg plugins ts)
  ended : endedOf o.evs = flattenRep n ((selected cfg ts).map (fun t => (d, none, failedFlag cfg t)))

theorem runAllTests_closed (cfg : Cfg) (plugins : List Plugin) (ts : List Test) (n : Nat) (d : Int)
    (hr : cfg.rethrow = false) (h0 : inBuf d = true) (h1 : inBuf (d + 1) = true) :
    ∃ o, runAllTests cfg plugins ts n d = .ok o ∧ RunOutcome cfg plugins ts n d o := by
  unfold runAllTests
  obtain ⟨a, ha, oa⟩ := repeatLoop_closed cfg plugins ts n hr n 1 ⟨d, none, {}, 0, 0⟩ h0 h1
  rw [ha]
  refine ⟨_, rfl, ?_⟩
  constructor
  · simp [oa.depth]
  · simp [oa.current]
  · simp [oa.reps]
  · simp [runnerReturn, oa.failedTests, oa.failedExecs]
  · simp
  · simp [oa.failures, Ev.failure?]
  · simp [oa.marks, Ev.mark?]
  · simp [oa.enters, Ev.enter?]
  · simp [oa.summaries, Ev.summary?]
  · simp [oa.ended, Ev.ended?]

/-! ## reading the console text back -/

theorem repr_ne_of_nondigit (n : Nat) (s : String) (c : Char) (hc : c ∈ s.toList) (hd : c.isDigit = false) :
    n.repr ≠ s := by
  intro h
  have hm : c ∈ Nat.toDigits 10 n := by rw [← Nat.toList_repr, h]; exact hc
  have := Nat.isDigit_of_mem_toDigits (by decide) (by decide) hm
  rw [hd] at this; exact absurd this (by decide)

theorem repr_ne_ranNothing (n : Nat) : n.repr ≠ "ran nothing, " :=
  repr_ne_of_nondigit n _ 'r' (by decide) (by decide)

/-- a printed record is read back as the record (the reader cannot tell a message that is a
    lone ":" from the start of a location, hence the side condition) -/
theorem parseFailureAt_failureToks (r : FailRec) (rest : List String) (hmsg : r.msg ≠ ":") :
    parseFailureAt (failureToks r ++ rest) = some r.printed := by
  unfold failureToks FailRec.printed
  cases h : r.twoLocations with
  | true => simp [parseFailureAt, parseLoc, parseTail, locToks]
  | false =>
    rcases rest with _ | ⟨a, _ | ⟨b, rest⟩⟩ <;> simp [parseFailureAt, parseLoc, parseTail, locToks, hmsg]

theorem parseSummaryAt_summaryToks (r : Result) (rest : List String) :
    parseSummaryAt ((summaryToks r ++ rest).tail) =
      some ⟨!r.isFailure, if r.isFailure && decide (r.failureCount > 0) then some (toString r.failureCount) else none,
            toString r.testCount, toString r.runCount, toString r.checkCount, toString r.ignoredCount,
            toString r.filteredOutCount⟩ := by
  unfold summaryToks summaryHead
  cases h : r.isFailure with
  | false => simp [parseSummaryAt, parseCounts]
  | true =>
    by_cases hf : r.failureCount > 0
    · simp [parseSummaryAt, parseCounts, parseErrorsHead, repr_ne_ranNothing, hf]
    · simp [parseSummaryAt, parseCounts, parseErrorsHead, hf]

end Runner
