import CppUModel.Spec.MockC
/-! Helper lemmas for C19: the generic simulation step (C forwarder description vs documented C++ statement). -/
namespace MockC
open Req
set_option maxRecDepth 100000

theorem tags_eq : Gen.CMock.valueTags = Req.valueTags := by decide

theorem toCValue_eq (nv : NamedVal) : toCValue nv = Req.toCValue nv := by
  unfold toCValue Req.toCValue; rw [tags_eq]

theorem neZero_int_ite (b : Bool) : neZero (.int (if b then 1 else 0)) = .bool b := by
  cases b <;> simp [neZero]

/-- results agree as the property compares them, and the pointers / the C++ world are the same -/
def SimR {K : CppMock} (p : Core K × CRes) (q : Core K × XRes) : Prop :=
  p.1 = q.1 ∧ canonC p.2 = canonX q.2

theorem canon_post {EC AC} (post : Post) (r : Res EC AC) (h : postOk post = true) :
    canonC (applyPost post r) = canonX (xresOf (kindOfPost post) r) := by
  cases post with
  | id => simp [applyPost, kindOfPost, xresOf, canonC, canonX]
  | boolToInt => simp [applyPost, kindOfPost, xresOf, canonC, canonX, neZero_int_ite]
  | fnCastBack => simp [applyPost, kindOfPost, xresOf, canonC, canonX]
  | toCValue => simp [applyPost, kindOfPost, xresOf, canonC, canonX, toCValue_eq]
  | other t => simp [postOk] at h

theorem storeRes_eq_storeX (K : CppMock) (st : Core K) (store : Ptr) (r : Res K.EC K.AC) :
    storeRes K st store r = storeX K st (kindOfStore store) r := by
  cases store <;> cases r <;> simp [storeRes, storeX, kindOfStore]


theorem sim_chain (K : CppMock) (tbl : Ptr) (fw : Fwd) (args : List Val) (st : Core K)
    (store recv : Ptr) (meth : String) (as : List ArgExpr) (t : Ptr) (hb : fw.body = .chain store recv meth as t) :
    SimR (execFwdWith Req.forwarders K st fw args) (execX K st (Req.meaning tbl fw args)) := by
  simp only [execFwdWith, execSimple, Req.meaning, hb, execX]
  cases callVia K st recv (signature meth as) (List.map (evalArg fw.params args) as) with
  | none => simp [SimR, canonC, canonX]
  | some p => simp [SimR, canonC, canonX, storeRes_eq_storeX]; cases store <;> simp [kindOfStore, xresOf]


theorem sim_void (K : CppMock) (tbl : Ptr) (fw : Fwd) (args : List Val) (st : Core K)
    (recv : Ptr) (meth : String) (as : List ArgExpr) (hb : fw.body = .void_ recv meth as) :
    SimR (execFwdWith Req.forwarders K st fw args) (execX K st (Req.meaning tbl fw args)) := by
  simp only [execFwdWith, execSimple, Req.meaning, hb, execX]
  cases callVia K st recv (signature meth as) (List.map (evalArg fw.params args) as) with
  | none => simp [SimR, canonC, canonX]
  | some p => simp [SimR, canonC, canonX, storeX, xresOf]

theorem sim_install (K : CppMock) (tbl : Ptr) (fw : Fwd) (args : List Val) (st : Core K)
    (l c : String) (ca : List ArgExpr) (meth : String) (as : List ArgExpr) (hb : fw.body = .install l c ca meth as) :
    SimR (execFwdWith Req.forwarders K st fw args) (execX K st (Req.meaning tbl fw args)) := by
  simp only [execFwdWith, execSimple, Req.meaning, hb, execX]
  cases callVia K st .sup (signature meth as) (List.map (evalArg fw.params args) as) with
  | none => simp [SimR, canonC, canonX]
  | some p => simp [SimR, canonC, canonX, storeX, xresOf]

theorem sim_removeAll (K : CppMock) (tbl : Ptr) (fw : Fwd) (args : List Val) (st : Core K)
    (hb : fw.body = .removeAll) :
    SimR (execFwdWith Req.forwarders K st fw args) (execX K st (Req.meaning tbl fw args)) := by
  simp only [execFwdWith, execSimple, Req.meaning, hb, execX]
  cases callVia K st .sup "removeAllComparatorsAndCopiers()" [] with
  | none => simp [SimR, canonC, canonX]
  | some p => simp [SimR, canonC, canonX, storeX, xresOf]

theorem sim_mock (K : CppMock) (tbl : Ptr) (fw : Fwd) (args : List Val) (st : Core K)
    (o : Option String) (hb : fw.body = .mock o) :
    SimR (execFwdWith Req.forwarders K st fw args) (execX K st (Req.meaning tbl fw args)) := by
  cases o with
  | none => simp [execFwdWith, execSimple, Req.meaning, hb, execX, SimR, canonC, canonX]
  | some p =>
    simp only [execFwdWith, execSimple, Req.meaning, hb]
    cases argOf fw.params args p <;> simp [execX, SimR, canonC, canonX]

theorem sim_other (K : CppMock) (tbl : Ptr) (fw : Fwd) (args : List Val) (st : Core K)
    (t : String) (hb : fw.body = .other t) :
    SimR (execFwdWith Req.forwarders K st fw args) (execX K st (Req.meaning tbl fw args)) := by
  simp [execFwdWith, execSimple, Req.meaning, hb, execX, SimR, canonC, canonX]

/-- the pair of C++ getters behind a getter of the actual call that the support table also offers -/
theorem bridge_of_any (meth : String) (h : Req.bridgePairs.any (fun p => p.2 == meth) = true) :
    ∃ n, supNameOf meth = some n ∧ (n, meth) ∈ Req.bridgePairs := by
  unfold supNameOf
  cases hf : Req.bridgePairs.find? (fun p => p.2 = meth) with
  | none =>
    rw [List.find?_eq_none] at hf
    rw [List.any_eq_true] at h
    obtain ⟨p, hp, hq⟩ := h
    have := hf p hp
    simp at this hq
    exact absurd hq this
  | some p =>
    have h1 := List.find?_some hf
    have h2 := List.mem_of_find?_eq_some hf
    simp at h1
    refine ⟨p.1, by simp, ?_⟩
    rw [← h1]; exact h2

theorem has_pair : ("hasReturnValue", "hasReturnValue") ∈ Req.bridgePairs := by decide

theorem sim_ret (K : CppMock) (law : Lawful K) (tbl : Ptr) (fw : Fwd) (args : List Val) (st : Core K)
    (recv : Ptr) (meth : String) (as : List ArgExpr) (post : Post) (hb : fw.body = .ret recv meth as post)
    (hwf : wf tbl fw = true) (hal : needsAlign tbl fw = true → AlignedAt K st) :
    SimR (execFwdWith Req.forwarders K st fw args) (execX K st (Req.meaning tbl fw args)) := by
  simp only [wf, hb, Bool.and_eq_true] at hwf
  obtain ⟨hpost, hbr⟩ := hwf
  simp only [needsAlign, hb, Bool.or_eq_true] at hal
  simp only [execFwdWith, execSimple, Req.meaning, hb]
  by_cases h1 : isStaticCallGetter tbl recv as = true
  · -- getter of the call, asked through the support table
    simp only [h1, if_true] at hbr ⊢
    obtain ⟨n, hn, hmem⟩ := bridge_of_any meth hbr
    obtain ⟨s, a, hcur, ha, hlast⟩ := hal (Or.inl h1)
    simp only [isStaticCallGetter, Bool.and_eq_true, beq_iff_eq, List.isEmpty_iff] at h1
    obtain ⟨⟨ht, hr⟩, hempty⟩ := h1
    subst hr hempty
    have hbridge := law.bridge st.m s a (n, meth) hmem hlast
    simp only [] at hbridge
    have hc1 : callVia K st .act (signature meth []) [] = some (K.ac st.m a (signature meth []) []) := by
      simp [callVia, ha]
    have hc2 : callVia K st .sup (signature n []) [] = some (K.sup st.m s (signature n []) []) := by
      simp [callVia, hcur]
    simp only [hn, execX, List.map_nil, hc1, hc2, hbridge]
    refine ⟨?_, canon_post post _ hpost⟩
    cases post <;> simp [kindOfPost, storeX]
  · simp only [h1, Bool.false_eq_true, if_false]
    by_cases h2 : isScopeHas tbl recv meth as = true
    · -- `has` of the scope, asked through the actual-call table
      simp only [h2, if_true]
      obtain ⟨s, a, hcur, ha, hlast⟩ := hal (Or.inr h2)
      simp only [isScopeHas, Bool.and_eq_true, beq_iff_eq, List.isEmpty_iff] at h2
      obtain ⟨⟨⟨ht, hr⟩, hm⟩, hempty⟩ := h2
      subst hr hm hempty
      have hbridge := law.bridge st.m s a ("hasReturnValue", "hasReturnValue") has_pair hlast
      have hc1 : callVia K st .act (signature "hasReturnValue" []) [] = some (K.ac st.m a (signature "hasReturnValue" []) []) := by
        simp [callVia, ha]
      have hc2 : callVia K st .sup (signature "hasReturnValue" []) [] = some (K.sup st.m s (signature "hasReturnValue" []) []) := by
        simp [callVia, hcur]
      simp only [execX, List.map_nil, hc1, hc2, hbridge]
      refine ⟨?_, canon_post post _ hpost⟩
      cases post <;> simp [kindOfPost, storeX]
    · simp only [h2, Bool.false_eq_true, if_false, execX]
      cases callVia K st recv (signature meth as) (List.map (evalArg fw.params args) as) with
      | none => simp [SimR, canonC, canonX]
      | some p =>
        refine ⟨?_, canon_post post _ hpost⟩
        cases post <;> simp [kindOfPost, storeX]


theorem isTrue_val_asVal {EC AC} (r : Res EC AC) : isTrue (.val (asVal r)) = asBool r := by
  cases r with
  | val v => cases v <;> simp [isTrue, asVal, asBool]
  | _ => simp [isTrue, asVal, asBool]

theorem getterOf_some (b : Body) (meth : String) (post : Post) (h : getterOf b = some (meth, post)) :
    b = .ret .act meth [] post := by
  cases b with
  | ret recv m as p =>
    cases recv <;> cases as <;> simp [getterOf] at h
    obtain ⟨h1, h2⟩ := h; subst h1 h2; rfl
  | _ => simp [getterOf] at h

theorem canon_default (g : Fwd) (meth : String) (post : Post) (d : Val) (hg : g.body = .ret .act meth [] post) :
    canonC (defaultRes g d) = canonX (.val (defaultX post d)) := by
  cases post <;> simp [defaultRes, hg, defaultX, canonC, canonX]

theorem sim_orDefault (K : CppMock) (law : Lawful K) (tbl : Ptr) (fw : Fwd) (args : List Val) (st : Core K)
    (hasFn getFn : String) (hb : fw.body = .orDefault hasFn getFn)
    (hwf : wf tbl fw = true) (hal : AlignedAt K st) :
    SimR (execFwdWith Req.forwarders K st fw args) (execX K st (Req.meaning tbl fw args)) := by
  obtain ⟨s, a, hcur, ha, hlast⟩ := hal
  simp only [wf, hb] at hwf
  simp only [execFwdWith, Req.meaning, hb]
  have e1 : ∀ n, findFwdIn Req.forwarders n = Req.findFwd n := fun _ => rfl
  simp only [e1]
  cases hf1 : Req.findFwd hasFn with
  | none => simp [hf1] at hwf
  | some h =>
    cases hf2 : Req.findFwd getFn with
    | none => simp [hf1, hf2] at hwf
    | some g =>
      simp only [hf1, hf2, Bool.and_eq_true] at hwf
      obtain ⟨hh, hrest⟩ := hwf
      have hhb : h.body = .ret .sup "hasReturnValue" [] .id := by
        simpa [isHasBody] using hh
      cases hg : getterOf g.body with
      | none => simp [hg] at hrest
      | some mp =>
        obtain ⟨meth, post⟩ := mp
        simp only [hg, Bool.and_eq_true] at hrest
        obtain ⟨hpost, htbl⟩ := hrest
        have hgb := getterOf_some g.body meth post hg
        -- the `has` call of the C forwarder
        have hcS : callVia K st .sup (signature "hasReturnValue" []) [] =
            some (K.sup st.m s (signature "hasReturnValue" []) []) := by simp [callVia, hcur]
        have hcA : callVia K st .act (signature "hasReturnValue" []) [] =
            some (K.ac st.m a (signature "hasReturnValue" []) []) := by simp [callVia, ha]
        have hbr := law.bridge st.m s a ("hasReturnValue", "hasReturnValue") has_pair hlast
        simp only [] at hbr
        have hH : execSimple K st h [] =
            ({ st with m := (K.sup st.m s (signature "hasReturnValue" []) []).1 },
             .val (asVal (K.sup st.m s (signature "hasReturnValue" []) []).2)) := by
          simp [execSimple, hhb, hcS, applyPost]
        -- the getter call of the C forwarder, in the state after `has`
        have hG : ∀ m1, execSimple K { st with m := m1 } g [] =
            ({ st with m := (K.ac m1 a (signature meth []) []).1 }, applyPost post (K.ac m1 a (signature meth []) []).2) := by
          intro m1; simp [execSimple, hgb, callVia, ha]
        simp only [hh, if_true, hg, execOrDefault, hH, isUndefined, Bool.false_eq_true, if_false, isTrue_val_asVal, hG]
        by_cases ht : tbl = .sup
        · -- through the support table: `has` is the scope's, the getter is bridged in the state after `has`
          simp only [ht, if_true] at htbl ⊢
          obtain ⟨n, hn, hmem⟩ := bridge_of_any meth htbl
          simp only [hn, execX, execXOrDefault, hcS]
          by_cases hs : K.stopped (K.sup st.m s (signature "hasReturnValue" []) []).1 = true
          · simp [hs, SimR, canonC, canonX]
          · simp only [hs, Bool.false_eq_true, if_false]
            by_cases hv : asBool (K.sup st.m s (signature "hasReturnValue" []) []).2 = true
            · simp only [hv, if_true]
              have hl := law.has_keeps_last st.m s (by simpa using hs)
              have hb2 := law.bridge (K.sup st.m s (signature "hasReturnValue" []) []).1 s a (n, meth) hmem (by rw [hl]; exact hlast)
              simp only [] at hb2
              have hc2 : callVia K { st with m := (K.sup st.m s (signature "hasReturnValue" []) []).1 } .sup (signature n []) [] =
                  some (K.sup (K.sup st.m s (signature "hasReturnValue" []) []).1 s (signature n []) []) := by
                simp [callVia, hcur]
              simp only [hc2, hb2]
              exact ⟨rfl, canon_post post _ hpost⟩
            · simp only [hv, Bool.false_eq_true, if_false]
              exact ⟨rfl, canon_default g meth post _ hgb⟩
        · -- through the actual-call table: `has` is bridged, the getter is the call's own
          simp only [ht, if_false] at htbl ⊢
          simp only [execX, execXOrDefault, hcA, ← hbr]
          by_cases hs : K.stopped (K.sup st.m s (signature "hasReturnValue" []) []).1 = true
          · simp [hs, SimR, canonC, canonX]
          · simp only [hs, Bool.false_eq_true, if_false]
            by_cases hv : asBool (K.sup st.m s (signature "hasReturnValue" []) []).2 = true
            · simp only [hv, if_true]
              have hc2 : callVia K { st with m := (K.sup st.m s (signature "hasReturnValue" []) []).1 } .act (signature meth []) [] =
                  some (K.ac (K.sup st.m s (signature "hasReturnValue" []) []).1 a (signature meth []) []) := by
                simp [callVia, ha]
              simp only [hc2]
              exact ⟨rfl, canon_post post _ hpost⟩
            · simp only [hv, Bool.false_eq_true, if_false]
              exact ⟨rfl, canon_default g meth post _ hgb⟩

/-- The generic step: a forwarder description interpreted by the C layer and the documented C++ statement for it
    leave the same pointers and the same C++ world and return the same value (as the property compares values). -/
theorem exec_sim (K : CppMock) (law : Lawful K) (tbl : Ptr) (fw : Fwd) (args : List Val) (st : Core K)
    (hwf : wf tbl fw = true) (hal : needsAlign tbl fw = true → AlignedAt K st) :
    SimR (execFwdWith Req.forwarders K st fw args) (execX K st (Req.meaning tbl fw args)) := by
  cases hb : fw.body with
  | chain store recv meth as t => exact sim_chain K tbl fw args st store recv meth as t hb
  | void_ recv meth as => exact sim_void K tbl fw args st recv meth as hb
  | ret recv meth as post => exact sim_ret K law tbl fw args st recv meth as post hb hwf hal
  | orDefault h g => exact sim_orDefault K law tbl fw args st h g hb hwf (hal (by simp [needsAlign, hb]))
  | install l c ca meth as => exact sim_install K tbl fw args st l c ca meth as hb
  | removeAll => exact sim_removeAll K tbl fw args st hb
  | mock o => exact sim_mock K tbl fw args st o hb
  | other t => exact sim_other K tbl fw args st t hb

end MockC
