import CppUModel.Proofs.Plugins
import CppUModel.Model.PluginsTable
/-! Helper lemmas for the array-level model of the pointer table (C17). -/
namespace Plugins
open Plugins.Code Gen.Plugins Gen.PluginCode

/-- the state invariant of `TestPlugin.cpp`: the index is inside `0 .. MAX_SET` and no access has left the array -/
def WF (t : Tab) : Prop := 0 ≤ t.idx ∧ t.idx ≤ (maxSet : Int) ∧ t.oob = false

theorem entries_congr (t t' : Tab) : ∀ (n : Nat),
    (∀ k, k < n → t'.orig k = t.orig k ∧ t'.origValue k = t.origValue k) → entries t' n = entries t n
  | 0, _ => rfl
  | n + 1, h => by
    simp only [entries]
    rw [(h n (by omega)).1, (h n (by omega)).2, entries_congr t t' n (fun k hk => h k (by omega))]

theorem entries_length (t : Tab) : ∀ n, (entries t n).length = n
  | 0 => rfl
  | n + 1 => by simp [entries, entries_length t n]

theorem absT_table_length (t : Tab) (h : 0 ≤ t.idx) : ((absT t).table.length : Int) = t.idx := by
  simp only [absT, entries_length]
  omega

/-- the loop of `postTestAction` with the body the source has: `n` iterations from `n - 1` down undo the
    first `n` entries, the most recent first -/
theorem execDown_restore (env : Env) : ∀ (n : Nat) (t : Tab), n ≤ env.len →
    execDown env [.storeThrough (.origAt .loopVar) (.origValueAt .loopVar)] n ((n : Int) - 1) t =
      .ok { t with mem := restore (entries t n) t.mem }
  | 0, t, _ => by simp [execDown, entries, restore]
  | n + 1, t, h => by
    have hb : inB env.len (n : Int) = true := by simp [inB]; omega
    have e1 : ((n + 1 : Nat) : Int) - 1 = (n : Int) := by omega
    rw [e1]
    simp only [execDown, execSs, execS, evalP, evalV, evalI, hb, if_true, Int.toNat_natCast]
    rw [execDown_restore env n _ (by omega)]
    simp only [entries, restore]
    rw [entries_congr t { t with mem := update t.mem (t.orig n) (t.origValue n) } n (fun _ _ => ⟨rfl, rfl⟩)]

end Plugins
