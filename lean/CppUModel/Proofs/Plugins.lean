import CppUModel.Spec.Plugins
/-! Helper lemmas for C17. -/
namespace Plugins
open Gen.Plugins

theorem update_undo (m : Loc → Val) (l : Loc) (v : Val) : update (update m l v) l (m l) = m := by
  funext x; unfold update; by_cases h : x = l <;> simp [h]

theorem ptrSet_none_iff (s : Store) (l : Loc) (v : Val) :
    ptrSet s l v = none ↔ maxSet ≤ s.table.length := by
  unfold ptrSet store
  by_cases h : s.table.length ≥ maxSet
  · simp [h]
  · simp [h]

theorem ptrSet_some (s s' : Store) (l : Loc) (v : Val) (h : ptrSet s l v = some s') :
    s'.mem = update s.mem l v ∧ s'.table = (l, s.mem l) :: s.table ∧ s.table.length < maxSet := by
  unfold ptrSet store at h
  by_cases hc : s.table.length ≥ maxSet
  · simp [hc] at h
  · simp [hc] at h
    subst h
    exact ⟨rfl, rfl, by omega⟩

theorem restore_after_set (s s' : Store) (l : Loc) (v : Val) (h : ptrSet s l v = some s') :
    restore s'.table s'.mem = restore s.table s.mem := by
  obtain ⟨h1, h2, _⟩ := ptrSet_some s s' l v h
  rw [h1, h2]
  simp only [restore, update_undo]

/-- the invariant of a test body: undoing the table gives the memory the table was started from -/
theorem runBody_restore_inv : ∀ (body : List Stmt) (s : Store) (n : Nat),
    restore (runBody s n body).store.table (runBody s n body).store.mem = restore s.table s.mem
  | [], _, _ => rfl
  | .stop :: _, _, _ => rfl
  | .set l v :: rest, s, n => by
    unfold runBody
    cases h : ptrSet s l v with
    | none => rfl
    | some s' =>
      simp only
      rw [runBody_restore_inv rest s' (n + 1), restore_after_set s s' l v h]

theorem postAction_idem (s : Store) : postAction (postAction s) = postAction s := by
  simp [postAction, restore]

theorem postStore_eq : ∀ (c : Chain) (s : Store),
    postStore c s = if hasActiveSetB c then postAction s else s
  | [], s => by simp [postStore, hasActiveSetB]
  | p :: rest, s => by
    have ih := postStore_eq rest s
    unfold postStore
    by_cases hp : p.enabled = true ∧ p.kind = Kind.setPointer
    · have : hasActiveSetB (p :: rest) = true := by
        simp [hasActiveSetB, hp.1, hp.2]
      rw [if_pos hp, this, ih]
      by_cases hr : hasActiveSetB rest = true
      · simp [hr, postAction_idem]
      · simp [hr]
    · rw [if_neg hp, ih]
      have : hasActiveSetB (p :: rest) = hasActiveSetB rest := by
        have : (p.enabled && p.kind == Kind.setPointer) = false := by
          cases he : p.enabled <;> cases hk : p.kind <;> simp_all
        simp [hasActiveSetB, this]
      rw [this]

theorem hasActiveSetB_iff (c : Chain) : hasActiveSetB c = true ↔ HasActiveSet c := by
  simp only [hasActiveSetB, HasActiveSet, List.any_eq_true, Bool.and_eq_true, beq_iff_eq]

/-! ### fill level of the table along a body -/

theorem runBody_table_length : ∀ (body : List Stmt) (s : Store) (n : Nat),
    (runBody s n body).store.table.length + n = s.table.length + (runBody s n body).done ∧
    (s.table.length ≤ maxSet → (runBody s n body).store.table.length ≤ maxSet)
  | [], _, _ => ⟨by simp [runBody], fun h => h⟩
  | .stop :: _, _, _ => ⟨by simp [runBody], fun h => h⟩
  | .set l v :: rest, s, n => by
    unfold runBody
    cases h : ptrSet s l v with
    | none => exact ⟨by simp, fun h => h⟩
    | some t =>
      obtain ⟨_, h2, h3⟩ := ptrSet_some s t l v h
      have ih := runBody_table_length rest t (n + 1)
      have hl : t.table.length = s.table.length + 1 := by rw [h2]; simp
      simp only
      exact ⟨by have := ih.1; omega, fun _ => ih.2 (by omega)⟩

/-! ### flags of a body depend on the fill level only -/

theorem runBody_flags : ∀ (body : List Stmt) (s s' : Store) (n : Nat),
    s.table.length = s'.table.length →
    (runBody s n body).failed = (runBody s' n body).failed ∧
    (runBody s n body).overflow = (runBody s' n body).overflow ∧
    (runBody s n body).done = (runBody s' n body).done
  | [], _, _, _, _ => ⟨rfl, rfl, rfl⟩
  | .stop :: _, _, _, _, _ => ⟨rfl, rfl, rfl⟩
  | .set l v :: rest, s, s', n, hl => by
    unfold runBody
    cases h : ptrSet s l v with
    | none =>
      have : ptrSet s' l v = none := by
        rw [ptrSet_none_iff] at h ⊢; omega
      simp [this]
    | some t =>
      cases h' : ptrSet s' l v with
      | none =>
        rw [ptrSet_none_iff] at h'
        have := (ptrSet_some s t l v h).2.2
        omega
      | some t' =>
        simp only
        apply runBody_flags rest t t' (n + 1)
        rw [(ptrSet_some s t l v h).2.1, (ptrSet_some s' t' l v h').2.1]
        simp [hl]

/-! ### bodies made of redirections only -/

theorem runBody_sets_fit : ∀ (ss : List (Loc × Val)) (s : Store) (n : Nat),
    s.table.length + ss.length ≤ maxSet →
    (runBody s n (setsOf ss)).failed = false ∧ (runBody s n (setsOf ss)).overflow = false ∧
    (runBody s n (setsOf ss)).done = n + ss.length ∧
    (runBody s n (setsOf ss)).store.mem = applySets s.mem ss ∧
    (runBody s n (setsOf ss)).store.table.length = s.table.length + ss.length
  | [], s, n, _ => by simp [setsOf, runBody, applySets]
  | (l, v) :: rest, s, n, hfit => by
    simp only [setsOf, List.map_cons, List.length_cons] at hfit ⊢
    unfold runBody
    cases h : ptrSet s l v with
    | none => rw [ptrSet_none_iff] at h; omega
    | some t =>
      obtain ⟨h1, h2, _⟩ := ptrSet_some s t l v h
      have ih := runBody_sets_fit rest t (n + 1) (by rw [h2]; simp; omega)
      simp only [setsOf] at ih
      simp only
      refine ⟨ih.1, ih.2.1, by rw [ih.2.2.1]; omega, ?_, ?_⟩
      · rw [ih.2.2.2.1, h1]; rfl
      · rw [ih.2.2.2.2, h2]; simp; omega

theorem runBody_sets_overflow : ∀ (ss : List (Loc × Val)) (s : Store) (n : Nat),
    s.table.length ≤ maxSet → maxSet < s.table.length + ss.length →
    (runBody s n (setsOf ss)).failed = true ∧ (runBody s n (setsOf ss)).overflow = true ∧
    (runBody s n (setsOf ss)).done = n + (maxSet - s.table.length) ∧
    (runBody s n (setsOf ss)).store.mem = applySets s.mem (ss.take (maxSet - s.table.length)) ∧
    (runBody s n (setsOf ss)).store.table.length = maxSet
  | [], s, n, _, h => by simp at h; omega
  | (l, v) :: rest, s, n, hle, hov => by
    simp only [setsOf, List.map_cons, List.length_cons] at hov ⊢
    unfold runBody
    cases h : ptrSet s l v with
    | none =>
      rw [ptrSet_none_iff] at h
      have : maxSet - s.table.length = 0 := by omega
      simp [this, applySets]; omega
    | some t =>
      obtain ⟨h1, h2, h3⟩ := ptrSet_some s t l v h
      have hl : t.table.length = s.table.length + 1 := by rw [h2]; simp
      have ih := runBody_sets_overflow rest t (n + 1) (by omega) (by omega)
      simp only [setsOf] at ih
      simp only
      have e : maxSet - s.table.length = (maxSet - t.table.length) + 1 := by omega
      refine ⟨ih.1, ih.2.1, by rw [ih.2.2.1]; omega, ?_, ih.2.2.2.2⟩
      rw [ih.2.2.2.1, e, List.take_succ_cons, h1]; rfl

/-! ### chain -/

theorem installAll_eq_reverse (ps : List Plugin) : installAll ps = ps.reverse := by
  have : ∀ (ps acc : List Plugin), ps.foldl install acc = ps.reverse ++ acc := by
    intro ps
    induction ps with
    | nil => intro acc; rfl
    | cons p ps ih => intro acc; simp [List.foldl_cons, ih, install]
  simpa [installAll] using this ps []

theorem runAllPre_eq (c : Chain) : runAllPre c = (c.filter (·.enabled)).map (·.name) := by
  induction c with
  | nil => rfl
  | cons p rest ih =>
    unfold runAllPre
    cases h : p.enabled <;> simp [h, ih]

theorem runAllPost_eq (c : Chain) : runAllPost c = (runAllPre c).reverse := by
  induction c with
  | nil => rfl
  | cons p rest ih =>
    unfold runAllPost runAllPre
    cases h : p.enabled <;> simp [ih]

theorem removeNext_fst (name : String) : ∀ (c : Chain),
    (removeNext name c).1 = c.eraseP (fun q => q.name = name)
  | [] => rfl
  | q :: rest => by
    unfold removeNext
    by_cases h : q.name = name
    · simp [h]
    · simp [h, removeNext_fst name rest]

theorem eraseP_eq_self_of_not_mem (name : String) (c : Chain)
    (h : name ∉ c.map (·.name)) : c.eraseP (fun q => q.name = name) = c := by
  apply List.eraseP_of_forall_not
  intro a ha
  simp only [decide_eq_true_eq]
  intro e; exact h (List.mem_map.mpr ⟨a, ha, e⟩)

theorem filter_eq_self_of_not_mem (name : String) (c : Chain)
    (h : name ∉ c.map (·.name)) : c.filter (fun q => q.name ≠ name) = c := by
  rw [List.filter_eq_self]
  intro a ha
  simp only [ne_eq, decide_not, Bool.not_eq_eq_eq_not, Bool.not_true, decide_eq_false_iff_not]
  intro e; exact h (List.mem_map.mpr ⟨a, ha, e⟩)

theorem eraseP_eq_filter (name : String) : ∀ (c : Chain), UniqueNames c →
    c.eraseP (fun q => q.name = name) = c.filter (fun q => q.name ≠ name)
  | [], _ => rfl
  | q :: rest, hu => by
    simp only [UniqueNames, List.map_cons, List.nodup_cons] at hu
    by_cases h : q.name = name
    · subst h
      have h1 := filter_eq_self_of_not_mem q.name rest hu.1
      rw [List.eraseP_cons_of_pos (by simp), List.filter_cons_of_neg (by simp), h1]
    · have ih := eraseP_eq_filter name rest hu.2
      rw [List.eraseP_cons_of_neg (by simpa using h), List.filter_cons_of_pos (by simpa using h), ih]

theorem not_mem_names_filter (name : String) (c : Chain) :
    name ∉ (c.filter (fun q => q.name ≠ name)).map (·.name) := by
  simp only [List.mem_map, List.mem_filter, not_exists, not_and]
  intro q hq h; simp at hq; exact hq.2 h

end Plugins
