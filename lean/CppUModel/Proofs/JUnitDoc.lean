import CppUModel.Proofs.JUnitReader
/-!
Helper lemmas for C16, part 6: numbers and times are read back, the token list of a report
(`docToks`), the report's bytes are the generic rendering of that token list.
-/
set_option linter.unusedSimpArgs false
namespace JUnit
open Text (Bytes)
open OutEv

/-! ## numbers -/

theorem digitStep_digit (a n : Nat) : digitStep (some a) (digit n) = some (a * 10 + n % 10) := by
  have h : n % 10 < 10 := Nat.mod_lt _ (by decide)
  have key : ∀ k, k < 10 → (48 ≤ UInt8.ofNat (48 + k) ∧ UInt8.ofNat (48 + k) ≤ 57) ∧ (UInt8.ofNat (48 + k)).toNat - 48 = k := by
    decide
  obtain ⟨h1, h2⟩ := key _ h
  unfold digitStep digit
  simp only []
  rw [if_pos h1, h2]

theorem foldl_decAux : ∀ (fuel n : Nat) (acc : Bytes) (a : Nat), n < fuel →
    ∃ k, (decAux fuel n acc).foldl digitStep (some a) = acc.foldl digitStep (some (a * 10 ^ k + n)) ∧ decAux fuel n acc ≠ []
  | 0, n, _, _, h => by omega
  | fuel + 1, n, acc, a, h => by
    simp only [decAux]
    split
    · rename_i hn
      refine ⟨1, ?_, by simp⟩
      simp [List.foldl_cons, digitStep_digit, Nat.mod_eq_of_lt hn]
    · rename_i hn
      obtain ⟨k, hk, hne⟩ := foldl_decAux fuel (n / 10) (digit n :: acc) a (by omega)
      refine ⟨k + 1, ?_, hne⟩
      rw [hk, List.foldl_cons, digitStep_digit]
      congr 2
      rw [Nat.pow_succ]
      have := Nat.div_add_mod n 10
      rw [Nat.add_mul, Nat.mul_assoc]
      omega

theorem dec_ne_nil (d : Nat) : dec d ≠ [] := (foldl_decAux (d + 1) d [] 0 (by omega)).choose_spec.2

theorem digitsVal?_dec (d : Nat) : digitsVal? (dec d) = some d := by
  obtain ⟨k, hk, hne⟩ := foldl_decAux (d + 1) d [] 0 (by omega)
  unfold digitsVal?
  have : (dec d).isEmpty = false := by
    cases h : dec d with
    | nil => exact absurd h hne
    | cons _ _ => rfl
  rw [this]
  simp only [Bool.false_eq_true, if_false]
  unfold dec
  rw [hk]
  simp

/-- a byte of a decimal number is neither `-` nor `.` -/
def numByte (s : Bytes) : Prop := ∀ c ∈ s, c ≠ 45 ∧ c ≠ 46

theorem digit_numByte (n : Nat) : numByte [digit n] := by
  intro c hc
  simp only [List.mem_singleton] at hc
  subst hc
  have h : n % 10 < 10 := Nat.mod_lt _ (by decide)
  have : ∀ k, k < 10 → (UInt8.ofNat (48 + k) ≠ 45 ∧ UInt8.ofNat (48 + k) ≠ 46) := by decide
  exact this _ h

theorem decAux_numByte : ∀ (fuel n : Nat) (acc : Bytes), numByte acc → numByte (decAux fuel n acc)
  | 0, _, acc, h => by simpa [decAux] using h
  | fuel + 1, n, acc, h => by
    have hd : numByte (digit n :: acc) := by
      intro c hc
      rcases List.mem_cons.mp hc with e | e
      · exact digit_numByte n c (by simp [e])
      · exact h c e
    simp only [decAux]
    split
    · exact hd
    · exact decAux_numByte fuel (n / 10) _ hd

theorem dec_numByte (n : Nat) : numByte (dec n) := decAux_numByte _ _ _ (by intro c hc; simp at hc)

theorem intOfBytes?_showInt (z : Int) : intOfBytes? (showInt z) = some z := by
  unfold showInt
  split
  · rename_i hz
    simp only [intOfBytes?, if_true, digitsVal?_dec, Option.map_some]
    have : -(z.natAbs : Int) = z := by omega
    simpa using this
  · rename_i hz
    obtain ⟨c, ds, hcd⟩ : ∃ c ds, dec z.natAbs = c :: ds := by
      cases h : dec z.natAbs with
      | nil => exact absurd h (dec_ne_nil _)
      | cons a b => exact ⟨a, b, rfl⟩
    have hc : c ≠ 45 := (dec_numByte z.natAbs c (by rw [hcd]; exact List.mem_cons_self ..)).1
    have hv := digitsVal?_dec z.natAbs
    rw [hcd] at hv ⊢
    simp only [intOfBytes?, hc, if_false, hv, Option.map_some]
    have : (z.natAbs : Int) = z := by omega
    simpa using this

theorem splitAtDot_append (rest : Bytes) : ∀ (a acc : Bytes), (∀ c ∈ a, c ≠ 46) →
    splitAtDot (a ++ 46 :: rest) acc = some (acc.reverse ++ a, rest)
  | [], acc, _ => by simp [splitAtDot]
  | x :: a, acc, h => by
    have hx : x ≠ 46 := h x (List.mem_cons_self ..)
    have := splitAtDot_append rest a (x :: acc) (fun c hc => h c (List.mem_cons_of_mem _ hc))
    simp [splitAtDot, hx, this]

theorem showInt_no_dot (z : Int) : ∀ c ∈ showInt z, c ≠ 46 := by
  intro c hc
  unfold showInt at hc
  split at hc
  · rcases List.mem_cons.mp hc with e | e
    · subst e; decide
    · exact (dec_numByte _ c e).2
  · exact (dec_numByte _ c hc).2

theorem digitsVal?_millis (m : Nat) (hm : m < 1000) : digitsVal? [digit (m / 100), digit (m / 10), digit m] = some m := by
  simp only [digitsVal?, List.isEmpty_cons, Bool.false_eq_true, if_false, List.foldl_cons, List.foldl_nil, digitStep_digit]
  congr 1; omega

theorem time_roundtrip (secs : Int) (m : Nat) (hm : m < 1000) :
    (match splitAtDot (showTime secs m) [] with
     | some (a, b) =>
       match intOfBytes? a, digitsVal? b with
       | some s, some mm => if b.length = 3 then (Except.ok (s, mm) : Except String (Int × Nat)) else .error "time: three decimals expected"
       | _, _ => .error "time is not a number"
     | none => .error "time has no decimal point") = .ok (secs, m) := by
  have h1 : showTime secs m = showInt secs ++ 46 :: [digit (m / 100), digit (m / 10), digit m] := by simp [showTime]
  rw [h1, splitAtDot_append _ _ [] (showInt_no_dot secs)]
  simp [intOfBytes?_showInt, digitsVal?_millis m hm]

/-! ## the token list of a report -/

def caseAttrs (c : Case) : List (Bytes × Bytes) :=
  [(lit "classname", c.classname), (lit "name", c.name), (lit "assertions", showInt c.assertions),
   (lit "time", showTime c.secs c.millis), (lit "file", c.file), (lit "line", showInt c.line)]

def caseChildren (c : Case) : List RTok :=
  match c.failure with
  | some m => [.tok (.open_ (lit "failure") [(lit "message", m), (lit "type", lit "AssertionFailedError")] false), .nl,
               .tok (.close (lit "failure")), .nl]
  | none => if c.skipped then [.tok (.open_ (lit "skipped") [] true), .nl] else []

def caseR (c : Case) : List RTok :=
  [.tok (.open_ (lit "testcase") (caseAttrs c) false), .nl] ++ caseChildren c ++ [.tok (.close (lit "testcase")), .nl]

def suiteAttrs (su : Suite) : List (Bytes × Bytes) :=
  [(lit "errors", lit "0"), (lit "failures", showInt su.failures), (lit "hostname", lit "localhost"), (lit "name", su.name),
   (lit "tests", showInt su.tests), (lit "time", showTime su.secs su.millis), (lit "timestamp", su.timestamp)]

def suiteHead (su : Suite) : List RTok :=
  [.tok .pi, .nl, .tok (.open_ (lit "testsuite") (suiteAttrs su) false), .nl,
   .tok (.open_ (lit "properties") [] false), .nl, .tok (.close (lit "properties")), .nl]

def suiteTail (su : Suite) : List RTok :=
  [.tok (.open_ (lit "system-out") [] false)] ++ (if su.stdout = [] then [] else [.tok (.text su.stdout)]) ++
  [.tok (.close (lit "system-out")), .nl, .tok (.open_ (lit "system-err") [] false), .tok (.close (lit "system-err")), .nl,
   .tok (.close (lit "testsuite")), .nl]

def docR (su : Suite) : List RTok := suiteHead su ++ (su.cases.flatMap caseR ++ suiteTail su)

theorem encodeRef_showInt (z : Int) : encodeRef (showInt z) = showInt z := encodeRef_plain _ (fmtInt_plain z)

theorem encodeRef_showTime (secs : Int) (m : Nat) : encodeRef (showTime secs m) = showTime secs m := by
  apply encodeRef_plain
  unfold showTime
  exact plain_append (plain_append (fmtInt_plain secs) (by decide))
    (plain_cons (digit_plain _) (plain_cons (digit_plain _) (digit_plain _)))

set_option maxRecDepth 100000 in
theorem case_render_eq (c : Case) : c.render = renderR (caseR c) := by
  have e1 : encodeRef [65, 115, 115, 101, 114, 116, 105, 111, 110, 70, 97, 105, 108, 101, 100, 69, 114, 114, 111, 114] =
      [65, 115, 115, 101, 114, 116, 105, 111, 110, 70, 97, 105, 108, 101, 100, 69, 114, 114, 111, 114] :=
    encodeRef_plain _ (by decide)
  unfold Case.render caseR caseChildren caseAttrs
  cases hf : c.failure with
  | some m =>
    simp [renderR, RTok.render, Tok.render, renderAttrs, renderAttr, tagEnd, encodeRef_showInt, encodeRef_showTime, e1, lit,
      List.append_assoc]
  | none =>
    cases hs : c.skipped <;>
    simp [renderR, RTok.render, Tok.render, renderAttrs, renderAttr, tagEnd, encodeRef_showInt, encodeRef_showTime, lit,
      List.append_assoc]

theorem renderR_append (a b : List RTok) : renderR (a ++ b) = renderR a ++ renderR b := by simp [renderR]

theorem renderR_flatMap (cs : List Case) : renderR (cs.flatMap caseR) = cs.flatMap Case.render := by
  induction cs with
  | nil => rfl
  | cons c cs ih => simp [List.flatMap_cons, renderR_append, ih, case_render_eq]

set_option maxRecDepth 100000 in
theorem suite_head_eq (su : Suite) (hts : encodeRef su.timestamp = su.timestamp) :
    renderR (suiteHead su) =
      lit "<?xml version=\"1.0\" encoding=\"UTF-8\" ?>\n" ++
      lit "<testsuite errors=\"0\" failures=\"" ++ showInt su.failures ++ lit "\" hostname=\"localhost\" name=\"" ++
      encodeRef su.name ++ lit "\" tests=\"" ++ showInt su.tests ++ lit "\" time=\"" ++ showTime su.secs su.millis ++
      lit "\" timestamp=\"" ++ su.timestamp ++ lit "\">\n" ++
      lit "<properties>\n" ++ lit "</properties>\n" := by
  have e0 : encodeRef [48] = [48] := encodeRef_plain _ (by decide)
  have e1 : encodeRef [108, 111, 99, 97, 108, 104, 111, 115, 116] = [108, 111, 99, 97, 108, 104, 111, 115, 116] :=
    encodeRef_plain _ (by decide)
  simp [suiteHead, suiteAttrs, renderR, RTok.render, Tok.render, piText, renderAttrs, renderAttr, tagEnd, encodeRef_showInt,
    encodeRef_showTime, hts, e0, e1, lit, List.append_assoc]

set_option maxRecDepth 100000 in
theorem suite_tail_eq (su : Suite) :
    renderR (suiteTail su) =
      lit "<system-out>" ++ encodeRef su.stdout ++ lit "</system-out>\n" ++ lit "<system-err></system-err>\n" ++ lit "</testsuite>\n" := by
  unfold suiteTail
  by_cases h : su.stdout = []
  · simp [h, renderR, RTok.render, Tok.render, renderAttrs, tagEnd, encodeRef_nil, lit, List.append_assoc]
  · simp [h, renderR, RTok.render, Tok.render, renderAttrs, tagEnd, lit, List.append_assoc]

/-- the bytes of a report are the generic rendering of its token list -/
theorem suite_render_eq (su : Suite) (hts : encodeRef su.timestamp = su.timestamp) : su.render = renderR (docR su) := by
  unfold docR Suite.render
  rw [renderR_append, renderR_append, renderR_flatMap, suite_head_eq su hts, suite_tail_eq]
  simp only [List.append_assoc]

end JUnit
