import CppUModel.Spec.Cache
import CppUModel.Proofs.ListLemmas
namespace Cache
open ListLemmas

theorem unlink_scan_perm : ∀ (l : List Block) (m : Nat) (b : Block) (r : List Block),
    scanRemove l m = some (b, r) → b.mem = m ∧ l.Perm (b :: r)
  | [], _, _, _, h => by simp [scanRemove] at h
  | [_], _, _, _, h => by simp [scanRemove] at h
  | a :: n :: rest, m, b, r, h => by
    unfold scanRemove at h
    split at h
    · next hm => simp at h; obtain ⟨rfl, rfl⟩ := h; exact ⟨hm, List.Perm.swap _ _ _⟩
    · split at h
      · next x l hs =>
        simp at h; obtain ⟨rfl, rfl⟩ := h
        have ⟨h1, h2⟩ := unlink_scan_perm (n :: rest) m x l hs
        exact ⟨h1, (List.Perm.cons a h2).trans (List.Perm.swap _ _ _)⟩
      · simp at h

theorem unlink_perm (l : List Block) (m : Nat) (b : Block) (r : List Block)
    (h : unlink l m = some (b, r)) : b.mem = m ∧ l.Perm (b :: r) := by
  unfold unlink at h
  split at h
  · simp at h
  · split at h
    · next hm => simp at h; obtain ⟨rfl, rfl⟩ := h; exact ⟨hm, List.Perm.refl _⟩
    · exact unlink_scan_perm _ _ _ _ h

theorem scan_none : ∀ (l : List Block) (m : Nat) (a : Block),
    scanRemove (a :: l) m = none → ∀ b ∈ l, b.mem ≠ m
  | [], _, _, _ => by simp
  | n :: rest, m, a, h => by
    unfold scanRemove at h
    split at h
    · simp at h
    · next hm =>
      split at h
      · simp at h
      · next hs =>
        intro b hb
        simp at hb
        rcases hb with rfl | hb
        · exact hm
        · exact scan_none rest m n hs b hb

theorem unlink_none (l : List Block) (m : Nat) (h : unlink l m = none) : ∀ b ∈ l, b.mem ≠ m := by
  unfold unlink at h
  split at h
  · simp
  · next b rest =>
    split at h
    · simp at h
    · next hm =>
      intro x hx; simp at hx
      rcases hx with rfl | hx
      · exact hm
      · exact scan_none rest m b h x hx

end Cache

namespace Cache
open ListLemmas

def Class.ids (c : Class) : List Nat := c.blocks.flatMap Block.ids

theorem liveIds_eq (s : State) :
    s.liveIds = s.table.toList ++ (s.classes.flatMap Class.ids ++ s.uncached.flatMap Block.ids) := by
  simp [State.liveIds, State.blocks, List.flatMap_append, List.flatMap_assoc]
  rfl

theorem destroyList_freed (bs : List Block) (sz : Nat) :
    (freed (destroyList bs sz)).Perm (bs.flatMap Block.ids) := by
  induction bs with
  | nil => simp [destroyList, freed]
  | cons b bs ih =>
    simp only [destroyList, List.flatMap_cons] at ih ⊢
    simp only [freed, List.filterMap_append] at ih ⊢
    refine List.Perm.append ?_ ih
    simp [destroyBlock, Block.ids]
    exact List.Perm.swap _ _ _

theorem destroyList_allocd (bs : List Block) (sz : Nat) : allocd (destroyList bs sz) = [] := by
  induction bs with
  | nil => simp [destroyList, allocd]
  | cons b bs ih =>
    simp only [destroyList, List.flatMap_cons, allocd, List.filterMap_append] at ih ⊢
    rw [ih]; simp [destroyBlock]

theorem allocCached_conservation (s : State) (i : Nat) (c : Class) (n m : Nat)
    (hc : s.classes[i]? = some c) :
    ((allocCached s i c n m).1.liveIds ++ freed (allocCached s i c n m).2).Perm
      (s.liveIds ++ allocd (allocCached s i c n m).2) := by
  unfold allocCached
  split
  · next b rest hf =>
    simp only [liveIds_eq, freed, allocd, List.filterMap_cons, List.filterMap_nil, List.append_nil]
    apply perm_of_count; intro x
    have := (flatMap_set_perm Class.ids s.classes i c
      { c with free := rest, used := b :: c.used } [] [] hc (by
        simp [Class.ids, Class.blocks, hf]
        apply perm_of_count; intro y; simp [List.count_append]; omega)).count_eq x
    simp [List.count_append] at this ⊢; omega
  · next hf =>
    simp only [liveIds_eq, createEvs, freed, allocd]
    apply perm_of_count; intro x
    have := (flatMap_set_perm Class.ids s.classes i c
      { c with used := { node := n, mem := m, msize := c.size } :: c.used } [] [n, m] hc (by
        simp [Class.ids, Class.blocks, hf, Block.ids]
        apply perm_of_count; intro y; simp [List.count_append, List.count_cons]; omega)).count_eq x
    simp [List.count_append, List.count_cons] at this ⊢; omega

theorem alloc_conservation (s : State) (size n m : Nat) :
    ((alloc s size n m).1.liveIds ++ freed (alloc s size n m).2).Perm
      (s.liveIds ++ allocd (alloc s size n m).2) := by
  unfold alloc
  split
  · split
    · simp [freed, allocd]
    · next c hc => exact allocCached_conservation s _ c n m hc
  · simp only [liveIds_eq, createEvs, freed, allocd]
    apply perm_of_count; intro x
    simp [List.count_append, List.count_cons, Block.ids]; omega

theorem warnOnce_conservation (s : State) :
    ((warnOnce s).1.liveIds ++ freed (warnOnce s).2).Perm (s.liveIds ++ allocd (warnOnce s).2) := by
  unfold warnOnce; split <;> simp [freed, allocd, State.liveIds, State.blocks]

theorem deallocCached_conservation (s : State) (i : Nat) (c : Class) (m : Nat)
    (hc : s.classes[i]? = some c) :
    ((deallocCached s i c m).1.liveIds ++ freed (deallocCached s i c m).2).Perm
      (s.liveIds ++ allocd (deallocCached s i c m).2) := by
  unfold deallocCached
  split
  · next b used' hu =>
    have ⟨_, hp⟩ := unlink_perm _ _ _ _ hu
    simp only [liveIds_eq, freed, allocd, List.filterMap_nil, List.append_nil]
    apply perm_of_count; intro x
    have := (flatMap_set_perm Class.ids s.classes i c
      { c with used := used', free := b :: c.free } [] [] hc (by
        simp [Class.ids, Class.blocks]
        apply perm_of_count; intro y
        have := (hp.flatMap_right Block.ids).count_eq y
        simp [List.count_append] at this ⊢; omega)).count_eq x
    simp [List.count_append] at this ⊢; omega
  · exact warnOnce_conservation s

theorem deallocUncached_conservation (s : State) (m size : Nat) :
    ((deallocUncached s m size).1.liveIds ++ freed (deallocUncached s m size).2).Perm
      (s.liveIds ++ allocd (deallocUncached s m size).2) := by
  unfold deallocUncached
  split
  · next b rest hu =>
    have ⟨_, hp⟩ := unlink_perm _ _ _ _ hu
    simp only [liveIds_eq, freed, allocd, destroyBlock]
    apply perm_of_count; intro x
    have := (hp.flatMap_right Block.ids).count_eq x
    simp [List.count_append, List.count_cons, Block.ids] at this ⊢; omega
  · exact warnOnce_conservation s

theorem dealloc_conservation (s : State) (m size : Nat) :
    ((dealloc s m size).1.liveIds ++ freed (dealloc s m size).2).Perm
      (s.liveIds ++ allocd (dealloc s m size).2) := by
  unfold dealloc
  split
  · split
    · simp [freed, allocd]
    · next c hc => exact deallocCached_conservation s _ c m hc
  · exact deallocUncached_conservation s m size

theorem freed_append (a b : List Ev) : freed (a ++ b) = freed a ++ freed b := by
  simp [freed, List.filterMap_append]
theorem allocd_append (a b : List Ev) : allocd (a ++ b) = allocd a ++ allocd b := by
  simp [allocd, List.filterMap_append]

theorem clearCache_conservation (s : State) :
    ((clearCache s).1.liveIds ++ freed (clearCache s).2).Perm
      (s.liveIds ++ allocd (clearCache s).2) := by
  unfold clearCache
  simp only [liveIds_eq]
  have h1 : ∀ cs : List Class,
      ((cs.map (fun c => { c with free := [] })).flatMap Class.ids ++
        freed (cs.flatMap (fun c => destroyList c.free c.size))).Perm (cs.flatMap Class.ids) := by
    intro cs
    induction cs with
    | nil => simp [freed]
    | cons c cs ih =>
      simp only [List.map_cons, List.flatMap_cons, freed_append]
      apply perm_of_count; intro x
      have h2 := ih.count_eq x
      have h3 := (destroyList_freed c.free c.size).count_eq x
      simp [List.count_append, Class.ids, Class.blocks] at h2 h3 ⊢; omega
  have h2 : ∀ cs : List Class, allocd (cs.flatMap (fun c => destroyList c.free c.size)) = [] := by
    intro cs
    induction cs with
    | nil => simp [allocd]
    | cons c cs ih => simp [List.flatMap_cons, allocd_append, ih, destroyList_allocd]
  rw [h2]
  apply perm_of_count; intro x
  have := (h1 s.classes).count_eq x
  simp [List.count_append] at this ⊢; omega

theorem clearAll_conservation (s : State) :
    ((clearAll s).1.liveIds ++ freed (clearAll s).2).Perm
      (s.liveIds ++ allocd (clearAll s).2) := by
  unfold clearAll
  simp only [liveIds_eq]
  have h1 : ∀ cs : List Class,
      ((cs.map (fun c => { c with free := [], used := [] })).flatMap Class.ids ++
        freed (cs.flatMap (fun c => destroyList c.free c.size ++ destroyList c.used c.size))).Perm
        (cs.flatMap Class.ids) := by
    intro cs
    induction cs with
    | nil => simp [freed]
    | cons c cs ih =>
      simp only [List.map_cons, List.flatMap_cons, freed_append]
      apply perm_of_count; intro x
      have h2 := ih.count_eq x
      have h3 := (destroyList_freed c.free c.size).count_eq x
      have h4 := (destroyList_freed c.used c.size).count_eq x
      simp [List.count_append, Class.ids, Class.blocks] at h2 h3 h4 ⊢; omega
  have h2 : ∀ cs : List Class,
      allocd (cs.flatMap (fun c => destroyList c.free c.size ++ destroyList c.used c.size)) = [] := by
    intro cs
    induction cs with
    | nil => simp [allocd]
    | cons c cs ih => simp [List.flatMap_cons, allocd_append, ih, destroyList_allocd]
  rw [allocd_append, h2, destroyList_allocd, freed_append]
  apply perm_of_count; intro x
  have := (h1 s.classes).count_eq x
  have h3 := (destroyList_freed s.uncached 0).count_eq x
  simp [List.count_append] at this h3 ⊢; omega

theorem step_conservation (s : State) (op : Op) :
    ((step s op).1.liveIds ++ freed (step s op).2).Perm (s.liveIds ++ allocd (step s op).2) := by
  cases op with
  | alloc sz n m => exact alloc_conservation s sz n m
  | dealloc m sz => exact dealloc_conservation s m sz
  | clearCache => exact clearCache_conservation s
  | clearAll => exact clearAll_conservation s

end Cache
