import CppUModel.Proofs.SimpleString
import CppUModel.Gen.StringPrims
/-!
# The REGENERATED primitives (`Gen/StringPrims.lean`, from the clang AST of `SimpleString.cpp`)
equal the hand-written bounded-buffer models of `Base/CString.lean`.

Lock-step lemmas (`…_loop_eq`): the generated loop function and the hand-written loop agree on ALL
inputs (error outcomes included) when run with the same fuel.  From them: at the canonical fuel
(buffer length + 1) the generated function IS the hand model; and for every fuel above the string
length it returns the textbook value (via the refinement lemmas of `Proofs/CString.lean`).
-/
namespace GenPrims
open CStr CPrim Text TextExt

/-! ### bytes -/

theorem forall_uint8 (P : UInt8 → Prop) (h : ∀ n : Fin 256, P (UInt8.ofNat n.val)) : ∀ c, P c := by
  intro c
  have := h ⟨c.toNat, c.toNat_lt⟩
  simpa using this

theorem sx8_inj {a b : UInt8} : (sx8 a == sx8 b) = decide (a = b) := by
  have ha := a.toNat_lt; have hb := b.toNat_lt
  by_cases h : a = b
  · subst h; simp
  · have hn : a.toNat ≠ b.toNat := fun e => h (UInt8.toNat_inj.mp e)
    have : sx8 a ≠ sx8 b := by unfold sx8; split <;> split <;> omega
    simp [h, this]

theorem zx8_ne {a b : UInt8} : (zx8 a != zx8 b) = decide (a ≠ b) := by
  by_cases h : a = b
  · subst h; simp
  · have hn : a.toNat ≠ b.toNat := fun e => h (UInt8.toNat_inj.mp e)
    have : zx8 a ≠ zx8 b := by unfold zx8; omega
    simp [h, this]

theorem bne_zero (c : UInt8) : (c != 0) = decide (c ≠ 0) := by
  by_cases h : c = 0 <;> simp [h]

/-! ### character classes and ToLower: the generated expression is the hand-written one, for all 256 bytes -/

theorem isDigit_eq : ∀ c, Gen.StrPrims.isDigit c = CStr.isDigit c :=
  forall_uint8 _ (by decide +kernel)
theorem isSpace_eq : ∀ c, Gen.StrPrims.isSpace c = CStr.isSpace c :=
  forall_uint8 _ (by decide +kernel)
theorem isUpper_eq : ∀ c, Gen.StrPrims.isUpper c = CStr.isUpper c :=
  forall_uint8 _ (by decide +kernel)
theorem isControl_eq : ∀ c, Gen.StrPrims.isControl c = CStr.isControl c :=
  forall_uint8 _ (by decide +kernel)
theorem isControlWithShortEscapeSequence_eq :
    ∀ c, Gen.StrPrims.isControlWithShortEscapeSequence c = CStr.isControlWithShortEscapeSequence c :=
  forall_uint8 _ (by decide +kernel)
theorem ToLower_eq : ∀ c, Gen.StrPrims.ToLower c = CStr.ToLower c :=
  forall_uint8 _ (by decide +kernel)


/-! ### StrLen -/

theorem StrLen_loop_eq (f0 : Nat) (b : Buf) : ∀ (f p ng nh : Nat), (ng + 1) % 18446744073709551616 = nh →
    nh + f < 18446744073709551616 → Gen.StrPrims.StrLen_loop1 f0 b f p ng = strLenLoop b f p nh
  | 0, _, _, _, _, _ => by simp [Gen.StrPrims.StrLen_loop1, strLenLoop]
  | f + 1, p, ng, nh, h, hb => by
    unfold Gen.StrPrims.StrLen_loop1 strLenLoop
    cases hr : rd b p with
    | error e => rfl
    | ok c =>
      by_cases hc : c = 0
      · simp [hc, h]
      · simp only [bne_zero, hc, ne_eq, not_false_eq_true, decide_true, if_true, if_false, h]
        exact StrLen_loop_eq f0 b f (p + 1) nh (nh + 1) (by omega) (by omega)

/-- with the same fuel the regenerated `StrLen` is the hand-written loop, on every input -/
theorem StrLen_eq_loop (f : Nat) (b : Buf) (p : Nat) (hf : f < 18446744073709551616) :
    Gen.StrPrims.StrLen f b p = strLenLoop b f p 0 := by
  unfold Gen.StrPrims.StrLen
  exact StrLen_loop_eq f b f p _ 0 (by decide) (by omega)

theorem StrLen_eq (b : Buf) (p : Nat) (hb : b.length + 1 < 18446744073709551616) :
    Gen.StrPrims.StrLen (b.length + 1) b p = CStr.StrLen b p := by
  rw [StrLen_eq_loop _ _ _ (by omega)]; rfl

theorem StrLen_ok {b : Buf} {p : Nat} {a : Bytes} (h : CAt b p a) (f : Nat) (hf : a.length < f)
    (hf2 : f < 18446744073709551616) : Gen.StrPrims.StrLen f b p = .ok a.length := by
  rw [StrLen_eq_loop _ _ _ hf2, strLenLoop_ok a b p 0 f h hf]; simp

/-! ### StrCmp -/

theorem StrCmp_loop_eq (f0 : Nat) (b1 b2 : Buf) : ∀ (f p1 p2 : Nat),
    Gen.StrPrims.StrCmp_loop1 f0 b1 b2 f p1 p2 = strCmpLoop b1 b2 f p1 p2
  | 0, _, _ => by simp [Gen.StrPrims.StrCmp_loop1, strCmpLoop]
  | f + 1, p1, p2 => by
    unfold Gen.StrPrims.StrCmp_loop1 strCmpLoop Gen.StrPrims.StrCmp_k1
    cases hr1 : rd b1 p1 with
    | error e => rfl
    | ok c1 =>
      cases hr2 : rd b2 p2 with
      | error e => by_cases hc : c1 = 0 <;> simp [hc, bne_zero]
      | ok c2 =>
        by_cases hc : c1 = 0
        · simp [hc, bne_zero, zx8]
        · by_cases he : c1 = c2
          · simp [hc, bne_zero, he, sx8_inj, StrCmp_loop_eq f0 b1 b2 f]
          · simp [hc, bne_zero, he, sx8_inj, zx8]

theorem StrCmp_eq (b1 b2 : Buf) (p1 p2 : Nat) :
    Gen.StrPrims.StrCmp (b1.length + 1) b1 p1 b2 p2 = CStr.StrCmp b1 p1 b2 p2 := by
  unfold Gen.StrPrims.StrCmp CStr.StrCmp; exact StrCmp_loop_eq _ _ _ _ _ _

theorem StrCmp_ok {b1 b2 : Buf} {p1 p2 : Nat} {a1 a2 : Bytes} (h1 : CAt b1 p1 a1) (h2 : CAt b2 p2 a2) (f : Nat)
    (hf : a1.length < f) : Gen.StrPrims.StrCmp f b1 p1 b2 p2 = .ok (Text.cmp a1 a2) := by
  unfold Gen.StrPrims.StrCmp
  rw [StrCmp_loop_eq, strCmpLoop_ok a1 a2 b1 b2 p1 p2 f h1 h2 hf]

/-! ### StrNCmp -/

theorem StrNCmp_loop_eq (f0 : Nat) (b1 b2 : Buf) : ∀ (f p1 p2 n : Nat), n < f → n < 18446744073709551616 →
    Gen.StrPrims.StrNCmp_loop1 f0 b1 b2 f p1 p2 n = CStr.StrNCmp b1 p1 b2 p2 n
  | 0, _, _, _, h, _ => by omega
  | f + 1, p1, p2, 0, _, _ => by
    simp [Gen.StrPrims.StrNCmp_loop1, Gen.StrPrims.StrNCmp_k1, CStr.StrNCmp]
  | f + 1, p1, p2, n + 1, h, hm => by
    unfold Gen.StrPrims.StrNCmp_loop1 CStr.StrNCmp Gen.StrPrims.StrNCmp_k1
    have hn : ((n + 1 != 0) = true) := by simp
    have hd : (n + 1 + 18446744073709551615) % 18446744073709551616 = n := by omega
    simp only [hn, if_true, hd]
    cases hr1 : rd b1 p1 with
    | error e => rfl
    | ok c1 =>
      cases hr2 : rd b2 p2 with
      | error e => by_cases hc : c1 = 0 <;> simp [hc, bne_zero]
      | ok c2 =>
        by_cases hc : c1 = 0
        · simp [hc, bne_zero, zx8]
        · by_cases he : c1 = c2
          · simp [hc, bne_zero, he, sx8_inj, StrNCmp_loop_eq f0 b1 b2 f (p1 + 1) (p2 + 1) n (by omega) (by omega)]
          · simp [hc, bne_zero, he, sx8_inj, zx8]

theorem StrNCmp_eq (f : Nat) (b1 b2 : Buf) (p1 p2 n : Nat) (hf : n < f) (hn : n < 18446744073709551616) :
    Gen.StrPrims.StrNCmp f b1 p1 b2 p2 n = CStr.StrNCmp b1 p1 b2 p2 n := by
  unfold Gen.StrPrims.StrNCmp; exact StrNCmp_loop_eq _ _ _ _ _ _ _ hf hn

theorem StrNCmp_ok {b1 b2 : Buf} {p1 p2 : Nat} {a1 a2 : Bytes} (h1 : CAt b1 p1 a1) (h2 : CAt b2 p2 a2) (f n : Nat)
    (hf : n < f) (hn : n < 18446744073709551616) :
    Gen.StrPrims.StrNCmp f b1 p1 b2 p2 n = .ok (Text.ncmp n a1 a2) := by
  rw [StrNCmp_eq f b1 b2 p1 p2 n hf hn, CStr.StrNCmp_ok n a1 a2 b1 b2 p1 p2 h1 h2]

/-! ### MemCmp -/

theorem MemCmp_loop_eq (f0 : Nat) (b1 b2 : Buf) (s1 s2 : Nat) : ∀ (f p1 p2 n : Nat), n < f → n < 18446744073709551616 →
    Gen.StrPrims.MemCmp_loop1 f0 b1 b2 f s1 s2 n p1 p2 = CStr.MemCmp b1 p1 b2 p2 n
  | 0, _, _, _, h, _ => by omega
  | f + 1, p1, p2, 0, _, _ => by simp [Gen.StrPrims.MemCmp_loop1, CStr.MemCmp]
  | f + 1, p1, p2, n + 1, h, hm => by
    unfold Gen.StrPrims.MemCmp_loop1 CStr.MemCmp
    have hn : ((n + 1 != 0) = true) := by simp
    have hd : (n + 1 + 18446744073709551615) % 18446744073709551616 = n := by omega
    simp only [hn, if_true, hd]
    cases hr1 : rd b1 p1 with
    | error e => rfl
    | ok c1 =>
      cases hr2 : rd b2 p2 with
      | error e => rfl
      | ok c2 =>
        by_cases he : c1 = c2
        · simp [he, zx8_ne, MemCmp_loop_eq f0 b1 b2 s1 s2 f (p1 + 1) (p2 + 1) n (by omega) (by omega)]
        · have hz : (zx8 c1 != zx8 c2) = true := by rw [zx8_ne]; simp [he]
          simp only []
          rw [if_pos hz, if_pos (by simpa using he)]; rfl

theorem MemCmp_eq (f : Nat) (b1 b2 : Buf) (p1 p2 n : Nat) (hf : n < f) (hn : n < 18446744073709551616) :
    Gen.StrPrims.MemCmp f b1 p1 b2 p2 n = CStr.MemCmp b1 p1 b2 p2 n := by
  unfold Gen.StrPrims.MemCmp; exact MemCmp_loop_eq _ _ _ _ _ _ _ _ _ hf hn


/-! ### StrNCpy -/

/-- the hand model returns the buffer; the code also returns the destination pointer -/
def withPtr (res : Nat) : Except Err Buf → Except Err (Option Nat × Buf)
  | .ok b => .ok (some res, b)
  | .error e => .error e

theorem rd_of_wr {b b' : Buf} {i : Nat} {v : UInt8} (h : wr b i v = .ok b') : rd b' i = .ok v := by
  unfold wr at h
  split at h
  · injection h with h; subst h; simp [rd, *]
  · cases h

theorem StrNCpy_loop_eq (f0 : Nat) (src : Buf) (res : Nat) : ∀ (f n s1 s2 : Nat) (m : Buf) (c : UInt8),
    1 ≤ n → n ≤ f → n < 18446744073709551616 → rd m s1 = .ok c →
    Gen.StrPrims.StrNCpy_loop1 f0 false src f s1 s2 n res m =
      withPtr res (if c = 0 then .ok m else CStr.StrNCpy m (s1 + 1) src (s2 + 1) (n - 1))
  | 0, n, _, _, _, _, h1, h2, _, _ => by omega
  | f + 1, 1, s1, s2, m, c, _, _, _, hr => by
    unfold Gen.StrPrims.StrNCpy_loop1 Gen.StrPrims.StrNCpy_k1
    by_cases hc : c = 0 <;> simp [hc, withPtr, CStr.StrNCpy]
  | f + 1, k + 2, s1, s2, m, c, _, h2, h3, hr => by
    unfold Gen.StrPrims.StrNCpy_loop1 Gen.StrPrims.StrNCpy_k1
    have hd : (k + 2 + 18446744073709551615) % 18446744073709551616 = k + 1 := by omega
    have hn : ((k + 1 != 0) = true) := by simp
    simp only [hd, hn, if_true, rdN, wrN, Bool.false_eq_true, if_false, hr]
    by_cases hc : c = 0
    · simp [hc, withPtr]
    · simp only [bne_zero, hc, ne_eq, not_false_eq_true, decide_true, if_true, if_false]
      have e1 : k + 2 - 1 = k + 1 := by omega
      rw [e1]
      unfold CStr.StrNCpy
      cases hr2 : rd src (s2 + 1) with
      | error e => simp [withPtr]
      | ok c4 =>
        cases hw : wr m (s1 + 1) c4 with
        | error e => simp [hw, withPtr]
        | ok m5 =>
          have ih := StrNCpy_loop_eq f0 src res f (k + 1) (s1 + 1) (s2 + 1) m5 c4 (by omega) (by omega) (by omega) (rd_of_wr hw)
          simp only [hw, ih, Nat.add_sub_cancel]

/-- the regenerated `StrNCpy` with a non-NULL destination is the hand model (on every input) and returns the
    destination pointer -/
theorem StrNCpy_eq (f : Nat) (dst src : Buf) (dp sp n : Nat) (hf : n ≤ f) (hn : n < 18446744073709551616) :
    Gen.StrPrims.StrNCpy f false dst dp src sp n = withPtr dp (CStr.StrNCpy dst dp src sp n) := by
  unfold Gen.StrPrims.StrNCpy
  cases n with
  | zero => simp [CStr.StrNCpy, withPtr]
  | succ k =>
    have h0 : ((0 : Nat) == k + 1) = false := by simp
    simp only [Bool.false_or, h0, Bool.false_eq_true, if_false, wrN]
    unfold CStr.StrNCpy
    cases hr : rd src sp with
    | error e => simp [withPtr]
    | ok c1 =>
      cases hw : wr dst dp c1 with
      | error e => simp [hw, withPtr]
      | ok m2 =>
        simp only [hw, StrNCpy_loop_eq f src dp f (k + 1) dp sp m2 c1 (by omega) hf hn (rd_of_wr hw), Nat.add_sub_cancel]

/-- `StrNCpy(NULL, …)` touches nothing and returns NULL -/
theorem StrNCpy_null (f : Nat) (dst src : Buf) (dp sp n : Nat) :
    Gen.StrPrims.StrNCpy f true dst dp src sp n = .ok (none, dst) := by
  simp [Gen.StrPrims.StrNCpy]

/-- `n = 0` touches nothing -/
theorem StrNCpy_zero (f : Nat) (nl : Bool) (dst src : Buf) (dp sp : Nat) :
    Gen.StrPrims.StrNCpy f nl dst dp src sp 0 = .ok ((if nl then none else some dp), dst) := by
  simp [Gen.StrPrims.StrNCpy]

theorem StrNCpy_ok {dst src : Buf} {dp sp n : Nat} {a : Bytes} (h : CAt src sp a)
    (hfit : dp + min n (a.length + 1) ≤ dst.length) (f : Nat) (hf : n ≤ f) (hn : n < 18446744073709551616) :
    Gen.StrPrims.StrNCpy f false dst dp src sp n =
      .ok (some dp, dst.take dp ++ (cz a).take n ++ dst.drop (dp + min n (a.length + 1))) := by
  rw [StrNCpy_eq f dst src dp sp n hf hn, CStr.StrNCpy_ok h hfit]; rfl

/-! ### StrStr -/

theorem StrStr_loop_eq (f0 : Nat) (b1 b2 : Buf) (p2 : Nat) {a2 : Bytes} (h2 : CAt b2 p2 a2) (hf0 : a2.length < f0)
    (hm : f0 < 18446744073709551616) : ∀ (f p1 : Nat),
    Gen.StrPrims.StrStr_loop1 f0 b1 b2 f p1 p2 = strStrLoop b1 b2 p2 f p1
  | 0, _ => by simp [Gen.StrPrims.StrStr_loop1, strStrLoop]
  | f + 1, p1 => by
    unfold Gen.StrPrims.StrStr_loop1 strStrLoop
    cases hr : rd b1 p1 with
    | error e => rfl
    | ok c =>
      by_cases hc : c = 0
      · simp [hc]
      · simp only [bne_zero, hc, ne_eq, not_false_eq_true, decide_true, if_true, if_false,
          StrLen_ok h2 f0 hf0 hm, CStr.StrLen_ok h2, StrNCmp_eq f0 b1 b2 p1 p2 a2.length hf0 (by omega)]
        cases hcmp : CStr.StrNCmp b1 p1 b2 p2 a2.length with
        | error e => rfl
        | ok r =>
          by_cases hz : r = 0
          · simp [hz]
          · simp [hz, StrStr_loop_eq f0 b1 b2 p2 h2 hf0 hm f (p1 + 1)]

theorem StrStr_ok {b1 b2 : Buf} {p1 p2 : Nat} {a1 a2 : Bytes} (h1 : CAt b1 p1 a1) (h2 : CAt b2 p2 a2) (f : Nat)
    (hf1 : a1.length < f) (hf2 : a2.length < f) (hm : f < 18446744073709551616) :
    Gen.StrPrims.StrStr f b1 p1 b2 p2 = .ok ((TextExt.strStr a1 a2).map (· + p1)) := by
  unfold Gen.StrPrims.StrStr
  cases a2 with
  | nil => simp [h2.nil_rd, strStr_nil_right]
  | cons y a2 =>
    have hy := h2.cons_ne
    simp only [h2.cons_rd, bne_zero, hy, ne_eq, not_false_eq_true, decide_true, if_true]
    rw [StrStr_loop_eq f b1 b2 p2 h2 hf2 hm, strStrLoop_ok a1 (y :: a2) b1 b2 p1 p2 f h1 h2 (by simp) hf1]

/-- at the canonical fuel and with a C string as pattern the regenerated `StrStr` is the hand model, whatever the
    first buffer contains -/
theorem StrStr_eq (b1 b2 : Buf) (p1 p2 : Nat) {a2 : Bytes} (h2 : CAt b2 p2 a2) (hf : a2.length < b1.length + 1)
    (hm : b1.length + 1 < 18446744073709551616) :
    Gen.StrPrims.StrStr (b1.length + 1) b1 p1 b2 p2 = CStr.StrStr b1 p1 b2 p2 := by
  unfold Gen.StrPrims.StrStr CStr.StrStr
  cases hr : rd b2 p2 with
  | error e => rfl
  | ok c =>
    by_cases hc : c = 0
    · simp [hc]
    · simp [bne_zero, hc, StrStr_loop_eq (b1.length + 1) b1 b2 p2 h2 hf hm]

/-! ### AtoU -/

theorem isDigit_range {c : UInt8} (h : CStr.isDigit c = true) : 48 ≤ c.toNat ∧ c.toNat ≤ 57 := by
  simp only [CStr.isDigit, Bool.and_eq_true, decide_eq_true_eq, UInt8.le_iff_toNat_le] at h
  exact h

theorem AtoU_loop2_eq (f0 : Nat) (b : Buf) : ∀ (f p r : Nat),
    Gen.StrPrims.AtoU_loop2 f0 b f p r = atoULoop b f p r
  | 0, _, _ => by simp [Gen.StrPrims.AtoU_loop2, atoULoop]
  | f + 1, p, r => by
    unfold Gen.StrPrims.AtoU_loop2 atoULoop Gen.StrPrims.AtoU_k1
    cases hr : rd b p with
    | error e => rfl
    | ok c =>
      simp only [isDigit_eq]
      by_cases hd : CStr.isDigit c = true
      · have hrg := isDigit_range hd
        have hs : sx8 c = (c.toNat : Int) := by unfold sx8; split <;> omega
        have hge : decide (sx8 c ≥ (48 : Int)) = true := by simp [hs]; omega
        have harith : (r * 10 % 4294967296 + i2u32 (sx8 c - 48)) % 4294967296 = (r * 10 + (c.toNat - 48)) % 4294967296 := by
          unfold i2u32; rw [hs]; omega
        simp only [hd, if_true, hge, harith]
        exact AtoU_loop2_eq f0 b f (p + 1) _
      · simp [hd]

theorem AtoU_loop1_eq (f0 : Nat) (b : Buf) : ∀ (f p : Nat),
    Gen.StrPrims.AtoU_loop1 f0 b f p =
      (match skipSpaces b f p with
       | .error e => .error e
       | .ok q => atoULoop b f0 q 0)
  | 0, _ => by simp [Gen.StrPrims.AtoU_loop1, skipSpaces]
  | f + 1, p => by
    unfold Gen.StrPrims.AtoU_loop1 skipSpaces
    cases hr : rd b p with
    | error e => rfl
    | ok c =>
      simp only [isSpace_eq]
      by_cases hs : CStr.isSpace c = true
      · simp only [hs, if_true]; exact AtoU_loop1_eq f0 b f (p + 1)
      · simp [hs, AtoU_loop2_eq]

/-- at the canonical fuel the regenerated `AtoU` IS the hand model, on every input -/
theorem AtoU_eq (b : Buf) (p : Nat) : Gen.StrPrims.AtoU (b.length + 1) b p = CStr.AtoU b p := by
  unfold Gen.StrPrims.AtoU CStr.AtoU
  rw [AtoU_loop1_eq]
  cases skipSpaces b (b.length + 1) p <;> rfl

theorem AtoU_ok {b : Buf} {p : Nat} {a : Bytes} (h : CAt b p a) :
    Gen.StrPrims.AtoU (b.length + 1) b p = .ok (TextExt.atou a) := by
  rw [AtoU_eq, CStr.AtoU_ok h]

/-! ### AtoI -/

theorem sx8_eq_iff (c : UInt8) (k : Nat) (hk : k < 128) : (sx8 c == (k : Int)) = decide (c = UInt8.ofNat k) := by
  have hc := c.toNat_lt
  by_cases h : c = UInt8.ofNat k
  · subst h
    have : (UInt8.ofNat k).toNat = k := by simp; omega
    simp [sx8, this]; omega
  · have hn : c.toNat ≠ k := by
      intro e; apply h; apply UInt8.toNat_inj.mp; simp [e]; omega
    have : sx8 c ≠ (k : Int) := by unfold sx8; split <;> omega
    simp [h, this]

def signed (first : UInt8) : Except Err Nat → Except Err Int
  | .ok r => .ok (if first = 45 then - (r : Int) else (r : Int))
  | .error e => .error e

theorem AtoI_loop2_eq (f0 : Nat) (b : Buf) (first : UInt8) : ∀ (f p r : Nat), r ≤ 2147483647 →
    Gen.StrPrims.AtoI_loop2 f0 b f p first (r : Int) = signed first (atoILoop b f p r)
  | 0, _, _, _ => by simp [Gen.StrPrims.AtoI_loop2, atoILoop, signed]
  | f + 1, p, r, hr0 => by
    unfold Gen.StrPrims.AtoI_loop2 atoILoop
    cases hr : rd b p with
    | error e => simp [signed]
    | ok c =>
      simp only [isDigit_eq]
      by_cases hd : CStr.isDigit c = true
      · have hrg := isDigit_range hd
        have hs : sx8 c = (c.toNat : Int) := by unfold sx8; split <;> omega
        simp only [hd, if_true, hs]
        by_cases h1 : r * 10 > 2147483647
        · have : ckInt ((r : Int) * 10) = .error .overflow := by unfold ckInt; rw [if_neg]; omega
          have h2 : r * 10 + (c.toNat - 48) > 2147483647 := by omega
          simp [this, h2, signed]
        · have e1 : ckInt ((r : Int) * 10) = .ok ((r : Int) * 10) := by unfold ckInt; rw [if_pos]; omega
          simp only [e1]
          by_cases h2 : r * 10 + (c.toNat - 48) > 2147483647
          · have : ckInt ((r : Int) * 10 + ((c.toNat : Int) - 48)) = .error .overflow := by unfold ckInt; rw [if_neg]; omega
            simp [this, h2, signed]
          · have e2 : ckInt ((r : Int) * 10 + ((c.toNat : Int) - 48)) = .ok (((r * 10 + (c.toNat - 48) : Nat)) : Int) := by
              unfold ckInt; rw [if_pos (by omega)]; congr 1; omega
            simp only [e2, h2, if_false]
            exact AtoI_loop2_eq f0 b first f (p + 1) _ (by omega)
      · have e45 : (sx8 first == (45 : Int)) = decide (first = 45) := sx8_eq_iff first 45 (by decide)
        simp only [hd, Bool.false_eq_true, if_false, e45, signed]
        by_cases hf : first = 45
        · have : ckInt (-(r : Int)) = .ok (-(r : Int)) := by unfold ckInt; rw [if_pos]; omega
          simp [hf, this]
        · simp [hf]

theorem AtoI_loop1_eq (f0 : Nat) (b : Buf) : ∀ (f p : Nat),
    Gen.StrPrims.AtoI_loop1 f0 b f p =
      (match skipSpaces b f p with
       | .error e => .error e
       | .ok q =>
         match rd b q with
         | .error e => .error e
         | .ok first => signed first (atoILoop b f0 (if first = 45 ∨ first = 43 then q + 1 else q) 0))
  | 0, _ => by simp [Gen.StrPrims.AtoI_loop1, skipSpaces]
  | f + 1, p => by
    unfold Gen.StrPrims.AtoI_loop1 skipSpaces
    cases hr : rd b p with
    | error e => rfl
    | ok c =>
      simp only [isSpace_eq]
      by_cases hs : CStr.isSpace c = true
      · simp only [hs, if_true]; exact AtoI_loop1_eq f0 b f (p + 1)
      · have e45 : (sx8 c == (45 : Int)) = decide (c = 45) := sx8_eq_iff c 45 (by decide)
        have e43 : (sx8 c == (43 : Int)) = decide (c = 43) := sx8_eq_iff c 43 (by decide)
        simp only [hs, Bool.false_eq_true, if_false, hr, e45, e43, Gen.StrPrims.AtoI_k1]
        have h0 : ∀ q, Gen.StrPrims.AtoI_loop2 f0 b f0 q c (0 : Int) = signed c (atoILoop b f0 q 0) := by
          intro q; have := AtoI_loop2_eq f0 b c f0 q 0 (by omega); simpa using this
        by_cases h : c = 45 ∨ c = 43
        · rcases h with h | h <;> subst h <;> simp [h0]
        · have h' := h; simp only [not_or] at h'
          simp [h'.1, h'.2, h0]

/-- at the canonical fuel the regenerated `AtoI` IS the hand model, on every input (overflow included) -/
theorem AtoI_eq (b : Buf) (p : Nat) : Gen.StrPrims.AtoI (b.length + 1) b p = CStr.AtoI b p := by
  unfold Gen.StrPrims.AtoI CStr.AtoI
  rw [AtoI_loop1_eq]
  cases hs : skipSpaces b (b.length + 1) p with
  | error e => rfl
  | ok q =>
    cases hr : rd b q with
    | error e => simp [hr]
    | ok first =>
      simp only [hr]
      cases hl : atoILoop b (b.length + 1) (if first = 45 ∨ first = 43 then q + 1 else q) 0 <;> simp [signed]

theorem AtoI_ok {b : Buf} {p : Nat} {a : Bytes} (h : CAt b p a) (hfit : TextExt.atoiMagnitude a ≤ 2147483647) :
    Gen.StrPrims.AtoI (b.length + 1) b p = .ok (TextExt.atoi a) := by
  rw [AtoI_eq, CStr.AtoI_ok h hfit]


/-! ### the allocation-free methods, regenerated as compositions of the regenerated primitives

`this` / `other` are the objects' buffers (`getBuffer()` = offset 0).  For objects that hold C strings and
any fuel above both lengths (at most 2^64) the regenerated method returns what the hand-written method of
`Model/SimpleString.lean` returns, hence the textbook value. -/

open SStr

theorem m_size_ok {o : Obj} {a : Bytes} (h : Holds o a) (f : Nat) (hf : a.length < f) (hm : f < 18446744073709551616) :
    Gen.StrPrims.m_size f o.buf = .ok a.length := by
  simp only [Gen.StrPrims.m_size, StrLen_ok h f hf hm]

theorem m_isEmpty_ok {o : Obj} {a : Bytes} (h : Holds o a) (f : Nat) (hf : a.length < f) (hm : f < 18446744073709551616) :
    Gen.StrPrims.m_isEmpty f o.buf = .ok (a.isEmpty) := by
  simp only [Gen.StrPrims.m_isEmpty, m_size_ok h f hf hm]
  cases a <;> simp

theorem m_at_eq (f : Nat) (o : Obj) (pos : Nat) : Gen.StrPrims.m_at f o.buf pos = at_ o pos := by
  simp only [Gen.StrPrims.m_at, at_, Nat.zero_add]
  cases rd o.buf pos <;> rfl

theorem m_contains_ok {self other : Obj} {a b : Bytes} (h : Holds self a) (hb : Holds other b) (f : Nat)
    (hf1 : a.length < f) (hf2 : b.length < f) (hm : f < 18446744073709551616) :
    Gen.StrPrims.m_contains f self.buf other.buf = .ok (Text.isInfix a b) := by
  simp only [Gen.StrPrims.m_contains, StrStr_ok h hb f hf1 hf2 hm, ← strStr_isSome_eq_isInfix]
  cases TextExt.strStr a b <;> rfl

theorem m_startsWith_eq {self other : Obj} {a b : Bytes} (h : Holds self a) (hb : Holds other b) (f : Nat)
    (hf1 : a.length < f) (hf2 : b.length < f) (hm : f < 18446744073709551616) :
    Gen.StrPrims.m_startsWith f self.buf other.buf = startsWith self other := by
  simp only [Gen.StrPrims.m_startsWith, SStr.startsWith, m_size_ok h f hf1 hm, m_size_ok hb f hf2 hm, size_ok h, size_ok hb,
    StrStr_ok h hb f hf1 hf2 hm, CStr.StrStr_ok h hb]
  by_cases h1 : b.length = 0 <;> by_cases h2 : a.length = 0 <;> simp [h1, h2]

theorem m_endsWith_eq {self other : Obj} {a b : Bytes} (h : Holds self a) (hb : Holds other b) (f : Nat)
    (hf1 : a.length < f) (hf2 : b.length < f) (hm : f < 18446744073709551616) :
    Gen.StrPrims.m_endsWith f self.buf other.buf = endsWith self other := by
  simp only [Gen.StrPrims.m_endsWith, SStr.endsWith, m_size_ok h f hf1 hm, m_size_ok hb f hf2 hm, size_ok h, size_ok hb]
  by_cases h1 : b.length = 0
  · simp [h1]
  · by_cases h2 : a.length = 0
    · simp [h1, h2]
    · by_cases h3 : a.length < b.length
      · simp [h1, h2, h3]
      · have hd := CAt.drop h (a.length - b.length) (by omega)
        simp only [Nat.zero_add] at hd
        have hl : (a.drop (a.length - b.length)).length < f := by simp; omega
        have hp : psub a.length b.length = .ok (a.length - b.length) := by
          unfold psub; rw [if_pos (by omega)]
        simp [h1, h2, h3, hp, StrCmp_ok hd hb f hl, CStr.StrCmp_ok hd hb]

theorem m_findFrom_loop_eq (f0 : Nat) (b : Buf) (start : Nat) (ch : UInt8) (length : Nat) (hl : length < 18446744073709551616) :
    ∀ (fuel i : Nat), length - i < fuel →
      Gen.StrPrims.m_findFrom_loop2 f0 b fuel start ch length i = findFromLoop b ch (length - i) i
  | 0, _, h => by omega
  | fuel + 1, i, h => by
    unfold Gen.StrPrims.m_findFrom_loop2
    by_cases hi : i < length
    · obtain ⟨k, hk⟩ : ∃ k, length - i = k + 1 := ⟨length - i - 1, by omega⟩
      have hk' : length - (i + 1) = k := by omega
      have hmod : (i + 1) % 18446744073709551616 = i + 1 := by omega
      simp only [hi, decide_true, if_true, hk, findFromLoop, Gen.StrPrims.m_at, Nat.zero_add, hmod]
      cases hr : rd b i with
      | error e => rfl
      | ok c =>
        by_cases hc : c = ch
        · simp [hc]
        · have ih := m_findFrom_loop_eq f0 b start ch length hl fuel (i + 1) (by omega)
          rw [hk'] at ih
          simp [hc, sx8_inj, ih]
    · have hz : length - i = 0 := by omega
      simp [hi, hz, findFromLoop, npos]

theorem m_findFrom_eq {self : Obj} {a : Bytes} (h : Holds self a) (f : Nat) (hf : a.length < f)
    (hm : f < 18446744073709551616) (start : Nat) (ch : UInt8) :
    Gen.StrPrims.m_findFrom f self.buf start ch = findFrom self start ch := by
  simp only [Gen.StrPrims.m_findFrom, SStr.findFrom, m_size_ok h f hf hm, size_ok h]
  exact m_findFrom_loop_eq f self.buf start ch a.length (by omega) f start (by omega)

theorem m_find_eq {self : Obj} {a : Bytes} (h : Holds self a) (f : Nat) (hf : a.length < f)
    (hm : f < 18446744073709551616) (ch : UInt8) :
    Gen.StrPrims.m_find f self.buf ch = find self ch := by
  simp only [Gen.StrPrims.m_find, SStr.find, m_findFrom_eq h f hf hm]
  cases findFrom self 0 ch <;> rfl

end GenPrims
