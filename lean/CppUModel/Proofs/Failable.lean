import CppUModel.Spec.Failable
import CppUModel.Proofs.ListLemmas
/-! Helper lemmas for C15. -/
namespace Failable

/-! ### epoch -/

theorem run_append (s : State) (a b : List Op) : run s (a ++ b) = run (run s a) b := by
  simp [run, List.foldl_append]

theorem run_cons (s : State) (op : Op) (e : List Op) : run s (op :: e) = run (step s op) e := rfl

def epochAux (acc : List Op) (h : List Op) : List Op :=
  h.foldl (fun e op => if op = .clear then [] else e ++ [op]) acc

theorem epochAux_cons (acc : List Op) (op : Op) (h : List Op) :
    epochAux acc (op :: h) = epochAux (if op = .clear then [] else acc ++ [op]) h := rfl

theorem epoch_eq (h : List Op) : epoch h = epochAux [] h := rfl

theorem epoch_snoc (h : List Op) (op : Op) :
    epoch (h ++ [op]) = if op = .clear then [] else epoch h ++ [op] := by
  simp [epoch, List.foldl_append]

theorem epochAux_no_clear : ∀ (h acc : List Op), Op.clear ∉ acc → Op.clear ∉ epochAux acc h
  | [], acc, ha => ha
  | op :: h, acc, ha => by
    rw [epochAux_cons]
    apply epochAux_no_clear h
    split
    · simp
    · next hne =>
      intro hm
      rcases List.mem_append.mp hm with hm | hm
      · exact ha hm
      · simp at hm; exact hne hm.symm

/-- the epoch contains no `clear` -/
theorem epoch_no_clear (h : List Op) : Op.clear ∉ epoch h :=
  epochAux_no_clear h [] (by simp)

theorem epochAux_split : ∀ (h acc : List Op),
    (epochAux acc h = acc ++ h ∧ Op.clear ∉ h) ∨
    (∃ p, h = p ++ Op.clear :: epochAux acc h)
  | [], acc => by simp [epochAux]
  | op :: h, acc => by
    rw [epochAux_cons]
    by_cases hc : op = .clear
    · subst hc
      simp only [if_true]
      rcases epochAux_split h [] with ⟨h1, h2⟩ | ⟨p, hp⟩
      · right; refine ⟨[], ?_⟩; simp [h1]
      · right; refine ⟨Op.clear :: p, ?_⟩; simp; exact hp
    · simp only [hc, if_false]
      rcases epochAux_split h (acc ++ [op]) with ⟨h1, h2⟩ | ⟨p, hp⟩
      · left; refine ⟨by simp [h1], ?_⟩
        intro hm; simp at hm
        rcases hm with hm | hm
        · exact hc hm.symm
        · exact h2 hm
      · right; refine ⟨op :: p, ?_⟩; simp; exact hp

/-- the epoch is exactly what follows the last `clear` (or the whole history if there is none) -/
theorem epoch_spec (h : List Op) :
    (epoch h = h ∧ Op.clear ∉ h) ∨ (∃ p, h = p ++ Op.clear :: epoch h) := by
  have := epochAux_split h []
  simpa [epoch_eq] using this

/-! ### the walk -/

theorem walk_fired_ne_nil (cur : Nat) (f : String) (l : Nat) : ∀ (nodes : List Node),
    ((walk cur f l nodes).2.isEmpty = false) ↔ ∃ nd ∈ nodes, nd.fires cur f l = true
  | [] => by simp [walk]
  | nd :: rest => by
    have ih := walk_fired_ne_nil cur f l rest
    unfold walk
    by_cases hv : (nd.visit cur f l).2 = true
    · simp only [hv, if_true]
      simp [Node.fires, hv]
    · simp only [hv]
      simp only [Bool.false_eq_true, if_false]
      rw [ih]
      simp [Node.fires, hv]

theorem allocFails_iff (s : State) (f : String) (l : Nat) :
    allocFails s f l = true ↔ ∃ nd ∈ s.nodes, nd.fires (s.current + 1) f l = true := by
  unfold allocFails allocFired
  rw [← walk_fired_ne_nil]
  cases (walk (s.current + 1) f l s.nodes).2.isEmpty <;> simp

/-! ### counting -/

theorem allocs_nil : allocs [] = 0 := rfl
theorem allocsAt_nil (f : String) (l : Nat) : allocsAt f l [] = 0 := rfl

theorem allocs_cons (op : Op) (e : List Op) :
    allocs (op :: e) = allocs e + (if op.isAlloc then 1 else 0) := by
  simp [allocs, List.countP_cons]

theorem allocsAt_cons (f : String) (l : Nat) (op : Op) (e : List Op) :
    allocsAt f l (op :: e) = allocsAt f l e + (if op.isAllocAt f l then 1 else 0) := by
  simp [allocsAt, List.countP_cons]

theorem allocs_append (a b : List Op) : allocs (a ++ b) = allocs a + allocs b := by
  simp [allocs, List.countP_append]

theorem allocsAt_append (f : String) (l : Nat) (a b : List Op) :
    allocsAt f l (a ++ b) = allocsAt f l a + allocsAt f l b := by
  simp [allocsAt, List.countP_append]

/-! ### designated, recursively -/

theorem locDesignated_nil (f : String) (l : Nat) : ¬ LocDesignated [] f l := by
  rintro ⟨pre, n, post, h, _⟩
  cases pre <;> simp at h

theorem locDesignated_cons (op : Op) (e : List Op) (f : String) (l : Nat) :
    LocDesignated (op :: e) f l ↔
      (∃ n, op = .failAt n f l ∧ n = ((allocsAt f l e + 1 : Nat) : Int)) ∨ LocDesignated e f l := by
  constructor
  · rintro ⟨pre, n, post, h, hn⟩
    cases pre with
    | nil =>
      simp at h
      obtain ⟨rfl, rfl⟩ := h
      exact Or.inl ⟨n, rfl, hn⟩
    | cons a pre =>
      simp at h
      obtain ⟨rfl, rfl⟩ := h
      exact Or.inr ⟨pre, n, post, rfl, hn⟩
  · rintro (⟨n, rfl, hn⟩ | ⟨pre, n, post, rfl, hn⟩)
    · exact ⟨[], n, e, rfl, hn⟩
    · exact ⟨op :: pre, n, post, rfl, hn⟩

theorem locDesignatedB_iff (f : String) (l : Nat) : ∀ (e : List Op),
    locDesignatedB f l e = true ↔ LocDesignated e f l
  | [] => by simp [locDesignatedB, locDesignated_nil]
  | op :: e => by
    have ih := locDesignatedB_iff f l e
    rw [locDesignated_cons, ← ih]
    cases op <;> simp [locDesignatedB]
    constructor
    · rintro (⟨a, b, c⟩ | h)
      · exact Or.inl ⟨c, a, b⟩
      · exact Or.inr h
    · rintro (⟨c, a, b⟩ | h)
      · exact Or.inl ⟨a, b, c⟩
      · exact Or.inr h

/-! ### the generalised statement: which allocation fails after a clear-free piece of history,
from ANY start state -/

/-- node `nd` (as it is in a state with global counter `cur`) fires at the first allocation at
    `(f, l)` made after the clear-free piece `e` -/
def firesAfter (nd : Node) (cur : Nat) (e : List Op) (f : String) (l : Nat) : Prop :=
  match nd.file with
  | none => nd.number = ((cur + allocs e + 1 : Nat) : Int)
  | some f' => f' = f ∧ nd.line = l ∧ nd.number = ((nd.actual + allocsAt f l e + 1 : Nat) : Int)

theorem fires_iff_firesAfter_nil (nd : Node) (cur : Nat) (f : String) (l : Nat) :
    nd.fires (cur + 1) f l = true ↔ firesAfter nd cur [] f l := by
  unfold Node.fires Node.visit firesAfter
  cases hf : nd.file with
  | none => simp [allocs_nil]; omega
  | some f' =>
    simp only [allocsAt_nil]
    by_cases hc : f = f' ∧ l = nd.line
    · obtain ⟨rfl, rfl⟩ := hc
      simp; omega
    · simp only [hc, if_false]
      constructor
      · intro h; cases h
      · rintro ⟨rfl, rfl, _⟩; exact absurd ⟨rfl, rfl⟩ hc

theorem visit_fired_not_firesAfter (nd : Node) (cur : Nat) (f0 : String) (l0 : Nat)
    (e : List Op) (f : String) (l : Nat)
    (h : (nd.visit (cur + 1) f0 l0).2 = true) : ¬ firesAfter nd cur (.alloc f0 l0 :: e) f l := by
  unfold Node.visit at h
  unfold firesAfter
  cases hf : nd.file with
  | none =>
    simp only [hf] at h
    simp only [allocs_cons, Op.isAlloc, if_true]
    have : ((cur + 1 : Nat) : Int) = nd.number := by simpa using h
    omega
  | some f' =>
    simp only [hf] at h
    by_cases hc : f0 = f' ∧ l0 = nd.line
    · obtain ⟨rfl, rfl⟩ := hc
      simp only [and_self, if_true] at h
      have h' : ((nd.actual + 1 : Nat) : Int) = nd.number := by simpa using h
      rintro ⟨rfl, rfl, h2⟩
      simp only [allocsAt_cons, Op.isAllocAt, and_self, decide_true, if_true] at h2
      omega
    · simp [hc] at h

theorem visit_firesAfter (nd : Node) (cur : Nat) (f0 : String) (l0 : Nat)
    (e : List Op) (f : String) (l : Nat) :
    firesAfter (nd.visit (cur + 1) f0 l0).1 (cur + 1) e f l ↔
      firesAfter nd cur (.alloc f0 l0 :: e) f l := by
  unfold Node.visit
  cases hf : nd.file with
  | none =>
    simp only [firesAfter, hf, allocs_cons, Op.isAlloc, if_true]
    constructor <;> intro h <;> omega
  | some f' =>
    simp only
    by_cases hc : f0 = f' ∧ l0 = nd.line
    · obtain ⟨rfl, rfl⟩ := hc
      simp only [and_self, if_true, firesAfter, hf, allocsAt_cons, Op.isAllocAt]
      constructor
      · rintro ⟨rfl, rfl, h⟩
        refine ⟨rfl, rfl, ?_⟩
        simp only [and_self, decide_true, if_true]; omega
      · rintro ⟨rfl, rfl, h⟩
        refine ⟨rfl, rfl, ?_⟩
        simp only [and_self, decide_true, if_true] at h; omega
    · simp only [hc, if_false, firesAfter, hf, allocsAt_cons, Op.isAllocAt]
      constructor
      · rintro ⟨rfl, rfl, h⟩
        refine ⟨rfl, rfl, ?_⟩
        simp only [hc, decide_false]; simpa using h
      · rintro ⟨rfl, rfl, h⟩
        refine ⟨rfl, rfl, ?_⟩
        simp only [hc, decide_false] at h; simpa using h

theorem walk_kept_firesAfter (cur : Nat) (f0 : String) (l0 : Nat) (e : List Op) (f : String) (l : Nat) :
    ∀ (nodes : List Node),
    (∃ nd ∈ (walk (cur + 1) f0 l0 nodes).1, firesAfter nd (cur + 1) e f l) ↔
      ∃ nd ∈ nodes, firesAfter nd cur (.alloc f0 l0 :: e) f l
  | [] => by simp [walk]
  | nd :: rest => by
    have ih := walk_kept_firesAfter cur f0 l0 e f l rest
    unfold walk
    by_cases hv : (nd.visit (cur + 1) f0 l0).2 = true
    · simp only [hv, if_true]
      rw [ih]
      have := visit_fired_not_firesAfter nd cur f0 l0 e f l hv
      simp [this]
    · simp only [hv]
      simp only [Bool.false_eq_true, if_false, List.mem_cons, exists_eq_or_imp]
      rw [ih, visit_firesAfter]

theorem allocFails_run_iff (f : String) (l : Nat) : ∀ (e : List Op) (s : State), Op.clear ∉ e →
    (allocFails (run s e) f l = true ↔
      (∃ nd ∈ s.nodes, firesAfter nd s.current e f l) ∨
      Op.failNum ((s.current + allocs e + 1 : Nat) : Int) ∈ e ∨ LocDesignated e f l)
  | [], s, _ => by
    simp only [run, List.foldl_nil, allocFails_iff, fires_iff_firesAfter_nil]
    simp [locDesignated_nil]
  | op :: e, s, hc => by
    have hc' : Op.clear ∉ e := fun h => hc (List.mem_cons_of_mem _ h)
    rw [run_cons, allocFails_run_iff f l e (step s op) hc', locDesignated_cons]
    cases op with
    | clear => exact absurd (List.mem_cons_self) hc
    | check =>
      simp [step, allocs_cons, Op.isAlloc, firesAfter, allocsAt_cons, Op.isAllocAt]
    | failNum n =>
      simp only [step, failAllocNumber, List.mem_cons, exists_eq_or_imp, allocs_cons, Op.isAlloc]
      simp only [firesAfter, allocsAt_cons, Op.isAllocAt]
      simp
      constructor
      · rintro ((h | h) | h | h)
        · exact Or.inr (Or.inl (Or.inl h.symm))
        · exact Or.inl h
        · exact Or.inr (Or.inl (Or.inr h))
        · exact Or.inr (Or.inr h)
      · rintro (h | (h | h) | h)
        · exact Or.inl (Or.inr h)
        · exact Or.inl (Or.inl h.symm)
        · exact Or.inr (Or.inl h)
        · exact Or.inr (Or.inr h)
    | failAt n f' l' =>
      simp only [step, failNthAllocAt, List.mem_cons, exists_eq_or_imp, allocs_cons, Op.isAlloc]
      simp only [firesAfter, allocsAt_cons, Op.isAllocAt]
      simp
      constructor
      · rintro ((⟨a, b, c⟩ | h) | h | h)
        · subst a; subst b; exact Or.inr (Or.inr (Or.inl ⟨c, rfl, rfl⟩))
        · exact Or.inl h
        · exact Or.inr (Or.inl h)
        · exact Or.inr (Or.inr (Or.inr h))
      · rintro (h | h | ⟨c, a, b⟩ | h)
        · exact Or.inl (Or.inr h)
        · exact Or.inr (Or.inl h)
        · subst a; subst b; exact Or.inl (Or.inl ⟨rfl, rfl, c⟩)
        · exact Or.inr (Or.inr h)
    | alloc f0 l0 =>
      simp only [step, allocState]
      rw [walk_kept_firesAfter]
      simp only [allocs_cons, Op.isAlloc, if_true, List.mem_cons]
      have e1 : s.current + 1 + allocs e + 1 = s.current + (allocs e + 1) + 1 := by omega
      rw [e1]
      simp


/-! ### the linked list after a clear-free piece of history = the designations that have not fired -/

def firedLoc (a : Nat) (n : Int) (k : Nat) : Bool := decide (((a : Nat) : Int) < n ∧ n ≤ ((a + k : Nat) : Int))

def advance (cur : Nat) (e : List Op) (nd : Node) : Option Node :=
  match nd.file with
  | none => if firedNum cur nd.number e then none else some nd
  | some f =>
    if firedLoc nd.actual nd.number (allocsAt f nd.line e) then none
    else some { nd with actual := nd.actual + allocsAt f nd.line e }

theorem advance_nil (cur : Nat) (nd : Node) : advance cur [] nd = some nd := by
  rcases nd with ⟨id, number, actual, file, line⟩
  cases file with
  | none =>
    have : firedNum cur number [] = false := by
      unfold firedNum; rw [decide_eq_false_iff_not]; simp only [allocs_nil]; omega
    simp [advance, this]
  | some f =>
    have : firedLoc actual number 0 = false := by
      unfold firedLoc; rw [decide_eq_false_iff_not]; omega
    simp [advance, allocsAt_nil, this]

theorem filterMap_advance_nil (cur : Nat) (nodes : List Node) :
    nodes.filterMap (advance cur []) = nodes := by
  induction nodes with
  | nil => rfl
  | cons nd rest ih => simp [advance_nil, ih]

theorem advance_cons_other (cur : Nat) (op : Op) (e : List Op) (nd : Node) (h : op.isAlloc = false) :
    advance cur (op :: e) nd = advance cur e nd := by
  have h2 : ∀ f l, op.isAllocAt f l = false := by
    intro f l; cases op <;> simp_all [Op.isAlloc, Op.isAllocAt]
  rcases nd with ⟨id, number, actual, file, line⟩
  cases file with
  | none => simp [advance, firedNum, allocs_cons, h]
  | some f => simp [advance, allocsAt_cons, h2]

theorem advance_alloc_fired (nd : Node) (cur : Nat) (f0 : String) (l0 : Nat) (e : List Op)
    (h : (nd.visit (cur + 1) f0 l0).2 = true) : advance cur (.alloc f0 l0 :: e) nd = none := by
  rcases nd with ⟨id, number, actual, file, line⟩
  cases file with
  | none =>
    have h1 : ((cur + 1 : Nat) : Int) = number := by simpa [Node.visit] using h
    have : firedNum cur number (Op.alloc f0 l0 :: e) = true := by
      simp only [firedNum, allocs_cons, Op.isAlloc, if_true, decide_eq_true_eq]; omega
    simp [advance, this]
  | some f' =>
    by_cases hc : f0 = f' ∧ l0 = line
    · obtain ⟨rfl, rfl⟩ := hc
      have h1 : ((actual + 1 : Nat) : Int) = number := by simpa [Node.visit] using h
      have : firedLoc actual number (allocsAt f0 l0 (Op.alloc f0 l0 :: e)) = true := by
        simp only [firedLoc, allocsAt_cons, Op.isAllocAt, and_self, decide_true, if_true, decide_eq_true_eq]; omega
      simp [advance, this]
    · simp [Node.visit, hc] at h

theorem advance_alloc_kept (nd : Node) (cur : Nat) (f0 : String) (l0 : Nat) (e : List Op)
    (h : (nd.visit (cur + 1) f0 l0).2 = false) :
    advance (cur + 1) e (nd.visit (cur + 1) f0 l0).1 = advance cur (.alloc f0 l0 :: e) nd := by
  rcases nd with ⟨id, number, actual, file, line⟩
  cases file with
  | none =>
    have hne : ¬ ((cur + 1 : Nat) : Int) = number := by simpa [Node.visit] using h
    have : firedNum (cur + 1) number e = firedNum cur number (Op.alloc f0 l0 :: e) := by
      rw [Bool.eq_iff_iff]
      simp only [firedNum, allocs_cons, Op.isAlloc, if_true, decide_eq_true_eq]; omega
    simp [advance, Node.visit, this]
  | some f' =>
    by_cases hc : f0 = f' ∧ l0 = line
    · obtain ⟨rfl, rfl⟩ := hc
      have hne : ¬ ((actual + 1 : Nat) : Int) = number := by simpa [Node.visit] using h
      have h1 : allocsAt f0 l0 (Op.alloc f0 l0 :: e) = allocsAt f0 l0 e + 1 := by
        simp [allocsAt_cons, Op.isAllocAt]
      have : firedLoc (actual + 1) number (allocsAt f0 l0 e) = firedLoc actual number (allocsAt f0 l0 e + 1) := by
        rw [Bool.eq_iff_iff]
        simp only [firedLoc, decide_eq_true_eq]; omega
      simp only [advance, Node.visit, and_self, if_true, h1, this]
      split
      · rfl
      · congr 2; omega
    · have h1 : allocsAt f' line (Op.alloc f0 l0 :: e) = allocsAt f' line e := by
        simp [allocsAt_cons, Op.isAllocAt, hc]
      simp [advance, Node.visit, hc, h1]

theorem walk_kept_advance (cur : Nat) (f0 : String) (l0 : Nat) (e : List Op) : ∀ (nodes : List Node),
    (walk (cur + 1) f0 l0 nodes).1.filterMap (advance (cur + 1) e) =
      nodes.filterMap (advance cur (.alloc f0 l0 :: e))
  | [] => by simp [walk]
  | nd :: rest => by
    have ih := walk_kept_advance cur f0 l0 e rest
    unfold walk
    by_cases hv : (nd.visit (cur + 1) f0 l0).2 = true
    · simp only [hv, if_true, List.filterMap_cons, advance_alloc_fired nd cur f0 l0 e hv, ih]
    · have hv' : (nd.visit (cur + 1) f0 l0).2 = false := by simpa using hv
      simp only [hv', Bool.false_eq_true, if_false, List.filterMap_cons,
        advance_alloc_kept nd cur f0 l0 e hv', ih]

theorem filterMap_congr' {α β} (f g : α → Option β) (l : List α) (h : ∀ a, f a = g a) :
    l.filterMap f = l.filterMap g := by
  have : f = g := funext h
  rw [this]

theorem nodes_run (e : List Op) : ∀ (s : State), Op.clear ∉ e →
    (run s e).nodes.map Node.desig =
      (unfiredFrom s.current e).reverse ++ (s.nodes.filterMap (advance s.current e)).map Node.desig := by
  induction e with
  | nil => intro s _; simp [run, unfiredFrom, filterMap_advance_nil]
  | cons op e ih =>
    intro s hc
    have hc' : Op.clear ∉ e := fun h => hc (List.mem_cons_of_mem _ h)
    rw [run_cons, ih (step s op) hc']
    cases op with
    | clear => exact absurd (List.mem_cons_self) hc
    | check =>
      simp only [step, unfiredFrom]
      rw [filterMap_congr' _ _ _ (fun nd => advance_cons_other s.current Op.check e nd rfl)]
    | failNum n =>
      simp only [step, failAllocNumber, unfiredFrom, List.filterMap_cons, List.reverse_append]
      rw [filterMap_congr' _ _ _ (fun nd => advance_cons_other s.current (Op.failNum n) e nd rfl)]
      simp only [advance]
      by_cases hfi : firedNum s.current n e = true
      · simp [hfi]
      · simp [hfi, Node.desig]
    | failAt n f l =>
      simp only [step, failNthAllocAt, unfiredFrom, List.filterMap_cons, List.reverse_append]
      rw [filterMap_congr' _ _ _ (fun nd => advance_cons_other s.current (Op.failAt n f l) e nd rfl)]
      have hb : firedLoc 0 n (allocsAt f l e) = firedAt n f l e := by
        rw [Bool.eq_iff_iff]; simp only [firedLoc, firedAt, decide_eq_true_eq]; omega
      simp only [advance, hb]
      by_cases hfi : firedAt n f l e = true
      · simp [hfi]
      · simp [hfi, Node.desig]
    | alloc f0 l0 =>
      simp only [step, allocState, unfiredFrom]
      rw [walk_kept_advance]

/-- a run from the constructor equals a run of the epoch from a state with an empty list and
    global counter 0 (only the ghost id counter may differ) -/
theorem run_init_epoch (h : List Op) :
    ∃ s0 : State, s0.nodes = [] ∧ s0.current = 0 ∧ run init h = run s0 (epoch h) := by
  rcases epoch_spec h with ⟨h1, _⟩ | ⟨p, hp⟩
  · exact ⟨init, rfl, rfl, by rw [h1]⟩
  · refine ⟨clear (run init p), rfl, rfl, ?_⟩
    conv => lhs; rw [hp]
    rw [run_append, run_cons]; rfl

/-! ### conservation of designations (ghost ids) -/

theorem visit_id (nd : Node) (cur : Nat) (f : String) (l : Nat) : (nd.visit cur f l).1.id = nd.id := by
  rcases nd with ⟨id, number, actual, file, line⟩
  cases file with
  | none => simp [Node.visit]
  | some f' => simp only [Node.visit]; split <;> rfl

theorem walk_ids_perm (cur : Nat) (f : String) (l : Nat) : ∀ (nodes : List Node),
    (((walk cur f l nodes).1.map (·.id)) ++ ((walk cur f l nodes).2.map (·.id))).Perm (nodes.map (·.id))
  | [] => by simp [walk]
  | nd :: rest => by
    have ih := walk_ids_perm cur f l rest
    have hid := visit_id nd cur f l
    unfold walk
    apply ListLemmas.perm_of_count; intro x
    have := ih.count_eq x
    split <;> simp [List.count_append, List.count_cons, hid] at this ⊢ <;> omega

theorem nextId_mono_step (s : State) (op : Op) : s.nextId ≤ (step s op).nextId := by
  cases op <;> simp [step, failAllocNumber, failNthAllocAt, allocState, clear]

theorem nextId_mono : ∀ (h : List Op) (s : State), s.nextId ≤ (run s h).nextId
  | [], _ => Nat.le_refl _
  | op :: h, s => by
    rw [run_cons]
    exact Nat.le_trans (nextId_mono_step s op) (nextId_mono h _)

theorem range'_count_split (a n : Nat) (x : Nat) (h : 1 ≤ n) :
    (List.range' a n).count x = (if a = x then 1 else 0) + (List.range' (a + 1) (n - 1)).count x := by
  obtain ⟨m, rfl⟩ : ∃ m, n = m + 1 := ⟨n - 1, by omega⟩
  simp [List.range'_succ, List.count_cons]
  omega

theorem conservation : ∀ (h : List Op) (s : State),
    (((run s h).nodes.map (·.id)) ++ firedIds s h ++ clearedIds s h).Perm
      (s.nodes.map (·.id) ++ List.range' s.nextId ((run s h).nextId - s.nextId))
  | [], s => by simp [run, firedIds, clearedIds]
  | op :: h, s => by
    have ih := conservation h (step s op)
    have hm := nextId_mono h (step s op)
    rw [run_cons]
    apply ListLemmas.perm_of_count; intro x
    have ihc := ih.count_eq x
    cases op with
    | check =>
      simp only [firedIds, clearedIds, step] at ihc ⊢
      exact ihc
    | failNum n =>
      simp only [firedIds, clearedIds] at ihc ⊢
      have h1 : (step s (Op.failNum n)).nextId = s.nextId + 1 := rfl
      have h2 : (step s (Op.failNum n)).nodes.map (·.id) = s.nextId :: s.nodes.map (·.id) := rfl
      rw [h1] at hm ihc
      rw [h2] at ihc
      have hr := range'_count_split s.nextId ((run (step s (Op.failNum n)) h).nextId - s.nextId) x (by omega)
      have e1 : (run (step s (Op.failNum n)) h).nextId - s.nextId - 1 =
          (run (step s (Op.failNum n)) h).nextId - (s.nextId + 1) := by omega
      rw [e1] at hr
      simp only [List.count_append, List.count_cons] at ihc ⊢
      simp only [beq_iff_eq] at ihc
      omega
    | failAt n f l =>
      simp only [firedIds, clearedIds] at ihc ⊢
      have h1 : (step s (Op.failAt n f l)).nextId = s.nextId + 1 := rfl
      have h2 : (step s (Op.failAt n f l)).nodes.map (·.id) = s.nextId :: s.nodes.map (·.id) := rfl
      rw [h1] at hm ihc
      rw [h2] at ihc
      have hr := range'_count_split s.nextId ((run (step s (Op.failAt n f l)) h).nextId - s.nextId) x (by omega)
      have e1 : (run (step s (Op.failAt n f l)) h).nextId - s.nextId - 1 =
          (run (step s (Op.failAt n f l)) h).nextId - (s.nextId + 1) := by omega
      rw [e1] at hr
      simp only [List.count_append, List.count_cons] at ihc ⊢
      simp only [beq_iff_eq] at ihc
      omega
    | alloc f l =>
      simp only [firedIds, clearedIds] at ihc ⊢
      have hw := (walk_ids_perm (s.current + 1) f l s.nodes).count_eq x
      have h1 : (step s (Op.alloc f l)).nextId = s.nextId := rfl
      have h2 : (step s (Op.alloc f l)).nodes = (walk (s.current + 1) f l s.nodes).1 := rfl
      have h3 : allocState s f l = step s (Op.alloc f l) := rfl
      rw [h1, h2] at ihc
      rw [h3]
      simp only [allocFired, List.count_append] at ihc hw ⊢
      omega
    | clear =>
      simp only [firedIds, clearedIds] at ihc ⊢
      have h1 : (step s Op.clear).nextId = s.nextId := rfl
      have h2 : (step s Op.clear).nodes = [] := rfl
      have h3 : clear s = step s Op.clear := rfl
      rw [h1, h2] at ihc
      rw [h3]
      simp only [clearFreed, List.count_append, List.map_nil, List.count_nil] at ihc ⊢
      omega

theorem firedNum_iff (b : Nat) (n : Int) (post : List Op) :
    firedNum b n post = true ↔ ((b : Int) < n ∧ n ≤ ((b + allocs post : Nat) : Int)) := by
  unfold firedNum; exact decide_eq_true_iff

theorem firedAt_iff (n : Int) (f : String) (l : Nat) (post : List Op) :
    firedAt n f l post = true ↔ (1 ≤ n ∧ n ≤ ((allocsAt f l post : Nat) : Int)) := by
  unfold firedAt; exact decide_eq_true_iff

/-! ### C level -/
open Gen.Failable

theorem countdown_idle (c : CState) (h : c.counter ≤ -1) : countdown c = c := by
  unfold countdown; rw [if_pos (by simpa [noCountdown] using h)]

theorem countdown_zero (c : CState) (h : c.counter = 0) : countdown c = c := by
  unfold countdown
  rw [if_neg (by simp [noCountdown]; omega), if_pos (by simpa [outOfMemory] using h)]

theorem countdown_one (c : CState) (h : c.counter = 1) :
    countdown c = setOutOfMemory { c with counter := 0 } := by
  unfold countdown
  rw [if_neg (by simp [noCountdown]; omega), if_neg (by simp [outOfMemory]; omega),
    if_pos (by simp [outOfMemory]; omega)]
  simp [h]

theorem countdown_big (c : CState) (h : 2 ≤ c.counter) :
    countdown c = { c with counter := c.counter - 1 } := by
  unfold countdown
  rw [if_neg (by simp [noCountdown]; omega), if_neg (by simp [outOfMemory]; omega),
    if_neg (by simp [outOfMemory]; omega)]

/-! ### moved from Props: helper lemmas -/

theorem check_eq (s : State) :
    check s = match (s.nodes.map Node.desig).head? with
      | none => .ok
      | some d => reportOf d := by
  unfold check
  cases hn : s.nodes with
  | nil => rfl
  | cons nd rest =>
    rcases nd with ⟨id, number, actual, file, line⟩
    cases file <;> simp [Node.desig, reportOf]

theorem reportOf_designation_ne_ok (d : Op) (hd : d.isDesignation = true) : reportOf d ≠ .ok := by
  cases d <;> simp_all [reportOf, Op.isDesignation]

theorem unfiredFrom_designations (b : Nat) (e : List Op) :
    ∀ d ∈ unfiredFrom b e, d.isDesignation = true ∧ d ∈ e := by
  induction e generalizing b with
  | nil => simp [unfiredFrom]
  | cons op e ih =>
    intro d hd
    cases op with
    | failNum n =>
      simp only [unfiredFrom, List.mem_append] at hd
      rcases hd with hd | hd
      · split at hd
        · cases hd
        · simp at hd; subst hd; simp [Op.isDesignation]
      · exact ⟨(ih b d hd).1, List.mem_cons_of_mem _ (ih b d hd).2⟩
    | failAt n f l =>
      simp only [unfiredFrom, List.mem_append] at hd
      rcases hd with hd | hd
      · split at hd
        · cases hd
        · simp at hd; subst hd; simp [Op.isDesignation]
      · exact ⟨(ih b d hd).1, List.mem_cons_of_mem _ (ih b d hd).2⟩
    | alloc f l =>
      simp only [unfiredFrom] at hd
      exact ⟨(ih (b + 1) d hd).1, List.mem_cons_of_mem _ (ih (b + 1) d hd).2⟩
    | check =>
      simp only [unfiredFrom] at hd
      exact ⟨(ih b d hd).1, List.mem_cons_of_mem _ (ih b d hd).2⟩
    | clear =>
      simp only [unfiredFrom] at hd
      exact ⟨(ih b d hd).1, List.mem_cons_of_mem _ (ih b d hd).2⟩

theorem afterMallocs_countdown_state (n : Int) : ∀ (k : Nat),
    (n < 0 → (afterMallocs (setCountdown cinit n) k).counter = n ∧
              (afterMallocs (setCountdown cinit n) k).cur = .normal) ∧
    (0 ≤ n → (k : Int) < n → (afterMallocs (setCountdown cinit n) k).counter = n - k ∧
              (afterMallocs (setCountdown cinit n) k).cur = .normal) ∧
    (0 ≤ n → n ≤ (k : Int) → (afterMallocs (setCountdown cinit n) k).counter = 0 ∧
              (afterMallocs (setCountdown cinit n) k).cur = .null)
  | 0 => by
    by_cases h0 : n = 0
    · subst h0
      refine ⟨fun h => by omega, fun _ h => by omega, fun _ _ => ?_⟩
      simp [afterMallocs, setCountdown, cinit, outOfMemory, setOutOfMemory]
    · have hs : setCountdown cinit n = { cinit with counter := n } := by
        simp [setCountdown, outOfMemory, h0]
      refine ⟨fun _ => ?_, fun _ _ => ?_, fun h1 h2 => by omega⟩ <;>
        (simp only [afterMallocs]; rw [hs]; exact ⟨by simp, rfl⟩)
  | k + 1 => by
    obtain ⟨i1, i2, i3⟩ := afterMallocs_countdown_state n k
    simp only [afterMallocs, mallocState]
    generalize afterMallocs (setCountdown cinit n) k = c at i1 i2 i3 ⊢
    refine ⟨?_, ?_, ?_⟩
    · intro h
      obtain ⟨a, b⟩ := i1 h
      rw [countdown_idle c (by omega)]
      exact ⟨a, b⟩
    · intro h1 h2
      obtain ⟨a, b⟩ := i2 h1 (by omega)
      rw [countdown_big c (by omega)]
      refine ⟨?_, b⟩
      simp only [a]; omega
    · intro h1 h2
      by_cases hk : n ≤ (k : Int)
      · obtain ⟨a, b⟩ := i3 h1 hk
        rw [countdown_zero c a]
        exact ⟨a, b⟩
      · obtain ⟨a, b⟩ := i2 h1 (by omega)
        rw [countdown_one c (by omega)]
        exact ⟨rfl, rfl⟩

theorem cinv_setOutOfMemory (c : CState) (h : CInv c) : CInv (setOutOfMemory c) := by
  rcases h with ⟨a, b⟩ | ⟨a, b⟩ <;> right <;> simp [setOutOfMemory, a, b]

theorem cinv_counter (c : CState) (n : Int) (h : CInv c) : CInv { c with counter := n } := h

theorem cinv_countdown (c : CState) (h : CInv c) : CInv (countdown c) := by
  unfold countdown
  split
  · exact h
  · split
    · exact h
    · split
      · exact cinv_setOutOfMemory _ h
      · exact h

theorem cinv_mallocState (c : CState) (h : CInv c) : CInv (mallocState c) := cinv_countdown c h

theorem cinv_step (c : CState) (op : COp) (h : CInv c) : CInv (cstep c op) := by
  cases op with
  | setCountdown n =>
    simp only [cstep, setCountdown]
    split
    · exact cinv_setOutOfMemory _ h
    · exact h
  | setOOM => exact cinv_setOutOfMemory c h
  | setNotOOM =>
    rcases h with ⟨a, b⟩ | ⟨a, b⟩ <;> left <;> simp [cstep, setNotOutOfMemory, a]
  | malloc => exact cinv_mallocState c h
  | strdup s => exact cinv_mallocState c h
  | strndup s n => exact cinv_mallocState c h
  | calloc a b =>
    simp only [cstep, calloc]
    split
    · exact h
    · exact cinv_mallocState c h
  | countReset => exact h
  | realloc _ => exact h
  | free => exact h

theorem cinv_run : ∀ (ops : List COp) (c : CState), CInv c → CInv (crun c ops)
  | [], _, h => h
  | op :: ops, c, h => cinv_run ops (cstep c op) (cinv_step c op h)

theorem afterMallocs_idle (c : CState) (h1 : c.counter = noCountdown) (h2 : c.cur = .normal) :
    ∀ j, (afterMallocs c j).counter = noCountdown ∧ (afterMallocs c j).cur = .normal
  | 0 => ⟨h1, h2⟩
  | j + 1 => by
    obtain ⟨a, b⟩ := afterMallocs_idle c h1 h2 j
    simp only [afterMallocs, mallocState]
    rw [countdown_idle _ (by rw [a]; simp [noCountdown])]
    exact ⟨a, b⟩

theorem countdown_count (c : CState) : (countdown c).count = c.count := by
  unfold countdown
  split
  · rfl
  · split
    · rfl
    · split <;> rfl

/-- `countdown()` does not read `malloc_count`: the two statements of `cpputest_malloc_location` commute -/
theorem countdown_count_comm (c : CState) (k : Nat) :
    countdown { c with count := k } = { countdown c with count := k } := by
  unfold countdown setOutOfMemory
  simp only []
  split
  · rfl
  · split
    · rfl
    · split <;> rfl

theorem cstep_count (c : CState) (op : COp) :
    (cstep c op).count =
      match op with
      | .countReset => 0
      | op => if op.allocating then c.count + 1 else c.count := by
  cases op with
  | setCountdown n => simp only [cstep, setCountdown, COp.allocating]; split <;> rfl
  | setOOM => rfl
  | setNotOOM => rfl
  | malloc => simp [cstep, mallocState, countdown_count, COp.allocating]
  | strdup s => simp [cstep, strdup, mallocState, countdown_count, COp.allocating]
  | strndup s n => simp [cstep, strndup, mallocState, countdown_count, COp.allocating]
  | calloc a b =>
    simp only [cstep, calloc, COp.allocating]
    by_cases h : callocOverflows a b = true
    · simp [h]
    · simp [h, mallocState, countdown_count]
  | countReset => rfl
  | realloc e => rfl
  | free => rfl

end Failable

namespace Failable
open Gen.Failable

/-- the countdown on top of ANY installed allocator `a`: the counter runs down, `a` stays current until the
    countdown expires, then the null allocator is current and `a` is the saved one -/
theorem afterMallocs_countdown_state_over (a : Alloc) (n : Int) : ∀ (k : Nat),
    (n < 0 → (afterMallocs (setCountdown { cinit with cur := a } n) k).counter = n ∧
              (afterMallocs (setCountdown { cinit with cur := a } n) k).cur = a ∧
              (afterMallocs (setCountdown { cinit with cur := a } n) k).orig = none) ∧
    (0 ≤ n → (k : Int) < n → (afterMallocs (setCountdown { cinit with cur := a } n) k).counter = n - k ∧
              (afterMallocs (setCountdown { cinit with cur := a } n) k).cur = a ∧
              (afterMallocs (setCountdown { cinit with cur := a } n) k).orig = none) ∧
    (0 ≤ n → n ≤ (k : Int) → (afterMallocs (setCountdown { cinit with cur := a } n) k).counter = 0 ∧
              (afterMallocs (setCountdown { cinit with cur := a } n) k).cur = .null ∧
              (afterMallocs (setCountdown { cinit with cur := a } n) k).orig = some a)
  | 0 => by
    by_cases h0 : n = 0
    · subst h0
      refine ⟨fun h => by omega, fun _ h => by omega, fun _ _ => ?_⟩
      simp [afterMallocs, setCountdown, cinit, outOfMemory, setOutOfMemory]
    · have hs : setCountdown { cinit with cur := a } n = { cinit with cur := a, counter := n } := by
        simp [setCountdown, outOfMemory, h0]
      refine ⟨fun _ => ?_, fun _ _ => ?_, fun h1 h2 => by omega⟩ <;>
        (simp only [afterMallocs]; rw [hs]; exact ⟨by simp, rfl, rfl⟩)
  | k + 1 => by
    obtain ⟨i1, i2, i3⟩ := afterMallocs_countdown_state_over a n k
    simp only [afterMallocs, mallocState]
    generalize afterMallocs (setCountdown { cinit with cur := a } n) k = c at i1 i2 i3 ⊢
    refine ⟨?_, ?_, ?_⟩
    · intro h
      obtain ⟨x, y, z⟩ := i1 h
      rw [countdown_idle c (by omega)]
      exact ⟨x, y, z⟩
    · intro h1 h2
      obtain ⟨x, y, z⟩ := i2 h1 (by omega)
      rw [countdown_big c (by omega)]
      refine ⟨?_, y, z⟩
      simp only [x]; omega
    · intro h1 h2
      by_cases hk : n ≤ (k : Int)
      · obtain ⟨x, y, z⟩ := i3 h1 hk
        rw [countdown_zero c x]
        exact ⟨x, y, z⟩
      · obtain ⟨x, y, z⟩ := i2 h1 (by omega)
        rw [countdown_one c (by omega)]
        simp [setOutOfMemory, y, z]

end Failable
