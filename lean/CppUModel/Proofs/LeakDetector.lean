import CppUModel.Spec.LeakDetector
import CppUModel.Proofs.ListLemmas
/-! Helper lemmas for the C04 / C06 theorems: the model's loops as list functions, the table as its flat
list of records, invariant preservation, lookups after every table operation, the three pointer-chasing loops. -/
namespace LeakDetector
open Gen.LeakDetector (Period)

/-! ## one bucket -/
namespace Bucket

theorem retrieveNode_eq_find (b : Bucket) (a : Nat) :
    retrieveNode b a = b.find? (fun n => n.addr == a) := by
  induction b with
  | nil => rfl
  | cons n rest ih =>
    simp only [retrieveNode, List.find?_cons]
    by_cases h : n.addr = a
    · simp [h]
    · have hb : (n.addr == a) = false := by simp [h]
      simp [h, hb, ih]

theorem unlinkNode_eq_eraseP (b : Bucket) (a : Nat) :
    unlinkNode b a = b.eraseP (fun n => n.addr == a) := by
  induction b with
  | nil => rfl
  | cons n rest ih =>
    simp only [unlinkNode, List.eraseP_cons]
    by_cases h : n.addr = a
    · simp [h]
    · have hb : (n.addr == a) = false := by simp [h]
      simp [h, hb, ih]

theorem clear_eq_filter (p : Period) (b : Bucket) :
    clearAllAccounting p b = b.filter (fun n => !isInPeriod p n) := by
  induction b with
  | nil => rfl
  | cons n rest ih =>
    simp only [clearAllAccounting, List.filter_cons]
    by_cases h : isInPeriod p n = true
    · simp [h, ih]
    · simp [h, ih]

theorem getLeakFrom_eq_find (q : Node → Bool) (b : Bucket) : getLeakFrom q b = b.find? q := by
  induction b with
  | nil => rfl
  | cons n rest ih =>
    simp only [getLeakFrom, List.find?_cons]
    by_cases h : q n = true
    · simp [h]
    · simp [h, ih]

theorem getTotalLeaks_eq_countP (p : Period) (b : Bucket) :
    getTotalLeaks p b = b.countP (isInPeriod p) := by
  induction b with
  | nil => rfl
  | cons n rest ih =>
    simp only [getTotalLeaks, List.countP_cons, ih]
    by_cases h : isInPeriod p n = true <;> simp [h] <;> omega


/-! lists with a foreign prefix / suffix (records of other buckets) -/

theorem find_mid {P : Node → Bool} (pre b post : List Node)
    (h1 : ∀ n ∈ pre, P n = false) (h2 : ∀ n ∈ post, P n = false) :
    (pre ++ (b ++ post)).find? P = b.find? P := by
  have e1 : pre.find? P = none := by simp only [List.find?_eq_none]; intro x hx; simp [h1 x hx]
  have e2 : post.find? P = none := by simp only [List.find?_eq_none]; intro x hx; simp [h2 x hx]
  simp [List.find?_append, e1, e2]

theorem eraseP_suffix {P : Node → Bool} (b post : List Node) (h2 : ∀ n ∈ post, P n = false) :
    (b ++ post).eraseP P = b.eraseP P ++ post := by
  induction b with
  | nil => simpa using List.eraseP_of_forall_not (by simpa using h2)
  | cons x xs ih =>
    by_cases hx : P x = true
    · simp [hx]
    · simp [hx, ih]

theorem eraseP_mid {P : Node → Bool} (pre b post : List Node)
    (h1 : ∀ n ∈ pre, P n = false) (h2 : ∀ n ∈ post, P n = false) :
    (pre ++ (b ++ post)).eraseP P = pre ++ (b.eraseP P ++ post) := by
  rw [List.eraseP_append_right _ (by simpa using h1), eraseP_suffix b post h2]

theorem nextOf_prefix (pre l : List Node) (a : Nat) (h1 : ∀ n ∈ pre, n.addr ≠ a) :
    nextOf (pre ++ l) a = nextOf l a := by
  induction pre with
  | nil => rfl
  | cons x xs ih =>
    have hx : x.addr ≠ a := h1 x (by simp)
    simp only [List.cons_append, nextOf, hx, if_false]
    exact ih (fun n hn => h1 n (by simp [hn]))

theorem nextOf_suffix (b post : List Node) (a : Nat) (h : ∃ n ∈ b, n.addr = a) :
    nextOf (b ++ post) a = nextOf b a ++ post := by
  induction b with
  | nil => simp at h
  | cons x xs ih =>
    by_cases hx : x.addr = a
    · simp [nextOf, hx]
    · simp only [List.cons_append, nextOf, hx, if_false]
      apply ih
      obtain ⟨n, hn, hna⟩ := h
      simp only [List.mem_cons] at hn
      rcases hn with rfl | hn
      · exact absurd hna hx
      · exact ⟨n, hn, hna⟩

theorem modifyNode_none (f : Node → Node) (l : List Node) (a : Nat) (h : ∀ n ∈ l, n.addr ≠ a) :
    modifyNode f l a = l := by
  induction l with
  | nil => rfl
  | cons x xs ih =>
    have hx : x.addr ≠ a := h x (by simp)
    simp only [modifyNode, hx, if_false]
    rw [ih (fun n hn => h n (by simp [hn]))]

theorem modifyNode_prefix (f : Node → Node) (pre l : List Node) (a : Nat) (h1 : ∀ n ∈ pre, n.addr ≠ a) :
    modifyNode f (pre ++ l) a = pre ++ modifyNode f l a := by
  induction pre with
  | nil => rfl
  | cons x xs ih =>
    have hx : x.addr ≠ a := h1 x (by simp)
    simp only [List.cons_append, modifyNode, hx, if_false]
    rw [ih (fun n hn => h1 n (by simp [hn]))]

theorem modifyNode_suffix (f : Node → Node) (b post : List Node) (a : Nat) (h2 : ∀ n ∈ post, n.addr ≠ a) :
    modifyNode f (b ++ post) a = modifyNode f b a ++ post := by
  induction b with
  | nil => simpa [modifyNode] using modifyNode_none f post a h2
  | cons x xs ih =>
    by_cases hx : x.addr = a
    · simp [modifyNode, hx]
    · simp only [List.cons_append, modifyNode, hx, if_false, ih]

end Bucket

/-! ## lookup by address in a list of records with pairwise distinct addresses -/

def lookup (L : List Node) (a : Nat) : Option Node := L.find? (fun n => n.addr == a)

theorem lookup_nil (a : Nat) : lookup [] a = none := rfl

theorem lookup_cons (x : Node) (xs : List Node) (a : Nat) :
    lookup (x :: xs) a = if x.addr = a then some x else lookup xs a := by
  unfold lookup
  by_cases h : x.addr = a
  · simp [h]
  · have hb : (x.addr == a) = false := by simp [h]
    simp [hb, h]

theorem lookup_eq_none {L : List Node} {a : Nat} : lookup L a = none ↔ ∀ n ∈ L, n.addr ≠ a := by
  unfold lookup
  simp [List.find?_eq_none]

theorem lookup_some_mem {L : List Node} {a : Nat} {n : Node} (h : lookup L a = some n) : n ∈ L ∧ n.addr = a := by
  unfold lookup at h
  exact ⟨List.mem_of_find?_eq_some h, by simpa using List.find?_some h⟩

theorem lookup_eq_some {L : List Node} (hnd : (L.map (·.addr)).Nodup) {a : Nat} {n : Node} :
    lookup L a = some n ↔ n ∈ L ∧ n.addr = a := by
  constructor
  · exact lookup_some_mem
  · induction L with
    | nil => simp
    | cons x xs ih =>
      intro ⟨hm, ha⟩
      simp only [List.map_cons, List.nodup_cons, List.mem_map, not_exists, not_and] at hnd
      rw [lookup_cons]
      by_cases hx : x.addr = a
      · simp only [hx, if_true]
        simp only [List.mem_cons] at hm
        rcases hm with rfl | hm
        · rfl
        · exact absurd (ha.trans hx.symm) (hnd.1 n hm)
      · simp only [hx, if_false]
        simp only [List.mem_cons] at hm
        rcases hm with rfl | hm
        · exact absurd ha hx
        · exact ih hnd.2 ⟨hm, ha⟩

theorem lookup_congr {L L' : List Node} (h1 : (L.map (·.addr)).Nodup) (h2 : (L'.map (·.addr)).Nodup)
    (hmem : ∀ n, n ∈ L ↔ n ∈ L') (a : Nat) : lookup L a = lookup L' a := by
  apply Option.ext
  intro n
  simp only [lookup_eq_some h1, lookup_eq_some h2, hmem]

theorem lookup_perm {L L' : List Node} (h1 : (L.map (·.addr)).Nodup) (hp : L.Perm L') (a : Nat) :
    lookup L a = lookup L' a :=
  lookup_congr h1 ((hp.map _).nodup_iff.mp h1) (fun _ => hp.mem_iff) a

theorem lookup_eraseP {L : List Node} (hnd : (L.map (·.addr)).Nodup) (a0 a : Nat) :
    lookup (L.eraseP (fun n => n.addr == a0)) a = if a = a0 then none else lookup L a := by
  induction L with
  | nil => simp [lookup]
  | cons x xs ih =>
    simp only [List.map_cons, List.nodup_cons, List.mem_map, not_exists, not_and] at hnd
    by_cases hx : x.addr = a0
    · have hb : (x.addr == a0) = true := by simp [hx]
      simp only [List.eraseP_cons, hb, cond_true]
      by_cases ha : a = a0
      · simp only [ha, if_true]
        rw [lookup_eq_none]
        intro n hn h
        exact hnd.1 n hn (h.trans hx.symm)
      · have : x.addr ≠ a := by rw [hx]; exact fun h => ha h.symm
        simp [ha, lookup_cons, this]
    · have hb : (x.addr == a0) = false := by simp [hx]
      simp only [List.eraseP_cons, hb, cond_false, lookup_cons]
      by_cases hxa : x.addr = a
      · have : a ≠ a0 := by rw [← hxa]; exact hx
        simp [hxa, this]
      · simp [hxa, ih hnd.2]

theorem lookup_filter {L : List Node} (hnd : (L.map (·.addr)).Nodup) (q : Node → Bool) (a : Nat) :
    lookup (L.filter q) a = (lookup L a).filter q := by
  induction L with
  | nil => simp [lookup]
  | cons x xs ih =>
    simp only [List.map_cons, List.nodup_cons, List.mem_map, not_exists, not_and] at hnd
    by_cases hq : q x = true
    · simp only [List.filter_cons, hq, if_true, lookup_cons]
      by_cases hxa : x.addr = a
      · simp [hxa, Option.filter, hq]
      · simp [hxa, ih hnd.2]
    · simp only [List.filter_cons, hq, lookup_cons]
      by_cases hxa : x.addr = a
      · simp only [hxa, if_true]
        have hn : lookup xs a = none := by
          rw [lookup_eq_none]; intro n hn h; exact hnd.1 n hn (h.trans hxa.symm)
        simp [ih hnd.2, hn, Option.filter, hq]
      · simp [hxa, ih hnd.2]

theorem lookup_modifyNode (f : Node → Node) (hf : ∀ n, (f n).addr = n.addr) (L : List Node) (a0 a : Nat) :
    lookup (Bucket.modifyNode f L a0) a = if a = a0 then (lookup L a0).map f else lookup L a := by
  induction L with
  | nil => simp [lookup, Bucket.modifyNode]
  | cons x xs ih =>
    by_cases hx : x.addr = a0
    · simp only [Bucket.modifyNode, hx, if_true, lookup_cons, hf]
      by_cases ha : a = a0
      · simp [ha]
      · have : ¬ a0 = a := fun h => ha h.symm
        simp [ha, this]
    · simp only [Bucket.modifyNode, hx, if_false, lookup_cons]
      by_cases hxa : x.addr = a
      · have : a ≠ a0 := by rw [← hxa]; exact hx
        simp [hxa, this]
      · simp only [hxa, if_false, ih]

theorem lookup_map (g : Node → Node) (hg : ∀ n, (g n).addr = n.addr) (L : List Node) (a : Nat) :
    lookup (L.map g) a = (lookup L a).map g := by
  induction L with
  | nil => simp [lookup]
  | cons x xs ih =>
    simp only [List.map_cons, lookup_cons, hg]
    by_cases hxa : x.addr = a
    · simp [hxa]
    · simp [hxa, ih]

/-! ## splitting a list at the first record that satisfies a test -/

theorem find_split {L : List Node} {q : Node → Bool} {n : Node} (h : L.find? q = some n) :
    ∃ s1 s2, L = s1 ++ n :: s2 ∧ (∀ x ∈ s1, q x = false) ∧ q n = true := by
  rw [List.find?_eq_some_iff_append] at h
  obtain ⟨hq, s1, s2, hL, hs1⟩ := h
  exact ⟨s1, s2, hL, fun x hx => by simpa using hs1 x hx, hq⟩

theorem nodup_split_ne {A B : List Node} {n : Node} (hnd : ((A ++ n :: B).map (·.addr)).Nodup) :
    ∀ x ∈ A, x.addr ≠ n.addr := by
  intro x hx h
  rw [List.map_append, List.nodup_append] at hnd
  exact hnd.2.2 x.addr (List.mem_map_of_mem hx) n.addr (by simp) h

theorem nextOf_split {A B : List Node} {n : Node} (hnd : ((A ++ n :: B).map (·.addr)).Nodup) :
    Bucket.nextOf (A ++ n :: B) n.addr = B := by
  rw [Bucket.nextOf_prefix _ _ _ (nodup_split_ne hnd)]
  simp [Bucket.nextOf]

theorem eraseP_split {A B : List Node} {n : Node} (hnd : ((A ++ n :: B).map (·.addr)).Nodup) :
    (A ++ n :: B).eraseP (fun x => x.addr == n.addr) = A ++ B := by
  rw [List.eraseP_append_right _ (by intro x hx; simpa using nodup_split_ne hnd x hx)]
  simp

theorem modifyNode_split (f : Node → Node) {A B : List Node} {n : Node}
    (hnd : ((A ++ n :: B).map (·.addr)).Nodup) :
    Bucket.modifyNode f (A ++ n :: B) n.addr = A ++ f n :: B := by
  rw [Bucket.modifyNode_prefix _ _ _ _ (nodup_split_ne hnd)]
  simp [Bucket.modifyNode]

theorem lookup_split {A B : List Node} {n : Node} (hnd : ((A ++ n :: B).map (·.addr)).Nodup) :
    lookup (A ++ n :: B) n.addr = some n :=
  (lookup_eq_some hnd).mpr ⟨by simp, rfl⟩

/-! ## the table as a flat list -/
namespace Table

theorem bucket_eq (t : Table) (i : Nat) (h : i < t.buckets.length) : t.bucket i = t.buckets[i] := by
  simp [bucket, List.getD_eq_getElem?_getD, h]

theorem buckets_split (t : Table) (i : Nat) (h : i < t.buckets.length) :
    t.buckets = t.buckets.take i ++ t.buckets[i] :: t.buckets.drop (i + 1) := by
  rw [List.getElem_cons_drop h, List.take_append_drop]

theorem flatten_split {α} (L : List (List α)) (i : Nat) (h : i < L.length) :
    L.flatten = (L.take i).flatten ++ (L[i] ++ (L.drop (i + 1)).flatten) := by
  induction L generalizing i with
  | nil => simp at h
  | cons x xs ih =>
    cases i with
    | zero => simp
    | succ k =>
      have hk : k < xs.length := by simpa using h
      simp [ih k hk, List.append_assoc]

theorem flat_split (t : Table) (i : Nat) (h : i < t.buckets.length) :
    t.flat = (t.buckets.take i).flatten ++ (t.buckets[i] ++ (t.buckets.drop (i + 1)).flatten) := by
  exact flatten_split t.buckets i h

theorem flat_setBucket (t : Table) (i : Nat) (b : Bucket) (h : i < t.buckets.length) :
    (t.setBucket i b).flat = (t.buckets.take i).flatten ++ (b ++ (t.buckets.drop (i + 1)).flatten) := by
  unfold flat setBucket
  simp [List.set_eq_take_append_cons_drop, h, List.flatten_append]

theorem hash_lt (t : Table) (hp : 0 < t.hp) (a : Nat) : t.hash a < t.hp := by
  unfold hash Gen.LeakDetector.hash
  exact Nat.mod_lt _ hp

theorem Inv.hash_lt_len {t : Table} (inv : t.Inv) (a : Nat) : t.hash a < t.buckets.length := by
  rw [inv.len]; exact hash_lt t inv.pos a

theorem Inv.mem_take {t : Table} (inv : t.Inv) {i : Nat} {n : Node}
    (hn : n ∈ (t.buckets.take i).flatten) : t.hash n.addr < i := by
  rw [List.mem_flatten] at hn
  obtain ⟨l, hl, hnl⟩ := hn
  rw [List.mem_take_iff_getElem] at hl
  obtain ⟨j, hj, rfl⟩ := hl
  have hj' : j < t.buckets.length := by omega
  have := inv.placed j hj' n hnl
  omega

theorem Inv.mem_drop {t : Table} (inv : t.Inv) {i : Nat} {n : Node}
    (hn : n ∈ (t.buckets.drop (i + 1)).flatten) : i < t.hash n.addr := by
  rw [List.mem_flatten] at hn
  obtain ⟨l, hl, hnl⟩ := hn
  rw [List.mem_drop_iff_getElem] at hl
  obtain ⟨j, hj, rfl⟩ := hl
  have := inv.placed (j + (i + 1)) hj n (by simpa [Nat.add_comm] using hnl)
  omega

theorem Inv.mem_bucket {t : Table} (inv : t.Inv) {i : Nat} (h : i < t.buckets.length) {n : Node}
    (hn : n ∈ t.buckets[i]) : t.hash n.addr = i := inv.placed i h n hn


theorem Inv.pre_ne {t : Table} (inv : t.Inv) (a : Nat) :
    ∀ n ∈ (t.buckets.take (t.hash a)).flatten, n.addr ≠ a := by
  intro n hn h
  have := inv.mem_take hn
  rw [h] at this; omega

theorem Inv.post_ne {t : Table} (inv : t.Inv) (a : Nat) :
    ∀ n ∈ (t.buckets.drop (t.hash a + 1)).flatten, n.addr ≠ a := by
  intro n hn h
  have := inv.mem_drop hn
  rw [h] at this; omega

theorem Inv.retrieve_eq_find {t : Table} (inv : t.Inv) (a : Nat) :
    t.retrieveNode a = t.flat.find? (fun n => n.addr == a) := by
  have hl := inv.hash_lt_len a
  rw [flat_split t _ hl, retrieveNode, bucket_eq t _ hl, Bucket.retrieveNode_eq_find]
  rw [Bucket.find_mid]
  · intro n hn; simpa using inv.pre_ne a n hn
  · intro n hn; simpa using inv.post_ne a n hn

theorem Inv.flat_unlink {t : Table} (inv : t.Inv) (a : Nat) :
    (t.unlinkNode a).flat = t.flat.eraseP (fun n => n.addr == a) := by
  have hl := inv.hash_lt_len a
  rw [unlinkNode, flat_setBucket t _ _ hl, flat_split t _ hl, bucket_eq t _ hl, Bucket.unlinkNode_eq_eraseP]
  rw [Bucket.eraseP_mid]
  · intro n hn; simpa using inv.pre_ne a n hn
  · intro n hn; simpa using inv.post_ne a n hn

theorem Inv.flat_add {t : Table} (inv : t.Inv) (n : Node) :
    (t.addNewNode n).flat = (t.buckets.take (t.hash n.addr)).flatten ++
      (n :: t.buckets[t.hash n.addr]'(inv.hash_lt_len n.addr) ++ (t.buckets.drop (t.hash n.addr + 1)).flatten) := by
  have hl := inv.hash_lt_len n.addr
  rw [addNewNode, flat_setBucket t _ _ hl, bucket_eq t _ hl]
  rfl

theorem Inv.flat_add_perm {t : Table} (inv : t.Inv) (n : Node) :
    (t.addNewNode n).flat.Perm (n :: t.flat) := by
  have hl := inv.hash_lt_len n.addr
  rw [inv.flat_add n, flat_split t _ hl]
  simp

theorem flat_clear (t : Table) (p : Period) :
    (t.clearAllAccounting p).flat = t.flat.filter (fun n => !isInPeriod p n) := by
  unfold clearAllAccounting flat
  simp only [List.filter_flatten]
  congr 1
  apply List.map_congr_left
  intro b _
  exact Bucket.clear_eq_filter p b

theorem totalIn_eq (p : Period) (bs : List Bucket) : totalIn p bs = bs.flatten.countP (isInPeriod p) := by
  induction bs with
  | nil => rfl
  | cons b bs ih => simp [totalIn, ih, Bucket.getTotalLeaks_eq_countP, List.countP_append]

theorem total_eq_countP (t : Table) (p : Period) : t.getTotalLeaks p = t.flat.countP (isInPeriod p) :=
  totalIn_eq p t.buckets

theorem firstLeakIn_eq_find (q : Node → Bool) (bs : List Bucket) : firstLeakIn q bs = bs.flatten.find? q := by
  induction bs with
  | nil => rfl
  | cons b bs ih =>
    simp only [firstLeakIn, Bucket.getFirstLeak, Bucket.getLeakFrom_eq_find, List.flatten_cons, List.find?_append]
    cases h : b.find? q with
    | some n => simp
    | none => simp [ih]

theorem getFirstLeak_eq_find (t : Table) (q : Node → Bool) : t.getFirstLeak q = t.flat.find? q :=
  firstLeakIn_eq_find q t.buckets

theorem Inv.mem_flat_bucket {t : Table} (inv : t.Inv) {n : Node} (hn : n ∈ t.flat) :
    n ∈ t.buckets[t.hash n.addr]'(inv.hash_lt_len n.addr) := by
  have hl := inv.hash_lt_len n.addr
  rw [flat_split t _ hl] at hn
  simp only [List.mem_append] at hn
  rcases hn with h | h | h
  · exact absurd rfl (inv.pre_ne n.addr n h)
  · exact h
  · exact absurd rfl (inv.post_ne n.addr n h)

theorem Inv.getNextLeak_eq {t : Table} (inv : t.Inv) (q : Node → Bool) (n : Node)
    (hn : ∃ m ∈ t.flat, m.addr = n.addr) :
    t.getNextLeak q n = (Bucket.nextOf t.flat n.addr).find? q := by
  have hl := inv.hash_lt_len n.addr
  obtain ⟨m, hm, hma⟩ := hn
  have hb : ∃ m ∈ t.buckets[t.hash n.addr], m.addr = n.addr := by
    have := inv.mem_flat_bucket hm
    refine ⟨m, ?_, hma⟩
    simpa [hma] using this
  rw [flat_split t _ hl, Bucket.nextOf_prefix _ _ _ (inv.pre_ne n.addr),
    Bucket.nextOf_suffix _ _ _ hb, List.find?_append]
  simp only [getNextLeak, Bucket.getNextLeak, bucket_eq t _ hl, Bucket.getLeakFrom_eq_find, firstLeakIn_eq_find]
  cases h : (Bucket.nextOf t.buckets[t.hash n.addr] n.addr).find? q with
  | some m => simp
  | none => simp

theorem Inv.flat_modify {t : Table} (inv : t.Inv) (f : Node → Node) (a : Nat) :
    (t.modifyNode f a).flat = Bucket.modifyNode f t.flat a := by
  have hl := inv.hash_lt_len a
  rw [modifyNode, flat_setBucket t _ _ hl, flat_split t _ hl, bucket_eq t _ hl,
    Bucket.modifyNode_prefix _ _ _ _ (inv.pre_ne a), Bucket.modifyNode_suffix _ _ _ _ (inv.post_ne a)]


/-! ### the invariant is preserved by every table operation -/

theorem inv_empty (hp : Nat) (h : 0 < hp) : (Table.empty hp).Inv where
  pos := h
  len := by simp [empty]
  placed := by intro i hi n hn; simp [empty] at hn
  distinct := by simp [empty, flat]
  nonnull := by simp [empty, flat]

theorem Inv.setBucket {t : Table} (inv : t.Inv) (i : Nat) (b' : Bucket) (hi : i < t.buckets.length)
    (hb : ∀ n ∈ b', t.hash n.addr = i) (hz : ∀ n ∈ b', n.addr ≠ 0)
    (hd : (((t.buckets.take i).flatten ++ (b' ++ (t.buckets.drop (i + 1)).flatten)).map (·.addr)).Nodup) :
    (t.setBucket i b').Inv where
  pos := inv.pos
  len := by simp [Table.setBucket, inv.len]
  placed := by
    intro j hj n hn
    simp only [Table.setBucket, List.length_set] at hj
    simp only [Table.setBucket, List.getElem_set] at hn
    show Gen.LeakDetector.hash t.hp n.addr = j
    split at hn
    · rename_i h; subst h; exact hb n hn
    · exact inv.placed j hj n hn
  distinct := by rw [flat_setBucket t i b' hi]; exact hd
  nonnull := by
    intro n hn
    rw [flat_setBucket t i b' hi] at hn
    simp only [List.mem_append] at hn
    have hall : ∀ m, m ∈ (t.buckets.take i).flatten ∨ m ∈ (t.buckets.drop (i + 1)).flatten → m.addr ≠ 0 := by
      intro m hm
      apply inv.nonnull m
      rw [flat_split t i hi]
      simp only [List.mem_append]
      rcases hm with h | h
      · exact Or.inl h
      · exact Or.inr (Or.inr h)
    rcases hn with h | h | h
    · exact hall n (Or.inl h)
    · exact hz n h
    · exact hall n (Or.inr h)

theorem Inv.mem_of_mem_bucket {t : Table} {i : Nat} (hi : i < t.buckets.length) {n : Node}
    (hn : n ∈ t.buckets[i]) : n ∈ t.flat := by
  rw [flat_split t i hi]; simp [hn]

theorem Inv.add {t : Table} (inv : t.Inv) (n : Node) (hnz : n.addr ≠ 0) (hfresh : ∀ m ∈ t.flat, m.addr ≠ n.addr) :
    (t.addNewNode n).Inv := by
  have hl := inv.hash_lt_len n.addr
  unfold addNewNode
  apply inv.setBucket _ _ hl
  · intro m hm
    rw [bucket_eq t _ hl] at hm
    simp only [Bucket.addNewNode, List.mem_cons] at hm
    rcases hm with rfl | hm
    · rfl
    · exact inv.placed _ hl m hm
  · intro m hm
    rw [bucket_eq t _ hl] at hm
    simp only [Bucket.addNewNode, List.mem_cons] at hm
    rcases hm with rfl | hm
    · exact hnz
    · exact inv.nonnull m (Inv.mem_of_mem_bucket hl hm)
  · have hp : ((t.buckets.take (t.hash n.addr)).flatten ++
        ((t.bucket (t.hash n.addr)).addNewNode n ++ (t.buckets.drop (t.hash n.addr + 1)).flatten)).Perm (n :: t.flat) := by
      rw [flat_split t _ hl, bucket_eq t _ hl]
      simp [Bucket.addNewNode]
    rw [(hp.map (·.addr)).nodup_iff]
    simp only [List.map_cons, List.nodup_cons, List.mem_map, not_exists, not_and]
    exact ⟨fun m hm h => hfresh m hm h, inv.distinct⟩

theorem Inv.unlink {t : Table} (inv : t.Inv) (a : Nat) : (t.unlinkNode a).Inv := by
  have hl := inv.hash_lt_len a
  unfold unlinkNode
  apply inv.setBucket _ _ hl
  · intro m hm
    rw [bucket_eq t _ hl, Bucket.unlinkNode_eq_eraseP] at hm
    exact inv.placed _ hl m (List.mem_of_mem_eraseP hm)
  · intro m hm
    rw [bucket_eq t _ hl, Bucket.unlinkNode_eq_eraseP] at hm
    exact inv.nonnull m (Inv.mem_of_mem_bucket hl (List.mem_of_mem_eraseP hm))
  · have h := inv.flat_unlink a
    rw [unlinkNode, flat_setBucket t _ _ hl] at h
    rw [h]
    exact (List.eraseP_sublist.map _).nodup inv.distinct

theorem Inv.clear {t : Table} (inv : t.Inv) (p : Period) : (t.clearAllAccounting p).Inv where
  pos := inv.pos
  len := by simp [clearAllAccounting, inv.len]
  placed := by
    intro i hi n hn
    simp only [clearAllAccounting, List.length_map] at hi
    simp only [clearAllAccounting, List.getElem_map, Bucket.clear_eq_filter, List.mem_filter] at hn
    exact inv.placed i hi n hn.1
  distinct := by
    rw [flat_clear]
    exact (List.filter_sublist.map _).nodup inv.distinct
  nonnull := by
    intro n hn
    rw [flat_clear] at hn
    exact inv.nonnull n (List.mem_filter.mp hn).1

theorem Bucket.map_addr_modifyNode (f : Node → Node) (hf : ∀ n, (f n).addr = n.addr) (l : List Node) (a : Nat) :
    (Bucket.modifyNode f l a).map (·.addr) = l.map (·.addr) := by
  induction l with
  | nil => rfl
  | cons x xs ih =>
    by_cases hx : x.addr = a
    · simp [Bucket.modifyNode, hx, hf]
    · simp [Bucket.modifyNode, hx, ih]

theorem Bucket.mem_modifyNode (f : Node → Node) (l : List Node) (a : Nat) (m : Node)
    (hm : m ∈ Bucket.modifyNode f l a) : m ∈ l ∨ ∃ x ∈ l, m = f x := by
  induction l with
  | nil => simp [Bucket.modifyNode] at hm
  | cons x xs ih =>
    by_cases hx : x.addr = a
    · simp only [Bucket.modifyNode, hx, if_true, List.mem_cons] at hm
      rcases hm with rfl | hm
      · exact Or.inr ⟨x, by simp, rfl⟩
      · exact Or.inl (by simp [hm])
    · simp only [Bucket.modifyNode, hx, if_false, List.mem_cons] at hm
      rcases hm with rfl | hm
      · exact Or.inl (by simp)
      · rcases ih hm with h | ⟨y, hy, rfl⟩
        · exact Or.inl (by simp [h])
        · exact Or.inr ⟨y, by simp [hy], rfl⟩

theorem Inv.modify {t : Table} (inv : t.Inv) (f : Node → Node) (hf : ∀ n, (f n).addr = n.addr) (a : Nat) :
    (t.modifyNode f a).Inv := by
  have hl := inv.hash_lt_len a
  unfold modifyNode
  apply inv.setBucket _ _ hl
  · intro m hm
    rw [bucket_eq t _ hl] at hm
    rcases Bucket.mem_modifyNode f _ a m hm with h | ⟨x, hx, rfl⟩
    · exact inv.placed _ hl m h
    · rw [hf]; exact inv.placed _ hl x hx
  · intro m hm
    rw [bucket_eq t _ hl] at hm
    rcases Bucket.mem_modifyNode f _ a m hm with h | ⟨x, hx, rfl⟩
    · exact inv.nonnull m (Inv.mem_of_mem_bucket hl h)
    · rw [hf]; exact inv.nonnull x (Inv.mem_of_mem_bucket hl hx)
  · have h := inv.flat_modify f a
    rw [modifyNode, flat_setBucket t _ _ hl] at h
    rw [h, Bucket.map_addr_modifyNode f hf]
    exact inv.distinct

end Table

/-! ## the pointer-chasing loops -/

theorem reportLoop_eq {t : Table} (inv : t.Inv) (p : Period) :
    ∀ (fuel : Nat) (pre suf : List Node), t.flat = pre ++ suf → suf.length < fuel →
      reportLoop t p fuel (suf.find? (isInPeriod p)) = suf.filter (isInPeriod p) := by
  intro fuel
  induction fuel with
  | zero => intro pre suf _ h; omega
  | succ fuel ih =>
    intro pre suf hflat hlen
    cases hf : suf.find? (isInPeriod p) with
    | none =>
      simp only [reportLoop]
      symm
      rw [List.filter_eq_nil_iff]
      intro x hx
      rw [List.find?_eq_none] at hf
      exact hf x hx
    | some n =>
      obtain ⟨s1, s2, hs, hs1, hqn⟩ := find_split hf
      simp only [reportLoop]
      have hflat' : t.flat = (pre ++ s1) ++ n :: s2 := by rw [hflat, hs]; simp
      have hnd : (((pre ++ s1) ++ n :: s2).map (·.addr)).Nodup := by rw [← hflat']; exact inv.distinct
      have hnext : t.getNextLeak (isInPeriod p) n = s2.find? (isInPeriod p) := by
        rw [inv.getNextLeak_eq _ n ⟨n, by rw [hflat']; simp, rfl⟩, hflat', nextOf_split hnd]
      rw [hnext, ih (pre ++ s1 ++ [n]) s2 (by rw [hflat']; simp) (by rw [hs] at hlen; simp at hlen; omega)]
      rw [hs, List.filter_append, List.filter_cons, hqn]
      have : s1.filter (isInPeriod p) = [] := by
        rw [List.filter_eq_nil_iff]; intro x hx; simp [hs1 x hx]
      simp [this]

/-- the leaks `report(period)` lists are exactly the in-period records, in table order, each once -/
theorem reportedLeaks_eq {s : State} (inv : s.Inv) (p : Period) :
    reportedLeaks s p = s.nodes.filter (isInPeriod p) := by
  unfold reportedLeaks
  rw [Table.getFirstLeak_eq_find]
  exact reportLoop_eq inv p _ [] s.table.flat rfl (by simp [Table.nodeCount, Table.flat])

theorem isInPeriod_checking (n : Node) : isInPeriod .checking n = true ↔ n.period = .checking := by
  unfold isInPeriod Gen.LeakDetector.isInPeriod
  cases n.period <;> decide

theorem demote_addr (n : Node) : (demote n).addr = n.addr := by
  unfold demote; split <;> rfl

theorem demote_of_not_checking {n : Node} (h : isInPeriod .checking n = false) : demote n = n := by
  unfold demote
  have : ¬ n.period = .checking := by
    intro hc; rw [(isInPeriod_checking n).mpr hc] at h; exact absurd h (by decide)
  simp [this]

theorem demote_not_checking (n : Node) : isInPeriod .checking (demote n) = false := by
  cases h : isInPeriod .checking (demote n) with
  | false => rfl
  | true =>
    rw [isInPeriod_checking] at h
    unfold demote at h
    split at h
    · simp at h
    · rename_i hc; exact absurd h hc

theorem map_demote_id {l : List Node} (h : ∀ x ∈ l, isInPeriod .checking x = false) : l.map demote = l := by
  induction l with
  | nil => rfl
  | cons x xs ih =>
    simp only [List.map_cons]
    rw [demote_of_not_checking (h x (by simp)), ih (fun y hy => h y (by simp [hy]))]

theorem markLoop_eq :
    ∀ (fuel : Nat) (t : Table) (pre suf : List Node), t.Inv → t.flat = pre ++ suf →
      (∀ x ∈ pre, isInPeriod .checking x = false) → suf.length < fuel →
      (markLoop fuel t (suf.find? (isInPeriod .checking))).flat = pre ++ suf.map demote ∧
      (markLoop fuel t (suf.find? (isInPeriod .checking))).Inv := by
  intro fuel
  induction fuel with
  | zero => intro t pre suf _ _ _ h; omega
  | succ fuel ih =>
    intro t pre suf inv hflat hpre hlen
    cases hf : suf.find? (isInPeriod .checking) with
    | none =>
      simp only [markLoop]
      rw [List.find?_eq_none] at hf
      rw [map_demote_id (fun x hx => by simpa using hf x hx)]
      exact ⟨hflat, inv⟩
    | some n =>
      obtain ⟨s1, s2, hs, hs1, hqn⟩ := find_split hf
      simp only [markLoop]
      have hflat' : t.flat = (pre ++ s1) ++ n :: s2 := by rw [hflat, hs]; simp
      have hnd : (((pre ++ s1) ++ n :: s2).map (·.addr)).Nodup := by rw [← hflat']; exact inv.distinct
      have inv' : (t.modifyNode demote n.addr).Inv := inv.modify demote demote_addr n.addr
      have hflat2 : (t.modifyNode demote n.addr).flat = (pre ++ s1) ++ demote n :: s2 := by
        rw [inv.flat_modify, hflat', modifyNode_split demote hnd]
      have hnd2 : (((pre ++ s1) ++ demote n :: s2).map (·.addr)).Nodup := by rw [← hflat2]; exact inv'.distinct
      have hnext : (t.modifyNode demote n.addr).getNextLeak (isInPeriod .checking) n = s2.find? (isInPeriod .checking) := by
        rw [inv'.getNextLeak_eq _ n ⟨demote n, by rw [hflat2]; simp, demote_addr n⟩, hflat2]
        have := nextOf_split hnd2
        rw [demote_addr] at this
        rw [this]
      rw [hnext]
      have hpre' : ∀ x ∈ pre ++ s1 ++ [demote n], isInPeriod .checking x = false := by
        intro x hx
        simp only [List.mem_append, List.mem_singleton] at hx
        rcases hx with (h | h) | rfl
        · exact hpre x h
        · exact hs1 x h
        · exact demote_not_checking n
      have := ih (t.modifyNode demote n.addr) (pre ++ s1 ++ [demote n]) s2 inv' (by rw [hflat2]; simp) hpre'
        (by rw [hs] at hlen; simp at hlen; omega)
      refine ⟨?_, this.2⟩
      rw [this.1, hs, List.map_append, List.map_cons, map_demote_id hs1]
      simp

/-- `markCheckingPeriodLeaksAsNonCheckingPeriod` demotes exactly the records stamped `checking` -/
theorem markChecking_nodes {s : State} (inv : s.Inv) :
    (markChecking s).nodes = s.nodes.map demote ∧ (markChecking s).Inv := by
  unfold markChecking State.nodes State.Inv
  simp only
  rw [Table.getFirstLeak_eq_find]
  have := markLoop_eq (s.table.nodeCount + 1) s.table [] s.table.flat inv rfl (by simp) (by simp [Table.nodeCount, Table.flat])
  simpa using this

/-! ## lookups at the level of the detector state -/

theorem retrieve_eq_lookup {s : State} (inv : s.Inv) (a : Nat) : s.table.retrieveNode a = lookup s.nodes a :=
  Table.Inv.retrieve_eq_find inv a

theorem retrieve_some_iff {s : State} (inv : s.Inv) {a : Nat} {n : Node} :
    s.table.retrieveNode a = some n ↔ n ∈ s.nodes ∧ n.addr = a := by
  rw [retrieve_eq_lookup inv]; exact lookup_eq_some inv.distinct

theorem retrieve_none_iff {s : State} (inv : s.Inv) {a : Nat} :
    s.table.retrieveNode a = none ↔ ∀ n ∈ s.nodes, n.addr ≠ a := by
  rw [retrieve_eq_lookup inv]; exact lookup_eq_none

theorem isLive_iff {s : State} (inv : s.Inv) (a : Nat) : isLive s a = true ↔ ∃ n, s.table.retrieveNode a = some n := by
  unfold isLive
  simp only [List.any_eq_true, beq_iff_eq]
  constructor
  · rintro ⟨n, hn, ha⟩; exact ⟨n, (retrieve_some_iff inv).mpr ⟨hn, ha⟩⟩
  · rintro ⟨n, h⟩; have := (retrieve_some_iff inv).mp h; exact ⟨n, this.1, this.2⟩

theorem isLive_false_iff {s : State} (a : Nat) : isLive s a = false ↔ ∀ n ∈ s.nodes, n.addr ≠ a := by
  unfold isLive
  simp [List.any_eq_false]

theorem dealloc_live {s : State} (inv : s.Inv) {n : Node} (hn : n ∈ s.nodes) (a : Allocator) (file : String)
    (line : Nat) (sep : Bool) :
    dealloc s a n.addr file line sep =
      ({ s with table := s.table.unlinkNode n.addr },
       checkForCorruption s.typeChecking n file line a sep ++ [.ufree a n.addr n.size n.user]) := by
  have hz : n.addr ≠ 0 := inv.nonnull n hn
  have hr : s.table.retrieveNode n.addr = some n := (retrieve_some_iff inv).mpr ⟨hn, rfl⟩
  simp [dealloc, hz, hr]

/-- what the stage release does for one block -/
def releaseEvs (typeChecking : Bool) (n : Node) : List Ev :=
  checkForCorruption typeChecking n stageFile 0 n.allocator false ++ [.ufree n.allocator n.addr n.size n.user]

theorem stageLoop_eq :
    ∀ (fuel : Nat) (s : State), s.Inv → s.nodes.length < fuel →
      (stageLoop fuel s (s.nodes.find? (isInStage s.stage))).1.nodes = s.nodes.filter (fun n => !isInStage s.stage n) ∧
      (stageLoop fuel s (s.nodes.find? (isInStage s.stage))).1.Inv ∧
      (stageLoop fuel s (s.nodes.find? (isInStage s.stage))).1.period = s.period ∧
      (stageLoop fuel s (s.nodes.find? (isInStage s.stage))).1.stage = s.stage ∧
      (stageLoop fuel s (s.nodes.find? (isInStage s.stage))).1.seq = s.seq ∧
      (stageLoop fuel s (s.nodes.find? (isInStage s.stage))).1.typeChecking = s.typeChecking ∧
      (stageLoop fuel s (s.nodes.find? (isInStage s.stage))).2 =
        (s.nodes.filter (isInStage s.stage)).flatMap (releaseEvs s.typeChecking) := by
  intro fuel
  induction fuel with
  | zero => intro s _ h; omega
  | succ fuel ih =>
    intro s inv hlen
    cases hf : s.nodes.find? (isInStage s.stage) with
    | none =>
      simp only [stageLoop]
      rw [List.find?_eq_none] at hf
      have h1 : s.nodes.filter (fun n => !isInStage s.stage n) = s.nodes := by
        rw [List.filter_eq_self]; intro x hx; simpa using hf x hx
      have h2 : s.nodes.filter (isInStage s.stage) = [] := by
        rw [List.filter_eq_nil_iff]; intro x hx; exact hf x hx
      simp [h1, h2, inv]
    | some n =>
      obtain ⟨s1, s2, hs, hs1, hqn⟩ := find_split hf
      have hn : n ∈ s.nodes := by rw [hs]; simp
      have hnd : ((s1 ++ n :: s2).map (·.addr)).Nodup := by rw [← hs]; exact inv.distinct
      simp only [stageLoop, dealloc_live inv hn, prependEvs]
      -- the state after the release of `n`
      have inv1 : State.Inv { s with table := s.table.unlinkNode n.addr } := Table.Inv.unlink inv n.addr
      have hnodes1 : State.nodes { s with table := s.table.unlinkNode n.addr } = s1 ++ s2 := by
        show (s.table.unlinkNode n.addr).flat = s1 ++ s2
        rw [Table.Inv.flat_unlink inv]
        show s.nodes.eraseP _ = _
        rw [hs, eraseP_split hnd]
      have hnext : s.table.getNextLeak (isInStage s.stage) n =
          (State.nodes { s with table := s.table.unlinkNode n.addr }).find? (isInStage s.stage) := by
        rw [Table.Inv.getNextLeak_eq inv _ n ⟨n, hn, rfl⟩]
        show (Bucket.nextOf s.nodes n.addr).find? _ = _
        rw [hnodes1, hs, nextOf_split hnd, List.find?_append]
        have : s1.find? (isInStage s.stage) = none := by
          rw [List.find?_eq_none]; intro x hx; simp [hs1 x hx]
        simp [this]
      rw [hnext]
      have hlen1 : (State.nodes { s with table := s.table.unlinkNode n.addr }).length < fuel := by
        rw [hnodes1]; rw [hs] at hlen; simp at hlen ⊢; omega
      have := ih { s with table := s.table.unlinkNode n.addr } inv1 hlen1
      simp only at this
      obtain ⟨r1, r2, r3, r4, r5, r6, r7⟩ := this
      refine ⟨?_, r2, r3, r4, r5, r6, ?_⟩
      · rw [r1, hnodes1, hs]
        simp [List.filter_append, hqn]
      · rw [r7, hnodes1, hs]
        have e1 : s1.filter (isInStage s.stage) = [] := by
          rw [List.filter_eq_nil_iff]; intro x hx; simp [hs1 x hx]
        simp [List.filter_append, hqn, e1, releaseEvs]

/-- the stage release returns exactly the blocks of the current stage, each once, and nothing else changes -/
theorem deallocStage_spec {s : State} (inv : s.Inv) :
    (deallocStage s).1.nodes = s.nodes.filter (fun n => !isInStage s.stage n) ∧
    (deallocStage s).1.Inv ∧
    (deallocStage s).1.period = s.period ∧ (deallocStage s).1.stage = s.stage ∧
    (deallocStage s).1.seq = s.seq ∧ (deallocStage s).1.typeChecking = s.typeChecking ∧
    (deallocStage s).2 = (s.nodes.filter (isInStage s.stage)).flatMap (releaseEvs s.typeChecking) := by
  unfold deallocStage
  rw [Table.getFirstLeak_eq_find]
  exact stageLoop_eq _ s inv (by simp [Table.nodeCount, State.nodes, Table.flat])

/-! ## every operation: invariant and refinement of the finite-map specification -/

theorem isInPeriod_eq_doc (p : Period) (n : Node) : isInPeriod p n = Spec.inPeriod p n := by
  unfold isInPeriod Gen.LeakDetector.isInPeriod Spec.inPeriod
  cases p <;> cases n.period <;> decide

theorem abs_ext {s : State} {t : Spec.State} (hm : ∀ a, s.table.retrieveNode a = t.map a) (hp : s.period = t.period)
    (hs : s.stage = t.stage) (hq : s.seq = t.seq) (ht : s.typeChecking = t.typeChecking) : abs s = t := by
  cases t
  simp only [abs] at *
  subst hp hs hq ht
  congr 1
  funext a
  exact hm a

theorem store_inv {s : State} (inv : s.Inv) (addr size : Nat) (a : Allocator) (file : String) (line : Nat)
    (sep : Bool) (fill : UInt8) (hz : addr ≠ 0) (hfresh : ∀ n ∈ s.nodes, n.addr ≠ addr) :
    (storeLeakInformation s addr size a file line sep fill).Inv :=
  Table.Inv.add inv _ hz hfresh

theorem retrieve_add {t : Table} (inv : t.Inv) (n : Node) (hz : n.addr ≠ 0) (hfresh : ∀ m ∈ t.flat, m.addr ≠ n.addr)
    (a : Nat) : (t.addNewNode n).retrieveNode a = if a = n.addr then some n else t.retrieveNode a := by
  have inv' := inv.add n hz hfresh
  rw [inv'.retrieve_eq_find, inv.retrieve_eq_find]
  show lookup _ a = if a = n.addr then some n else lookup _ a
  rw [lookup_perm inv'.distinct (inv.flat_add_perm n), lookup_cons]
  by_cases h : n.addr = a
  · simp [h]
  · have : ¬ a = n.addr := fun e => h e.symm
    simp [h, this]

theorem retrieve_unlink {t : Table} (inv : t.Inv) (a0 a : Nat) :
    (t.unlinkNode a0).retrieveNode a = if a = a0 then none else t.retrieveNode a := by
  rw [(inv.unlink a0).retrieve_eq_find, inv.retrieve_eq_find, inv.flat_unlink]
  exact lookup_eraseP inv.distinct a0 a

theorem retrieve_modify {t : Table} (inv : t.Inv) (f : Node → Node) (hf : ∀ n, (f n).addr = n.addr) (a0 a : Nat) :
    (t.modifyNode f a0).retrieveNode a = if a = a0 then (t.retrieveNode a).map f else t.retrieveNode a := by
  rw [(inv.modify f hf a0).retrieve_eq_find, inv.retrieve_eq_find, inv.flat_modify]
  have := lookup_modifyNode f hf t.flat a0 a
  unfold lookup at this
  rw [this]
  by_cases h : a = a0
  · simp [h]
  · simp [h]

theorem poison_addr (n : Node) : (poison n).addr = n.addr := rfl

theorem fresh_of {s : State} {result : Nat} (hz : result ≠ 0) (h : result = 0 ∨ isLive s result = false) :
    ∀ n ∈ s.nodes, n.addr ≠ result := by
  rcases h with h | h
  · exact absurd h hz
  · exact (isLive_false_iff result).mp h

/-! ### alloc -/

theorem alloc_inv {s : State} (inv : s.Inv) (a : Allocator) (size : Nat) (file : String) (line : Nat) (sep : Bool)
    (result : Nat) (nodeOk : Bool) (fill : UInt8) (hf : FreshAddr s (.alloc a size file line sep result nodeOk fill)) :
    (alloc s a size file line sep result nodeOk fill).1.Inv := by
  unfold alloc
  split
  · exact inv
  · split
    · exact inv
    · rename_i hz
      split
      · exact inv
      · exact store_inv inv _ _ _ _ _ _ _ hz (fresh_of hz hf)

theorem alloc_abs {s : State} (inv : s.Inv) (a : Allocator) (size : Nat) (file : String) (line : Nat) (sep : Bool)
    (result : Nat) (nodeOk : Bool) (fill : UInt8) (hf : FreshAddr s (.alloc a size file line sep result nodeOk fill)) :
    abs (alloc s a size file line sep result nodeOk fill).1 =
      Spec.step (abs s) (.alloc a size file line sep result nodeOk fill) := by
  unfold alloc Spec.step
  by_cases ho : sizeOverflows size = true
  · simp [ho]
  · by_cases hz : result = 0
    · simp [ho, hz]
    · by_cases hn : (sep && !nodeOk) = true
      · have hn' : sep = true ∧ nodeOk = false := by simpa using hn
        simp [ho, hz, hn, hn']
      · have hn' : ¬ (sep = true ∧ nodeOk = false) := by simpa using hn
        simp only [ho, hz, hn, hn', or_self, if_false, Bool.false_eq_true]
        apply abs_ext
        · intro x
          exact retrieve_add inv (Spec.newNode (abs s) result size a file line sep fill) hz (fresh_of hz hf) x
        all_goals rfl

/-! ### dealloc -/

theorem dealloc_inv {s : State} (inv : s.Inv) (a : Allocator) (addr : Nat) (file : String) (line : Nat) (sep : Bool) :
    (dealloc s a addr file line sep).1.Inv := by
  unfold dealloc
  split
  · exact inv
  · split
    · exact inv
    · exact Table.Inv.unlink inv addr

theorem dealloc_abs {s : State} (inv : s.Inv) (a : Allocator) (addr : Nat) (file : String) (line : Nat) (sep : Bool) :
    abs (dealloc s a addr file line sep).1 = Spec.step (abs s) (.dealloc a addr file line sep) := by
  unfold dealloc Spec.step
  by_cases hz : addr = 0
  · simp [hz]
  · simp only [hz, if_false]
    cases hr : s.table.retrieveNode addr with
    | none =>
      apply abs_ext
      · intro x
        simp only [abs, Spec.Map.erase]
        by_cases hx : x = addr
        · simp [hx, hr]
        · simp [hx]
      all_goals rfl
    | some n =>
      apply abs_ext
      · intro x
        exact retrieve_unlink inv addr x
      all_goals rfl

/-! ### realloc -/

theorem reallocTail_none_inv {s : State} (inv : s.Inv) (a : Allocator) (addr size : Nat) (file : String) (line : Nat)
    (sep : Bool) (result : Nat) (fill : UInt8) (hf : result = 0 ∨ isLive s result = false) :
    (reallocTail s a addr size file line sep result fill none).1.Inv := by
  unfold reallocTail
  split
  · exact inv
  · rename_i hz
    exact store_inv inv _ _ _ _ _ _ _ hz (fresh_of hz hf)

theorem nodes_unlink {s : State} (inv : s.Inv) (addr : Nat) :
    State.nodes { s with table := s.table.unlinkNode addr } = s.nodes.eraseP (fun n => n.addr == addr) :=
  Table.Inv.flat_unlink inv addr

theorem mem_eraseP_addr {L : List Node} (hnd : (L.map (·.addr)).Nodup) {a : Nat} {m : Node}
    (hm : m ∈ L.eraseP (fun n => n.addr == a)) : m ∈ L ∧ m.addr ≠ a := by
  refine ⟨List.mem_of_mem_eraseP hm, ?_⟩
  intro h
  have h1 : lookup (L.eraseP (fun n => n.addr == a)) a = none := by
    rw [lookup_eraseP hnd]; simp
  rw [lookup_eq_none] at h1
  exact h1 m hm h

theorem realloc_inv {s : State} (inv : s.Inv) (a : Allocator) (addr size : Nat) (file : String) (line : Nat)
    (sep : Bool) (result : Nat) (fill : UInt8) (hf : FreshAddr s (.realloc a addr size file line sep result fill)) :
    (realloc s a addr size file line sep result fill).1.Inv := by
  unfold realloc
  split
  · exact inv
  · split
    · rename_i ha
      apply reallocTail_none_inv inv
      rcases hf with h | h | h
      · exact Or.inl h
      · exact Or.inl (h.trans ha)
      · exact Or.inr h
    · rename_i ha
      split
      · exact inv
      · rename_i n hr
        have hn := (retrieve_some_iff inv).mp hr
        have inv1 : State.Inv { s with table := s.table.unlinkNode addr } := Table.Inv.unlink inv addr
        have hnodes1 := nodes_unlink inv addr
        have hgone : ∀ m ∈ State.nodes { s with table := s.table.unlinkNode addr }, m.addr ≠ addr := by
          intro m hm; rw [hnodes1] at hm; exact (mem_eraseP_addr inv.distinct hm).2
        simp only [prependEvs, reallocTail]
        split
        · -- the realloc failed: the old record is tracked again
          apply Table.Inv.add inv1
          · show n.addr ≠ 0
            rw [hn.2]; exact ha
          · intro m hm
            show m.addr ≠ n.addr
            rw [hn.2]; exact hgone m hm
        · rename_i hz
          apply store_inv inv1 _ _ _ _ _ _ _ hz
          intro m hm
          rcases hf with h | h | h
          · exact absurd h hz
          · rw [h]; exact hgone m hm
          · rw [hnodes1] at hm
            exact (isLive_false_iff result).mp h m (List.mem_of_mem_eraseP hm)

theorem realloc_abs {s : State} (inv : s.Inv) (a : Allocator) (addr size : Nat) (file : String) (line : Nat)
    (sep : Bool) (result : Nat) (fill : UInt8) (hf : FreshAddr s (.realloc a addr size file line sep result fill)) :
    abs (realloc s a addr size file line sep result fill).1 =
      Spec.step (abs s) (.realloc a addr size file line sep result fill) := by
  unfold realloc Spec.step
  by_cases ho : sizeOverflows size = true
  · simp [ho]
  · simp only [ho]
    by_cases ha : addr = 0
    · simp only [ha, if_true, reallocTail]
      by_cases hz : result = 0
      · simp [hz]
      · simp only [hz, if_false]
        have hfresh : ∀ n ∈ s.nodes, n.addr ≠ result := by
          rcases hf with h | h | h
          · exact absurd h hz
          · exact absurd (h.trans ha) hz
          · exact (isLive_false_iff result).mp h
        apply abs_ext
        · intro x
          exact retrieve_add inv (Spec.newNode (abs s) result size a file line sep fill) hz hfresh x
        all_goals rfl
    · simp only [ha, if_false]
      cases hr : s.table.retrieveNode addr with
      | none => simp [abs, hr]
      | some n =>
        have hn := (retrieve_some_iff inv).mp hr
        have inv1 : State.Inv { s with table := s.table.unlinkNode addr } := Table.Inv.unlink inv addr
        have hnodes1 := nodes_unlink inv addr
        have hgone : ∀ m ∈ State.nodes { s with table := s.table.unlinkNode addr }, m.addr ≠ addr := by
          intro m hm; rw [hnodes1] at hm; exact (mem_eraseP_addr inv.distinct hm).2
        have hmap : (abs s).map addr = some n := hr
        simp only [hmap, prependEvs, reallocTail]
        by_cases hz : result = 0
        · simp only [hz, if_true]
          apply abs_ext
          · intro x
            have hnz : ({ n with sepNode := sep } : Node).addr ≠ 0 := by show n.addr ≠ 0; rw [hn.2]; exact ha
            have hfr : ∀ m ∈ (s.table.unlinkNode addr).flat, m.addr ≠ ({ n with sepNode := sep } : Node).addr := by
              intro m hm; show m.addr ≠ n.addr; rw [hn.2]; exact hgone m hm
            have h1 := retrieve_add (t := s.table.unlinkNode addr) inv1 { n with sepNode := sep } hnz hfr x
            show (Table.addNewNode (s.table.unlinkNode addr) { n with sepNode := sep }).retrieveNode x = _
            rw [h1, retrieve_unlink inv addr x]
            show _ = Spec.Map.update (fun a => s.table.retrieveNode a) addr _ x
            simp only [Spec.Map.update]
            have e : ({ n with sepNode := sep } : Node).addr = addr := hn.2
            rw [e]
            by_cases hx : x = addr
            · simp [hx, hr, hn.2]
            · simp [hx]
          all_goals rfl
        · simp only [hz, if_false]
          have hfresh : ∀ m ∈ State.nodes { s with table := s.table.unlinkNode addr }, m.addr ≠ result := by
            intro m hm
            rcases hf with h | h | h
            · exact absurd h hz
            · rw [h]; exact hgone m hm
            · rw [hnodes1] at hm
              exact (isLive_false_iff result).mp h m (List.mem_of_mem_eraseP hm)
          apply abs_ext
          · intro x
            have h1 := retrieve_add (t := s.table.unlinkNode addr) inv1
              (Spec.newNode (abs s) result size a file line sep fill) hz hfresh x
            show (Table.addNewNode (s.table.unlinkNode addr) (Spec.newNode (abs s) result size a file line sep fill)).retrieveNode x = _
            rw [h1, retrieve_unlink inv addr x]
            rfl
          all_goals rfl

/-! ### clear, mark, stage release, contents -/

theorem clear_abs {s : State} (inv : s.Inv) (p : Period) :
    abs (clearAllAccounting s p) = Spec.step (abs s) (.clear p) := by
  apply abs_ext
  · intro x
    show (s.table.clearAllAccounting p).retrieveNode x = Option.filter _ (s.table.retrieveNode x)
    rw [(Table.Inv.clear inv p).retrieve_eq_find, Table.flat_clear, Table.Inv.retrieve_eq_find inv]
    have := lookup_filter inv.distinct (fun n => !isInPeriod p n) x
    unfold lookup at this
    rw [this]
    congr 1
    funext n
    rw [isInPeriod_eq_doc]
  all_goals rfl

theorem markChecking_abs {s : State} (inv : s.Inv) : abs (markChecking s) = Spec.step (abs s) .markChecking := by
  have h := markChecking_nodes inv
  apply abs_ext
  · intro x
    show (markChecking s).table.retrieveNode x = Option.map demote (s.table.retrieveNode x)
    rw [retrieve_eq_lookup h.2, h.1, lookup_map demote demote_addr, retrieve_eq_lookup inv]
  all_goals rfl

theorem deallocStage_abs {s : State} (inv : s.Inv) : abs (deallocStage s).1 = Spec.step (abs s) .deallocStage := by
  obtain ⟨h1, h2, h3, h4, h5, h6, _⟩ := deallocStage_spec inv
  apply abs_ext
  · intro x
    show (deallocStage s).1.table.retrieveNode x = Option.filter _ (s.table.retrieveNode x)
    rw [retrieve_eq_lookup h2, h1, retrieve_eq_lookup inv]
    exact lookup_filter inv.distinct _ x
  · exact h3
  · exact h4
  · exact h5
  · exact h6

theorem invalidate_inv {s : State} (inv : s.Inv) (addr : Nat) : (invalidateMemory s addr).Inv := by
  unfold invalidateMemory
  split
  · exact Table.Inv.modify inv poison poison_addr addr
  · exact inv

theorem invalidate_abs {s : State} (inv : s.Inv) (addr : Nat) :
    abs (invalidateMemory s addr) = Spec.step (abs s) (.invalidate addr) := by
  unfold invalidateMemory
  cases hr : s.table.retrieveNode addr with
  | some n =>
    apply abs_ext
    · intro x
      exact retrieve_modify inv poison poison_addr addr x
    all_goals rfl
  | none =>
    apply abs_ext
    · intro x
      show s.table.retrieveNode x = Spec.Map.update (fun a => s.table.retrieveNode a) addr poison x
      simp only [Spec.Map.update]
      by_cases hx : x = addr
      · simp [hx, hr]
      · simp [hx]
    all_goals rfl

theorem setByte_addr (off : Nat) (b : UInt8) (n : Node) : ({ n with bytes := setByte n.bytes off b } : Node).addr = n.addr := rfl

theorem write_inv {s : State} (inv : s.Inv) (addr off : Nat) (b : UInt8) : (writeByte s addr off b).Inv :=
  Table.Inv.modify inv _ (setByte_addr off b) addr

theorem write_abs {s : State} (inv : s.Inv) (addr off : Nat) (b : UInt8) :
    abs (writeByte s addr off b) = Spec.step (abs s) (.write addr off b) := by
  apply abs_ext
  · intro x
    exact retrieve_modify inv _ (setByte_addr off b) addr x
  all_goals rfl

/-! ### all operations -/

theorem step_inv {s : State} (inv : s.Inv) (op : Op) (hf : FreshAddr s op) : (step s op).1.Inv := by
  cases op with
  | alloc a size file line sep result nodeOk fill => exact alloc_inv inv a size file line sep result nodeOk fill hf
  | dealloc a addr file line sep => exact dealloc_inv inv a addr file line sep
  | realloc a addr size file line sep result fill => exact realloc_inv inv a addr size file line sep result fill hf
  | deallocStage => exact (deallocStage_spec inv).2.1
  | clear p => exact Table.Inv.clear inv p
  | markChecking => exact (markChecking_nodes inv).2
  | invalidate addr => exact invalidate_inv inv addr
  | write addr off b => exact write_inv inv addr off b
  | _ => exact inv

theorem step_abs {s : State} (inv : s.Inv) (op : Op) (hf : FreshAddr s op) :
    abs (step s op).1 = Spec.step (abs s) op := by
  cases op with
  | alloc a size file line sep result nodeOk fill => exact alloc_abs inv a size file line sep result nodeOk fill hf
  | dealloc a addr file line sep => exact dealloc_abs inv a addr file line sep
  | realloc a addr size file line sep result fill => exact realloc_abs inv a addr size file line sep result fill hf
  | deallocStage => exact deallocStage_abs inv
  | clear p => exact clear_abs inv p
  | markChecking => exact markChecking_abs inv
  | invalidate addr => exact invalidate_abs inv addr
  | write addr off b => exact write_abs inv addr off b
  | _ => rfl

/-! ## C06: guard bytes, families, classification of a release -/

theorem validGuardFrom_iff (n : Node) : ∀ (k i : Nat), validGuardFrom n i k = true ↔
    ∀ j, j < k → n.guardAt (i + j) = Gen.LeakDetector.guardBytes.getD ((i + j) % Gen.LeakDetector.guardBytes.length) 0
  | 0, i => by simp [validGuardFrom]
  | k + 1, i => by
    simp only [validGuardFrom]
    have ih := validGuardFrom_iff n k (i + 1)
    by_cases h : n.guardAt i = Gen.LeakDetector.guardBytes.getD (i % Gen.LeakDetector.guardBytes.length) 0
    · simp only [h, bne_self_eq_false, Bool.false_eq_true, if_false, ih]
      constructor
      · intro hall j hj
        cases j with
        | zero => simpa using h
        | succ j => have := hall j (by omega); simpa [Nat.add_assoc, Nat.add_comm 1 j] using this
      · intro hall j hj
        have := hall (j + 1) (by omega)
        simpa [Nat.add_assoc, Nat.add_comm 1 j] using this
    · have hb : (n.guardAt i != Gen.LeakDetector.guardBytes.getD (i % Gen.LeakDetector.guardBytes.length) 0) = true := by
        rw [bne_iff_ne]; exact h
      simp only [hb, if_true, Bool.false_eq_true, false_iff]
      intro hall
      exact h (by simpa using hall 0 (by omega))

theorem validGuard_iff (n : Node) : validGuard n = true ↔ GuardIntact n := by
  unfold validGuard GuardIntact
  rw [validGuardFrom_iff]
  simp

theorem actual_actual (a : Allocator) : a.actual.actual = a.actual := by
  induction a with
  | plain i n x f => rfl
  | wrap i o ih => simpa [Allocator.actual] using ih

theorem matching_iff (tc : Bool) (a b : Allocator) (hc : ConsistentIds a b) :
    matching tc a b = true ↔ tc = false ∨ family a = family b := by
  unfold matching Gen.LeakDetector.matchingAllocation family
  by_cases hid : a.actual.id = b.actual.id
  · have := hc hid
    simp [this]
  · have hb : (a.actual.id == b.actual.id) = false := by simp [hid]
    simp only [hb, Bool.false_eq_true, if_false]
    cases tc with
    | false => simp
    | true =>
      simp only [Bool.not_true, Bool.false_eq_true, if_false, beq_iff_eq]
      constructor
      · intro h; exact Or.inr h.symm
      · intro h
        rcases h with h | h
        · exact absurd h (by decide)
        · exact h.symm

theorem actual_wrap (i : Nat) (a : Allocator) : (Allocator.wrap i a).actual = a.actual := rfl

theorem family_wrap (i : Nat) (a : Allocator) : family (.wrap i a) = family a := rfl

theorem matching_wrap_left (tc : Bool) (i : Nat) (a b : Allocator) : matching tc (.wrap i a) b = matching tc a b := rfl

theorem matching_wrap_right (tc : Bool) (i : Nat) (a b : Allocator) : matching tc a (.wrap i b) = matching tc a b := rfl

theorem matching_actual (tc : Bool) (a b : Allocator) : matching tc a.actual b.actual = matching tc a b := by
  unfold matching; rw [actual_actual, actual_actual]

/-- the category a release reports, read off the table -/
def verdict (s : State) (a : Allocator) (addr : Nat) : Option FailKind :=
  if addr = 0 then none
  else
    match s.table.retrieveNode addr with
    | none => some .nonAllocated
    | some n =>
      if !matching s.typeChecking n.allocator a then some .mismatch
      else if !validGuard n then some .corruption
      else none

theorem firstFail_append_nofail (e1 e2 : List Ev) (h : firstFail e1 = none) : firstFail (e1 ++ e2) = firstFail e2 := by
  induction e1 with
  | nil => rfl
  | cons e es ih =>
    cases e <;> simp_all [firstFail]

theorem firstFail_check (tc : Bool) (n : Node) (file : String) (line : Nat) (a : Allocator) (sep : Bool) (rest : List Ev)
    (hrest : firstFail rest = none) :
    firstFail (checkForCorruption tc n file line a sep ++ rest) =
      if !matching tc n.allocator a then some .mismatch else if !validGuard n then some .corruption else none := by
  unfold checkForCorruption
  split
  · simp [firstFail, failEv]
  · split
    · simp [firstFail, failEv]
    · split <;> simp [firstFail, hrest]

theorem firstFail_dealloc (s : State) (a : Allocator) (addr : Nat) (file : String) (line : Nat) (sep : Bool) :
    firstFail (dealloc s a addr file line sep).2 = verdict s a addr := by
  unfold dealloc verdict
  by_cases hz : addr = 0
  · simp [hz, firstFail]
  · simp only [hz, if_false]
    cases hr : s.table.retrieveNode addr with
    | none => simp [firstFail, nonAllocatedEv]
    | some n => exact firstFail_check _ _ _ _ _ _ _ rfl

theorem validGuardFrom_congr {n m : Node} (h : ∀ i, n.guardAt i = m.guardAt i) :
    ∀ (k i : Nat), validGuardFrom n i k = validGuardFrom m i k
  | 0, _ => rfl
  | k + 1, i => by simp only [validGuardFrom, h i, validGuardFrom_congr h k (i + 1)]

theorem validGuard_congr {n m : Node} (h : ∀ i, n.guardAt i = m.guardAt i) : validGuard n = validGuard m :=
  validGuardFrom_congr h _ _

theorem guardAt_user_write (n : Node) (off : Nat) (b : UInt8) (hoff : off < n.size) (i : Nat) :
    ({ n with bytes := setByte n.bytes off b } : Node).guardAt i = n.guardAt i := by
  unfold Node.guardAt setByte
  simp only [List.getD_eq_getElem?_getD]
  rw [List.getElem?_set_ne (by omega)]

theorem guardAt_poison (n : Node) (i : Nat) : (poison n).guardAt i = n.guardAt i := by
  unfold Node.guardAt poison
  simp only [List.getD_eq_getElem?_getD]
  rw [List.getElem?_append_right (by simp)]
  simp

theorem user_poison (n : Node) : (poison n).user = List.replicate n.size Gen.LeakDetector.poisonByte := by
  unfold Node.user poison
  simp

theorem verdict_modify {s : State} (inv : s.Inv) (f : Node → Node) (hf : ∀ n, (f n).addr = n.addr)
    (ha : ∀ n, (f n).allocator = n.allocator) (hg : ∀ n i, (f n).guardAt i = n.guardAt i) (a0 : Nat)
    (a : Allocator) (addr : Nat) :
    verdict { s with table := s.table.modifyNode f a0 } a addr = verdict s a addr := by
  unfold verdict
  by_cases hz : addr = 0
  · simp [hz]
  · simp only [hz, if_false]
    rw [retrieve_modify inv f hf a0 addr]
    by_cases hx : addr = a0
    · simp only [hx, if_true]
      cases hr : s.table.retrieveNode a0 with
      | none => rfl
      | some n => simp only [Option.map, ha, validGuard_congr (hg n)]
    · simp [hx]

/-! ## sequence number, period switches, stage counter, allocation numbers -/

theorem successes_append (a b : List Ev) : successes (a ++ b) = successes a + successes b := by
  induction a with
  | nil => simp [successes]
  | cons e es ih => cases e <;> simp [successes, ih] <;> omega

theorem successes_check (tc : Bool) (n : Node) (file : String) (line : Nat) (a : Allocator) (sep : Bool) :
    successes (checkForCorruption tc n file line a sep) = 0 := by
  unfold checkForCorruption
  split
  · simp [successes, failEv]
  · split
    · simp [successes, failEv]
    · split <;> simp [successes]

theorem successes_nodeAlloc (sep : Bool) : successes (nodeAllocEvs sep) = 0 := by
  unfold nodeAllocEvs; split <;> simp [successes]

/-- a release returns nothing to its caller and keeps every scalar of the detector -/
theorem dealloc_keeps_scalars (s : State) (a : Allocator) (addr : Nat) (file : String) (line : Nat) (sep : Bool) :
    successes (dealloc s a addr file line sep).2 = 0 ∧
    (dealloc s a addr file line sep).1.period = s.period ∧ (dealloc s a addr file line sep).1.stage = s.stage ∧
    (dealloc s a addr file line sep).1.seq = s.seq ∧ (dealloc s a addr file line sep).1.typeChecking = s.typeChecking := by
  unfold dealloc
  split
  · simp [successes]
  · split
    · simp [successes, nonAllocatedEv]
    · simp [successes_append, successes_check, successes]

theorem stageLoop_keeps_scalars : ∀ (fuel : Nat) (s : State) (cur : Option Node),
    successes (stageLoop fuel s cur).2 = 0 ∧
    (stageLoop fuel s cur).1.period = s.period ∧ (stageLoop fuel s cur).1.stage = s.stage ∧
    (stageLoop fuel s cur).1.seq = s.seq ∧ (stageLoop fuel s cur).1.typeChecking = s.typeChecking
  | 0, s, cur => by simp [stageLoop, successes]
  | fuel + 1, s, none => by simp [stageLoop, successes]
  | fuel + 1, s, some node => by
    simp only [stageLoop, prependEvs, successes_append]
    have h1 := dealloc_keeps_scalars s node.allocator node.addr stageFile 0 false
    have h2 := stageLoop_keeps_scalars fuel (dealloc s node.allocator node.addr stageFile 0 false).1
      (s.table.getNextLeak (isInStage s.stage) node)
    obtain ⟨a1, a2, a3, a4, a5⟩ := h1
    obtain ⟨b1, b2, b3, b4, b5⟩ := h2
    refine ⟨by omega, b2.trans a2, b3.trans a3, b4.trans a4, b5.trans a5⟩

theorem seq_step (s : State) (op : Op) : (step s op).1.seq = s.seq + successes (step s op).2 := by
  cases op with
  | alloc a size file line sep result nodeOk fill =>
    simp only [step, alloc]
    split
    · simp [successes]
    · split
      · simp [successes]
      · rename_i hz
        split
        · simp [successes]
        · simp [storeLeakInformation, successes_append, successes_nodeAlloc, successes, hz]
  | dealloc a addr file line sep =>
    have := dealloc_keeps_scalars s a addr file line sep
    simp only [step]; omega
  | realloc a addr size file line sep result fill =>
    simp only [step, realloc]
    split
    · simp [successes]
    · split
      · unfold reallocTail
        split
        · simp [successes]
        · rename_i hz; simp [storeLeakInformation, successes_append, successes_nodeAlloc, successes, hz]
      · split
        · simp [successes, nonAllocatedEv]
        · simp only [prependEvs, successes_append, successes_check, Nat.zero_add]
          unfold reallocTail
          split
          · simp [successes, successes_append, successes_nodeAlloc]
          · rename_i hz; simp [storeLeakInformation, successes_append, successes_nodeAlloc, successes, hz]
  | deallocStage =>
    have := stageLoop_keeps_scalars (s.table.nodeCount + 1) s (s.table.getFirstLeak (isInStage s.stage))
    simp only [step, deallocStage]; omega
  | _ => simp [step, successes, startChecking, stopChecking, enable, disable, enableTypeChecking, disableTypeChecking,
      increaseStage, decreaseStage, clearAllAccounting, markChecking, invalidateMemory, writeByte] <;> (try split) <;> rfl

theorem period_step (s : State) (op : Op) : (step s op).1.period = (periodSwitch op).getD s.period := by
  cases op with
  | alloc a size file line sep result nodeOk fill =>
    simp only [step, alloc, periodSwitch]
    split
    · rfl
    · split
      · rfl
      · split <;> rfl
  | dealloc a addr file line sep => exact (dealloc_keeps_scalars s a addr file line sep).2.1
  | realloc a addr size file line sep result fill =>
    simp only [step, realloc, periodSwitch]
    split
    · rfl
    · split
      · unfold reallocTail; split <;> rfl
      · split
        · rfl
        · simp only [prependEvs]; unfold reallocTail; split
          · rfl
          · rfl
  | deallocStage => exact (stageLoop_keeps_scalars _ s _).2.1
  | invalidate addr => simp only [step, invalidateMemory, periodSwitch]; split <;> rfl
  | _ => rfl

theorem stage_step (s : State) (op : Op) :
    (step s op).1.stage = match op with
      | .incStage => s.stage + 1
      | .decStage => s.stage - 1
      | _ => s.stage := by
  cases op with
  | alloc a size file line sep result nodeOk fill =>
    simp only [step, alloc]
    split
    · rfl
    · split
      · rfl
      · split <;> rfl
  | dealloc a addr file line sep => exact (dealloc_keeps_scalars s a addr file line sep).2.2.1
  | realloc a addr size file line sep result fill =>
    simp only [step, realloc]
    split
    · rfl
    · split
      · unfold reallocTail; split <;> rfl
      · split
        · rfl
        · simp only [prependEvs]; unfold reallocTail; split
          · rfl
          · rfl
  | deallocStage => exact (stageLoop_keeps_scalars _ s _).2.2.1
  | invalidate addr => simp only [step, invalidateMemory]; split <;> rfl
  | _ => rfl

theorem increaseStageTimes_stage (k : Nat) (s : State) :
    (increaseStageTimes k s).stage = s.stage + BitVec.ofNat 8 k := by
  induction k with
  | zero => simp [increaseStageTimes]
  | succ k ih =>
    simp only [increaseStageTimes, increaseStage, ih]
    rw [BitVec.add_assoc]
    congr 1
    rw [BitVec.ofNat_add]
    rfl

theorem increaseStageTimes_nodes (k : Nat) (s : State) : (increaseStageTimes k s).nodes = s.nodes := by
  induction k with
  | zero => rfl
  | succ k ih => simpa [increaseStageTimes, increaseStage, State.nodes] using ih

/-! ### allocation numbers identify the records -/

def NumOk (L : List Node) (seq : Nat) : Prop := (∀ n ∈ L, n.number < seq) ∧ (L.map (·.number)).Nodup

theorem numOk_sublist {L L' : List Node} {seq : Nat} (h : L'.Sublist L) (ok : NumOk L seq) : NumOk L' seq :=
  ⟨fun n hn => ok.1 n (h.subset hn), (h.map _).nodup ok.2⟩

theorem numOk_perm {L L' : List Node} {seq : Nat} (h : L'.Perm L) (ok : NumOk L seq) : NumOk L' seq :=
  ⟨fun n hn => ok.1 n (h.mem_iff.mp hn), ((h.map _).nodup_iff).mpr ok.2⟩

theorem numOk_cons_new {L : List Node} {seq : Nat} (n : Node) (hn : n.number = seq) (ok : NumOk L seq) :
    NumOk (n :: L) (seq + 1) := by
  refine ⟨?_, ?_⟩
  · intro m hm
    simp only [List.mem_cons] at hm
    rcases hm with rfl | hm
    · omega
    · have := ok.1 m hm; omega
  · simp only [List.map_cons, List.nodup_cons, List.mem_map, not_exists, not_and]
    refine ⟨?_, ok.2⟩
    intro m hm h
    have := ok.1 m hm
    omega

theorem numOk_map {L : List Node} {seq : Nat} (f : Node → Node) (hf : ∀ n, (f n).number = n.number) (ok : NumOk L seq) :
    NumOk (L.map f) seq := by
  refine ⟨?_, ?_⟩
  · intro m hm
    obtain ⟨x, hx, rfl⟩ := List.mem_map.mp hm
    rw [hf]; exact ok.1 x hx
  · rw [List.map_map]
    have : ((fun n : Node => n.number) ∘ f) = (fun n => n.number) := by funext n; exact hf n
    rw [this]; exact ok.2

theorem map_number_modifyNode (f : Node → Node) (hf : ∀ n, (f n).number = n.number) (l : List Node) (a : Nat) :
    (Bucket.modifyNode f l a).map (·.number) = l.map (·.number) := by
  induction l with
  | nil => rfl
  | cons x xs ih =>
    by_cases hx : x.addr = a
    · simp [Bucket.modifyNode, hx, hf]
    · simp [Bucket.modifyNode, hx, ih]

theorem numOk_modifyNode {L : List Node} {seq : Nat} (f : Node → Node) (hf : ∀ n, (f n).number = n.number) (a : Nat)
    (ok : NumOk L seq) : NumOk (Bucket.modifyNode f L a) seq := by
  refine ⟨?_, ?_⟩
  · intro m hm
    rcases Table.Bucket.mem_modifyNode f L a m hm with h | ⟨x, hx, rfl⟩
    · exact ok.1 m h
    · rw [hf]; exact ok.1 x hx
  · rw [map_number_modifyNode f hf]; exact ok.2

theorem numOk_readd {A B : List Node} {o o' : Node} {seq : Nat} (ho : o'.number = o.number)
    (ok : NumOk (A ++ o :: B) seq) : NumOk (o' :: (A ++ B)) seq := by
  have ok2 : NumOk (o :: (A ++ B)) seq := numOk_perm List.perm_middle.symm ok
  refine ⟨?_, ?_⟩
  · intro m hm
    simp only [List.mem_cons] at hm
    rcases hm with rfl | hm
    · rw [ho]; exact ok2.1 o (by simp)
    · exact ok2.1 m (by simp [hm])
  · have := ok2.2
    simp only [List.map_cons] at this ⊢
    rw [ho]; exact this

theorem nodes_store_perm {s : State} (inv : s.Inv) (addr size : Nat) (a : Allocator) (file : String) (line : Nat)
    (sep : Bool) (fill : UInt8) :
    (storeLeakInformation s addr size a file line sep fill).nodes.Perm
      (Spec.newNode (abs s) addr size a file line sep fill :: s.nodes) :=
  Table.Inv.flat_add_perm inv _

theorem numInv_step {s : State} (inv : s.Inv) (op : Op) (hf : FreshAddr s op) (ok : NumInv s) : NumInv (step s op).1 := by
  have ok' : NumOk s.nodes s.seq := ok
  show NumOk (step s op).1.nodes (step s op).1.seq
  cases op with
  | alloc a size file line sep result nodeOk fill =>
    simp only [step, alloc]
    split
    · exact ok'
    · split
      · exact ok'
      · split
        · exact ok'
        · exact numOk_perm (nodes_store_perm inv _ _ _ _ _ _ _) (numOk_cons_new _ rfl ok')
  | dealloc a addr file line sep =>
    simp only [step, dealloc]
    split
    · exact ok'
    · split
      · exact ok'
      · show NumOk (State.nodes { s with table := s.table.unlinkNode addr }) s.seq
        rw [nodes_unlink inv]
        exact numOk_sublist List.eraseP_sublist ok'
  | realloc a addr size file line sep result fill =>
    simp only [step, realloc]
    split
    · exact ok'
    · split
      · unfold reallocTail
        split
        · exact ok'
        · exact numOk_perm (nodes_store_perm inv _ _ _ _ _ _ _) (numOk_cons_new _ rfl ok')
      · split
        · exact ok'
        · rename_i n hr
          have hn := (retrieve_some_iff inv).mp hr
          have inv1 : State.Inv { s with table := s.table.unlinkNode addr } := Table.Inv.unlink inv addr
          have hnodes1 := nodes_unlink inv addr
          simp only [prependEvs]
          unfold reallocTail
          split
          · -- failed: the old record comes back
            show NumOk (Table.flat (Table.addNewNode (s.table.unlinkNode addr) { n with sepNode := sep })) s.seq
            have hp := Table.Inv.flat_add_perm inv1 { n with sepNode := sep }
            refine numOk_perm hp ?_
            have hl : lookup s.nodes addr = some n := by rw [← retrieve_eq_lookup inv]; exact hr
            obtain ⟨s1, s2, hs, _, _⟩ := find_split hl
            have hnd : ((s1 ++ n :: s2).map (·.addr)).Nodup := by rw [← hs]; exact inv.distinct
            have he : (s.table.unlinkNode addr).flat = s1 ++ s2 := by
              have := hnodes1
              simp only [State.nodes] at this
              rw [this]
              show s.nodes.eraseP _ = _
              rw [hs, ← hn.2, eraseP_split hnd]
            rw [he]
            rw [hs] at ok'
            exact numOk_readd (o := n) (o' := { n with sepNode := sep }) rfl ok'
          · refine numOk_perm (nodes_store_perm inv1 _ _ _ _ _ _ _) (numOk_cons_new _ rfl ?_)
            show NumOk (State.nodes { s with table := s.table.unlinkNode addr }) s.seq
            rw [hnodes1]
            exact numOk_sublist List.eraseP_sublist ok'
  | deallocStage =>
    obtain ⟨h1, _, _, _, h5, _, _⟩ := deallocStage_spec inv
    simp only [step]
    rw [h1, h5]
    exact numOk_sublist List.filter_sublist ok'
  | clear p =>
    show NumOk (s.table.clearAllAccounting p).flat s.seq
    rw [Table.flat_clear]
    exact numOk_sublist List.filter_sublist ok'
  | markChecking =>
    simp only [step]
    rw [(markChecking_nodes inv).1]
    exact numOk_map demote (by intro n; unfold demote; split <;> rfl) ok'
  | invalidate addr =>
    simp only [step, invalidateMemory]
    split
    · show NumOk (s.table.modifyNode poison addr).flat s.seq
      rw [Table.Inv.flat_modify inv]
      exact numOk_modifyNode poison (fun _ => rfl) addr ok'
    · exact ok'
  | write addr off b =>
    show NumOk (s.table.modifyNode _ addr).flat s.seq
    rw [Table.Inv.flat_modify inv]
    exact numOk_modifyNode (fun n => { n with bytes := setByte n.bytes off b }) (fun _ => rfl) addr ok'
  | _ => exact ok'

end LeakDetector
