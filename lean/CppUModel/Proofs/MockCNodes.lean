import CppUModel.Spec.MockCNodes
namespace MockC.Nodes
open MockC

/-- one iteration of the required loop body on a well-formed non-empty list: the head is deleted, the rest stays -/
theorem body_iter (L : String) (s : LState) (h : Nat) (t : List Nat) (hc : s.chain = h :: t) (hl : s.live = h :: t)
    (hb : s.bad = false) :
    bodyStep L (Req.loopBody L) s = { chain := t, nxt := some t, live := t, freed := s.freed ++ [h], bad := false } := by
  simp [bodyStep, Req.loopBody, stmtStep, hc, hl, hb]

/-- the required loop frees exactly the nodes of the list, in list order, each once, and terminates -/
theorem runLoop_frees (L : String) : ∀ (n : Nat) (s : LState), LInv s → s.live.length ≤ n →
    (runLoop ⟨L, Req.loopBody L⟩ n s).chain = [] ∧ (runLoop ⟨L, Req.loopBody L⟩ n s).live = [] ∧
    (runLoop ⟨L, Req.loopBody L⟩ n s).freed = s.freed ++ s.live ∧ (runLoop ⟨L, Req.loopBody L⟩ n s).bad = false
  | 0, s, inv, hn => by
    have hl : s.live = [] := List.eq_nil_of_length_eq_zero (Nat.le_zero.mp hn)
    have hc : s.chain = [] := by rw [inv.chain_live, hl]
    simp [runLoop, hc, hl, inv.ok]
  | n + 1, s, inv, hn => by
    cases hl : s.live with
    | nil =>
      have hc : s.chain = [] := by rw [inv.chain_live, hl]
      simp [runLoop, hc, hl, inv.ok]
    | cons h t =>
      have hc : s.chain = h :: t := by rw [inv.chain_live, hl]
      have hit := body_iter L s h t hc hl inv.ok
      have ih := runLoop_frees L n { chain := t, nxt := some t, live := t, freed := s.freed ++ [h], bad := false }
        ⟨rfl, rfl⟩ (by rw [hl] at hn; simpa using hn)
      simp only [runLoop, hc, List.isEmpty_cons, Bool.false_eq_true, if_false, hit]
      simpa [List.append_assoc] using ih

theorem runLoop_inv (L : String) (s : LState) (inv : LInv s) :
    LInv (runLoop ⟨L, Req.loopBody L⟩ (s.live.length + 1) s) := by
  have h := runLoop_frees L (s.live.length + 1) s inv (Nat.le_succ _)
  exact ⟨by rw [h.1, h.2.1], h.2.2.2⟩

theorem install_inv (c : NodeCtor) (hc : ctorLinks c = true) (id : Nat) (s : LState) (inv : LInv s) :
    LInv (install c id s) := by
  simp only [install, hc, if_true]
  exact ⟨by simp [inv.chain_live], inv.ok⟩

theorem install_live (c : NodeCtor) (id : Nat) (s : LState) : (install c id s).live = id :: s.live := by
  unfold install; split <;> rfl

theorem install_freed (c : NodeCtor) (id : Nat) (s : LState) : (install c id s).freed = s.freed := by
  unfold install; split <;> rfl

/-! the lookups the interpreter makes in the regenerated tables (independent of the order of the two loops / classes in
    the source) -/
theorem loopOf_cmp : loopOf Gen.CMock.removeAllLoops "comparatorList_" = ⟨"comparatorList_", Req.loopBody "comparatorList_"⟩ := by
  decide
theorem loopOf_cpy : loopOf Gen.CMock.removeAllLoops "copierList_" = ⟨"copierList_", Req.loopBody "copierList_"⟩ := by
  decide
theorem ctor_cmp_links : ctorLinks (ctorOf Gen.CMock.nodeCtors "MockCFunctionComparatorNode") = true := by
  decide
theorem ctor_cpy_links : ctorLinks (ctorOf Gen.CMock.nodeCtors "MockCFunctionCopierNode") = true := by
  decide

/-! ## both lists -/

theorem perm_of_counts {l₁ l₂ : List Nat} (h : ∀ a, l₁.count a = l₂.count a) : l₁.Perm l₂ :=
  List.perm_iff_count.mpr h

theorem range_succ_count (n a : Nat) : (List.range (n + 1)).count a = (List.range n).count a + (if a = n then 1 else 0) := by
  rw [List.range_succ, List.count_append]
  by_cases h : a = n
  · subst h; simp
  · have h' : ¬ n = a := fun e => h e.symm
    simp [h, h']

theorem nstep_inv (s : NState) (o : NOp) (inv : NInv s) : NInv (nstep s o) := by
  have hacc := fun a => (List.perm_iff_count.mp inv.account) a
  cases o with
  | installComparator =>
    refine ⟨install_inv _ ctor_cmp_links _ _ inv.cmp, inv.cpy, ?_⟩
    apply perm_of_counts
    intro a
    have := hacc a
    simp only [nstep, nstepWith, NState.freed, NState.live, install_live, install_freed, List.count_append,
      List.count_cons, range_succ_count] at this ⊢
    by_cases h : a = s.fresh
    · subst h; simp at this ⊢; omega
    · have h' : ¬ s.fresh = a := fun e => h e.symm
      simp [h, h'] at this ⊢; omega
  | installCopier =>
    refine ⟨inv.cmp, install_inv _ ctor_cpy_links _ _ inv.cpy, ?_⟩
    apply perm_of_counts
    intro a
    have := hacc a
    simp only [nstep, nstepWith, NState.freed, NState.live, install_live, install_freed, List.count_append,
      List.count_cons, range_succ_count] at this ⊢
    by_cases h : a = s.fresh
    · subst h; simp at this ⊢; omega
    · have h' : ¬ s.fresh = a := fun e => h e.symm
      simp [h, h'] at this ⊢; omega
  | removeAll =>
    have h1 := runLoop_frees "comparatorList_" (s.cmp.live.length + 1) s.cmp inv.cmp (Nat.le_succ _)
    have h2 := runLoop_frees "copierList_" (s.cpy.live.length + 1) s.cpy inv.cpy (Nat.le_succ _)
    refine ⟨?_, ?_, ?_⟩
    · simp only [nstep, nstepWith, loopOf_cmp]; exact runLoop_inv _ _ inv.cmp
    · simp only [nstep, nstepWith, loopOf_cpy]; exact runLoop_inv _ _ inv.cpy
    · apply perm_of_counts
      intro a
      have := hacc a
      simp only [nstep, nstepWith, loopOf_cmp, loopOf_cpy, NState.freed, NState.live, h1.2.1, h1.2.2.1, h2.2.1, h2.2.2.1,
        List.count_append, List.count_nil] at this ⊢
      omega

theorem nrun_inv : ∀ (os : List NOp) (s : NState), NInv s → NInv (nrun s os)
  | [], _, inv => inv
  | o :: rest, s, inv => by
    simp only [nrun, List.foldl_cons]
    exact nrun_inv rest (nstep s o) (nstep_inv s o inv)

theorem ninv_init : NInv {} := ⟨⟨rfl, rfl⟩, ⟨rfl, rfl⟩, by simp [NState.freed, NState.live]⟩

theorem removeAll_live (s : NState) (inv : NInv s) : (nstep s .removeAll).live = [] := by
  have h1 := runLoop_frees "comparatorList_" (s.cmp.live.length + 1) s.cmp inv.cmp (Nat.le_succ _)
  have h2 := runLoop_frees "copierList_" (s.cpy.live.length + 1) s.cpy inv.cpy (Nat.le_succ _)
  simp only [nstep, nstepWith, loopOf_cmp, loopOf_cpy, NState.live, h1.2.1, h2.2.1, List.append_nil]

theorem removeAll_freed (s : NState) (inv : NInv s) :
    (nstep s .removeAll).freed = (s.cmp.freed ++ s.cmp.live) ++ (s.cpy.freed ++ s.cpy.live) := by
  have h1 := runLoop_frees "comparatorList_" (s.cmp.live.length + 1) s.cmp inv.cmp (Nat.le_succ _)
  have h2 := runLoop_frees "copierList_" (s.cpy.live.length + 1) s.cpy inv.cpy (Nat.le_succ _)
  simp only [nstep, nstepWith, loopOf_cmp, loopOf_cpy, NState.freed, h1.2.2.1, h2.2.2.1]

theorem ninv_not_bad (s : NState) (inv : NInv s) : s.bad = false := by
  simp [NState.bad, inv.cmp.ok, inv.cpy.ok]

theorem install_live_mem (s : NState) (o : NOp) (ho : o ≠ .removeAll) (a : Nat) (h : a ∈ s.live) : a ∈ (nstep s o).live := by
  cases o with
  | installComparator =>
    simp only [nstep, nstepWith, NState.live, install_live, List.mem_append, List.mem_cons] at h ⊢
    rcases h with h | h
    · exact Or.inl (Or.inr h)
    · exact Or.inr h
  | installCopier =>
    simp only [nstep, nstepWith, NState.live, install_live, List.mem_append, List.mem_cons] at h ⊢
    rcases h with h | h
    · exact Or.inl h
    · exact Or.inr (Or.inr h)
  | removeAll => exact absurd rfl ho

theorem install_fresh_live (s : NState) (o : NOp) (ho : o ≠ .removeAll) : s.fresh ∈ (nstep s o).live := by
  cases o with
  | installComparator => simp [nstep, nstepWith, NState.live, install_live]
  | installCopier => simp [nstep, nstepWith, NState.live, install_live]
  | removeAll => exact absurd rfl ho


/-! ## the references -/

theorem reach_sub (w : World) (s : String) (hs : s ∈ w.scopes) : ∀ t ∈ reach w s, t ∈ w.scopes := by
  intro t ht
  unfold reach at ht
  split at ht
  · exact ht
  · simp at ht; rw [ht]; exact hs

theorem not_dangling_of_inv (w : World) (d : Disc) (inv : WInv w d) : dangling w = false := by
  unfold dangling
  rw [Bool.eq_false_iff]
  intro h
  obtain ⟨r, hr, hd⟩ := List.any_eq_true.mp h
  have := inv.refs_live r hr
  simp [this] at hd

theorem stepC_inv (w : World) (d d' : Disc) (o : AOp) (inv : WInv w d) (hd : discStep d o = some d') :
    WInv (stepC w o) d' := by
  cases o with
  | scope s =>
    simp only [discStep, Option.some.injEq] at hd
    subst hd
    simp only [stepC, stepWith]
    split
    · rename_i hc
      exact { nodes := inv.nodes, cur := rfl, glob := inv.glob, refs_live := inv.refs_live, exp_pending := inv.exp_pending,
              cur_known := (fun t ht => by
                simp only [Option.some.injEq] at ht; subst ht; exact List.contains_iff_mem.mp hc),
              holder_known := inv.holder_known }
    · refine { nodes := inv.nodes, cur := rfl, glob := List.mem_append_left _ inv.glob, refs_live := ?_,
               exp_pending := ?_, cur_known := ?_, holder_known := ?_ }
      · intro r hr
        rcases List.mem_append.mp hr with hr | hr
        · exact inv.refs_live r hr
        · obtain ⟨r0, hr0, rfl⟩ := List.mem_map.mp hr
          exact inv.refs_live r0 (List.mem_filter.mp hr0).1
      · intro hp r hr
        rcases List.mem_append.mp hr with hr | hr
        · exact inv.exp_pending hp r hr
        · obtain ⟨r0, _, rfl⟩ := List.mem_map.mp hr
          rfl
      · intro t ht
        simp only [Option.some.injEq] at ht
        subst ht
        exact List.mem_append_right _ (List.mem_singleton.mpr rfl)
      · intro r hr
        rcases List.mem_append.mp hr with hr | hr
        · exact List.mem_append_left _ (inv.holder_known r hr)
        · obtain ⟨r0, _, rfl⟩ := List.mem_map.mp hr
          exact List.mem_append_right _ (List.mem_singleton.mpr rfl)
  | installComparator =>
    simp only [discStep, Option.some.injEq] at hd
    subst hd
    cases hc : w.cur with
    | none => simpa [stepC, stepWith, hc] using inv
    | some s =>
      have hs := inv.cur_known s hc
      simp only [stepC, stepWith, hc]
      refine { nodes := nstep_inv w.nodes .installComparator inv.nodes, cur := (by rw [inv.cur, hc]), glob := inv.glob, refs_live := ?_,
               exp_pending := ?_, cur_known := fun t ht => inv.cur_known t (by rw [hc]; exact ht), holder_known := ?_ }
      · intro r hr
        rcases List.mem_append.mp hr with hr | hr
        · exact install_live_mem w.nodes .installComparator (by decide) _ (inv.refs_live r hr)
        · obtain ⟨t, _, rfl⟩ := List.mem_map.mp hr
          exact install_fresh_live w.nodes .installComparator (by decide)
      · intro hp r hr
        rcases List.mem_append.mp hr with hr | hr
        · exact inv.exp_pending hp r hr
        · obtain ⟨t, _, rfl⟩ := List.mem_map.mp hr
          rfl
      · intro r hr
        rcases List.mem_append.mp hr with hr | hr
        · exact inv.holder_known r hr
        · obtain ⟨t, ht, rfl⟩ := List.mem_map.mp hr
          exact reach_sub w s hs t ht
  | installCopier =>
    simp only [discStep, Option.some.injEq] at hd
    subst hd
    cases hc : w.cur with
    | none => simpa [stepC, stepWith, hc] using inv
    | some s =>
      have hs := inv.cur_known s hc
      simp only [stepC, stepWith, hc]
      refine { nodes := nstep_inv w.nodes .installCopier inv.nodes, cur := (by rw [inv.cur, hc]), glob := inv.glob, refs_live := ?_,
               exp_pending := ?_, cur_known := fun t ht => inv.cur_known t (by rw [hc]; exact ht), holder_known := ?_ }
      · intro r hr
        rcases List.mem_append.mp hr with hr | hr
        · exact install_live_mem w.nodes .installCopier (by decide) _ (inv.refs_live r hr)
        · obtain ⟨t, _, rfl⟩ := List.mem_map.mp hr
          exact install_fresh_live w.nodes .installCopier (by decide)
      · intro hp r hr
        rcases List.mem_append.mp hr with hr | hr
        · exact inv.exp_pending hp r hr
        · obtain ⟨t, _, rfl⟩ := List.mem_map.mp hr
          rfl
      · intro r hr
        rcases List.mem_append.mp hr with hr | hr
        · exact inv.holder_known r hr
        · obtain ⟨t, ht, rfl⟩ := List.mem_map.mp hr
          exact reach_sub w s hs t ht
  | expectTyped =>
    simp only [discStep, Option.some.injEq] at hd
    subst hd
    cases hc : w.cur with
    | none =>
      simp only [stepC, stepWith, hc]
      exact { nodes := inv.nodes, cur := (by simpa [hc] using inv.cur), glob := inv.glob, refs_live := inv.refs_live,
              exp_pending := (fun hp => by simp at hp), cur_known := (fun t ht => by rw [hc] at ht; cases ht),
              holder_known := inv.holder_known }
    | some s =>
      have hs := inv.cur_known s hc
      simp only [stepC, stepWith, hc]
      refine { nodes := inv.nodes, cur := (by simpa [hc] using inv.cur), glob := inv.glob, refs_live := ?_,
               exp_pending := (fun hp => by simp at hp),
               cur_known := fun t ht => inv.cur_known t (by rw [hc]; exact ht), holder_known := ?_ }
      · intro r hr
        rcases List.mem_append.mp hr with hr | hr
        · exact inv.refs_live r hr
        · obtain ⟨r0, hr0, rfl⟩ := List.mem_map.mp hr
          exact inv.refs_live r0 (List.mem_filter.mp hr0).1
      · intro r hr
        rcases List.mem_append.mp hr with hr | hr
        · exact inv.holder_known r hr
        · obtain ⟨r0, _, rfl⟩ := List.mem_map.mp hr
          exact hs
  | clear =>
    simp only [discStep, Option.some.injEq] at hd
    cases hc : w.cur with
    | none =>
      have hdc : d.cur = none := by rw [inv.cur, hc]
      simp only [hdc] at hd
      have : d' = d := by simpa using hd.symm
      subst this
      simpa [stepC, stepWith, hc] using inv
    | some s =>
      simp only [stepC, stepWith, hc]
      have hsub : ∀ r ∈ w.refs.filter (fun r => !((reach w s).any (fun t => isExpOf t r))), r ∈ w.refs :=
        fun r hr => (List.mem_filter.mp hr).1
      refine { nodes := inv.nodes, cur := ?_, glob := inv.glob, refs_live := fun r hr => inv.refs_live r (hsub r hr),
               exp_pending := ?_, cur_known := fun t ht => inv.cur_known t (by rw [hc]; exact ht),
               holder_known := fun r hr => inv.holder_known r (hsub r hr) }
      · rw [← hd]; split <;> simp [inv.cur, hc]
      · intro hp r hr
        have hmem := List.mem_filter.mp hr
        by_cases hg : d.cur = some ""
        · have hs : s = "" := by rw [inv.cur, hc] at hg; simpa using hg
          subst hs
          cases hr1 : r.1 with
          | repo t => simp [isRepo, hr1]
          | exp t =>
            have hk := inv.holder_known r hmem.1
            simp only [hr1, Holder.scope] at hk
            have hany : (reach w "").any (fun t => isExpOf t r) = true :=
              List.any_eq_true.mpr ⟨t, by simpa [reach] using hk, by simp [isExpOf, hr1]⟩
            have := hmem.2
            simp [hany] at this
        · simp only [hg, if_false] at hd
          have : d' = d := by simpa using hd.symm
          subst this
          exact inv.exp_pending hp r hmem.1
  | removeAll =>
    simp only [discStep] at hd
    cases hc : w.cur with
    | none =>
      have hdc : d.cur = none := by rw [inv.cur, hc]
      simp [hdc] at hd
      subst hd
      simpa [stepC, stepWith, hc] using inv
    | some s =>
      have hdc : d.cur = some s := by rw [inv.cur, hc]
      by_cases hok : d.cur = some "" ∧ d.pending = false
      · simp only [hok, and_self, if_true, Option.some.injEq] at hd
        subst hd
        have hs : s = "" := by rw [hdc] at hok; simpa using hok.1
        subst hs
        have hnil : w.refs.filter (fun r => !((reach w "").any (fun t => isRepoOf t r))) = [] := by
          apply List.filter_eq_nil_iff.mpr
          intro r hr
          have hrepo := inv.exp_pending hok.2 r hr
          have hk := inv.holder_known r hr
          cases hr1 : r.1 with
          | exp t => simp [isRepo, hr1] at hrepo
          | repo t =>
            simp only [hr1, Holder.scope] at hk
            have hany : (reach w "").any (fun t => isRepoOf t r) = true :=
              List.any_eq_true.mpr ⟨t, by simpa [reach] using hk, by simp [isRepoOf, hr1]⟩
            simp [hany]
        simp only [stepC, stepWith, hc, if_true, hnil]
        exact { nodes := nstep_inv w.nodes .removeAll inv.nodes, cur := (by rw [hdc]), glob := inv.glob,
                refs_live := (fun r hr => by cases hr), exp_pending := (fun _ r hr => by cases hr),
                cur_known := fun t ht => inv.cur_known t (by rw [hc]; exact ht), holder_known := (fun r hr => by cases hr) }
      · have hne : d.cur ≠ none := by rw [hdc]; simp
        simp [hok, hne] at hd

theorem runC_inv : ∀ (os : List AOp) (w : World) (d : Disc), WInv w d → disciplinedFrom d os = true →
    ∃ d', WInv (runC w os) d'
  | [], w, d, inv, _ => ⟨d, inv⟩
  | o :: rest, w, d, inv, h => by
    simp only [disciplinedFrom] at h
    cases hd : discStep d o with
    | none => simp [hd] at h
    | some d' =>
      simp only [hd] at h
      simp only [runC, List.foldl_cons]
      exact runC_inv rest (stepC w o) d' (stepC_inv w d d' o inv hd) h

/-- through the C++ interface nothing is ever deleted: every reference stays valid -/
theorem stepX_live (w : World) (o : AOp) (h : ∀ r ∈ w.refs, r.2 ∈ w.nodes.live) :
    ∀ r ∈ (stepX w o).refs, r.2 ∈ (stepX w o).nodes.live := by
  cases o with
  | scope s =>
    simp only [stepX, stepWith]
    split
    · exact h
    · intro r hr
      rcases List.mem_append.mp hr with hr | hr
      · exact h r hr
      · obtain ⟨r0, hr0, rfl⟩ := List.mem_map.mp hr
        exact h r0 (List.mem_filter.mp hr0).1
  | installComparator =>
    cases hc : w.cur with
    | none => simpa [stepX, stepWith, hc] using h
    | some s =>
      simp only [stepX, stepWith, hc]
      intro r hr
      rcases List.mem_append.mp hr with hr | hr
      · exact install_live_mem w.nodes .installComparator (by decide) _ (h r hr)
      · obtain ⟨t, _, rfl⟩ := List.mem_map.mp hr
        exact install_fresh_live w.nodes .installComparator (by decide)
  | installCopier =>
    cases hc : w.cur with
    | none => simpa [stepX, stepWith, hc] using h
    | some s =>
      simp only [stepX, stepWith, hc]
      intro r hr
      rcases List.mem_append.mp hr with hr | hr
      · exact install_live_mem w.nodes .installCopier (by decide) _ (h r hr)
      · obtain ⟨t, _, rfl⟩ := List.mem_map.mp hr
        exact install_fresh_live w.nodes .installCopier (by decide)
  | expectTyped =>
    cases hc : w.cur with
    | none => simpa [stepX, stepWith, hc] using h
    | some s =>
      simp only [stepX, stepWith, hc]
      intro r hr
      rcases List.mem_append.mp hr with hr | hr
      · exact h r hr
      · obtain ⟨r0, hr0, rfl⟩ := List.mem_map.mp hr
        exact h r0 (List.mem_filter.mp hr0).1
  | clear =>
    cases hc : w.cur with
    | none => simpa [stepX, stepWith, hc] using h
    | some s =>
      simp only [stepX, stepWith, hc]
      intro r hr
      exact h r (List.mem_filter.mp hr).1
  | removeAll =>
    cases hc : w.cur with
    | none => simpa [stepX, stepWith, hc] using h
    | some s =>
      simp only [stepX, stepWith, hc, Bool.false_eq_true, if_false]
      intro r hr
      exact h r (List.mem_filter.mp hr).1

theorem runX_live : ∀ (os : List AOp) (w : World), (∀ r ∈ w.refs, r.2 ∈ w.nodes.live) →
    ∀ r ∈ (runX w os).refs, r.2 ∈ (runX w os).nodes.live
  | [], _, h => h
  | o :: rest, w, h => by
    simp only [runX, List.foldl_cons]
    exact runX_live rest (stepX w o) (stepX_live w o h)

theorem runX_not_dangling (os : List AOp) : dangling (runX {} os) = false := by
  have hl := runX_live os {} (fun r hr => by cases hr)
  unfold dangling
  rw [Bool.eq_false_iff]
  intro h
  obtain ⟨r, hr, hd⟩ := List.any_eq_true.mp h
  have := hl r hr
  simp [this] at hd

theorem winv_init : WInv {} {} :=
  { nodes := ninv_init, cur := rfl, glob := (by simp), refs_live := (fun r hr => by cases hr),
    exp_pending := (fun _ r hr => by cases hr), cur_known := (fun t ht => by cases ht), holder_known := (fun r hr => by cases hr) }

end MockC.Nodes
