import CppUModel.Spec.CacheHeap
import CppUModel.Proofs.Cache
namespace Cache.Heap
open Cache

/-- frame: a chain only depends on the cells of its own nodes -/
theorem isList_frame (cells cells' : Nat → Option Cell) :
    ∀ (bs : List Block) (p : Nat), (∀ b ∈ bs, cells' b.node = cells b.node) →
      IsList cells p bs → IsList cells' p bs
  | [], _, _, h => h
  | b :: bs, p, hag, h => by
    obtain ⟨h0, hp, nx, hc, hr⟩ := h
    refine ⟨h0, hp, nx, ?_, isList_frame cells cells' bs nx (fun x hx => hag x (by simp [hx])) hr⟩
    rw [hp, hag b (by simp), ← hp]; exact hc

theorem isList_nil_iff (cells : Nat → Option Cell) (p : Nat) : IsList cells p [] ↔ p = 0 := Iff.rfl

theorem isList_zero (cells : Nat → Option Cell) : ∀ bs, IsList cells 0 bs → bs = []
  | [], _ => rfl
  | _ :: _, h => absurd rfl h.1

theorem isList_ne_zero (cells : Nat → Option Cell) (p : Nat) (bs : List Block) (h : IsList cells p bs)
    (hp : p ≠ 0) : ∃ b rest, bs = b :: rest := by
  cases bs with
  | nil => exact absurd h hp
  | cons b rest => exact ⟨b, rest, rfl⟩


theorem node_mem_ids (b : Block) : b.node ∈ Block.ids b := by simp [Block.ids]

theorem nodes_nodup_of_ids : ∀ (l : List Block), (l.flatMap Block.ids).Nodup → (l.map (·.node)).Nodup
  | [], _ => by simp
  | b :: l, h => by
    simp only [List.flatMap_cons, List.nodup_append] at h
    obtain ⟨_, h2, h3⟩ := h
    simp only [List.map_cons, List.nodup_cons]
    refine ⟨?_, nodes_nodup_of_ids l h2⟩
    intro hm
    simp only [List.mem_map] at hm
    obtain ⟨b', hb', he⟩ := hm
    exact h3 b.node (node_mem_ids b) b.node (List.mem_flatMap.mpr ⟨b', hb', he ▸ node_mem_ids b'⟩) rfl

theorem split_at (cs : List Class) (i : Nat) (c : Class) (h : cs[i]? = some c) :
    ∃ pre post, cs = pre ++ c :: post ∧ pre.length = i := by
  induction cs generalizing i with
  | nil => simp at h
  | cons a cs ih =>
    cases i with
    | zero => simp at h; exact ⟨[], cs, by simp [h], rfl⟩
    | succ i =>
      simp at h
      obtain ⟨pre, post, h1, h2⟩ := ih i h
      exact ⟨a :: pre, post, by simp [h1], by simp [h2]⟩

theorem other_class_mem (pre post : List Class) (c d : Class) (j : Nat) (hj : j ≠ pre.length)
    (h : (pre ++ c :: post)[j]? = some d) : d ∈ pre ∨ d ∈ post := by
  rcases Nat.lt_or_ge j pre.length with hlt | hge
  · rw [List.getElem?_append_left hlt] at h; exact Or.inl (List.mem_of_getElem? h)
  · rw [List.getElem?_append_right hge] at h
    have : j - pre.length ≠ 0 := by omega
    obtain ⟨k, hk⟩ := Nat.exists_eq_succ_of_ne_zero this
    rw [hk] at h; simp at h
    exact Or.inr (List.mem_of_getElem? h)

/-- what `Nodup liveIds` says about the node ids of one size class against everything else -/
theorem class_separate (s : State) (hnd : s.liveIds.Nodup) (i : Nat) (c : Class) (hc : s.classes[i]? = some c) :
    ((c.free ++ c.used).map (·.node)).Nodup ∧
    (∀ (j : Nat) (d : Class), j ≠ i → s.classes[j]? = some d → ∀ b ∈ d.free ++ d.used, ∀ b' ∈ c.free ++ c.used, b.node ≠ b'.node) ∧
    (∀ b ∈ s.uncached, ∀ b' ∈ c.free ++ c.used, b.node ≠ b'.node) := by
  obtain ⟨pre, post, hsplit, hlen⟩ := split_at s.classes i c hc
  rw [liveIds_eq, hsplit] at hnd
  rw [List.flatMap_append, List.flatMap_cons] at hnd
  simp only [Class.ids, Class.blocks] at hnd
  have h1 := (List.nodup_append.mp hnd).2.1
  obtain ⟨h2, h3, h4⟩ := List.nodup_append.mp h1       -- classes part vs uncached
  obtain ⟨h5, h6, h7⟩ := List.nodup_append.mp h2       -- pre vs (c :: post)
  obtain ⟨h8, h9, h10⟩ := List.nodup_append.mp h6      -- c vs post
  refine ⟨nodes_nodup_of_ids _ h8, ?_, ?_⟩
  · intro j d hj hd b hb b' hb' he
    rw [hsplit] at hd
    rcases other_class_mem pre post c d j (by omega) hd with hin | hin
    · exact h7 b.node (List.mem_flatMap.mpr ⟨d, hin, List.mem_flatMap.mpr ⟨b, hb, node_mem_ids b⟩⟩) b'.node
        (List.mem_append_left _ (List.mem_flatMap.mpr ⟨b', hb', node_mem_ids b'⟩)) he
    · exact h10 b'.node (List.mem_flatMap.mpr ⟨b', hb', node_mem_ids b'⟩) b.node
        (List.mem_flatMap.mpr ⟨d, hin, List.mem_flatMap.mpr ⟨b, hb, node_mem_ids b⟩⟩) he.symm
  · intro b hb b' hb' he
    exact h4 b'.node (List.mem_append_right _ (List.mem_append_left _ (List.mem_flatMap.mpr ⟨b', hb', node_mem_ids b'⟩)))
      b.node (List.mem_flatMap.mpr ⟨b, hb, node_mem_ids b⟩) he.symm

theorem uncached_separate (s : State) (hnd : s.liveIds.Nodup) :
    (s.uncached.map (·.node)).Nodup ∧
    (∀ (j : Nat) (d : Class), s.classes[j]? = some d → ∀ b ∈ d.free ++ d.used, ∀ b' ∈ s.uncached, b.node ≠ b'.node) := by
  rw [liveIds_eq] at hnd
  have h1 := (List.nodup_append.mp hnd).2.1
  obtain ⟨_, h3, h4⟩ := List.nodup_append.mp h1
  refine ⟨nodes_nodup_of_ids _ h3, ?_⟩
  intro j d hd b hb b' hb' he
  exact h4 b.node (List.mem_flatMap.mpr ⟨d, List.mem_of_getElem? hd, List.mem_flatMap.mpr ⟨b, by simpa [Class.blocks] using hb, node_mem_ids b⟩⟩)
    b'.node (List.mem_flatMap.mpr ⟨b', hb', node_mem_ids b'⟩) he

theorem block_node_live (s : State) (j : Nat) (d : Class) (hd : s.classes[j]? = some d) :
    ∀ b ∈ d.free ++ d.used, b.node ∈ s.liveIds := by
  intro b hb
  rw [liveIds_eq]
  exact List.mem_append_right _ (List.mem_append_left _
    (List.mem_flatMap.mpr ⟨d, List.mem_of_getElem? hd, List.mem_flatMap.mpr ⟨b, by simpa [Class.blocks] using hb, node_mem_ids b⟩⟩))

theorem uncached_node_live (s : State) : ∀ b ∈ s.uncached, b.node ∈ s.liveIds := by
  intro b hb
  rw [liveIds_eq]
  exact List.mem_append_right _ (List.mem_append_right _ (List.mem_flatMap.mpr ⟨b, hb, node_mem_ids b⟩))



open Gen.Cache.Code

theorem lt_of_getElem?_some {α} (l : List α) (i : Nat) (a : α) (h : l[i]? = some a) : i < l.length := by
  rcases Nat.lt_or_ge i l.length with h' | h'
  · exact h'
  · rw [List.getElem?_eq_none h'] at h; cases h

theorem rep_sizes (hs : HState) (s : State) (hrep : Rep hs s) :
    hs.nodes.map (·.size) = s.classes.map (·.size) := by
  apply List.ext_getElem?
  intro i
  simp only [List.getElem?_map]
  cases hn : hs.nodes[i]? with
  | none =>
    have : hs.nodes.length ≤ i := by
      rcases Nat.lt_or_ge i hs.nodes.length with h | h
      · rw [List.getElem?_eq_getElem h] at hn; cases hn
      · exact h
    rw [List.getElem?_eq_none (by rw [← hrep.len]; exact this)]; rfl
  | some nd =>
    have hlt := lt_of_getElem?_some _ _ _ hn
    have hlt' : i < s.classes.length := by rw [← hrep.len]; exact hlt
    have hc : s.classes[i]? = some s.classes[i] := List.getElem?_eq_getElem hlt'
    rw [hc]
    simp [(hrep.cls i nd _ hn hc).1]

theorem indexForH_eq (hs : HState) (s : State) (hrep : Rep hs s) (size : Nat) :
    indexForH hs.nodes size = indexFor s.classes size := by
  have h := rep_sizes hs s hrep
  have h1 : hs.nodes.findIdx? (fun n => decide (size ≤ n.size)) =
      (hs.nodes.map (·.size)).findIdx? (fun x => decide (size ≤ x)) := by rw [List.findIdx?_map]; rfl
  have h2 : s.classes.findIdx? (fun c => decide (size ≤ c.size)) =
      (s.classes.map (·.size)).findIdx? (fun x => decide (size ≤ x)) := by rw [List.findIdx?_map]; rfl
  unfold indexForH indexFor
  rw [h1, h2, h]
  cases List.findIdx? _ _ <;> rfl

theorem node_of_class (hs : HState) (s : State) (hrep : Rep hs s) (i : Nat) (c : Class)
    (hc : s.classes[i]? = some c) : ∃ nd, hs.nodes[i]? = some nd := by
  have hlt : i < hs.nodes.length := by rw [hrep.len]; exact lt_of_getElem?_some _ _ _ hc
  exact ⟨hs.nodes[i], List.getElem?_eq_getElem hlt⟩

/-! ### `alloc`: the three paths, executed symbolically on the regenerated program -/

theorem allocH_uncached (f : Nat) (hs : HState) (size n m : Nat) (hsz : ¬ size ≤ 256) (hnm : n ≠ m) :
    allocH (f + 40) hs size n m =
      .ok ({ hs with nonCached := n,
                     cells := setCell (setCell (setCell (setCell hs.cells n (some ⟨0, 0⟩)) m (some ⟨0, 0⟩)) n (some ⟨0, m⟩)) n (some ⟨hs.nonCached, m⟩) },
           [.ualloc 16 n, .ualloc size m, .ret m]) := by
  simp [allocH, call, allocProg, exec, execSimple, evalE, evalB, params, setLocal, hsz, doAlloc, writeMem, writeNext,
    setCell, deref, hnm]

theorem allocH_reserve (f : Nat) (hs : HState) (size n m i : Nat) (nd : HNode) (p nx mem : Nat)
    (hsz : size ≤ 256) (hi : indexForH hs.nodes size = i) (hnd : hs.nodes[i]? = some nd)
    (hfree : nd.free = p) (hp : p ≠ 0) (hcell : hs.cells p = some ⟨nx, mem⟩) :
    allocH (f + 40) hs size n m =
      .ok ({ hs with nodes := hs.nodes.set i { nd with free := nx, used := p },
                     cells := setCell hs.cells p (some ⟨nd.used, mem⟩) },
           [.ret mem]) := by
  have hlt := lt_of_getElem?_some _ _ _ hnd
  have hget : hs.nodes[i] = nd := by rw [List.getElem?_eq_getElem hlt] at hnd; exact Option.some.inj hnd
  subst hfree
  simp [allocH, call, allocProg, exec, execSimple, evalE, evalB, params, setLocal, hsz, writeNext,
    setCell, deref, nodeAt, hi, hget, hp, hcell, setNodeFree, setNodeUsed, hlt]

theorem allocH_new (f : Nat) (hs : HState) (size n m i : Nat) (nd : HNode)
    (hsz : size ≤ 256) (hi : indexForH hs.nodes size = i) (hnd : hs.nodes[i]? = some nd)
    (hfree : nd.free = 0) (hnm : n ≠ m) :
    allocH (f + 40) hs size n m =
      .ok ({ hs with nodes := hs.nodes.set i { nd with used := n },
                     cells := setCell (setCell (setCell (setCell (setCell hs.cells n (some ⟨0, 0⟩)) m (some ⟨0, 0⟩)) n (some ⟨0, m⟩)) n (some ⟨nd.used, m⟩)) n (some ⟨nd.used, m⟩) },
           [.ualloc 16 n, .ualloc nd.size m, .ret m]) := by
  have hlt := lt_of_getElem?_some _ _ _ hnd
  have hget : hs.nodes[i] = nd := by rw [List.getElem?_eq_getElem hlt] at hnd; exact Option.some.inj hnd
  simp [allocH, call, allocProg, exec, execSimple, evalE, evalB, params, setLocal, hsz, doAlloc, writeMem, writeNext,
    setCell, deref, nodeAt, hi, hget, hfree, setNodeUsed, hlt, hnm]

/-- `Rep` survives a change of cells that no list node of the state is affected by, together with a
    replacement of one class (index `i`) whose new lists are represented -/
theorem rep_set_class (hs : HState) (s : State) (hrep : Rep hs s) (i : Nat) (c c' : Class) (nd nd' : HNode)
    (hc : s.classes[i]? = some c) (hn : hs.nodes[i]? = some nd)
    (cells' : Nat → Option Cell)
    (hother : ∀ (j : Nat) (d : Class), j ≠ i → s.classes[j]? = some d → ∀ b ∈ d.free ++ d.used, cells' b.node = hs.cells b.node)
    (hunc : ∀ b ∈ s.uncached, cells' b.node = hs.cells b.node)
    (hsize : nd'.size = c'.size) (hfree : IsList cells' nd'.free c'.free) (hused : IsList cells' nd'.used c'.used) :
    Rep { hs with cells := cells', nodes := hs.nodes.set i nd' } { s with classes := s.classes.set i c' } := by
  refine ⟨by simp [hrep.len], ?_, ?_, hrep.warned⟩
  · intro j ndj cj hnj hcj
    simp only [List.getElem?_set] at hnj hcj
    by_cases hij : i = j
    · subst hij
      have h1 := lt_of_getElem?_some _ _ _ hc
      have h2 := lt_of_getElem?_some _ _ _ hn
      simp [h1, h2] at hnj hcj
      subst hnj; subst hcj
      exact ⟨hsize, hfree, hused⟩
    · simp [hij] at hnj hcj
      obtain ⟨k1, k2, k3⟩ := hrep.cls j ndj cj hnj hcj
      have hag := hother j cj (fun h => hij h.symm) hcj
      exact ⟨k1, isList_frame hs.cells cells' _ _ (fun b hb => hag b (by simp [hb])) k2,
        isList_frame hs.cells cells' _ _ (fun b hb => hag b (by simp [hb])) k3⟩
  · exact isList_frame hs.cells cells' _ _ hunc hrep.unc



/-! ### `dealloc`: reference decomposition of the regenerated program (loops as named pieces) -/

def cScanC : B := (.and (.eq (.var "v8") (.lit 0)) (.nonNull (.var "v4")))
def cScanB : Stmt :=
  (.ite (.and (.nonNull (.next (.var "v4"))) (.eq (.memory (.next (.var "v4"))) (.var "v2"))) (.seq (.seq (.set "v9" (.next (.var "v4"))) (.seq (.setNext (.var "v4") (.next (.next (.var "v4")))) (.seq (.seq (.set "v11" (.var "v9")) (.seq (.set "v12" (.nfree (.var "v3"))) (.seq (.setNext (.var "v11") (.var "v12")) (.set "v10" (.var "v11"))))) (.setNfree (.var "v3") (.var "v10"))))) (.set "v8" (.lit 1))) (.set "v4" (.next (.var "v4"))))
def cScan : Stmt := .while cScanC cScanB

def uScanC : B := (.and (.eq (.var "v19") (.lit 0)) (.nonNull (.var "v16")))
def uScanB : Stmt :=
  (.ite (.and (.nonNull (.next (.var "v16"))) (.eq (.memory (.next (.var "v16"))) (.var "v14"))) (.seq (.seq (.set "v20" (.next (.var "v16"))) (.seq (.setNext (.var "v16") (.next (.next (.var "v16")))) (.seq (.set "v21" (.var "v20")) (.seq (.set "v22" (.var "v15")) (.seq (.ufree (.memory (.var "v21")) (.var "v22")) (.ufree (.var "v21") (.lit 16))))))) (.set "v19" (.lit 1))) (.set "v16" (.next (.var "v16"))))
def uScan : Stmt := .while uScanC uScanB

def deallocRef : Stmt :=
  (.seq (.ite (.le (.var "p1") (.lit 256)) (.seq (.set "v0" (.indexFor (.var "p1"))) (.seq (.set "v1" (.var "v0")) (.seq (.seq (.set "v2" (.var "p0")) (.seq (.set "v3" (.var "v1")) (.ite (.and (.nonNull (.nused (.var "v3"))) (.eq (.memory (.nused (.var "v3"))) (.var "v2"))) (.seq (.set "v4" (.nused (.var "v3"))) (.seq (.setNused (.var "v3") (.next (.nused (.var "v3")))) (.seq (.seq (.set "v6" (.var "v4")) (.seq (.set "v7" (.nfree (.var "v3"))) (.seq (.setNext (.var "v6") (.var "v7")) (.set "v5" (.var "v6"))))) (.setNfree (.var "v3") (.var "v5"))))) (.seq (.set "v4" (.nused (.var "v3"))) (.seq (.set "v8" (.lit 0)) (.seq cScan (.ite (.eq (.var "v8") (.lit 0)) (.seq (.set "v13" (.var "v2")) (.ite (.not .warned) (.seq .setWarned .print) .skip)) .skip))))))) .retVoid))) .skip) (.seq (.set "v14" (.var "p0")) (.seq (.set "v15" (.var "p1")) (.ite (.and (.nonNull .nonCached) (.eq (.memory .nonCached) (.var "v14"))) (.seq (.set "v16" .nonCached) (.seq (.setNonCached (.next (.var "v16"))) (.seq (.set "v17" (.var "v16")) (.seq (.set "v18" (.var "v15")) (.seq (.ufree (.memory (.var "v17")) (.var "v18")) (.ufree (.var "v17") (.lit 16))))))) (.seq (.set "v16" .nonCached) (.seq (.set "v19" (.lit 0)) (.seq uScan (.ite (.eq (.var "v19") (.lit 0)) (.seq (.set "v23" (.var "v14")) (.ite (.not .warned) (.seq .setWarned .print) .skip)) .skip))))))))

/-- the regenerated `dealloc` IS the reference program the refinement proof is about -/
theorem deallocProg_eq_ref : deallocProg = deallocRef := rfl

theorem exec_while_false (f : Nat) (c : B) (b : Stmt) (env : Env) (h : evalB env c = .ok false) :
    exec (f + 1) (.while c b) env = .ok (env, .fall) := by
  simp [exec, h]

theorem exec_while_true (f : Nat) (c : B) (b : Stmt) (env env' : Env) (h : evalB env c = .ok true)
    (hb : exec f b env = .ok (env', .fall)) :
    exec (f + 1) (.while c b) env = exec f (.while c b) env' := by
  simp [exec, h, hb]

/-- one iteration of the interior scan that does not find the buffer: the cursor moves on -/
theorem cScan_step_next (f : Nat) (env : Env) (p q bm m : Nat)
    (h4 : env.locals "v4" = p) (h2 : env.locals "v2" = m)
    (hcell : env.hs.cells p = some ⟨q, bm⟩)
    (hq : q = 0 ∨ ∃ q2 qm, env.hs.cells q = some ⟨q2, qm⟩ ∧ qm ≠ m) :
    exec (f + 12) cScanB env = .ok ({ env with locals := setLocal env.locals "v4" q }, .fall) := by
  rcases hq with rfl | ⟨q2, qm, hc2, hne⟩
  · simp [cScanB, exec, execSimple, evalE, evalB, deref, h4, hcell]
  · by_cases hq0 : q = 0
    · subst hq0; simp [cScanB, exec, execSimple, evalE, evalB, deref, h4, hcell]
    · simp [cScanB, exec, execSimple, evalE, evalB, deref, h4, h2, hcell, hc2, hne, hq0]


/-- one iteration of the interior scan that finds the buffer in `block->next_`: unlink it and push it
    on the free list of the class, raise the `done` flag -/
theorem cScan_step_found (f : Nat) (env : Env) (p q q2 bm m i : Nat) (nd : HNode)
    (h4 : env.locals "v4" = p) (h2 : env.locals "v2" = m) (h3 : env.locals "v3" = i)
    (hnd : env.hs.nodes[i]? = some nd)
    (hcell : env.hs.cells p = some ⟨q, bm⟩) (hq0 : q ≠ 0) (hqp : q ≠ p)
    (hc2 : env.hs.cells q = some ⟨q2, m⟩) :
    ∃ env', exec (f + 12) cScanB env = .ok (env', .fall) ∧
      env'.hs = { env.hs with cells := setCell (setCell env.hs.cells p (some ⟨q2, bm⟩)) q (some ⟨nd.free, m⟩),
                              nodes := env.hs.nodes.set i { nd with free := q } } ∧
      env'.locals "v8" = 1 ∧ env'.locals "v2" = m ∧ env'.evs = env.evs ∧ env'.fresh = env.fresh := by
  have hlt := lt_of_getElem?_some _ _ _ hnd
  have hget : env.hs.nodes[i] = nd := by rw [List.getElem?_eq_getElem hlt] at hnd; exact Option.some.inj hnd
  simp [cScanB, exec, execSimple, evalE, evalB, deref, nodeAt, h4, h2, h3, hcell, hc2, hq0, hqp, setLocal, writeNext,
      setCell, setNodeFree, hlt, hget]


theorem cScanC_true (env : Env) (p : Nat) (h4 : env.locals "v4" = p) (h8 : env.locals "v8" = 0) (hp : p ≠ 0) :
    evalB env cScanC = .ok true := by simp [cScanC, evalB, evalE, h4, h8, hp]

theorem cScanC_false_null (env : Env) (h4 : env.locals "v4" = 0) (h8 : env.locals "v8" = 0) :
    evalB env cScanC = .ok false := by simp [cScanC, evalB, evalE, h4, h8]

theorem cScanC_false_done (env : Env) (h8 : env.locals "v8" = 1) :
    evalB env cScanC = .ok false := by simp [cScanC, evalB, evalE, h8]

/-- **The interior scan of `releaseCachedBlockFrom` is `scanRemove`.**  For a chain of any length. -/
theorem cScan_loop : ∀ (l : List Block) (F : Nat) (env : Env) (p m i : Nat) (nd : HNode),
    l.length + 14 ≤ F →
    env.locals "v4" = p → env.locals "v8" = 0 → env.locals "v2" = m → env.locals "v3" = i →
    env.hs.nodes[i]? = some nd →
    IsList env.hs.cells p l → (l.map (·.node)).Nodup →
    ∃ env', exec F cScan env = .ok (env', .fall) ∧
      env'.evs = env.evs ∧ env'.fresh = env.fresh ∧ env'.hs.nonCached = env.hs.nonCached ∧
      env'.hs.warned = env.hs.warned ∧ env'.locals "v2" = m ∧
      match scanRemove l m with
      | some (x, l') =>
          env'.locals "v8" = 1 ∧ env'.hs.nodes = env.hs.nodes.set i { nd with free := x.node } ∧
          IsList env'.hs.cells p l' ∧ env'.hs.cells x.node = some ⟨nd.free, x.mem⟩ ∧ x ∈ l ∧
          (∀ q, q ∉ l.map (·.node) → env'.hs.cells q = env.hs.cells q)
      | none => env'.locals "v8" = 0 ∧ env'.hs = env.hs
  | [], F, env, p, m, i, nd, hF, h4, h8, h2, h3, hnd, hl, _ => by
    obtain ⟨F', rfl⟩ : ∃ F', F = F' + 1 := ⟨F - 1, by omega⟩
    have hp : p = 0 := hl
    subst hp
    refine ⟨env, ?_, rfl, rfl, rfl, rfl, h2, ?_⟩
    · exact exec_while_false F' _ _ env (cScanC_false_null env h4 h8)
    · simp [scanRemove, h8]
  | [b], F, env, p, m, i, nd, hF, h4, h8, h2, h3, hnd, hl, _ => by
    obtain ⟨F', rfl⟩ : ∃ F', F = F' + 12 + 1 + 1 := ⟨F - 14, by simp at hF; omega⟩
    obtain ⟨hp0, hpb, nx, hcell, hrest⟩ := hl
    have hnx : nx = 0 := hrest
    subst hnx
    have hstep := cScan_step_next (F' + 1) env p 0 b.mem m h4 h2 hcell (Or.inl rfl)
    refine ⟨{ env with locals := setLocal env.locals "v4" 0 }, ?_, rfl, rfl, rfl, rfl, by simp [setLocal, h2], ?_⟩
    · unfold cScan
      rw [exec_while_true (F' + 12 + 1) _ _ env _ (cScanC_true env p h4 h8 hp0) hstep]
      exact exec_while_false (F' + 12) _ _ _ (cScanC_false_null _ (by simp [setLocal]) (by simp [setLocal, h8]))
    · simp [scanRemove, setLocal, h8]
  | b :: n :: rest, F, env, p, m, i, nd, hF, h4, h8, h2, h3, hnd, hl, hnodup => by
    obtain ⟨F', rfl⟩ : ∃ F', F = F' + 12 + 1 := ⟨F - 13, by simp at hF; omega⟩
    obtain ⟨hp0, hpb, nx, hcell, hrest⟩ := hl
    obtain ⟨hq0, hqn, nx2, hcell2, hrest2⟩ := hrest
    simp only [List.map_cons, List.nodup_cons, List.mem_cons, List.mem_map, not_or, not_exists, not_and] at hnodup
    obtain ⟨⟨hbn, hbrest⟩, ⟨hnrest, hrestnodup⟩⟩ := hnodup
    have hqp : nx ≠ p := by rw [hqn, hpb]; exact fun h => hbn h.symm
    by_cases hm : n.mem = m
    · -- found in block->next_
      subst hm
      obtain ⟨env1, hex, hhs, h81, h21, hevs, hfresh⟩ :=
        cScan_step_found F' env p nx nx2 b.mem n.mem i nd h4 h2 h3 hnd hcell hq0 hqp hcell2
      refine ⟨env1, ?_, hevs, hfresh, by rw [hhs], by rw [hhs], h21, ?_⟩
      · unfold cScan
        rw [exec_while_true (F' + 12) _ _ env env1 (cScanC_true env p h4 h8 hp0) hex]
        obtain ⟨F'', rfl⟩ : ∃ F'', F' = F'' + 1 := ⟨F' - 1, by simp at hF; omega⟩
        exact exec_while_false _ _ _ _ (cScanC_false_done env1 h81)
      · have hsr : scanRemove (b :: n :: rest) n.mem = some (n, b :: rest) := by simp [scanRemove]
        rw [hsr]
        refine ⟨h81, by rw [hhs]; simp [hqn], ?_, ?_, by simp, ?_⟩
        · rw [hhs]
          refine ⟨hp0, hpb, nx2, by simp [setCell, hqp.symm], ?_⟩
          apply isList_frame env.hs.cells _ _ _ _ hrest2
          intro x hx
          have h1 : x.node ≠ p := by rw [hpb]; exact fun h => hbrest x hx h
          have h2' : x.node ≠ nx := by rw [hqn]; exact fun h => hnrest x hx h
          simp [setCell, h1, h2']
        · rw [hhs, ← hqn]; simp [setCell]
        · intro q hq
          simp only [List.map_cons, List.mem_cons, not_or] at hq
          rw [hhs]
          have h1 : q ≠ p := by rw [hpb]; exact hq.1
          have h2' : q ≠ nx := by rw [hqn]; exact hq.2.1
          simp [setCell, h1, h2']
    · -- not here: move the cursor, induction on the tail
      have hstep := cScan_step_next F' env p nx b.mem m h4 h2 hcell (Or.inr ⟨nx2, n.mem, hcell2, hm⟩)
      have ih := cScan_loop (n :: rest) (F' + 12) { env with locals := setLocal env.locals "v4" nx } nx m i nd
        (by simp at hF ⊢; omega) (by simp [setLocal]) (by simp [setLocal, h8]) (by simp [setLocal, h2])
        (by simp [setLocal, h3]) hnd ⟨hq0, hqn, nx2, hcell2, hrest2⟩
        (by simp only [List.map_cons, List.nodup_cons, List.mem_map, not_exists, not_and]; exact ⟨hnrest, hrestnodup⟩)
      obtain ⟨env', hex, hevs, hfresh, hnc, hw, h2', hres⟩ := ih
      refine ⟨env', ?_, hevs, hfresh, hnc, hw, h2', ?_⟩
      · unfold cScan
        rw [exec_while_true (F' + 12) _ _ env _ (cScanC_true env p h4 h8 hp0) hstep]
        exact hex
      · cases hs : scanRemove (n :: rest) m with
        | none =>
          have hsr : scanRemove (b :: n :: rest) m = none := by rw [scanRemove, if_neg hm, hs]
          rw [hsr]; rw [hs] at hres; simpa using hres
        | some pr =>
          obtain ⟨x, l'⟩ := pr
          have hsr : scanRemove (b :: n :: rest) m = some (x, b :: l') := by rw [scanRemove, if_neg hm, hs]
          rw [hsr]
          rw [hs] at hres
          simp only at hres ⊢
          obtain ⟨k1, k2, k3, k4, k5, k6⟩ := hres
          refine ⟨k1, k2, ?_, k4, by simp [k5], ?_⟩
          · refine ⟨hp0, hpb, nx, ?_, k3⟩
            rw [k6 p (by
              simp only [List.map_cons, List.mem_cons, List.mem_map, not_or, not_exists, not_and]
              refine ⟨by omega, ?_⟩
              intro y hy; have := hbrest y hy; omega)]
            exact hcell
          · intro q hq
            simp only [List.map_cons, List.mem_cons, not_or] at hq
            exact k6 q (by simp only [List.map_cons, List.mem_cons, not_or]; exact hq.2)



theorem isList_node_ne_zero (cells : Nat → Option Cell) : ∀ (p : Nat) (l : List Block), IsList cells p l → ∀ x ∈ l, x.node ≠ 0
  | _, [], _, _, hx => by simp at hx
  | p, b :: l, h, x, hx => by
    obtain ⟨h0, hpb, nx, _, hr⟩ := h
    rcases List.mem_cons.mp hx with rfl | hx
    · rw [← hpb]; exact h0
    · exact isList_node_ne_zero cells nx l hr x hx

theorem warnOnce_eq (s : State) :
    warnOnce s = if s.warned then (s, []) else ({ s with warned := true }, [.warn]) := rfl

/-- `dealloc` of a cached size: the regenerated program refines the list model -/
theorem deallocH_cached_refines (f : Nat) (hs : HState) (s : State) (m size : Nat)
    (hrep : Rep hs s) (hinv : Inv s) (hcached : isCached size = true) (c : Class)
    (hc : s.classes[indexFor s.classes size]? = some c) (hfuel : c.used.length ≤ f) :
    ∃ hs', deallocH (f + 60) hs m size = .ok (hs', (deallocCached s (indexFor s.classes size) c m).2) ∧
      Rep hs' (deallocCached s (indexFor s.classes size) c m).1 := by
  have hsz : size ≤ 256 := by unfold isCached Gen.Cache.cachedLimit at hcached; exact of_decide_eq_true hcached
  obtain ⟨nd, hnd⟩ := node_of_class hs s hrep _ c hc
  have hi := indexForH_eq hs s hrep size
  obtain ⟨hsize, hfl, hul⟩ := hrep.cls _ nd c hnd hc
  have hlt := lt_of_getElem?_some _ _ _ hnd
  have hget : hs.nodes[indexFor s.classes size] = nd := by
    rw [List.getElem?_eq_getElem hlt] at hnd; exact Option.some.inj hnd
  obtain ⟨hnodup, hoth, hunc⟩ := class_separate s hinv.1 _ c hc
  generalize hidx : indexFor s.classes size = i at *
  rw [deallocH, call, deallocProg_eq_ref]
  unfold deallocCached
  -- does the head of the used list hold the buffer?
  have hheadcase : (∃ b rest nx, c.used = b :: rest ∧ b.mem = m ∧ hs.cells nd.used = some ⟨nx, m⟩ ∧ nd.used ≠ 0 ∧
        nd.used = b.node ∧ IsList hs.cells nx rest) ∨
      (unlink c.used m = scanRemove c.used m ∧
        (nd.used = 0 ∨ (nd.used ≠ 0 ∧ ∃ nx bm, hs.cells nd.used = some ⟨nx, bm⟩ ∧ bm ≠ m))) := by
    cases hu : c.used with
    | nil => right; rw [hu] at hul; exact ⟨by simp [unlink, scanRemove], Or.inl hul⟩
    | cons b rest =>
      rw [hu] at hul
      obtain ⟨h0, hpb, nx, hcell, hrest⟩ := hul
      by_cases hbm : b.mem = m
      · left; exact ⟨b, rest, nx, rfl, hbm, hbm ▸ hcell, h0, hpb, hrest⟩
      · right; exact ⟨by simp [unlink, hbm], Or.inr ⟨h0, nx, b.mem, hcell, hbm⟩⟩
  rcases hheadcase with ⟨b, rest, nx, hu, hbm, hcell, h0, hpb, hrest⟩ | ⟨hunl, hhead⟩
  · -- head of the used list
    have hun : unlink c.used m = some (b, rest) := by simp [hu, unlink, hbm]
    rw [hun]
    refine ⟨_, by
      simp [deallocRef, exec, execSimple, evalE, evalB, params, setLocal, hsz, hi, nodeAt, hget, hlt, deref, h0, hcell,
        setNodeUsed, setNodeFree, writeNext, setCell]
      rfl, ?_⟩
    rw [hu] at hnodup hoth hunc
    simp only [List.map_append, List.map_cons, List.nodup_append, List.nodup_cons, List.mem_map, List.mem_cons,
      not_exists, not_and] at hnodup
    simp only
    apply rep_set_class hs s hrep _ c _ nd _ hc hnd
    · intro j d hj hd x hx
      have := hoth j d hj hd x hx b (by simp)
      simp [setCell, hpb, this]
    · intro x hx
      have := hunc x hx b (by simp)
      simp [setCell, hpb, this]
    · exact hsize
    · refine ⟨h0, hpb, nd.free, by simp [setCell, hbm], ?_⟩
      apply isList_frame hs.cells _ _ _ _ hfl
      intro x hx
      have : x.node ≠ b.node := fun h => hnodup.2.2 x.node ⟨x, hx, rfl⟩ b.node (Or.inl rfl) h
      simp [setCell, hpb, this]
    · apply isList_frame hs.cells _ _ _ _ hrest
      intro x hx
      have : x.node ≠ b.node := fun h => hnodup.2.1.1 x hx h
      simp [setCell, hpb, this]
  · -- interior scan
    rw [hunl]
    have hnodup_used : (c.used.map (·.node)).Nodup := by
      rw [List.map_append] at hnodup; exact (List.nodup_append.mp hnodup).2.1
    have hfin : ∀ (env' : Env), env'.evs = [] → env'.hs.nonCached = hs.nonCached → env'.hs.warned = hs.warned →
        (match scanRemove c.used m with
          | some (x, l') => env'.locals "v8" = 1 ∧ env'.hs.nodes = hs.nodes.set i { nd with free := x.node } ∧
              IsList env'.hs.cells nd.used l' ∧ env'.hs.cells x.node = some ⟨nd.free, x.mem⟩ ∧ x ∈ c.used ∧
              (∀ q, q ∉ c.used.map (·.node) → env'.hs.cells q = hs.cells q)
          | none => env'.locals "v8" = 0 ∧ env'.hs = hs) →
        ∃ hs', (match (match scanRemove c.used m with
                | some (b, used') => ({ s with classes := s.classes.set i { c with used := used', free := b :: c.free } }, ([] : List Ev))
                | none => warnOnce s) with
              | (s', evs) => (if env'.locals "v8" = 0 then
                    (if env'.hs.warned then (env'.hs, env'.evs) else ({ env'.hs with warned := true }, env'.evs ++ [Ev.warn]))
                  else (env'.hs, env'.evs)) = (hs', evs) ∧ Rep hs' s') := by
      intro env' hevs hnc hw hres
      cases hsr : scanRemove c.used m with
      | none =>
        rw [hsr] at hres
        obtain ⟨h8, hhs⟩ := hres
        simp only [h8, if_true, hhs, hevs, warnOnce_eq, hrep.warned]
        cases hwd : s.warned with
        | true => exact ⟨hs, by simp, hrep⟩
        | false =>
          refine ⟨{ hs with warned := true }, by simp, ⟨hrep.len, hrep.cls, hrep.unc, rfl⟩⟩
      | some pr =>
        obtain ⟨x, l'⟩ := pr
        rw [hsr] at hres
        obtain ⟨h8, k2, k3, k4, k5, k6⟩ := hres
        simp only [h8, hevs]
        refine ⟨env'.hs, by simp, ?_⟩
        have hst : env'.hs = { hs with cells := env'.hs.cells, nodes := hs.nodes.set i { nd with free := x.node } } := by
          cases h : env'.hs; simp_all
        rw [hst]
        have hx0 : x.node ≠ 0 := isList_node_ne_zero hs.cells nd.used c.used hul x k5
        have hxn : x.node ∈ c.used.map (·.node) := List.mem_map.mpr ⟨x, k5, rfl⟩
        rw [List.map_append, List.nodup_append] at hnodup
        apply rep_set_class hs s hrep _ c _ nd _ hc hnd
        · intro j d hj hd y hy
          apply k6
          intro hmem
          obtain ⟨z, hz, he⟩ := List.mem_map.mp hmem
          exact hoth j d hj hd y hy z (by simp [hz]) he.symm
        · intro y hy
          apply k6
          intro hmem
          obtain ⟨z, hz, he⟩ := List.mem_map.mp hmem
          exact hunc y hy z (by simp [hz]) he.symm
        · exact hsize
        · refine ⟨hx0, rfl, nd.free, k4, ?_⟩
          apply isList_frame hs.cells _ _ _ _ hfl
          intro y hy
          apply k6
          intro hmem
          exact hnodup.2.2 y.node (List.mem_map.mpr ⟨y, hy, rfl⟩) y.node hmem rfl
        · exact k3
    have hloop : ∀ (env0 : Env), env0.hs = hs → env0.evs = [] → env0.fresh = [] → env0.locals "v4" = nd.used →
        env0.locals "v8" = 0 → env0.locals "v2" = m → env0.locals "v3" = i →
        ∃ env', exec (f + 49) cScan env0 = .ok (env', .fall) ∧ env'.evs = [] ∧ env'.hs.nonCached = hs.nonCached ∧
          env'.hs.warned = hs.warned ∧
          (match scanRemove c.used m with
          | some (x, l') => env'.locals "v8" = 1 ∧ env'.hs.nodes = hs.nodes.set i { nd with free := x.node } ∧
              IsList env'.hs.cells nd.used l' ∧ env'.hs.cells x.node = some ⟨nd.free, x.mem⟩ ∧ x ∈ c.used ∧
              (∀ q, q ∉ c.used.map (·.node) → env'.hs.cells q = hs.cells q)
          | none => env'.locals "v8" = 0 ∧ env'.hs = hs) := by
      intro env0 e1 e2 e3 e4 e5 e6 e7
      obtain ⟨env', hex, a1, a2, a3, a4, a5, a6⟩ := cScan_loop c.used (f + 49) env0 nd.used m i nd (by omega) e4 e5 e6 e7
        (by rw [e1]; exact hnd) (by rw [e1]; exact hul) hnodup_used
      refine ⟨env', hex, by rw [a1, e2], by rw [a3, e1], by rw [a4, e1], ?_⟩
      rw [e1] at a6; exact a6
    rcases hhead with h0 | ⟨h0, nx, bm, hcell, hne⟩
    · simp [deallocRef, exec, execSimple, evalE, evalB, params, setLocal, hsz, hi, nodeAt, hget, hlt, deref, h0]
      generalize hE : exec (f + 49) cScan _ = r
      obtain ⟨env', hr, b1, b2, b3, b4⟩ : ∃ env', r = .ok (env', .fall) ∧ env'.evs = [] ∧ env'.hs.nonCached = hs.nonCached ∧
          env'.hs.warned = hs.warned ∧
          (match scanRemove c.used m with
          | some (x, l') => env'.locals "v8" = 1 ∧ env'.hs.nodes = hs.nodes.set i { nd with free := x.node } ∧
              IsList env'.hs.cells nd.used l' ∧ env'.hs.cells x.node = some ⟨nd.free, x.mem⟩ ∧ x ∈ c.used ∧
              (∀ q, q ∉ c.used.map (·.node) → env'.hs.cells q = hs.cells q)
          | none => env'.locals "v8" = 0 ∧ env'.hs = hs) := by
        rw [← hE]
        refine hloop _ rfl rfl rfl ?_ ?_ ?_ ?_ <;> simp [setLocal, h0]
      subst hr
      obtain ⟨hs', k1, k2⟩ := hfin env' b1 b2 b3 b4
      refine ⟨hs', ?_, k2⟩
      by_cases h8 : env'.locals "v8" = 0
      · cases hwd : env'.hs.warned
        · simp [h8, hwd] at k1 ⊢; exact k1
        · simp [h8, hwd] at k1 ⊢; exact k1
      · simp [h8] at k1 ⊢; exact k1
    · simp [deallocRef, exec, execSimple, evalE, evalB, params, setLocal, hsz, hi, nodeAt, hget, hlt, deref, h0, hcell, hne]
      generalize hE : exec (f + 49) cScan _ = r
      obtain ⟨env', hr, b1, b2, b3, b4⟩ : ∃ env', r = .ok (env', .fall) ∧ env'.evs = [] ∧ env'.hs.nonCached = hs.nonCached ∧
          env'.hs.warned = hs.warned ∧
          (match scanRemove c.used m with
          | some (x, l') => env'.locals "v8" = 1 ∧ env'.hs.nodes = hs.nodes.set i { nd with free := x.node } ∧
              IsList env'.hs.cells nd.used l' ∧ env'.hs.cells x.node = some ⟨nd.free, x.mem⟩ ∧ x ∈ c.used ∧
              (∀ q, q ∉ c.used.map (·.node) → env'.hs.cells q = hs.cells q)
          | none => env'.locals "v8" = 0 ∧ env'.hs = hs) := by
        rw [← hE]
        refine hloop _ rfl rfl rfl ?_ ?_ ?_ ?_ <;> simp [setLocal]
      subst hr
      obtain ⟨hs', k1, k2⟩ := hfin env' b1 b2 b3 b4
      refine ⟨hs', ?_, k2⟩
      by_cases h8 : env'.locals "v8" = 0
      · cases hwd : env'.hs.warned
        · simp [h8, hwd] at k1 ⊢; exact k1
        · simp [h8, hwd] at k1 ⊢; exact k1
      · simp [h8] at k1 ⊢; exact k1


theorem mem_ne_node_list : ∀ (L : List Block), (L.flatMap Block.ids).Nodup → ∀ x ∈ L, ∀ y ∈ L, x.mem ≠ y.node
  | [], _, _, hx, _, _ => by simp at hx
  | b :: L, h, x, hx, y, hy => by
    rw [List.flatMap_cons, List.nodup_append] at h
    obtain ⟨hb, hL, hdis⟩ := h
    have hbb : b.node ≠ b.mem := by simpa [Block.ids] using hb
    have hmemids : ∀ z ∈ L, z.mem ∈ L.flatMap Block.ids ∧ z.node ∈ L.flatMap Block.ids := fun z hz =>
      ⟨List.mem_flatMap.mpr ⟨z, hz, by simp [Block.ids]⟩, List.mem_flatMap.mpr ⟨z, hz, by simp [Block.ids]⟩⟩
    rcases List.mem_cons.mp hx with hxb | hx' <;> rcases List.mem_cons.mp hy with hyb | hy'
    · subst hxb; subst hyb; exact fun h => hbb h.symm
    · subst hxb; exact fun h => hdis x.mem (by simp [Block.ids]) y.node (hmemids y hy').2 h
    · subst hyb; exact fun h => hdis y.node (by simp [Block.ids]) x.mem (hmemids x hx').1 h.symm
    · exact mem_ne_node_list L hL x hx' y hy'

theorem mem_ne_node (s : State) (hnd : s.liveIds.Nodup) : ∀ x ∈ s.blocks, ∀ y ∈ s.blocks, x.mem ≠ y.node := by
  have : (s.blocks.flatMap Block.ids).Nodup := by
    unfold State.liveIds at hnd; exact (List.nodup_append.mp hnd).2.1
  exact mem_ne_node_list s.blocks this

theorem class_block_mem (s : State) (j : Nat) (d : Class) (hd : s.classes[j]? = some d) :
    ∀ b ∈ d.free ++ d.used, b ∈ s.blocks := by
  intro b hb
  unfold State.blocks
  exact List.mem_append_left _ (List.mem_flatMap.mpr ⟨d, List.mem_of_getElem? hd, by simpa [Class.blocks] using hb⟩)

theorem uncached_block_mem (s : State) : ∀ b ∈ s.uncached, b ∈ s.blocks := by
  intro b hb; unfold State.blocks; exact List.mem_append_right _ hb

theorem uScan_step_next (f : Nat) (env : Env) (p q bm m : Nat)
    (h4 : env.locals "v16" = p) (h2 : env.locals "v14" = m)
    (hcell : env.hs.cells p = some ⟨q, bm⟩)
    (hq : q = 0 ∨ ∃ q2 qm, env.hs.cells q = some ⟨q2, qm⟩ ∧ qm ≠ m) :
    exec (f + 12) uScanB env = .ok ({ env with locals := setLocal env.locals "v16" q }, .fall) := by
  rcases hq with rfl | ⟨q2, qm, hc2, hne⟩
  · simp [uScanB, exec, execSimple, evalE, evalB, deref, h4, hcell]
  · by_cases hq0 : q = 0
    · subst hq0; simp [uScanB, exec, execSimple, evalE, evalB, deref, h4, hcell]
    · simp [uScanB, exec, execSimple, evalE, evalB, deref, h4, h2, hcell, hc2, hne, hq0]

theorem uScan_step_found (f : Nat) (env : Env) (p q q2 bm m sz : Nat)
    (h4 : env.locals "v16" = p) (h2 : env.locals "v14" = m) (h3 : env.locals "v15" = sz)
    (hcell : env.hs.cells p = some ⟨q, bm⟩) (hq0 : q ≠ 0) (hqp : q ≠ p)
    (hc2 : env.hs.cells q = some ⟨q2, m⟩) :
    ∃ env', exec (f + 12) uScanB env = .ok (env', .fall) ∧
      env'.hs = { env.hs with cells := setCell (setCell (setCell env.hs.cells p (some ⟨q2, bm⟩)) m none) q none } ∧
      env'.locals "v19" = 1 ∧ env'.evs = env.evs ++ [.ufree m sz, .ufree q 16] ∧ env'.fresh = env.fresh := by
  simp [uScanB, exec, execSimple, evalE, evalB, deref, h4, h2, h3, hcell, hc2, hq0, hqp, setLocal, writeNext,
      setCell, doFree]

theorem uScanC_true (env : Env) (p : Nat) (h4 : env.locals "v16" = p) (h8 : env.locals "v19" = 0) (hp : p ≠ 0) :
    evalB env uScanC = .ok true := by simp [uScanC, evalB, evalE, h4, h8, hp]

theorem uScanC_false_null (env : Env) (h4 : env.locals "v16" = 0) (h8 : env.locals "v19" = 0) :
    evalB env uScanC = .ok false := by simp [uScanC, evalB, evalE, h4, h8]

theorem uScanC_false_done (env : Env) (h8 : env.locals "v19" = 1) :
    evalB env uScanC = .ok false := by simp [uScanC, evalB, evalE, h8]


/-- **The interior scan of `releaseNonCachedMemory` is `scanRemove` followed by `destroyBlock`.** -/
theorem uScan_loop : ∀ (l : List Block) (F : Nat) (env : Env) (p m sz : Nat),
    l.length + 14 ≤ F →
    env.locals "v16" = p → env.locals "v19" = 0 → env.locals "v14" = m → env.locals "v15" = sz →
    IsList env.hs.cells p l → (l.map (·.node)).Nodup → (∀ y ∈ l, ∀ z ∈ l, y.mem ≠ z.node) →
    ∃ env', exec F uScan env = .ok (env', .fall) ∧
      env'.fresh = env.fresh ∧ env'.hs.nonCached = env.hs.nonCached ∧ env'.hs.nodes = env.hs.nodes ∧
      env'.hs.warned = env.hs.warned ∧
      match scanRemove l m with
      | some (x, l') =>
          env'.locals "v19" = 1 ∧ env'.evs = env.evs ++ [.ufree x.mem sz, .ufree x.node 16] ∧
          IsList env'.hs.cells p l' ∧ x ∈ l ∧
          (∀ q, q ∉ l.map (·.node) → q ≠ x.mem → env'.hs.cells q = env.hs.cells q)
      | none => env'.locals "v19" = 0 ∧ env'.hs = env.hs ∧ env'.evs = env.evs
  | [], F, env, p, m, sz, hF, h4, h8, h2, h3, hl, _, _ => by
    obtain ⟨F', rfl⟩ : ∃ F', F = F' + 1 := ⟨F - 1, by omega⟩
    have hp : p = 0 := hl
    subst hp
    refine ⟨env, ?_, rfl, rfl, rfl, rfl, ?_⟩
    · exact exec_while_false F' _ _ env (uScanC_false_null env h4 h8)
    · simp [scanRemove, h8]
  | [b], F, env, p, m, sz, hF, h4, h8, h2, h3, hl, _, _ => by
    obtain ⟨F', rfl⟩ : ∃ F', F = F' + 12 + 1 + 1 := ⟨F - 14, by simp at hF; omega⟩
    obtain ⟨hp0, hpb, nx, hcell, hrest⟩ := hl
    have hnx : nx = 0 := hrest
    subst hnx
    have hstep := uScan_step_next (F' + 1) env p 0 b.mem m h4 h2 hcell (Or.inl rfl)
    refine ⟨{ env with locals := setLocal env.locals "v16" 0 }, ?_, rfl, rfl, rfl, rfl, ?_⟩
    · unfold uScan
      rw [exec_while_true (F' + 12 + 1) _ _ env _ (uScanC_true env p h4 h8 hp0) hstep]
      exact exec_while_false (F' + 12) _ _ _ (uScanC_false_null _ (by simp [setLocal]) (by simp [setLocal, h8]))
    · simp [scanRemove, setLocal, h8]
  | b :: n :: rest, F, env, p, m, sz, hF, h4, h8, h2, h3, hl, hnodup, hmn => by
    obtain ⟨F', rfl⟩ : ∃ F', F = F' + 12 + 1 := ⟨F - 13, by simp at hF; omega⟩
    obtain ⟨hp0, hpb, nx, hcell, hrest⟩ := hl
    obtain ⟨hq0, hqn, nx2, hcell2, hrest2⟩ := hrest
    simp only [List.map_cons, List.nodup_cons, List.mem_cons, List.mem_map, not_or, not_exists, not_and] at hnodup
    obtain ⟨⟨hbn, hbrest⟩, ⟨hnrest, hrestnodup⟩⟩ := hnodup
    have hqp : nx ≠ p := by rw [hqn, hpb]; exact fun h => hbn h.symm
    by_cases hm : n.mem = m
    · subst hm
      obtain ⟨env1, hex, hhs, h81, hevs, hfresh⟩ :=
        uScan_step_found F' env p nx nx2 b.mem n.mem sz h4 h2 h3 hcell hq0 hqp hcell2
      refine ⟨env1, ?_, hfresh, by rw [hhs], by rw [hhs], by rw [hhs], ?_⟩
      · unfold uScan
        rw [exec_while_true (F' + 12) _ _ env env1 (uScanC_true env p h4 h8 hp0) hex]
        obtain ⟨F'', rfl⟩ : ∃ F'', F' = F'' + 1 := ⟨F' - 1, by simp at hF; omega⟩
        exact exec_while_false _ _ _ _ (uScanC_false_done env1 h81)
      · have hsr : scanRemove (b :: n :: rest) n.mem = some (n, b :: rest) := by simp [scanRemove]
        rw [hsr]
        refine ⟨h81, by rw [hevs, hqn], ?_, by simp, ?_⟩
        · rw [hhs]
          have hmp : p ≠ n.mem := by rw [hpb]; exact fun h => hmn n (by simp) b (by simp) h.symm
          refine ⟨hp0, hpb, nx2, by simp [setCell, hqp.symm, hmp], ?_⟩
          apply isList_frame env.hs.cells _ _ _ _ hrest2
          intro x hx
          have h1 : x.node ≠ p := by rw [hpb]; exact fun h => hbrest x hx h
          have h2' : x.node ≠ nx := by rw [hqn]; exact fun h => hnrest x hx h
          have h3' : x.node ≠ n.mem := fun h => hmn n (by simp) x (by simp [hx]) h.symm
          simp [setCell, h1, h2', h3']
        · intro q hq hqm
          simp only [List.map_cons, List.mem_cons, not_or] at hq
          rw [hhs]
          have h1 : q ≠ p := by rw [hpb]; exact hq.1
          have h2' : q ≠ nx := by rw [hqn]; exact hq.2.1
          simp [setCell, h1, h2', hqm]
    · have hstep := uScan_step_next F' env p nx b.mem m h4 h2 hcell (Or.inr ⟨nx2, n.mem, hcell2, hm⟩)
      have ih := uScan_loop (n :: rest) (F' + 12) { env with locals := setLocal env.locals "v16" nx } nx m sz
        (by simp at hF ⊢; omega) (by simp [setLocal]) (by simp [setLocal, h8]) (by simp [setLocal, h2])
        (by simp [setLocal, h3]) ⟨hq0, hqn, nx2, hcell2, hrest2⟩
        (by simp only [List.map_cons, List.nodup_cons, List.mem_map, not_exists, not_and]; exact ⟨hnrest, hrestnodup⟩)
        (fun y hy z hz => hmn y (by simp [hy]) z (by simp [hz]))
      obtain ⟨env', hex, hfresh, hnc, hnodes, hw, hres⟩ := ih
      refine ⟨env', ?_, hfresh, hnc, hnodes, hw, ?_⟩
      · unfold uScan
        rw [exec_while_true (F' + 12) _ _ env _ (uScanC_true env p h4 h8 hp0) hstep]
        exact hex
      · cases hs : scanRemove (n :: rest) m with
        | none =>
          have hsr : scanRemove (b :: n :: rest) m = none := by rw [scanRemove, if_neg hm, hs]
          rw [hsr]; rw [hs] at hres; simpa using hres
        | some pr =>
          obtain ⟨x, l'⟩ := pr
          have hsr : scanRemove (b :: n :: rest) m = some (x, b :: l') := by rw [scanRemove, if_neg hm, hs]
          rw [hsr]
          rw [hs] at hres
          simp only at hres ⊢
          obtain ⟨k1, k2, k3, k5, k6⟩ := hres
          refine ⟨k1, k2, ?_, by simp [k5], ?_⟩
          · refine ⟨hp0, hpb, nx, ?_, k3⟩
            rw [k6 p (by
              simp only [List.map_cons, List.mem_cons, List.mem_map, not_or, not_exists, not_and]
              refine ⟨by omega, ?_⟩
              intro y hy; have := hbrest y hy; omega) (by
                rw [hpb]; exact fun h => hmn x (by simp [k5]) b (by simp) h.symm)]
            exact hcell
          · intro q hq hqm
            simp only [List.map_cons, List.mem_cons, not_or] at hq
            exact k6 q (by simp only [List.map_cons, List.mem_cons, not_or]; exact hq.2) hqm


theorem rep_set_uncached (hs : HState) (s : State) (hrep : Rep hs s) (cells' : Nat → Option Cell) (nc' : Nat)
    (unc' : List Block)
    (hcls : ∀ (j : Nat) (d : Class), s.classes[j]? = some d → ∀ b ∈ d.free ++ d.used, cells' b.node = hs.cells b.node)
    (hunc : IsList cells' nc' unc') :
    Rep { hs with cells := cells', nonCached := nc' } { s with uncached := unc' } := by
  refine ⟨hrep.len, ?_, hunc, hrep.warned⟩
  intro j nd c hnj hcj
  obtain ⟨k1, k2, k3⟩ := hrep.cls j nd c hnj hcj
  have hag := hcls j c hcj
  exact ⟨k1, isList_frame hs.cells cells' _ _ (fun b hb => hag b (by simp [hb])) k2,
    isList_frame hs.cells cells' _ _ (fun b hb => hag b (by simp [hb])) k3⟩

/-- `dealloc` of an uncached size: the regenerated program refines the list model -/
theorem deallocH_uncached_refines (f : Nat) (hs : HState) (s : State) (m size : Nat)
    (hrep : Rep hs s) (hinv : Inv s) (hcached : ¬ isCached size = true) (hfuel : s.uncached.length ≤ f) :
    ∃ hs', deallocH (f + 60) hs m size = .ok (hs', (deallocUncached s m size).2) ∧
      Rep hs' (deallocUncached s m size).1 := by
  have hsz : ¬ size ≤ 256 := fun h => hcached (by unfold isCached Gen.Cache.cachedLimit; exact decide_eq_true h)
  obtain ⟨hnodup, hsep⟩ := uncached_separate s hinv.1
  have hmn : ∀ y ∈ s.uncached, ∀ z ∈ s.uncached, y.mem ≠ z.node := fun y hy z hz =>
    mem_ne_node s hinv.1 y (uncached_block_mem s y hy) z (uncached_block_mem s z hz)
  have hclsmem : ∀ (j : Nat) (d : Class), s.classes[j]? = some d → ∀ b ∈ d.free ++ d.used, ∀ x ∈ s.uncached,
      b.node ≠ x.node ∧ b.node ≠ x.mem := fun j d hd b hb x hx =>
    ⟨hsep j d hd b hb x hx, fun h => mem_ne_node s hinv.1 x (uncached_block_mem s x hx) b (class_block_mem s j d hd b hb) h.symm⟩
  have hul := hrep.unc
  rw [deallocH, call, deallocProg_eq_ref]
  unfold deallocUncached
  have hheadcase : (∃ b rest nx, s.uncached = b :: rest ∧ b.mem = m ∧ hs.cells hs.nonCached = some ⟨nx, m⟩ ∧
        hs.nonCached ≠ 0 ∧ hs.nonCached = b.node ∧ IsList hs.cells nx rest) ∨
      (unlink s.uncached m = scanRemove s.uncached m ∧
        (hs.nonCached = 0 ∨ (hs.nonCached ≠ 0 ∧ ∃ nx bm, hs.cells hs.nonCached = some ⟨nx, bm⟩ ∧ bm ≠ m))) := by
    cases hu : s.uncached with
    | nil => right; rw [hu] at hul; exact ⟨by simp [unlink, scanRemove], Or.inl hul⟩
    | cons b rest =>
      rw [hu] at hul
      obtain ⟨h0, hpb, nx, hcell, hrest⟩ := hul
      by_cases hbm : b.mem = m
      · left; exact ⟨b, rest, nx, rfl, hbm, hbm ▸ hcell, h0, hpb, hrest⟩
      · right; exact ⟨by simp [unlink, hbm], Or.inr ⟨h0, nx, b.mem, hcell, hbm⟩⟩
  rcases hheadcase with ⟨b, rest, nx, hu, hbm, hcell, h0, hpb, hrest⟩ | ⟨hunl, hhead⟩
  · have hun : unlink s.uncached m = some (b, rest) := by simp [hu, unlink, hbm]
    rw [hun]
    have hbn : b.node ≠ m := fun h => hmn b (by simp [hu]) b (by simp [hu]) (hbm.trans h.symm)
    have hdb : destroyBlock b size = [.ufree m size, .ufree hs.nonCached 16] := by
      simp [destroyBlock, hbm, Gen.Cache.blockStructBytes, hpb]
    have hbn' : hs.nonCached ≠ m := hpb ▸ hbn
    simp only [hdb]
    refine ⟨_, by
      simp [deallocRef, exec, execSimple, evalE, evalB, params, setLocal, hsz, deref, h0, hcell, doFree, setCell, hbn']
      rfl, ?_⟩
    rw [hu] at hnodup hmn
    simp only [List.map_cons, List.nodup_cons, List.mem_map, not_exists, not_and] at hnodup
    apply rep_set_uncached hs s hrep
    · intro j d hd x hx
      obtain ⟨h1, h2⟩ := hclsmem j d hd x hx b (by simp [hu])
      simp [setCell, hpb, h1, hbm ▸ h2]
    · apply isList_frame hs.cells _ _ _ _ hrest
      intro x hx
      have h1 : x.node ≠ b.node := fun h => hnodup.1 x hx h
      have h2 : x.node ≠ m := fun h => hmn b (by simp) x (by simp [hx]) (hbm.trans h.symm)
      simp [setCell, hpb, h1, h2]
  · rw [hunl]
    have hfin : ∀ (env' : Env), env'.hs.nonCached = hs.nonCached → env'.hs.nodes = hs.nodes → env'.hs.warned = hs.warned →
        (match scanRemove s.uncached m with
          | some (x, l') => env'.locals "v19" = 1 ∧ env'.evs = [.ufree x.mem size, .ufree x.node 16] ∧
              IsList env'.hs.cells hs.nonCached l' ∧ x ∈ s.uncached ∧
              (∀ q, q ∉ s.uncached.map (·.node) → q ≠ x.mem → env'.hs.cells q = hs.cells q)
          | none => env'.locals "v19" = 0 ∧ env'.hs = hs ∧ env'.evs = []) →
        ∃ hs', (match (match scanRemove s.uncached m with
                | some (b, rest) => ({ s with uncached := rest }, destroyBlock b size)
                | none => warnOnce s) with
              | (s', evs) => (if env'.locals "v19" = 0 then
                    (if env'.hs.warned then (env'.hs, env'.evs) else ({ env'.hs with warned := true }, env'.evs ++ [Ev.warn]))
                  else (env'.hs, env'.evs)) = (hs', evs) ∧ Rep hs' s') := by
      intro env' hnc hnodes hw hres
      cases hsr : scanRemove s.uncached m with
      | none =>
        rw [hsr] at hres
        obtain ⟨h8, hhs, hevs⟩ := hres
        simp only [h8, if_true, hhs, hevs, warnOnce_eq, hrep.warned]
        cases hwd : s.warned with
        | true => exact ⟨hs, by simp, hrep⟩
        | false =>
          refine ⟨{ hs with warned := true }, by simp, ⟨hrep.len, hrep.cls, hrep.unc, rfl⟩⟩
      | some pr =>
        obtain ⟨x, l'⟩ := pr
        rw [hsr] at hres
        obtain ⟨h8, k2, k3, k5, k6⟩ := hres
        simp only [h8, k2]
        refine ⟨env'.hs, by simp [destroyBlock, Gen.Cache.blockStructBytes], ?_⟩
        have hst : env'.hs = { hs with cells := env'.hs.cells, nonCached := hs.nonCached } := by
          cases h : env'.hs; simp_all
        rw [hst]
        apply rep_set_uncached hs s hrep
        · intro j d hd y hy
          apply k6
          · intro hmem
            obtain ⟨z, hz, he⟩ := List.mem_map.mp hmem
            exact (hclsmem j d hd y hy z hz).1 he.symm
          · exact (hclsmem j d hd y hy x k5).2
        · exact k3
    have hloop : ∀ (env0 : Env), env0.hs = hs → env0.evs = [] → env0.locals "v16" = hs.nonCached →
        env0.locals "v19" = 0 → env0.locals "v14" = m → env0.locals "v15" = size →
        ∃ env', exec (f + 53) uScan env0 = .ok (env', .fall) ∧ env'.hs.nonCached = hs.nonCached ∧
          env'.hs.nodes = hs.nodes ∧ env'.hs.warned = hs.warned ∧
          (match scanRemove s.uncached m with
          | some (x, l') => env'.locals "v19" = 1 ∧ env'.evs = [.ufree x.mem size, .ufree x.node 16] ∧
              IsList env'.hs.cells hs.nonCached l' ∧ x ∈ s.uncached ∧
              (∀ q, q ∉ s.uncached.map (·.node) → q ≠ x.mem → env'.hs.cells q = hs.cells q)
          | none => env'.locals "v19" = 0 ∧ env'.hs = hs ∧ env'.evs = []) := by
      intro env0 e1 e2 e4 e5 e6 e7
      obtain ⟨env', hex, a1, a2, a3, a4, a6⟩ := uScan_loop s.uncached (f + 53) env0 hs.nonCached m size (by omega) e4 e5 e6 e7
        (by rw [e1]; exact hul) hnodup hmn
      refine ⟨env', hex, by rw [a2, e1], by rw [a3, e1], by rw [a4, e1], ?_⟩
      rw [e1, e2] at a6; simpa using a6
    have hafter : ∀ (r : Except String (Env × Flow)) (env' : Env), r = .ok (env', .fall) → True := fun _ _ _ => trivial
    rcases hhead with h0 | ⟨h0, nx, bm, hcell, hne⟩
    · simp [deallocRef, exec, execSimple, evalE, evalB, params, setLocal, hsz, deref, h0]
      generalize hE : exec (f + 53) uScan _ = r
      obtain ⟨env', hr, b1, b2, b3, b4⟩ : ∃ env', r = .ok (env', .fall) ∧ env'.hs.nonCached = hs.nonCached ∧
          env'.hs.nodes = hs.nodes ∧ env'.hs.warned = hs.warned ∧
          (match scanRemove s.uncached m with
          | some (x, l') => env'.locals "v19" = 1 ∧ env'.evs = [.ufree x.mem size, .ufree x.node 16] ∧
              IsList env'.hs.cells hs.nonCached l' ∧ x ∈ s.uncached ∧
              (∀ q, q ∉ s.uncached.map (·.node) → q ≠ x.mem → env'.hs.cells q = hs.cells q)
          | none => env'.locals "v19" = 0 ∧ env'.hs = hs ∧ env'.evs = []) := by
        rw [← hE]
        refine hloop _ rfl rfl ?_ ?_ ?_ ?_ <;> simp [setLocal, h0]
      subst hr
      obtain ⟨hs', k1, k2⟩ := hfin env' b1 b2 b3 b4
      refine ⟨hs', ?_, k2⟩
      by_cases h8 : env'.locals "v19" = 0
      · cases hwd : env'.hs.warned
        · simp [h8, hwd] at k1 ⊢; exact k1
        · simp [h8, hwd] at k1 ⊢; exact k1
      · simp [h8] at k1 ⊢; exact k1
    · simp [deallocRef, exec, execSimple, evalE, evalB, params, setLocal, hsz, deref, h0, hcell, hne]
      generalize hE : exec (f + 53) uScan _ = r
      obtain ⟨env', hr, b1, b2, b3, b4⟩ : ∃ env', r = .ok (env', .fall) ∧ env'.hs.nonCached = hs.nonCached ∧
          env'.hs.nodes = hs.nodes ∧ env'.hs.warned = hs.warned ∧
          (match scanRemove s.uncached m with
          | some (x, l') => env'.locals "v19" = 1 ∧ env'.evs = [.ufree x.mem size, .ufree x.node 16] ∧
              IsList env'.hs.cells hs.nonCached l' ∧ x ∈ s.uncached ∧
              (∀ q, q ∉ s.uncached.map (·.node) → q ≠ x.mem → env'.hs.cells q = hs.cells q)
          | none => env'.locals "v19" = 0 ∧ env'.hs = hs ∧ env'.evs = []) := by
        rw [← hE]
        refine hloop _ rfl rfl ?_ ?_ ?_ ?_ <;> simp [setLocal]
      subst hr
      obtain ⟨hs', k1, k2⟩ := hfin env' b1 b2 b3 b4
      refine ⟨hs', ?_, k2⟩
      by_cases h8 : env'.locals "v19" = 0
      · cases hwd : env'.hs.warned
        · simp [h8, hwd] at k1 ⊢; exact k1
        · simp [h8, hwd] at k1 ⊢; exact k1
      · simp [h8] at k1 ⊢; exact k1


/-! ### the destroy-list loop (`destroySimpleStringMemoryBlockList`), generic in the names of its locals -/

def dBody (cur nxt blk szv src : String) : Stmt :=
  (.seq (.set nxt (.next (.var cur))) (.seq (.seq (.set blk (.var cur)) (.seq (.set szv (.var src)) (.seq (.ufree (.memory (.var blk)) (.var szv)) (.ufree (.var blk) (.lit 16))))) (.set cur (.var nxt))))
def dWhile (cur nxt blk szv src : String) : Stmt := .while (.nonNull (.var cur)) (dBody cur nxt blk szv src)

theorem dBody_step (f : Nat) (env : Env) (cur nxt blk szv src : String) (p q bm sz : Nat)
    (hn : [cur, nxt, blk, szv, src].Nodup)
    (hc : env.locals cur = p) (hs : env.locals src = sz) (hcell : env.hs.cells p = some ⟨q, bm⟩) :
    exec (f + 10) (dBody cur nxt blk szv src) env =
      .ok ({ env with hs := { env.hs with cells := setCell (setCell env.hs.cells bm none) p none },
                      locals := setLocal (setLocal (setLocal (setLocal env.locals nxt q) blk p) szv sz) cur q,
                      evs := env.evs ++ [.ufree bm sz, .ufree p 16] }, .fall) := by
  simp only [List.nodup_cons, List.mem_cons, List.mem_singleton, List.not_mem_nil, not_or, not_false_eq_true,
    List.nodup_nil, and_true, or_false] at hn
  obtain ⟨⟨h1, h2, h3, h4⟩, ⟨h5, h6, h7⟩, ⟨h8, h9⟩, h10⟩ := hn
  simp [dBody, exec, execSimple, evalE, evalB, deref, setLocal, doFree, hc, hs, hcell, h1, h2, h3, h4, h5, h6, h7, h8, h9, h10,
    Ne.symm h1, Ne.symm h2, Ne.symm h3, Ne.symm h4, Ne.symm h5, Ne.symm h6, Ne.symm h7, Ne.symm h8, Ne.symm h9, Ne.symm h10]

theorem dWhile_loop (cur nxt blk szv src : String) (hn : [cur, nxt, blk, szv, src].Nodup) :
    ∀ (l : List Block) (F : Nat) (env : Env) (p sz : Nat),
    l.length + 12 ≤ F → env.locals cur = p → env.locals src = sz →
    IsList env.hs.cells p l → (l.flatMap Block.ids).Nodup →
    ∃ env', exec F (dWhile cur nxt blk szv src) env = .ok (env', .fall) ∧
      env'.evs = env.evs ++ destroyList l sz ∧ env'.fresh = env.fresh ∧ env'.hs.nodes = env.hs.nodes ∧
      env'.hs.nonCached = env.hs.nonCached ∧ env'.hs.warned = env.hs.warned ∧
      (∀ q, q ∉ l.flatMap Block.ids → env'.hs.cells q = env.hs.cells q) ∧
      (∀ x, x ≠ cur → x ≠ nxt → x ≠ blk → x ≠ szv → env'.locals x = env.locals x)
  | [], F, env, p, sz, hF, hc, hs, hl, _ => by
    obtain ⟨F', rfl⟩ : ∃ F', F = F' + 1 := ⟨F - 1, by omega⟩
    have hp : p = 0 := hl
    subst hp
    refine ⟨env, ?_, by simp [destroyList], rfl, rfl, rfl, rfl, fun _ _ => rfl, fun _ _ _ _ _ => rfl⟩
    exact exec_while_false F' _ _ env (by simp [evalB, evalE, hc])
  | b :: rest, F, env, p, sz, hF, hc, hs, hl, hnd => by
    obtain ⟨F', rfl⟩ : ∃ F', F = F' + 10 + 1 := ⟨F - 11, by simp at hF; omega⟩
    obtain ⟨hp0, hpb, nx, hcell, hrest⟩ := hl
    have hstep := dBody_step F' env cur nxt blk szv src p nx b.mem sz hn hc hs hcell
    have hn' := hn
    simp only [List.nodup_cons, List.mem_cons, List.mem_singleton, List.not_mem_nil, not_or, not_false_eq_true,
      List.nodup_nil, and_true, or_false] at hn'
    obtain ⟨⟨h1, h2, h3, h4⟩, ⟨h5, h6, h7⟩, ⟨h8, h9⟩, h10⟩ := hn'
    rw [List.flatMap_cons, List.nodup_append] at hnd
    obtain ⟨hb, hrestnd, hdis⟩ := hnd
    have hrestids : ∀ x ∈ rest, x.node ≠ b.node ∧ x.node ≠ b.mem := fun x hx =>
      ⟨fun h => hdis b.node (by simp [Block.ids]) x.node (List.mem_flatMap.mpr ⟨x, hx, by simp [Block.ids]⟩) h.symm,
       fun h => hdis b.mem (by simp [Block.ids]) x.node (List.mem_flatMap.mpr ⟨x, hx, by simp [Block.ids]⟩) h.symm⟩
    have ih := dWhile_loop cur nxt blk szv src hn rest (F' + 10)
      { env with hs := { env.hs with cells := setCell (setCell env.hs.cells b.mem none) p none },
                 locals := setLocal (setLocal (setLocal (setLocal env.locals nxt nx) blk p) szv sz) cur nx,
                 evs := env.evs ++ [.ufree b.mem sz, .ufree p 16] } nx sz (by simp at hF ⊢; omega)
      (show (setLocal (setLocal (setLocal (setLocal env.locals nxt nx) blk p) szv sz) cur nx) cur = nx by simp [setLocal])
      (show (setLocal (setLocal (setLocal (setLocal env.locals nxt nx) blk p) szv sz) cur nx) src = sz by
        simp [setLocal, hs, Ne.symm h4, Ne.symm h7, Ne.symm h9, Ne.symm h10])
      (show IsList (setCell (setCell env.hs.cells b.mem none) p none) nx rest by
        apply isList_frame env.hs.cells _ _ _ _ hrest
        intro x hx
        obtain ⟨k1, k2⟩ := hrestids x hx
        simp [setCell, hpb, k1, k2])
      hrestnd
    obtain ⟨env', hex, a1, a2, a3, a4, a5, a6, a7⟩ := ih
    refine ⟨env', ?_, ?_, a2, a3, a4, a5, ?_, ?_⟩
    · unfold dWhile
      rw [exec_while_true (F' + 10) _ _ env _ (by simp [evalB, evalE, hc, hp0]) hstep]
      exact hex
    · rw [a1]; simp [destroyList, destroyBlock, Gen.Cache.blockStructBytes, hpb]
    · intro q hq
      simp only [List.flatMap_cons, List.mem_append, not_or, Block.ids, List.mem_cons, List.not_mem_nil, or_false] at hq
      rw [a6 q hq.2]
      simp [setCell, hpb, hq.1.1, hq.1.2]
    · intro x x1 x2 x3 x4
      rw [a7 x x1 x2 x3 x4]
      simp [setLocal, x1, x2, x3, x4]



open ListLemmas

theorem class_ids_nodup (s : State) (hnd : s.liveIds.Nodup) (i : Nat) (c : Class) (hc : s.classes[i]? = some c) :
    (c.free.flatMap Block.ids).Nodup ∧ (c.used.flatMap Block.ids).Nodup := by
  obtain ⟨pre, post, hsplit, hlen⟩ := split_at s.classes i c hc
  rw [liveIds_eq, hsplit] at hnd
  rw [List.flatMap_append, List.flatMap_cons] at hnd
  simp only [Class.ids, Class.blocks, List.flatMap_append] at hnd
  have h1 := (List.nodup_append.mp hnd).2.1
  have h2 := (List.nodup_append.mp h1).1
  have h3 := (List.nodup_append.mp h2).2.1
  have h4 := (List.nodup_append.mp h3).1
  exact ⟨(List.nodup_append.mp h4).1, (List.nodup_append.mp h4).2.1⟩

theorem uncached_ids_nodup (s : State) (hnd : s.liveIds.Nodup) : (s.uncached.flatMap Block.ids).Nodup := by
  rw [liveIds_eq] at hnd
  exact (List.nodup_append.mp (List.nodup_append.mp hnd).2.1).2.1

/-- replacing a class by one that holds fewer blocks keeps `Nodup liveIds` and does not grow the state -/
theorem set_class_smaller (s : State) (hnd : s.liveIds.Nodup) (k : Nat) (c c' : Class) (gone : List Block)
    (hc : s.classes[k]? = some c) (hp : (c'.blocks ++ gone).Perm c.blocks) :
    ({ s with classes := s.classes.set k c' } : State).liveIds.Nodup ∧
    ({ s with classes := s.classes.set k c' } : State).blocks.length ≤ s.blocks.length := by
  constructor
  · have h := flatMap_set_perm Class.ids s.classes k c c' (gone.flatMap Block.ids) [] hc (by
      simp only [Class.ids, List.append_nil]
      rw [← List.flatMap_append]
      exact hp.flatMap_right Block.ids)
    simp only [List.append_nil] at h
    rw [liveIds_eq] at hnd ⊢
    have hcount : ∀ x, ((s.classes.set k c').flatMap Class.ids).count x ≤ (s.classes.flatMap Class.ids).count x := by
      intro x
      have := h.count_eq x
      simp only [List.count_append] at this; omega
    apply List.nodup_iff_count.mpr
    intro x
    have h0 := List.nodup_iff_count.mp hnd x
    have := hcount x
    simp only [List.count_append] at h0 ⊢
    omega
  · have h := flatMap_set_perm Class.blocks s.classes k c c' gone [] hc (by simpa using hp)
    have := h.length_eq
    simp only [State.blocks, List.length_append, List.append_nil] at this ⊢
    omega


def loopCond : B := (.lt (.var "v0") (.lit 5))

/-- the `for (i = 0; i < amountOfInternalCacheNodes; i++)` loop of `clearCache` / `clearAll`, generic in
    what one iteration does to class `i` -/
theorem outerLoop (iter : Stmt) (clr : Class → Class) (evsOf : Class → List Ev) (G : Nat)
    (hiter : ∀ (F : Nat) (env : Env) (s : State) (k : Nat) (c : Class), G + s.blocks.length ≤ F →
      env.locals "v0" = k → Rep env.hs s → s.liveIds.Nodup → s.classes[k]? = some c →
      ∃ env', exec F iter env = .ok (env', .fall) ∧ env'.locals "v0" = k + 1 ∧ env'.evs = env.evs ++ evsOf c ∧
        env'.fresh = env.fresh ∧
        Rep env'.hs { s with classes := s.classes.set k (clr c) } ∧
        ({ s with classes := s.classes.set k (clr c) } : State).liveIds.Nodup ∧
        ({ s with classes := s.classes.set k (clr c) } : State).blocks.length ≤ s.blocks.length) :
    ∀ (n k F : Nat) (env : Env) (s : State), k + n = 5 → s.classes.length = 5 → env.locals "v0" = k →
      Rep env.hs s → s.liveIds.Nodup → G + s.blocks.length + n + 1 ≤ F →
      ∃ env', exec F (.while loopCond iter) env = .ok (env', .fall) ∧
        env'.evs = env.evs ++ (s.classes.drop k).flatMap evsOf ∧ env'.fresh = env.fresh ∧
        Rep env'.hs { s with classes := s.classes.mapIdx (fun j c => if j < k then c else clr c) }
  | 0, k, F, env, s, hk, hlen, hv0, hrep, hnd, hF => by
    obtain ⟨F', rfl⟩ : ∃ F', F = F' + 1 := ⟨F - 1, by omega⟩
    have hk5 : k = 5 := by omega
    refine ⟨env, exec_while_false F' _ _ env (by simp [loopCond, evalB, evalE, hv0, hk5]), ?_, rfl, ?_⟩
    · rw [List.drop_eq_nil_of_le (by omega)]; simp
    · have : s.classes.mapIdx (fun j c => if j < k then c else clr c) = s.classes := by
        apply List.ext_getElem?
        intro j
        simp only [List.getElem?_mapIdx]
        cases hj : s.classes[j]? with
        | none => rfl
        | some d =>
          have := lt_of_getElem?_some _ _ _ hj
          simp only [Option.map_some]
          rw [if_pos (by omega)]
      rw [this]; exact hrep
  | n + 1, k, F, env, s, hk, hlen, hv0, hrep, hnd, hF => by
    obtain ⟨F', rfl⟩ : ∃ F', F = F' + 1 := ⟨F - 1, by omega⟩
    have hklt : k < s.classes.length := by omega
    have hc : s.classes[k]? = some s.classes[k] := List.getElem?_eq_getElem hklt
    obtain ⟨env1, hex, h1, h2, h3, h4, h5, h6⟩ := hiter F' env s k s.classes[k] (by omega) hv0 hrep hnd hc
    have ih := outerLoop iter clr evsOf G hiter n (k + 1) F' env1
      { s with classes := s.classes.set k (clr s.classes[k]) } (by omega) (by simp [hlen]) h1 h4 h5 (by omega)
    obtain ⟨env', hex', a1, a2, a3⟩ := ih
    refine ⟨env', ?_, ?_, by rw [a2, h3], ?_⟩
    · rw [exec_while_true F' _ _ env env1 (by simp [loopCond, evalB, evalE, hv0]; omega) hex]
      exact hex'
    · rw [a1, h2]
      simp only
      rw [List.drop_set_of_lt (by omega), List.drop_eq_getElem_cons hklt, List.flatMap_cons, List.append_assoc]
    · have : (s.classes.set k (clr s.classes[k])).mapIdx (fun j c => if j < k + 1 then c else clr c) =
          s.classes.mapIdx (fun j c => if j < k then c else clr c) := by
        apply List.ext_getElem?
        intro j
        simp only [List.getElem?_mapIdx, List.getElem?_set]
        by_cases hjk : k = j
        · subst hjk
          simp [hklt]
        · simp only [hjk, if_false]
          cases hj : s.classes[j]? with
          | none => rfl
          | some d =>
            simp only [Option.map_some]
            by_cases hlt : j < k
            · rw [if_pos (by omega), if_pos hlt]
            · rw [if_neg (by omega), if_neg hlt]
      simp only at a3
      rw [this] at a3
      exact a3


def ccIter : Stmt :=
  (.seq (.seq (.seq (.set "v1" (.nfree (.var "v0"))) (.seq (.set "v2" (.nsize (.var "v0"))) (.seq (.set "v3" (.var "v1")) (dWhile "v3" "v4" "v5" "v6" "v2")))) (.setNfree (.var "v0") (.lit 0))) (.set "v0" (.succ (.var "v0"))))
def ccLoop : Stmt := .while loopCond ccIter
def clearCacheRef : Stmt := (.seq (.set "v0" (.lit 0)) ccLoop)
theorem clearCacheProg_eq_ref : clearCacheProg = clearCacheRef := rfl

def caIter : Stmt :=
  (.seq (.seq (.seq (.set "v1" (.nfree (.var "v0"))) (.seq (.set "v2" (.nsize (.var "v0"))) (.seq (.set "v3" (.var "v1")) (dWhile "v3" "v4" "v5" "v6" "v2")))) (.seq (.seq (.set "v7" (.nused (.var "v0"))) (.seq (.set "v8" (.nsize (.var "v0"))) (.seq (.set "v9" (.var "v7")) (dWhile "v9" "v10" "v11" "v12" "v8")))) (.seq (.setNfree (.var "v0") (.lit 0)) (.setNused (.var "v0") (.lit 0))))) (.set "v0" (.succ (.var "v0"))))
def caLoop : Stmt := .while loopCond caIter
def clearAllRef : Stmt :=
  (.seq (.seq (.set "v0" (.lit 0)) caLoop) (.seq (.seq (.set "v13" .nonCached) (.seq (.set "v14" (.lit 0)) (.seq (.set "v15" (.var "v13")) (dWhile "v15" "v16" "v17" "v18" "v14")))) (.setNonCached (.lit 0))))
theorem clearAllProg_eq_ref : clearAllProg = clearAllRef := rfl

theorem names1 : ["v3", "v4", "v5", "v6", "v2"].Nodup := by decide
theorem names2 : ["v9", "v10", "v11", "v12", "v8"].Nodup := by decide
theorem names3 : ["v15", "v16", "v17", "v18", "v14"].Nodup := by decide

theorem free_length_le (s : State) (k : Nat) (c : Class) (hc : s.classes[k]? = some c) :
    c.free.length ≤ s.blocks.length ∧ c.used.length ≤ s.blocks.length := by
  obtain ⟨pre, post, hsplit, _⟩ := split_at s.classes k c hc
  simp only [State.blocks, hsplit, List.flatMap_append, List.flatMap_cons, Class.blocks, List.length_append]
  omega

/-- one iteration of `clearCache`'s loop: the free list of class `k` goes back to the allocator -/
theorem ccIter_refines (F : Nat) (env : Env) (s : State) (k : Nat) (c : Class)
    (hF : 30 + s.blocks.length ≤ F) (hv0 : env.locals "v0" = k) (hrep : Rep env.hs s) (hnodup : s.liveIds.Nodup)
    (hc : s.classes[k]? = some c) :
    ∃ env', exec F ccIter env = .ok (env', .fall) ∧ env'.locals "v0" = k + 1 ∧
      env'.evs = env.evs ++ destroyList c.free c.size ∧ env'.fresh = env.fresh ∧
      Rep env'.hs { s with classes := s.classes.set k { c with free := [] } } ∧
      ({ s with classes := s.classes.set k { c with free := [] } } : State).liveIds.Nodup ∧
      ({ s with classes := s.classes.set k { c with free := [] } } : State).blocks.length ≤ s.blocks.length := by
  obtain ⟨F', rfl⟩ : ∃ F', F = F' + 20 := ⟨F - 20, by omega⟩
  obtain ⟨nd, hnd⟩ := node_of_class env.hs s hrep k c hc
  obtain ⟨hsize, hfl, hul⟩ := hrep.cls k nd c hnd hc
  have hlt := lt_of_getElem?_some _ _ _ hnd
  have hget : env.hs.nodes[k] = nd := by rw [List.getElem?_eq_getElem hlt] at hnd; exact Option.some.inj hnd
  obtain ⟨hfreeids, _⟩ := class_ids_nodup s hnodup k c hc
  obtain ⟨hnn, hoth, hunc⟩ := class_separate s hnodup k c hc
  obtain ⟨hsm1, hsm2⟩ := set_class_smaller s hnodup k c { c with free := [] } c.free hc (by
    simp only [Class.blocks]; apply perm_of_count; intro x; simp [List.count_append]; omega)
  · simp [ccIter, exec, execSimple, evalE, nodeAt, hv0, hget, hlt, setLocal]
    generalize hE : exec (F' + 15) (dWhile "v3" "v4" "v5" "v6" "v2") _ = r
    obtain ⟨env1, hr, a1, a2, a3, a4, a5, a6, a7⟩ : ∃ env1, r = .ok (env1, .fall) ∧
        env1.evs = env.evs ++ destroyList c.free c.size ∧ env1.fresh = env.fresh ∧ env1.hs.nodes = env.hs.nodes ∧
        env1.hs.nonCached = env.hs.nonCached ∧ env1.hs.warned = env.hs.warned ∧
        (∀ q, q ∉ c.free.flatMap Block.ids → env1.hs.cells q = env.hs.cells q) ∧ env1.locals "v0" = k := by
      rw [← hE]
      obtain ⟨env1, hex, b1, b2, b3, b4, b5, b6, b7⟩ := dWhile_loop "v3" "v4" "v5" "v6" "v2" names1 c.free (F' + 15)
        { hs := env.hs, locals := setLocal (setLocal (setLocal env.locals "v1" nd.free) "v2" nd.size) "v3" nd.free,
          fresh := env.fresh, evs := env.evs } nd.free nd.size (by have := (free_length_le s k c hc).1; omega)
        (by simp [setLocal]) (by simp [setLocal]) hfl hfreeids
      refine ⟨env1, hex, by rw [b1, hsize], b2, b3, b4, b5, b6, ?_⟩
      rw [b7 "v0" (by decide) (by decide) (by decide) (by decide)]
      simp [setLocal, hv0]
    subst hr
    have hlt1 : k < env1.hs.nodes.length := by rw [a3]; exact hlt
    have hget1 : env1.hs.nodes[k] = nd := by simp [a3, hget]
    simp [setNodeFree, a7, hlt1, hget1, setLocal]
    have hnotin : ∀ y, y ∈ s.blocks → (∀ x ∈ c.free, y.node ≠ x.node) → y.node ∉ c.free.flatMap Block.ids := by
      intro y hy hne hmem
      obtain ⟨x, hx, hin⟩ := List.mem_flatMap.mp hmem
      simp only [Block.ids, List.mem_cons, List.not_mem_nil, or_false] at hin
      rcases hin with h | h
      · exact hne x hx h
      · exact mem_ne_node s hnodup x (class_block_mem s k c hc x (by simp [hx])) y hy h.symm
    refine ⟨a1, a2, ?_, hsm1, hsm2⟩
    rw [a3, a4, a5]
    refine rep_set_class env.hs s hrep k c { c with free := [] } nd { nd with free := 0 } hc hnd env1.hs.cells ?_ ?_ hsize rfl ?_
    · intro j d hj hd y hy
      exact a6 _ (hnotin y (class_block_mem s j d hd y hy) (fun x hx => hoth j d hj hd y hy x (by simp [hx])))
    · intro y hy
      exact a6 _ (hnotin y (uncached_block_mem s y hy) (fun x hx => hunc y hy x (by simp [hx])))
    · apply isList_frame env.hs.cells _ _ _ _ hul
      intro y hy
      apply a6 _ (hnotin y (class_block_mem s k c hc y (by simp [hy])) ?_)
      intro x hx h
      rw [List.map_append, List.nodup_append] at hnn
      exact hnn.2.2 x.node (List.mem_map.mpr ⟨x, hx, rfl⟩) y.node (List.mem_map.mpr ⟨y, hy, rfl⟩) h.symm

theorem classes_length (s : State) (hinv : Inv s) : s.classes.length = 5 := by
  have := congrArg List.length hinv.2.1
  simpa [Gen.Cache.classSizes] using this

theorem mapIdx_zero (l : List Class) (clr : Class → Class) :
    l.mapIdx (fun j c => if j < 0 then c else clr c) = l.map clr := by
  apply List.ext_getElem?
  intro j
  simp [List.getElem?_mapIdx]

/-- `clearCache()`: the regenerated program refines the list model -/
theorem clearCacheH_refines (f : Nat) (hs : HState) (s : State) (hrep : Rep hs s) (hinv : Inv s)
    (hfuel : s.blocks.length ≤ f) :
    ∃ hs', clearCacheH (f + 50) hs = .ok (hs', (clearCache s).2) ∧ Rep hs' (clearCache s).1 := by
  rw [clearCacheH, call, clearCacheProg_eq_ref]
  simp [clearCacheRef, exec, execSimple, evalE]
  generalize hE : exec (f + 49) ccLoop _ = r
  obtain ⟨env', hr, a1, a2, a3⟩ : ∃ env', r = .ok (env', .fall) ∧
      env'.evs = s.classes.flatMap (fun c => destroyList c.free c.size) ∧ env'.fresh = [] ∧
      Rep env'.hs { s with classes := s.classes.map (fun c => { c with free := [] }) } := by
    rw [← hE]
    obtain ⟨env', hex, b1, b2, b3⟩ := outerLoop ccIter (fun c => { c with free := [] })
      (fun c => destroyList c.free c.size) 30 ccIter_refines 5 0 (f + 49)
      { hs := hs, locals := setLocal (params []) "v0" 0, fresh := [], evs := [] } s rfl (classes_length s hinv)
      (by simp [setLocal]) hrep hinv.1 (by omega)
    refine ⟨env', hex, by simpa using b1, b2, ?_⟩
    rw [mapIdx_zero] at b3; exact b3
  subst hr
  simp [clearCache, a1]
  exact a3

theorem caIter_refines (F : Nat) (env : Env) (s : State) (k : Nat) (c : Class)
    (hF : 30 + s.blocks.length ≤ F) (hv0 : env.locals "v0" = k) (hrep : Rep env.hs s) (hnodup : s.liveIds.Nodup)
    (hc : s.classes[k]? = some c) :
    ∃ env', exec F caIter env = .ok (env', .fall) ∧ env'.locals "v0" = k + 1 ∧
      env'.evs = env.evs ++ (destroyList c.free c.size ++ destroyList c.used c.size) ∧ env'.fresh = env.fresh ∧
      Rep env'.hs { s with classes := s.classes.set k { c with free := [], used := [] } } ∧
      ({ s with classes := s.classes.set k { c with free := [], used := [] } } : State).liveIds.Nodup ∧
      ({ s with classes := s.classes.set k { c with free := [], used := [] } } : State).blocks.length ≤ s.blocks.length := by
  obtain ⟨F', rfl⟩ : ∃ F', F = F' + 20 := ⟨F - 20, by omega⟩
  obtain ⟨nd, hnd⟩ := node_of_class env.hs s hrep k c hc
  obtain ⟨hsize, hfl, hul⟩ := hrep.cls k nd c hnd hc
  have hlt := lt_of_getElem?_some _ _ _ hnd
  have hget : env.hs.nodes[k] = nd := by rw [List.getElem?_eq_getElem hlt] at hnd; exact Option.some.inj hnd
  obtain ⟨hfreeids, husedids⟩ := class_ids_nodup s hnodup k c hc
  obtain ⟨hnn, hoth, hunc⟩ := class_separate s hnodup k c hc
  obtain ⟨hsm1, hsm2⟩ := set_class_smaller s hnodup k c { c with free := [], used := [] } (c.free ++ c.used) hc (by
    simp only [Class.blocks]; apply perm_of_count; intro x; simp [List.count_append])
  have hnotin : ∀ (l : List Block), (∀ x ∈ l, x ∈ s.blocks) → ∀ y, y ∈ s.blocks → (∀ x ∈ l, y.node ≠ x.node) →
      y.node ∉ l.flatMap Block.ids := by
    intro l hl y hy hne hmem
    obtain ⟨x, hx, hin⟩ := List.mem_flatMap.mp hmem
    simp only [Block.ids, List.mem_cons, List.not_mem_nil, or_false] at hin
    rcases hin with h | h
    · exact hne x hx h
    · exact mem_ne_node s hnodup x (hl x hx) y hy h.symm
  have hfreeblk : ∀ x ∈ c.free, x ∈ s.blocks := fun x hx => class_block_mem s k c hc x (by simp [hx])
  have husedblk : ∀ x ∈ c.used, x ∈ s.blocks := fun x hx => class_block_mem s k c hc x (by simp [hx])
  have hfu : ∀ x ∈ c.free, ∀ y ∈ c.used, y.node ≠ x.node := by
    intro x hx y hy h
    rw [List.map_append, List.nodup_append] at hnn
    exact hnn.2.2 x.node (List.mem_map.mpr ⟨x, hx, rfl⟩) y.node (List.mem_map.mpr ⟨y, hy, rfl⟩) h.symm
  simp [caIter, exec, execSimple, evalE, nodeAt, hv0, hget, hlt, setLocal]
  generalize hE : exec (F' + 15) (dWhile "v3" "v4" "v5" "v6" "v2") _ = r
  obtain ⟨env1, hr, a1, a2, a3, a4, a5, a6, a7⟩ : ∃ env1, r = .ok (env1, .fall) ∧
      env1.evs = env.evs ++ destroyList c.free c.size ∧ env1.fresh = env.fresh ∧ env1.hs.nodes = env.hs.nodes ∧
      env1.hs.nonCached = env.hs.nonCached ∧ env1.hs.warned = env.hs.warned ∧
      (∀ q, q ∉ c.free.flatMap Block.ids → env1.hs.cells q = env.hs.cells q) ∧ env1.locals "v0" = k := by
    rw [← hE]
    obtain ⟨env1, hex, b1, b2, b3, b4, b5, b6, b7⟩ := dWhile_loop "v3" "v4" "v5" "v6" "v2" names1 c.free (F' + 15)
      { hs := env.hs, locals := setLocal (setLocal (setLocal env.locals "v1" nd.free) "v2" nd.size) "v3" nd.free,
        fresh := env.fresh, evs := env.evs } nd.free nd.size (by have := (free_length_le s k c hc).1; omega)
      (by simp [setLocal]) (by simp [setLocal]) hfl hfreeids
    refine ⟨env1, hex, by rw [b1, hsize], b2, b3, b4, b5, b6, ?_⟩
    rw [b7 "v0" (by decide) (by decide) (by decide) (by decide)]
    simp [setLocal, hv0]
  subst hr
  have hlt1 : k < env1.hs.nodes.length := by rw [a3]; exact hlt
  have hget1 : env1.hs.nodes[k] = nd := by simp [a3, hget]
  have hul1 : IsList env1.hs.cells nd.used c.used := by
    apply isList_frame env.hs.cells _ _ _ _ hul
    intro y hy
    exact a6 _ (hnotin c.free hfreeblk y (husedblk y hy) (fun x hx => hfu x hx y hy))
  simp [a7, hlt1, hget1, setLocal]
  generalize hE2 : exec (F' + 14) (dWhile "v9" "v10" "v11" "v12" "v8") _ = r2
  obtain ⟨env2, hr2, c1, c2, c3, c4, c5, c6, c7⟩ : ∃ env2, r2 = .ok (env2, .fall) ∧
      env2.evs = env1.evs ++ destroyList c.used c.size ∧ env2.fresh = env1.fresh ∧ env2.hs.nodes = env1.hs.nodes ∧
      env2.hs.nonCached = env1.hs.nonCached ∧ env2.hs.warned = env1.hs.warned ∧
      (∀ q, q ∉ c.used.flatMap Block.ids → env2.hs.cells q = env1.hs.cells q) ∧ env2.locals "v0" = k := by
    rw [← hE2]
    obtain ⟨env2, hex, b1, b2, b3, b4, b5, b6, b7⟩ := dWhile_loop "v9" "v10" "v11" "v12" "v8" names2 c.used (F' + 14)
      { hs := env1.hs, locals := setLocal (setLocal (setLocal env1.locals "v7" nd.used) "v8" nd.size) "v9" nd.used,
        fresh := env1.fresh, evs := env1.evs } nd.used nd.size (by have := (free_length_le s k c hc).2; omega)
      (by simp [setLocal]) (by simp [setLocal]) hul1 husedids
    refine ⟨env2, hex, by rw [b1, hsize], b2, b3, b4, b5, b6, ?_⟩
    rw [b7 "v0" (by decide) (by decide) (by decide) (by decide)]
    simp [setLocal, a7]
  subst hr2
  have hlt2 : k < env2.hs.nodes.length := by rw [c3]; exact hlt1
  have hget2 : env2.hs.nodes[k] = nd := by simp [c3, hget1]
  simp [setNodeFree, setNodeUsed, c7, hlt2, hget2, setLocal]
  refine ⟨by rw [c1, a1, List.append_assoc], by rw [c2, a2], ?_, hsm1, hsm2⟩
  rw [c3, c4, c5, a3, a4, a5]
  have hcells : ∀ y, y ∈ s.blocks → (∀ x ∈ c.free, y.node ≠ x.node) → (∀ x ∈ c.used, y.node ≠ x.node) →
      env2.hs.cells y.node = env.hs.cells y.node := by
    intro y hy h1 h2
    rw [c6 _ (hnotin c.used husedblk y hy h2), a6 _ (hnotin c.free hfreeblk y hy h1)]
  refine rep_set_class env.hs s hrep k c { c with free := [], used := [] } nd { nd with free := 0, used := 0 } hc hnd
    env2.hs.cells ?_ ?_ hsize rfl rfl
  · intro j d hj hd y hy
    exact hcells y (class_block_mem s j d hd y hy) (fun x hx => hoth j d hj hd y hy x (by simp [hx]))
      (fun x hx => hoth j d hj hd y hy x (by simp [hx]))
  · intro y hy
    exact hcells y (uncached_block_mem s y hy) (fun x hx => hunc y hy x (by simp [hx]))
      (fun x hx => hunc y hy x (by simp [hx]))

theorem uncached_length_le (s : State) : s.uncached.length ≤ s.blocks.length := by
  simp [State.blocks]

/-- `clearAllIncludingCurrentlyUsedMemory()`: the regenerated program refines the list model -/
theorem clearAllH_refines (f : Nat) (hs : HState) (s : State) (hrep : Rep hs s) (hinv : Inv s)
    (hfuel : s.blocks.length ≤ f) :
    ∃ hs', clearAllH (f + 60) hs = .ok (hs', (clearAll s).2) ∧ Rep hs' (clearAll s).1 := by
  rw [clearAllH, call, clearAllProg_eq_ref]
  simp [clearAllRef, exec, execSimple, evalE]
  generalize hE : exec (f + 58) caLoop _ = r
  obtain ⟨env', hr, a1, a2, a3⟩ : ∃ env', r = .ok (env', .fall) ∧
      env'.evs = s.classes.flatMap (fun c => destroyList c.free c.size ++ destroyList c.used c.size) ∧ env'.fresh = [] ∧
      Rep env'.hs { s with classes := s.classes.map (fun c => { c with free := [], used := [] }) } := by
    rw [← hE]
    obtain ⟨env', hex, b1, b2, b3⟩ := outerLoop caIter (fun c => { c with free := [], used := [] })
      (fun c => destroyList c.free c.size ++ destroyList c.used c.size) 30 caIter_refines 5 0 (f + 58)
      { hs := hs, locals := setLocal (params []) "v0" 0, fresh := [], evs := [] } s rfl (classes_length s hinv)
      (by simp [setLocal]) hrep hinv.1 (by omega)
    refine ⟨env', hex, by simpa using b1, b2, ?_⟩
    rw [mapIdx_zero] at b3; exact b3
  subst hr
  simp [setLocal]
  generalize hE2 : exec (f + 55) (dWhile "v15" "v16" "v17" "v18" "v14") _ = r2
  obtain ⟨env2, hr2, c1, c3, c5⟩ : ∃ env2, r2 = .ok (env2, .fall) ∧
      env2.evs = env'.evs ++ destroyList s.uncached 0 ∧ env2.hs.nodes = env'.hs.nodes ∧
      env2.hs.warned = env'.hs.warned := by
    rw [← hE2]
    obtain ⟨env2, hex, b1, b2, b3, b4, b5, b6, b7⟩ := dWhile_loop "v15" "v16" "v17" "v18" "v14" names3 s.uncached (f + 55)
      { hs := env'.hs, locals := setLocal (setLocal (setLocal env'.locals "v13" env'.hs.nonCached) "v14" 0) "v15" env'.hs.nonCached,
        fresh := env'.fresh, evs := env'.evs } env'.hs.nonCached 0 (by have := uncached_length_le s; omega)
      (by simp [setLocal]) (by simp [setLocal]) a3.unc (uncached_ids_nodup s hinv.1)
    exact ⟨env2, hex, b1, b3, b5⟩
  subst hr2
  simp [clearAll, c1, a1]
  refine ⟨?_, ?_, rfl, ?_⟩
  · simp only [c3]; have := a3.len; simpa using this
  · intro j nd c hnj hcj
    simp only [c3] at hnj
    obtain ⟨k1, k2, k3⟩ := a3.cls j nd c hnj hcj
    have hempty : c.free = [] ∧ c.used = [] := by
      simp only [List.getElem?_map] at hcj
      cases h : s.classes[j]? with
      | none => simp [h] at hcj
      | some d => simp [h] at hcj; subst hcj; exact ⟨rfl, rfl⟩
    rw [hempty.1] at k2 ⊢; rw [hempty.2] at k3 ⊢
    exact ⟨k1, k2, k3⟩
  · simp only [c5]; exact a3.warned

end Cache.Heap
