import CppUModel.Proofs.ThreadSafe
import CppUModel.Spec.ThreadSafe
/-! C10 helper lemmas: the ownership discipline of a schedule refines the detector run. -/
namespace ThreadSafe

theorem count_flatMap_upd (x : Nat × Kind) (h : Nat → List (Nat × Kind)) (t : Nat) (v : List (Nat × Kind)) :
    ∀ (l : List Nat), l.Nodup →
      List.count x (l.flatMap (upd h t v)) + (if t ∈ l then List.count x (h t) else 0) =
        List.count x (l.flatMap h) + (if t ∈ l then List.count x v else 0)
  | [], _ => by simp
  | a :: l, hn => by
    have hn' := List.nodup_cons.mp hn
    have ih := count_flatMap_upd x h t v l hn'.2
    simp only [List.flatMap_cons, List.count_append, List.mem_cons]
    by_cases hta : t = a
    · subst hta
      have hnot : t ∉ l := hn'.1
      simp only [hnot, if_false, Nat.add_zero] at ih
      simp only [true_or, if_true, upd]
      omega
    · have : upd h t v a = h a := by simp [upd, Ne.symm hta]
      rw [this]
      by_cases htl : t ∈ l
      · simp only [htl, if_true, hta, false_or] at ih ⊢; omega
      · simp only [htl, if_false, hta, false_or, Nat.add_zero] at ih ⊢; omega

theorem moving_step_conservation (m : List (Nat × Kind × Nat)) (t : Nat) (op : TOp)
    (h : ∀ id k, op = .take id k → (id, k, t) ∈ m) (x : Nat × Kind) :
    List.count x ((movingStep m t op).map pr) + List.count x (takenOf op) =
      List.count x (m.map pr) + List.count x (givenOf op) := by
  cases op with
  | det d => simp [movingStep, takenOf, givenOf]
  | give id k to => simp [movingStep, takenOf, givenOf, pr, List.count_cons]
  | take id k =>
    have hm := h id k rfl
    have hp := (List.perm_cons_erase hm).map pr
    have e := hp.count_eq x
    simp only [List.map_cons, List.count_cons, pr] at e
    simp only [movingStep, takenOf, givenOf, List.count_cons, List.count_nil]
    omega

/-- one step of the ownership state neither forgets nor invents a block -/
theorem all_step_conservation (n : Nat) (o : Own) (t : Nat) (op : TOp) (ht : t < n)
    (hown : opOwned (o.held t) op = true) (htake : ∀ id k, op = .take id k → (id, k, t) ∈ o.moving)
    (x : Nat × Kind) :
    List.count x (allBlocks n (ownStep o t op)) + List.count x (freedOf op) =
      List.count x (allBlocks n o) + List.count x (allocdOf op) := by
  have e1 := count_flatMap_upd x o.held t (holdStep (o.held t) op) (List.range n) List.nodup_range
  have e2 := (hold_step_conservation (o.held t) op hown).count_eq x
  have e3 := moving_step_conservation o.moving t op htake x
  have htm : t ∈ List.range n := List.mem_range.mpr ht
  simp only [htm, if_true] at e1
  simp only [List.count_append] at e2
  simp only [allBlocks, ownStep, List.count_append]
  omega

theorem mem_lookup_of_nodup : ∀ {d : Det} {id : Nat} {k : Kind}, (ids d).Nodup → (id, k) ∈ d →
    lookup d id = some k
  | [], _, _, _, h => by simp at h
  | (i, k') :: d, id, k, hn, h => by
    simp only [ids, List.map_cons, List.nodup_cons] at hn
    simp only [lookup]
    rcases List.mem_cons.mp h with h | h
    · cases h; simp
    · have : i ≠ id := by
        intro e; subst e
        exact hn.1 (List.mem_map_of_mem (f := (·.1)) h)
      simp only [this, if_false]
      exact mem_lookup_of_nodup hn.2 h

theorem ids_perm {d d' : Det} (h : d.Perm d') : (ids d).Perm (ids d') := h.map _

theorem held_sub_all (n : Nat) (o : Own) (t : Nat) (ht : t < n) {b : Nat × Kind} (h : b ∈ o.held t) :
    b ∈ allBlocks n o := by
  simp only [allBlocks, List.mem_append, List.mem_flatMap, List.mem_range]
  exact Or.inl ⟨t, ht, h⟩

theorem nodup_ids_remove {d : Det} (id : Nat) (h : (ids d).Nodup) : (ids (remove d id)).Nodup := by
  have hs : (ids (remove d id)).Sublist (ids d) := (remove_sublist d id).map _
  exact hs.nodup h

/-- the invariant tying the detector table to the ownership state -/
def Tied (n : Nat) (o : Own) (d : Det) : Prop := d.Perm (allBlocks n o) ∧ (ids d).Nodup

/-- a detector step of an owned schedule: no misuse, fresh, and the invariant is kept -/
theorem tied_det_step (n : Nat) (o : Own) (d : Det) (t : Nat) (op : DetOp) (ht : t < n)
    (hown : opOwned (o.held t) (.det op) = true) (hex : ownExtra n o t (.det op)) (hinv : Tied n o d) :
    stepOk op d = true ∧ Tied n (ownStep o t (.det op)) (body op d).1 := by
  obtain ⟨hp, hnd⟩ := hinv
  have hcons := all_step_conservation n o t (.det op) ht hown (by intros; contradiction)
  -- first: the step is fine
  have hok : stepOk op d = true ∧ (ids (body op d).1).Nodup := by
    cases op with
    | alloc id k =>
      have hfr : id ∉ ids d := fun hm => hex ((ids_perm hp).subset hm)
      refine ⟨by simp [stepOk, fresh, body, hfr], ?_⟩
      simp only [body, ids, List.map_cons, List.nodup_cons]
      exact ⟨hfr, hnd⟩
    | free id k c =>
      have hc : c = false := hex
      subst hc
      have hm : (id, k) ∈ d := hp.symm.subset (held_sub_all n o t ht (by simpa [opOwned] using hown))
      have hl := mem_lookup_of_nodup hnd hm
      refine ⟨by simp [stepOk, fresh, body, hl, freeFound, checkRelease], ?_⟩
      simp only [body, hl, freeFound]
      exact nodup_ids_remove id hnd
    | realloc old new c =>
      obtain ⟨hc, hnew⟩ := hex
      subst hc
      have hm : (old, Kind.malloc) ∈ d :=
        hp.symm.subset (held_sub_all n o t ht (by simpa [opOwned] using hown))
      have hl := mem_lookup_of_nodup hnd hm
      have hper := ids_remove_of_lookup hl
      have hfr : new ∉ ids (remove d old) := by
        intro hmem
        apply hnew
        have h1 : ((ids d).erase old).Perm (ids (remove d old)) := by
          have := hper.erase old
          simpa using this
        have h2 : ((ids d).erase old).Perm ((ids (allBlocks n o)).erase old) := (ids_perm hp).erase old
        exact h2.subset (h1.symm.subset hmem)
      refine ⟨by simp [stepOk, fresh, body, hl, reallocFound, reallocChecked, checkRelease, hfr], ?_⟩
      have hb : (body (.realloc old new false) d).1 = (new, Kind.malloc) :: remove d old := by
        simp [body, hl, reallocFound, checkRelease, reallocChecked]
      rw [hb]
      simp only [ids, List.map_cons, List.nodup_cons]
      exact ⟨hfr, nodup_ids_remove old hnd⟩
  refine ⟨hok.1, ?_, hok.2⟩
  have hstep := step_conservation op d (stepOk_normal hok.1)
  rw [List.perm_iff_count]; intro x
  have e1 := hstep.count_eq x
  have e2 := hcons x
  have e3 := hp.count_eq x
  simp only [List.count_append] at e1
  omega

/-- a hand-over does not touch the detector and keeps the invariant -/
theorem tied_handover_step (n : Nat) (o : Own) (d : Det) (t : Nat) (op : TOp) (ht : t < n)
    (hnd : ∀ dop, op ≠ .det dop)
    (hown : opOwned (o.held t) op = true) (hex : ownExtra n o t op) (hinv : Tied n o d) :
    Tied n (ownStep o t op) d := by
  obtain ⟨hp, hn⟩ := hinv
  refine ⟨?_, hn⟩
  have hcons := all_step_conservation n o t op ht hown (by
    intro id k e; subst e; exact hex)
  rw [List.perm_iff_count]; intro x
  have e2 := hcons x
  have e3 := hp.count_eq x
  cases op with
  | det dop => exact absurd rfl (hnd dop)
  | give id k to => simp only [freedOf, allocdOf, List.count_nil] at e2; omega
  | take id k => simp only [freedOf, allocdOf, List.count_nil] at e2; omega

/-- Every schedule that respects the ownership discipline is misuse-free with distinct live ids,
    and the detector table stays tied to the ownership state. -/
theorem owned_run : ∀ (n : Nat) (sched : List Event) (o : Own) (d : Det),
    Owned n sched o → Tied n o d →
      RunOk (detOps sched) d = true ∧ Tied n (ownRun sched o) (runDet (detOps sched) d)
  | _, [], _, _, _, hinv => ⟨rfl, hinv⟩
  | n, (t, .det op) :: es, o, d, h, hinv => by
    obtain ⟨ht, hown, hex, hrest⟩ := h
    have hs := tied_det_step n o d t op ht hown hex hinv
    have ih := owned_run n es (ownStep o t (.det op)) (body op d).1 hrest hs.2
    simp only [detOps, RunOk, runDet, ownRun, hs.1, Bool.true_and]
    exact ih
  | n, (t, .give id k to) :: es, o, d, h, hinv => by
    obtain ⟨ht, hown, hex, hrest⟩ := h
    have hs := tied_handover_step n o d t (.give id k to) ht (by intros; simp) hown hex hinv
    simpa [detOps, ownRun] using owned_run n es _ d hrest hs
  | n, (t, .take id k) :: es, o, d, h, hinv => by
    obtain ⟨ht, hown, hex, hrest⟩ := h
    have hs := tied_handover_step n o d t (.take id k) ht (by intros; simp) hown hex hinv
    simpa [detOps, ownRun] using owned_run n es _ d hrest hs

/-- what thread `u` holds evolves by its own operations only -/
theorem ownRun_held : ∀ (sched : List Event) (o : Own) (u : Nat),
    (ownRun sched o).held u = holds (proj u sched) (o.held u)
  | [], _, _ => rfl
  | (t, op) :: es, o, u => by
    simp only [ownRun, proj]
    rw [ownRun_held es (ownStep o t op) u]
    by_cases h : t = u
    · subst h; simp [ownStep, upd, holds]
    · have : (ownStep o t op).held u = o.held u := by simp [ownStep, upd, Ne.symm h]
      simp [h, this]

/-- ... and every thread of an owned schedule releases only what it holds -/
theorem owned_threadOk : ∀ (n : Nat) (sched : List Event) (o : Own) (u : Nat),
    Owned n sched o → ThreadOk (proj u sched) (o.held u) = true
  | _, [], _, _, _ => rfl
  | n, (t, op) :: es, o, u, h => by
    obtain ⟨_, hown, _, hrest⟩ := h
    have ih := owned_threadOk n es (ownStep o t op) u hrest
    simp only [proj]
    by_cases htu : t = u
    · subst htu
      have : (ownStep o t op).held t = holdStep (o.held t) op := by simp [ownStep, upd]
      rw [this] at ih
      simp [ThreadOk, hown, ih]
    · have : (ownStep o t op).held u = o.held u := by simp [ownStep, upd, Ne.symm htu]
      rw [this] at ih
      simp [htu, ih]

/-! ## commutation of operations on different blocks -/

theorem lookup_remove_ne (d : Det) {i j : Nat} (h : i ≠ j) : lookup (remove d i) j = lookup d j := by
  induction d with
  | nil => rfl
  | cons p d ih =>
    obtain ⟨a, k⟩ := p
    simp only [remove]
    by_cases hai : a = i
    · subst hai; simp [lookup, h]
    · simp only [hai, if_false, lookup, ih]

theorem lookup_cons_ne (d : Det) {i j : Nat} (k : Kind) (h : i ≠ j) : lookup ((i, k) :: d) j = lookup d j := by
  simp [lookup, h]

/-- an operation does not change what `lookup` says about ids it does not mention -/
theorem lookup_body_other (a : DetOp) (d : Det) (j : Nat) (hj : j ∉ opIds a) :
    lookup (body a d).1 j = lookup d j := by
  cases a with
  | alloc i k =>
    have : i ≠ j := fun e => hj (by simp [opIds, e])
    simp [body, lookup_cons_ne, this]
  | free i k c =>
    have : i ≠ j := fun e => hj (by simp [opIds, e])
    simp only [body]
    cases hl : lookup d i with
    | none => simp [freeFound]
    | some st => simp [freeFound, lookup_remove_ne d this]
  | realloc o n c =>
    have h1 : o ≠ j := fun e => hj (by simp [opIds, e])
    have h2 : n ≠ j := fun e => hj (by simp [opIds, e])
    simp only [body]
    cases hl : lookup d o with
    | none => simp [reallocFound]
    | some st =>
      simp only [reallocFound]
      cases checkRelease st .malloc c with
      | misuse => simp [reallocChecked, lookup_remove_ne d h1]
      | normal => simp [reallocChecked, lookup_cons_ne, h2, lookup_remove_ne d h1]

theorem mem_ids_iff_lookup (d : Det) (j : Nat) : j ∈ ids d ↔ (lookup d j).isSome :=
  (lookup_isSome_iff_mem d j).symm

theorem mem_ids_remove (d : Det) (hn : (ids d).Nodup) (i x : Nat) :
    x ∈ ids (remove d i) ↔ (x ∈ ids d ∧ x ≠ i) := by
  induction d with
  | nil => simp [remove, ids]
  | cons p d ih =>
    obtain ⟨a, k⟩ := p
    simp only [ids, List.map_cons, List.nodup_cons] at hn
    simp only [remove]
    by_cases hai : a = i
    · subst hai
      simp only [if_true, ids, List.map_cons, List.mem_cons]
      constructor
      · intro hx; exact ⟨Or.inr hx, fun e => hn.1 (e ▸ hx)⟩
      · rintro ⟨hx | hx, hne⟩
        · exact absurd hx hne
        · exact hx
    · simp only [hai, if_false, ids, List.map_cons, List.mem_cons]
      have := ih hn.2
      simp only [ids] at this
      rw [this]
      constructor
      · rintro (hx | ⟨hx, hne⟩)
        · exact ⟨Or.inl hx, fun e => hai (hx ▸ e)⟩
        · exact ⟨Or.inr hx, hne⟩
      · rintro ⟨hx | hx, hne⟩
        · exact Or.inl hx
        · exact Or.inr ⟨hx, hne⟩

/-- whether a step is fine depends only on what the table says about the ids it mentions -/
theorem stepOk_transfer (p : DetOp) (d e : Det) (hd : (ids d).Nodup) (he : (ids e).Nodup)
    (hl : ∀ j ∈ opIds p, lookup e j = lookup d j) (h : stepOk p d = true) : stepOk p e = true := by
  have hmem : ∀ j ∈ opIds p, (j ∈ ids e ↔ j ∈ ids d) := by
    intro j hj; rw [mem_ids_iff_lookup, mem_ids_iff_lookup, hl j hj]
  cases p with
  | alloc i k =>
    have hf := stepOk_fresh h
    simp only [fresh, Bool.not_eq_true', List.contains_eq_mem, decide_eq_false_iff_not] at hf
    have : i ∉ ids e := fun hm => hf ((hmem i (by simp [opIds])).mp hm)
    simp [stepOk, fresh, body, this]
  | free i k c =>
    have hn := stepOk_normal h
    simp only [stepOk, fresh, Bool.true_and, beq_iff_eq]
    simp only [body] at hn ⊢
    rw [hl i (by simp [opIds])]
    cases hli : lookup d i with
    | none => simp [hli, freeFound] at hn
    | some st => simpa [hli, freeFound] using hn
  | realloc o n c =>
    have hn := stepOk_normal h
    have hf := stepOk_fresh h
    simp only [fresh, Bool.not_eq_true', List.contains_eq_mem, decide_eq_false_iff_not] at hf
    have hfe : n ∉ ids (remove e o) := by
      intro hm
      rw [mem_ids_remove e he] at hm
      apply hf
      rw [mem_ids_remove d hd]
      exact ⟨(hmem n (by simp [opIds])).mp hm.1, hm.2⟩
    simp only [stepOk, fresh, Bool.and_eq_true, Bool.not_eq_true', List.contains_eq_mem,
      decide_eq_false_iff_not, beq_iff_eq]
    refine ⟨hfe, ?_⟩
    simp only [body] at hn ⊢
    rw [hl o (by simp [opIds])]
    cases hlo : lookup d o with
    | none => simp [hlo, reallocFound] at hn
    | some st =>
      simp only [hlo, reallocFound] at hn ⊢
      cases hc : checkRelease st .malloc c with
      | misuse => simp [hc, reallocChecked] at hn
      | normal => simp [reallocChecked]

theorem nodup_after_step (p : DetOp) (d : Det) (hd : (ids d).Nodup) (h : stepOk p d = true) :
    (ids (body p d).1).Nodup := by
  have hf := stepOk_fresh h
  cases p with
  | alloc i k =>
    simp only [fresh, Bool.not_eq_true', List.contains_eq_mem, decide_eq_false_iff_not] at hf
    simp only [body, ids, List.map_cons, List.nodup_cons]
    exact ⟨hf, hd⟩
  | free i k c =>
    simp only [body]
    cases lookup d i with
    | none => simpa [freeFound] using hd
    | some st => simpa [freeFound] using nodup_ids_remove i hd
  | realloc o n c =>
    simp only [fresh, Bool.not_eq_true', List.contains_eq_mem, decide_eq_false_iff_not] at hf
    simp only [body]
    cases lookup d o with
    | none => simpa [reallocFound] using hd
    | some st =>
      simp only [reallocFound]
      cases checkRelease st .malloc c with
      | misuse => simpa [reallocChecked] using nodup_ids_remove o hd
      | normal =>
        simp only [reallocChecked, ids, List.map_cons, List.nodup_cons]
        exact ⟨hf, nodup_ids_remove o hd⟩


end ThreadSafe
