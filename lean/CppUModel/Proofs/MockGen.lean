import CppUModel.Model.Mock
import CppUModel.Model.MockText
import CppUModel.Gen.MockLists
/-!
The definitions regenerated from `MockExpectedCallsList.cpp` / `MockExpectedCall.cpp`
(`Gen/MockLists.lean`) are the hand-written model functions the C08 theorems are about.
-/
namespace Mock
open Gen.MockLists

theorem gen_isFulfilled (e : Exp) : isFulfilled e = e.isFulfilled := rfl
theorem gen_canMatchActualCalls (e : Exp) : canMatchActualCalls e = e.canMatch := rfl
theorem gen_isMatchingActualCall (e : Exp) : isMatchingActualCall e = e.isMatching := rfl
theorem gen_isMatchingActualCallAndFinalized (e : Exp) : isMatchingActualCallAndFinalized e = e.isMatchingFinalized := rfl
theorem gen_hasInputParameter (e : Exp) (n : String) (v : Val) : hasInputParameter e n v = e.hasInput n v := rfl
theorem gen_hasOutputParameter (e : Exp) (n : String) : hasOutputParameter e n = e.hasOutput n := rfl

theorem gen_relatesTo (e : Exp) (n : String) : relatesTo e n = (e.name == n) := by
  unfold relatesTo
  rw [Bool.eq_iff_iff]
  simp only [beq_iff_eq]
  exact eq_comm

theorem gen_relatesToObject (e : Exp) (o : Nat) : relatesToObject e o = e.relatesToObject o := by
  unfold relatesToObject Exp.relatesToObject
  cases h : e.obj with
  | none => simp
  | some x => simp [eq_comm]

theorem gen_reset (e : Exp) : resetActualCallMatchingState e = e.reset := by
  unfold resetActualCallMatchingState Exp.reset
  cases h : e.obj <;> simp

theorem gen_outOfOrderCondition (e : Exp) (order : Nat) :
    outOfOrderCondition e order = (e.lo != 0 && (decide (order < e.lo) || decide (e.hi < order))) := by
  unfold outOfOrderCondition
  rw [Bool.eq_iff_iff]
  simp [bne_iff_ne, gt_iff_lt]

theorem gen_callWasMade (e : Exp) (order : Nat) : callWasMade e order = e.callWasMade order := by
  unfold callWasMade Exp.callWasMade
  rw [gen_reset, gen_outOfOrderCondition]
  congr 2
  cases e.outOfOrder <;> cases (e.lo != 0 && (decide (order < e.lo) || decide (e.hi < order))) <;> rfl

/-! ### the pruning loops -/

theorem drop_of_not_cand {e : Exp} (h : e.cand = false) : ({ e with cand := false } : Exp) = e := by
  cases e; simp_all

/-- `withName`: the list `onlyKeepExpectationsRelatedTo(name)` leaves is the model's -/
theorem gen_onlyKeepExpectationsRelatedTo (n : String) (es : List Exp) :
    onlyKeepExpectationsRelatedTo n es = es.map (fun e => { e with cand := e.cand && e.name == n }) := by
  unfold onlyKeepExpectationsRelatedTo
  apply List.map_congr_left
  intro e _
  rw [gen_relatesTo]
  cases hc : e.cand <;> cases hn : (e.name == n) <;> simp <;> (cases e; simp_all)

theorem gen_onlyKeepExpectationsWithInputParameter (n : String) (v : Val) (es : List Exp) :
    onlyKeepExpectationsWithInputParameter n v es =
      es.map (fun e => if e.cand && !(fun e => e.hasInput n v) e then { e.reset with cand := false } else e) := by
  simp only [onlyKeepExpectationsWithInputParameter, gen_hasInputParameter, gen_reset]

theorem gen_onlyKeepExpectationsWithOutputParameter (n : String) (es : List Exp) :
    onlyKeepExpectationsWithOutputParameter n es =
      es.map (fun e => if e.cand && !(fun e => e.hasOutput n) e then { e.reset with cand := false } else e) := by
  simp only [onlyKeepExpectationsWithOutputParameter, gen_hasOutputParameter, gen_reset]

theorem gen_onlyKeepExpectationsOnObject (o : Nat) (es : List Exp) :
    onlyKeepExpectationsOnObject o es =
      es.map (fun e => if e.cand && !e.relatesToObject o then { e.reset with cand := false } else e) := by
  simp only [onlyKeepExpectationsOnObject, gen_relatesToObject, gen_reset]

/-- `discardCurrentlyMatchingExpectations` on the candidates is `onlyKeepUnmatchingExpectations` -/
theorem gen_onlyKeepUnmatchingExpectations (es : List Exp) (h : ∀ e ∈ es, e.isMatch = false) :
    onlyKeepUnmatchingExpectations es = es.map discardE := by
  unfold onlyKeepUnmatchingExpectations
  apply List.map_congr_left
  intro e he
  simp only [gen_isMatchingActualCallAndFinalized, gen_reset, discardE, h e he, isMF, Bool.false_eq_true, if_false]
  rfl

theorem gen_addPotentiallyMatchingExpectations (es : List Exp) : addPotentiallyMatchingExpectations es = beginCall es := rfl

theorem gen_firstFinalizedMatching (es : List Exp) :
    removeFirstFinalizedMatchingExpectation_result es = es.find? isMF ∧
    removeFirstFinalizedMatchingExpectation_list es = modifyFirst isMF Exp.take es := ⟨rfl, rfl⟩

theorem gen_firstMatching (es : List Exp) :
    getFirstMatchingExpectation_result es = es.find? isM ∧
    removeFirstMatchingExpectation_result es = es.find? isM ∧
    removeFirstMatchingExpectation_list es = modifyFirst isM Exp.take es := ⟨rfl, rfl, rfl⟩

theorem gen_queries (es : List Exp) (n : String) :
    hasFinalizedMatchingExpectations es = es.any isMF ∧
    hasUnmatchingExpectationsBecauseOfMissingParameters es = es.any (fun e => e.cand && !e.paramsMatching) ∧
    hasUnfulfilledExpectations es = es.any (fun e => !e.isFulfilled) ∧
    hasCallsOutOfOrder es = es.any (·.outOfOrder) ∧
    hasExpectationWithName n es = es.any (fun e => e.name == n) ∧
    isEmpty es = !anyCand es ∧
    amountOfActualCallsFulfilledFor es n = totalActualFor es n := by
  refine ⟨rfl, rfl, rfl, rfl, ?_, rfl, ?_⟩
  · simp only [hasExpectationWithName, gen_relatesTo]
  · simp only [amountOfActualCallsFulfilledFor, totalActualFor, gen_relatesTo]

theorem gen_setters (es : List Exp) (n : String) :
    resetActualCallMatchingState_all es = resetCands es ∧
    wasPassedToObject_all es = es.map (fun e => if e.cand then { e with passedObj := true } else e) ∧
    parameterWasPassed_all n es = es.map (fun e => if e.cand then (fun e => e.passInput n) e else e) ∧
    outputParameterWasPassed_all n es = es.map (fun e => if e.cand then (fun e => e.passOutput n) e else e) := by
  refine ⟨?_, rfl, rfl, rfl⟩
  simp only [resetActualCallMatchingState_all, resetCands, gen_reset]

/-- the sections of the failure history, and the lists the failure constructors build -/
theorem gen_history_sections (es : List Exp) (fn pn : String) :
    unfulfilledCallsSection es = unfulfilledOf es ∧ fulfilledCallsSection es = fulfilledOf es ∧
    addExpectationsRelatedTo fn es = relatedTo fn es ∧
    onlyKeepOutOfOrderExpectations (addExpectations es) = es.filter (·.outOfOrder) ∧
    onlyKeepExpectationsWithInputParameterName pn (addExpectationsRelatedTo fn es) = es.filter (fun e => e.name == fn && e.hasInputNamed pn) ∧
    onlyKeepExpectationsWithOutputParameterName pn (addExpectationsRelatedTo fn es) = es.filter (fun e => e.name == fn && e.hasOutputNamed pn) := by
  refine ⟨rfl, rfl, ?_, ?_, ?_, ?_⟩
  · simp only [addExpectationsRelatedTo, relatedTo, gen_relatesTo]
  · simp [onlyKeepOutOfOrderExpectations, addExpectations]
  · simp [onlyKeepExpectationsWithInputParameterName, addExpectationsRelatedTo, gen_relatesTo, List.filter_filter, Bool.and_comm]
  · simp [onlyKeepExpectationsWithOutputParameterName, addExpectationsRelatedTo, gen_relatesTo, List.filter_filter, Bool.and_comm]

end Mock

namespace Mock
open Gen.MockLists

/-- `checkInputParameter` as the source composes it from the list primitives:
    `discardCurrentlyMatchingExpectations` (no current match here) → `onlyKeepUnmatchingExpectations`,
    `onlyKeepExpectationsWithInputParameter`, `isEmpty` → failure, else `parameterWasPassed` and
    `completeCallWhenMatchIsFound` — every primitive being the regenerated one -/
theorem gen_checkInput_pipeline (cs : CS) (n : String) (v : Val) (hm : ∀ e ∈ cs.es, e.isMatch = false) :
    checkInput cs n v =
      if cs.call.state = .failed then cs
      else if isEmpty (onlyKeepExpectationsWithInputParameter n v (onlyKeepUnmatchingExpectations cs.es)) then
        failCall { cs with es := onlyKeepExpectationsWithInputParameter n v (onlyKeepUnmatchingExpectations cs.es),
                           call := { cs.call with state := .inProgress } } (msgUnexpectedInput cs.es cs.call.name n)
      else complete { cs with es := parameterWasPassed_all n (onlyKeepExpectationsWithInputParameter n v (onlyKeepUnmatchingExpectations cs.es)),
                              call := { cs.call with state := .inProgress } } := by
  rw [gen_onlyKeepUnmatchingExpectations cs.es hm, gen_onlyKeepExpectationsWithInputParameter]
  rw [(gen_queries _ n).2.2.2.2.2.1, (gen_setters _ n).2.2.1]
  unfold checkInput checkParam
  by_cases hf : cs.call.state = .failed
  · simp only [hf, if_true]
  · simp only [hf, if_false]
    cases hc : anyCand (List.map (fun e => if (e.cand && !(fun e => e.hasInput n v) e) = true then { e.reset with cand := false } else e)
        (List.map discardE cs.es)) with
    | true => simp only [hc, if_true, Bool.not_true, Bool.false_eq_true, if_false]
    | false => simp only [hc, Bool.false_eq_true, if_false, Bool.not_false, if_true]

/-- the same for `checkOutputParameter` (after `addOutputParameter`) -/
theorem gen_checkOutput_pipeline (cs0 : CS) (n : String) (buf : List UInt8) (hm : ∀ e ∈ cs0.es, e.isMatch = false) :
    checkOutput cs0 n buf =
      let cs : CS := { cs0 with call := { cs0.call with bufs := cs0.call.bufs ++ [(n, buf)] } }
      if cs.call.state = .failed then cs
      else if isEmpty (onlyKeepExpectationsWithOutputParameter n (onlyKeepUnmatchingExpectations cs.es)) then
        failCall { cs with es := onlyKeepExpectationsWithOutputParameter n (onlyKeepUnmatchingExpectations cs.es),
                           call := { cs.call with state := .inProgress } } (msgUnexpectedOutput cs0.es cs0.call.name n)
      else complete { cs with es := outputParameterWasPassed_all n (onlyKeepExpectationsWithOutputParameter n (onlyKeepUnmatchingExpectations cs.es)),
                              call := { cs.call with state := .inProgress } } := by
  simp only []
  rw [gen_onlyKeepUnmatchingExpectations cs0.es hm, gen_onlyKeepExpectationsWithOutputParameter]
  rw [(gen_queries _ n).2.2.2.2.2.1, (gen_setters _ n).2.2.2]
  unfold checkOutput checkParam
  by_cases hf : cs0.call.state = .failed
  · simp only [hf, if_true]
  · simp only [hf, if_false]
    cases hc : anyCand (List.map (fun e => if (e.cand && !(fun e => e.hasOutput n) e) = true then { e.reset with cand := false } else e)
        (List.map discardE cs0.es)) with
    | true => simp only [hc, if_true, Bool.not_true, Bool.false_eq_true, if_false]
    | false => simp only [hc, Bool.false_eq_true, if_false, Bool.not_false, if_true]

/-- finishing a fulfilled call counts it with the regenerated `callWasMade` and resets the candidates with the
    regenerated for-each reset -/
theorem gen_callCheck_succeed (cs : CS) (hc : cs.call.checked = false) (hs : cs.call.state = .succeed) :
    (callCheck cs).es = resetActualCallMatchingState_all (cs.es.map (fun e => if e.isMatch then callWasMade e cs.call.order else e)) := by
  unfold callCheck
  simp only [hc, Bool.false_eq_true, if_false, hs, (gen_setters _ "").1]
  congr 1
  apply List.map_congr_left
  intro e _
  rw [gen_callWasMade]

end Mock

namespace Mock
open Gen.MockLists

/-- `expectNCalls` under `strictOrder()`: the new expectation gets the regenerated order window and
    `expectedCallOrder_` advances by the regenerated amount -/
theorem gen_expectN_strict (sc : Scope) (n : Nat) (fn : String) (segs : List ESeg)
    (hen : sc.enabled = true) (hs : sc.strict = true) :
    sc.expectN n fn segs =
      { sc with es := sc.es ++ [segs.foldl Exp.addSeg (Exp.new (sc.fullName fn) n
                          (expectNCalls_initialOrder sc.expectedOrder n) (expectNCalls_finalOrder sc.expectedOrder n))],
                expectedOrder := expectNCalls_nextOrder sc.expectedOrder n } := by
  simp [Scope.expectN, hen, hs, expectNCalls_initialOrder, expectNCalls_finalOrder, expectNCalls_nextOrder]

/-- without `strictOrder()` no window is given (`NO_EXPECTED_CALL_ORDER`) and the counter stays -/
theorem gen_expectN_plain (sc : Scope) (n : Nat) (fn : String) (segs : List ESeg)
    (hen : sc.enabled = true) (hs : sc.strict = false) :
    sc.expectN n fn segs = { sc with es := sc.es ++ [segs.foldl Exp.addSeg (Exp.new (sc.fullName fn) n 0 0)] } := by
  simp [Scope.expectN, hen, hs]

/-- `expectOneCall` / `expectNoCall` are `expectNCalls(1, …)` / `expectNCalls(0, …)` -/
theorem gen_expect_amounts : expectOneCall_amount = 1 ∧ expectNoCall_amount = 0 := by decide

/-- routing of an actual call on an enabled `MockSupport`: ignored iff the regenerated `callIsIgnored`, and a checked
    call advances `actualCallOrder_` as `createActualCall` does -/
theorem gen_startCall_routing (sc : Scope) (full : String) (hen : sc.enabled = true) :
    (sc.startCall full).ignored = callIsIgnored sc.ioc (hasExpectationWithName full sc.es) ∧
    ((sc.startCall full).ignored = false →
      (sc.startCall full).sc.actualOrder = createActualCall_counter sc.actualOrder ∧
      createActualCall_order sc.actualOrder = sc.actualOrder + 1) := by
  rw [(gen_queries sc.es full).2.2.2.2.1]
  unfold Scope.startCall callIsIgnored createActualCall_counter createActualCall_order
  simp only [hen, Bool.not_true, Bool.false_eq_true, if_false]
  cases h : (sc.ioc && !sc.es.any (fun e => e.name == full)) with
  | true => simp
  | false => simp

/-- the statement order of `MockSupport::actualCall` and `MockSupport::checkExpectations` is the one the model follows:
    scoped name; finish and delete the call in flight; disabled → ignored; tracing; ignoreOtherCalls → ignored; checked call.
    Finish the calls in flight; unfulfilled expectations; out-of-order calls. -/
theorem gen_statement_order :
    actualCall_steps = ["scopeName", "finishPrevious", "disabled", "tracing", "ignored", "checked"] ∧
    checkExpectations_steps = ["finishCalls", "unfulfilled", "outOfOrder"] := by decide

end Mock
