import CppUModel.Model.Diagnostics
import CppUModel.Spec.Diagnostics
/-! Helper lemmas for the C14 theorems. -/
namespace Diag
open Fmt Gen.Diag

/-! ## the report buffer -/

theorem Buf.add_nil (b : Buf) : b.add [] = b := by
  unfold Buf.add
  split
  · rfl
  · rename_i h
    cases b with
    | mk f l t =>
      simp only [List.take_nil, List.append_nil, List.length_nil, Nat.add_zero] at h ⊢
      have : ¬ (f > l) := by omega
      simp [this]

theorem Buf.add_limit (b : Buf) (s : Bytes) : (b.add s).limit = b.limit := by
  unfold Buf.add; split <;> rfl

/-- what `add` does to the text: it appends the part of `s` that fits below the limit -/
theorem Buf.add_text (b : Buf) (s : Bytes) : (b.add s).text = b.text ++ s.take (b.limit - b.filled) := by
  unfold Buf.add
  split
  · rename_i h
    have : b.limit - b.filled = 0 := by omega
    simp [this]
  · rfl

theorem Buf.add_filled (b : Buf) (s : Bytes) :
    (b.add s).filled = if b.filled ≥ b.limit then b.filled else (if b.filled + s.length > b.limit then b.limit else b.filled + s.length) := by
  unfold Buf.add; split <;> rfl

/-- two consecutive `add`s are one `add` of the concatenation (truncation is by total length) -/
theorem Buf.add_add (b : Buf) (s1 s2 : Bytes) : (b.add s1).add s2 = b.add (s1 ++ s2) := by
  by_cases h : b.filled ≥ b.limit
  · have e1 : ∀ s, b.add s = b := by intro s; unfold Buf.add; simp [h]
    rw [e1, e1, e1]
  · have hlt : b.filled < b.limit := by omega
    by_cases h1 : s1.length ≥ b.limit - b.filled
    · -- the first add reaches the limit
      have hb1 : (b.add s1).filled ≥ (b.add s1).limit := by
        rw [Buf.add_limit, Buf.add_filled]; simp [h]; split <;> omega
      have e2 : (b.add s1).add s2 = b.add s1 := by
        unfold Buf.add at hb1 ⊢; simp [h] at hb1 ⊢; intro hh; omega
      rw [e2]
      unfold Buf.add
      simp only [h, if_false]
      have t : List.take (b.limit - b.filled) (s1 ++ s2) = List.take (b.limit - b.filled) s1 := by
        rw [List.take_append_of_le_length h1]
      rw [t]
      congr 1
      simp only [List.length_append]
      by_cases h2 : s2.length = 0
      · simp [h2]
      · have c1 : b.filled + (s1.length + s2.length) > b.limit := by omega
        simp only [c1, if_true]
        split <;> omega
    · have hlt1 : s1.length < b.limit - b.filled := by omega
      unfold Buf.add
      simp only [h, if_false]
      have c1 : ¬ (b.filled + s1.length > b.limit) := by omega
      simp only [c1, if_false]
      have c2 : ¬ (b.filled + s1.length ≥ b.limit) := by omega
      simp only [c2, if_false]
      have t1 : List.take (b.limit - b.filled) s1 = s1 := List.take_of_length_le (by omega)
      have t2 : List.take (b.limit - b.filled) (s1 ++ s2) = s1 ++ List.take (b.limit - b.filled - s1.length) s2 := by
        rw [List.take_append]; rw [t1]
      rw [t1, t2]
      have e : b.limit - (b.filled + s1.length) = b.limit - b.filled - s1.length := by omega
      simp only [e, List.append_assoc, List.length_append, Nat.add_assoc]

theorem Buf.foldl_add (pieces : List Bytes) (b : Buf) : pieces.foldl Buf.add b = b.add pieces.flatten := by
  induction pieces generalizing b with
  | nil => simp [Buf.add_nil]
  | cons p ps ih => simp only [List.foldl_cons, List.flatten_cons]; rw [ih, Buf.add_add]

/-- the complete text of the hex dump of `content` -/
def dumpText (content : Bytes) : Bytes := (dumpPieces content.length 0 content).flatten

theorem Buf.addMemoryDump_eq (b : Buf) (content : Bytes) : b.addMemoryDump content = b.add (dumpText content) := by
  unfold Buf.addMemoryDump dumpText; rw [Buf.foldl_add]

/-- invariant of the fixed buffer -/
def Buf.WF (b : Buf) : Prop := b.filled ≤ cap ∧ b.limit ≤ cap ∧ b.text.length = b.filled

theorem Buf.wf_init : Buf.init.WF := by simp [Buf.WF, Buf.init]
theorem Buf.wf_clear (b : Buf) (h : b.WF) : b.clear.WF := by
  obtain ⟨_, h2, _⟩ := h; simp [Buf.WF, Buf.clear, h2]
theorem Buf.wf_setWriteLimit (b : Buf) (n : Nat) (h : b.WF) : (b.setWriteLimit n).WF := by
  obtain ⟨h1, _, h3⟩ := h
  refine ⟨h1, ?_, h3⟩
  simp only [Buf.setWriteLimit]; split <;> omega
theorem Buf.wf_resetWriteLimit (b : Buf) (h : b.WF) : b.resetWriteLimit.WF := by
  obtain ⟨h1, _, h3⟩ := h; exact ⟨h1, Nat.le_refl _, h3⟩

theorem Buf.wf_add (b : Buf) (s : Bytes) (h : b.WF) : (b.add s).WF := by
  obtain ⟨h1, h2, h3⟩ := h
  refine ⟨?_, ?_, ?_⟩
  · rw [Buf.add_filled]; split
    · exact h1
    · split <;> omega
  · rw [Buf.add_limit]; exact h2
  · rw [Buf.add_text, Buf.add_filled, List.length_append, List.length_take, h3]
    split
    · omega
    · split <;> omega

theorem Buf.wf_addMemoryDump (b : Buf) (c : Bytes) (h : b.WF) : (b.addMemoryDump c).WF := by
  rw [Buf.addMemoryDump_eq]; exact Buf.wf_add _ _ h

/-! ## numbers -/

theorem decAux_length_le : ∀ (f n : Nat) (acc : Bytes) (k : Nat), 1 ≤ k → n < 10 ^ k →
    (decAux f n acc).length ≤ acc.length + k := by
  intro f
  induction f with
  | zero => intro n acc k _ _; simp [decAux]
  | succ f ih =>
    intro n acc k hk hn
    unfold decAux
    split
    · simp; omega
    · rename_i h10
      have hk2 : 2 ≤ k := by
        rcases Nat.lt_or_ge k 2 with h | h
        · have : k = 1 := by omega
          subst this; simp at hn; omega
        · exact h
      have hdiv : n / 10 < 10 ^ (k - 1) := by
        have : 10 ^ k = 10 ^ (k - 1) * 10 := by
          rw [← Nat.pow_succ]; congr 1; omega
        rw [this] at hn
        exact Nat.div_lt_of_lt_mul (by rw [Nat.mul_comm]; exact hn)
      have := ih (n / 10) (digit n :: acc) (k - 1) (by omega) hdiv
      simp at this ⊢; omega

theorem decNat_length_le (n k : Nat) (hk : 1 ≤ k) (hn : n < 10 ^ k) : (decNat n).length ≤ k := by
  have := decAux_length_le (n + 1) n [] k hk hn
  simpa [decNat] using this

/-! ## the report as a fold -/

/-- complete text of one report entry -/
def entryText (l : Leak) : Bytes := leakText l ++ dumpText l.content

/-- what the listing phase tries to append when `k` leaks were already reported -/
def listingFrom (k : Nat) (leaks : List Leak) : Bytes :=
  (if k = 0 ∧ leaks ≠ [] then headerText else []) ++ leaks.flatMap entryText

/-- the complete, untruncated listing: header and every entry -/
def fullListing (leaks : List Leak) : Bytes := headerText ++ leaks.flatMap entryText

theorem listingFrom_zero_cons (l : Leak) (ls : List Leak) : listingFrom 0 (l :: ls) = fullListing (l :: ls) := by
  simp [listingFrom, fullListing]

def anyMalloc (leaks : List Leak) : Bool := leaks.any (fun l => l.allocName == mallocName)

theorem reportLeak_buf (o : OutBuf) (l : Leak) :
    (o.reportLeak l).buf = o.buf.add ((if o.total = 0 then headerText else []) ++ entryText l) := by
  simp only [OutBuf.reportLeak, Buf.addMemoryDump_eq, entryText]
  split
  · rw [Buf.add_add, Buf.add_add]
  · rw [Buf.add_add]; simp

theorem foldl_reportLeak (leaks : List Leak) : ∀ (o : OutBuf),
    (leaks.foldl OutBuf.reportLeak o).buf = o.buf.add (listingFrom o.total leaks)
    ∧ (leaks.foldl OutBuf.reportLeak o).total = o.total + leaks.length
    ∧ (leaks.foldl OutBuf.reportLeak o).mallocWarn = (o.mallocWarn || anyMalloc leaks) := by
  induction leaks with
  | nil => intro o; simp [listingFrom, Buf.add_nil, anyMalloc]
  | cons l ls ih =>
    intro o
    obtain ⟨h1, h2, h3⟩ := ih (o.reportLeak l)
    simp only [List.foldl_cons]
    refine ⟨?_, ?_, ?_⟩
    · rw [h1, reportLeak_buf, Buf.add_add]
      congr 1
      have ht : (o.reportLeak l).total = o.total + 1 := rfl
      simp [listingFrom, ht, List.append_assoc]
    · rw [h2]; simp [OutBuf.reportLeak]; omega
    · rw [h3]; simp [OutBuf.reportLeak, anyMalloc, Bool.or_assoc]

/-- an `add` whose text fits below the limit appends all of it -/
theorem Buf.add_fits (b : Buf) (s : Bytes) (h : b.filled + s.length ≤ b.limit) :
    (b.add s).text = b.text ++ s ∧ (b.add s).filled = b.filled + s.length ∧ (b.add s).limit = b.limit := by
  refine ⟨?_, ?_, Buf.add_limit b s⟩
  · rw [Buf.add_text, List.take_of_length_le (by omega)]
  · rw [Buf.add_filled]; split
    · omega
    · split <;> omega

/-! ## `add` over the real array -/

theorem wrAt_eq (m : Bytes) (off : Nat) (bs : Bytes) (h : off + bs.length ≤ m.length) :
    wrAt m off bs = m.take off ++ bs ++ m.drop (off + bs.length) := by
  unfold wrAt
  have : bs.take (m.length - off) = bs := List.take_of_length_le (by omega)
  rw [this]

theorem wrAt_length (m : Bytes) (off : Nat) (bs : Bytes) (h : off + bs.length ≤ m.length) :
    (wrAt m off bs).length = m.length := by
  rw [wrAt_eq m off bs h]; simp; omega

theorem wrAt_take (m : Bytes) (off : Nat) (bs : Bytes) (j : Nat) (h : off + bs.length ≤ m.length) (hj : j ≤ bs.length) :
    (wrAt m off bs).take (off + j) = m.take off ++ bs.take j := by
  rw [wrAt_eq m off bs h, List.append_assoc, List.take_append]
  have h1 : (List.take off m).length = off := by rw [List.length_take]; omega
  rw [h1, List.take_take, List.take_append]
  have h2 : off + j - off = j := by omega
  have h3 : j - bs.length = 0 := by omega
  have h4 : min (off + j) off = off := by omega
  rw [h2, h3, h4]; simp

theorem wrAt_get (m : Bytes) (off : Nat) (bs : Bytes) (j : Nat) (h : off + bs.length ≤ m.length) (hj : j < bs.length) :
    (wrAt m off bs)[off + j]? = bs[j]? := by
  rw [wrAt_eq m off bs h, List.append_assoc]
  have h1 : (List.take off m).length = off := by rw [List.length_take]; omega
  rw [List.getElem?_append_right (by omega), h1]
  have h2 : off + j - off = j := by omega
  rw [h2, List.getElem?_append_left hj]

theorem wrAt_drop (m : Bytes) (off : Nat) (bs : Bytes) (n : Nat) (h : off + bs.length ≤ m.length) (hn : off + bs.length ≤ n) :
    (wrAt m off bs).drop n = m.drop n := by
  rw [wrAt_eq m off bs h, List.append_assoc, List.drop_append]
  have h1 : (List.take off m).length = off := by rw [List.length_take]; omega
  rw [h1, List.drop_append, List.drop_drop]
  have e1 : List.drop n (List.take off m) = [] := by apply List.drop_of_length_le; omega
  have e2 : List.drop (n - off) bs = [] := by apply List.drop_of_length_le; omega
  rw [e1, e2]
  simp
  congr 1; omega

/-- invariant of the real array: positions inside, terminated at the fill position, the canary
    behind the array untouched, no store outside the array so far -/
def MemBuf.WF (b : MemBuf) : Prop :=
  b.filled ≤ cap ∧ b.limit ≤ cap ∧ b.mem.length = bufferLen + canaryLen ∧ b.mem[b.filled]? = some 0
  ∧ b.mem.drop bufferLen = canary ∧ b.overrun = false

/-- the abstract buffer a real one stands for -/
def MemBuf.abs (b : MemBuf) : Buf := { filled := b.filled, limit := b.limit, text := b.mem.take b.filled }

theorem cap_succ : cap + 1 = bufferLen := by decide

theorem MemBuf.add_refines (b : MemBuf) (s : Bytes) (h : b.WF) : (b.add s).WF ∧ (b.add s).abs = b.abs.add s := by
  obtain ⟨h1, h2, h3, h4, h5, h6⟩ := h
  have hc := cap_succ
  by_cases hge : b.filled ≥ b.limit
  · have e1 : b.add s = b := by unfold MemBuf.add; simp [hge]
    have e2 : b.abs.add s = b.abs := by unfold Buf.add; simp [MemBuf.abs, hge]
    rw [e1, e2]; exact ⟨⟨h1, h2, h3, h4, h5, h6⟩, rfl⟩
  · have hk : (s.take (b.limit - b.filled)).length = min s.length (b.limit - b.filled) := by
      rw [List.length_take]; omega
    have hsz : b.limit - b.filled + 1 ≠ 0 := by omega
    have hbytes : (s.take (b.limit - b.filled) ++ [0]).length = (s.take (b.limit - b.filled)).length + 1 := by simp
    have hfit : b.filled + (s.take (b.limit - b.filled) ++ [0]).length ≤ b.mem.length := by
      rw [hbytes, hk, h3]; omega
    have hmem : (b.add s).mem = wrAt b.mem b.filled (s.take (b.limit - b.filled) ++ [0]) := by
      unfold MemBuf.add; simp [hge, vsnprintfAt]
    have hfilled : (b.add s).filled = b.filled + (s.take (b.limit - b.filled)).length := by
      unfold MemBuf.add; simp only [hge, if_false]; rw [hk]; split <;> omega
    have hlimit : (b.add s).limit = b.limit := by unfold MemBuf.add; simp [hge]
    have hover : (b.add s).overrun = false := by
      unfold MemBuf.add; simp only [hge, if_false, h6, Bool.false_or]
      rw [hk]; simp; omega
    refine ⟨⟨?_, ?_, ?_, ?_, ?_, hover⟩, ?_⟩
    · rw [hfilled, hk]; omega
    · rw [hlimit]; exact h2
    · rw [hmem, wrAt_length _ _ _ hfit]; exact h3
    · rw [hmem, hfilled, wrAt_get _ _ _ _ hfit (by simp)]
      simp
    · rw [hmem, wrAt_drop _ _ _ _ hfit (by rw [hbytes, hk]; omega)]; exact h5
    · simp only [MemBuf.abs]
      rw [hmem, hfilled, hlimit, wrAt_take _ _ _ _ hfit (by simp)]
      unfold Buf.add
      simp only [hge, if_false]
      congr 1
      · rw [hk]; split <;> omega
      · simp

theorem MemBuf.clear_refines (b : MemBuf) (h : b.WF) : b.clear.WF ∧ b.clear.abs = b.abs.clear := by
  obtain ⟨h1, h2, h3, h4, h5, h6⟩ := h
  have hfit : 0 + ([0] : Bytes).length ≤ b.mem.length := by rw [h3]; simp; decide
  refine ⟨⟨Nat.zero_le _, h2, ?_, ?_, ?_, h6⟩, ?_⟩
  · simp only [MemBuf.clear]; rw [wrAt_length _ _ _ hfit]; exact h3
  · simp only [MemBuf.clear]
    have := wrAt_get b.mem 0 [0] 0 hfit (by simp)
    simpa using this
  · simp only [MemBuf.clear]; rw [wrAt_drop _ _ _ _ hfit (by simp [bufferLen])]; exact h5
  · simp [MemBuf.abs, MemBuf.clear, Buf.clear]

theorem MemBuf.step_refines (b : MemBuf) (op : BOp) (h : b.WF) : (b.step op).WF ∧ (b.step op).abs = b.abs.step op := by
  cases op with
  | add s => exact MemBuf.add_refines b s h
  | clear => exact MemBuf.clear_refines b h
  | setLimit n =>
    obtain ⟨h1, h2, h3, h4, h5, h6⟩ := h
    refine ⟨⟨h1, ?_, h3, h4, h5, h6⟩, rfl⟩
    simp only [MemBuf.step, MemBuf.setWriteLimit]; split <;> omega
  | resetLimit =>
    obtain ⟨h1, h2, h3, h4, h5, h6⟩ := h
    exact ⟨⟨h1, Nat.le_refl _, h3, h4, h5, h6⟩, rfl⟩

theorem MemBuf.init_wf (g : Bytes) : (MemBuf.init g).WF ∧ (MemBuf.init g).abs = Buf.init := by
  have hl : ((g ++ List.replicate bufferLen 0).take bufferLen ++ canary).length = bufferLen + canaryLen := by
    simp [canary]
  have hfit : 0 + ([0] : Bytes).length ≤ ((g ++ List.replicate bufferLen 0).take bufferLen ++ canary).length := by
    rw [hl]; simp; decide
  refine ⟨⟨Nat.zero_le _, Nat.le_refl _, ?_, ?_, ?_, rfl⟩, ?_⟩
  · simp only [MemBuf.init]; rw [wrAt_length _ _ _ hfit]; exact hl
  · simp only [MemBuf.init]
    have := wrAt_get _ 0 [0] 0 hfit (by simp)
    simpa using this
  · simp only [MemBuf.init]; rw [wrAt_drop _ _ _ _ hfit (by simp [bufferLen])]
    have : ((g ++ List.replicate bufferLen 0).take bufferLen).length = bufferLen := by simp
    rw [List.drop_append, this]; simp
  · simp [MemBuf.abs, MemBuf.init, Buf.init]

/-! ## the first-difference scans -/

open DiagSpec in
theorem rd_at (p r : Bytes) (x : UInt8) : rd (p ++ x :: r) p.length = .ok x := by
  simp [rd]

open DiagSpec in
theorem scan_spec (f : UInt8 → UInt8) (hf : ∀ x, x ≠ 0 → f x ≠ f 0) :
    ∀ (a e p q : Bytes) (fuel : Nat), p.length = q.length → NulFree a → a.length < fuel →
      scan f fuel (p ++ a ++ [0]) (q ++ e ++ [0]) p.length = .ok (p.length + firstDiffBy f a e) := by
  intro a
  induction a with
  | nil =>
    intro e p q fuel hpq _ hfuel
    obtain ⟨k, rfl⟩ : ∃ k, fuel = k + 1 := ⟨fuel - 1, by simp at hfuel; omega⟩
    have h1 : rd (p ++ [] ++ [0]) p.length = .ok 0 := by simpa using rd_at p [] 0
    unfold scan
    rw [h1]
    cases e with
    | nil =>
      have h2 : rd (q ++ [] ++ [0]) p.length = .ok 0 := by rw [hpq]; simpa using rd_at q [] 0
      rw [h2]; simp [firstDiffBy]
    | cons y ys =>
      have h2 : rd (q ++ (y :: ys) ++ [0]) p.length = .ok y := by
        rw [hpq]; simpa using rd_at q (ys ++ [0]) y
      rw [h2]; simp [firstDiffBy]
  | cons x xs ih =>
    intro e p q fuel hpq hnf hfuel
    obtain ⟨k, rfl⟩ : ∃ k, fuel = k + 1 := ⟨fuel - 1, by simp at hfuel; omega⟩
    have hx : x ≠ 0 := hnf x (by simp)
    have hnf' : NulFree xs := fun y hy => hnf y (by simp [hy])
    have h1 : rd (p ++ (x :: xs) ++ [0]) p.length = .ok x := by simpa using rd_at p (xs ++ [0]) x
    unfold scan
    rw [h1]
    cases e with
    | nil =>
      have h2 : rd (q ++ [] ++ [0]) p.length = .ok 0 := by rw [hpq]; simpa using rd_at q [] 0
      rw [h2]
      have := hf x hx
      simp [firstDiffBy, this]
    | cons y ys =>
      have h2 : rd (q ++ (y :: ys) ++ [0]) p.length = .ok y := by
        rw [hpq]; simpa using rd_at q (ys ++ [0]) y
      rw [h2]
      by_cases hxy : f x = f y
      · have e1 : p ++ (x :: xs) ++ [0] = (p ++ [x]) ++ xs ++ [0] := by simp
        have e2 : q ++ (y :: ys) ++ [0] = (q ++ [y]) ++ ys ++ [0] := by simp
        have e3 : p.length + 1 = (p ++ [x]).length := by simp
        simp only [hxy, hx, ne_eq, not_false_eq_true, and_self, if_true]
        rw [e1, e2, e3, ih ys (p ++ [x]) (q ++ [y]) k (by simp [hpq]) hnf' (by simp at hfuel; omega)]
        simp [firstDiffBy, hxy]; omega
      · simp [firstDiffBy, hxy]

open DiagSpec in
theorem scanBin_spec : ∀ (n : Nat) (a e p q : Bytes) (fuel : Nat), p.length = q.length → n ≤ a.length → n ≤ e.length → n < fuel →
    scanBin fuel (p.length + n) (p ++ a) (q ++ e) p.length = .ok (p.length + firstDiffBin n a e) := by
  intro n
  induction n with
  | zero =>
    intro a e p q fuel _ _ _ hfuel
    obtain ⟨k, rfl⟩ : ∃ k, fuel = k + 1 := ⟨fuel - 1, by omega⟩
    unfold scanBin; simp [firstDiffBin]
  | succ n ih =>
    intro a e p q fuel hpq ha he hfuel
    obtain ⟨k, rfl⟩ : ∃ k, fuel = k + 1 := ⟨fuel - 1, by omega⟩
    cases a with
    | nil => simp at ha
    | cons x xs =>
      cases e with
      | nil => simp at he
      | cons y ys =>
        unfold scanBin
        have hlt : p.length < p.length + (n + 1) := by omega
        simp only [hlt, if_true]
        have h1 : rd (p ++ x :: xs) p.length = .ok x := rd_at p xs x
        have h2 : rd (q ++ y :: ys) p.length = .ok y := by rw [hpq]; exact rd_at q ys y
        rw [h1, h2]
        by_cases hxy : x = y
        · subst hxy
          have e1 : p ++ x :: xs = (p ++ [x]) ++ xs := by simp
          have e2 : q ++ x :: ys = (q ++ [x]) ++ ys := by simp
          have e3 : p.length + (n + 1) = (p ++ [x]).length + n := by simp; omega
          have e4 : p.length + 1 = (p ++ [x]).length := by simp
          simp only [if_true]
          rw [e1, e2, e3, e4, ih xs ys (p ++ [x]) (q ++ [x]) k (by simp [hpq]) (by simp at ha; omega) (by simp at he; omega) (by omega)]
          simp [firstDiffBin]; omega
        · simp [firstDiffBin, hxy]

open DiagSpec

set_option maxRecDepth 100000 in
theorem printableStep_eq_aux : ∀ n, n < 256 → printableStep (UInt8.ofNat n) = printableByte (UInt8.ofNat n) := by
  decide

set_option maxRecDepth 100000 in
theorem printableStep_nz_aux : ∀ n, n < 256 → n ≠ 0 → (printableStep (UInt8.ofNat n)).all (fun x => x != 0) = true := by
  decide

set_option maxRecDepth 100000 in
theorem toLower_nz_aux : ∀ n, n < 256 → n ≠ 0 → toLower (UInt8.ofNat n) ≠ toLower 0 := by
  decide

theorem printableStep_eq (c : UInt8) : printableStep c = printableByte c := by
  have := printableStep_eq_aux c.toNat (UInt8.toNat_lt c)
  simpa using this

/-- the model of `SimpleString::printable` computes the textbook printable form -/
theorem printable_eq (a : Bytes) : printable a = DiagSpec.printable a := by
  unfold printable DiagSpec.printable
  congr 1; funext c; exact printableStep_eq c

theorem toLower_nz (x : UInt8) (hx : x ≠ 0) : toLower x ≠ toLower 0 := by
  have h := toLower_nz_aux x.toNat (UInt8.toNat_lt x) (by
    intro h0; apply hx; exact UInt8.toNat_inj.mp (by simpa using h0))
  simpa using h

theorem id_nz (x : UInt8) (hx : x ≠ 0) : id x ≠ id 0 := hx

theorem printable_nulFree (a : Bytes) (h : NulFree a) : NulFree (printable a) := by
  intro x hx
  simp only [printable, List.mem_flatMap] at hx
  obtain ⟨c, hc, hxc⟩ := hx
  have hc0 : c ≠ 0 := h c hc
  have h := printableStep_nz_aux c.toNat (UInt8.toNat_lt c) (by
    intro h0; apply hc0; exact UInt8.toNat_inj.mp (by simpa using h0))
  simp only [UInt8.ofNat_toNat] at h
  have := List.all_eq_true.mp h x hxc
  simpa using this

theorem stringScans_spec (f : UInt8 → UInt8) (hf : ∀ x, x ≠ 0 → f x ≠ f 0) (e a : Bytes) (ha : NulFree a) :
    stringScans f e a = .ok (firstDiffBy f a e, firstDiffBy f (printable a) (printable e)) := by
  have h1 := scan_spec f hf a e [] [] (a.length + 1) rfl ha (by omega)
  have h2 := scan_spec f hf (printable a) (printable e) [] [] ((printable a).length + 1) rfl (printable_nulFree a ha) (by omega)
  simp only [List.nil_append, List.length_nil, Nat.zero_add] at h1 h2
  unfold stringScans cstr
  rw [h1]; simp only []; rw [h2]

/-! ## the textbook first difference -/

theorem firstDiff_eq_by (a e : Bytes) : firstDiff a e = firstDiffBy id a e := by
  induction a generalizing e with
  | nil => cases e <;> simp [firstDiff, firstDiffBy]
  | cons x xs ih => cases e with
    | nil => simp [firstDiff, firstDiffBy]
    | cons y ys => simp [firstDiff, firstDiffBy, ih]

theorem firstDiffBy_le (f : UInt8 → UInt8) (a e : Bytes) : firstDiffBy f a e ≤ a.length ∧ firstDiffBy f a e ≤ e.length := by
  induction a generalizing e with
  | nil => cases e <;> simp [firstDiffBy]
  | cons x xs ih => cases e with
    | nil => simp [firstDiffBy]
    | cons y ys =>
      have := ih ys
      simp only [firstDiffBy]; split <;> simp <;> omega

theorem firstDiffBy_agree (f : UInt8 → UInt8) (a e : Bytes) :
    ∀ j, j < firstDiffBy f a e → (a[j]?).map f = (e[j]?).map f := by
  induction a generalizing e with
  | nil => cases e <;> simp [firstDiffBy]
  | cons x xs ih => cases e with
    | nil => simp [firstDiffBy]
    | cons y ys =>
      intro j hj
      simp only [firstDiffBy] at hj
      split at hj
      · rename_i hxy
        cases j with
        | zero => simp [hxy]
        | succ j => simpa using ih ys j (by omega)
      · omega

theorem firstDiffBy_differs (f : UInt8 → UInt8) (a e : Bytes) (h : a.map f ≠ e.map f) :
    (a[firstDiffBy f a e]?).map f ≠ (e[firstDiffBy f a e]?).map f := by
  induction a generalizing e with
  | nil => cases e with
    | nil => simp at h
    | cons y ys => simp [firstDiffBy]
  | cons x xs ih => cases e with
    | nil => simp [firstDiffBy]
    | cons y ys =>
      simp only [firstDiffBy]
      split
      · rename_i hxy
        have h' : xs.map f ≠ ys.map f := by
          intro hh; apply h; simp [hxy, hh]
        simpa using ih ys h'
      · rename_i hxy; simpa using hxy

theorem firstDiffBin_le (n : Nat) (a e : Bytes) : firstDiffBin n a e ≤ n := by
  induction n generalizing a e with
  | zero => simp [firstDiffBin]
  | succ n ih =>
    cases a with
    | nil => simp [firstDiffBin]
    | cons x xs => cases e with
      | nil => simp [firstDiffBin]
      | cons y ys =>
        have := ih xs ys
        simp only [firstDiffBin]; split <;> omega

theorem firstDiffBin_agree (n : Nat) (a e : Bytes) : ∀ j, j < firstDiffBin n a e → a[j]? = e[j]? := by
  induction n generalizing a e with
  | zero => simp [firstDiffBin]
  | succ n ih =>
    cases a with
    | nil => simp [firstDiffBin]
    | cons x xs => cases e with
      | nil => simp [firstDiffBin]
      | cons y ys =>
        intro j hj
        simp only [firstDiffBin] at hj
        split at hj
        · rename_i hxy
          cases j with
          | zero => simp [hxy]
          | succ j => simpa using ih xs ys j (by omega)
        · omega

theorem firstDiffBin_differs (n : Nat) (a e : Bytes) (ha : n ≤ a.length) (he : n ≤ e.length) (h : a.take n ≠ e.take n) :
    firstDiffBin n a e < n ∧ a[firstDiffBin n a e]? ≠ e[firstDiffBin n a e]? := by
  induction n generalizing a e with
  | zero => simp at h
  | succ n ih =>
    cases a with
    | nil => simp at ha
    | cons x xs => cases e with
      | nil => simp at he
      | cons y ys =>
        simp only [firstDiffBin]
        split
        · rename_i hxy
          have h' : xs.take n ≠ ys.take n := by
            intro hh; apply h; simp [hxy, hh]
          have := ih xs ys (by simp at ha; omega) (by simp at he; omega) h'
          constructor
          · omega
          · simpa using this.2
        · rename_i hxy
          constructor
          · omega
          · simpa using hxy

/-! ## the reads of the leaked memory -/

theorem dumpPiecesRd_spec (size : Nat) (mem : Bytes) (h : size ≤ mem.length) :
    ∀ (fuel pos : Nat), dumpPiecesRd fuel size mem pos = .ok (dumpPieces fuel pos ((mem.take size).drop pos)) := by
  intro fuel
  induction fuel with
  | zero => intro pos; rfl
  | succ fuel ih =>
    intro pos
    unfold dumpPiecesRd dumpPieces
    have hT : (mem.take size).length = size := by rw [List.length_take]; omega
    by_cases hp : pos < size
    · have hne : ((mem.take size).drop pos).isEmpty = false := by
        cases hq : (mem.take size).drop pos with
        | nil => have := congrArg List.length hq; simp [hT] at this; omega
        | cons _ _ => rfl
      have hrange : readRange mem pos (min (size - pos) dumpLineBytes) = .ok (((mem.take size).drop pos).take dumpLineBytes) := by
        unfold readRange
        have : pos + min (size - pos) dumpLineBytes ≤ mem.length := by omega
        simp only [this, if_true]
        rw [List.drop_take, List.take_take, Nat.min_comm]
      have hlen : (((mem.take size).drop pos).take dumpLineBytes).length = min (size - pos) dumpLineBytes := by
        rw [List.length_take, List.length_drop, hT, Nat.min_comm]
      have hdrop : ((mem.take size).drop pos).drop dumpLineBytes = (mem.take size).drop (pos + min (size - pos) dumpLineBytes) := by
        rw [List.drop_drop]
        by_cases hc : dumpLineBytes ≤ size - pos
        · rw [Nat.min_eq_right hc]
        · have e1 : min (size - pos) dumpLineBytes = size - pos := Nat.min_eq_left (by omega)
          rw [e1, List.drop_of_length_le (by rw [hT]; omega), List.drop_of_length_le (by rw [hT]; omega)]
      simp only [hp, if_true, hrange, hne, hlen, ih, hdrop]
      rfl
    · have he : ((mem.take size).drop pos).isEmpty = true := by
        rw [List.drop_of_length_le (by rw [hT]; omega)]; rfl
      simp [hp, he]

/-- the abstract leak a readable table entry stands for -/
def LeakRef.toLeak (l : LeakRef) : Leak :=
  { number := l.number, size := l.size, file := l.file, line := l.line, allocName := l.allocName, ptr := l.ptr,
    content := l.readable.take l.size }

/-- the caller-side contract of `report()`: every block in the table is still allocated with at
    least `size_` readable bytes -/
def LeakRef.Live (l : LeakRef) : Prop := ∃ b, l.block = some b ∧ l.size ≤ b.length

theorem reportLeakRd_spec (o : OutBuf) (l : LeakRef) (h : l.Live) : o.reportLeakRd l = .ok (o.reportLeak l.toLeak) := by
  obtain ⟨b, hb, hs⟩ := h
  have hr : l.readable = b := by simp [LeakRef.readable, hb]
  have hlen : (b.take l.size).length = l.size := by rw [List.length_take]; omega
  unfold OutBuf.reportLeakRd
  rw [hr, dumpPiecesRd_spec l.size b hs l.size 0]
  simp only [OutBuf.reportLeak, Buf.addMemoryDump, LeakRef.toLeak, hr, hlen, List.drop_zero, leakText]

theorem reportLeaksRd_spec (leaks : List LeakRef) : ∀ (o : OutBuf), (∀ l ∈ leaks, l.Live) →
    reportLeaksRd o leaks = .ok ((leaks.map LeakRef.toLeak).foldl OutBuf.reportLeak o) := by
  induction leaks with
  | nil => intro o _; rfl
  | cons l ls ih =>
    intro o h
    unfold reportLeaksRd
    rw [reportLeakRd_spec o l (h l (by simp))]
    simp only [List.map_cons, List.foldl_cons]
    exact ih _ (fun x hx => h x (by simp [hx]))

end Diag
