import CppUModel.Proofs.JUnitRun
import CppUModel.Proofs.FailureCtors
/-!
Helper lemmas for C16, part 3: the collector's state after the events of one scripted test (closed
form) and after the registry loop; which test cases end up in which report.
-/
set_option linter.unusedSimpArgs false
namespace JUnit
open Text (Bytes)
open OutEv

/-- the first failure among the events of a test -/
def evsFirst : List Ev → Option Failure
  | [] => none
  | .failure f :: _ => some f
  | _ :: es => evsFirst es

/-- the text collected from the events (what tests print, and the runner's "Test run of" line per repetition) -/
def evsPrinted : List Ev → Bytes
  | [] => []
  | .print x :: es => x ++ evsPrinted es
  | .testRun _ n :: es => testRunText n ++ evsPrinted es
  | _ :: es => evsPrinted es

/-- only prints, failures and the -vv progress trace (what a test sends between its start and end) -/
def onlyBody : List Ev → Bool
  | [] => true
  | .print _ :: es => onlyBody es
  | .failure _ :: es => onlyBody es
  | .veryVerbose _ :: es => onlyBody es
  | _ :: _ => false

/-- everything a running test sends between its start and its end: the body, then the plugin's
    post-test action (with the progress trace around them) -/
def testBodyEvs (t : TestInfo) (acts : List Act) : List Ev := testInner t acts

theorem step_veryVerbose (s : St) (x : Bytes) : step s (.veryVerbose x) = (s, []) := by
  unfold step; split <;> rfl

/-- the first failure a scripted test reports: from its body (nothing runs after a `failExit`),
    else from the post-test action -/
def firstFail (t : TestInfo) (acts : List Act) : Option Failure := evsFirst (testBodyEvs t acts)

/-- the text a scripted test prints -/
def printed (t : TestInfo) (acts : List Act) : Bytes := evsPrinted (testBodyEvs t acts)

def mergeFailure (n : Node) (f : Option Failure) : Node :=
  match n.failure with
  | some _ => n
  | none => { n with failure := f }

def failInc (n : Node) (f : Option Failure) : Nat :=
  match n.failure, f with
  | none, some _ => 1
  | _, _ => 0

theorem foldEvents_cons_quiet {σ ω : Type} (stepf : σ → Ev → σ × List ω) (s : σ) (e : Ev) (es : List Ev)
    (h : (stepf s e).2 = []) : foldEvents stepf s (e :: es) = foldEvents stepf (stepf s e).1 es := by
  simp [foldEvents, h]

theorem mergeFailure_none (n : Node) : mergeFailure n none = n := by
  unfold mergeFailure
  cases h : n.failure with
  | none => cases n; simp_all
  | some f => rfl

theorem failInc_none (n : Node) : failInc n none = 0 := by
  unfold failInc; cases n.failure <;> rfl

theorem St.ext' (a b : St) (h1 : a.testCount = b.testCount) (h2 : a.failureCount = b.failureCount)
    (h3 : a.totalCheckCount = b.totalCheckCount) (h4 : a.groupExecTime = b.groupExecTime) (h5 : a.group = b.group)
    (h6 : a.nodesRev = b.nodesRev) (h7 : a.package = b.package) (h8 : a.stdOutput = b.stdOutput)
    (h9 : a.timeString = b.timeString) (h10 : a.crashed = b.crashed) : a = b := by
  cases a; cases b; simp_all

theorem step_print (s : St) (hc : s.crashed = false) (x : Bytes) :
    step s (.print x) = ({ s with stdOutput := s.stdOutput ++ x }, []) := by
  simp [step, hc]

theorem step_failure (s : St) (hc : s.crashed = false) (f : Failure) :
    step s (.failure f) = (onFailure s f, []) := by
  simp [step, hc]

/-- the collector after prints and failures of a test whose node is `n` -/
theorem body_events_state : ∀ (evs : List Ev) (s : St) (n : Node) (rest : List Node),
    onlyBody evs = true → s.crashed = false → s.nodesRev = n :: rest →
    foldEvents step s evs =
      ({ s with nodesRev := mergeFailure n (evsFirst evs) :: rest,
                failureCount := s.failureCount + failInc n (evsFirst evs),
                stdOutput := s.stdOutput ++ evsPrinted evs }, [])
  | [], s, n, rest, _, hc, hn => by
    simp only [foldEvents, evsFirst, evsPrinted, mergeFailure_none, failInc_none]
    congr 1
    apply St.ext' <;> simp [hn]
  | .print x :: es, s, n, rest, hb, hc, hn => by
    have ih := body_events_state es { s with stdOutput := s.stdOutput ++ x } n rest (by simpa [onlyBody] using hb) hc hn
    rw [foldEvents_cons_quiet _ _ _ _ (by rw [step_print s hc]), step_print s hc, ih]
    congr 1
    apply St.ext' <;> simp [evsFirst, evsPrinted, List.append_assoc]
  | .failure g :: es, s, n, rest, hb, hc, hn => by
    have hb' : onlyBody es = true := by simpa [onlyBody] using hb
    rw [foldEvents_cons_quiet _ _ _ _ (by rw [step_failure s hc]), step_failure s hc]
    cases hf : n.failure with
    | none =>
      have hs1 : onFailure s g =
          { s with failureCount := s.failureCount + 1, nodesRev := { n with failure := some g } :: rest } := by
        simp [onFailure, hn, hf]
      have ih := body_events_state es (onFailure s g) { n with failure := some g } rest hb'
        (by rw [hs1]; exact hc) (by rw [hs1])
      rw [ih, hs1]
      congr 1
      apply St.ext' <;> simp [evsFirst, evsPrinted, mergeFailure, failInc, hf]
    | some g' =>
      have hs1 : onFailure s g = s := by simp [onFailure, hn, hf]
      rw [hs1, body_events_state es s n rest hb' hc hn]
      congr 1
      apply St.ext' <;> simp [evsFirst, evsPrinted, mergeFailure, failInc, hf]
  | .veryVerbose x :: es, s, n, rest, hb, hc, hn => by
    have ih := body_events_state es s n rest (by simpa [onlyBody] using hb) hc hn
    rw [foldEvents_cons_quiet _ _ _ _ (by rw [step_veryVerbose]), step_veryVerbose, ih]
    simp [evsFirst, evsPrinted]
  | .testsStarted :: _, _, _, _, hb, _, _ => by simp [onlyBody] at hb
  | .groupStarted _ :: _, _, _, _, hb, _, _ => by simp [onlyBody] at hb
  | .testStarted _ :: _, _, _, _, hb, _, _ => by simp [onlyBody] at hb
  | .testEnded _ _ :: _, _, _, _, hb, _, _ => by simp [onlyBody] at hb
  | .groupEnded _ :: _, _, _, _, hb, _, _ => by simp [onlyBody] at hb
  | .testsEnded _ :: _, _, _, _, hb, _, _ => by simp [onlyBody] at hb

theorem onlyBody_append (a b : List Ev) : onlyBody (a ++ b) = (onlyBody a && onlyBody b) := by
  induction a with
  | nil => simp [onlyBody]
  | cons e a ih => cases e <;> simp [onlyBody, ih]

theorem onlyBody_acts (t : TestInfo) : ∀ acts, onlyBody (actEvs t acts) = true
  | [] => rfl
  | .print _ _ _ :: as => by simp [actEvs, onlyBody, onlyBody_acts t as]
  | .fail _ _ _ :: as => by simp [actEvs, onlyBody, onlyBody_acts t as]
  | .failExit _ _ _ :: _ => by simp [actEvs, onlyBody]
  | .failMsg _ :: as => by simp [actEvs, onlyBody, onlyBody_acts t as]
  | .failLoc _ _ :: as => by simp [actEvs, onlyBody, onlyBody_acts t as]
  | .postFail _ :: as => by simp [actEvs, onlyBody_acts t as]
  | .checks _ :: as => by simp [actEvs, onlyBody_acts t as]
  | .tick _ :: as => by simp [actEvs, onlyBody_acts t as]

theorem onlyBody_post (t : TestInfo) : ∀ acts, onlyBody (postEvs t acts) = true
  | [] => rfl
  | .postFail _ :: as => by simp [postEvs, onlyBody, onlyBody_post t as]
  | .print _ _ _ :: as => by simp [postEvs, onlyBody_post t as]
  | .fail _ _ _ :: as => by simp [postEvs, onlyBody_post t as]
  | .failExit _ _ _ :: as => by simp [postEvs, onlyBody_post t as]
  | .failMsg _ :: as => by simp [postEvs, onlyBody_post t as]
  | .failLoc _ _ :: as => by simp [postEvs, onlyBody_post t as]
  | .checks _ :: as => by simp [postEvs, onlyBody_post t as]
  | .tick _ :: as => by simp [postEvs, onlyBody_post t as]

theorem onlyBody_testBody (t : TestInfo) (acts : List Act) : onlyBody (testBodyEvs t acts) = true := by
  have h1 : onlyBody traceBefore = true := by decide
  have h2 : onlyBody (traceBetween acts) = true := by unfold traceBetween; split <;> decide
  have h3 : onlyBody traceAfter = true := by decide
  simp [testBodyEvs, testInner, onlyBody_append, onlyBody_acts, onlyBody_post, h1, h2, h3]

/-- the node a scripted test leaves in the collector -/
def scriptNode (sc : Script) (r : R) : Node :=
  { name := sc.info.name
    file := sc.info.file
    line := sc.info.line
    ignored := !sc.info.willRun
    failure := if sc.info.willRun then firstFail sc.info sc.acts else none
    execTime := if sc.info.willRun then actTicks sc.acts else 0
    checkCount := if sc.info.willRun then r.checks + actChecks sc.acts else r.checks }

def scriptPrinted (sc : Script) : Bytes := if sc.info.willRun then printed sc.info sc.acts else []

theorem step_testStarted (s : St) (hc : s.crashed = false) (t : TestInfo) :
    step s (.testStarted t) = (onTestStarted s t, []) := by
  simp [step, hc]

theorem step_testEnded (s : St) (hc : s.crashed = false) (ms c : Nat) :
    step s (.testEnded ms c) = (onTestEnded s ms c, []) := by
  simp [step, hc]

/-- the collector after `testStarted; body; testEnded` of one test -/
theorem test_state (sc : Script) (r : R) (s : St) (hc : s.crashed = false) :
    foldEvents step s (testEvs sc r) =
      ({ s with testCount := s.testCount + 1, group := sc.info.group,
                nodesRev := scriptNode sc r :: s.nodesRev,
                failureCount := s.failureCount + (if (scriptNode sc r).failure.isSome then 1 else 0),
                stdOutput := s.stdOutput ++ scriptPrinted sc }, []) := by
  have hc1 : (onTestStarted s sc.info).crashed = false := by simp [onTestStarted, hc]
  unfold testEvs
  cases hw : sc.info.willRun
  · simp only [Bool.false_eq_true, if_false]
    rw [foldEvents_cons_quiet _ _ _ _ (by rw [step_testStarted s hc]), step_testStarted s hc,
      foldEvents_cons_quiet _ _ _ _ (by rw [step_testEnded _ hc1]), step_testEnded _ hc1]
    simp only [foldEvents]
    congr 1
    apply St.ext' <;> simp [onTestStarted, onTestEnded, newNode, scriptNode, scriptPrinted, hw]
  · simp only [if_true]
    show foldEvents step s (Ev.testStarted sc.info :: (testBodyEvs sc.info sc.acts ++ [Ev.testEnded _ _])) = _
    rw [foldEvents_cons_quiet _ _ _ _ (by rw [step_testStarted s hc]), step_testStarted s hc, foldEvents_append,
      body_events_state (testBodyEvs sc.info sc.acts) (onTestStarted s sc.info) (newNode sc.info) s.nodesRev
        (onlyBody_testBody _ _) hc1 (by simp [onTestStarted])]
    simp only [List.nil_append]
    rw [foldEvents_cons_quiet _ _ _ _ (by rw [step_testEnded _ (by simpa using hc1)]),
      step_testEnded _ (by simpa using hc1)]
    simp only [foldEvents]
    congr 1
    cases hf : evsFirst (testBodyEvs sc.info sc.acts) <;>
      (apply St.ext' <;>
        simp [onTestStarted, onTestEnded, newNode, scriptNode, scriptPrinted, firstFail, printed, hw, hf, mergeFailure, failInc])

/-! ## keys: what a report says about a test, and what the script says -/

/-- name, file, line (as printed), skipped flag, failure message -/
abbrev Key := Bytes × Bytes × Int × Bool × Option Bytes

def caseKey (c : Case) : Key := (c.name, c.file, c.line, c.skipped, c.failure)
def nodeKey (n : Node) : Key := (n.name, n.file, castInt n.line, n.ignored, n.failure.map failureMessage)

/-- what the run itself says about a test: its name, file, line, whether it is ignored, and the
    message of its first failure (`file:line: message`) if it ran and failed -/
def scriptKey (sc : Script) : Key :=
  (sc.info.name, sc.info.file, castInt sc.info.line, !sc.info.willRun,
   if sc.info.willRun then (firstFail sc.info sc.acts).map failureMessage else none)

theorem nodeKey_scriptNode (sc : Script) (r : R) : nodeKey (scriptNode sc r) = scriptKey sc := by
  unfold nodeKey scriptNode scriptKey
  cases sc.info.willRun <;> simp

theorem casesOf_keys (p g : Bytes) : ∀ (ns : List Node) (t : Nat),
    (casesOf p g t ns).map caseKey = ns.map nodeKey
  | [], _ => rfl
  | n :: rest, t => by simp [casesOf, casesOf_keys p g rest, caseKey, nodeKey, caseOf]

def reportKeys (r : Bytes × Suite) : List Key := r.2.cases.map caseKey

theorem reportOf_keys (s : St) : reportKeys (reportOf s) = s.nodesRev.reverse.map nodeKey := by
  simp [reportKeys, reportOf, suiteOf, casesOf_keys]

/-! ## the loop -/

theorem rstep_state (s : St) (evs : List Ev) : stFrom s evs = (foldEvents step s evs).1 :=
  ((fold_files evs s).2).symm

def noGroupEnd : List Ev → Bool
  | [] => true
  | .groupEnded _ :: _ => false
  | _ :: es => noGroupEnd es

theorem reportsFrom_quiet : ∀ (evs : List Ev) (s : St), noGroupEnd evs = true → reportsFrom s evs = []
  | [], _, _ => rfl
  | e :: es, s, h => by
    rw [reportsFrom_cons]
    cases e <;> simp [noGroupEnd] at h <;> simp [reportsOf, reportsFrom_quiet es _ h]

theorem noGroupEnd_append (a b : List Ev) : noGroupEnd (a ++ b) = (noGroupEnd a && noGroupEnd b) := by
  induction a with
  | nil => simp [noGroupEnd]
  | cons e a ih => cases e <;> simp [noGroupEnd, ih]

theorem noGroupEnd_of_onlyBody : ∀ evs, onlyBody evs = true → noGroupEnd evs = true
  | [], _ => rfl
  | .print _ :: es, h => by simpa [noGroupEnd] using noGroupEnd_of_onlyBody es (by simpa [onlyBody] using h)
  | .failure _ :: es, h => by simpa [noGroupEnd] using noGroupEnd_of_onlyBody es (by simpa [onlyBody] using h)
  | .veryVerbose _ :: es, h => by simpa [noGroupEnd] using noGroupEnd_of_onlyBody es (by simpa [onlyBody] using h)
  | .testsStarted :: _, h => by simp [onlyBody] at h
  | .groupStarted _ :: _, h => by simp [onlyBody] at h
  | .testStarted _ :: _, h => by simp [onlyBody] at h
  | .testEnded _ _ :: _, h => by simp [onlyBody] at h
  | .groupEnded _ :: _, h => by simp [onlyBody] at h
  | .testsEnded _ :: _, h => by simp [onlyBody] at h

theorem noGroupEnd_test (sc : Script) (r : R) : noGroupEnd (testEvs sc r) = true := by
  unfold testEvs
  split
  · have := noGroupEnd_of_onlyBody _ (onlyBody_testBody sc.info sc.acts)
    simp only [testBodyEvs] at this
    simp [noGroupEnd, noGroupEnd_append, this]
  · simp [noGroupEnd]

theorem noGroupEnd_body (flt : Option Filter) (sc : Script) (r : R) : noGroupEnd (bodyEvs flt sc r) = true := by
  unfold bodyEvs; split
  · exact noGroupEnd_test sc _
  · rfl

/-- state of the collector after the (possibly filtered out) test `sc` -/
theorem body_state (flt : Option Filter) (sc : Script) (r : R) (s : St) (hc : s.crashed = false) :
    (stFrom s (bodyEvs flt sc r)).crashed = false ∧
    (stFrom s (bodyEvs flt sc r)).package = s.package ∧
    (stFrom s (bodyEvs flt sc r)).nodesRev =
      (if shouldRun flt sc.info then [scriptNode sc (countTest r)] else []) ++ s.nodesRev := by
  rw [rstep_state]
  unfold bodyEvs
  split
  · rw [test_state sc _ s hc]; simp [hc]
  · simp [foldEvents, hc]

/-- Generalised statement about the loop: the keys of all reports written from here on are the
    keys of the nodes already collected for the open group followed by the keys of the remaining
    tests that run. -/
theorem loop_keys (flt : Option Filter) : ∀ (tests : List Script) (gs : Bool) (g0 : Nat) (r : R) (s : St),
    s.crashed = false → (tests = [] → s.nodesRev = []) →
    (reportsFrom s (loop flt gs g0 r tests)).flatMap reportKeys =
      s.nodesRev.reverse.map nodeKey ++ ((tests.filter fun t => shouldRun flt t.info).map scriptKey) ∧
    (stFrom s (loop flt gs g0 r tests)).crashed = false
  | [], gs, g0, r, s, hc, hnil => by
    simp [loop, reportsFrom_cons, reportsFrom_nil, reportsOf, stFrom_cons, stFrom_nil, step, hc, hnil rfl]
  | t :: rest, gs, g0, r, s, hc, _ => by
    simp only [loop]
    -- the group start event changes nothing
    have hstart : stFrom s (startEvs gs t) = s ∧ reportsFrom s (startEvs gs t) = [] := by
      unfold startEvs; split <;> simp [stFrom_cons, stFrom_nil, reportsFrom_cons, reportsFrom_nil, reportsOf, step, hc]
    have hb := body_state flt t r s hc
    rw [List.append_assoc, List.append_assoc, reportsFrom_append, stFrom_append, hstart.1, hstart.2, List.nil_append,
      reportsFrom_append, stFrom_append, reportsFrom_quiet _ _ (noGroupEnd_body flt t r), List.nil_append,
      reportsFrom_append, stFrom_append]
    generalize hs2 : stFrom s (bodyEvs flt t r) = s2 at hb ⊢
    obtain ⟨hc2, _, hn2⟩ := hb
    have hkeys : s2.nodesRev.reverse.map nodeKey =
        s.nodesRev.reverse.map nodeKey ++ (if shouldRun flt t.info then [scriptKey t] else []) := by
      rw [hn2]; split <;> simp [nodeKey_scriptNode]
    unfold endEvs
    cases he : endOfGroup t rest
    · -- the group goes on: `rest` is not empty
      simp only [Bool.false_eq_true, if_false, reportsFrom_nil, stFrom_nil, List.nil_append]
      have hrest : rest = [] → s2.nodesRev = [] := by
        intro h; subst h; simp [endOfGroup] at he
      have ih := loop_keys flt rest false (if gs = true then r.clock else g0) (bodyR flt t r) s2 hc2 hrest
      refine ⟨?_, ih.2⟩
      rw [ih.1, hkeys, List.filter_cons]
      split <;> simp
    · -- the group ends: one report with the collected nodes, then a fresh collector
      simp only [if_true]
      generalize hms : (bodyR flt t r).clock - (if gs = true then r.clock else g0) = ms
      have hrep : reportsFrom s2 [Ev.groupEnded ms] = [reportOf { s2 with groupExecTime := ms }] := by
        simp [reportsFrom_cons, reportsFrom_nil, reportsOf, hc2]
      have hst : stFrom s2 [Ev.groupEnded ms] = onGroupEnded s2 ms := by
        simp [stFrom_cons, stFrom_nil, step, hc2]
      have ih := loop_keys flt rest true (if gs = true then r.clock else g0) (bodyR flt t r) (onGroupEnded s2 ms)
        (by simp [onGroupEnded, reset_eq, hc2]) (by intro _; simp [onGroupEnded, reset_eq])
      rw [hrep, hst]
      refine ⟨?_, ih.2⟩
      rw [List.flatMap_append, ih.1]
      simp only [List.flatMap_cons, List.flatMap_nil, List.append_nil, reportOf_keys, hkeys]
      simp only [onGroupEnded, reset_eq, List.reverse_nil, List.map_nil, List.nil_append, List.filter_cons]
      split <;> simp

/-! ## one report per group -/

/-- maximal runs of consecutive tests with the same group name (the groups of the default order) -/
def groupRuns : List Script → List (List Script)
  | [] => []
  | t :: rest =>
    match groupRuns rest with
    | (n :: run) :: more =>
      if t.info.group == n.info.group then (t :: n :: run) :: more else [t] :: (n :: run) :: more
    | _ => [[t]]

def addToHead (k : Nat) : List Nat → List Nat
  | [] => []
  | x :: xs => (k + x) :: xs

def ranIn (flt : Option Filter) (run : List Script) : Nat := (run.filter fun t => shouldRun flt t.info).length

theorem groupRuns_head : ∀ (t : Script) (rest : List Script),
    ∃ run more, groupRuns (t :: rest) = (t :: run) :: more
  | t, [] => ⟨[], [], rfl⟩
  | t, n :: rest => by
    obtain ⟨run, more, h⟩ := groupRuns_head n rest
    simp only [groupRuns] at h ⊢
    rw [h]
    simp only
    split
    · exact ⟨_, _, rfl⟩
    · exact ⟨_, _, rfl⟩

theorem groupRuns_cons_end (t : Script) (rest : List Script) (he : endOfGroup t rest = true) :
    groupRuns (t :: rest) = [t] :: groupRuns rest := by
  cases rest with
  | nil => rfl
  | cons n rest' =>
    obtain ⟨run, more, h⟩ := groupRuns_head n rest'
    simp only [endOfGroup, bne_iff_ne, ne_eq] at he
    have : (t.info.group == n.info.group) = false := by simpa using he
    rw [groupRuns, h]
    simp [this]

theorem groupRuns_cons_go (t : Script) (rest : List Script) (he : endOfGroup t rest = false) :
    ∃ run more, groupRuns rest = run :: more ∧ groupRuns (t :: rest) = (t :: run) :: more := by
  cases rest with
  | nil => simp [endOfGroup] at he
  | cons n rest' =>
    obtain ⟨run, more, h⟩ := groupRuns_head n rest'
    simp only [endOfGroup, bne_eq_false_iff_eq] at he
    refine ⟨n :: run, more, h, ?_⟩
    rw [groupRuns, h]
    simp [he]

theorem loop_groups (flt : Option Filter) : ∀ (tests : List Script) (gs : Bool) (g0 : Nat) (r : R) (s : St),
    s.crashed = false → (tests = [] → s.nodesRev = []) →
    (reportsFrom s (loop flt gs g0 r tests)).map (fun rp => rp.2.cases.length) =
      addToHead s.nodesRev.length ((groupRuns tests).map (ranIn flt))
  | [], gs, g0, r, s, hc, hnil => by
    simp [loop, reportsFrom_cons, reportsFrom_nil, reportsOf, groupRuns, addToHead]
  | t :: rest, gs, g0, r, s, hc, _ => by
    simp only [loop]
    have hstart : stFrom s (startEvs gs t) = s ∧ reportsFrom s (startEvs gs t) = [] := by
      unfold startEvs; split <;> simp [stFrom_cons, stFrom_nil, reportsFrom_cons, reportsFrom_nil, reportsOf, step, hc]
    have hb := body_state flt t r s hc
    rw [List.append_assoc, List.append_assoc, reportsFrom_append, hstart.1, hstart.2, List.nil_append,
      reportsFrom_append, reportsFrom_quiet _ _ (noGroupEnd_body flt t r), List.nil_append,
      reportsFrom_append]
    generalize hs2 : stFrom s (bodyEvs flt t r) = s2 at hb ⊢
    obtain ⟨hc2, _, hn2⟩ := hb
    have hlen : s2.nodesRev.length = s.nodesRev.length + (if shouldRun flt t.info then 1 else 0) := by
      rw [hn2]; split <;> simp <;> omega
    unfold endEvs
    cases he : endOfGroup t rest
    · simp only [Bool.false_eq_true, if_false, reportsFrom_nil, stFrom_nil, List.nil_append]
      have hrest : rest = [] → s2.nodesRev = [] := by
        intro h; subst h; simp [endOfGroup] at he
      rw [loop_groups flt rest false _ _ s2 hc2 hrest]
      obtain ⟨run, more, h1, h2⟩ := groupRuns_cons_go t rest he
      rw [h1, h2]
      simp only [List.map_cons, addToHead, ranIn, List.filter_cons, hlen]
      split <;> simp <;> omega
    · simp only [if_true]
      generalize hms : (bodyR flt t r).clock - (if gs = true then r.clock else g0) = ms
      have hrep : reportsFrom s2 [Ev.groupEnded ms] = [reportOf { s2 with groupExecTime := ms }] := by
        simp [reportsFrom_cons, reportsFrom_nil, reportsOf, hc2]
      have hst : stFrom s2 [Ev.groupEnded ms] = onGroupEnded s2 ms := by
        simp [stFrom_cons, stFrom_nil, step, hc2]
      rw [hrep, hst, List.map_append, loop_groups flt rest true _ _ (onGroupEnded s2 ms)
        (by simp [onGroupEnded, reset_eq, hc2]) (by intro _; simp [onGroupEnded, reset_eq]), groupRuns_cons_end t rest he]
      have h0 : (onGroupEnded s2 ms).nodesRev.length = 0 := by simp [onGroupEnded, reset_eq]
      rw [h0]
      have hadd : ∀ l : List Nat, addToHead 0 l = l := by intro l; cases l <;> simp [addToHead]
      rw [hadd]
      simp only [List.map_cons, List.map_nil, addToHead, reportOf, suiteOf, casesOf_length, List.length_reverse,
        hlen, ranIn, List.filter_cons, List.filter_nil]
      split <;> simp

end JUnit
