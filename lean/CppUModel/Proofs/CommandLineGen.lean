import CppUModel.Proofs.CommandLine
import CppUModel.Gen.ParseHandlers
/-!
# C12 — the statement-level translation of CommandLineArguments.cpp equals the hand-written model

`Gen/ParseHandlers.lean` is regenerated from the source on every run (translate/extract_cmdline_fns.py): one Lean
definition per function of `CommandLineArguments.cpp` that `parse` runs, plus the body of the `for` loop of
`parse` itself.  This file proves, for ALL inputs, that each of them computes what the corresponding function of
`Model/CommandLine.lean` computes (`…_eq`), that the loop body is the model's `step` (`parseBody_view`), and that the
loop assembled from the regenerated body is the model's `parse` (`genParse_eq_parse`).  So every theorem of
`Props/C12.lean` about `parse` is a theorem about what the source says at check time.

Indexing convention of the generated code: `rest` = `av[i .. ac)` at entry, `k` = how far the function advanced `i`.
-/
namespace CommandLine
open Text
namespace Src
open Gen.ParseHandlers
set_option linter.unusedSimpArgs false
def kOf (b : Bool) : Nat := if b then 1 else 0

theorem getParameterField_eq (env : Env) (s : St) (a : Bytes) (rest : List Bytes) (name : Bytes) :
    Gen.ParseHandlers.getParameterField env s (a :: rest) 0 name =
      ⟨s, kOf (CommandLine.getParameterField name.length a rest.head?).consumed,
       (CommandLine.getParameterField name.length a rest.head?).val⟩ := by
  unfold Gen.ParseHandlers.getParameterField CommandLine.getParameterField
  cases rest with
  | nil => by_cases h : a.length > name.length <;> simp [h, kOf]
  | cons b r => by_cases h : a.length > name.length <;> simp [h, kOf]

theorem setRepeatCount_eq (env : Env) (c : Config) (p : Bool) (a : Bytes) (rest : List Bytes) :
    Gen.ParseHandlers.setRepeatCount env ⟨c, p⟩ (a :: rest) 0 =
      ⟨⟨(CommandLine.setRepeatCount c a rest.head?).cfg, p⟩,
       kOf (CommandLine.setRepeatCount c a rest.head?).consumed, ()⟩ := by
  unfold Gen.ParseHandlers.setRepeatCount CommandLine.setRepeatCount repeatRaw repeatConsumed
  cases rest with
  | nil => by_cases h : a.length > 2 <;> simp [h, kOf] <;> split <;> simp_all <;> omega
  | cons b r =>
    by_cases h : a.length > 2 <;> simp [h, kOf] <;> split <;> simp_all <;> (try omega) <;> (intros; omega)

def preSeededOf (p : Bool) (a : Bytes) (next : Option Bytes) : Bool :=
  if a.length > 2 then true else match next with
    | some n => if atou n != 0 then true else p
    | none => p

theorem setShuffle_eq (env : Env) (c : Config) (p : Bool) (a : Bytes) (rest : List Bytes) :
    Gen.ParseHandlers.setShuffle env ⟨c, p⟩ (a :: rest) 0 =
      ⟨⟨(CommandLine.setShuffle env c a rest.head?).cfg, preSeededOf p a rest.head?⟩,
       kOf (CommandLine.setShuffle env c a rest.head?).consumed,
       (CommandLine.setShuffle env c a rest.head?).good⟩ := by
  unfold Gen.ParseHandlers.setShuffle CommandLine.setShuffle shuffleSeedOf shuffleConsumed preSeededOf timeSeed
  cases rest with
  | nil => by_cases h : a.length > 2 <;> simp [h, kOf] <;> split <;> simp_all
  | cons b r =>
    by_cases h : a.length > 2 <;> simp [h, kOf] <;> split <;> simp_all <;> split <;> simp_all

theorem addGroupFilter_eq (env : Env) (c : Config) (p : Bool) (a : Bytes) (rest : List Bytes) :
    Gen.ParseHandlers.addGroupFilter env ⟨c, p⟩ (a :: rest) 0 =
      ⟨⟨(addGroup 2 false false c a rest.head?).cfg, p⟩, kOf (addGroup 2 false false c a rest.head?).consumed, ()⟩ := by
  simp [Gen.ParseHandlers.addGroupFilter, getParameterField_eq, addGroup]

theorem addStrictGroupFilter_eq (env : Env) (c : Config) (p : Bool) (a : Bytes) (rest : List Bytes) :
    Gen.ParseHandlers.addStrictGroupFilter env ⟨c, p⟩ (a :: rest) 0 =
      ⟨⟨(addGroup 3 true false c a rest.head?).cfg, p⟩, kOf (addGroup 3 true false c a rest.head?).consumed, ()⟩ := by
  simp [Gen.ParseHandlers.addStrictGroupFilter, getParameterField_eq, addGroup, addName, -Bool.true_eq]

theorem addExcludeGroupFilter_eq (env : Env) (c : Config) (p : Bool) (a : Bytes) (rest : List Bytes) :
    Gen.ParseHandlers.addExcludeGroupFilter env ⟨c, p⟩ (a :: rest) 0 =
      ⟨⟨(addGroup 3 false true c a rest.head?).cfg, p⟩, kOf (addGroup 3 false true c a rest.head?).consumed, ()⟩ := by
  simp [Gen.ParseHandlers.addExcludeGroupFilter, getParameterField_eq, addGroup, addName, -Bool.true_eq]

theorem addExcludeStrictGroupFilter_eq (env : Env) (c : Config) (p : Bool) (a : Bytes) (rest : List Bytes) :
    Gen.ParseHandlers.addExcludeStrictGroupFilter env ⟨c, p⟩ (a :: rest) 0 =
      ⟨⟨(addGroup 4 true true c a rest.head?).cfg, p⟩, kOf (addGroup 4 true true c a rest.head?).consumed, ()⟩ := by
  simp [Gen.ParseHandlers.addExcludeStrictGroupFilter, getParameterField_eq, addGroup, addName, -Bool.true_eq]

theorem addNameFilter_eq (env : Env) (c : Config) (p : Bool) (a : Bytes) (rest : List Bytes) :
    Gen.ParseHandlers.addNameFilter env ⟨c, p⟩ (a :: rest) 0 =
      ⟨⟨(addName 2 false false c a rest.head?).cfg, p⟩, kOf (addName 2 false false c a rest.head?).consumed, ()⟩ := by
  simp [Gen.ParseHandlers.addNameFilter, getParameterField_eq, addGroup, addName, -Bool.true_eq]

theorem addStrictNameFilter_eq (env : Env) (c : Config) (p : Bool) (a : Bytes) (rest : List Bytes) :
    Gen.ParseHandlers.addStrictNameFilter env ⟨c, p⟩ (a :: rest) 0 =
      ⟨⟨(addName 3 true false c a rest.head?).cfg, p⟩, kOf (addName 3 true false c a rest.head?).consumed, ()⟩ := by
  simp [Gen.ParseHandlers.addStrictNameFilter, getParameterField_eq, addGroup, addName, -Bool.true_eq]

theorem addExcludeNameFilter_eq (env : Env) (c : Config) (p : Bool) (a : Bytes) (rest : List Bytes) :
    Gen.ParseHandlers.addExcludeNameFilter env ⟨c, p⟩ (a :: rest) 0 =
      ⟨⟨(addName 3 false true c a rest.head?).cfg, p⟩, kOf (addName 3 false true c a rest.head?).consumed, ()⟩ := by
  simp [Gen.ParseHandlers.addExcludeNameFilter, getParameterField_eq, addGroup, addName, -Bool.true_eq]

theorem addExcludeStrictNameFilter_eq (env : Env) (c : Config) (p : Bool) (a : Bytes) (rest : List Bytes) :
    Gen.ParseHandlers.addExcludeStrictNameFilter env ⟨c, p⟩ (a :: rest) 0 =
      ⟨⟨(addName 4 true true c a rest.head?).cfg, p⟩, kOf (addName 4 true true c a rest.head?).consumed, ()⟩ := by
  simp [Gen.ParseHandlers.addExcludeStrictNameFilter, getParameterField_eq, addGroup, addName, -Bool.true_eq]

theorem addGroupDotNameFilter_eq (env : Env) (c : Config) (p : Bool) (a : Bytes) (rest : List Bytes)
    (lit : Bytes) (strict exclude : Bool) :
    Gen.ParseHandlers.addGroupDotNameFilter env ⟨c, p⟩ (a :: rest) 0 lit strict exclude =
      ⟨⟨(addGroupDotName lit strict exclude c a rest.head?).cfg, p⟩,
       kOf (addGroupDotName lit strict exclude c a rest.head?).consumed,
       (addGroupDotName lit strict exclude c a rest.head?).good⟩ := by
  simp only [Gen.ParseHandlers.addGroupDotNameFilter, getParameterField_eq, addGroupDotName]
  generalize splitCode (CommandLine.getParameterField lit.length a rest.head?).val [46] = l
  match l with
  | [] => simp [dotNameFilters]
  | [x] => simp [dotNameFilters]
  | [g, n] => cases strict <;> cases exclude <;> simp [dotNameFilters]
  | _ :: _ :: _ :: _ => simp [dotNameFilters]

theorem addTestToRunBasedOnVerboseOutput_eq (env : Env) (c : Config) (p : Bool) (a : Bytes) (rest : List Bytes) (lit : Bytes) :
    Gen.ParseHandlers.addTestToRunBasedOnVerboseOutput env ⟨c, p⟩ (a :: rest) 0 lit =
      ⟨⟨(addTestForm lit c a rest.head?).cfg, p⟩, kOf (addTestForm lit c a rest.head?).consumed, ()⟩ := by
  simp only [Gen.ParseHandlers.addTestToRunBasedOnVerboseOutput, getParameterField_eq, addTestForm]
  generalize (CommandLine.getParameterField lit.length a rest.head?).val = w
  cases w with
  | nil => simp [testFormGroup, testFormName, subStringFromTill, find, findFrom]
  | cons x t => simp [testFormGroup, testFormName]

theorem setOutputType_eq (env : Env) (c : Config) (p : Bool) (a : Bytes) (rest : List Bytes) :
    Gen.ParseHandlers.setOutputType env ⟨c, p⟩ (a :: rest) 0 =
      ⟨⟨(CommandLine.setOutputType c a rest.head?).cfg, p⟩, kOf (CommandLine.setOutputType c a rest.head?).consumed,
       (CommandLine.setOutputType c a rest.head?).good⟩ := by
  simp only [Gen.ParseHandlers.setOutputType, getParameterField_eq, CommandLine.setOutputType, outputOf,
    show ([45, 111] : Bytes).length = 2 from rfl]
  generalize (CommandLine.getParameterField 2 a rest.head?) = f
  simp only [litNormal, litEclipse, litJunit, litTeamcity]
  repeat' split
  all_goals simp_all

theorem setPackageName_eq (env : Env) (c : Config) (p : Bool) (a : Bytes) (rest : List Bytes) :
    Gen.ParseHandlers.setPackageName env ⟨c, p⟩ (a :: rest) 0 =
      ⟨⟨(CommandLine.setPackageName c a rest.head?).cfg, p⟩, kOf (CommandLine.setPackageName c a rest.head?).consumed, ()⟩ := by
  simp only [Gen.ParseHandlers.setPackageName, getParameterField_eq, CommandLine.setPackageName,
    show ([45, 107] : Bytes).length = 2 from rfl]
  generalize (CommandLine.getParameterField 2 a rest.head?) = f
  split <;> simp_all


def dispatchIn : List Entry → Bytes → Option Handler
  | [], _ => none
  | e :: t, a => if e.hits a = true then some e.h else dispatchIn t a

theorem dispatch_eq_dispatchIn (a : Bytes) : dispatch a = dispatchIn table a := by
  unfold dispatch
  generalize table = tbl
  induction tbl with
  | nil => rfl
  | cons e t ih =>
    simp only [List.find?_cons, dispatchIn]
    cases h : e.hits a <;> simp [ih]

def view (o : Out Bool) : Config × Bool × Nat := (o.st.cfg, o.ret, o.k)
def viewS (s : StepOut) : Config × Bool × Nat := (s.cfg, s.good, kOf s.consumed)

theorem ite_ite_same {α : Type} (x y : Bool) (A B : α) :
    (if x = true then A else if y = true then A else B) = if (x || y) = true then A else B := by
  cases x <;> cases y <;> rfl



theorem chain_step {α β γ : Type} (f : α → γ) (g : β → γ) (c : Prop) [Decidable c] (A A' : α) (B B' : β)
    (h1 : f A = g B) (h2 : f A' = g B') : f (if c then A else A') = g (if c then B else B') := by
  by_cases h : c <;> simp [h, h1, h2]

def afterDispatch (env : Env) (c : Config) (a : Bytes) (next : Option Bytes) (d : Option Handler) : Config × Bool × Nat :=
  viewS (match d with
    | some h => runHandler env h c a next
    | none => ⟨c, false, false⟩)

theorem kOf_false : kOf false = 0 := rfl
theorem kOf_true : kOf true = 1 := rfl

theorem step_chain (env : Env) (c : Config) (a : Bytes) (next : Option Bytes) :
    viewS (step env c a next) = afterDispatch env c a next (dispatchIn table a) := by
  simp only [step, dispatch_eq_dispatchIn, afterDispatch]
  rfl

theorem parseBody_view (env : Env) (c : Config) (p : Bool) (a : Bytes) (rest : List Bytes) :
    view (Gen.ParseHandlers.parseBody env ⟨c, p⟩ (a :: rest) 0) = viewS (step env c a rest.head?) := by
  rw [step_chain]
  simp (config := { maxSteps := 2000000 }) only [table, dispatchIn, Entry.hits, ↓reduceIte, litTEST, litIGNORE]
  simp (config := { maxSteps := 2000000 }) only [Gen.ParseHandlers.parseBody, List.getD_cons_zero, setRepeatCount_eq, setShuffle_eq, addGroupFilter_eq,
    addStrictGroupFilter_eq, addExcludeGroupFilter_eq, addExcludeStrictGroupFilter_eq, addNameFilter_eq,
    addStrictNameFilter_eq, addExcludeNameFilter_eq, addExcludeStrictNameFilter_eq, addGroupDotNameFilter_eq,
    addTestToRunBasedOnVerboseOutput_eq, setOutputType_eq, setPackageName_eq]
  simp only [(by decide : (true == false) = false), (by decide : (false == false) = true), Bool.false_eq_true, ↓reduceIte]
  simp (config := { maxSteps := 2000000 }) only [ite_ite_same]
  repeat (
    refine chain_step view (afterDispatch env c a rest.head?) _ _ _ _ _ ?_ ?_
    · simp [view, viewS, afterDispatch, runHandler, kOf_false, kOf_true, CommandLine.setRepeatCount, addGroup, addName, addTestForm, CommandLine.setPackageName]
      try (split <;> simp_all))
  simp [view, viewS, afterDispatch, kOf_false]

theorem parseBody_k_le (env : Env) (c : Config) (p : Bool) (a : Bytes) (rest : List Bytes) :
    (Gen.ParseHandlers.parseBody env ⟨c, p⟩ (a :: rest) 0).k = kOf (step env c a rest.head?).consumed := by
  have := congrArg (·.2.2) (parseBody_view env c p a rest)
  simpa [view, viewS] using this

/-- `for (int i = 1; i < ac_; i++) { body }` of `parse` with the regenerated body: `rest` = av[i..ac), the body
    reports how far it advanced `i` itself (`k`), the loop header adds one.  `fuel` bounds the
    number of iterations (every iteration removes at least one argument). -/
def genLoop (env : Env) : Nat → St → List Bytes → ParseResult
  | _, s, [] => .ok s.cfg
  | 0, s, _ :: _ => .ok s.cfg
  | fuel + 1, s, a :: rest =>
    if (Gen.ParseHandlers.parseBody env s (a :: rest) 0).ret
    then genLoop env fuel (Gen.ParseHandlers.parseBody env s (a :: rest) 0).st
           ((a :: rest).drop ((Gen.ParseHandlers.parseBody env s (a :: rest) 0).k + 1))
    else .reject (Gen.ParseHandlers.parseBody env s (a :: rest) 0).st.cfg

/-- `CommandLineArguments(ac, av).parse(plugin)` assembled from the regenerated pieces -/
def genParse (env : Env) (argv : List Bytes) : ParseResult :=
  genLoop env argv.tail.length ⟨initialConfig, initialPreSeeded⟩ argv.tail

theorem genLoop_eq_go (env : Env) : ∀ (fuel : Nat) (s : St) (rest : List Bytes), rest.length ≤ fuel →
    genLoop env fuel s rest = go env s.cfg false rest := by
  intro fuel
  induction fuel with
  | zero =>
    intro s rest h
    cases rest with
    | nil => simp [genLoop, go]
    | cons a r => simp at h
  | succ f ih =>
    intro s rest h
    cases rest with
    | nil => simp [genLoop, go]
    | cons a r =>
      obtain ⟨c, p⟩ := s
      have hv := parseBody_view env c p a r
      have hc : (Gen.ParseHandlers.parseBody env ⟨c, p⟩ (a :: r) 0).st.cfg = (step env c a r.head?).cfg := by
        simpa [view, viewS] using congrArg (·.1) hv
      have hg : (Gen.ParseHandlers.parseBody env ⟨c, p⟩ (a :: r) 0).ret = (step env c a r.head?).good := by
        simpa [view, viewS] using congrArg (·.2.1) hv
      have hk := parseBody_k_le env c p a r
      simp only [genLoop, go, hg, hk]
      cases hgood : (step env c a r.head?).good with
      | false => simp [hc]
      | true =>
        simp only [if_true]
        cases hcons : (step env c a r.head?).consumed with
        | false =>
          simp only [kOf, Bool.false_eq_true, if_false, Nat.zero_add, List.drop_succ_cons, List.drop_zero]
          rw [ih _ r (by simpa using h), hc]
        | true =>
          simp only [kOf, if_true, List.drop_succ_cons]
          cases r with
          | nil => cases f <;> simp [genLoop, go, hc]
          | cons b r' =>
            simp only [List.drop_succ_cons, List.drop_zero, go]
            rw [ih _ r' (by simp at h; omega), hc]

/-- **The regenerated source is the model.**  `parse` assembled from the statement-level translation of
    `CommandLineArguments.cpp` (loop frame + loop body + every helper) computes exactly the hand-written model
    on every argument vector. -/
theorem genParse_eq_parse (env : Env) (argv : List Bytes) : genParse env argv = parse env argv := by
  unfold genParse parse
  rw [genLoop_eq_go env _ _ _ (Nat.le_refl _)]
  rfl

/-- the constructor's initialiser list sets up the model's default configuration -/
theorem initialConfig_eq : initialConfig = ({} : Config) := rfl

def toModelEv : Gen.ParseHandlers.OutEv → CommandLine.OutEv
  | .console => .console
  | .junit p => .junit p
  | .teamcity => .teamcity
  | .composite => .composite

/-- `CommandLineTestRunner::parseArguments` (regenerated): the outputs it creates for an accepted configuration are
    the model's `outputsOf` -/
theorem createdOutputs_eq (c : Config) : (createdOutputs c).map toModelEv = outputsOf c := by
  unfold createdOutputs outputsOf
  cases ho : c.output <;> cases hv : c.verbose <;> cases hvv : c.veryVerbose <;> simp [toModelEv] <;> decide

/-! ## the runner: `initializeTestRun` and `runAllTests` (regenerated as event lists) are the model's runner -/

def evCall : Ev → Option RegCall
  | .separateProcess => some .separateProcess
  | .listGroups => some .listGroups
  | .listNames => some .listNames
  | .listLocations => some .listLocations
  | .reverse => some .reverse
  | .shuffle s => some (.shuffle s)
  | .runAll => some .runAll
  | .setGroupFilters | .setNameFilters | .verbose _ | .color | .runIgnored | .crashOnFail | .rethrow _
  | .print _ | .printNum _ | .printTestRun _ _ => none

theorem filterMap_flatMap_range {β : Type} (g : Ev → Option β) (f : Nat → List Ev) (h : Nat → List β)
    (hf : ∀ j, (f j).filterMap g = h j) :
    ∀ n, ((List.range n).flatMap f).filterMap g = (List.range n).flatMap h := by
  intro n
  induction n with
  | zero => rfl
  | succ n ih => simp [List.range_succ, List.flatMap_append, List.filterMap_append, ih, hf]

theorem loopCalls_eq (c : Config) : ∀ n, loopCalls c n =
    (List.range n).flatMap (fun _ => if c.shuffling then [RegCall.shuffle c.shuffleSeed, .runAll] else [.runAll]) := by
  intro n
  induction n with
  | zero => rfl
  | succ n ih =>
    rw [loopCalls, ih]
    generalize (if c.shuffling then [RegCall.shuffle c.shuffleSeed, .runAll] else [.runAll]) = X
    clear ih
    induction n with
    | zero => simp
    | succ m ihm =>
      rw [List.range_succ, List.flatMap_append, ← List.append_assoc, ihm, List.range_succ (n := m + 1)]
      simp [List.flatMap_append, List.range_succ]

theorem init_calls_eq (c : Config) : (Gen.ParseHandlers.initializeTestRun c).filterMap evCall = initCalls c := by
  simp only [Gen.ParseHandlers.initializeTestRun, initCalls]
  cases c.verbose <;> cases c.veryVerbose <;> cases c.color <;> cases c.separateProcess <;> cases c.runIgnored <;>
    cases c.crashOnFail <;> rfl

/-- **the calls `runAllTests` makes to the registry** (regenerated from the source, with `initializeTestRun` inlined)
    are the model's, for every configuration -/
theorem runner_calls_eq (ps : List ProbeTest) (c : Config) :
    (runner ps (.ok c)).calls =
      [.install nameSetPointer] ++ (Gen.ParseHandlers.runAllTests c).filterMap evCall ++ [.remove nameSetPointer] := by
  have hloop := filterMap_flatMap_range evCall
    (fun j => let loopCount := j + 1
      (if c.shuffling then [Ev.shuffle c.shuffleSeed] else []) ++ [Ev.printTestRun loopCount c.repeatCount, Ev.runAll])
    (fun _ => if c.shuffling then [RegCall.shuffle c.shuffleSeed, .runAll] else [.runAll])
    (by intro j; by_cases h : c.shuffling = true <;> simp [h, evCall] <;> rfl) c.repeatCount
  simp only [Gen.ParseHandlers.runAllTests, runner, loopCalls_eq, List.filterMap_append, init_calls_eq]
  by_cases h1 : c.listGroups = true
  · simp [h1, evCall]
  by_cases h2 : c.listNames = true
  · simp [h1, h2, evCall]
  by_cases h3 : c.listLocations = true
  · simp [h1, h2, h3, evCall]
  simp only [h1, h2, h3, Bool.false_eq_true, if_false, List.filterMap_append, List.append_nil, hloop]
  by_cases h4 : c.reversing = true <;> by_cases h5 : c.shuffling = true <;> simp [h4, h5, evCall]

/-- what `initializeTestRun` switches on: console verbosity and colour, registry flags, the two static switches -/
structure InitState where
  verbosity       : Nat := 0
  color           : Bool := false
  separateProcess : Bool := false
  runIgnored      : Bool := false
  crashOnFail     : Bool := false
  rethrow         : Bool := false
deriving DecidableEq, Repr

def applyEv (s : InitState) : Ev → InitState
  | .verbose l => { s with verbosity := l }
  | .color => { s with color := true }
  | .separateProcess => { s with separateProcess := true }
  | .runIgnored => { s with runIgnored := true }
  | .crashOnFail => { s with crashOnFail := true }
  | .rethrow b => { s with rethrow := b }
  | .setGroupFilters | .setNameFilters | .listGroups | .listNames | .listLocations | .reverse | .print _ | .printNum _
  | .shuffle _ | .printTestRun _ _ | .runAll => s

/-- `initializeTestRun` (regenerated) applies every flag of the configuration: `-vv` wins over `-v` because its
    statement comes second -/
theorem init_effects_eq (c : Config) :
    (Gen.ParseHandlers.initializeTestRun c).foldl applyEv {} =
      ⟨verbosityOf c, c.color, c.separateProcess, c.runIgnored, c.crashOnFail, c.rethrow⟩ := by
  simp only [Gen.ParseHandlers.initializeTestRun, verbosityOf]
  cases c.verbose <;> cases c.veryVerbose <;> cases c.color <;> cases c.separateProcess <;> cases c.runIgnored <;>
    cases c.crashOnFail <;> rfl

def evPrinted : Ev → Option String
  | .print s => some s
  | .printNum n => some (toString n)
  | .setGroupFilters | .setNameFilters | .verbose _ | .color | .separateProcess | .runIgnored | .crashOnFail | .rethrow _
  | .listGroups | .listNames | .listLocations | .reverse | .shuffle _ | .printTestRun _ _ | .runAll => none

def evHeader : Ev → Option (Nat × Nat)
  | .printTestRun i n => some (i, n)
  | .setGroupFilters | .setNameFilters | .verbose _ | .color | .separateProcess | .runIgnored | .crashOnFail | .rethrow _
  | .listGroups | .listNames | .listLocations | .reverse | .shuffle _ | .print _ | .printNum _ | .runAll => none

theorem flatMap_const_nil {α β : Type} (l : List α) : (l.flatMap fun _ => ([] : List β)) = [] := by
  induction l <;> simp_all

theorem flatMap_singleton_eq_map {α β : Type} (f : α → β) (l : List α) : (l.flatMap fun x => [f x]) = l.map f := by
  induction l <;> simp_all

theorem init_prints_nothing (c : Config) :
    (Gen.ParseHandlers.initializeTestRun c).filterMap evPrinted = [] ∧
    (Gen.ParseHandlers.initializeTestRun c).filterMap evHeader = [] := by
  simp only [Gen.ParseHandlers.initializeTestRun]
  cases c.verbose <;> cases c.veryVerbose <;> cases c.color <;> cases c.separateProcess <;> cases c.runIgnored <;>
    cases c.crashOnFail <;> exact ⟨rfl, rfl⟩

/-- what `runAllTests` (regenerated) prints itself: the seed line, once, iff shuffling and no list mode -/
theorem runner_prints_eq (c : Config) :
    (Gen.ParseHandlers.runAllTests c).filterMap evPrinted =
      if c.shuffling && !listing c then ["Test order shuffling enabled with seed: ", toString c.shuffleSeed, "\n"] else [] := by
  have hloop := filterMap_flatMap_range evPrinted
    (fun j => let loopCount := j + 1
      (if c.shuffling then [Ev.shuffle c.shuffleSeed] else []) ++ [Ev.printTestRun loopCount c.repeatCount, Ev.runAll])
    (fun _ => []) (by intro j; by_cases h : c.shuffling = true <;> simp [h, evPrinted]) c.repeatCount
  simp only [Gen.ParseHandlers.runAllTests, List.filterMap_append, (init_prints_nothing c).1, listing]
  by_cases h1 : c.listGroups = true
  · simp [h1, evPrinted]
  by_cases h2 : c.listNames = true
  · simp [h1, h2, evPrinted]
  by_cases h3 : c.listLocations = true
  · simp [h1, h2, h3, evPrinted]
  simp only [h1, h2, h3, Bool.false_eq_true, if_false, List.filterMap_append, List.append_nil, hloop]
  by_cases h4 : c.reversing = true <;> by_cases h5 : c.shuffling = true <;> simp [h4, h5, evPrinted, flatMap_const_nil]

theorem evHeader_reverse : [Ev.reverse].filterMap evHeader = [] := rfl
theorem evHeader_seed (a b : String) (n : Nat) : [Ev.print a, .printNum n, .print b].filterMap evHeader = [] := rfl
theorem evHeader_body1 (s i n : Nat) : [Ev.shuffle s, .printTestRun i n, .runAll].filterMap evHeader = [(i, n)] := rfl
theorem evHeader_body0 (i n : Nat) : [Ev.printTestRun i n, .runAll].filterMap evHeader = [(i, n)] := rfl
theorem evHeader_list (e : Ev) (h : e = .listGroups ∨ e = .listNames ∨ e = .listLocations) : [e].filterMap evHeader = [] := by
  rcases h with rfl | rfl | rfl <;> rfl

/-- `printTestRun(i, n)` is called for i = 1 … n, n = the repeat count, unless a list mode returned early -/
theorem runner_headers_eq (c : Config) :
    (Gen.ParseHandlers.runAllTests c).filterMap evHeader =
      if listing c then [] else runHeadersFrom c.repeatCount 1 c.repeatCount := by
  have hloop := filterMap_flatMap_range evHeader
    (fun j => let loopCount := j + 1
      (if c.shuffling then [Ev.shuffle c.shuffleSeed] else []) ++ [Ev.printTestRun loopCount c.repeatCount, Ev.runAll])
    (fun j => [(j + 1, c.repeatCount)]) (by intro j; by_cases h : c.shuffling = true <;> simp [h, evHeader_body1, evHeader_body0]) c.repeatCount
  simp only [Gen.ParseHandlers.runAllTests, List.filterMap_append, (init_prints_nothing c).2, listing]
  by_cases h1 : c.listGroups = true
  · simp [h1, evHeader_list]
  by_cases h2 : c.listNames = true
  · simp [h1, h2, evHeader_list]
  by_cases h3 : c.listLocations = true
  · simp [h1, h2, h3, evHeader_list]
  simp only [h1, h2, h3, Bool.false_eq_true, if_false, List.filterMap_append, List.append_nil, hloop, Bool.or_self]
  rw [runHeadersFrom_eq]
  by_cases h4 : c.reversing = true <;> by_cases h5 : c.shuffling = true <;>
    simp [h4, h5, evHeader_reverse, evHeader_seed, flatMap_singleton_eq_map, Nat.add_comm]

end Src
end CommandLine
