import CppUModel.Proofs.CString
import CppUModel.Model.SimpleString
/-!
# `SimpleString` methods equal their textbook meaning — helper lemmas and refinement proofs

Shape of every lemma: for objects that hold NUL-free strings (`Holds o a`), the model of the
method, run in ANY world `w`, returns `.ok (result, w')` where the result holds the value of the
textbook definition and `w'` is `w` plus an explicit list of allocator events
(`World.alloc` / `World.free`).  So each lemma gives at once: value, memory safety (no
`.error`), termination, and the exact allocations/releases — which the pairing theorems consume.
-/
namespace SStr
open CStr Text TextExt

/-! ### running the monad -/

@[simp] theorem pure_run {α} (a : α) (w : World) : (pure a : M α) w = .ok (a, w) := rfl
@[simp] theorem bind_run {α β} (x : M α) (f : α → M β) (w : World) :
    (x >>= f) w = match x w with | .error e => .error e | .ok (a, w') => f a w' := rfl
@[simp] theorem liftE_ok {α} (a : α) (w : World) : liftE (.ok a : Except Err α) w = .ok (a, w) := rfl
@[simp] theorem liftE_error {α} (e : Err) (w : World) : liftE (.error e : Except Err α) w = .error e := rfl

/-- the world after `allocStringBuffer n` -/
def World.alloc (w : World) (n : Nat) : World :=
  { w with next := w.next + 1, log := w.log ++ [.alloc w.next n] }
/-- the world after `deallocStringBuffer id n` -/
def World.free (w : World) (id n : Nat) : World := { w with log := w.log ++ [.free id n] }

@[simp] theorem alloc_next (w : World) (n) : (w.alloc n).next = w.next + 1 := rfl
@[simp] theorem alloc_junk (w : World) (n) : (w.alloc n).junk = w.junk := rfl
@[simp] theorem alloc_vsn (w : World) (n) : (w.alloc n).vsn = w.vsn := rfl
@[simp] theorem alloc_log (w : World) (n) : (w.alloc n).log = w.log ++ [.alloc w.next n] := rfl
@[simp] theorem free_next (w : World) (i n) : (w.free i n).next = w.next := rfl
@[simp] theorem free_junk (w : World) (i n) : (w.free i n).junk = w.junk := rfl
@[simp] theorem free_vsn (w : World) (i n) : (w.free i n).vsn = w.vsn := rfl
@[simp] theorem free_log (w : World) (i n) : (w.free i n).log = w.log ++ [.free i n] := rfl

@[simp] theorem allocStringBuffer_run (n : Nat) (w : World) :
    allocStringBuffer n w = .ok (⟨w.next, List.replicate n w.junk⟩, w.alloc n) := rfl
@[simp] theorem deallocStringBuffer_run (i n : Nat) (w : World) :
    deallocStringBuffer i n w = .ok ((), w.free i n) := rfl
@[simp] theorem dtor_run (o : Obj) (w : World) : dtor o w = .ok ((), w.free o.id o.size) := rfl

/-! ### objects holding strings -/

/-- the object's buffer holds the C string `a` -/
def Holds (o : Obj) (a : Bytes) : Prop := CAt o.buf 0 a

/-- the recorded size is the size of the buffer -/
def Sized (o : Obj) : Prop := o.size = o.buf.length

/-- an exact-size object -/
def mkObj (id : Nat) (a : Bytes) : Obj := ⟨id, a ++ [0], a.length + 1⟩

@[simp] theorem mkObj_id (i a) : (mkObj i a).id = i := rfl
@[simp] theorem mkObj_buf (i a) : (mkObj i a).buf = a ++ [0] := rfl
@[simp] theorem mkObj_size (i a) : (mkObj i a).size = a.length + 1 := rfl

theorem holds_mkObj {i : Nat} {a : Bytes} (h : NulFree a) : Holds (mkObj i a) a := CAt.mk_cz h
theorem sized_mkObj (i : Nat) (a : Bytes) : Sized (mkObj i a) := by simp [Sized]

theorem Holds.nulFree {o a} (h : Holds o a) : NulFree a := h.1

theorem Holds.unique {o a a'} (h : Holds o a) (h' : Holds o a') : a = a' := CAt.unique h h'

theorem size_ok {o : Obj} {a : Bytes} (h : Holds o a) : size o = .ok a.length := StrLen_ok h

theorem emptyLit_at : CAt emptyLit 0 [] := ⟨nulFree_nil, [], rfl⟩

/-! ### buffer management, constructors, assignment -/

theorem take_cz_full (a : Bytes) : (cz a).take (a.length + 1) = a ++ [0] := by
  simp [cz, List.take_of_length_le]

theorem copyToNewBuffer_exact {src : Buf} {sp : Nat} {a : Bytes} (h : CAt src sp a) (w : World) :
    copyToNewBuffer src sp (a.length + 1) w = .ok (⟨w.next, a ++ [0]⟩, w.alloc (a.length + 1)) := by
  have h1 := StrNCpy_front (dst := List.replicate (a.length + 1) w.junk) (n := a.length + 1) h (by simp)
  simp only [copyToNewBuffer, bind_run, allocStringBuffer_run, h1, liftE_ok]
  have : TextExt.strNCpy (List.replicate (a.length + 1) w.junk) a (a.length + 1) = a ++ [0] := by
    simp [TextExt.strNCpy, take_cz_full]
  simp [this, wr]

/-- a larger buffer: the string, its terminator and `n - (|a|+1)` bytes of slack -/
theorem copyToNewBuffer_ge {src : Buf} {sp n : Nat} {a : Bytes} (h : CAt src sp a) (hn : a.length + 1 ≤ n)
    (w : World) :
    ∃ slack, slack.length = n - (a.length + 1) ∧
      copyToNewBuffer src sp n w = .ok (⟨w.next, a ++ 0 :: slack⟩, w.alloc n) := by
  have h1 := StrNCpy_front (dst := List.replicate n w.junk) (n := n) h (by simp; omega)
  simp only [copyToNewBuffer, bind_run, allocStringBuffer_run, h1, liftE_ok]
  have e : TextExt.strNCpy (List.replicate n w.junk) a n = a ++ 0 :: List.replicate (n - (a.length + 1)) w.junk := by
    have : min n (a.length + 1) = a.length + 1 := by omega
    simp only [TextExt.strNCpy, this, cz]
    rw [List.take_of_length_le (by simp; omega)]
    simp
  rw [e]
  have hlen : n - 1 < (a ++ 0 :: List.replicate (n - (a.length + 1)) w.junk).length := by simp; omega
  simp only [wr, hlen, if_true, liftE_ok, pure_run]
  rw [List.set_append]
  have : ¬ (n - 1 < a.length) := by omega
  simp only [this, if_false]
  cases hk : n - 1 - a.length with
  | zero => exact ⟨List.replicate (n - (a.length + 1)) w.junk, by simp, by simp⟩
  | succ k => exact ⟨(List.replicate (n - (a.length + 1)) w.junk).set k 0, by simp, by simp⟩

theorem ctorCStr_ok {src : Buf} {sp : Nat} {a : Bytes} (h : CAt src sp a) (w : World) :
    ctorCStr src sp w = .ok (mkObj w.next a, w.alloc (a.length + 1)) := by
  simp only [ctorCStr, bind_run, StrLen_ok h, liftE_ok, copyBufferToNewInternalBuffer, deallocateInternalBuffer,
    pure_run, copyToNewBuffer_exact h, mkObj]

theorem ctorEmpty_ok (w : World) : ctorCStr emptyLit 0 w = .ok (mkObj w.next [], w.alloc 1) :=
  ctorCStr_ok emptyLit_at w

theorem ctorNull_ok (w : World) : ctorNull w = .ok (mkObj w.next [], w.alloc 1) := by
  simp [ctorNull, setInternalBufferAsEmptyString, getEmptyString, deallocateInternalBuffer, wr, mkObj]

theorem ctorCopy_ok {o : Obj} {a : Bytes} (h : Holds o a) (w : World) :
    ctorCopy o w = .ok (mkObj w.next a, w.alloc (a.length + 1)) := ctorCStr_ok h w

theorem ctorCopy_ok' {i s : Nat} {b : Buf} {a : Bytes} (h : CAt b 0 a) (w : World) :
    ctorCopy ⟨i, b, s⟩ w = .ok (mkObj w.next a, w.alloc (a.length + 1)) := ctorCStr_ok h w

theorem assign_ok {other : Obj} {a : Bytes} (self : Obj) (h : Holds other a) (w : World) :
    assign self other w =
      .ok (mkObj w.next a, (w.free self.id self.size).alloc (a.length + 1)) := by
  simp only [assign, bind_run, size_ok h, liftE_ok, copyBufferToNewInternalBuffer, deallocateInternalBuffer,
    deallocStringBuffer_run, copyToNewBuffer_exact h, pure_run, mkObj, free_next]

/-! ### concatenation -/

theorem appendC_ok {self : Obj} {a : Bytes} {rhs : Buf} {rp : Nat} {r : Bytes}
    (h : Holds self a) (hr : CAt rhs rp r) (w : World) :
    appendC self rhs rp w =
      .ok (⟨w.next, a ++ r ++ [0], a.length + (r.length + 1)⟩,
           (w.alloc (a.length + (r.length + 1))).free self.id self.size) := by
  obtain ⟨slack, hsl, hc⟩ := copyToNewBuffer_ge (n := a.length + (r.length + 1)) h (by omega) w
  simp only [appendC, bind_run, size_ok h, liftE_ok, StrLen_ok hr, hc]
  have hcp := StrNCpy_ok_aux (r.length + 1) r rhs rp a (0 :: slack) [] hr (by simp; omega)
  simp only [List.append_nil] at hcp
  rw [hcp]
  simp [setInternalBufferTo, deallocateInternalBuffer, take_cz_full]

theorem holds_append {i n : Nat} {a r : Bytes} (ha : NulFree a) (hr : NulFree r) :
    Holds ⟨i, a ++ r ++ [0], n⟩ (a ++ r) := CAt.mk_cz (nulFree_append.mpr ⟨ha, hr⟩)

theorem plus_ok {self rhs : Obj} {a b : Bytes} (h : Holds self a) (hb : Holds rhs b) (w : World) :
    plus self rhs w =
      .ok (⟨w.next + 1, a ++ b ++ [0], a.length + (b.length + 1)⟩,
           ((w.alloc (a.length + 1)).alloc (a.length + (b.length + 1))).free w.next (a.length + 1)) := by
  simp only [plus, bind_run, ctorCStr_ok h]
  rw [appendC_ok (holds_mkObj h.nulFree) hb]
  simp

/-! ### comparisons and searches -/

theorem equals_ok {l r : Obj} {a b : Bytes} (hl : Holds l a) (hr : Holds r b) :
    equals l r = .ok (decide (a = b)) := by
  simp only [equals, StrCmp_ok hl hr]
  have := cmp_eq_zero_iff hl.nulFree hr.nulFree
  by_cases hab : a = b
  · subst hab; simp [cmp_self]
  · have : Text.cmp a b ≠ 0 := fun h => hab (this.mp h)
    simp [hab, this]

theorem contains_ok {self other : Obj} {a b : Bytes} (h : Holds self a) (hb : Holds other b) :
    contains self other = .ok (Text.isInfix a b) := by
  simp only [contains, StrStr_ok h hb, ← strStr_isSome_eq_isInfix]
  cases TextExt.strStr a b <;> rfl

theorem strStr_zero_iff (a b : Bytes) : TextExt.strStr a b = some 0 ↔ b.isPrefixOf a = true := by
  rw [strStr_some_iff]
  simp

theorem startsWith_ok {self other : Obj} {a b : Bytes} (h : Holds self a) (hb : Holds other b) :
    startsWith self other = .ok (Text.startsWith a b) := by
  simp only [startsWith, size_ok h, size_ok hb, StrStr_ok h hb]
  cases b with
  | nil => simp [Text.startsWith]
  | cons y b =>
    cases a with
    | nil => simp [Text.startsWith]
    | cons x a =>
      simp only [List.length_cons, Nat.add_eq_zero_iff, Nat.succ_ne_zero, and_false, if_false, Text.startsWith]
      have := strStr_zero_iff (x :: a) (y :: b)
      cases hs : TextExt.strStr (x :: a) (y :: b) with
      | none =>
        have : ¬ ((y :: b).isPrefixOf (x :: a) = true) := fun hp => by rw [this.mpr hp] at hs; cases hs
        simp [Bool.eq_false_iff.mpr this]
      | some i =>
        by_cases hi : i = 0
        · subst hi; simp [this.mp hs]
        · have : ¬ ((y :: b).isPrefixOf (x :: a) = true) := fun hp => by
            rw [this.mpr hp] at hs; injection hs with hs; exact hi hs.symm
          simp [Bool.eq_false_iff.mpr this, hi]

theorem endsWith_iff (a b : Bytes) :
    Text.endsWith a b = true ↔ b.length ≤ a.length ∧ a.drop (a.length - b.length) = b := by
  simp only [Text.endsWith, List.isPrefixOf_iff_prefix, List.reverse_prefix]
  constructor
  · intro h
    exact ⟨h.length_le, (List.suffix_iff_eq_drop.mp h).symm⟩
  · rintro ⟨_, h⟩
    rw [← h]; exact List.drop_suffix _ _

theorem endsWith_ok {self other : Obj} {a b : Bytes} (h : Holds self a) (hb : Holds other b) :
    endsWith self other = .ok (Text.endsWith a b) := by
  simp only [endsWith, size_ok h, size_ok hb]
  by_cases hb0 : b.length = 0
  · have : b = [] := List.eq_nil_of_length_eq_zero hb0
    subst this; simp [Text.endsWith]
  · simp only [hb0, if_false]
    by_cases ha0 : a.length = 0
    · have : a = [] := List.eq_nil_of_length_eq_zero ha0
      subst this
      have : Text.endsWith [] b = false := by
        apply Bool.eq_false_iff.mpr; intro h'
        have h1 := ((endsWith_iff [] b).mp h').1; simp only [List.length_nil] at h1; omega
      simp [this]
    · simp only [ha0, if_false]
      by_cases hlt : a.length < b.length
      · have : Text.endsWith a b = false := by
          apply Bool.eq_false_iff.mpr; intro h'; have := (endsWith_iff a b).mp h'; omega
        simp [hlt, this]
      · simp only [hlt, if_false]
        have hd := CAt.drop h (a.length - b.length) (by omega)
        simp only [Nat.zero_add] at hd
        rw [StrCmp_ok hd hb]
        have hz := cmp_eq_zero_iff (nulFree_drop h.nulFree (a.length - b.length)) hb.nulFree
        by_cases he : a.drop (a.length - b.length) = b
        · have : Text.endsWith a b = true := (endsWith_iff a b).mpr ⟨by omega, he⟩
          simp [this, hz.mpr he]
        · have h1 : Text.endsWith a b = false := by
            apply Bool.eq_false_iff.mpr; intro h'; exact he ((endsWith_iff a b).mp h').2
          have h2 : Text.cmp (a.drop (a.length - b.length)) b ≠ 0 := fun hc => he (hz.mp hc)
          simp [h1, h2]

/-! #### count -/

theorem count_eq_zero_of_strStr_none : ∀ (s b : Bytes), TextExt.strStr s b = none → Text.count s b = 0
  | [], _, _ => rfl
  | x :: t, b, h => by
    by_cases hp : b.isPrefixOf (x :: t) = true
    · simp [TextExt.strStr, hp] at h
    · simp only [TextExt.strStr, hp, Bool.false_eq_true, if_false, Option.map_eq_none_iff] at h
      simp [Text.count, hp, count_eq_zero_of_strStr_none t b h]

theorem count_of_strStr_some : ∀ (s b : Bytes) (i : Nat), s ≠ [] → TextExt.strStr s b = some i →
    i < s.length ∧ Text.count s b = 1 + Text.count (s.drop (i + 1)) b
  | [], _, _, hne, _ => absurd rfl hne
  | x :: t, b, i, _, h => by
    by_cases hp : b.isPrefixOf (x :: t) = true
    · simp only [TextExt.strStr, hp, if_true, Option.some.injEq] at h
      subst h
      simp [Text.count, hp]
    · simp only [TextExt.strStr, hp, Bool.false_eq_true, if_false, Option.map_eq_some_iff] at h
      obtain ⟨k, hk, rfl⟩ := h
      have hne : t ≠ [] := by
        intro ht; subst ht
        cases b with
        | nil => simp at hp
        | cons y b => simp [TextExt.strStr] at hk
      have ⟨h1, h2⟩ := count_of_strStr_some t b k hne hk
      refine ⟨by simp; omega, ?_⟩
      simp [Text.count, hp, h2]

theorem countLoop_ok : ∀ (f : Nat) (s : Bytes) (buf sub : Buf) (b : Bytes) (str num : Nat),
    CAt buf str s → CAt sub 0 b → s.length < f →
    countLoop buf sub f str ((TextExt.strStr s b).map (· + str)) num = .ok (num + Text.count s b)
  | 0, _, _, _, _, _, _, _, _, hf => by simp at hf
  | f + 1, [], buf, sub, b, str, num, hs, hb, _ => by
    simp [countLoop, hs.nil_rd, Text.count]
  | f + 1, x :: t, buf, sub, b, str, num, hs, hb, hf => by
    have hx := hs.cons_ne
    simp only [countLoop, hs.cons_rd, hx, if_false]
    cases hst : TextExt.strStr (x :: t) b with
    | none => simp [count_eq_zero_of_strStr_none _ _ hst]
    | some i =>
      have ⟨hi, hc⟩ := count_of_strStr_some (x :: t) b i (by simp) hst
      have hd := CAt.drop hs (i + 1) (by omega)
      simp only [Option.map_some]
      have e : i + str + 1 = str + (i + 1) := by omega
      rw [e, StrStr_ok hd hb]
      simp only []
      rw [countLoop_ok f ((x :: t).drop (i + 1)) buf sub b (str + (i + 1)) (num + 1) hd hb (by
        simp at hf ⊢; omega), hc]
      congr 1; omega

theorem count_ok {self substr : Obj} {a b : Bytes} (h : Holds self a) (hb : Holds substr b) :
    count self substr = .ok (Text.count a b) := by
  cases a with
  | nil => simp [count, h.nil_rd, Text.count]
  | cons x t =>
    have hx := h.cons_ne
    simp only [count, h.cons_rd, hx, if_false, StrStr_ok h hb]
    have := countLoop_ok (self.buf.length + 1) (x :: t) self.buf substr.buf b 0 0 h hb (by
      have := h.length_lt; omega)
    simpa using this

/-! #### find / at -/

theorem findFromLoop_ok : ∀ (s : Bytes) (buf : Buf) (ch : UInt8) (i : Nat), CAt buf i s →
    findFromLoop buf ch s.length i =
      .ok (match s.findIdx? (· == ch) with | some j => j + i | none => npos)
  | [], _, _, _, _ => by simp [findFromLoop]
  | x :: t, buf, ch, i, h => by
    simp only [List.length_cons, findFromLoop, h.cons_rd, List.findIdx?_cons]
    by_cases hc : x = ch
    · simp [hc]
    · have : (x == ch) = false := by simpa using hc
      simp only [hc, if_false, this, Bool.false_eq_true]
      rw [findFromLoop_ok t buf ch (i + 1) h.tail]
      cases t.findIdx? (· == ch) <;> simp; omega

theorem findFrom_ok {self : Obj} {a : Bytes} (h : Holds self a) (start : Nat) (ch : UInt8) :
    findFrom self start ch = .ok ((Text.findFrom a start ch).getD npos) := by
  simp only [findFrom, size_ok h]
  by_cases hs : start ≤ a.length
  · have hd := CAt.drop h start hs
    simp only [Nat.zero_add] at hd
    have := findFromLoop_ok (a.drop start) self.buf ch start hd
    simp only [List.length_drop] at this
    rw [this, Text.findFrom]
    cases (a.drop start).findIdx? (· == ch) <;> simp
  · have h0 : a.length - start = 0 := by omega
    have : a.drop start = [] := List.drop_eq_nil_of_le (by omega)
    simp [h0, findFromLoop, Text.findFrom, this]

theorem find_ok {self : Obj} {a : Bytes} (h : Holds self a) (ch : UInt8) :
    find self ch = .ok ((Text.find a ch).getD npos) := findFrom_ok h 0 ch

theorem at_ok {self : Obj} {a : Bytes} (h : Holds self a) (pos : Nat) (hp : pos ≤ a.length) :
    at_ self pos = .ok ((cz a).getD pos 0) := by
  obtain ⟨_, post, hd⟩ := h
  simp only [List.drop_zero] at hd
  have hl : pos < (cz a).length := by simp [cz]; omega
  simp only [at_, rd, hd]
  have : (a ++ 0 :: post)[pos]? = (cz a)[pos]? := by
    have e : a ++ 0 :: post = cz a ++ post := by simp [cz]
    rw [e, List.getElem?_append_left hl]
  rw [this, List.getElem?_eq_getElem hl]
  simp [List.getD, List.getElem?_eq_getElem hl]

/-! ### substrings -/

/-- cutting an exact buffer at `n` -/
theorem cat_set_zero {s : Bytes} (hs : NulFree s) {n : Nat} (hn : n < s.length) :
    CAt ((s ++ [0]).set n 0) 0 (s.take n) := by
  refine ⟨nulFree_take hs n, (s.drop (n + 1)) ++ [0], ?_⟩
  rw [List.set_append]
  simp only [hn, if_true, List.drop_zero]
  rw [List.set_eq_take_append_cons_drop]
  simp [hn]

theorem subString_ok {self : Obj} {a : Bytes} (h : Holds self a) (beginPos amount : Nat) (w : World) :
    subString self beginPos amount w =
      if beginPos ≥ a.length then .ok (mkObj w.next [], w.alloc 1)
      else .ok (mkObj (w.next + 1) (Text.subString a beginPos amount),
                (((w.alloc ((a.drop beginPos).length + 1)).alloc ((Text.subString a beginPos amount).length + 1)).free
                  w.next ((a.drop beginPos).length + 1))) := by
  simp only [subString, bind_run, size_ok h, liftE_ok]
  by_cases hp : beginPos ≥ a.length
  · simp only [hp, if_true, ctorEmpty_ok]
  · simp only [hp, if_false]
    have hd := CAt.drop h beginPos (by omega)
    simp only [Nat.zero_add] at hd
    have hnf := nulFree_drop h.nulFree beginPos
    simp only [bind_run, ctorCStr_ok hd, size_ok (holds_mkObj hnf), liftE_ok]
    have hsub : Text.subString a beginPos amount = (a.drop beginPos).take amount := by
      simp [Text.subString]; omega
    by_cases hgt : (a.drop beginPos).length > amount
    · simp only [hgt, if_true, mkObj_buf]
      have hlen : amount < (a.drop beginPos ++ [0]).length := by simp at hgt ⊢; omega
      have hc := cat_set_zero hnf hgt
      simp only [wr, hlen, if_true, liftE_ok, bind_run]
      simp only [ctorCopy_ok' hc, hsub]
      simp
    · simp only [hgt, if_false, liftE_ok, bind_run]
      have htake : (a.drop beginPos).take amount = a.drop beginPos := List.take_of_length_le (by omega)
      simp only [mkObj_buf, ctorCopy_ok' (CAt.mk_cz hnf), hsub, htake]
      simp

/-- the value produced by `subString` is always the textbook one -/
theorem subString_spec {self : Obj} {a : Bytes} (h : Holds self a) (beginPos amount : Nat) (w : World) :
    ∃ r w', subString self beginPos amount w = .ok (r, w') ∧ Holds r (Text.subString a beginPos amount) ∧ Sized r := by
  rw [subString_ok h]
  by_cases hp : beginPos ≥ a.length
  · rw [if_pos hp]
    refine ⟨_, _, rfl, ?_, sized_mkObj _ _⟩
    have : Text.subString a beginPos amount = [] := by simp [Text.subString, hp]
    rw [this]; exact holds_mkObj nulFree_nil
  · rw [if_neg hp]
    refine ⟨_, _, rfl, holds_mkObj ?_, sized_mkObj _ _⟩
    simp only [Text.subString, hp, if_false]
    exact nulFree_take (nulFree_drop h.nulFree _) _

/-! ### replace(char, char), lowerCase -/

theorem replaceCharLoop_ok (to w : UInt8) : ∀ (s pre post : Bytes), NulFree s →
    replaceCharLoop to w s.length (pre ++ s ++ 0 :: post) pre.length =
      .ok (pre ++ Text.replaceByte s to w ++ 0 :: post)
  | [], pre, post, _ => by simp [replaceCharLoop, Text.replaceByte]
  | x :: t, pre, post, hs => by
    have e : pre ++ x :: t ++ 0 :: post = pre ++ x :: (t ++ 0 :: post) := by simp
    have hrd : rd (pre ++ x :: (t ++ 0 :: post)) pre.length = .ok x :=
      rd_of_drop (rest := t ++ 0 :: post) (by simp)
    have ih := replaceCharLoop_ok to w t (pre ++ [if x = to then w else x]) post (nulFree_cons.mp hs).2
    simp only [List.length_append, List.length_cons, List.length_nil, List.append_assoc, List.cons_append,
      List.nil_append, Nat.zero_add] at ih
    rw [e]
    simp only [List.length_cons, replaceCharLoop, hrd]
    by_cases hx : x = to
    · simp only [hx, if_true, wr_append]
      simp only [hx, if_true] at ih
      rw [ih]; simp [Text.replaceByte]
    · simp only [hx, if_false] at ih ⊢
      rw [ih]; simp [Text.replaceByte, hx]

theorem replaceChar_ok {self : Obj} {a : Bytes} (h : Holds self a) (to w : UInt8) :
    ∃ b, replaceChar self to w = .ok ⟨self.id, b, self.size⟩ ∧ b.length = self.buf.length ∧
      ∃ post, b = Text.replaceByte a to w ++ 0 :: post := by
  obtain ⟨hn, post, hd⟩ := h
  simp only [List.drop_zero] at hd
  have := replaceCharLoop_ok to w a [] post hn
  simp only [List.nil_append, List.length_nil] at this
  refine ⟨Text.replaceByte a to w ++ 0 :: post, ?_, ?_, post, rfl⟩
  · simp only [replaceChar, size_ok ⟨hn, post, by simpa using hd⟩, hd, this]
  · rw [hd]; simp [Text.replaceByte]

theorem replaceChar_holds {self : Obj} {a : Bytes} (h : Holds self a) (to w : UInt8) (hw : w ≠ 0) :
    ∃ r, replaceChar self to w = .ok r ∧ Holds r (Text.replaceByte a to w) ∧ r.id = self.id ∧ r.size = self.size ∧
      r.buf.length = self.buf.length := by
  obtain ⟨b, h1, h2, post, h3⟩ := replaceChar_ok h to w
  refine ⟨_, h1, ⟨?_, post, by simpa using h3⟩, rfl, rfl, h2⟩
  exact nulFree_map (fun c hc => by by_cases hct : c = to <;> simp [hct, hw, hc]) h.nulFree

theorem lowerLoop_ok : ∀ (s pre post : Bytes),
    lowerLoop s.length (pre ++ s ++ 0 :: post) pre.length = .ok (pre ++ Text.lower s ++ 0 :: post)
  | [], pre, post => by simp [lowerLoop, Text.lower]
  | x :: t, pre, post => by
    have e : pre ++ x :: t ++ 0 :: post = pre ++ x :: (t ++ 0 :: post) := by simp
    have hrd : rd (pre ++ x :: (t ++ 0 :: post)) pre.length = .ok x :=
      rd_of_drop (rest := t ++ 0 :: post) (by simp)
    have ih := lowerLoop_ok t (pre ++ [Text.lowerByte x]) post
    simp only [List.length_append, List.length_cons, List.length_nil, List.append_assoc, List.cons_append,
      List.nil_append, Nat.zero_add] at ih
    rw [e]
    simp only [List.length_cons, lowerLoop, hrd, wr_append, ToLower_eq_lowerByte]
    rw [ih]; simp [Text.lower]

theorem nulFree_lower {a : Bytes} (h : NulFree a) : NulFree (Text.lower a) :=
  nulFree_map lowerByte_ne_zero h

theorem lower_length (a : Bytes) : (Text.lower a).length = a.length := by simp [Text.lower]

theorem lowerCase_ok {self : Obj} {a : Bytes} (h : Holds self a) (w : World) :
    lowerCase self w = .ok (mkObj w.next (Text.lower a), w.alloc (a.length + 1)) := by
  simp only [lowerCase, bind_run, ctorCopy_ok h, size_ok (holds_mkObj h.nulFree), liftE_ok]
  have := lowerLoop_ok a [] []
  simp only [List.nil_append, List.length_nil] at this
  simp only [mkObj_buf, this, liftE_ok, pure_run]
  simp [mkObj, lower_length]

theorem equalsNoCase_ok {self str : Obj} {a b : Bytes} (h : Holds self a) (hb : Holds str b) (w : World) :
    equalsNoCase self str w =
      .ok (Text.equalsNoCase a b,
           (((w.alloc (b.length + 1)).alloc (a.length + 1)).free (w.next + 1) (a.length + 1)).free w.next (b.length + 1)) := by
  simp only [equalsNoCase, bind_run, lowerCase_ok hb, lowerCase_ok h,
    equals_ok (holds_mkObj (nulFree_lower h.nulFree)) (holds_mkObj (nulFree_lower hb.nulFree)), liftE_ok, dtor_run,
    pure_run, alloc_next, mkObj_id, mkObj_size, lower_length, Text.equalsNoCase]
  congr 2
  by_cases he : Text.lower a = Text.lower b <;> simp [he]

theorem containsNoCase_ok {self other : Obj} {a b : Bytes} (h : Holds self a) (hb : Holds other b) (w : World) :
    containsNoCase self other w =
      .ok (Text.containsNoCase a b,
           (((w.alloc (a.length + 1)).alloc (b.length + 1)).free (w.next + 1) (b.length + 1)).free w.next (a.length + 1)) := by
  simp only [containsNoCase, bind_run, lowerCase_ok hb, lowerCase_ok h,
    contains_ok (holds_mkObj (nulFree_lower h.nulFree)) (holds_mkObj (nulFree_lower hb.nulFree)), liftE_ok, dtor_run,
    pure_run, alloc_next, mkObj_id, mkObj_size, lower_length, Text.containsNoCase]



/-! ### subStringFromTill -/

theorem subString1_spec {self : Obj} {a : Bytes} (h : Holds self a) (hfit : a.length < npos) (beginPos : Nat) (hp : beginPos < a.length) (w : World) :
    ∃ r w', subString1 self beginPos w = .ok (r, w') ∧ Holds r (a.drop beginPos) ∧ Sized r := by
  obtain ⟨r, w', h1, h2, h3⟩ := subString_spec h beginPos npos w
  refine ⟨r, w', h1, ?_, h3⟩
  have : Text.subString a beginPos npos = a.drop beginPos := by
    simp only [Text.subString]
    rw [if_neg (by omega), List.take_of_length_le (by simp; omega)]
  rwa [this] at h2

theorem findFrom_lt {a : Bytes} {start : Nat} {c : UInt8} {j : Nat} (h : Text.findFrom a start c = some j) :
    start ≤ j ∧ j < a.length := by
  simp only [Text.findFrom, Option.map_eq_some_iff] at h
  obtain ⟨k, hk, rfl⟩ := h
  have := List.findIdx?_eq_some_iff_getElem.mp hk
  obtain ⟨hlt, _⟩ := this
  simp at hlt
  omega

theorem subStringFromTill_spec {self : Obj} {a : Bytes} (h : Holds self a) (hfit : a.length < npos)
    (s e : UInt8) (w : World) :
    ∃ r w', subStringFromTill self s e w = .ok (r, w') ∧ Holds r (Text.subStringFromTill a s e) ∧ Sized r := by
  simp only [subStringFromTill, bind_run, find_ok h, liftE_ok, Text.subStringFromTill]
  cases hf : Text.find a s with
  | none =>
    simp only [Option.getD_none, if_true, ctorEmpty_ok]
    exact ⟨_, _, rfl, holds_mkObj nulFree_nil, sized_mkObj _ _⟩
  | some i =>
    have ⟨_, hi⟩ := findFrom_lt hf
    have hne : i ≠ npos := by omega
    simp only [Option.getD_some, hne, if_false, bind_run, findFrom_ok h, liftE_ok]
    cases hg : Text.findFrom a i e with
    | none =>
      simp only [Option.getD_none, if_true]
      exact subString1_spec h hfit i hi w
    | some j =>
      have ⟨hij, hj⟩ := findFrom_lt hg
      have hne : j ≠ npos := by omega
      simp only [Option.getD_some, hne, if_false]
      obtain ⟨r, w', h1, h2, h3⟩ := subString_spec h i (j - i) w
      refine ⟨r, w', h1, ?_, h3⟩
      have : Text.subString a i (j - i) = (a.drop i).take (j - i) := by
        simp only [Text.subString]; rw [if_neg (by omega)]
      rwa [this] at h2



/-! ### allocator pairing: replaying an event log -/

/-- one event against the set of outstanding buffers (id, requested size) -/
def liveStep (L : List (Nat × Nat)) : Ev → Option (List (Nat × Nat))
  | .alloc id n => if L.any (fun p => p.1 == id) then none else some ((id, n) :: L)
  | .free id n => if (id, n) ∈ L then some (L.erase (id, n)) else none
  | _ => some L

/-- replay of a log: `none` as soon as a buffer is released that is not outstanding with exactly
    that size (released twice, never requested, other size) or a live id is handed out again -/
def liveAfter : List Ev → List (Nat × Nat) → Option (List (Nat × Nat))
  | [], L => some L
  | e :: es, L => (liveStep L e).bind (liveAfter es)

theorem liveAfter_append (l1 l2 : List Ev) (L : List (Nat × Nat)) :
    liveAfter (l1 ++ l2) L = (liveAfter l1 L).bind (liveAfter l2) := by
  induction l1 generalizing L with
  | nil => simp [liveAfter]
  | cons e es ih =>
    simp only [List.cons_append, liveAfter]
    cases liveStep L e with
    | none => simp
    | some L' => simp [ih]

/-- the outstanding buffers of world `w` are exactly `L` (as a multiset); every id is below the
    allocator's counter -/
def Owns (w : World) (L : List (Nat × Nat)) : Prop :=
  ∃ L0, liveAfter w.log [] = some L0 ∧ L0.Perm L ∧ ∀ p ∈ L0, p.1 < w.next

theorem Owns.perm {w L L'} (h : Owns w L) (hp : L.Perm L') : Owns w L' := by
  obtain ⟨L0, h1, h2, h3⟩ := h
  exact ⟨L0, h1, h2.trans hp, h3⟩

theorem Owns.alloc {w L} (h : Owns w L) (n : Nat) : Owns (w.alloc n) ((w.next, n) :: L) := by
  obtain ⟨L0, h1, h2, h3⟩ := h
  refine ⟨(w.next, n) :: L0, ?_, List.Perm.cons _ h2, ?_⟩
  · have hany : L0.any (fun p => p.1 == w.next) = false := by
      apply Bool.eq_false_iff.mpr
      intro hc
      simp only [List.any_eq_true, beq_iff_eq] at hc
      obtain ⟨p, hp, he⟩ := hc
      have := h3 p hp; omega
    simp [liveAfter_append, h1, liveAfter, liveStep, hany]
  · intro p hp
    simp only [List.mem_cons] at hp
    rcases hp with rfl | hp
    · simp
    · have := h3 p hp; simp; omega

theorem Owns.free {w L} (h : Owns w L) {i n : Nat} (hm : (i, n) ∈ L) : Owns (w.free i n) (L.erase (i, n)) := by
  obtain ⟨L0, h1, h2, h3⟩ := h
  have hm0 : (i, n) ∈ L0 := h2.symm.subset hm
  refine ⟨L0.erase (i, n), ?_, h2.erase _, ?_⟩
  · simp [liveAfter_append, h1, liveAfter, liveStep, hm0]
  · intro p hp
    exact h3 p (List.mem_of_mem_erase hp)

theorem Owns.free_head {w L} {i n : Nat} (h : Owns w ((i, n) :: L)) : Owns (w.free i n) L := by
  have := h.free (i := i) (n := n) (by simp)
  simpa using this

theorem Owns.lt {w L} (h : Owns w L) : ∀ p ∈ L, p.1 < w.next := by
  obtain ⟨L0, _, h2, h3⟩ := h
  intro p hp
  exact h3 p (h2.symm.subset hp)

theorem Owns.init : Owns {} [] := ⟨[], rfl, List.Perm.refl _, by simp⟩



/-! ### SimpleString(s, repeatCount) -/

theorem repeatStr_succ (a : Bytes) (k : Nat) : repeatStr a (k + 1) = a ++ repeatStr a k := by
  simp [repeatStr, List.replicate_succ]

theorem repeatStr_length (a : Bytes) (k : Nat) : (repeatStr a k).length = a.length * k := by
  induction k with
  | zero => simp [repeatStr]
  | succ k ih => rw [repeatStr_succ, List.length_append, ih, Nat.mul_succ]; omega

theorem nulFree_repeatStr {a : Bytes} (h : NulFree a) (k : Nat) : NulFree (repeatStr a k) := by
  induction k with
  | zero => simp [repeatStr, NulFree]
  | succ k ih => rw [repeatStr_succ]; exact nulFree_append.mpr ⟨h, ih⟩

theorem repeatLoop_ok {src : Buf} {sp : Nat} {a : Bytes} (h : CAt src sp a) :
    ∀ (k : Nat) (done rest : Bytes), rest.length = a.length * k + 1 →
      ∃ z, repeatLoop src sp a.length k (done ++ rest) done.length =
        .ok (done ++ repeatStr a k ++ [z], done.length + a.length * k)
  | 0, done, rest, hl => by
    match rest, hl with
    | [z], _ => exact ⟨z, by simp [repeatLoop, repeatStr]⟩
  | k + 1, done, rest, hl => by
    have hsplit : rest = rest.take (a.length + 1) ++ rest.drop (a.length + 1) := (List.take_append_drop _ _).symm
    have htl : (rest.take (a.length + 1)).length = a.length + 1 := by
      simp; rw [hl, Nat.mul_succ]; omega
    have hcp := StrNCpy_ok_aux (a.length + 1) a src sp done (rest.take (a.length + 1)) (rest.drop (a.length + 1)) h
      (by simp [htl])
    rw [List.append_assoc, ← hsplit] at hcp
    simp only [repeatLoop, hcp, take_cz_full]
    have hdl : (rest.drop (a.length + 1)).length = a.length * k := by
      simp; rw [hl, Nat.mul_succ]; omega
    obtain ⟨z, hz⟩ := repeatLoop_ok h k (done ++ a) (0 :: rest.drop (a.length + 1)) (by simp [hdl])
    refine ⟨z, ?_⟩
    have e1 : done ++ (a ++ [0]) ++ rest.drop (a.length + 1) = (done ++ a) ++ 0 :: rest.drop (a.length + 1) := by simp
    have e2 : done.length + a.length = (done ++ a).length := by simp
    rw [e1, e2, hz, repeatStr_succ]
    simp [Nat.mul_succ]; omega

theorem ctorRepeat_ok {src : Buf} {sp : Nat} {a : Bytes} (h : CAt src sp a) (k : Nat) (w : World) :
    ctorRepeat src sp k w =
      .ok (⟨w.next, repeatStr a k ++ [0], a.length * k + 1⟩, w.alloc (a.length * k + 1)) := by
  simp only [ctorRepeat, bind_run, StrLen_ok h, liftE_ok, setInternalBufferToNewBuffer, deallocateInternalBuffer,
    pure_run, allocStringBuffer_run]
  have hw : wr (List.replicate (a.length * k + 1) w.junk) 0 0 = .ok (0 :: List.replicate (a.length * k) w.junk) := by
    simp [wr, List.replicate_succ]
  simp only [hw, liftE_ok]
  obtain ⟨z, hz⟩ := repeatLoop_ok h k [] (0 :: List.replicate (a.length * k) w.junk) (by simp)
  simp only [List.nil_append, List.length_nil, Nat.zero_add] at hz
  simp only [hz, liftE_ok]
  have : wr (repeatStr a k ++ [z]) (a.length * k) 0 = .ok (repeatStr a k ++ [0]) := by
    have := wr_append (pre := repeatStr a k) (x := z) (post := []) 0
    rwa [repeatStr_length] at this
  simp [this]

theorem holds_repeat {i n : Nat} {a : Bytes} (h : NulFree a) (k : Nat) :
    Holds ⟨i, repeatStr a k ++ [0], n⟩ (repeatStr a k) := CAt.mk_cz (nulFree_repeatStr h k)

/-! ### copyToBuffer -/

theorem copyToBuffer_null (self : Obj) (n : Nat) : copyToBuffer self none n = .ok none := rfl

theorem copyToBuffer_ok {self : Obj} {a : Bytes} (h : Holds self a) (dst : Buf) :
    copyToBuffer self (some dst) dst.length = .ok (some (TextExt.copyOut a dst)) := by
  cases hd : dst with
  | nil => simp [copyToBuffer, TextExt.copyOut]
  | cons d0 dt =>
    rw [← hd]
    have hne : dst.length ≠ 0 := by rw [hd]; simp
    have hne' : dst.isEmpty = false := by rw [hd]; rfl
    simp only [copyToBuffer, hne, if_false, size_ok h, TextExt.copyOut, hne', Bool.false_eq_true]
    have hk : (if dst.length - 1 < a.length then dst.length - 1 else a.length) = min (dst.length - 1) a.length := by
      split <;> omega
    rw [hk]
    have hcp := StrNCpy_ok (dst := dst) (dp := 0) (n := min (dst.length - 1) a.length) h (by omega)
    have hmin : min (min (dst.length - 1) a.length) (a.length + 1) = min (dst.length - 1) a.length := by omega
    simp only [List.take_zero, List.nil_append, Nat.zero_add, hmin] at hcp
    have htk : (cz a).take (min (dst.length - 1) a.length) = a.take (dst.length - 1) := by
      simp only [cz]
      rw [List.take_append_of_le_length (by omega)]
      rcases Nat.le_total (dst.length - 1) a.length with hle | hle
      · rw [Nat.min_eq_left hle]
      · rw [Nat.min_eq_right hle, List.take_of_length_le (by omega), List.take_of_length_le hle]
    rw [hcp, htk]
    have hlen : (a.take (dst.length - 1)).length = min (dst.length - 1) a.length := by simp
    have hdrop : dst.drop (min (dst.length - 1) a.length) ≠ [] := by
      intro hnil
      have := congrArg List.length hnil
      simp at this; omega
    match hdd : dst.drop (min (dst.length - 1) a.length), hdrop with
    | y :: rest, _ =>
      have hw := wr_append (pre := a.take (dst.length - 1)) (x := y) (post := rest) 0
      rw [hlen] at hw
      simp only [hw]
      have : dst.drop (min (dst.length - 1) a.length + 1) = rest := drop_succ_of_drop hdd
      simp [this]



theorem Owns.free_2nd {w L} {p : Nat × Nat} {i n : Nat} (h : Owns w (p :: (i, n) :: L)) :
    Owns (w.free i n) (p :: L) :=
  (h.perm (List.Perm.swap _ _ _)).free_head

theorem Owns.free_3rd {w L} {p q : Nat × Nat} {i n : Nat} (h : Owns w (p :: q :: (i, n) :: L)) :
    Owns (w.free i n) (p :: q :: L) := by
  have : (p :: q :: (i, n) :: L).Perm ((i, n) :: p :: q :: L) := by
    apply List.perm_iff_count.mpr; intro x; simp [List.count_cons]; omega
  exact (h.perm this).free_head

/-- `m` creates one object: the result owns one new buffer under its recorded size; every other
    buffer requested on the way is released again (with its requested size) -/
def Creates (m : M Obj) (w : World) (P : Obj → Prop) : Prop :=
  ∃ r w', m w = .ok (r, w') ∧ P r ∧ Sized r ∧ ∀ L, Owns w L → Owns w' ((r.id, r.size) :: L)

/-- `m` gives object `self` a new buffer and releases the old one under its recorded size -/
def Replaces (m : M Obj) (w : World) (self : Obj) (P : Obj → Prop) : Prop :=
  ∃ r w', m w = .ok (r, w') ∧ P r ∧ Sized r ∧
    ∀ L, Owns w ((self.id, self.size) :: L) → Owns w' ((r.id, r.size) :: L)

/-- `m` returns `v`; all buffers it requested are released again -/
def Returns {α} (m : M α) (w : World) (v : α) : Prop :=
  ∃ w', m w = .ok (v, w') ∧ ∀ L, Owns w L → Owns w' L

theorem ctorCStr_creates {src : Buf} {sp : Nat} {a : Bytes} (h : CAt src sp a) (w : World) :
    Creates (ctorCStr src sp) w (fun r => Holds r a) :=
  ⟨_, _, ctorCStr_ok h w, holds_mkObj h.nulFree, sized_mkObj _ _, fun _ hL => hL.alloc _⟩

theorem ctorNull_creates (w : World) : Creates ctorNull w (fun r => Holds r []) :=
  ⟨_, _, ctorNull_ok w, holds_mkObj nulFree_nil, sized_mkObj _ _, fun _ hL => hL.alloc _⟩

theorem ctorCopy_creates {o : Obj} {a : Bytes} (h : Holds o a) (w : World) :
    Creates (ctorCopy o) w (fun r => Holds r a) := ctorCStr_creates h w

theorem ctorRepeat_creates {src : Buf} {sp : Nat} {a : Bytes} (h : CAt src sp a) (k : Nat) (w : World) :
    Creates (ctorRepeat src sp k) w (fun r => Holds r (repeatStr a k)) :=
  ⟨_, _, ctorRepeat_ok h k w, holds_repeat h.nulFree k, by simp [Sized, repeatStr_length], fun _ hL => hL.alloc _⟩

theorem assign_replaces {other : Obj} {a : Bytes} (self : Obj) (h : Holds other a) (w : World) :
    Replaces (assign self other) w self (fun r => Holds r a) :=
  ⟨_, _, assign_ok self h w, holds_mkObj h.nulFree, sized_mkObj _ _, fun _ hL => by
    have := (hL.free_head).alloc (a.length + 1)
    simpa using this⟩

theorem appendC_replaces {self : Obj} {a : Bytes} {rhs : Buf} {rp : Nat} {r : Bytes}
    (h : Holds self a) (hr : CAt rhs rp r) (w : World) :
    Replaces (appendC self rhs rp) w self (fun o => Holds o (a ++ r)) :=
  ⟨_, _, appendC_ok h hr w, holds_append h.nulFree hr.nulFree, by simp [Sized], fun _ hL =>
    (hL.alloc _).free_2nd⟩

theorem plus_creates {self rhs : Obj} {a b : Bytes} (h : Holds self a) (hb : Holds rhs b) (w : World) :
    Creates (plus self rhs) w (fun o => Holds o (a ++ b)) :=
  ⟨_, _, plus_ok h hb w, holds_append h.nulFree hb.nulFree, by simp [Sized], fun _ hL => by
    have := ((hL.alloc (a.length + 1)).alloc (a.length + (b.length + 1))).free_2nd
    simpa using this⟩

theorem lowerCase_creates {self : Obj} {a : Bytes} (h : Holds self a) (w : World) :
    Creates (lowerCase self) w (fun o => Holds o (Text.lower a)) :=
  ⟨_, _, lowerCase_ok h w, holds_mkObj (nulFree_lower h.nulFree), sized_mkObj _ _, fun _ hL => by
    have := hL.alloc (a.length + 1)
    simpa [lower_length] using this⟩

theorem equalsNoCase_returns {self str : Obj} {a b : Bytes} (h : Holds self a) (hb : Holds str b) (w : World) :
    Returns (equalsNoCase self str) w (Text.equalsNoCase a b) :=
  ⟨_, equalsNoCase_ok h hb w, fun _ hL => by
    have := (((hL.alloc (b.length + 1)).alloc (a.length + 1)).free_head).free_head
    simpa using this⟩

theorem containsNoCase_returns {self other : Obj} {a b : Bytes} (h : Holds self a) (hb : Holds other b) (w : World) :
    Returns (containsNoCase self other) w (Text.containsNoCase a b) :=
  ⟨_, containsNoCase_ok h hb w, fun _ hL => by
    have := (((hL.alloc (a.length + 1)).alloc (b.length + 1)).free_head).free_head
    simpa using this⟩

theorem subString_creates {self : Obj} {a : Bytes} (h : Holds self a) (beginPos amount : Nat) (w : World) :
    Creates (subString self beginPos amount) w (fun r => Holds r (Text.subString a beginPos amount)) := by
  unfold Creates
  rw [subString_ok h]
  by_cases hp : beginPos ≥ a.length
  · rw [if_pos hp]
    have : Text.subString a beginPos amount = [] := by simp [Text.subString, hp]
    rw [this]
    exact ⟨_, _, rfl, holds_mkObj nulFree_nil, sized_mkObj _ _, fun _ hL => hL.alloc _⟩
  · rw [if_neg hp]
    refine ⟨_, _, rfl, holds_mkObj ?_, sized_mkObj _ _, fun _ hL => ?_⟩
    · simp only [Text.subString, hp, if_false]
      exact nulFree_take (nulFree_drop h.nulFree _) _
    · have := ((hL.alloc ((a.drop beginPos).length + 1)).alloc
        ((Text.subString a beginPos amount).length + 1)).free_2nd
      simpa using this

theorem subString1_creates {self : Obj} {a : Bytes} (h : Holds self a) (hfit : a.length < npos)
    (beginPos : Nat) (w : World) :
    Creates (subString1 self beginPos) w (fun r => Holds r (Text.subStringFrom a beginPos)) := by
  have := subString_creates h beginPos npos w
  have e : Text.subString a beginPos npos = Text.subStringFrom a beginPos := by
    simp only [Text.subString, Text.subStringFrom]
    split
    · next hp => rw [List.drop_eq_nil_of_le hp]
    · rw [List.take_of_length_le (by simp; omega)]
  rw [e] at this
  exact this



theorem subStringFromTill_creates {self : Obj} {a : Bytes} (h : Holds self a) (hfit : a.length < npos)
    (s e : UInt8) (w : World) :
    Creates (subStringFromTill self s e) w (fun r => Holds r (Text.subStringFromTill a s e)) := by
  unfold Creates
  simp only [subStringFromTill, bind_run, find_ok h, liftE_ok, Text.subStringFromTill]
  cases hf : Text.find a s with
  | none =>
    simp only [Option.getD_none, if_true]
    exact ctorCStr_creates emptyLit_at w
  | some i =>
    have ⟨_, hi⟩ := findFrom_lt hf
    have hne : i ≠ npos := by omega
    simp only [Option.getD_some, hne, if_false, bind_run, findFrom_ok h, liftE_ok]
    cases hg : Text.findFrom a i e with
    | none =>
      simp only [Option.getD_none, if_true]
      exact subString1_creates h hfit i w
    | some j =>
      have ⟨hij, hj⟩ := findFrom_lt hg
      have hne : j ≠ npos := by omega
      simp only [Option.getD_some, hne, if_false]
      have := subString_creates h i (j - i) w
      have e : Text.subString a i (j - i) = (a.drop i).take (j - i) := by
        simp only [Text.subString]; rw [if_neg (by omega)]
      rw [e] at this
      exact this

/-! ### padding -/

def padChars (c : UInt8) : Bytes := if c = 0 then [] else [c]

theorem padLit_at (c : UInt8) : CAt [c, 0] 0 (padChars c) := by
  by_cases hc : c = 0
  · subst hc; exact ⟨nulFree_nil, [0], rfl⟩
  · simp only [padChars, hc, if_false]
    exact ⟨by simp [NulFree, hc], [], rfl⟩

theorem repeat_padChars (c : UInt8) (n : Nat) :
    repeatStr (padChars c) n = if c = 0 then [] else List.replicate n c := by
  by_cases hc : c = 0
  · simp only [padChars, hc, if_true]
    induction n with
    | zero => rfl
    | succ n ih => rw [repeatStr_succ, ih]; rfl
  · simp only [padChars, hc, if_false]
    induction n with
    | zero => rfl
    | succ n ih => rw [repeatStr_succ, ih]; simp [List.replicate_succ]

theorem padFirst_replaces {str1 : Obj} {a : Bytes} (h : Holds str1 a) (n : Nat) (c : UInt8) (w : World) :
    Replaces (padFirst str1 n c) w str1 (fun r => Holds r (TextExt.padLeft n c a)) := by
  have hrep := ctorRepeat_ok (padLit_at c) n w
  have hR := holds_repeat (i := w.next) (n := (padChars c).length * n + 1) (padLit_at c).nulFree n
  unfold Replaces
  simp only [padFirst, bind_run, hrep, plus_ok hR h]
  have hT : Holds (⟨(w.alloc ((padChars c).length * n + 1)).next + 1, repeatStr (padChars c) n ++ a ++ [0],
      (repeatStr (padChars c) n).length + (a.length + 1)⟩ : Obj) (repeatStr (padChars c) n ++ a) :=
    holds_append hR.nulFree h.nulFree
  simp only [assign_ok str1 hT, dtor_run, pure_run]
  refine ⟨_, _, rfl, ?_, sized_mkObj _ _, fun L hL => ?_⟩
  · have : TextExt.padLeft n c a = repeatStr (padChars c) n ++ a := by
      simp [TextExt.padLeft, repeat_padChars]
    rw [this]; exact holds_mkObj hT.nulFree
  · have h1 := (hL.alloc ((padChars c).length * n + 1))
    have h2 := ((h1.alloc ((repeatStr (padChars c) n).length + 1)).alloc
      ((repeatStr (padChars c) n).length + (a.length + 1))).free_2nd
    have h3 := (h2.free_3rd).alloc ((repeatStr (padChars c) n ++ a).length + 1)
    have h4 := (h3.free_2nd).free_2nd
    simpa using h4

theorem padStringsToSameLength_ok {str1 str2 : Obj} {a b : Bytes} (h1 : Holds str1 a) (h2 : Holds str2 b)
    (hs1 : Sized str1) (hs2 : Sized str2) (c : UInt8) (w : World) :
    ∃ r1 r2 w', padStringsToSameLength str1 str2 c w = .ok ((r1, r2), w') ∧
      Holds r1 (TextExt.padToSameLength a b c).1 ∧ Holds r2 (TextExt.padToSameLength a b c).2 ∧ Sized r1 ∧ Sized r2 ∧
      ∀ L, Owns w ((str1.id, str1.size) :: (str2.id, str2.size) :: L) →
        Owns w' ((r1.id, r1.size) :: (r2.id, r2.size) :: L) := by
  simp only [padStringsToSameLength, bind_run, size_ok h1, size_ok h2, liftE_ok, TextExt.padToSameLength]
  by_cases hgt : a.length > b.length
  · simp only [hgt, if_true, bind_run]
    obtain ⟨r, w', hr, hh, hs, ho⟩ := padFirst_replaces h2 (a.length - b.length) c w
    simp only [hr, pure_run]
    refine ⟨str1, r, w', rfl, h1, hh, hs1, hs, fun L hL => ?_⟩
    exact (ho _ (hL.perm (List.Perm.swap _ _ _))).perm (List.Perm.swap _ _ _)
  · simp only [hgt, if_false, bind_run]
    obtain ⟨r, w', hr, hh, hs, ho⟩ := padFirst_replaces h1 (b.length - a.length) c w
    simp only [hr, pure_run]
    exact ⟨r, str2, w', rfl, hh, h2, hs, hs2, fun L hL => ho _ hL⟩



/-! ### replace(to, with) -/

/-- number of (leftmost, non-overlapping) occurrences that `replaceAllAux` replaces -/
def nocc : Nat → Bytes → Bytes → Nat
  | 0, _, _ => 0
  | _ + 1, [], _ => 0
  | n + 1, x :: t, pat => if pat.isPrefixOf (x :: t) then 1 + nocc n ((x :: t).drop pat.length) pat else nocc n t pat

theorem prefix_length_le {pat s : Bytes} (h : pat.isPrefixOf s = true) : pat.length ≤ s.length :=
  (List.isPrefixOf_iff_prefix.mp h).length_le

theorem replaceAllAux_length (pat rep : Bytes) (hp : pat ≠ []) : ∀ (n : Nat) (s : Bytes), s.length < n →
    (Text.replaceAllAux n s pat rep).length + pat.length * nocc n s pat = s.length + rep.length * nocc n s pat
  | 0, _, h => by simp at h
  | n + 1, [], _ => by simp [Text.replaceAllAux, nocc]
  | n + 1, x :: t, h => by
    have hpl : 0 < pat.length := List.length_pos_iff.mpr hp
    by_cases hpre : pat.isPrefixOf (x :: t) = true
    · have hle := prefix_length_le hpre
      have ih := replaceAllAux_length pat rep hp n ((x :: t).drop pat.length) (by simp at h hle ⊢; omega)
      simp only [Text.replaceAllAux, nocc, hpre, if_true, List.length_append, List.length_drop] at ih ⊢
      rw [Nat.mul_add, Nat.mul_add]
      omega
    · have ih := replaceAllAux_length pat rep hp n t (by simp at h; omega)
      simp only [Text.replaceAllAux, nocc, hpre, Bool.false_eq_true, if_false, List.length_cons] at ih ⊢
      omega

theorem replaceAllAux_of_nocc_zero (pat rep : Bytes) : ∀ (n : Nat) (s : Bytes), nocc n s pat = 0 →
    Text.replaceAllAux n s pat rep = s
  | 0, _, _ => rfl
  | n + 1, [], _ => rfl
  | n + 1, x :: t, h => by
    by_cases hpre : pat.isPrefixOf (x :: t) = true
    · simp [nocc, hpre] at h
    · simp only [nocc, hpre, Bool.false_eq_true, if_false] at h
      simp [Text.replaceAllAux, hpre, replaceAllAux_of_nocc_zero pat rep n t h]

theorem nulFree_replaceAllAux {pat rep : Bytes} (hr : NulFree rep) : ∀ (n : Nat) (s : Bytes), NulFree s →
    NulFree (Text.replaceAllAux n s pat rep)
  | 0, _, h => h
  | n + 1, [], _ => nulFree_nil
  | n + 1, x :: t, h => by
    by_cases hpre : pat.isPrefixOf (x :: t) = true
    · simp only [Text.replaceAllAux, hpre, if_true]
      exact nulFree_append.mpr ⟨hr, nulFree_replaceAllAux hr n _ (nulFree_drop h _)⟩
    · simp only [Text.replaceAllAux, hpre, Bool.false_eq_true, if_false]
      exact nulFree_cons.mpr ⟨(nulFree_cons.mp h).1, nulFree_replaceAllAux hr n t (nulFree_cons.mp h).2⟩

theorem replCountLoop_ok {buf to : Buf} {tp len : Nat} {pat : Bytes} (hto : CAt to tp pat) (hp : pat ≠ []) :
    ∀ (n f : Nat) (s : Bytes) (i c : Nat), s.length < n → s.length < f → CAt buf i s → i + s.length = len →
      replCountLoop buf len to tp pat.length f i c = .ok (c + nocc n s pat)
  | 0, _, _, _, _, h, _, _, _ => by simp at h
  | _ + 1, 0, _, _, _, _, h, _, _ => by simp at h
  | n + 1, f + 1, [], i, c, _, _, _, hl => by
    have : ¬ (i < len) := by simp at hl; omega
    simp [replCountLoop, this, nocc]
  | n + 1, f + 1, x :: t, i, c, hn, hf, hs, hl => by
    have hpl : 0 < pat.length := List.length_pos_iff.mpr hp
    have hi : i < len := by simp at hl; omega
    simp only [replCountLoop, hi, if_true, StrNCmp_ok _ _ _ _ _ _ _ hs hto]
    by_cases hpre : pat.isPrefixOf (x :: t) = true
    · have hz := (ncmp_length_eq_zero_iff hs.1 hto.1).mpr hpre
      have hle := prefix_length_le hpre
      simp only [hz, if_true, nocc, hpre]
      rw [replCountLoop_ok hto hp n f ((x :: t).drop pat.length) (i + pat.length) (c + 1)
        (by simp at hn hle ⊢; omega) (by simp at hf hle ⊢; omega) (hs.drop _ hle) (by simp at hl hle ⊢; omega)]
      congr 1; omega
    · have hz : Text.ncmp pat.length (x :: t) pat ≠ 0 := fun h => hpre ((ncmp_length_eq_zero_iff hs.1 hto.1).mp h)
      simp only [hz, if_false, nocc, hpre, Bool.false_eq_true]
      exact replCountLoop_ok hto hp n f t (i + 1) c (by simp at hn; omega) (by simp at hf; omega) hs.tail
        (by simp at hl ⊢; omega)

theorem replCopyLoop_ok {buf to wb : Buf} {tp wp len : Nat} {pat rep : Bytes} (hto : CAt to tp pat)
    (hw : CAt wb wp rep) (hp : pat ≠ []) :
    ∀ (n f : Nat) (s : Bytes) (i : Nat) (out room : Bytes), s.length < n → s.length < f → CAt buf i s →
      i + s.length = len → (Text.replaceAllAux n s pat rep).length + 1 ≤ room.length →
      ∃ tail, tail.length = room.length - (Text.replaceAllAux n s pat rep).length ∧
        replCopyLoop buf len to tp pat.length wb wp rep.length f i out.length (out ++ room) =
          .ok (out ++ Text.replaceAllAux n s pat rep ++ tail)
  | 0, _, _, _, _, _, h, _, _, _, _ => by simp at h
  | _ + 1, 0, _, _, _, _, _, h, _, _, _ => by simp at h
  | n + 1, f + 1, [], i, out, room, _, _, _, hl, _ => by
    have : ¬ (i < len) := by simp at hl; omega
    exact ⟨room, by simp [Text.replaceAllAux], by simp [replCopyLoop, this, Text.replaceAllAux]⟩
  | n + 1, f + 1, x :: t, i, out, room, hn, hf, hs, hl, hroom => by
    have hpl : 0 < pat.length := List.length_pos_iff.mpr hp
    have hi : i < len := by simp at hl; omega
    simp only [replCopyLoop, hi, if_true, StrNCmp_ok _ _ _ _ _ _ _ hs hto]
    by_cases hpre : pat.isPrefixOf (x :: t) = true
    · have hz := (ncmp_length_eq_zero_iff hs.1 hto.1).mpr hpre
      have hle := prefix_length_le hpre
      simp only [Text.replaceAllAux, hpre, if_true, List.length_append] at hroom ⊢
      simp only [hz, if_true]
      have hsplit : room = room.take (rep.length + 1) ++ room.drop (rep.length + 1) := (List.take_append_drop _ _).symm
      have hcp := StrNCpy_ok_aux (rep.length + 1) rep wb wp out (room.take (rep.length + 1)) (room.drop (rep.length + 1)) hw
        (by simp; omega)
      rw [List.append_assoc, ← hsplit] at hcp
      simp only [hcp, take_cz_full]
      obtain ⟨tail, htl, hrec⟩ := replCopyLoop_ok (buf := buf) (len := len) hto hw hp n f ((x :: t).drop pat.length) (i + pat.length) (out ++ rep)
        (0 :: room.drop (rep.length + 1))
        (by simp at hn hle ⊢; omega) (by simp at hf hle ⊢; omega) (hs.drop _ hle) (by simp at hl hle ⊢; omega)
        (by simp; omega)
      refine ⟨tail, ?_, ?_⟩
      · simp only [List.length_cons, List.length_drop] at htl; omega
      have e1 : out ++ (rep ++ [0]) ++ room.drop (rep.length + 1) = (out ++ rep) ++ 0 :: room.drop (rep.length + 1) := by simp
      have e2 : out.length + rep.length = (out ++ rep).length := by simp
      rw [e1, e2, hrec]
      simp
    · have hz : Text.ncmp pat.length (x :: t) pat ≠ 0 := fun h => hpre ((ncmp_length_eq_zero_iff hs.1 hto.1).mp h)
      simp only [Text.replaceAllAux, hpre, Bool.false_eq_true, if_false, List.length_cons] at hroom ⊢
      simp only [hz, if_false, hs.cons_rd]
      match room, hroom with
      | y :: room', hroom =>
        simp only [wr_append]
        obtain ⟨tail, htl, hrec⟩ := replCopyLoop_ok (buf := buf) (len := len) hto hw hp n f t (i + 1) (out ++ [x]) room'
          (by simp at hn; omega) (by simp at hf; omega) hs.tail (by simp at hl ⊢; omega) (by simp at hroom; omega)
        refine ⟨tail, ?_, ?_⟩
        · simp only [List.length_cons] at htl hroom ⊢; omega
        have e1 : out ++ x :: room' = (out ++ [x]) ++ room' := by simp
        have e2 : out.length + 1 = (out ++ [x]).length := by simp
        rw [e1, e2, hrec]
        simp

theorem replaceStr_replaces {self : Obj} {a pat rep : Bytes} {to wb : Buf} {tp wp : Nat}
    (h : Holds self a) (hs : Sized self) (hto : CAt to tp pat) (hw : CAt wb wp rep) (w : World) :
    Replaces (replaceStr self to tp wb wp) w self (fun r => Holds r (Text.replaceAll a pat rep)) := by
  unfold Replaces
  simp only [replaceStr, bind_run, size_ok h, liftE_ok, StrLen_ok hto, StrLen_ok hw]
  by_cases hp : pat = []
  · subst hp
    simp only [List.length_nil, if_true, pure_run, Text.replaceAll, List.isEmpty_nil]
    exact ⟨self, w, rfl, h, hs, fun _ hL => hL⟩
  · have hpl : pat.length ≠ 0 := by simpa using hp
    have hpe : pat.isEmpty = false := by cases pat <;> simp_all
    simp only [hpl, if_false, bind_run, Text.replaceAll, hpe, Bool.false_eq_true]
    have hcnt := replCountLoop_ok (buf := self.buf) (len := a.length) hto hp (a.length + 1) (a.length + 1) a 0 0
      (by omega) (by omega) h (by simp)
    simp only [Nat.zero_add] at hcnt
    simp only [hcnt, liftE_ok]
    by_cases hc : nocc (a.length + 1) a pat = 0
    · simp only [hc, if_true, pure_run, replaceAllAux_of_nocc_zero pat rep _ a hc]
      exact ⟨self, w, rfl, h, hs, fun _ hL => hL⟩
    · have hlen := replaceAllAux_length pat rep hp (a.length + 1) a (by omega)
      have hnf := nulFree_replaceAllAux (pat := pat) hw.1 (a.length + 1) a h.nulFree
      generalize hR : Text.replaceAllAux (a.length + 1) a pat rep = R at hlen hnf
      generalize hcc : nocc (a.length + 1) a pat = c at hlen hc hcnt
      have hsz : a.length + rep.length * c - pat.length * c = R.length := by omega
      simp only [hc, if_false, replaceBuild, hsz]
      by_cases hR0 : R.length + 1 > 1
      · simp only [hR0, if_true, bind_run, allocStringBuffer_run]
        obtain ⟨tail, htl, hcp⟩ := replCopyLoop_ok (buf := self.buf) (len := a.length) hto hw hp (a.length + 1)
          (a.length + 1) a 0 [] (List.replicate (R.length + 1) w.junk) (by omega) (by omega) h (by simp)
          (by rw [hR]; simp)
        simp only [List.nil_append, List.length_nil, hR] at hcp htl
        simp only [hcp, liftE_ok]
        have htl1 : tail.length = 1 := by simp at htl; omega
        match tail, htl1 with
        | [z], _ =>
          have hwz := wr_append (pre := R) (x := z) (post := []) 0
          simp only [Nat.add_sub_cancel, hwz, liftE_ok, setInternalBufferTo, deallocateInternalBuffer, bind_run,
            deallocStringBuffer_run, pure_run]
          refine ⟨_, _, rfl, CAt.mk_cz hnf, by simp [Sized], fun L hL => ?_⟩
          exact (hL.alloc (R.length + 1)).free_2nd
      · have hRnil : R = [] := List.eq_nil_of_length_eq_zero (by omega)
        simp only [hR0, if_false, setInternalBufferAsEmptyString, deallocateInternalBuffer, bind_run,
          deallocStringBuffer_run, getEmptyString, allocStringBuffer_run, pure_run]
        have : wr (List.replicate 1 (w.free self.id self.size).junk) 0 0 = .ok [0] := by simp [wr]
        simp only [this, liftE_ok, hRnil]
        refine ⟨_, _, rfl, CAt.mk_cz nulFree_nil, by simp [Sized], fun L hL => ?_⟩
        have := (hL.free_head).alloc 1
        simpa using this



/-! ### formatted construction: the glue around `vsnprintf` -/

/-- the world after one `vsnprintf` call that consumed the recorded result `r` -/
def World.vsnCall (w : World) (size : Nat) (r : VsnRes) : World :=
  { w with vsn := w.vsn.tail, log := w.log ++ [.vsn size r.ret r.text] }

@[simp] theorem vsnCall_next (w : World) (s r) : (w.vsnCall s r).next = w.next := rfl
@[simp] theorem vsnCall_junk (w : World) (s r) : (w.vsnCall s r).junk = w.junk := rfl
@[simp] theorem vsnCall_vsn (w : World) (s r) : (w.vsnCall s r).vsn = w.vsn.tail := rfl

theorem Owns.vsnCall {w : World} {L} (h : Owns w L) (s : Nat) (r : VsnRes) : Owns (w.vsnCall s r) L := by
  obtain ⟨L0, h1, h2, h3⟩ := h
  exact ⟨L0, by simp [World.vsnCall, liveAfter_append, h1, liveAfter, liveStep], h2, h3⟩

theorem vsnprintf_ok {w : World} {r : VsnRes} {rest : List VsnRes} (buf : Buf) (size : Nat)
    (hv : w.vsn = r :: rest) (hfit : r.text.length < size) (hsz : size ≤ buf.length) :
    vsnprintf buf size w = .ok ((r, r.text ++ 0 :: buf.drop (r.text.length + 1)), w.vsnCall size r) := by
  simp only [vsnprintf, hv, hfit, hsz, and_self, if_true, World.vsnCall, List.tail_cons]

@[simp] theorem getJunk_run (w : World) : getJunk w = .ok (w.junk, w) := rfl

/-- **fast path**: a formatted length below the 100-byte stack buffer: no buffer is requested for
    the text; the result holds what `vsnprintf` wrote -/
theorem vStringFromFormat_fast {w : World} {r : VsnRes} {rest : List VsnRes} (hv : w.vsn = r :: rest)
    (hret : r.ret < sizeOfdefaultBuffer) (hlen : r.text.length < sizeOfdefaultBuffer) (hnf : NulFree r.text) :
    vStringFromFormat w =
      .ok (mkObj (w.next + 2) r.text,
           (((((w.alloc 1).vsnCall sizeOfdefaultBuffer r).alloc (r.text.length + 1)).free w.next 1).alloc
              (r.text.length + 1)).free (w.next + 1) (r.text.length + 1)) := by
  have hv' : (w.alloc 1).vsn = r :: rest := hv
  have hat : CAt (r.text ++ 0 :: (List.replicate sizeOfdefaultBuffer w.junk).drop (r.text.length + 1)) 0 r.text :=
    CAt.of_append hnf
  simp only [vStringFromFormat, bind_run, ctorEmpty_ok, getJunk_run, alloc_junk,
    vsnprintf_ok (List.replicate sizeOfdefaultBuffer w.junk) sizeOfdefaultBuffer hv' hlen (by simp), hret, if_true,
    ctorCStr_ok hat, assign_ok _ (holds_mkObj hnf), dtor_run, pure_run]
  simp

/-- **slow path**: a formatted length of 100 or more: a buffer of exactly `length + 1` bytes is
    requested, filled by a second `vsnprintf` call, copied, and released as `length + 1` bytes -/
theorem vStringFromFormat_slow {w : World} {r r2 : VsnRes} {rest : List VsnRes} (hv : w.vsn = r :: r2 :: rest)
    (hret : ¬ r.ret < sizeOfdefaultBuffer) (hlen : r.text.length < sizeOfdefaultBuffer)
    (hlen2 : r2.text.length < r.ret + 1) (hnf : NulFree r2.text) :
    vStringFromFormat w =
      .ok (mkObj (w.next + 3) r2.text,
           (((((((((w.alloc 1).vsnCall sizeOfdefaultBuffer r).alloc (r.ret + 1)).vsnCall (r.ret + 1) r2).alloc
              (r2.text.length + 1)).free w.next 1).alloc (r2.text.length + 1)).free (w.next + 2)
              (r2.text.length + 1)).free (w.next + 1) (r.ret + 1))) := by
  have hv' : (w.alloc 1).vsn = r :: r2 :: rest := hv
  have hv2 : (((w.alloc 1).vsnCall sizeOfdefaultBuffer r).alloc (r.ret + 1)).vsn = r2 :: rest := by
    simp [hv]
  have hat : CAt (r2.text ++ 0 :: (List.replicate (r.ret + 1) w.junk).drop (r2.text.length + 1)) 0 r2.text :=
    CAt.of_append hnf
  simp only [vStringFromFormat, bind_run, ctorEmpty_ok, getJunk_run, alloc_junk,
    vsnprintf_ok (List.replicate sizeOfdefaultBuffer w.junk) sizeOfdefaultBuffer hv' hlen (by simp), hret, if_false,
    allocStringBuffer_run, vsnCall_junk,
    vsnprintf_ok (List.replicate (r.ret + 1) w.junk) (r.ret + 1) hv2 hlen2 (by simp),
    ctorCStr_ok hat, assign_ok _ (holds_mkObj hnf), dtor_run, deallocStringBuffer_run, pure_run]
  simp



theorem ordinalSuffix_eq (n : Nat) : ordinalSuffix n = TextExt.ordinalSuffix n := by
  have h10 : n % 10 < 10 := Nat.mod_lt _ (by decide)
  simp only [ordinalSuffix, TextExt.ordinalSuffix, Gen.Str.ordinalMod, Gen.Str.ordinalLo, Gen.Str.ordinalHi,
    Gen.Str.ordinalDigitMod, Gen.Str.ordinalTable, Gen.Str.ordinalDefault]
  by_cases hteen : 11 ≤ n % 100 ∧ n % 100 ≤ 13
  · have : ¬ (n % 100 < 11 ∨ n % 100 > 13) := by omega
    simp only [this, if_false, hteen, and_self, if_true]
  · have : n % 100 < 11 ∨ n % 100 > 13 := by omega
    simp only [this, if_true, hteen, if_false]
    by_cases h3 : n % 10 = 3
    · simp [h3, List.find?]
    · by_cases h2 : n % 10 = 2
      · simp [h2, List.find?]
      · by_cases h1 : n % 10 = 1
        · simp [h1, List.find?]
        · have e3 : ((3 : Nat) == n % 10) = false := by simpa using fun h => h3 h.symm
          have e2 : ((2 : Nat) == n % 10) = false := by simpa using fun h => h2 h.symm
          have e1 : ((1 : Nat) == n % 10) = false := by simpa using fun h => h1 h.symm
          simp [h3, h2, h1, List.find?, e3, e2, e1]



/-- `StringFromFormat` on the fast path: the result holds what `vsnprintf` wrote; the five
    temporary buffers are all released with their sizes -/
theorem stringFromFormat_fast {w : World} {r : VsnRes} {rest : List VsnRes} (hv : w.vsn = r :: rest)
    (hret : r.ret < sizeOfdefaultBuffer) (hlen : r.text.length < sizeOfdefaultBuffer) (hnf : NulFree r.text) :
    ∃ w', stringFromFormat w = .ok (mkObj (w.next + 4) r.text, w') ∧ w'.vsn = rest ∧ w'.junk = w.junk ∧
      w'.next = w.next + 5 ∧ ∀ L, Owns w L → Owns w' ((w.next + 4, r.text.length + 1) :: L) := by
  have hv' : (w.alloc 1).vsn = r :: rest := hv
  simp only [stringFromFormat, bind_run, ctorEmpty_ok, vStringFromFormat_fast hv' hret hlen hnf,
    assign_ok _ (holds_mkObj hnf), dtor_run, pure_run]
  refine ⟨_, rfl, by simp [hv], by simp, by simp, fun L hL => ?_⟩
  have h1 := ((hL.alloc 1).alloc 1).vsnCall sizeOfdefaultBuffer r
  have h2 := ((h1.alloc (r.text.length + 1)).free_2nd).alloc (r.text.length + 1)
  have h3 := (h2.free_2nd)
  have h4 := ((h3.free_2nd).alloc (r.text.length + 1)).free_2nd
  simpa using h4



/-! ### split -/

theorem delimStep_pos (d : Bytes) : 0 < delimStep d := by
  unfold delimStep; split <;> omega

/-- an occurrence found in a non-empty string ends inside the string -/
theorem strStr_step_le {s d : Bytes} {i : Nat} (hs : s ≠ []) (h : TextExt.strStr s d = some i) :
    i + delimStep d ≤ s.length := by
  obtain ⟨h1, h2, _⟩ := (strStr_some_iff s d i).mp h
  unfold delimStep
  by_cases hd : d.length ≠ 0
  · rw [if_pos hd]
    have := prefix_length_le h2
    simp only [List.length_drop] at this; omega
  · rw [if_neg hd]
    have hd' : d = [] := List.eq_nil_of_length_eq_zero (by omega)
    subst hd'
    rw [strStr_nil_right] at h
    injection h with h; subst h
    have : 0 < s.length := List.length_pos_iff.mpr hs
    omega

theorem splitScan_le (d : Bytes) : ∀ (n : Nat) (s : Bytes), (TextExt.splitScan d n s).2 ≤ s.length
  | 0, _ => by simp [TextExt.splitScan]
  | n + 1, [] => by simp [TextExt.splitScan]
  | n + 1, x :: t => by
    simp only [TextExt.splitScan]
    cases hst : TextExt.strStr (x :: t) d with
    | none => simp
    | some i =>
      have hle := strStr_step_le (by simp) hst
      have ih := splitScan_le d n ((x :: t).drop (i + delimStep d))
      simp only [List.length_drop] at ih
      simp only
      omega

/-- the first loop of `split` counts the delimiter-terminated tokens and stops where they end -/
theorem splitScan_model {buf dbuf : Buf} {d : Bytes} (hd : CAt dbuf 0 d) :
    ∀ (n f : Nat) (s : Bytes) (rest num : Nat), s.length < n → s.length < f → CAt buf rest s →
      SStr.splitScan buf dbuf (delimStep d) f rest num =
        .ok ⟨rest + (TextExt.splitScan d n s).2, num + (TextExt.splitScan d n s).1.length⟩
  | 0, _, _, _, _, h, _, _ => by simp at h
  | _ + 1, 0, _, _, _, _, h, _ => by simp at h
  | n + 1, f + 1, [], rest, num, _, _, hs => by
    simp [SStr.splitScan, hs.nil_rd, TextExt.splitScan]
  | n + 1, f + 1, x :: t, rest, num, hn, hf, hs => by
    have hx := hs.cons_ne
    simp only [SStr.splitScan, hs.cons_rd, hx, if_false, StrStr_ok hs hd, TextExt.splitScan]
    cases hst : TextExt.strStr (x :: t) d with
    | none => simp
    | some i =>
      have hle := strStr_step_le (by simp) hst
      have hpos := delimStep_pos d
      simp only [Option.map_some]
      have e : i + rest + delimStep d = rest + (i + delimStep d) := by omega
      rw [e, splitScan_model hd n f ((x :: t).drop (i + delimStep d)) (rest + (i + delimStep d)) (num + 1)
        (by simp at hn hle ⊢; omega) (by simp at hf hle ⊢; omega) (hs.drop _ hle)]
      simp only [List.length_cons]
      congr 2 <;> omega


def ownedObjs (xs : List Obj) : List (Nat × Nat) := xs.map fun o => (o.id, o.size)

theorem splitScan_toks_nil {d : Bytes} {n : Nat} {s : Bytes} (h : (TextExt.splitScan d n s).1 = []) :
    (TextExt.splitScan d n s).2 = 0 := by
  cases n with
  | zero => simp [TextExt.splitScan]
  | succ n =>
    cases s with
    | nil => simp [TextExt.splitScan]
    | cons x t =>
      simp only [TextExt.splitScan] at h ⊢
      cases hst : TextExt.strStr (x :: t) d with
      | none => simp
      | some i => simp [hst] at h

theorem ctorEmptyN_ok : ∀ (n : Nat) (w : World),
    ∃ items w', ctorEmptyN n w = .ok (items, w') ∧ items.length = n ∧ (∀ o ∈ items, Holds o [] ∧ Sized o) ∧
      ∀ L, Owns w L → Owns w' (ownedObjs items ++ L)
  | 0, w => ⟨[], w, rfl, rfl, by simp, fun L hL => by simpa [ownedObjs] using hL⟩
  | n + 1, w => by
    obtain ⟨items, w', h1, h2, h3, h4⟩ := ctorEmptyN_ok n (w.alloc 1)
    refine ⟨mkObj w.next [] :: items, w', ?_, by simp [h2], ?_, ?_⟩
    · simp only [ctorEmptyN, bind_run, ctorEmpty_ok, h1, pure_run]
    · intro o ho
      rcases List.mem_cons.mp ho with rfl | ho
      · exact ⟨holds_mkObj nulFree_nil, sized_mkObj _ _⟩
      · exact h3 o ho
    · intro L hL
      have := h4 _ (hL.alloc 1)
      refine this.perm ?_
      simp only [ownedObjs, List.map_cons, mkObj_id, mkObj_size, List.length_nil, Nat.zero_add]
      exact List.perm_middle

theorem collAssign_at {done rest : List Obj} {t value e : Obj} {v : Bytes} (hv : Holds value v) (w : World) :
    collAssign ⟨done ++ t :: rest, e⟩ done.length value w =
      .ok (⟨done ++ mkObj w.next v :: rest, e⟩, (w.free t.id t.size).alloc (v.length + 1)) := by
  have hget : (done ++ t :: rest)[done.length]? = some t := by simp
  simp only [collAssign, hget, bind_run, assign_ok t hv, pure_run]
  simp

/-- objects hold the given strings, pairwise -/
def HoldAll : List Obj → List Bytes → Prop
  | [], [] => True
  | o :: os, a :: as => Holds o a ∧ Sized o ∧ HoldAll os as
  | _, _ => False

theorem splitStoreToken_ok {self : Obj} {s : Bytes} {str : Nat} (hs : CAt self.buf str s) (hne : s ≠ []) (k : Nat)
    (done rest : List Obj) (t e : Obj) (w : World) :
    ∃ o w', splitStoreToken self str k ⟨done ++ t :: rest, e⟩ done.length w = .ok (⟨done ++ o :: rest, e⟩, w') ∧
      Holds o (s.take k) ∧ Sized o ∧ ∀ L, Owns w ((t.id, t.size) :: L) → Owns w' ((o.id, o.size) :: L) := by
  have hnf := hs.nulFree
  have hlen : 0 < s.length := List.length_pos_iff.mpr hne
  have htok : Text.subString s 0 k = s.take k := by
    unfold Text.subString; rw [if_neg (by omega)]; simp
  have hsub := subString_ok (holds_mkObj (i := w.next) hnf) 0 k (w.alloc (s.length + 1))
  rw [if_neg (by omega)] at hsub
  have htoknf : NulFree (Text.subString s 0 k) := by rw [htok]; exact nulFree_take hnf _
  simp only [splitStoreToken, bind_run, ctorCStr_ok hs, hsub, collAssign_at (holds_mkObj htoknf), dtor_run, pure_run]
  refine ⟨_, _, rfl, by rw [← htok]; exact holds_mkObj htoknf, sized_mkObj _ _, fun L hL => ?_⟩
  have h1 := ((hL.alloc (s.length + 1)).alloc ((s.drop 0).length + 1)).alloc ((Text.subString s 0 k).length + 1)
  have h2 := ((h1.free_2nd).free_3rd).alloc ((Text.subString s 0 k).length + 1)
  have h3 := (h2.free_2nd).free_2nd
  simpa using h3

theorem splitStoreRest_ok {self : Obj} {s : Bytes} {str : Nat} (hs : CAt self.buf str s)
    (done rest : List Obj) (t e : Obj) (w : World) :
    ∃ o w', splitStoreRest self str ⟨done ++ t :: rest, e⟩ done.length w = .ok (⟨done ++ o :: rest, e⟩, w') ∧
      Holds o s ∧ Sized o ∧ ∀ L, Owns w ((t.id, t.size) :: L) → Owns w' ((o.id, o.size) :: L) := by
  have hnf := hs.nulFree
  simp only [splitStoreRest, bind_run, ctorCStr_ok hs, collAssign_at (holds_mkObj hnf), dtor_run, pure_run]
  refine ⟨_, _, rfl, holds_mkObj hnf, sized_mkObj _ _, fun L hL => ?_⟩
  have h1 := (((hL.alloc (s.length + 1)).free_2nd).alloc (s.length + 1)).free_2nd
  simpa using h1

/-- the second loop of `split`: the tokens found by the scan are stored into the next elements of
    the collection; every temporary is released -/
theorem splitFill_ok {self : Obj} {dbuf : Buf} {d : Bytes} (hd : CAt dbuf 0 d) (e : Obj) :
    ∀ (n : Nat) (s : Bytes) (str : Nat) (done cur post : List Obj) (w : World), s.length < n →
      CAt self.buf str s → cur.length = (TextExt.splitScan d n s).1.length →
      ∃ new w', splitFill self dbuf (delimStep d) (TextExt.splitScan d n s).1.length done.length str
          ⟨done ++ cur ++ post, e⟩ w = .ok ((⟨done ++ new ++ post, e⟩, str + (TextExt.splitScan d n s).2), w') ∧
        HoldAll new (TextExt.splitScan d n s).1 ∧
        ∀ L, Owns w (ownedObjs cur ++ L) → Owns w' (ownedObjs new ++ L)
  | 0, _, _, _, _, _, _, h, _, _ => by simp at h
  | n + 1, [], str, done, cur, post, w, _, _, hc => by
    have : cur = [] := List.eq_nil_of_length_eq_zero (by simpa [TextExt.splitScan] using hc)
    subst this
    exact ⟨[], w, by simp [TextExt.splitScan, splitFill], by simp [TextExt.splitScan, HoldAll], fun L hL => hL⟩
  | n + 1, x :: t, str, done, cur, post, w, hn, hs, hc => by
    cases hst : TextExt.strStr (x :: t) d with
    | none =>
      have : cur = [] := List.eq_nil_of_length_eq_zero (by simpa [TextExt.splitScan, hst] using hc)
      subst this
      exact ⟨[], w, by simp [TextExt.splitScan, hst, splitFill], by simp [TextExt.splitScan, hst, HoldAll],
        fun L hL => hL⟩
    | some i =>
      have hle := strStr_step_le (by simp) hst
      have hpos := delimStep_pos d
      simp only [TextExt.splitScan, hst, List.length_cons] at hc ⊢
      match cur, hc with
      | c0 :: cur', hc =>
        have hc' : cur'.length = (TextExt.splitScan d n ((x :: t).drop (i + delimStep d))).1.length := by
          simpa using hc
        have e1 : i + str + delimStep d - str = i + delimStep d := by omega
        have e2 : done ++ c0 :: cur' ++ post = done ++ c0 :: (cur' ++ post) := by simp
        obtain ⟨o, w1, ho, hho, hso, hoo⟩ := splitStoreToken_ok hs (by simp) (i + delimStep d) done (cur' ++ post) c0 e w
        simp only [splitFill, bind_run, StrStr_ok hs hd, hst, Option.map_some, liftE_ok, e1, e2, ho]
        obtain ⟨new, w', hrec, hf2, hown⟩ := splitFill_ok hd e n ((x :: t).drop (i + delimStep d))
          (str + (i + delimStep d)) (done ++ [o]) cur' post w1
          (by simp at hn hle ⊢; omega) (hs.drop _ hle) hc'
        have e3 : done ++ o :: (cur' ++ post) = done ++ [o] ++ cur' ++ post := by simp
        have e4 : done.length + 1 = (done ++ [o]).length := by simp
        have e5 : i + str + delimStep d = str + (i + delimStep d) := by omega
        rw [e3, e4, e5, hrec]
        refine ⟨o :: new, w', ?_, ⟨hho, hso, hf2⟩, fun L hL => ?_⟩
        · simp [Nat.add_assoc]
        · have h1 : Owns w ((c0.id, c0.size) :: (ownedObjs cur' ++ L)) := by simpa [ownedObjs] using hL
          have h2 := hoo _ h1
          have h3 := hown ((o.id, o.size) :: L) (h2.perm List.perm_middle.symm)
          refine h3.perm ?_
          simp only [ownedObjs, List.map_cons, List.cons_append]
          exact List.perm_middle



theorem holdAll_length : ∀ {os : List Obj} {as : List Bytes}, HoldAll os as → os.length = as.length
  | [], [], _ => rfl
  | _ :: _, [], h => by simp [HoldAll] at h
  | [], _ :: _, h => by simp [HoldAll] at h
  | _ :: os, _ :: as, h => by simp [holdAll_length h.2.2]

theorem holdAll_append : ∀ {os : List Obj} {as : List Bytes} {o : Obj} {a : Bytes}, HoldAll os as → Holds o a → Sized o →
    HoldAll (os ++ [o]) (as ++ [a])
  | [], [], _, _, _, h, hs => by simp [HoldAll, h, hs]
  | _ :: _, [], _, _, h, _, _ => by simp [HoldAll] at h
  | [], _ :: _, _, _, h, _, _ => by simp [HoldAll] at h
  | _ :: os, _ :: as, _, _, h, ho, hs => ⟨h.1, h.2.1, holdAll_append h.2.2 ho hs⟩

theorem dtorAllRev_nil (w : World) : dtorAllRev [] w = .ok ((), w) := rfl

theorem split_ok {self delim : Obj} {a d : Bytes} (h : Holds self a) (hd : Holds delim d) (e : Obj) (w : World) :
    ∃ items w', split self delim ⟨[], e⟩ w = .ok (⟨items, e⟩, w') ∧ HoldAll items (TextExt.split a d) ∧
      ∀ L, Owns w L → Owns w' (ownedObjs items ++ L) := by
  have hstep : (if d.length ≠ 0 then d.length else 1) = delimStep d := rfl
  have hscan := splitScan_model (buf := self.buf) hd (a.length + 1) (self.buf.length + 1) a 0 0 (by omega)
    (by have := h.length_lt; omega) h
  simp only [Nat.zero_add] at hscan
  have hKle := splitScan_le d (a.length + 1) a
  generalize hT : (TextExt.splitScan d (a.length + 1) a).1 = T at hscan
  generalize hK : (TextExt.splitScan d (a.length + 1) a).2 = K at hscan hKle
  have hsplit : TextExt.split a d = T ++ (if K < a.length then [a.drop K] else if a.isEmpty ∧ ¬ d.isEmpty then [[]] else []) := by
    simp only [TextExt.split, hT, hK]
  simp only [split, bind_run, size_ok hd, liftE_ok, hstep, hscan, collAllocate, dtorAllRev_nil]
  have hrest := CAt.drop h K hKle
  simp only [Nat.zero_add] at hrest
  by_cases hlt : K < a.length
  · -- a non-empty remainder: one more token
    have hne : a.drop K ≠ [] := by
      intro hnil; have := congrArg List.length hnil; simp at this; omega
    obtain ⟨c, rest', hcr⟩ : ∃ c rest', a.drop K = c :: rest' := by
      cases hdk : a.drop K with
      | nil => exact absurd hdk hne
      | cons c r => exact ⟨c, r, rfl⟩
    have hrd : rd self.buf K = .ok c := by rw [hcr] at hrest; exact hrest.cons_rd
    have hc0 : c ≠ 0 := by rw [hcr] at hrest; exact hrest.cons_ne
    simp only [hrd, liftE_ok, hc0, ne_eq, not_false_eq_true, if_true, true_or]
    obtain ⟨items0, w0, ha0, hl0, hh0, ho0⟩ := ctorEmptyN_ok (T.length + 1) w
    simp only [ha0, pure_run]
    have hsp : items0 = [] ++ items0.take T.length ++ items0.drop T.length := by simp
    have hfill := splitFill_ok (self := self) hd e (a.length + 1) a 0 [] (items0.take T.length) (items0.drop T.length) w0
      (by omega) h (by rw [hT]; simp; omega)
    rw [hT, hK] at hfill
    obtain ⟨new, w1, hf1, hf2, hf3⟩ := hfill
    rw [← hsp] at hf1
    simp only [List.length_nil, Nat.zero_add, List.nil_append] at hf1
    simp only [hf1]
    have hnl : new.length = T.length := holdAll_length hf2
    obtain ⟨p0, hp0⟩ : ∃ p0, items0.drop T.length = [p0] := by
      have : (items0.drop T.length).length = 1 := by simp [hl0]
      match items0.drop T.length, this with
      | [p0], _ => exact ⟨p0, rfl⟩
    rw [hp0, ← hnl]
    obtain ⟨o, w2, hr1, hr2, hr3, hr4⟩ := splitStoreRest_ok (self := self) hrest new [] p0 e w1
    simp only [hr1]
    refine ⟨new ++ [o], w2, rfl, ?_, fun L hL => ?_⟩
    · rw [hsplit, if_pos hlt]; exact holdAll_append hf2 hr2 hr3
    · have h1 := ho0 L hL
      have e0 : ownedObjs items0 = ownedObjs (items0.take T.length) ++ [(p0.id, p0.size)] := by
        conv => lhs; rw [← List.take_append_drop T.length items0, hp0]
        simp [ownedObjs]
      rw [e0, List.append_assoc] at h1
      have h2 := hf3 _ h1
      have h3 := hr4 (ownedObjs new ++ L) (h2.perm (by simpa using List.perm_middle))
      refine h3.perm ?_
      simp only [ownedObjs, List.map_append, List.map_cons, List.map_nil, List.append_assoc, List.cons_append,
        List.nil_append]
      exact List.perm_middle.symm
  · have hKa : K = a.length := by omega
    have hnil : a.drop K = [] := by simp [hKa]
    rw [hnil] at hrest
    have hrd : rd self.buf K = .ok 0 := hrest.nil_rd
    simp only [hrd, liftE_ok, ne_eq, not_true_eq_false, if_false, false_or]
    by_cases hT0 : T.length = 0
    · -- no delimiter found and nothing left: the string is empty
      have hTnil : T = [] := List.eq_nil_of_length_eq_zero hT0
      have hK0 : K = 0 := by rw [← hK]; exact splitScan_toks_nil (by rw [hT]; exact hTnil)
      have ha : a = [] := List.eq_nil_of_length_eq_zero (by omega)
      subst ha
      subst hTnil
      simp only [List.length_nil, if_true, endsWith_ok h hd, liftE_ok, true_and, Nat.zero_add]
      by_cases hdn : d = []
      · subst hdn
        have : Text.endsWith [] [] = true := by decide
        simp only [this, Bool.true_eq_false, if_false, ctorEmptyN, pure_run, bind_run, splitFill]
        refine ⟨[], w, rfl, ?_, fun L hL => by simpa [ownedObjs] using hL⟩
        rw [hsplit]; simp [HoldAll]
      · have hew : Text.endsWith [] d = false := by
          apply Bool.eq_false_iff.mpr; intro h'
          have h1 := ((endsWith_iff [] d).mp h').1; simp only [List.length_nil] at h1
          exact hdn (List.eq_nil_of_length_eq_zero (by omega))
        simp only [hew, if_true]
        obtain ⟨items0, w0, ha0, hl0, hh0, ho0⟩ := ctorEmptyN_ok 1 w
        simp only [ha0, bind_run, splitFill, pure_run]
        obtain ⟨p0, hp0⟩ : ∃ p0, items0 = [p0] := by
          match items0, hl0 with
          | [p0], _ => exact ⟨p0, rfl⟩
        subst hp0
        rw [hK0] at hrest
        obtain ⟨o, w2, hr1, hr2, hr3, hr4⟩ := splitStoreRest_ok (self := self) hrest [] [] p0 e w0
        simp only [List.nil_append, List.length_nil] at hr1
        simp only [hK0, hr1]
        refine ⟨[o], w2, rfl, ?_, fun L hL => ?_⟩
        · rw [hsplit]
          have hde : d.isEmpty = false := by cases d <;> simp_all
          simp [HoldAll, hr2, hr3, hde]
        · have h1 := ho0 L hL
          have h2 := hr4 L (by simpa [ownedObjs] using h1)
          simpa [ownedObjs] using h2
    · -- the string ends with a delimiter: no extra token
      simp only [hT0, false_and, if_false, liftE_ok, Nat.add_zero]
      obtain ⟨items0, w0, ha0, hl0, hh0, ho0⟩ := ctorEmptyN_ok T.length w
      simp only [ha0, bind_run, pure_run]
      have hfill := splitFill_ok (self := self) hd e (a.length + 1) a 0 [] items0 [] w0
        (by omega) h (by rw [hT]; exact hl0)
      rw [hT, hK] at hfill
      obtain ⟨new, w1, hf1, hf2, hf3⟩ := hfill
      simp only [List.length_nil, Nat.zero_add, List.nil_append, List.append_nil] at hf1
      simp only [hf1]
      refine ⟨new, w1, rfl, ?_, fun L hL => hf3 L (ho0 L hL)⟩
      rw [hsplit, if_neg hlt]
      have hane : a.isEmpty = false := by
        cases a with
        | nil => simp [TextExt.splitScan] at hT; subst hT; simp at hT0
        | cons x t => rfl
      simpa [hane] using hf2



/-! ### the first-occurrence form of `split` is `Text.split` -/

theorem splitScan_fuel (d : Bytes) : ∀ (n m : Nat) (s : Bytes), s.length < n → s.length < m →
    TextExt.splitScan d n s = TextExt.splitScan d m s
  | 0, _, _, h, _ => by simp at h
  | _ + 1, 0, _, _, h => by simp at h
  | n + 1, m + 1, [], _, _ => by simp [TextExt.splitScan]
  | n + 1, m + 1, x :: t, hn, hm => by
    simp only [TextExt.splitScan]
    cases hst : TextExt.strStr (x :: t) d with
    | none => rfl
    | some i =>
      have hle := strStr_step_le (by simp) hst
      have hpos := delimStep_pos d
      simp only
      rw [splitScan_fuel d n m ((x :: t).drop (i + delimStep d)) (by simp at hn hle ⊢; omega) (by simp at hm hle ⊢; omega)]

/-- tokens and remainder put together, with `pre` still pending in front of the first one -/
def splitOut (pre : Bytes) (toks : List Bytes) (rem : Bytes) : List Bytes :=
  match toks with
  | [] => if (pre ++ rem).isEmpty then [] else [pre ++ rem]
  | tok :: r => (pre ++ tok) :: (r ++ (if rem.isEmpty then [] else [rem]))

theorem splitOut_nil (toks : List Bytes) (rem : Bytes) :
    splitOut [] toks rem = toks ++ (if rem.isEmpty then [] else [rem]) := by
  cases toks <;> simp [splitOut]

theorem isPrefixOf_take {d s : Bytes} (h : d.isPrefixOf s = true) : s.take d.length = d :=
  isPrefixOf_iff_take.mp h

theorem splitAux_eq (d : Bytes) (hd : d ≠ []) : ∀ (n : Nat) (s cur : Bytes), s.length < n →
    Text.splitAux n s d cur =
      splitOut cur.reverse (TextExt.splitScan d n s).1 (s.drop (TextExt.splitScan d n s).2)
  | 0, _, _, h => by simp at h
  | n + 1, [], cur, _ => by
    simp only [Text.splitAux, TextExt.splitScan, splitOut, List.drop_nil, List.append_nil, List.isEmpty_reverse]
  | n + 1, x :: t, cur, hn => by
    have hdl : delimStep d = d.length := by
      unfold delimStep; rw [if_pos (by simpa using hd)]
    have hpl : 0 < d.length := List.length_pos_iff.mpr hd
    by_cases hp : d.isPrefixOf (x :: t) = true
    · have hst : TextExt.strStr (x :: t) d = some 0 := (strStr_zero_iff _ _).mpr hp
      have hle := prefix_length_le hp
      simp only [Text.splitAux, hp, if_true, TextExt.splitScan, hst, Nat.zero_add, hdl, splitOut]
      rw [splitAux_eq d hd n ((x :: t).drop d.length) [] (by simp at hn hle ⊢; omega)]
      simp only [List.reverse_nil, splitOut_nil, List.drop_drop, isPrefixOf_take hp]
    · have hp' : d.isPrefixOf (x :: t) = false := Bool.eq_false_iff.mpr hp
      simp only [Text.splitAux, hp', Bool.false_eq_true, if_false]
      have hn' : t.length < n := by simp at hn; omega
      rw [splitAux_eq d hd n t (x :: cur) hn']
      have hstr : TextExt.strStr (x :: t) d = (TextExt.strStr t d).map (· + 1) := by
        simp [TextExt.strStr, hp']
      cases n with
      | zero => simp at hn'
      | succ m =>
        cases t with
        | nil =>
          have : TextExt.strStr [] d = none := by
            cases d with
            | nil => exact absurd rfl hd
            | cons y d' => simp [TextExt.strStr]
          simp [TextExt.splitScan, hstr, this, splitOut]
        | cons y t' =>
          cases hst : TextExt.strStr (y :: t') d with
          | none => simp [TextExt.splitScan, hstr, hst, splitOut]
          | some j =>
            have hle := strStr_step_le (by simp) hst
            have hfuel := splitScan_fuel d (m + 1) m ((y :: t').drop (j + delimStep d))
              (by simp at hn' hle ⊢; omega) (by simp at hn' hle ⊢; omega)
            have e1 : (x :: y :: t').drop (j + 1 + delimStep d) = (y :: t').drop (j + delimStep d) := by
              have : j + 1 + delimStep d = (j + delimStep d) + 1 := by omega
              rw [this]; rfl
            have e2 : (x :: y :: t').take (j + 1 + delimStep d) = x :: (y :: t').take (j + delimStep d) := by
              have : j + 1 + delimStep d = (j + delimStep d) + 1 := by omega
              rw [this]; rfl
            simp only [TextExt.splitScan, hstr, hst, Option.map_some, e1, e2, hfuel, splitOut, List.reverse_cons,
              List.append_assoc, List.singleton_append]
            congr 2
            have : j + 1 + delimStep d + (TextExt.splitScan d m ((y :: t').drop (j + delimStep d))).2 =
                (j + delimStep d + (TextExt.splitScan d m ((y :: t').drop (j + delimStep d))).2) + 1 := by omega
            rw [this]; rfl

/-- **for a non-empty string and a non-empty delimiter the first-occurrence form of `split` is the
    shared definition `Text.split`** -/
theorem split_eq_text_split {a d : Bytes} (ha : a ≠ []) (hd : d ≠ []) : TextExt.split a d = Text.split a d := by
  simp only [Text.split, splitAux_eq d hd (a.length + 1) a [] (by omega), List.reverse_nil, splitOut_nil, TextExt.split]
  have hle := splitScan_le d (a.length + 1) a
  have hae : a.isEmpty = false := by cases a <;> simp_all
  by_cases hlt : (TextExt.splitScan d (a.length + 1) a).2 < a.length
  · have hne : (a.drop (TextExt.splitScan d (a.length + 1) a).2).isEmpty = false := by
      apply Bool.eq_false_iff.mpr
      intro he
      have := congrArg List.length (List.isEmpty_iff.mp he)
      simp at this; omega
    simp [hlt, hne]
  · have hnil : a.drop (TextExt.splitScan d (a.length + 1) a).2 = [] := List.drop_eq_nil_of_le (by omega)
    simp [hlt, hnil, hae]



/-! ### printable -/

theorem isShort_iff (c : UInt8) : isControlWithShortEscapeSequence c = true ↔ (7 ≤ c ∧ c ≤ 13) := by
  simp [isControlWithShortEscapeSequence]

theorem isControl_iff (c : UInt8) : isControl c = true ↔ (c < 32 ∨ c = 127 ∨ 128 ≤ c) := by
  simp [isControl, or_assoc]

theorem printableByte_short {c : UInt8} (h : 7 ≤ c ∧ c ≤ 13) : printableByte c = [92, shortEscapeLetter c] := by
  simp [printableByte, h]

theorem printableByte_hex {c : UInt8} (h1 : ¬ (7 ≤ c ∧ c ≤ 13)) (h2 : c < 32 ∨ c = 127 ∨ 128 ≤ c) :
    printableByte c = [92, 120] ++ hex2 c := by
  simp [printableByte, h1, h2]

theorem printableByte_plain {c : UInt8} (h1 : ¬ (7 ≤ c ∧ c ≤ 13)) (h2 : ¬ (c < 32 ∨ c = 127 ∨ 128 ≤ c)) :
    printableByte c = [c] := by
  simp [printableByte, h1, h2]

theorem uint8_cases_7_13 {c : UInt8} (h : 7 ≤ c ∧ c ≤ 13) :
    c = 7 ∨ c = 8 ∨ c = 9 ∨ c = 10 ∨ c = 11 ∨ c = 12 ∨ c = 13 := by
  have h1 : (7 : UInt8).toNat ≤ c.toNat := UInt8.le_iff_toNat_le.mp h.1
  have h2 : c.toNat ≤ (13 : UInt8).toNat := UInt8.le_iff_toNat_le.mp h.2
  have h7 : (7 : UInt8).toNat = 7 := rfl
  have h13 : (13 : UInt8).toNat = 13 := rfl
  have : c.toNat = 7 ∨ c.toNat = 8 ∨ c.toNat = 9 ∨ c.toNat = 10 ∨ c.toNat = 11 ∨ c.toNat = 12 ∨ c.toNat = 13 := by omega
  rcases this with h | h | h | h | h | h | h
  · left; exact UInt8.toNat_inj.mp h
  · right; left; exact UInt8.toNat_inj.mp h
  · right; right; left; exact UInt8.toNat_inj.mp h
  · right; right; right; left; exact UInt8.toNat_inj.mp h
  · right; right; right; right; left; exact UInt8.toNat_inj.mp h
  · right; right; right; right; right; left; exact UInt8.toNat_inj.mp h
  · right; right; right; right; right; right; exact UInt8.toNat_inj.mp h

/-- the escape table entry of a byte 7…13 is the two-character C escape -/
theorem shortEscapeCode_at {c : UInt8} (h : 7 ≤ c ∧ c ≤ 13) :
    CAt (shortEscapeCode c) 0 [92, shortEscapeLetter c] := by
  rcases uint8_cases_7_13 h with rfl | rfl | rfl | rfl | rfl | rfl | rfl <;>
    exact ⟨by decide, [], rfl⟩

theorem hexDigitUpper_ne_zero (n : Nat) (h : n < 16) : hexDigitUpper n ≠ 0 := by
  unfold hexDigitUpper
  split
  · intro h0
    have := congrArg UInt8.toNat h0
    simp at this; omega
  · intro h0
    have := congrArg UInt8.toNat h0
    simp at this; omega

theorem nulFree_hex2 (c : UInt8) : NulFree (hex2 c) := by
  have := c.toNat_lt
  intro x hx
  simp only [hex2, List.mem_cons, List.not_mem_nil, or_false] at hx
  rcases hx with rfl | rfl
  · exact hexDigitUpper_ne_zero _ (by omega)
  · exact hexDigitUpper_ne_zero _ (by omega)

theorem shortEscapeLetter_ne_zero (c : UInt8) : shortEscapeLetter c ≠ 0 := by
  unfold shortEscapeLetter; split <;> decide

theorem nulFree_printableByte {c : UInt8} (hc : c ≠ 0) : NulFree (printableByte c) := by
  unfold printableByte
  split
  · exact nulFree_cons.mpr ⟨by decide, nulFree_cons.mpr ⟨shortEscapeLetter_ne_zero c, nulFree_nil⟩⟩
  · split
    · exact nulFree_append.mpr ⟨by decide, nulFree_hex2 c⟩
    · exact nulFree_cons.mpr ⟨hc, nulFree_nil⟩

theorem nulFree_printable {a : Bytes} (h : NulFree a) : NulFree (TextExt.printable a) := by
  induction a with
  | nil => exact nulFree_nil
  | cons x a ih =>
    have ⟨hx, ha⟩ := nulFree_cons.mp h
    simp only [TextExt.printable, List.flatMap_cons]
    exact nulFree_append.mpr ⟨nulFree_printableByte hx, ih ha⟩

theorem printable_cons (x : UInt8) (a : Bytes) : TextExt.printable (x :: a) = printableByte x ++ TextExt.printable a := by
  simp [TextExt.printable]

theorem getPrintableSizeLoop_ok : ∀ (s : Bytes) (buf : Buf) (i acc : Nat), CAt buf i s →
    getPrintableSizeLoop buf s.length i (acc + s.length) = .ok (acc + (TextExt.printable s).length)
  | [], _, _, _, _ => by simp [getPrintableSizeLoop, TextExt.printable]
  | x :: t, buf, i, acc, h => by
    simp only [List.length_cons, getPrintableSizeLoop, h.cons_rd, printable_cons, List.length_append]
    by_cases hs : 7 ≤ x ∧ x ≤ 13
    · have := getPrintableSizeLoop_ok t buf (i + 1) (acc + 2) h.tail
      simp only [(isShort_iff x).mpr hs, if_true, printableByte_short hs]
      have e : acc + (t.length + 1) + Gen.Str.printableSizeShort = acc + 2 + t.length := by
        simp only [Gen.Str.printableSizeShort]; omega
      rw [e, this]; simp; omega
    · have hs' : isControlWithShortEscapeSequence x = false := Bool.eq_false_iff.mpr (fun h => hs ((isShort_iff x).mp h))
      simp only [hs', Bool.false_eq_true, if_false]
      by_cases hc : x < 32 ∨ x = 127 ∨ 128 ≤ x
      · have := getPrintableSizeLoop_ok t buf (i + 1) (acc + 4) h.tail
        simp only [(isControl_iff x).mpr hc, if_true, printableByte_hex hs hc]
        have e : acc + (t.length + 1) + Gen.Str.printableSizeHex = acc + 4 + t.length := by
          simp only [Gen.Str.printableSizeHex]; omega
        rw [e, this]; simp [hex2]; omega
      · have hc' : isControl x = false := Bool.eq_false_iff.mpr (fun h => hc ((isControl_iff x).mp h))
        have := getPrintableSizeLoop_ok t buf (i + 1) (acc + 1) h.tail
        simp only [hc', Bool.false_eq_true, if_false, printableByte_plain hs hc]
        have e : acc + (t.length + 1) = acc + 1 + t.length := by omega
        rw [e, this]; simp; omega

theorem getPrintableSize_ok {self : Obj} {a : Bytes} (h : Holds self a) :
    getPrintableSize self = .ok (TextExt.printable a).length := by
  have := getPrintableSizeLoop_ok a self.buf 0 0 h
  simp only [Nat.zero_add] at this
  simp only [getPrintableSize, size_ok h, this]



/-- bytes that `printable()` escapes through `StringFromFormat("\\x%02X ", c)` -/
def isHexEscaped (c : UInt8) : Bool := !(isControlWithShortEscapeSequence c) && isControl c

/-- what `printf("\\x%02X ", c)` prints -/
def hexEscapeText (c : UInt8) : Bytes := [92, 120] ++ hex2 c ++ [32]

/-- the recorded `vsnprintf` results are what libc prints for the hex-escaped bytes of `s`, in order -/
def HexEnv (s : Bytes) (vs : List VsnRes) : Prop :=
  vs.map (·.text) = (s.filter isHexEscaped).map hexEscapeText ∧ ∀ r ∈ vs, r.ret < sizeOfdefaultBuffer

theorem nulFree_hexEscapeText (c : UInt8) : NulFree (hexEscapeText c) := by
  unfold hexEscapeText
  exact nulFree_append.mpr ⟨nulFree_append.mpr ⟨by decide, nulFree_hex2 c⟩, by decide⟩

theorem printableLoop_ok {src : Buf} :
    ∀ (s : Bytes) (i : Nat) (out room : Bytes) (w : World) (vs rest : List VsnRes), CAt src i s → HexEnv s vs →
      w.vsn = vs ++ rest → (TextExt.printable s).length ≤ room.length →
      ∃ w', printableLoop src s.length i out.length (out ++ room) w =
          .ok ((out ++ TextExt.printable s ++ room.drop (TextExt.printable s).length,
                out.length + (TextExt.printable s).length), w') ∧
        w'.vsn = rest ∧ w'.junk = w.junk ∧ ∀ L, Owns w L → Owns w' L
  | [], i, out, room, w, vs, rest, _, henv, hv, _ => by
    have : vs = [] := by
      have := henv.1
      simpa using this
    subst this
    exact ⟨w, by simp [printableLoop, TextExt.printable], by simpa using hv, rfl, fun L hL => hL⟩
  | x :: t, i, out, room, w, vs, rest, hs, henv, hv, hroom => by
    simp only [printable_cons, List.length_append] at hroom
    simp only [List.length_cons, printableLoop, bind_run, hs.cons_rd, liftE_ok, printable_cons]
    by_cases hsh : 7 ≤ x ∧ x ≤ 13
    · -- a C escape
      have hsb := (isShort_iff x).mpr hsh
      have hne : isHexEscaped x = false := by simp [isHexEscaped, hsb]
      have henv' : HexEnv t vs := by
        refine ⟨?_, henv.2⟩
        have := henv.1
        simpa [List.filter_cons, hne] using this
      simp only [hsb, if_true, bind_run]
      rw [printableByte_short hsh] at hroom ⊢
      have hsplit : room = room.take 2 ++ room.drop 2 := (List.take_append_drop _ _).symm
      have hcp := StrNCpy_ok_aux 2 [92, shortEscapeLetter x] (shortEscapeCode x) 0 out (room.take 2) (room.drop 2)
        (shortEscapeCode_at hsh) (by simp at hroom ⊢; omega)
      rw [List.append_assoc, ← hsplit] at hcp
      have hcz : (cz [92, shortEscapeLetter x]).take 2 = [92, shortEscapeLetter x] := rfl
      simp only [Gen.Str.shortEscapeCopy, Gen.Str.shortEscapeAdvance, hcp, hcz, liftE_ok]
      obtain ⟨w', h1, h2, h3, h4⟩ := printableLoop_ok t (i + 1) (out ++ [92, shortEscapeLetter x]) (room.drop 2) w vs rest
        hs.tail henv' hv (by simp at hroom ⊢; omega)
      have e1 : out.length + 2 = (out ++ [92, shortEscapeLetter x]).length := by simp
      rw [e1, h1]
      refine ⟨w', ?_, h2, h3, h4⟩
      simp [Nat.add_assoc, Nat.add_comm 2]
    · have hsb : isControlWithShortEscapeSequence x = false :=
        Bool.eq_false_iff.mpr (fun h => hsh ((isShort_iff x).mp h))
      simp only [hsb, Bool.false_eq_true, if_false]
      by_cases hc : x < 32 ∨ x = 127 ∨ 128 ≤ x
      · -- a hex escape: one formatted temporary
        have hcb := (isControl_iff x).mpr hc
        have hhe : isHexEscaped x = true := by simp [isHexEscaped, hsb, hcb]
        simp only [hcb, if_true, bind_run]
        rw [printableByte_hex hsh hc] at hroom ⊢
        obtain ⟨r, vs', hvs⟩ : ∃ r vs', vs = r :: vs' := by
          have := henv.1
          cases vs with
          | nil => simp [List.filter_cons, hhe] at this
          | cons r vs' => exact ⟨r, vs', rfl⟩
        subst hvs
        have htext : r.text = hexEscapeText x := by
          have := henv.1
          simp only [List.map_cons, List.filter_cons, hhe, if_true] at this
          exact (List.cons.inj this).1
        have henv' : HexEnv t vs' := by
          refine ⟨?_, fun r' hr' => henv.2 r' (List.mem_cons_of_mem _ hr')⟩
          have := henv.1
          simp only [List.map_cons, List.filter_cons, hhe, if_true] at this
          exact (List.cons.inj this).2
        have hret := henv.2 r (by simp)
        have hlen : r.text.length < sizeOfdefaultBuffer := by
          rw [htext]; simp [hexEscapeText, hex2, sizeOfdefaultBuffer, Gen.Str.sizeOfdefaultBuffer]
        have hnf : NulFree r.text := by rw [htext]; exact nulFree_hexEscapeText x
        obtain ⟨w1, hf1, hf2, hf3, hf4, hf5⟩ := stringFromFormat_fast (w := w) (r := r) (rest := vs' ++ rest)
          (by simpa using hv) hret hlen hnf
        simp only [hf1, mkObj_buf]
        have hsplit : room = room.take 4 ++ room.drop 4 := (List.take_append_drop _ _).symm
        have hcp := StrNCpy_ok_aux 4 r.text (r.text ++ [0]) 0 out (room.take 4) (room.drop 4) (CAt.mk_cz hnf)
          (by rw [htext]; simp [hexEscapeText, hex2] at hroom ⊢; omega)
        rw [List.append_assoc, ← hsplit] at hcp
        have hcz : (cz r.text).take 4 = [92, 120] ++ hex2 x := by rw [htext]; simp [cz, hexEscapeText, hex2]
        simp only [Gen.Str.hexEscapeCopy, Gen.Str.hexEscapeAdvance, hcp, hcz, liftE_ok, dtor_run, mkObj_id, mkObj_size]
        obtain ⟨w', h1, h2, h3, h4⟩ := printableLoop_ok t (i + 1) (out ++ ([92, 120] ++ hex2 x)) (room.drop 4)
          (w1.free (w.next + 4) (r.text.length + 1)) vs' rest hs.tail henv' (by simpa using hf2)
          (by simp [hex2] at hroom ⊢; omega)
        have e1 : out.length + 4 = (out ++ ([92, 120] ++ hex2 x)).length := by simp [hex2]
        rw [e1, h1]
        refine ⟨w', ?_, h2, by rw [h3]; simpa using hf3, fun L hL => h4 L (hf5 L hL).free_head⟩
        simp [hex2, Nat.add_assoc, Nat.add_comm 4]
      · -- an ordinary byte
        have hcb : isControl x = false := Bool.eq_false_iff.mpr (fun h => hc ((isControl_iff x).mp h))
        have hne : isHexEscaped x = false := by simp [isHexEscaped, hcb]
        have henv' : HexEnv t vs := by
          refine ⟨?_, henv.2⟩
          have := henv.1
          simpa [List.filter_cons, hne] using this
        simp only [hcb, Bool.false_eq_true, if_false, bind_run]
        rw [printableByte_plain hsh hc] at hroom ⊢
        match room, hroom with
        | [], hroom => simp at hroom
        | y :: room', hroom =>
          have e2 : out ++ x :: room' = out ++ [x] ++ room' := by simp
          simp only [wr_append, liftE_ok, e2]
          obtain ⟨w', h1, h2, h3, h4⟩ := printableLoop_ok t (i + 1) (out ++ [x]) room' w vs rest
            hs.tail henv' hv (by simp at hroom ⊢; omega)
          have e1 : out.length + 1 = (out ++ [x]).length := by simp
          rw [e1, h1]
          refine ⟨w', ?_, h2, h3, h4⟩
          simp [Nat.add_assoc, Nat.add_comm 1]


/-- **printable()** = the textbook escaping — given that `printf("\\x%02X ", c)` printed the hex
    escapes (libc, trusted): the result buffer is exactly `printable(a)` and its terminator, every
    formatted temporary is released -/
theorem printable_creates {self : Obj} {a : Bytes} (h : Holds self a) (w : World) (vs rest : List VsnRes)
    (henv : HexEnv a vs) (hv : w.vsn = vs ++ rest) :
    ∃ r w', printable self w = .ok (r, w') ∧ Holds r (TextExt.printable a) ∧ Sized r ∧ w'.vsn = rest ∧
      ∀ L, Owns w L → Owns w' ((r.id, r.size) :: L) := by
  have hnf := nulFree_printable h.nulFree
  simp only [printable, bind_run, ctorEmpty_ok, getPrintableSize_ok h, liftE_ok, setInternalBufferToNewBuffer,
    deallocateInternalBuffer, deallocStringBuffer_run, allocStringBuffer_run, size_ok h, mkObj_id, mkObj_size,
    List.length_nil, Nat.zero_add, free_junk, alloc_junk]
  have hw0 : wr (List.replicate ((TextExt.printable a).length + 1) w.junk) 0 0 =
      .ok (0 :: List.replicate (TextExt.printable a).length w.junk) := by
    simp [wr, List.replicate_succ]
  simp only [hw0, liftE_ok, pure_run]
  obtain ⟨w', h1, h2, h3, h4⟩ := printableLoop_ok (src := self.buf) a 0 [] (0 :: List.replicate (TextExt.printable a).length w.junk)
    (((w.alloc 1).free w.next 1).alloc ((TextExt.printable a).length + 1)) vs rest h henv
    (by simpa using hv) (by simp)
  simp only [List.nil_append, List.length_nil, Nat.zero_add] at h1
  simp only [h1]
  have hdrop : (0 :: List.replicate (TextExt.printable a).length w.junk).drop (TextExt.printable a).length =
      [if (TextExt.printable a).length = 0 then 0 else w.junk] := by
    cases hl : (TextExt.printable a).length with
    | zero => simp
    | succ k => simp [List.drop_replicate]
  rw [hdrop]
  have hw1 := wr_append (pre := TextExt.printable a) (x := if (TextExt.printable a).length = 0 then 0 else w.junk)
    (post := []) 0
  simp only [hw1, liftE_ok]
  refine ⟨_, _, rfl, CAt.mk_cz hnf, by simp [Sized], h2, fun L hL => ?_⟩
  have := h4 _ (((hL.alloc 1).free_head).alloc ((TextExt.printable a).length + 1))
  simpa using this



/-! ### StringFromBinary: hex pairs joined by single blanks -/

/-- what `printf("%02X ", b)` prints -/
def hexPairSp (b : UInt8) : Bytes := hex2 b ++ [32]

def BinEnv (x : Bytes) (vs : List VsnRes) : Prop :=
  vs.map (·.text) = x.map hexPairSp ∧ ∀ r ∈ vs, r.ret < sizeOfdefaultBuffer

theorem nulFree_hexPairSp (b : UInt8) : NulFree (hexPairSp b) :=
  nulFree_append.mpr ⟨nulFree_hex2 b, by decide⟩

theorem nulFree_flatMap {f : UInt8 → Bytes} (hf : ∀ b, NulFree (f b)) : ∀ (x : Bytes), NulFree (x.flatMap f)
  | [] => nulFree_nil
  | b :: t => by
    simp only [List.flatMap_cons]
    exact nulFree_append.mpr ⟨hf b, nulFree_flatMap hf t⟩

theorem flat_eq_join : ∀ (x : Bytes), x ≠ [] → x.flatMap hexPairSp = TextExt.binary x ++ [32]
  | [], h => absurd rfl h
  | [b], _ => by simp [TextExt.binary, joinSp, hexPairSp]
  | b :: c :: t, _ => by
    have ih := flat_eq_join (c :: t) (by simp)
    simp only [List.flatMap_cons] at ih ⊢
    rw [ih]
    simp [TextExt.binary, joinSp, hexPairSp]

theorem binaryLoop_ok : ∀ (x : Bytes) (result : Obj) (acc : Bytes) (w : World) (vs rest : List VsnRes),
    Holds result acc → Sized result → BinEnv x vs → w.vsn = vs ++ rest →
    ∃ r w', binaryLoop x.length result w = .ok (r, w') ∧ Holds r (acc ++ x.flatMap hexPairSp) ∧ Sized r ∧
      w'.vsn = rest ∧ ∀ L, Owns w ((result.id, result.size) :: L) → Owns w' ((r.id, r.size) :: L)
  | [], result, acc, w, vs, rest, h, hsz, henv, hv => by
    have : vs = [] := by simpa using henv.1
    subst this
    exact ⟨result, w, rfl, by simpa using h, hsz, by simpa using hv, fun L hL => hL⟩
  | b :: t, result, acc, w, vs, rest, h, _, henv, hv => by
    obtain ⟨r, vs', hvs⟩ : ∃ r vs', vs = r :: vs' := by
      have := henv.1
      cases vs with
      | nil => simp at this
      | cons r vs' => exact ⟨r, vs', rfl⟩
    subst hvs
    have htext : r.text = hexPairSp b := by
      have := henv.1
      simp only [List.map_cons] at this
      exact (List.cons.inj this).1
    have henv' : BinEnv t vs' := by
      refine ⟨?_, fun r' hr' => henv.2 r' (List.mem_cons_of_mem _ hr')⟩
      have := henv.1
      simp only [List.map_cons] at this
      exact (List.cons.inj this).2
    have hret := henv.2 r (by simp)
    have hlen : r.text.length < sizeOfdefaultBuffer := by
      rw [htext]; simp [hexPairSp, hex2, sizeOfdefaultBuffer, Gen.Str.sizeOfdefaultBuffer]
    have hnf : NulFree r.text := by rw [htext]; exact nulFree_hexPairSp b
    obtain ⟨w1, hf1, hf2, hf3, hf4, hf5⟩ := stringFromFormat_fast (w := w) (r := r) (rest := vs' ++ rest)
      (by simpa using hv) hret hlen hnf
    obtain ⟨r2, w2, ha1, ha2, ha3, ha4⟩ := appendC_replaces h (holds_mkObj (i := w.next + 4) hnf) w1
    simp only [List.length_cons, binaryLoop, bind_run, hf1, mkObj_buf, dtor_run]
    have ha1' : appendC result (r.text ++ [0]) 0 w1 = .ok (r2, w2) := ha1
    simp only [ha1']
    have hw2v : w2.vsn = w1.vsn := by
      rw [appendC_ok h (holds_mkObj (i := w.next + 4) hnf)] at ha1
      injection ha1 with ha1; injection ha1 with _ ha1; rw [← ha1]; simp
    obtain ⟨r3, w3, hb1, hb2, hb3, hb4, hb5⟩ := binaryLoop_ok t r2 (acc ++ r.text) (w2.free (w.next + 4) (r.text.length + 1))
      vs' rest ha2 ha3 henv' (by simp [hw2v, hf2])
    refine ⟨r3, w3, by simpa using hb1, ?_, hb3, hb4, fun L hL => ?_⟩
    · simpa [htext, List.append_assoc] using hb2
    · have h1 := hf5 _ hL
      have h2 := ha4 ((w.next + 4, r.text.length + 1) :: L) (h1.perm (List.Perm.swap _ _ _))
      exact hb5 L (h2.free_2nd)

/-- **StringFromBinary** = two upper-case hex digits per byte, single blanks between — given that
    `printf("%02X ", b)` printed each pair (libc, trusted); all temporaries released -/
theorem stringFromBinary_creates (x : Bytes) (w : World) (vs rest : List VsnRes) (henv : BinEnv x vs)
    (hv : w.vsn = vs ++ rest) :
    ∃ r w', stringFromBinary x.length w = .ok (r, w') ∧ Holds r (TextExt.binary x) ∧ Sized r ∧ w'.vsn = rest ∧
      ∀ L, Owns w L → Owns w' ((r.id, r.size) :: L) := by
  simp only [stringFromBinary, bind_run, ctorEmpty_ok]
  obtain ⟨r1, w1, h1, h2, h3, h4, h5⟩ := binaryLoop_ok x (mkObj w.next []) [] (w.alloc 1) vs rest
    (holds_mkObj nulFree_nil) (sized_mkObj _ _) henv (by simpa using hv)
  simp only [List.nil_append] at h2
  simp only [h1, size_ok h2, liftE_ok]
  have hnf : NulFree (TextExt.binary x) := by
    cases x with
    | nil => simp [TextExt.binary, joinSp, NulFree]
    | cons b t =>
      have := nulFree_flatMap nulFree_hexPairSp (b :: t)
      rw [flat_eq_join (b :: t) (by simp)] at this
      exact (nulFree_append.mp this).1
  have hsub : Text.subString (x.flatMap hexPairSp) 0
      (if (x.flatMap hexPairSp).length = 0 then npos else (x.flatMap hexPairSp).length - 1) = TextExt.binary x := by
    cases x with
    | nil => simp [Text.subString, TextExt.binary, joinSp]
    | cons b t =>
      rw [flat_eq_join (b :: t) (by simp)]
      simp [Text.subString]
  obtain ⟨r2, w2, hs1, hs2, hs3, hs4⟩ := subString_creates h2 0
    (if (x.flatMap hexPairSp).length = 0 then npos else (x.flatMap hexPairSp).length - 1) w1
  rw [hsub] at hs2
  simp only [hs1, assign_ok r1 hs2, dtor_run, pure_run]
  have hw2v : w2.vsn = w1.vsn := by
    have := subString_ok h2 0 (if (x.flatMap hexPairSp).length = 0 then npos else (x.flatMap hexPairSp).length - 1) w1
    rw [hs1] at this
    split at this <;> (injection this with this; injection this with _ this; rw [this]; simp)
  refine ⟨_, _, rfl, holds_mkObj hnf, sized_mkObj _ _, by simp [hw2v, h4], fun L hL => ?_⟩
  have g1 := h5 L (hL.alloc 1)
  have g2 := hs4 _ g1
  have g3 := ((g2.free_2nd).alloc ((TextExt.binary x).length + 1)).free_2nd
  simpa using g3



/-! ### StringFromMaskedBits -/

theorem and_two_pow_ne_zero (x j : Nat) : (x &&& 2 ^ j ≠ 0) ↔ x.testBit j = true := by
  constructor
  · intro h
    cases hb : x.testBit j with
    | true => rfl
    | false =>
      exfalso; apply h
      apply Nat.eq_of_testBit_eq
      intro i
      simp only [Nat.testBit_and, Nat.testBit_two_pow, Nat.zero_testBit]
      by_cases hji : j = i
      · subst hji; simp [hb]
      · simp [hji]
  · intro hb h0
    have := congrArg (fun y => y.testBit j) h0
    simp [Nat.testBit_and, hb] at this

/-- `val` is `v` after `i` left shifts on a 64-bit `unsigned long` -/
def ShiftedBy (v i val : Nat) : Prop := ∀ j, j < 64 → val.testBit j = (decide (i ≤ j) && v.testBit (j - i))

theorem shiftedBy_zero (v : Nat) : ShiftedBy v 0 v := by intro j _; simp

theorem shiftedBy_succ {v i val : Nat} (h : ShiftedBy v i val) :
    ShiftedBy v (i + 1) ((val <<< 1) % 18446744073709551616) := by
  intro j hj
  have e : (18446744073709551616 : Nat) = 2 ^ 64 := by decide
  rw [e, Nat.testBit_mod_two_pow, Nat.testBit_shiftLeft]
  simp only [hj, decide_true, Bool.true_and]
  by_cases hj1 : j ≥ 1
  · rw [h (j - 1) (by omega)]
    simp only [hj1, decide_true, Bool.true_and]
    have e2 : j - 1 - i = j - (i + 1) := by omega
    rw [e2]
    congr 1
    simp; omega
  · have : j = 0 := by omega
    subst this; simp

theorem shiftedBy_test {v i val B : Nat} (h : ShiftedBy v i val) (hB : B ≤ 64) (hi : i < B) :
    (val &&& (1 <<< (B - 1)) ≠ 0) ↔ v.testBit (B - 1 - i) = true := by
  rw [Nat.one_shiftLeft, and_two_pow_ne_zero, h (B - 1) (by omega)]
  have : i ≤ B - 1 := by omega
  simp [this]

/-- one position of the masked-bits text -/
def maskedCell (v m B i : Nat) : Bytes :=
  (if m.testBit (B - 1 - i) then (if v.testBit (B - 1 - i) then [49] else [48]) else [120]) ++
    (if i % 8 = 7 ∧ i ≠ B - 1 then [32] else [])

theorem nulFree_maskedCell (v m B i : Nat) : NulFree (maskedCell v m B i) := by
  unfold maskedCell
  apply nulFree_append.mpr
  constructor
  · split
    · split <;> decide
    · decide
  · split <;> decide

theorem lit1_at (c : UInt8) (hc : c ≠ 0) : CAt [c, 0] 0 [c] := ⟨by simp [NulFree, hc], [], rfl⟩

theorem maskedBitsLoop_ok {v m B : Nat} (hB : B ≤ 64) :
    ∀ (k i value mask : Nat) (result : Obj) (acc : Bytes) (w : World), i + k = B → ShiftedBy v i value →
      ShiftedBy m i mask → Holds result acc → Sized result →
      ∃ r w', maskedBitsLoop B k i value mask result w = .ok (r, w') ∧
        Holds r (acc ++ (List.range' i k).flatMap (maskedCell v m B)) ∧ Sized r ∧
        ∀ L, Owns w ((result.id, result.size) :: L) → Owns w' ((r.id, r.size) :: L)
  | 0, i, value, mask, result, acc, w, _, _, _, h, hs =>
    ⟨result, w, rfl, by simpa using h, hs, fun L hL => hL⟩
  | k + 1, i, value, mask, result, acc, w, hik, hv, hm, h, hs => by
    have hi : i < B := by omega
    have hmt := shiftedBy_test hm hB hi
    have hvt := shiftedBy_test hv hB hi
    -- the bit character
    obtain ⟨c, hc, hlit, hcell⟩ : ∃ c : UInt8, c ≠ 0 ∧
        (if mask &&& (1 <<< (B - 1)) ≠ 0 then (if value &&& (1 <<< (B - 1)) ≠ 0 then [49, 0] else [48, 0]) else [120, 0]) = [c, 0] ∧
        (if m.testBit (B - 1 - i) then (if v.testBit (B - 1 - i) then [49] else [48]) else [120]) = [c] := by
      by_cases h1 : m.testBit (B - 1 - i) = true
      · by_cases h2 : v.testBit (B - 1 - i) = true
        · exact ⟨49, by decide, by rw [if_pos (hmt.mpr h1), if_pos (hvt.mpr h2)], by simp [h1, h2]⟩
        · have h2' : ¬ (value &&& (1 <<< (B - 1)) ≠ 0) := fun hx => h2 (hvt.mp hx)
          exact ⟨48, by decide, by rw [if_pos (hmt.mpr h1), if_neg h2'], by simp [h1, h2]⟩
      · have h1' : ¬ (mask &&& (1 <<< (B - 1)) ≠ 0) := fun hx => h1 (hmt.mp hx)
        exact ⟨120, by decide, by rw [if_neg h1'], by simp [h1]⟩
    simp only [maskedBitsLoop, bind_run, hlit]
    obtain ⟨r1, w1, ha1, ha2, ha3, ha4⟩ := appendC_replaces h (lit1_at c hc) w
    simp only [ha1]
    by_cases hsp : i % 8 = 7 ∧ i ≠ B - 1
    · simp only [hsp, and_self, if_true, ne_eq, not_false_eq_true]
      obtain ⟨r2, w2, hb1, hb2, hb3, hb4⟩ := appendC_replaces ha2 (lit1_at 32 (by decide)) w1
      simp only [hb1]
      obtain ⟨r3, w3, hc1, hc2, hc3, hc4⟩ := maskedBitsLoop_ok hB k (i + 1) ((value <<< 1) % 18446744073709551616)
        ((mask <<< 1) % 18446744073709551616) r2 (acc ++ [c] ++ [32]) w2 (by omega) (shiftedBy_succ hv)
        (shiftedBy_succ hm) hb2 hb3
      refine ⟨r3, w3, hc1, ?_, hc3, fun L hL => hc4 L (hb4 L (ha4 L hL))⟩
      simpa [List.range'_succ, maskedCell, hcell, hsp] using hc2
    · simp only [hsp, if_false, pure_run]
      obtain ⟨r3, w3, hc1, hc2, hc3, hc4⟩ := maskedBitsLoop_ok hB k (i + 1) ((value <<< 1) % 18446744073709551616)
        ((mask <<< 1) % 18446744073709551616) r1 (acc ++ [c]) w1 (by omega) (shiftedBy_succ hv)
        (shiftedBy_succ hm) ha2 ha3
      refine ⟨r3, w3, hc1, ?_, hc3, fun L hL => hc4 L (ha4 L hL)⟩
      simpa [List.range'_succ, maskedCell, hcell, hsp] using hc2

/-- **StringFromMaskedBits** = the textbook rendering (`byteCount ≥ 1`), all temporaries released -/
theorem stringFromMaskedBits_creates (v m k : Nat) (w : World) :
    Creates (stringFromMaskedBits v m k) w (fun r => Holds r (TextExt.maskedBits v m k)) := by
  have hbc : (if k > 8 then 64 else k * 8) = min k 8 * 8 := by split <;> omega
  have hB : min k 8 * 8 ≤ 64 := by omega
  simp only [Creates, stringFromMaskedBits, bind_run, ctorEmpty_ok, hbc]
  obtain ⟨r, w', h1, h2, h3, h4⟩ := maskedBitsLoop_ok (v := v) (m := m) hB (min k 8 * 8) 0 v m (mkObj w.next []) []
    (w.alloc 1) (by omega) (shiftedBy_zero v) (shiftedBy_zero m) (holds_mkObj nulFree_nil) (sized_mkObj _ _)
  refine ⟨r, w', h1, ?_, h3, fun L hL => h4 L (hL.alloc 1)⟩
  have : TextExt.maskedBits v m k = (List.range' 0 (min k 8 * 8)).flatMap (maskedCell v m (min k 8 * 8)) := by
    simp only [TextExt.maskedBits, List.range_eq_range']
    rfl
  rw [this]
  simpa using h2

end SStr
