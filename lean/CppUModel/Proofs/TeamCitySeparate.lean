import CppUModel.Model.TeamCitySeparate
import CppUModel.Proofs.TeamCityRun
/-! Lemmas for the `-p` stream: interleavings of events that keep a test open keep it open. -/
namespace TeamCity
open Text (Bytes)
open OutEv

theorem Interleave.mem {α : Type} {a b c : List α} (h : Interleave a b c) : ∀ x ∈ c, x ∈ a ∨ x ∈ b := by
  induction h with
  | nil => intro x hx; simp at hx
  | left y _ ih =>
    intro x hx
    rcases List.mem_cons.mp hx with rfl | hx
    · exact Or.inl (List.mem_cons_self ..)
    · rcases ih x hx with h | h
      · exact Or.inl (List.mem_cons_of_mem _ h)
      · exact Or.inr h
  | right y _ ih =>
    intro x hx
    rcases List.mem_cons.mp hx with rfl | hx
    · exact Or.inr (List.mem_cons_self ..)
    · rcases ih x hx with h | h
      · exact Or.inl h
      · exact Or.inr (List.mem_cons_of_mem _ h)

theorem Interleave.length {α : Type} {a b c : List α} (h : Interleave a b c) : c.length = a.length + b.length := by
  induction h with
  | nil => rfl
  | left y _ ih => simp [ih]; omega
  | right y _ ih => simp [ih]; omega

theorem InnerOK_parentEvs (t : TestInfo) (r : SepProc.LoopResult) : InnerOK t (parentEvs t r) := by
  intro e he
  simp only [parentEvs, List.mem_map] at he
  obtain ⟨f, _, rfl⟩ := he
  exact msgFailure_testName t _

theorem InnerOK_interleave {t : TestInfo} {a b c : List Ev} (h : Interleave a b c) (ha : InnerOK t a) (hb : InnerOK t b) :
    InnerOK t c := by
  intro e he
  rcases h.mem e he with h | h
  · exact ha e h
  · exact hb e h

theorem Interleave.prepend_left {α : Type} (p : List α) {a b c : List α} (h : Interleave a b c) :
    Interleave (p ++ a) b (p ++ c) := by
  induction p with
  | nil => exact h
  | cons x p ih => exact Interleave.left x ih

theorem Interleave.prepend_right {α : Type} (p : List α) {a b c : List α} (h : Interleave a b c) :
    Interleave a (p ++ b) (p ++ c) := by
  induction p with
  | nil => exact h
  | cons x p ih => exact Interleave.right x ih

theorem Interleave.all_left {α : Type} : ∀ (a : List α), Interleave a [] a
  | [] => Interleave.nil
  | x :: a => Interleave.left x (Interleave.all_left a)

theorem ok_step_state (t : TestInfo) (s : St) (e : Ev) (he : okEv t e) : (step s e).1 = s := by
  have h := (inner_keeps_open t [] [e] s (fun x hx => by
    have : x = e := by simpa using hx
    subst this; exact he)).2
  simpa [stAfter_cons, stAfter_nil] using h

/-- the messages of an interleaving of events that leave the writer's state alone are an interleaving of the messages -/
theorem msgs_interleave (t : TestInfo) (s : St) {a b c : List Ev} (h : Interleave a b c) :
    InnerOK t a → InnerOK t b → Interleave (msgsFrom s a) (msgsFrom s b) (msgsFrom s c) := by
  induction h with
  | nil => intro _ _; exact Interleave.nil
  | left x _ ih =>
    intro ha hb
    have hx := ok_step_state t s x (ha x (List.mem_cons_self ..))
    rw [msgsFrom_cons, msgsFrom_cons, hx]
    exact Interleave.prepend_left _ (ih (fun y hy => ha y (List.mem_cons_of_mem _ hy)) hb)
  | right y _ ih =>
    intro ha hb
    have hy := ok_step_state t s y (hb y (List.mem_cons_self ..))
    rw [msgsFrom_cons, msgsFrom_cons, hy]
    exact Interleave.prepend_right _ (ih ha (fun z hz => hb z (List.mem_cons_of_mem _ hz)))

theorem sepTestEvs_eq (t : TestInfo) (mid : List Ev) (ms c : Nat) (late : List Ev) :
    sepTestEvs t mid ms c late = [Ev.testStarted t] ++ (mid ++ ([Ev.testEnded ms c] ++ late)) := rfl

theorem started_state (t : TestInfo) (s : St) : stAfter s [Ev.testStarted t] = { s with currTest := some t.name } := by
  simp [stAfter_cons, stAfter_nil, step_eq_hand, stepHand]

theorem started_msgs (t : TestInfo) (hw : t.willRun = true) (s : St) : msgsFrom s [Ev.testStarted t] = [.testStarted t.name] := by
  simp [msgsFrom_cons, msgsFrom_nil, msgsOf, hw]

/-- a `-p` test block whose child events all arrive while the parent waits keeps the suite open and closes the test -/
theorem block_keeps_suite (t : TestInfo) (hw : t.willRun = true) (mid : List Ev) (hm : InnerOK t mid) (ms c : Nat) (s : St)
    (g : Bytes) : runB (.inSuite g) s (sepTestEvs t mid ms c []) = some (.inSuite g) ∧
      stAfter s (sepTestEvs t mid ms c []) = { s with currTest := some t.name } := by
  have ha := inner_keeps_open t g mid { s with currTest := some t.name } hm
  have h1 : runB (.inSuite g) s [Ev.testStarted t] = some (.inTest g t.name) := by
    simp [runB, started_msgs t hw, balRun, balStep]
  rw [sepTestEvs_eq, List.append_nil]
  constructor
  · rw [runB_append, h1, started_state, Option.bind_some, runB_append, ha.1, ha.2, Option.bind_some]
    simp [runB, msgsFrom_cons, msgsFrom_nil, msgsOf, balRun, balStep]
  · rw [stAfter_append, stAfter_append, started_state, ha.2]
    simp [stAfter_cons, stAfter_nil, step_eq_hand, stepHand]

/-- the messages of a `-p` test block, whatever arrives late -/
theorem block_msgs (t : TestInfo) (hw : t.willRun = true) (mid : List Ev) (hm : InnerOK t mid) (ms c : Nat) (late : List Ev)
    (s : St) : msgsFrom s (sepTestEvs t mid ms c late) =
      [.testStarted t.name] ++ (msgsFrom { s with currTest := some t.name } mid ++
        ([.testFinished t.name ms] ++ msgsFrom { s with currTest := some t.name } late)) := by
  have hst := (inner_keeps_open t [] mid { s with currTest := some t.name } hm).2
  rw [sepTestEvs_eq, msgsFrom_append, msgsFrom_append, msgsFrom_append, started_state, started_msgs t hw, hst]
  congr 2
  all_goals simp [msgsFrom_cons, msgsFrom_nil, msgsOf, stAfter_cons, stAfter_nil, step_eq_hand, stepHand]

theorem block_failures_open (t : TestInfo) (hw : t.willRun = true) (mid : List Ev) (hm : InnerOK t mid) (ms c : Nat) (s : St)
    (cur : Option Bytes) : failuresInOpenTest cur (msgsFrom s (sepTestEvs t mid ms c [])) = true := by
  have ha := inner_failures_open t mid { s with currTest := some t.name } hm
  rw [block_msgs t hw mid hm, failuresInOpenTest_append, failuresInOpenTest_append]
  simp [failuresInOpenTest, openAfter, ha.1, ha.2, msgsFrom_nil]

/-- a failure event of the child that arrives after the parent wrote `testFinished` is a `testFailed` outside any open test -/
theorem block_late_failure (t : TestInfo) (hw : t.willRun = true) (mid : List Ev) (hm : InnerOK t mid) (ms c : Nat) (s : St)
    (cur : Option Bytes) (f : Failure) (rest : List Ev) :
    failuresInOpenTest cur (msgsFrom s (sepTestEvs t mid ms c (Ev.failure f :: rest))) = false := by
  have ha := inner_failures_open t mid { s with currTest := some t.name } hm
  rw [block_msgs t hw mid hm, failuresInOpenTest_append, failuresInOpenTest_append, failuresInOpenTest_append]
  simp [failuresInOpenTest, openAfter, ha.2, msgsFrom_cons, msgsOf]

/-- the loop of a `-p` run is balanced as soon as every test's block keeps its suite open -/
theorem sepLoop_balanced (blk : Script → R → List Ev) (flt : Option Filter)
    (hblk : ∀ (t : Script) (r : R) (s : St) (g : Bytes), s.currGroup = g →
      runB (.inSuite g) s (blk t r) = some (.inSuite g) ∧ (stAfter s (blk t r)).currGroup = g) :
    ∀ (tests : List Script) (gs : Bool) (g0 : Nat) (r : R) (s : St) (p : Phase),
    (∀ t ∈ tests, t.info.group ≠ []) → LoopInv gs s p tests →
    runB p s (sepLoop blk flt gs g0 r tests) = some .idle
  | [], gs, g0, r, s, p, _, inv => by
    rcases inv with ⟨_, hp⟩ | ⟨_, _, t, rest, h, _⟩
    · subst hp; simp [sepLoop, runB, msgsFrom_cons, msgsFrom_nil, msgsOf, balRun, balStep]
    · cases h
  | t :: rest, gs, g0, r, s, p, hne, inv => by
    have hgne : t.info.group ≠ [] := hne t (List.mem_cons_self ..)
    have hstart : runB p s (startEvs gs t) = some (.inSuite t.info.group) ∧
        (stAfter s (startEvs gs t)).currGroup = t.info.group := by
      rcases inv with ⟨hgs, hp⟩ | ⟨hgs, hp, t', rest', h, hg⟩
      · subst hgs; subst hp
        simp [startEvs, runB, msgsFrom_cons, msgsFrom_nil, stAfter_cons, stAfter_nil, msgsOf, step_eq_hand, stepHand, balRun, balStep]
      · subst hgs
        cases h
        simp [startEvs, runB_nil, stAfter_nil, hp, hg]
    have hbody : runB (.inSuite t.info.group) (stAfter s (startEvs gs t))
          (if shouldRun flt t.info then blk t (countTest r) else []) = some (.inSuite t.info.group) ∧
        (stAfter (stAfter s (startEvs gs t)) (if shouldRun flt t.info then blk t (countTest r) else [])).currGroup = t.info.group := by
      split
      · exact hblk t _ _ _ hstart.2
      · exact ⟨rfl, hstart.2⟩
    simp only [sepLoop]
    rw [List.append_assoc, List.append_assoc, runB_append, hstart.1, Option.bind_some, runB_append, hbody.1, Option.bind_some,
      runB_append]
    generalize hs2 : stAfter (stAfter s (startEvs gs t)) (if shouldRun flt t.info then blk t (countTest r) else []) = s2 at hbody ⊢
    have hcg : s2.currGroup = t.info.group := hbody.2
    unfold endEvs
    cases he : endOfGroup t rest
    · simp only [Bool.false_eq_true, if_false, runB_nil, stAfter_nil, Option.bind_some]
      apply sepLoop_balanced blk flt hblk rest false _ _ s2 _ (fun x hx => hne x (List.mem_cons_of_mem _ hx))
      right
      refine ⟨rfl, by rw [hcg], ?_⟩
      cases rest with
      | nil => simp [endOfGroup] at he
      | cons n rest' =>
        refine ⟨n, rest', rfl, ?_⟩
        simp only [endOfGroup, bne_eq_false_iff_eq] at he
        rw [hcg]; exact he.symm
    · have h1 : runB (.inSuite t.info.group) s2 [Ev.groupEnded ((bodyR flt t r).clock - if gs = true then r.clock else g0)] =
          some .idle := by
        simp [runB, msgsFrom_cons, msgsFrom_nil, msgsOf, balRun, balStep, hcg, hgne]
      simp only [if_true, h1, Option.bind_some]
      apply sepLoop_balanced blk flt hblk rest true _ _ _ _ (fun x hx => hne x (List.mem_cons_of_mem _ hx))
      left; exact ⟨rfl, rfl⟩

/-- the blocks of a run in which the parent always waits keep their suite open -/
theorem WaitingRun.keeps (w : WaitingRun) (t : Script) (r : R) (s : St) (g : Bytes) (hg : s.currGroup = g) :
    runB (.inSuite g) s (w.blk t r) = some (.inSuite g) ∧ (stAfter s (w.blk t r)).currGroup = g := by
  cases hw : t.info.willRun
  · rw [w.ign t r hw]; exact test_keeps_suite t r s g hg
  · rw [w.run t r hw]
    have hm := InnerOK_interleave (w.inter t r) (InnerOK_testInner _ _) (InnerOK_parentEvs _ _)
    have h := block_keeps_suite t.info hw (w.mid t r) hm (w.ms t r) (w.chk t r) s g
    exact ⟨h.1, by rw [h.2]; exact hg⟩

end TeamCity
