import CppUModel.Proofs.TeamCity
/-!
Helper lemmas for C20, part 3: the specification's stream parser reads the rendering of a message
list back (`parse_renderAll`).  Pieces: `takeUntil` over a literal, one attribute, the decimal
round trip of a duration, one message, text that contains no `#`.
-/
set_option linter.unusedSimpArgs false
namespace TeamCity
open Text (Bytes)
open OutEv

/-! ## small list facts -/

theorem isPrefixOf_append_self (a b : Bytes) : a.isPrefixOf (a ++ b) = true := by
  induction a with
  | nil => simp [List.isPrefixOf]
  | cons x a ih => simp [List.isPrefixOf, ih]

theorem drop_length_append (a b : Bytes) : (a ++ b).drop a.length = b := by simp

theorem takeUntil_append (stop : UInt8 → Bool) (c : UInt8) (y : Bytes) (hc : stop c = true) :
    ∀ (a acc : Bytes), (∀ b ∈ a, stop b = false) →
      takeUntil stop (a ++ c :: y) acc = (acc.reverse ++ a, c :: y)
  | [], acc, _ => by simp [takeUntil, hc]
  | x :: a, acc, h => by
    have hx : stop x = false := h x (List.mem_cons_self ..)
    have := takeUntil_append stop c y hc a (x :: acc) (fun b hb => h b (List.mem_cons_of_mem _ hb))
    simp [takeUntil, hx, this]

/-! ## decimal round trip -/

def digitStep (acc : Option Nat) (c : UInt8) : Option Nat :=
  match acc with
  | some n => if 48 ≤ c ∧ c ≤ 57 then some (n * 10 + (c.toNat - 48)) else none
  | none => none

theorem natOfBytes?_eq (b : Bytes) : natOfBytes? b = if b.isEmpty then none else b.foldl digitStep (some 0) := rfl

theorem digitStep_digit (a n : Nat) : digitStep (some a) (digit n) = some (a * 10 + n % 10) := by
  have h : n % 10 < 10 := Nat.mod_lt _ (by decide)
  have key : ∀ k, k < 10 → (48 ≤ UInt8.ofNat (48 + k) ∧ UInt8.ofNat (48 + k) ≤ 57) ∧ (UInt8.ofNat (48 + k)).toNat - 48 = k := by
    decide
  obtain ⟨h1, h2⟩ := key _ h
  unfold digitStep digit
  simp only []
  rw [if_pos h1, h2]

theorem foldl_decAux : ∀ (fuel n : Nat) (acc : Bytes) (a : Nat), n < fuel →
    ∃ k, (decAux fuel n acc).foldl digitStep (some a) = acc.foldl digitStep (some (a * 10 ^ k + n)) ∧ decAux fuel n acc ≠ []
  | 0, n, _, _, h => by omega
  | fuel + 1, n, acc, a, h => by
    simp only [decAux]
    split
    · rename_i hn
      refine ⟨1, ?_, by simp⟩
      simp [List.foldl_cons, digitStep_digit, Nat.mod_eq_of_lt hn]
    · rename_i hn
      obtain ⟨k, hk, hne⟩ := foldl_decAux fuel (n / 10) (digit n :: acc) a (by omega)
      refine ⟨k + 1, ?_, hne⟩
      rw [hk, List.foldl_cons, digitStep_digit]
      congr 2
      rw [Nat.pow_succ]
      have := Nat.div_add_mod n 10
      rw [Nat.add_mul, Nat.mul_assoc]
      omega

theorem natOfBytes?_dec (d : Nat) : natOfBytes? (dec d) = some d := by
  obtain ⟨k, hk, hne⟩ := foldl_decAux (d + 1) d [] 0 (by omega)
  rw [natOfBytes?_eq]
  have : (dec d).isEmpty = false := by
    cases h : dec d with
    | nil => exact absurd h hne
    | cons _ _ => rfl
  rw [this]
  simp only [Bool.false_eq_true, if_false]
  unfold dec
  rw [hk]
  simp

/-! ## attributes -/

def keyStop (b : UInt8) : Bool := b == 61 || b == 93 || b == 39 || b == 32

/-- a key without `=`, `]`, `'`, space -/
def keyOk (k : String) : Bool := (lit k).all fun b => !keyStop b

theorem parseAttrs_attr (k : String) (hk : keyOk k = true) (v rest : Bytes) (acc : List (Bytes × Bytes)) (fuel : Nat) :
    parseAttrs (fuel + 1) (attr k v ++ rest) acc = parseAttrs fuel rest ((lit k, v) :: acc) := by
  have hk' : ∀ b ∈ lit k, keyStop b = false := by
    intro b hb
    have := (List.all_eq_true.mp hk) b hb
    simpa using this
  have ht := takeUntil_append keyStop 61 (39 :: (escapeRef v ++ 39 :: rest)) (by decide) (lit k) [] hk'
  have hs : attr k v ++ rest = 32 :: (lit k ++ 61 :: 39 :: (escapeRef v ++ 39 :: rest)) := by
    simp [attr, List.append_assoc]
  rw [hs]
  simp only [parseAttrs]
  have h1 : ¬ ((32 : UInt8) = 93) := by decide
  simp only [h1, if_false, if_true]
  have ht' : takeUntil (fun b => b == 61 || b == 93 || b == 39 || b == 32) (lit k ++ 61 :: 39 :: (escapeRef v ++ 39 :: rest)) [] =
      (lit k, 61 :: 39 :: (escapeRef v ++ 39 :: rest)) := ht
  rw [ht']
  simp only [scanValue_escapeRef, List.reverse_nil, List.nil_append]

def renderAttrs (as : List (String × Bytes)) : Bytes := as.flatMap fun p => attr p.1 p.2
def attrPairs (as : List (String × Bytes)) : List (Bytes × Bytes) := as.map fun p => (lit p.1, p.2)

theorem parseAttrs_all : ∀ (as : List (String × Bytes)) (rest : Bytes) (acc : List (Bytes × Bytes)) (fuel : Nat),
    (∀ p ∈ as, keyOk p.1 = true) → as.length < fuel →
    parseAttrs fuel (renderAttrs as ++ 93 :: rest) acc = .ok (acc.reverse ++ attrPairs as, rest)
  | [], rest, acc, fuel, _, hf => by
    obtain ⟨f, rfl⟩ : ∃ f, fuel = f + 1 := ⟨fuel - 1, by simp at hf; omega⟩
    simp [renderAttrs, attrPairs, parseAttrs]
  | (k, v) :: as, rest, acc, fuel, hk, hf => by
    obtain ⟨f, rfl⟩ : ∃ f, fuel = f + 1 := ⟨fuel - 1, by simp at hf; omega⟩
    have ih := parseAttrs_all as rest ((lit k, v) :: acc) f (fun p hp => hk p (List.mem_cons_of_mem _ hp))
      (by simp at hf; omega)
    have : renderAttrs ((k, v) :: as) ++ 93 :: rest = attr k v ++ (renderAttrs as ++ 93 :: rest) := by
      simp [renderAttrs, List.append_assoc]
    rw [this, parseAttrs_attr k (hk (k, v) (List.mem_cons_self ..)), ih]
    simp [attrPairs]

theorem renderAttrs_length (as : List (String × Bytes)) : as.length ≤ (renderAttrs as).length := by
  induction as with
  | nil => simp [renderAttrs]
  | cons p as ih =>
    simp only [renderAttrs, List.flatMap_cons, List.length_append, List.length_cons] at ih ⊢
    have : 1 ≤ (attr p.1 p.2).length := by simp [attr]
    omega

/-! ## one message -/

def flushTxt (txt : Bytes) (acc : List Msg) : List Msg := if txt.isEmpty then acc else .text txt.reverse :: acc

def nameStop (b : UInt8) : Bool := b == 32 || b == 93
def nameOk (n : String) : Bool := (lit n).all fun b => !nameStop b

/-- a rendered message with at least one attribute, followed by anything, is read as one message -/
theorem parseStream_message (nm : String) (hn : nameOk nm = true) (a : String × Bytes) (as : List (String × Bytes))
    (hk : ∀ p ∈ a :: as, keyOk p.1 = true) (m : Msg) (hm : mkMsg (lit nm) (attrPairs (a :: as)) = .ok m)
    (rest txt : Bytes) (acc : List Msg) (fuel : Nat) :
    parseStream (fuel + 1) (message nm (renderAttrs (a :: as)) ++ rest) txt acc =
      parseStream fuel rest [] (m :: flushTxt txt acc) := by
  have hn' : ∀ b ∈ lit nm, nameStop b = false := by
    intro b hb
    have := (List.all_eq_true.mp hn) b hb
    simpa using this
  -- shape of the input: marker, name, first attribute (starting with a space), ...
  have hs : message nm (renderAttrs (a :: as)) ++ rest =
      marker ++ (lit nm ++ 32 :: ((lit a.1 ++ [61, 39] ++ escapeRef a.2 ++ [39]) ++ (renderAttrs as ++ 93 :: 10 :: rest))) := by
    simp [message, marker, renderAttrs, attr, lit, List.append_assoc]
  have hattrs : 32 :: ((lit a.1 ++ [61, 39] ++ escapeRef a.2 ++ [39]) ++ (renderAttrs as ++ 93 :: 10 :: rest)) =
      renderAttrs (a :: as) ++ 93 :: 10 :: rest := by
    simp [renderAttrs, attr, List.append_assoc]
  have hmk : marker = 35 :: lit "#teamcity[" := by decide
  obtain ⟨c, tl, hct⟩ : ∃ c tl, marker ++ (lit nm ++ 32 :: ((lit a.1 ++ [61, 39] ++ escapeRef a.2 ++ [39]) ++ (renderAttrs as ++ 93 :: 10 :: rest))) = c :: tl :=
    ⟨35, lit "#teamcity[" ++ (lit nm ++ 32 :: ((lit a.1 ++ [61, 39] ++ escapeRef a.2 ++ [39]) ++ (renderAttrs as ++ 93 :: 10 :: rest))), by rw [hmk]; rfl⟩
  rw [hs]
  have hpre := isPrefixOf_append_self marker (lit nm ++ 32 :: ((lit a.1 ++ [61, 39] ++ escapeRef a.2 ++ [39]) ++ (renderAttrs as ++ 93 :: 10 :: rest)))
  have hdrop := drop_length_append marker (lit nm ++ 32 :: ((lit a.1 ++ [61, 39] ++ escapeRef a.2 ++ [39]) ++ (renderAttrs as ++ 93 :: 10 :: rest)))
  have htake := takeUntil_append nameStop 32 ((lit a.1 ++ [61, 39] ++ escapeRef a.2 ++ [39]) ++ (renderAttrs as ++ 93 :: 10 :: rest)) (by decide) (lit nm) [] hn'
  rw [hct] at hpre hdrop ⊢
  simp only [parseStream, hpre, if_true, hdrop]
  have htake' : takeUntil (fun b => b == 32 || b == 93) (lit nm ++ 32 :: ((lit a.1 ++ [61, 39] ++ escapeRef a.2 ++ [39]) ++ (renderAttrs as ++ 93 :: 10 :: rest))) [] =
      (lit nm, renderAttrs (a :: as) ++ 93 :: 10 :: rest) := by
    rw [← hattrs]; exact htake
  rw [htake']
  have hfuel : (a :: as).length < (renderAttrs (a :: as) ++ 93 :: 10 :: rest).length + 1 := by
    have := renderAttrs_length (a :: as)
    simp only [List.length_append, List.length_cons] at this ⊢
    omega
  simp only [parseAttrs_all (a :: as) (10 :: rest) [] _ hk hfuel, List.reverse_nil, List.nil_append, hm, flushTxt]

theorem keyOk_name : keyOk "name" = true := by decide
theorem keyOk_duration : keyOk "duration" = true := by decide
theorem keyOk_message : keyOk "message" = true := by decide
theorem keyOk_details : keyOk "details" = true := by decide

theorem mkMsg_suiteStarted (n : Bytes) : mkMsg (lit "testSuiteStarted") [(lit "name", n)] = .ok (.suiteStarted n) := by
  simp [mkMsg, lookupAttr]
theorem mkMsg_suiteFinished (n : Bytes) : mkMsg (lit "testSuiteFinished") [(lit "name", n)] = .ok (.suiteFinished n) := by
  have h1 : ¬ (lit "testSuiteFinished" = lit "testSuiteStarted") := by decide
  simp [mkMsg, lookupAttr, h1]
theorem mkMsg_testStarted (n : Bytes) : mkMsg (lit "testStarted") [(lit "name", n)] = .ok (.testStarted n) := by
  have h1 : ¬ (lit "testStarted" = lit "testSuiteStarted") := by decide
  have h2 : ¬ (lit "testStarted" = lit "testSuiteFinished") := by decide
  simp [mkMsg, lookupAttr, h1, h2]
theorem mkMsg_testIgnored (n : Bytes) : mkMsg (lit "testIgnored") [(lit "name", n)] = .ok (.testIgnored n) := by
  have h1 : ¬ (lit "testIgnored" = lit "testSuiteStarted") := by decide
  have h2 : ¬ (lit "testIgnored" = lit "testSuiteFinished") := by decide
  have h3 : ¬ (lit "testIgnored" = lit "testStarted") := by decide
  simp [mkMsg, lookupAttr, h1, h2, h3]
theorem mkMsg_testFinished (n : Bytes) (d : Nat) :
    mkMsg (lit "testFinished") [(lit "name", n), (lit "duration", dec d)] = .ok (.testFinished n d) := by
  have h1 : ¬ (lit "testFinished" = lit "testSuiteStarted") := by decide
  have h2 : ¬ (lit "testFinished" = lit "testSuiteFinished") := by decide
  have h3 : ¬ (lit "testFinished" = lit "testStarted") := by decide
  have h4 : ¬ (lit "testFinished" = lit "testIgnored") := by decide
  have h5 : (lit "name" == lit "duration") = false := by decide
  have h6 : (lit "duration" == lit "name") = false := by decide
  simp [mkMsg, lookupAttr, h1, h2, h3, h4, h5, h6, List.find?_cons, natOfBytes?_dec]
theorem mkMsg_testFailed (n m d : Bytes) :
    mkMsg (lit "testFailed") [(lit "name", n), (lit "message", m), (lit "details", d)] = .ok (.testFailed n m d) := by
  have h1 : ¬ (lit "testFailed" = lit "testSuiteStarted") := by decide
  have h2 : ¬ (lit "testFailed" = lit "testSuiteFinished") := by decide
  have h3 : ¬ (lit "testFailed" = lit "testStarted") := by decide
  have h4 : ¬ (lit "testFailed" = lit "testIgnored") := by decide
  have h5 : ¬ (lit "testFailed" = lit "testFinished") := by decide
  have k1 : (lit "name" == lit "message") = false := by decide
  have k2 : (lit "name" == lit "details") = false := by decide
  have k3 : (lit "message" == lit "details") = false := by decide
  have k4 : (lit "message" == lit "name") = false := by decide
  have k5 : (lit "details" == lit "name") = false := by decide
  have k6 : (lit "details" == lit "message") = false := by decide
  simp [mkMsg, lookupAttr, h1, h2, h3, h4, h5, k1, k2, k3, k4, k5, k6, List.find?_cons]

def isTextMsg : Msg → Bool
  | .text _ => true
  | _ => false

/-- one rendered service message, followed by anything, is read back as itself -/
theorem parseStream_render (m : Msg) (hm : isTextMsg m = false) (rest txt : Bytes) (acc : List Msg) (fuel : Nat) :
    parseStream (fuel + 1) (m.render ++ rest) txt acc = parseStream fuel rest [] (m :: flushTxt txt acc) := by
  cases m with
  | text raw => simp [isTextMsg] at hm
  | suiteStarted n =>
    have := parseStream_message "testSuiteStarted" (by decide) ("name", n) [] (by simp [keyOk_name]) _
      (by simpa [attrPairs] using mkMsg_suiteStarted n) rest txt acc fuel
    simpa [Msg.render, renderAttrs] using this
  | suiteFinished n =>
    have := parseStream_message "testSuiteFinished" (by decide) ("name", n) [] (by simp [keyOk_name]) _
      (by simpa [attrPairs] using mkMsg_suiteFinished n) rest txt acc fuel
    simpa [Msg.render, renderAttrs] using this
  | testStarted n =>
    have := parseStream_message "testStarted" (by decide) ("name", n) [] (by simp [keyOk_name]) _
      (by simpa [attrPairs] using mkMsg_testStarted n) rest txt acc fuel
    simpa [Msg.render, renderAttrs] using this
  | testIgnored n =>
    have := parseStream_message "testIgnored" (by decide) ("name", n) [] (by simp [keyOk_name]) _
      (by simpa [attrPairs] using mkMsg_testIgnored n) rest txt acc fuel
    simpa [Msg.render, renderAttrs] using this
  | testFinished n d =>
    have := parseStream_message "testFinished" (by decide) ("name", n) [("duration", dec d)]
      (by simp [keyOk_name, keyOk_duration]) _
      (by simpa [attrPairs] using mkMsg_testFinished n d) rest txt acc fuel
    simpa [Msg.render, renderAttrs, escapeRef_dec] using this
  | testFailed n mm d =>
    have := parseStream_message "testFailed" (by decide) ("name", n) [("message", mm), ("details", d)]
      (by simp [keyOk_name, keyOk_message, keyOk_details]) _
      (by simpa [attrPairs] using mkMsg_testFailed n mm d) rest txt acc fuel
    simpa [Msg.render, renderAttrs] using this

/-! ## text between messages -/

/-- no `#` in the text (so the marker `##teamcity[` cannot start inside it) -/
def noHash (t : Bytes) : Bool := t.all fun c => c != 35

theorem marker_not_prefix (c : UInt8) (hc : c ≠ 35) (rest : Bytes) : marker.isPrefixOf (c :: rest) = false := by
  have hmk : marker = 35 :: lit "#teamcity[" := by decide
  rw [hmk]
  have : ((35 : UInt8) == c) = false := by
    simp only [beq_eq_false_iff_ne, ne_eq]; exact fun e => hc e.symm
  simp [List.isPrefixOf, this]

theorem parseStream_text : ∀ (t rest txt : Bytes) (acc : List Msg) (fuel : Nat), noHash t = true →
    parseStream (t.length + fuel) (t ++ rest) txt acc = parseStream fuel rest (t.reverse ++ txt) acc
  | [], rest, txt, acc, fuel, _ => by simp
  | c :: t, rest, txt, acc, fuel, h => by
    have hc : c ≠ 35 := by
      have := (List.all_eq_true.mp h) c (List.mem_cons_self ..); simpa using this
    have ht : noHash t = true := by
      simp only [noHash, List.all_cons, Bool.and_eq_true] at h; exact h.2
    have ih := parseStream_text t rest (c :: txt) acc fuel ht
    have hl : (c :: t).length + fuel = (t.length + fuel) + 1 := by simp; omega
    rw [hl]
    simp only [List.cons_append, parseStream, marker_not_prefix c hc, Bool.false_eq_true, if_false]
    rw [ih]
    simp

/-- the message list a reader sees: adjacent texts are one text, empty texts are not there.
    `pending` = text collected so far -/
def normFrom (pending : Bytes) : List Msg → List Msg
  | [] => if pending.isEmpty then [] else [.text pending]
  | .text t :: ms => normFrom (pending ++ t) ms
  | m :: ms => (if pending.isEmpty then [] else [.text pending]) ++ m :: normFrom [] ms

def textsNoHash (ms : List Msg) : Prop := ∀ m ∈ ms, ∀ raw, m = .text raw → noHash raw = true

theorem flushTxt_reverse (txt : Bytes) (acc : List Msg) :
    (flushTxt txt acc).reverse = acc.reverse ++ (if txt.reverse.isEmpty then [] else [.text txt.reverse]) := by
  unfold flushTxt
  cases txt <;> simp

theorem render_pos (m : Msg) (hm : isTextMsg m = false) : 1 ≤ m.render.length := by
  cases m <;> simp [isTextMsg] at hm <;> simp [Msg.render, message, lit] <;> omega

theorem parseStream_renderAll : ∀ (ms : List Msg) (txt : Bytes) (acc : List Msg) (fuel : Nat),
    textsNoHash ms → (renderAll ms).length < fuel →
    parseStream fuel (renderAll ms) txt acc = .ok (acc.reverse ++ normFrom txt.reverse ms)
  | [], txt, acc, fuel, _, hf => by
    obtain ⟨f, rfl⟩ : ∃ f, fuel = f + 1 := ⟨fuel - 1, by simp [renderAll] at hf; omega⟩
    simp only [renderAll, List.flatMap_nil, parseStream, normFrom]
    have := flushTxt_reverse txt acc
    unfold flushTxt at this
    rw [this]
  | m :: ms, txt, acc, fuel, hno, hf => by
    have hno' : textsNoHash ms := fun x hx => hno x (List.mem_cons_of_mem _ hx)
    have hr : renderAll (m :: ms) = m.render ++ renderAll ms := by simp [renderAll]
    rw [hr] at hf ⊢
    simp only [List.length_append] at hf
    by_cases hm : isTextMsg m = true
    · cases m with
      | text raw =>
        have hraw : noHash raw = true := hno _ (List.mem_cons_self ..) raw rfl
        obtain ⟨f, rfl⟩ : ∃ f, fuel = raw.length + f := ⟨fuel - raw.length, by simp [Msg.render] at hf; omega⟩
        simp only [Msg.render] at hf ⊢
        rw [parseStream_text raw _ txt acc f hraw, parseStream_renderAll ms _ acc f hno' (by omega)]
        simp [normFrom]
      | _ => simp [isTextMsg] at hm
    · have hm' : isTextMsg m = false := by simpa using hm
      have hpos := render_pos m hm'
      obtain ⟨f, rfl⟩ : ∃ f, fuel = f + 1 := ⟨fuel - 1, by omega⟩
      rw [parseStream_render m hm' _ txt acc f, parseStream_renderAll ms [] _ f hno' (by omega), List.reverse_cons,
        flushTxt_reverse]
      cases m <;> simp [isTextMsg] at hm' <;> simp [normFrom, List.append_assoc]

/-- without text items nothing is merged or dropped -/
theorem normFrom_no_text : ∀ (ms : List Msg), (∀ m ∈ ms, isTextMsg m = false) → normFrom [] ms = ms
  | [], _ => rfl
  | m :: ms, h => by
    have hm := h m (List.mem_cons_self ..)
    have ih := normFrom_no_text ms (fun x hx => h x (List.mem_cons_of_mem _ hx))
    cases m <;> simp [isTextMsg] at hm <;> simp [normFrom, ih]

theorem parse_renderAll (ms : List Msg) (h : textsNoHash ms) : parse (renderAll ms) = .ok (normFrom [] ms) := by
  unfold parse
  rw [parseStream_renderAll ms [] [] _ h (by omega)]
  simp

end TeamCity
