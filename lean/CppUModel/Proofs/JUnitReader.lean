import CppUModel.Proofs.JUnit
/-!
Helper lemmas for C16, part 5: the specification's tokenizer reads the generic rendering of a token
list back (`tokenize_render`).
-/
set_option linter.unusedSimpArgs false
namespace JUnit
open Text (Bytes)
open OutEv

/-! ## generic rendering of tokens -/

def piText : Bytes := lit "<?xml version=\"1.0\" encoding=\"UTF-8\" ?>"

def renderAttr (p : Bytes × Bytes) : Bytes := 32 :: p.1 ++ [61, 34] ++ encodeRef p.2 ++ [34]
def renderAttrs (as : List (Bytes × Bytes)) : Bytes := as.flatMap renderAttr
def tagEnd (sc : Bool) : Bytes := if sc then [32, 47, 62] else [62]

def Tok.render : Tok → Bytes
  | .pi => piText
  | .open_ name attrs sc => 60 :: name ++ renderAttrs attrs ++ tagEnd sc
  | .close name => [60, 47] ++ name ++ [62]
  | .text t => encodeRef t

def renderToks (ts : List Tok) : Bytes := ts.flatMap Tok.render

/-- a non-empty XML name made of name bytes -/
def nameOk (n : Bytes) : Prop := n ≠ [] ∧ ∀ b ∈ n, isNameByte b = true

def tokOk : Tok → Prop
  | .pi => True
  | .open_ name attrs _ => nameOk name ∧ (∀ p ∈ attrs, nameOk p.1) ∧ (attrs.map (·.1)).Nodup
  | .close name => nameOk name
  | .text t => t ≠ []

def isText : Tok → Bool
  | .text _ => true
  | _ => false

/-- no two text tokens next to each other -/
def noAdjText : List Tok → Prop
  | [] => True
  | [_] => True
  | a :: b :: rest => ¬ (isText a = true ∧ isText b = true) ∧ noAdjText (b :: rest)

/-! ## bytes -/

theorem nameByte_facts : ∀ c : UInt8, isNameByte c = true →
    c ≠ 62 ∧ c ≠ 47 ∧ c ≠ 61 ∧ c ≠ 60 ∧ c ≠ 63 ∧ c ≠ 34 ∧ isSpace c = false := by
  apply all_uint8
  set_option maxRecDepth 100000 in decide

theorem takeName_append (c : UInt8) (y : Bytes) (hc : isNameByte c = false) :
    ∀ (a acc : Bytes), (∀ b ∈ a, isNameByte b = true) → takeName (a ++ c :: y) acc = (acc.reverse ++ a, c :: y)
  | [], acc, _ => by simp [takeName, hc]
  | x :: a, acc, h => by
    have hx : isNameByte x = true := h x (List.mem_cons_self ..)
    have := takeName_append c y hc a (x :: acc) (fun b hb => h b (List.mem_cons_of_mem _ hb))
    simp [takeName, hx, this]

theorem dropSpace_nonspace (c : UInt8) (rest : Bytes) (h : isSpace c = false) : dropSpace (c :: rest) = c :: rest := by
  simp [dropSpace, h]

/-! ## attributes -/

theorem readAttrs_attr (k v rest : Bytes) (acc : List (Bytes × Bytes)) (fuel : Nat) (hk : nameOk k)
    (hdup : acc.any (fun p => p.1 == k) = false) :
    readAttrs (fuel + 1) (renderAttr (k, v) ++ rest) acc = readAttrs fuel rest ((k, v) :: acc) := by
  obtain ⟨hne, hall⟩ := hk
  obtain ⟨k0, ks, rfl⟩ : ∃ k0 ks, k = k0 :: ks := by
    cases k with
    | nil => exact absurd rfl hne
    | cons a b => exact ⟨a, b, rfl⟩
  have hk0 := nameByte_facts k0 (hall k0 (List.mem_cons_self ..))
  have hs : renderAttr (k0 :: ks, v) ++ rest = 32 :: k0 :: (ks ++ 61 :: 34 :: (encodeRef v ++ 34 :: rest)) := by
    simp [renderAttr, List.append_assoc]
  have hds : dropSpace (32 :: k0 :: (ks ++ 61 :: 34 :: (encodeRef v ++ 34 :: rest))) =
      k0 :: (ks ++ 61 :: 34 :: (encodeRef v ++ 34 :: rest)) := by
    have h32 : isSpace 32 = true := by decide
    simp [dropSpace, h32, hk0.2.2.2.2.2.2]
  have htn := takeName_append 61 (34 :: (encodeRef v ++ 34 :: rest)) (by decide) (k0 :: ks) [] hall
  simp only [List.reverse_nil, List.nil_append, List.cons_append] at htn
  rw [hs]
  simp only [readAttrs, hds, hk0.1, hk0.2.1, if_false, htn]
  have hlen : ¬ ((k0 :: (ks ++ 61 :: 34 :: (encodeRef v ++ 34 :: rest))).length =
      (32 :: k0 :: (ks ++ 61 :: 34 :: (encodeRef v ++ 34 :: rest))).length) := by
    simp only [List.length_cons]; omega
  simp only [hlen, if_false, and_self, if_true, List.isEmpty_cons, Bool.false_eq_true, hdup, scanAttr_encodeRef,
    List.reverse_nil, List.nil_append]

theorem readAttrs_end_open (rest : Bytes) (acc : List (Bytes × Bytes)) (fuel : Nat) :
    readAttrs (fuel + 1) (tagEnd false ++ rest) acc = .ok (acc.reverse, false, rest) := by
  have h : isSpace 62 = false := by decide
  simp [tagEnd, readAttrs, dropSpace, h]

theorem readAttrs_end_empty (rest : Bytes) (acc : List (Bytes × Bytes)) (fuel : Nat) :
    readAttrs (fuel + 1) (tagEnd true ++ rest) acc = .ok (acc.reverse, true, rest) := by
  have h1 : isSpace 32 = true := by decide
  have h2 : isSpace 47 = false := by decide
  have h3 : ¬ ((47 : UInt8) = 62) := by decide
  simp [tagEnd, readAttrs, dropSpace, h1, h2, h3]

theorem readAttrs_all (sc : Bool) (rest : Bytes) : ∀ (as : List (Bytes × Bytes)) (acc : List (Bytes × Bytes)) (fuel : Nat),
    (∀ p ∈ as, nameOk p.1) → (acc.map (·.1) ++ as.map (·.1)).Nodup → as.length < fuel →
    readAttrs fuel (renderAttrs as ++ tagEnd sc ++ rest) acc = .ok (acc.reverse ++ as, sc, rest)
  | [], acc, fuel, _, _, hf => by
    obtain ⟨f, rfl⟩ : ∃ f, fuel = f + 1 := ⟨fuel - 1, by simp at hf; omega⟩
    cases sc
    · simpa [renderAttrs] using readAttrs_end_open rest acc f
    · simpa [renderAttrs] using readAttrs_end_empty rest acc f
  | (k, v) :: as, acc, fuel, hk, hnd, hf => by
    obtain ⟨f, rfl⟩ : ∃ f, fuel = f + 1 := ⟨fuel - 1, by simp at hf; omega⟩
    have hdup : acc.any (fun p => p.1 == k) = false := by
      rw [List.any_eq_false]
      intro p hp
      simp only [beq_iff_eq]
      intro e
      have h1 : k ∈ acc.map (·.1) := List.mem_map.mpr ⟨p, hp, e⟩
      have := (List.nodup_append.mp hnd).2.2 k h1 k (by simp) 
      exact this rfl
    have hnd' : (((k, v) :: acc).map (·.1) ++ as.map (·.1)).Nodup := by
      have := hnd
      simp only [List.map_cons, List.cons_append] at this ⊢
      rw [List.nodup_cons]
      rw [List.nodup_append] at this
      obtain ⟨h1, h2, h3⟩ := this
      rw [List.nodup_cons] at h2
      refine ⟨?_, ?_⟩
      · intro hm
        rcases List.mem_append.mp hm with hm | hm
        · exact h3 k hm k (by simp) rfl
        · exact h2.1 hm
      · rw [List.nodup_append]
        exact ⟨h1, h2.2, fun a ha b hb => h3 a ha b (List.mem_cons_of_mem _ hb)⟩
    have ih := readAttrs_all sc rest as ((k, v) :: acc) f (fun p hp => hk p (List.mem_cons_of_mem _ hp)) hnd'
      (by simp at hf; omega)
    have hr : renderAttrs ((k, v) :: as) ++ tagEnd sc ++ rest = renderAttr (k, v) ++ (renderAttrs as ++ tagEnd sc ++ rest) := by
      simp [renderAttrs, List.append_assoc]
    rw [hr, readAttrs_attr k v _ acc f (hk (k, v) (List.mem_cons_self ..)) hdup, ih]
    simp

/-! ## one token -/

theorem renderAttrs_length (as : List (Bytes × Bytes)) : as.length ≤ (renderAttrs as).length := by
  induction as with
  | nil => simp [renderAttrs]
  | cons p as ih =>
    simp only [renderAttrs, List.flatMap_cons, List.length_append, List.length_cons] at ih ⊢
    have : 1 ≤ (renderAttr p).length := by simp [renderAttr]
    omega

/-- what follows an element name in an open tag starts with a byte that is not a name byte -/
theorem after_name_head (as : List (Bytes × Bytes)) (sc : Bool) (rest : Bytes) :
    ∃ x tl, renderAttrs as ++ tagEnd sc ++ rest = x :: tl ∧ isNameByte x = false := by
  cases as with
  | nil => cases sc <;> simp [renderAttrs, tagEnd] <;> decide
  | cons p as =>
    exact ⟨32, (p.1 ++ [61, 34] ++ encodeRef p.2 ++ [34]) ++ renderAttrs as ++ tagEnd sc ++ rest,
      by simp [renderAttrs, renderAttr, List.append_assoc], by decide⟩

theorem dropUntilPiEnd_append (rest : Bytes) : ∀ (a : Bytes), (∀ b ∈ a, b ≠ 63) →
    dropUntilPiEnd (a ++ 63 :: 62 :: rest) = some rest
  | [], _ => by simp [dropUntilPiEnd]
  | x :: a, h => by
    have hx : x ≠ 63 := h x (List.mem_cons_self ..)
    simp [dropUntilPiEnd, hx, dropUntilPiEnd_append rest a (fun b hb => h b (List.mem_cons_of_mem _ hb))]

theorem tokenize_pi (rest : Bytes) (acc : List Tok) (fuel : Nat) :
    tokenize (fuel + 1) (piText ++ rest) acc = tokenize fuel rest (.pi :: acc) := by
  have hp : piText = 60 :: 63 :: (lit "xml version=\"1.0\" encoding=\"UTF-8\" " ++ [63, 62]) := by decide
  have hb : ∀ b ∈ lit "xml version=\"1.0\" encoding=\"UTF-8\" ", b ≠ 63 := by decide
  have := dropUntilPiEnd_append rest _ hb
  rw [hp]
  simp only [List.cons_append, List.append_assoc, List.nil_append, tokenize, if_true]
  have h63 : ¬ ((63 : UInt8) = 60) := by decide
  simp only [this]

theorem tokenize_open (name : Bytes) (attrs : List (Bytes × Bytes)) (sc : Bool) (h : tokOk (.open_ name attrs sc))
    (rest : Bytes) (acc : List Tok) (fuel : Nat) :
    tokenize (fuel + 1) ((Tok.open_ name attrs sc).render ++ rest) acc = tokenize fuel rest (.open_ name attrs sc :: acc) := by
  obtain ⟨⟨hne, hall⟩, hkeys, hnd⟩ := h
  obtain ⟨n0, ns, rfl⟩ : ∃ n0 ns, name = n0 :: ns := by
    cases name with
    | nil => exact absurd rfl hne
    | cons a b => exact ⟨a, b, rfl⟩
  have hn0 := nameByte_facts n0 (hall n0 (List.mem_cons_self ..))
  obtain ⟨x, tl, hxt, hx⟩ := after_name_head attrs sc rest
  have hs : (Tok.open_ (n0 :: ns) attrs sc).render ++ rest = 60 :: n0 :: (ns ++ (renderAttrs attrs ++ tagEnd sc ++ rest)) := by
    simp [Tok.render, List.append_assoc]
  have htn := takeName_append x tl hx (n0 :: ns) [] hall
  simp only [List.reverse_nil, List.nil_append, List.cons_append] at htn
  have hfuel : attrs.length < (renderAttrs attrs ++ tagEnd sc ++ rest).length + 1 := by
    have := renderAttrs_length attrs
    simp only [List.length_append]; omega
  have hra := readAttrs_all sc rest attrs [] ((renderAttrs attrs ++ tagEnd sc ++ rest).length + 1) hkeys (by simpa using hnd) hfuel
  rw [hs, hxt]
  simp only [tokenize, if_true, hn0.2.2.2.2.1, hn0.2.1, if_false, htn, List.isEmpty_cons, Bool.false_eq_true]
  rw [← hxt, hra]
  simp

theorem tokenize_close (name : Bytes) (h : nameOk name) (rest : Bytes) (acc : List Tok) (fuel : Nat) :
    tokenize (fuel + 1) ((Tok.close name).render ++ rest) acc = tokenize fuel rest (.close name :: acc) := by
  obtain ⟨hne, hall⟩ := h
  have htn := takeName_append 62 rest (by decide) name [] hall
  simp only [List.reverse_nil, List.nil_append] at htn
  have hs : (Tok.close name).render ++ rest = 60 :: 47 :: (name ++ 62 :: rest) := by simp [Tok.render, List.append_assoc]
  have h1 : ¬ ((47 : UInt8) = 63) := by decide
  have h2 : isSpace 62 = false := by decide
  have hemp : name.isEmpty = false := by cases name <;> simp_all
  rw [hs]
  simp only [tokenize, if_true, h1, if_false, htn, dropSpace, h2, Bool.false_eq_true, hemp]

theorem encodeRef_head (c : UInt8) (t : Bytes) : ∃ x xs, encodeRef (c :: t) = x :: xs ∧ x ≠ 60 := by
  rw [encodeRef_cons]
  rcases encByteRef_cases c with ⟨h, e⟩ | ⟨h, e⟩ | ⟨h, e⟩ | ⟨h, e⟩ | ⟨h, e⟩ | ⟨h, e⟩ | ⟨h, e⟩
  all_goals rw [e]
  all_goals first
    | exact ⟨38, _, rfl, by decide⟩
    | exact ⟨c, _, rfl, h.2.2.1⟩

theorem scanText_encodeRef_end (v : Bytes) : ∀ acc, scanText none (encodeRef v) acc = some (acc.reverse ++ v, []) := by
  induction v with
  | nil => intro acc; simp [encodeRef, scanText]
  | cons c v ih =>
    intro acc
    have := scanText_encByteRef c (encodeRef v) acc
    rw [encodeRef_cons, this, ih]
    simp

/-- a text token, followed by a tag or by the end of the input -/
theorem tokenize_text (t : Bytes) (ht : t ≠ []) (rest : Bytes) (hrest : rest = [] ∨ ∃ r, rest = 60 :: r)
    (acc : List Tok) (fuel : Nat) :
    tokenize (fuel + 1) ((Tok.text t).render ++ rest) acc = tokenize fuel rest (.text t :: acc) := by
  obtain ⟨c, t', rfl⟩ : ∃ c t', t = c :: t' := by
    cases t with
    | nil => exact absurd rfl ht
    | cons a b => exact ⟨a, b, rfl⟩
  obtain ⟨x, xs, hx, hx60⟩ := encodeRef_head c t'
  have hscan : scanText none (encodeRef (c :: t') ++ rest) [] = some (c :: t', rest) := by
    rcases hrest with rfl | ⟨r, rfl⟩
    · simpa using scanText_encodeRef_end (c :: t') []
    · simpa using scanText_encodeRef (c :: t') r []
  have hlen : rest.length < (encodeRef (c :: t') ++ rest).length := by
    rw [hx]; simp only [List.length_append, List.length_cons]; omega
  simp only [Tok.render]
  rw [show encodeRef (c :: t') ++ rest = x :: (xs ++ rest) by rw [hx]; rfl] at hscan hlen ⊢
  simp only [tokenize, hx60, if_false, hscan, hlen, if_true]

/-! ## the whole token list -/

theorem render_head_of_tag (t : Tok) (h : isText t = false) (rest : Bytes) : ∃ r, t.render ++ rest = 60 :: r := by
  cases t with
  | pi =>
    have hp : piText = 60 :: lit "?xml version=\"1.0\" encoding=\"UTF-8\" ?>" := by decide
    exact ⟨lit "?xml version=\"1.0\" encoding=\"UTF-8\" ?>" ++ rest, by show piText ++ rest = _; rw [hp]; rfl⟩
  | open_ n a sc => exact ⟨n ++ renderAttrs a ++ tagEnd sc ++ rest, by simp [Tok.render, List.append_assoc]⟩
  | close n => exact ⟨47 :: (n ++ 62 :: rest), by simp [Tok.render]⟩
  | text t => simp [isText] at h

/-- what is rendered: a token, or a raw line break between tags (read as the text "\n") -/
inductive RTok
  | tok (t : Tok)
  | nl

def RTok.render : RTok → Bytes
  | .tok t => t.render
  | .nl => [10]

def RTok.toTok : RTok → Tok
  | .tok t => t
  | .nl => .text [10]

def rOk : RTok → Prop
  | .tok t => tokOk t
  | .nl => True

def renderR (rs : List RTok) : Bytes := rs.flatMap RTok.render

theorem tokenize_nl (rest : Bytes) (hrest : rest = [] ∨ ∃ r, rest = 60 :: r) (acc : List Tok) (fuel : Nat) :
    tokenize (fuel + 1) (10 :: rest) acc = tokenize fuel rest (.text [10] :: acc) := by
  have h10 : ¬ ((10 : UInt8) = 60) := by decide
  rcases hrest with rfl | ⟨r, rfl⟩
  · simp [tokenize, h10, scanText]
  · simp [tokenize, h10, scanText]

theorem rrender_head_of_tag (t : RTok) (h : isText t.toTok = false) (rest : Bytes) : ∃ r, t.render ++ rest = 60 :: r := by
  cases t with
  | tok t => exact render_head_of_tag t h rest
  | nl => simp [RTok.toTok, isText] at h

theorem tokenize_render : ∀ (rs : List RTok) (acc : List Tok) (fuel : Nat),
    (∀ t ∈ rs, rOk t) → noAdjText (rs.map RTok.toTok) → rs.length < fuel →
    tokenize fuel (renderR rs) acc = .ok (acc.reverse ++ rs.map RTok.toTok)
  | [], acc, fuel, _, _, hf => by
    obtain ⟨f, rfl⟩ : ∃ f, fuel = f + 1 := ⟨fuel - 1, by simp at hf; omega⟩
    simp [renderR, tokenize]
  | t :: ts, acc, fuel, hok, hadj, hf => by
    obtain ⟨f, rfl⟩ : ∃ f, fuel = f + 1 := ⟨fuel - 1, by simp at hf; omega⟩
    have hok' : ∀ x ∈ ts, rOk x := fun x hx => hok x (List.mem_cons_of_mem _ hx)
    have hadj' : noAdjText (ts.map RTok.toTok) := by
      cases ts with
      | nil => trivial
      | cons b rest => exact hadj.2
    have ih := fun acc' => tokenize_render ts acc' f hok' hadj' (by simp at hf; omega)
    have hr : renderR (t :: ts) = t.render ++ renderR ts := by simp [renderR]
    have ht := hok t (List.mem_cons_self ..)
    -- what follows a text token is a tag or the end
    have hrest : isText t.toTok = true → (renderR ts = [] ∨ ∃ r, renderR ts = 60 :: r) := by
      intro htext
      cases ts with
      | nil => left; rfl
      | cons b rest =>
        right
        have hb : isText b.toTok = false := by
          have := hadj.1
          cases hbt : isText b.toTok with
          | false => rfl
          | true => exact absurd ⟨htext, hbt⟩ this
        have := rrender_head_of_tag b hb (renderR rest)
        simpa [renderR] using this
    rw [hr]
    cases t with
    | nl => rw [show RTok.nl.render = [10] from rfl, List.singleton_append, tokenize_nl _ (hrest rfl), ih]; simp [RTok.toTok]
    | tok t =>
      cases t with
      | pi => rw [show (RTok.tok Tok.pi).render = piText from rfl, tokenize_pi, ih]; simp [RTok.toTok]
      | open_ n a sc => rw [show (RTok.tok (Tok.open_ n a sc)).render = (Tok.open_ n a sc).render from rfl, tokenize_open n a sc ht, ih]; simp [RTok.toTok]
      | close n => rw [show (RTok.tok (Tok.close n)).render = (Tok.close n).render from rfl, tokenize_close n ht, ih]; simp [RTok.toTok]
      | text x =>
        rw [show (RTok.tok (Tok.text x)).render = (Tok.text x).render from rfl, tokenize_text x ht _ (hrest rfl), ih]
        simp [RTok.toTok]

end JUnit
