import CppUModel.Spec.Mock
import CppUModel.Proofs.ListLemmas
/-! Helper lemmas for the C08 theorems. -/
namespace Mock

/-! ### `norm` is blind to everything a call in flight changes -/

theorem Param.unpass_idem (l : List Param) (f : Param → Param) (hf : ∀ p, { f p with passed := false } = { p with passed := false }) :
    (l.map f).map (fun p => { p with passed := false }) = l.map (fun p => { p with passed := false }) := by
  simp [List.map_map, Function.comp_def, hf]

theorem norm_reset (e : Exp) : e.reset.norm = e.norm := by
  simp [Exp.norm, Exp.reset, List.map_map, Function.comp_def]

theorem norm_cand (e : Exp) (b : Bool) : ({ e with cand := b } : Exp).norm = e.norm := by
  simp [Exp.norm, Exp.reset]

theorem norm_isMatch (e : Exp) (b : Bool) : ({ e with isMatch := b } : Exp).norm = e.norm := by
  simp [Exp.norm, Exp.reset]

theorem norm_passedObj (e : Exp) (b : Bool) : ({ e with passedObj := b } : Exp).norm = e.norm := by
  simp [Exp.norm, Exp.reset]

theorem norm_finalized (e : Exp) (b : Bool) : ({ e with finalized := b } : Exp).norm = e.norm := by
  simp [Exp.norm, Exp.reset]

theorem norm_passInput (e : Exp) (n : String) : (e.passInput n).norm = e.norm := by
  simp only [Exp.norm, Exp.reset, Exp.passInput, List.map_map, Function.comp_def]
  congr 2
  funext p
  split <;> rfl

theorem norm_passOutput (e : Exp) (n : String) : (e.passOutput n).norm = e.norm := by
  simp only [Exp.norm, Exp.reset, Exp.passOutput, List.map_map, Function.comp_def]
  congr 2
  funext p
  split <;> rfl

theorem norm_take (e : Exp) : e.take.norm = e.norm := by
  simp [Exp.take, Exp.norm, Exp.reset]

theorem norm_discardE (e : Exp) : (discardE e).norm = e.norm := by
  unfold discardE
  split
  · rw [norm_isMatch, norm_reset]
  · split
    · rw [norm_cand, norm_reset]
    · rfl

theorem norm_norm (e : Exp) : e.norm.norm = e.norm := by
  simp [Exp.norm, Exp.reset, List.map_map, Function.comp_def]

/-! ### functions of the static part factor through `norm` -/

theorem find_unpass (l : List Param) (n : String) :
    (l.map (fun p => ({ p with passed := false } : Param))).find? (fun p => p.name == n)
      = (l.find? (fun p => p.name == n)).map (fun p => { p with passed := false }) := by
  induction l with
  | nil => rfl
  | cons a l ih =>
    simp only [List.map_cons, List.find?_cons]
    split <;> simp_all

theorem find_unpassO (l : List OutParam) (n : String) :
    (l.map (fun p => ({ p with passed := false } : OutParam))).find? (fun p => p.name == n)
      = (l.find? (fun p => p.name == n)).map (fun p => { p with passed := false }) := by
  induction l with
  | nil => rfl
  | cons a l ih =>
    simp only [List.map_cons, List.find?_cons]
    split <;> simp_all

theorem hasInput_norm (e : Exp) (n : String) (v : Val) : e.norm.hasInput n v = e.hasInput n v := by
  simp only [Exp.hasInput, Exp.norm, Exp.reset, find_unpass]
  cases e.ins.find? (fun p => p.name == n) <;> rfl

theorem hasOutput_norm (e : Exp) (n : String) : e.norm.hasOutput n = e.hasOutput n := by
  simp only [Exp.hasOutput, Exp.norm, Exp.reset, find_unpassO]
  cases e.outs.find? (fun p => p.name == n) <;> rfl

theorem hasInputNamed_norm (e : Exp) (n : String) : e.norm.hasInputNamed n = e.hasInputNamed n := by
  simp [Exp.hasInputNamed, Exp.norm, Exp.reset, List.any_map, Function.comp_def]

theorem hasOutputNamed_norm (e : Exp) (n : String) : e.norm.hasOutputNamed n = e.hasOutputNamed n := by
  simp [Exp.hasOutputNamed, Exp.norm, Exp.reset, List.any_map, Function.comp_def]

theorem relatesToObject_norm (e : Exp) (o : Nat) : e.norm.relatesToObject o = e.relatesToObject o := rfl
theorem canMatch_norm (e : Exp) : e.norm.canMatch = e.canMatch := rfl
theorem name_norm (e : Exp) : e.norm.name = e.name := rfl
theorem iop_norm (e : Exp) : e.norm.iop = e.iop := rfl
theorem obj_norm (e : Exp) : e.norm.obj = e.obj := rfl

theorem compatSeg_norm (e : Exp) (s : Seg) : compatSeg e.norm s = compatSeg e s := by
  cases s <;> simp [compatSeg, hasInput_norm, hasOutput_norm, relatesToObject_norm]

theorem compat_norm (e : Exp) (segs : List Seg) : compat e.norm segs = compat e segs := by
  unfold compat
  congr 1
  funext s
  exact compatSeg_norm e s

theorem covered_norm (e : Exp) (segs : List Seg) : covered e.norm segs = covered e segs := by
  simp [covered, Exp.norm, Exp.reset, List.all_map, Function.comp_def]

theorem fits_norm (e : Exp) (c : Call) : fits e.norm c = fits e c := by
  simp [fits, compat_norm, covered_norm, name_norm]

theorem wants_norm (c : Call) (e : Exp) : wants c e.norm = wants c e := by
  simp [wants, fits_norm, canMatch_norm]

theorem sameSig_norm_left (a b : Exp) : sameSig a.norm b = sameSig a b := by
  simp only [sameSig, hasInput_norm, hasOutputNamed_norm, name_norm, obj_norm]
  simp [Exp.norm, Exp.reset, List.all_map, Function.comp_def]

theorem sameSig_norm_right (a b : Exp) : sameSig a b.norm = sameSig a b := by
  simp only [sameSig, hasInput_norm, hasOutputNamed_norm, name_norm, obj_norm]
  simp [Exp.norm, Exp.reset, List.all_map, Function.comp_def]

/-- anything that only reads the static part agrees on two expectations with the same `norm` -/
theorem static_eq {α} (g : Exp → α) (hg : ∀ e, g e.norm = g e) {a b : Exp} (h : a.norm = b.norm) : g a = g b := by
  rw [← hg a, ← hg b, h]

/-! ### small list facts -/

theorem all_congr' {α} {l : List α} {f g : α → Bool} (h : ∀ a ∈ l, f a = g a) : l.all f = l.all g := by
  induction l with
  | nil => rfl
  | cons a l ih =>
    simp only [List.all_cons]
    rw [h a (by simp), ih (fun b hb => h b (by simp [hb]))]

theorem find_congr' {α} {l : List α} {f g : α → Bool} (h : ∀ a ∈ l, f a = g a) : l.find? f = l.find? g := by
  induction l with
  | nil => rfl
  | cons a l ih =>
    simp only [List.find?_cons]
    rw [h a (by simp), ih (fun b hb => h b (by simp [hb]))]

theorem find_decomp {p : Exp → Bool} : ∀ {l : List Exp} {x : Exp}, l.find? p = some x →
    ∃ l1 l2, l = l1 ++ x :: l2 ∧ p x = true ∧ (∀ y ∈ l1, p y = false) ∧
      ∀ f, modifyFirst p f l = l1 ++ f x :: l2
  | [], _, h => by simp at h
  | a :: l, x, h => by
    simp only [List.find?_cons] at h
    cases hp : p a with
    | true =>
      simp only [hp] at h
      cases h
      exact ⟨[], l, rfl, hp, by simp, fun f => by simp [modifyFirst, hp]⟩
    | false =>
      simp only [hp] at h
      obtain ⟨l1, l2, h1, h2, h3, h4⟩ := find_decomp h
      refine ⟨a :: l1, l2, by simp [h1], h2, ?_, fun f => by simp [modifyFirst, hp, h4 f]⟩
      intro y hy
      simp at hy
      rcases hy with rfl | hy
      · exact hp
      · exact h3 y hy

theorem find_none' {p : Exp → Bool} {l : List Exp} (h : l.find? p = none) : ∀ y ∈ l, p y = false := by
  intro y hy
  have := List.find?_eq_none.mp h y hy
  simpa using this

theorem modifyFirst_map_norm (p : Exp → Bool) (f : Exp → Exp) (hf : ∀ e, (f e).norm = e.norm) :
    ∀ l : List Exp, (modifyFirst p f l).map Exp.norm = l.map Exp.norm
  | [] => rfl
  | a :: l => by
    simp only [modifyFirst]
    split
    · simp [hf]
    · simp [modifyFirst_map_norm p f hf l]

theorem map_map_norm (f : Exp → Exp) (hf : ∀ e, (f e).norm = e.norm) (l : List Exp) :
    (l.map f).map Exp.norm = l.map Exp.norm := by
  simp [List.map_map, Function.comp_def, hf]

theorem anyMatch_false_iff (es : List Exp) : anyMatch es = false ↔ ∀ x ∈ es, x.isMatch = false := by
  simp [anyMatch]

theorem anyCand_false_iff (es : List Exp) : anyCand es = false ↔ ∀ x ∈ es, x.cand = false := by
  simp [anyCand]

/-! ### the matching flags during a call -/

/-- the flags of an expectation that is still in play say exactly which steps have been made -/
structure FlagsOK (pre : List Seg) (x : Exp) : Prop where
  ins : ∀ p ∈ x.ins, p.passed = (inNames pre).contains p.name
  outs : ∀ p ∈ x.outs, p.passed = (outNames pre).contains p.name
  obj : x.passedObj = (x.obj.isNone || !(objsOf pre).isEmpty)
  fin : x.finalized = false

theorem isMatching_of_flagsOK {pre : List Seg} {x : Exp} (h : FlagsOK pre x) : x.isMatching = covered x pre := by
  unfold Exp.isMatching Exp.paramsMatching covered
  rw [all_congr' h.ins, all_congr' h.outs, h.obj]

theorem isMF_of_flagsOK {pre : List Seg} {x : Exp} (h : FlagsOK pre x) (hp : x.iop = false) :
    isMF x = (x.cand && covered x pre) := by
  simp [isMF, Exp.isMatchingFinalized, isMatching_of_flagsOK h, hp]

theorem isM_eq_isMF {x : Exp} (hp : x.iop = false) : isM x = isMF x := by
  simp [isM, isMF, Exp.isMatchingFinalized, hp]

theorem flagsOK_nil_of_clean {e : Exp} (h : e.clean = true) : FlagsOK [] e := by
  simp only [Exp.clean, Bool.and_eq_true, List.all_eq_true, Bool.not_eq_true', beq_iff_eq] at h
  obtain ⟨⟨⟨h1, h2⟩, h3⟩, h4⟩ := h
  exact ⟨fun p hp => by simp [inNames, h1 p hp], fun p hp => by simp [outNames, h2 p hp],
         by simp [objsOf, h3], h4⟩

theorem inNames_append (a b : List Seg) : inNames (a ++ b) = inNames a ++ inNames b := by simp [inNames]
theorem outNames_append (a b : List Seg) : outNames (a ++ b) = outNames a ++ outNames b := by simp [outNames]
theorem objsOf_append (a b : List Seg) : objsOf (a ++ b) = objsOf a ++ objsOf b := by simp [objsOf]

theorem contains_snoc (l : List String) (n a : String) : (l ++ [n]).contains a = (l.contains a || a == n) := by
  simp only [List.contains_append, List.contains_cons, List.contains_nil, Bool.or_false]

theorem flagsOK_passInput {pre : List Seg} {x : Exp} (n : String) (v : Val) (h : FlagsOK pre x) :
    FlagsOK (pre ++ [.inp n v]) (x.passInput n) := by
  refine ⟨?_, ?_, ?_, h.fin⟩
  · intro p hp
    simp only [Exp.passInput, List.mem_map] at hp
    obtain ⟨q, hq, rfl⟩ := hp
    have := h.ins q hq
    simp only [inNames_append]
    split
    · next hn =>
      have : inNames [Seg.inp n v] = [n] := rfl
      rw [this, contains_snoc]
      simp [hn]
    · next hn =>
      have h2 : inNames [Seg.inp n v] = [n] := rfl
      rw [h2, contains_snoc, this]
      have : (q.name == n) = false := by simpa using hn
      simp [this]
  · intro p hp
    have := h.outs p hp
    simpa [outNames_append, outNames] using this
  · simpa [objsOf_append, objsOf, Exp.passInput] using h.obj

theorem flagsOK_passOutput {pre : List Seg} {x : Exp} (n : String) (h : FlagsOK pre x) :
    FlagsOK (pre ++ [.out n]) (x.passOutput n) := by
  refine ⟨?_, ?_, ?_, h.fin⟩
  · intro p hp
    have := h.ins p hp
    simpa [inNames_append, inNames] using this
  · intro p hp
    simp only [Exp.passOutput, List.mem_map] at hp
    obtain ⟨q, hq, rfl⟩ := hp
    have := h.outs q hq
    simp only [outNames_append]
    split
    · next hn =>
      have : outNames [Seg.out n] = [n] := rfl
      rw [this, contains_snoc]
      simp [hn]
    · next hn =>
      have h2 : outNames [Seg.out n] = [n] := rfl
      rw [h2, contains_snoc, this]
      have : (q.name == n) = false := by simpa using hn
      simp [this]
  · simpa [objsOf_append, objsOf, Exp.passOutput] using h.obj

theorem flagsOK_passObj {pre : List Seg} {x : Exp} (o : Nat) (h : FlagsOK pre x) :
    FlagsOK (pre ++ [.obj o]) { x with passedObj := true } := by
  refine ⟨?_, ?_, ?_, h.fin⟩
  · intro p hp
    have := h.ins p hp
    simpa [inNames_append, inNames] using this
  · intro p hp
    have := h.outs p hp
    simpa [outNames_append, outNames] using this
  · simp [objsOf]

theorem hasInput_plain {e : Exp} {n : String} {v : Val} (hp : e.iop = false) (h : e.hasInput n v = true) :
    ∃ q ∈ e.ins, q.name = n ∧ q.val = v := by
  unfold Exp.hasInput at h
  split at h
  · next q hq =>
    have h1 := List.mem_of_find?_eq_some hq
    have h2 := List.find?_some hq
    exact ⟨q, h1, by simpa using h2, by simpa using h⟩
  · simp [hp] at h

theorem hasOutput_plain {e : Exp} {n : String} (hp : e.iop = false) (h : e.hasOutput n = true) :
    ∃ q ∈ e.outs, q.name = n := by
  unfold Exp.hasOutput at h
  split at h
  · next q hq =>
    exact ⟨q, List.mem_of_find?_eq_some hq, by simpa using List.find?_some hq⟩
  · simp [hp] at h

theorem hasOutputNamed_true {e : Exp} {n : String} (h : e.hasOutputNamed n = true) : ∃ q ∈ e.outs, q.name = n := by
  simpa [Exp.hasOutputNamed] using h

theorem covered_le_of_sameSig {x y : Exp} (pre : List Seg) (hx : x.iop = false)
    (hs : sameSig y x = true) (h : covered x pre = true) : covered y pre = true := by
  simp only [sameSig, Bool.and_eq_true, List.all_eq_true, beq_iff_eq] at hs
  obtain ⟨⟨⟨⟨⟨_, hobj⟩, hyx⟩, _⟩, hoyx⟩, _⟩ := hs
  simp only [covered, Bool.and_eq_true, List.all_eq_true] at h ⊢
  obtain ⟨⟨h1, h2⟩, h3⟩ := h
  refine ⟨⟨?_, ?_⟩, by rw [hobj]; exact h3⟩
  · intro p hp
    obtain ⟨q, hq, hn, _⟩ := hasInput_plain hx (hyx p hp)
    rw [← hn]; exact h1 q hq
  · intro p hp
    obtain ⟨q, hq, hn⟩ := hasOutputNamed_true (hoyx p hp)
    rw [← hn]; exact h2 q hq

theorem sameSig_symm {x y : Exp} (h : sameSig x y = true) : sameSig y x = true := by
  simp only [sameSig, Bool.and_eq_true, beq_iff_eq] at h ⊢
  obtain ⟨⟨⟨⟨⟨h1, h2⟩, h3⟩, h4⟩, h5⟩, h6⟩ := h
  exact ⟨⟨⟨⟨⟨h1.symm, h2.symm⟩, h4⟩, h3⟩, h6⟩, h5⟩

theorem covered_eq_of_sameSig {x y : Exp} (pre : List Seg) (hx : x.iop = false) (hy : y.iop = false)
    (hs : sameSig y x = true) : covered y pre = covered x pre := by
  apply Bool.eq_iff_iff.mpr
  exact ⟨covered_le_of_sameSig pre hy (sameSig_symm hs), covered_le_of_sameSig pre hx hs⟩

/-! ### the invariant of a call in flight -/

structure ElemOK (c : Call) (pre : List Seg) (x : Exp) : Prop where
  plain : x.iop = false
  cand : x.cand = true → x.isMatch = false ∧ alive c x = true ∧ compat x pre = true ∧ FlagsOK pre x
  mtch : x.isMatch = true → x.cand = false ∧ alive c x = true ∧ compat x pre = true ∧ FlagsOK pre x ∧ covered x pre = true
  dead : x.cand = false → x.isMatch = false → x.clean = true
  keep : wants c x = true → x.cand = true ∨ x.isMatch = true

/-- at most one expectation is the current match, and no earlier expectation that the call
    wants has the same signature -/
def MatchPos (c : Call) (es : List Exp) : Prop :=
  (∀ y ∈ es, y.isMatch = false) ∨
  ∃ l1 x l2, es = l1 ++ x :: l2 ∧ x.isMatch = true ∧
    (∀ y ∈ l1, y.isMatch = false ∧ ¬(wants c y = true ∧ sameSig y x = true)) ∧ (∀ y ∈ l2, y.isMatch = false)

structure Inv (c : Call) (pre : List Seg) (cs : CS) : Prop where
  elems : ∀ x ∈ cs.es, ElemOK c pre x
  pos : MatchPos c cs.es
  noMF : anyMatch cs.es = false → ∀ x ∈ cs.es, x.cand = true → covered x pre = false
  st : cs.call.state = (if anyMatch cs.es then CState.succeed else CState.inProgress)
  nofail : cs.fail = none

theorem anyMatch_of_pos {l1 l2 : List Exp} {x : Exp} (hx : x.isMatch = true) :
    anyMatch (l1 ++ x :: l2) = true := by
  simp [anyMatch, hx]

/-- `completeCallWhenMatchIsFound` establishes the invariant from a list without a match -/
theorem complete_inv {c : Call} {pre : List Seg} {cs : CS}
    (helems : ∀ x ∈ cs.es, ElemOK c pre x) (hnom : ∀ x ∈ cs.es, x.isMatch = false)
    (hst : cs.call.state = .inProgress) (hf : cs.fail = none) : Inv c pre (complete cs) := by
  have hMF : ∀ x ∈ cs.es, isMF x = (x.cand && covered x pre) := by
    intro x hx
    cases hc : x.cand with
    | false => simp [isMF, hc]
    | true => rw [isMF_of_flagsOK ((helems x hx).cand hc).2.2.2 (helems x hx).plain, hc]
  unfold complete
  cases hfind : cs.es.find? isMF with
  | some x =>
    obtain ⟨l1, l2, hl, hpx, hl1, hmod⟩ := find_decomp hfind
    have hxmem : x ∈ cs.es := by rw [hl]; simp
    have hxc : x.cand = true := by simp [isMF] at hpx; exact hpx.1
    have hxok := helems x hxmem
    have hxcov : covered x pre = true := by
      have := hMF x hxmem; rw [hpx, hxc] at this; simpa using this.symm
    simp only [hmod]
    have hmem : ∀ y, y ∈ l1 ++ x.take :: l2 → y = x.take ∨ (y ∈ cs.es ∧ (y ∈ l1 ∨ y ∈ l2)) := by
      intro y hy
      simp only [List.mem_append, List.mem_cons] at hy
      rcases hy with hy | rfl | hy
      · exact Or.inr ⟨by rw [hl]; simp [hy], Or.inl hy⟩
      · exact Or.inl rfl
      · exact Or.inr ⟨by rw [hl]; simp [hy], Or.inr hy⟩
    have htake : ElemOK c pre x.take := by
      obtain ⟨h1, h2, h3, h4⟩ := hxok.cand hxc
      refine ⟨hxok.plain, by simp [Exp.take], fun _ => ⟨rfl, h2, h3, ?_, hxcov⟩, by simp [Exp.take], fun _ => Or.inr rfl⟩
      exact ⟨h4.ins, h4.outs, h4.obj, h4.fin⟩
    refine ⟨?_, ?_, ?_, ?_, hf⟩
    · intro y hy
      rcases hmem y hy with rfl | ⟨hy, _⟩
      · exact htake
      · exact helems y hy
    · refine Or.inr ⟨l1, x.take, l2, rfl, rfl, ?_, ?_⟩
      · intro y hy
        have hym : y ∈ cs.es := by rw [hl]; simp [hy]
        refine ⟨hnom y hym, ?_⟩
        intro ⟨hw, hs⟩
        have hyok := helems y hym
        have hyc : y.cand = true := by
          rcases hyok.keep hw with h | h
          · exact h
          · rw [hnom y hym] at h; cases h
        have hs' : sameSig y x = true := by
          have : sameSig y x.take = sameSig y x := by
            rw [← sameSig_norm_right y x.take, norm_take, sameSig_norm_right]
          rw [← this]; exact hs
        have : covered y pre = true := by
          rw [covered_eq_of_sameSig pre hxok.plain hyok.plain hs']; exact hxcov
        have h1 := hl1 y hy
        rw [hMF y hym, hyc, this] at h1
        cases h1
      · intro y hy
        exact hnom y (by rw [hl]; simp [hy])
    · intro h
      rw [anyMatch_of_pos (by rfl : x.take.isMatch = true)] at h
      cases h
    · show CState.succeed = _
      rw [anyMatch_of_pos (by rfl : x.take.isMatch = true)]
      rfl
  | none =>
    have hnone := find_none' hfind
    have : cs.es.find? isM = none := by
      rw [find_congr' (fun a ha => isM_eq_isMF (helems a ha).plain), hfind]
    simp only [this]
    have hno : anyMatch cs.es = false := (anyMatch_false_iff _).mpr hnom
    refine ⟨helems, Or.inl hnom, ?_, by rw [hno]; exact hst, hf⟩
    intro _ x hx hc
    have := hnone x hx
    rw [hMF x hx, hc] at this
    simpa using this

theorem reset_clean (e : Exp) : e.reset.clean = true := by
  simp [Exp.clean, Exp.reset, List.all_map, Function.comp_def]

theorem any_wants_congr (c : Call) {l1 l2 : List Exp} (h : l1.map Exp.norm = l2.map Exp.norm) :
    l1.any (wants c) = l2.any (wants c) := by
  have h1 : l1.any (wants c) = (l1.map Exp.norm).any (wants c) := by
    simp [List.any_map, Function.comp_def, wants_norm]
  have h2 : l2.any (wants c) = (l2.map Exp.norm).any (wants c) := by
    simp [List.any_map, Function.comp_def, wants_norm]
  rw [h1, h2, h]

theorem compat_snoc (x : Exp) (pre : List Seg) (s : Seg) : compat x (pre ++ [s]) = (compat x pre && compatSeg x s) := by
  simp [compat, List.all_append]

theorem alive_static {c : Call} {a b : Exp} (h : a.norm = b.norm) : alive c a = alive c b :=
  static_eq (alive c) (fun _ => rfl) h

theorem wants_static {c : Call} {a b : Exp} (h : a.norm = b.norm) : wants c a = wants c b :=
  static_eq (wants c) (wants_norm c) h

theorem compat_static {a b : Exp} (pre : List Seg) (h : a.norm = b.norm) : compat a pre = compat b pre :=
  static_eq (fun e => compat e pre) (fun e => compat_norm e pre) h

theorem compatSeg_static {a b : Exp} (s : Seg) (h : a.norm = b.norm) : compatSeg a s = compatSeg b s :=
  static_eq (fun e => compatSeg e s) (fun e => compatSeg_norm e s) h

theorem iop_static {a b : Exp} (h : a.norm = b.norm) : a.iop = b.iop :=
  static_eq (fun e => e.iop) (fun _ => rfl) h

/-- the pointwise effect of `checkInputParameter` / `checkOutputParameter` before completion -/
def paramE (s : Seg) (pass : Exp → Exp) (x : Exp) : Exp :=
  let y := discardE x
  let z := if y.cand && !compatSeg y s then { y.reset with cand := false } else y
  if z.cand then pass z else z

theorem elemOK_paramE {c : Call} {pre : List Seg} {s : Seg} {pass : Exp → Exp} {x : Exp}
    (hpn : ∀ e, (pass e).norm = e.norm) (hpc : ∀ e, (pass e).cand = e.cand) (hpm : ∀ e, (pass e).isMatch = e.isMatch)
    (hpf : ∀ e, FlagsOK pre e → FlagsOK (pre ++ [s]) (pass e))
    (hnew : ∀ e, e.iop = false → wants c e = true → covered e pre = false)
    (hkw : ∀ e, wants c e = true → compatSeg e s = true)
    (h : ElemOK c pre x) :
    ElemOK c (pre ++ [s]) (paramE s pass x) ∧ (paramE s pass x).isMatch = false ∧ (paramE s pass x).norm = x.norm := by
  have hdead : ∀ (d : Exp), d.norm = x.norm → d.cand = false → d.isMatch = false → d.clean = true →
      (wants c x = true → False) → ElemOK c (pre ++ [s]) d := by
    intro d hn hc hm hcl hw
    refine ⟨by rw [iop_static hn]; exact h.plain, by simp [hc], by simp [hm], fun _ _ => hcl, ?_⟩
    intro hwd
    rw [wants_static hn] at hwd
    exact (hw hwd).elim
  cases hm : x.isMatch with
  | true =>
    obtain ⟨hc, _, _, _, hcov⟩ := h.mtch hm
    have e1 : paramE s pass x = { x.reset with isMatch := false } := by
      simp [paramE, discardE, hm, Exp.reset, hc]
    rw [e1]
    refine ⟨hdead _ (by rw [norm_isMatch, norm_reset]) (by simp [Exp.reset, hc]) rfl ?_ ?_, rfl, by rw [norm_isMatch, norm_reset]⟩
    · simp [Exp.clean, Exp.reset, List.all_map, Function.comp_def]
    · intro hw
      rw [hnew x h.plain hw] at hcov; cases hcov
  | false =>
    cases hc : x.cand with
    | false =>
      have e1 : paramE s pass x = x := by
        simp [paramE, discardE, hm, isMF, hc]
      rw [e1]
      refine ⟨hdead x rfl hc hm (h.dead hc hm) ?_, hm, rfl⟩
      intro hw
      rcases h.keep hw with h1 | h1
      · rw [hc] at h1; cases h1
      · rw [hm] at h1; cases h1
    | true =>
      obtain ⟨_, hal, hcomp, hfl⟩ := h.cand hc
      have hmf : isMF x = covered x pre := by rw [isMF_of_flagsOK hfl h.plain, hc]; simp
      cases hcov : covered x pre with
      | true =>
        have e1 : paramE s pass x = { x.reset with cand := false } := by
          simp [paramE, discardE, hm, hmf, hcov, Exp.reset]
        rw [e1]
        refine ⟨hdead _ (by rw [norm_cand, norm_reset]) rfl (by simp [Exp.reset, hm]) ?_ ?_, by simp [Exp.reset, hm], by rw [norm_cand, norm_reset]⟩
        · simp [Exp.clean, Exp.reset, List.all_map, Function.comp_def]
        · intro hw
          rw [hnew x h.plain hw] at hcov; cases hcov
      | false =>
        have hd : discardE x = x := by simp [discardE, hm, hmf, hcov]
        cases hk : compatSeg x s with
        | true =>
          have e1 : paramE s pass x = pass x := by
            simp [paramE, hd, hk, hc]
          rw [e1]
          refine ⟨⟨by rw [iop_static (hpn x)]; exact h.plain, ?_, by simp [hpm, hm], by simp [hpc, hc], fun _ => Or.inl (by rw [hpc, hc])⟩,
                  by rw [hpm, hm], hpn x⟩
          intro _
          refine ⟨by rw [hpm, hm], by rw [alive_static (hpn x)]; exact hal, ?_, hpf x hfl⟩
          rw [compat_snoc, compat_static pre (hpn x), compatSeg_static s (hpn x), hcomp, hk]; rfl
        | false =>
          have e1 : paramE s pass x = { x.reset with cand := false } := by
            simp [paramE, hd, hk, hc, Exp.reset]
          rw [e1]
          refine ⟨hdead _ (by rw [norm_cand, norm_reset]) rfl (by simp [Exp.reset, hm]) ?_ ?_, by simp [Exp.reset, hm], by rw [norm_cand, norm_reset]⟩
          · simp [Exp.clean, Exp.reset, List.all_map, Function.comp_def]
          · intro hw
            rw [hkw x hw] at hk; cases hk


theorem ite_pass_cand (pass : Exp → Exp) (hpc : ∀ e, (pass e).cand = e.cand) (z : Exp) :
    (if z.cand then pass z else z).cand = z.cand := by
  split
  · rw [hpc]
  · rfl

theorem paramE_cand (s : Seg) (pass : Exp → Exp) (hpc : ∀ e, (pass e).cand = e.cand) (x : Exp) :
    (paramE s pass x).cand =
      (if (discardE x).cand && !compatSeg (discardE x) s then ({ (discardE x).reset with cand := false } : Exp) else discardE x).cand := by
  simp only [paramE]
  exact ite_pass_cand pass hpc _

theorem failCall_fail {cs : CS} {msg : String} (hs : cs.call.state ≠ .failed) (hf : cs.fail = none) :
    (failCall cs msg).fail = some msg := by
  simp [failCall, hs, hf]

theorem complete_meta (cs : CS) :
    (complete cs).call.checked = cs.call.checked ∧ (complete cs).call.order = cs.call.order ∧
    (complete cs).es.map Exp.norm = cs.es.map Exp.norm ∧ (complete cs).fail = cs.fail := by
  unfold complete
  split
  · exact ⟨rfl, rfl, modifyFirst_map_norm _ _ norm_take _, rfl⟩
  · split <;> exact ⟨rfl, rfl, rfl, rfl⟩

theorem failCall_meta (cs : CS) (msg : String) :
    (failCall cs msg).call.checked = cs.call.checked ∧ (failCall cs msg).call.order = cs.call.order ∧
    (failCall cs msg).es = cs.es := by
  unfold failCall
  split <;> exact ⟨rfl, rfl, rfl⟩

theorem state_ne_failed {c : Call} {pre : List Seg} {cs : CS} (h : Inv c pre cs) : cs.call.state ≠ .failed := by
  rw [h.st]; split <;> simp

/-- one parameter step (input or output) keeps the invariant, or fails because no expectation
    with capacity has the call's signature -/
theorem checkParam_inv {c : Call} {pre : List Seg} {s : Seg} {pass : Exp → Exp} {msg : String} {cs : CS}
    (hinv : Inv c pre cs)
    (hpn : ∀ e, (pass e).norm = e.norm) (hpc : ∀ e, (pass e).cand = e.cand) (hpm : ∀ e, (pass e).isMatch = e.isMatch)
    (hpf : ∀ e, FlagsOK pre e → FlagsOK (pre ++ [s]) (pass e))
    (hnew : ∀ e, e.iop = false → wants c e = true → covered e pre = false)
    (hkw : ∀ e, wants c e = true → compatSeg e s = true) :
    ((checkParam cs (fun e => compatSeg e s) pass msg).fail = none → Inv c (pre ++ [s]) (checkParam cs (fun e => compatSeg e s) pass msg)) ∧
    ((checkParam cs (fun e => compatSeg e s) pass msg).fail ≠ none → cs.es.any (wants c) = false) ∧
    (checkParam cs (fun e => compatSeg e s) pass msg).es.map Exp.norm = cs.es.map Exp.norm ∧
    (checkParam cs (fun e => compatSeg e s) pass msg).call.checked = cs.call.checked ∧
    (checkParam cs (fun e => compatSeg e s) pass msg).call.order = cs.call.order := by
  have hE := fun x (hx : x ∈ cs.es) => elemOK_paramE hpn hpc hpm hpf hnew hkw (hinv.elems x hx)
  have hmap : ((cs.es.map discardE).map (fun e => if e.cand && !compatSeg e s then ({ e.reset with cand := false } : Exp) else e)).map
        (fun e => if e.cand then pass e else e) = cs.es.map (paramE s pass) := by
    simp only [List.map_map]; rfl
  have hcand : anyCand ((cs.es.map discardE).map (fun e => if e.cand && !compatSeg e s then ({ e.reset with cand := false } : Exp) else e))
      = anyCand (cs.es.map (paramE s pass)) := by
    simp only [anyCand, List.map_map, List.any_map, Function.comp_def]
    congr 1
    funext x
    rw [paramE_cand s pass hpc x]
  have hnorm : (cs.es.map (paramE s pass)).map Exp.norm = cs.es.map Exp.norm := by
    rw [List.map_map]
    apply List.map_congr_left
    intro x hx
    exact (hE x hx).2.2
  unfold checkParam
  rw [if_neg (state_ne_failed hinv)]
  simp only
  rw [hcand]
  cases hany : anyCand (cs.es.map (paramE s pass)) with
  | true =>
    simp only [if_true, hmap]
    have hI : Inv c (pre ++ [s]) (complete { es := cs.es.map (paramE s pass), call := { cs.call with state := .inProgress }, fail := cs.fail }) := by
      apply complete_inv
      · intro y hy
        simp only [List.mem_map] at hy
        obtain ⟨x, hx, rfl⟩ := hy
        exact (hE x hx).1
      · intro y hy
        simp only [List.mem_map] at hy
        obtain ⟨x, hx, rfl⟩ := hy
        exact (hE x hx).2.1
      · rfl
      · exact hinv.nofail
    have hm := complete_meta { es := cs.es.map (paramE s pass), call := { cs.call with state := .inProgress }, fail := cs.fail }
    refine ⟨fun _ => hI, fun h => ?_, ?_, hm.1, hm.2.1⟩
    · exact absurd hI.nofail h
    · rw [hm.2.2.1]; exact hnorm
  | false =>
    simp only [Bool.false_eq_true, if_false]
    have hff := failCall_fail (cs := { es := (cs.es.map discardE).map (fun e => if e.cand && !compatSeg e s then ({ e.reset with cand := false } : Exp) else e), call := { cs.call with state := .inProgress }, fail := cs.fail }) (msg := msg) (by simp) hinv.nofail
    have hm := failCall_meta { es := (cs.es.map discardE).map (fun e => if e.cand && !compatSeg e s then ({ e.reset with cand := false } : Exp) else e), call := { cs.call with state := .inProgress }, fail := cs.fail } msg
    refine ⟨fun h => ?_, fun _ => ?_, ?_, hm.1, hm.2.1⟩
    · rw [hff] at h; cases h
    · apply Bool.eq_false_iff.mpr
      intro hw
      simp only [List.any_eq_true] at hw
      obtain ⟨x, hx, hwx⟩ := hw
      obtain ⟨hok, hnm, hn⟩ := hE x hx
      have hwx' : wants c (paramE s pass x) = true := by rw [wants_static hn]; exact hwx
      have hc : (paramE s pass x).cand = false := by
        have := (anyCand_false_iff _).mp hany (paramE s pass x) (List.mem_map.mpr ⟨x, hx, rfl⟩)
        exact this
      rcases hok.keep hwx' with h1 | h1
      · rw [hc] at h1; cases h1
      · rw [hnm] at h1; cases h1
    · rw [hm.2.2]
      show (List.map _ (List.map discardE cs.es)).map Exp.norm = _
      rw [map_map_norm _ (fun e => by split; rw [norm_cand, norm_reset]; rfl), map_map_norm _ norm_discardE]

theorem sameSig_static {a b a' b' : Exp} (ha : a.norm = a'.norm) (hb : b.norm = b'.norm) : sameSig a b = sameSig a' b' := by
  rw [← sameSig_norm_left a b, ← sameSig_norm_right a.norm b, ha, hb, sameSig_norm_left, sameSig_norm_right]

theorem matchPos_map {c : Call} {es : List Exp} (h : Exp → Exp) (hm : ∀ x, (h x).isMatch = x.isMatch)
    (hn : ∀ x, (h x).norm = x.norm) (hp : MatchPos c es) : MatchPos c (es.map h) := by
  rcases hp with hp | ⟨l1, x, l2, rfl, hx, h1, h2⟩
  · left
    intro y hy
    simp only [List.mem_map] at hy
    obtain ⟨x, hx, rfl⟩ := hy
    rw [hm]; exact hp x hx
  · right
    refine ⟨l1.map h, h x, l2.map h, by simp, by rw [hm]; exact hx, ?_, ?_⟩
    · intro y hy
      simp only [List.mem_map] at hy
      obtain ⟨z, hz, rfl⟩ := hy
      refine ⟨by rw [hm]; exact (h1 z hz).1, ?_⟩
      rw [wants_static (hn z), sameSig_static (hn z) (hn x)]
      exact (h1 z hz).2
    · intro y hy
      simp only [List.mem_map] at hy
      obtain ⟨z, hz, rfl⟩ := hy
      rw [hm]; exact h2 z hz

/-- the pointwise effect of `onObject` before completion -/
def objE (o : Nat) (x : Exp) : Exp :=
  let z := if x.cand && !x.relatesToObject o then { x.reset with cand := false } else x
  if z.cand then { z with passedObj := true } else z

theorem objE_isMatch (o : Nat) (x : Exp) : (objE o x).isMatch = x.isMatch := by
  simp only [objE]
  split <;> split <;> simp_all [Exp.reset]

theorem objE_norm (o : Nat) (x : Exp) : (objE o x).norm = x.norm := by
  simp only [objE]
  split
  · rw [if_neg (by simp)]
    rw [norm_cand, norm_reset]
  · split
    · rw [norm_passedObj]
    · rfl

theorem objE_cand (o : Nat) (x : Exp) : (objE o x).cand = (x.cand && x.relatesToObject o) := by
  simp only [objE]
  cases hc : x.cand <;> cases hr : x.relatesToObject o <;> simp [hc, Exp.reset]

theorem covered_snoc_obj (x : Exp) (pre : List Seg) (o : Nat) (h : covered x pre = true) :
    covered x (pre ++ [.obj o]) = true := by
  simp only [covered, inNames_append, outNames_append, objsOf_append] at h ⊢
  simp only [Bool.and_eq_true] at h ⊢
  refine ⟨⟨?_, ?_⟩, by simp [objsOf]⟩
  · simpa [inNames] using h.1.1
  · simpa [outNames] using h.1.2

theorem elemOK_objE {c : Call} {pre : List Seg} {o : Nat} {x : Exp}
    (hobj : objsOf pre = []) (hkw : ∀ e, wants c e = true → e.relatesToObject o = true)
    (h : ElemOK c pre x) : ElemOK c (pre ++ [.obj o]) (objE o x) := by
  cases hm : x.isMatch with
  | true =>
    obtain ⟨hc, hal, hcomp, hfl, hcov⟩ := h.mtch hm
    have e1 : objE o x = x := by simp [objE, hc]
    rw [e1]
    have hnone : x.obj.isNone = true := by
      simp only [covered, Bool.and_eq_true, hobj] at hcov
      simpa using hcov.2
    have hrel : x.relatesToObject o = true := by
      cases ho : x.obj with
      | none => simp [Exp.relatesToObject, ho]
      | some v => rw [ho] at hnone; cases hnone
    have hfl' : FlagsOK (pre ++ [.obj o]) x := by
      refine ⟨?_, ?_, ?_, hfl.fin⟩
      · intro p hp; have := hfl.ins p hp; simpa [inNames_append, inNames] using this
      · intro p hp; have := hfl.outs p hp; simpa [outNames_append, outNames] using this
      · rw [hfl.obj, hnone]; simp
    refine ⟨h.plain, by simp [hc], fun _ => ⟨hc, hal, ?_, hfl', covered_snoc_obj x pre o hcov⟩, by simp [hm], fun _ => Or.inr hm⟩
    rw [compat_snoc, hcomp]; simpa [compatSeg] using hrel
  | false =>
    cases hc : x.cand with
    | false =>
      have e1 : objE o x = x := by simp [objE, hc]
      rw [e1]
      refine ⟨h.plain, by simp [hc], by simp [hm], fun _ _ => h.dead hc hm, ?_⟩
      intro hw
      rcases h.keep hw with h1 | h1
      · rw [hc] at h1; cases h1
      · rw [hm] at h1; cases h1
    | true =>
      obtain ⟨_, hal, hcomp, hfl⟩ := h.cand hc
      cases hr : x.relatesToObject o with
      | true =>
        have e1 : objE o x = { x with passedObj := true } := by simp [objE, hc, hr]
        rw [e1]
        refine ⟨h.plain, fun _ => ⟨hm, hal, ?_, flagsOK_passObj o hfl⟩, by simp [hm], by simp [hc], fun _ => Or.inl hc⟩
        show compat x (pre ++ [.obj o]) = true
        rw [compat_snoc, hcomp]; simpa [compatSeg] using hr
      | false =>
        have e1 : objE o x = { x.reset with cand := false } := by simp [objE, hc, hr, Exp.reset]
        rw [e1]
        refine ⟨h.plain, by simp, by simp [Exp.reset, hm], fun _ _ => by simp [Exp.clean, Exp.reset, List.all_map, Function.comp_def], ?_⟩
        intro hw
        have : wants c x = true := by
          rw [← wants_static (a := ({ x.reset with cand := false } : Exp)) (by rw [norm_cand, norm_reset])]; exact hw
        rw [hkw x this] at hr; cases hr

/-- `onObject` keeps the invariant, or fails because no expectation with capacity has the
    call's signature -/
theorem onObject_inv {c : Call} {pre : List Seg} {o : Nat} {cs : CS}
    (hinv : Inv c pre cs) (hobj : objsOf pre = [])
    (hkw : ∀ e, wants c e = true → e.relatesToObject o = true) :
    ((onObject cs o).fail = none → Inv c (pre ++ [.obj o]) (onObject cs o)) ∧
    ((onObject cs o).fail ≠ none → cs.es.any (wants c) = false) ∧
    (onObject cs o).es.map Exp.norm = cs.es.map Exp.norm ∧
    (onObject cs o).call.checked = cs.call.checked ∧ (onObject cs o).call.order = cs.call.order := by
  have hE := fun x (hx : x ∈ cs.es) => elemOK_objE hobj hkw (hinv.elems x hx)
  have hmap : (cs.es.map (fun e => if e.cand && !e.relatesToObject o then ({ e.reset with cand := false } : Exp) else e)).map
        (fun e => if e.cand then ({ e with passedObj := true } : Exp) else e) = cs.es.map (objE o) := by
    simp only [List.map_map]; rfl
  have hmatch1 : anyMatch (cs.es.map (fun e => if e.cand && !e.relatesToObject o then ({ e.reset with cand := false } : Exp) else e))
      = anyMatch cs.es := by
    simp only [anyMatch, List.any_map, Function.comp_def]
    congr 1; funext x
    split <;> simp [Exp.reset]
  have hmatch2 : anyMatch (cs.es.map (objE o)) = anyMatch cs.es := by
    simp only [anyMatch, List.any_map, Function.comp_def, objE_isMatch]
  have hcand1 : anyCand (cs.es.map (fun e => if e.cand && !e.relatesToObject o then ({ e.reset with cand := false } : Exp) else e))
      = anyCand (cs.es.map (objE o)) := by
    simp only [anyCand, List.any_map, Function.comp_def, objE_cand]
    congr 1; funext x
    cases hc : x.cand <;> cases hr : x.relatesToObject o <;> simp [hc]
  have hnorm : (cs.es.map (objE o)).map Exp.norm = cs.es.map Exp.norm := map_map_norm _ (objE_norm o) _
  have helems : ∀ y ∈ cs.es.map (objE o), ElemOK c (pre ++ [.obj o]) y := by
    intro y hy
    simp only [List.mem_map] at hy
    obtain ⟨x, hx, rfl⟩ := hy
    exact hE x hx
  unfold onObject
  rw [if_neg (state_ne_failed hinv)]
  simp only
  rw [hmatch1, hcand1, hmap, hmatch2]
  cases hm : anyMatch cs.es with
  | true =>
    simp only [Bool.not_true, Bool.false_and, Bool.false_eq_true, if_false, if_true]
    refine ⟨fun _ => ⟨helems, matchPos_map (objE o) (objE_isMatch o) (objE_norm o) hinv.pos, ?_, ?_, hinv.nofail⟩,
            fun h => absurd hinv.nofail h, hnorm, by first | rfl | trivial, by first | rfl | trivial⟩
    · intro h; rw [hmatch2, hm] at h; cases h
    · show cs.call.state = _
      rw [hmatch2, hm, hinv.st, hm]
  | false =>
    have hst : cs.call.state = .inProgress := by rw [hinv.st, hm]; rfl
    cases hany : anyCand (cs.es.map (objE o)) with
    | false =>
      simp only [Bool.not_false, Bool.and_self, if_true]
      have hs : cs.call.state ≠ .failed := state_ne_failed hinv
      have hff := failCall_fail (cs := { cs with es := cs.es.map (fun e => if e.cand && !e.relatesToObject o then ({ e.reset with cand := false } : Exp) else e) })
        (msg := msgUnexpectedObject cs.call.name) hs hinv.nofail
      have hmeta := failCall_meta { cs with es := cs.es.map (fun e => if e.cand && !e.relatesToObject o then ({ e.reset with cand := false } : Exp) else e) }
        (msgUnexpectedObject cs.call.name)
      refine ⟨fun h => ?_, fun _ => ?_, ?_, hmeta.1, hmeta.2.1⟩
      · rw [hff] at h; cases h
      · apply Bool.eq_false_iff.mpr
        intro hw
        simp only [List.any_eq_true] at hw
        obtain ⟨x, hx, hwx⟩ := hw
        have hwx' : wants c (objE o x) = true := by rw [wants_static (objE_norm o x)]; exact hwx
        have hc : (objE o x).cand = false :=
          (anyCand_false_iff _).mp hany _ (List.mem_map.mpr ⟨x, hx, rfl⟩)
        have hmx : (objE o x).isMatch = false := by
          rw [objE_isMatch]; exact (anyMatch_false_iff _).mp hm x hx
        rcases (hE x hx).keep hwx' with h1 | h1
        · rw [hc] at h1; cases h1
        · rw [hmx] at h1; cases h1
      · rw [hmeta.2.2]
        exact map_map_norm _ (fun e => by split; rw [norm_cand, norm_reset]; rfl) _
    | true =>
      simp only [Bool.not_false, Bool.not_true, Bool.and_false, Bool.false_eq_true, if_false]
      have hI : Inv c (pre ++ [.obj o]) (complete { cs with es := cs.es.map (objE o) }) := by
        apply complete_inv helems
        · intro y hy
          simp only [List.mem_map] at hy
          obtain ⟨x, hx, rfl⟩ := hy
          rw [objE_isMatch]; exact (anyMatch_false_iff _).mp hm x hx
        · exact hst
        · exact hinv.nofail
      have hmeta := complete_meta { cs with es := cs.es.map (objE o) }
      refine ⟨fun _ => hI, fun h => absurd hI.nofail h, ?_, hmeta.1, hmeta.2.1⟩
      rw [hmeta.2.2.1]; exact hnorm

/-- the expectation list right after the constructor and the pruning by name -/
def initE (n : String) (e : Exp) : Exp := { e with cand := e.canMatch && e.name == n, isMatch := false }

theorem withName_inv {c : Call} {es : List Exp} (k : Nat) (hclean : Clean es) (hplain : Plain es) :
    ((withName { es := beginCall es, call := newCall k, fail := none } c.name).fail = none →
        Inv c [] (withName { es := beginCall es, call := newCall k, fail := none } c.name)) ∧
    ((withName { es := beginCall es, call := newCall k, fail := none } c.name).fail ≠ none → es.any (wants c) = false) ∧
    (withName { es := beginCall es, call := newCall k, fail := none } c.name).es.map Exp.norm = es.map Exp.norm ∧
    (withName { es := beginCall es, call := newCall k, fail := none } c.name).call.checked = false ∧
    (withName { es := beginCall es, call := newCall k, fail := none } c.name).call.order = k := by
  have hmap : (beginCall es).map (fun e => ({ e with cand := e.cand && e.name == c.name } : Exp)) = es.map (initE c.name) := by
    simp only [beginCall, List.map_map]; rfl
  have hn : ∀ e, (initE c.name e).norm = e.norm := fun e => by simp [initE, Exp.norm, Exp.reset]
  have hnorm : (es.map (initE c.name)).map Exp.norm = es.map Exp.norm := map_map_norm _ hn _
  have helems : ∀ y ∈ es.map (initE c.name), ElemOK c [] y := by
    intro y hy
    simp only [List.mem_map] at hy
    obtain ⟨e, he, rfl⟩ := hy
    have hcl : (initE c.name e).clean = true := by
      have := hclean e he
      simpa [initE, Exp.clean] using this
    refine ⟨hplain e he, ?_, by simp [initE], fun _ _ => hcl, ?_⟩
    · intro hc
      refine ⟨rfl, ?_, rfl, flagsOK_nil_of_clean hcl⟩
      exact hc
    · intro hw
      left
      simp only [wants, fits, Bool.and_eq_true] at hw
      simp only [initE, Bool.and_eq_true]
      exact ⟨hw.1, hw.2.1.1⟩
  have hnom : ∀ y ∈ es.map (initE c.name), y.isMatch = false := by
    intro y hy
    simp only [List.mem_map] at hy
    obtain ⟨e, _, rfl⟩ := hy
    rfl
  unfold withName
  simp only [hmap]
  cases hany : anyCand (es.map (initE c.name)) with
  | true =>
    simp only [if_true]
    have hI : Inv c [] (complete { es := es.map (initE c.name), call := { newCall k with name := c.name, state := .inProgress }, fail := none }) :=
      complete_inv helems hnom rfl rfl
    have hmeta := complete_meta { es := es.map (initE c.name), call := { newCall k with name := c.name, state := .inProgress }, fail := none }
    refine ⟨fun _ => hI, fun h => absurd hI.nofail h, ?_, hmeta.1, hmeta.2.1⟩
    rw [hmeta.2.2.1]; exact hnorm
  | false =>
    simp only [Bool.false_eq_true, if_false]
    have hff := failCall_fail (cs := { es := es.map (initE c.name), call := { newCall k with name := c.name, state := .inProgress }, fail := none })
      (msg := msgUnexpectedCall (beginCall es) c.name) (by simp) rfl
    have hmeta := failCall_meta { es := es.map (initE c.name), call := { newCall k with name := c.name, state := .inProgress }, fail := none }
      (msgUnexpectedCall (beginCall es) c.name)
    refine ⟨fun h => ?_, fun _ => ?_, ?_, hmeta.1, hmeta.2.1⟩
    · rw [hff] at h; cases h
    · apply Bool.eq_false_iff.mpr
      intro hw
      simp only [List.any_eq_true] at hw
      obtain ⟨x, hx, hwx⟩ := hw
      have hwx' : wants c (initE c.name x) = true := by rw [wants_static (hn x)]; exact hwx
      have hc : (initE c.name x).cand = false :=
        (anyCand_false_iff _).mp hany _ (List.mem_map.mpr ⟨x, hx, rfl⟩)
      rcases (helems _ (List.mem_map.mpr ⟨x, hx, rfl⟩)).keep hwx' with h1 | h1
      · rw [hc] at h1; cases h1
      · cases h1
    · rw [hmeta.2.2]; exact hnorm

theorem inv_congr {c : Call} {pre : List Seg} {cs cs' : CS} (h1 : cs'.es = cs.es) (h2 : cs'.call.state = cs.call.state)
    (h3 : cs'.fail = cs.fail) (h : Inv c pre cs) : Inv c pre cs' :=
  ⟨by rw [h1]; exact h.elems, by rw [h1]; exact h.pos, by rw [h1]; exact h.noMF, by rw [h1, h2]; exact h.st, by rw [h3]; exact h.nofail⟩

theorem compatSeg_of_wants {c : Call} {e : Exp} {s : Seg} (hw : wants c e = true) (hs : s ∈ c.segs) : compatSeg e s = true := by
  simp only [wants, fits, compat, Bool.and_eq_true, List.all_eq_true] at hw
  exact hw.2.1.2 s hs

theorem mem_inNames {segs : List Seg} {n : String} {v : Val} (h : Seg.inp n v ∈ segs) : n ∈ inNames segs := by
  simp only [inNames, List.mem_filterMap]
  exact ⟨_, h, rfl⟩

theorem not_covered_inp {c : Call} {pre rest : List Seg} {n : String} {v : Val}
    (hsegs : c.segs = pre ++ Seg.inp n v :: rest) (hwf : WFCall c) :
    ∀ e, e.iop = false → wants c e = true → covered e pre = false := by
  intro e hp hw
  have hc := compatSeg_of_wants (s := .inp n v) hw (by rw [hsegs]; simp)
  obtain ⟨q, hq, hqn, _⟩ := hasInput_plain hp hc
  apply Bool.eq_false_iff.mpr
  intro hcov
  simp only [covered, Bool.and_eq_true, List.all_eq_true] at hcov
  have hin := hcov.1.1 q hq
  rw [hqn] at hin
  have hnd := hwf.1
  rw [hsegs, inNames_append] at hnd
  have : inNames (Seg.inp n v :: rest) = n :: inNames rest := rfl
  rw [this] at hnd
  have := (List.nodup_append.mp hnd).2.2 n (by simpa using hin) n (by simp)
  exact this rfl

theorem not_covered_out {c : Call} {pre rest : List Seg} {n : String}
    (hsegs : c.segs = pre ++ Seg.out n :: rest) (hwf : WFCall c) :
    ∀ e, e.iop = false → wants c e = true → covered e pre = false := by
  intro e hp hw
  have hc := compatSeg_of_wants (s := .out n) hw (by rw [hsegs]; simp)
  obtain ⟨q, hq, hqn⟩ := hasOutput_plain hp hc
  apply Bool.eq_false_iff.mpr
  intro hcov
  simp only [covered, Bool.and_eq_true, List.all_eq_true] at hcov
  have hin := hcov.1.2 q hq
  rw [hqn] at hin
  have hnd := hwf.2.1
  rw [hsegs, outNames_append] at hnd
  have : outNames (Seg.out n :: rest) = n :: outNames rest := rfl
  rw [this] at hnd
  have := (List.nodup_append.mp hnd).2.2 n (by simpa using hin) n (by simp)
  exact this rfl

theorem objs_pre_nil {c : Call} {pre rest : List Seg} {o : Nat}
    (hsegs : c.segs = pre ++ Seg.obj o :: rest) (hwf : WFCall c) : objsOf pre = [] := by
  have h := hwf.2.2
  rw [hsegs, objsOf_append] at h
  have : objsOf (Seg.obj o :: rest) = o :: objsOf rest := rfl
  rw [this] at h
  simp only [List.length_append, List.length_cons] at h
  cases hp : objsOf pre with
  | nil => rfl
  | cons a l => rw [hp] at h; simp at h; omega

theorem segsFrom_failed (cs : CS) (buf : List UInt8) (rest : List Seg) (h : cs.fail ≠ none) : segsFrom cs buf rest = cs := by
  cases rest with
  | nil => rfl
  | cons s rest =>
    simp only [segsFrom]
    cases hf : cs.fail with
    | none => exact absurd hf h
    | some m => simp

/-- all the steps of a call statement -/
theorem segsFrom_inv {c : Call} (buf : List UInt8) (hwf : WFCall c) :
    ∀ (rest pre : List Seg) (cs : CS), c.segs = pre ++ rest → Inv c pre cs →
      ((segsFrom cs buf rest).fail = none → Inv c c.segs (segsFrom cs buf rest)) ∧
      ((segsFrom cs buf rest).fail ≠ none → cs.es.any (wants c) = false) ∧
      (segsFrom cs buf rest).es.map Exp.norm = cs.es.map Exp.norm ∧
      (segsFrom cs buf rest).call.checked = cs.call.checked ∧ (segsFrom cs buf rest).call.order = cs.call.order
  | [], pre, cs, hsegs, hinv => by
    have : c.segs = pre := by simpa using hsegs
    rw [this]
    exact ⟨fun _ => hinv, fun h => absurd hinv.nofail h, rfl, rfl, rfl⟩
  | s :: rest, pre, cs, hsegs, hinv => by
    have hsegs' : c.segs = (pre ++ [s]) ++ rest := by simp [hsegs]
    have hstep : ((applySeg cs buf s).fail = none → Inv c (pre ++ [s]) (applySeg cs buf s)) ∧
        ((applySeg cs buf s).fail ≠ none → cs.es.any (wants c) = false) ∧
        (applySeg cs buf s).es.map Exp.norm = cs.es.map Exp.norm ∧
        (applySeg cs buf s).call.checked = cs.call.checked ∧ (applySeg cs buf s).call.order = cs.call.order := by
      cases s with
      | inp n v =>
        exact checkParam_inv (s := .inp n v) hinv (fun e => norm_passInput e n) (fun _ => rfl) (fun _ => rfl)
          (fun e he => flagsOK_passInput n v he) (not_covered_inp hsegs hwf)
          (fun e hw => compatSeg_of_wants hw (by rw [hsegs]; simp))
      | out n =>
        have hinv' : Inv c pre { cs with call := { cs.call with bufs := cs.call.bufs ++ [(n, buf)] } } :=
          inv_congr (cs := cs) rfl rfl rfl hinv
        exact checkParam_inv (s := .out n) hinv' (fun e => norm_passOutput e n) (fun _ => rfl) (fun _ => rfl)
          (fun e he => flagsOK_passOutput n he) (not_covered_out hsegs hwf)
          (fun e hw => compatSeg_of_wants hw (by rw [hsegs]; simp))
      | obj o =>
        exact onObject_inv hinv (objs_pre_nil hsegs hwf)
          (fun e hw => compatSeg_of_wants (s := .obj o) hw (by rw [hsegs]; simp))
    simp only [segsFrom, hinv.nofail, Option.isSome_none, Bool.false_eq_true, if_false]
    obtain ⟨h1, h2, h3, h4, h5⟩ := hstep
    cases hf : (applySeg cs buf s).fail with
    | none =>
      obtain ⟨i1, i2, i3, i4, i5⟩ := segsFrom_inv buf hwf rest (pre ++ [s]) (applySeg cs buf s) hsegs' (h1 hf)
      refine ⟨i1, fun h => ?_, by rw [i3, h3], by rw [i4, h4], by rw [i5, h5]⟩
      rw [← any_wants_congr c h3]; exact i2 h
    | some m =>
      have hne : (applySeg cs buf s).fail ≠ none := by rw [hf]; simp
      rw [segsFrom_failed _ _ _ hne]
      exact ⟨fun h => absurd h hne, fun _ => h2 hne, h3, h4, h5⟩

theorem find_unique_param : ∀ (l : List Param) (p : Param), (l.map (·.name)).Nodup → p ∈ l →
    l.find? (fun q => q.name == p.name) = some p
  | [], _, _, h => by simp at h
  | a :: l, p, hnd, hp => by
    simp only [List.map_cons, List.nodup_cons] at hnd
    simp only [List.find?_cons]
    simp only [List.mem_cons] at hp
    rcases hp with rfl | hp
    · simp
    · have hne : (a.name == p.name) = false := by
        apply Bool.eq_false_iff.mpr
        intro h
        have : a.name = p.name := by simpa using h
        exact hnd.1 (by rw [this]; exact List.mem_map.mpr ⟨p, hp, rfl⟩)
      rw [hne]
      exact find_unique_param l p hnd.2 hp

theorem val_of_hasInput {a : Exp} {p : Param} {v : Val} (hwf : WFExp a) (hp : p ∈ a.ins)
    (h : a.hasInput p.name v = true) : p.val = v := by
  unfold Exp.hasInput at h
  rw [find_unique_param a.ins p hwf.1 hp] at h
  simpa using h

theorem mem_segs_of_inNames {segs : List Seg} {n : String} (h : n ∈ inNames segs) : ∃ v, Seg.inp n v ∈ segs := by
  simp only [inNames, List.mem_filterMap] at h
  obtain ⟨s, hs, hn⟩ := h
  cases s with
  | inp m v => simp at hn; subst hn; exact ⟨v, hs⟩
  | out m => simp at hn
  | obj o => simp at hn

theorem mem_segs_of_objs {segs : List Seg} (h : (objsOf segs).isEmpty = false) : ∃ o, Seg.obj o ∈ segs := by
  cases ho : objsOf segs with
  | nil => rw [ho] at h; simp at h
  | cons o l =>
    have : o ∈ objsOf segs := by rw [ho]; simp
    simp only [objsOf, List.mem_filterMap] at this
    obtain ⟨s, hs, hn⟩ := this
    cases s with
    | inp m v => simp at hn
    | out m => simp at hn
    | obj o' => simp at hn; subst hn; exact ⟨o', hs⟩

/-- two expectations that both have the call's signature cannot be in conflict -/
theorem fits_no_conflict {c : Call} {a b : Exp} (hwa : WFExp a) (hwb : WFExp b)
    (ha : fits a c = true) (hb : fits b c = true) : conflict a b = false := by
  simp only [fits, Bool.and_eq_true, compat, covered, List.all_eq_true] at ha hb
  obtain ⟨⟨_, hac⟩, ⟨⟨hai, _⟩, hao⟩⟩ := ha
  obtain ⟨⟨_, hbc⟩, ⟨⟨_, _⟩, hbo⟩⟩ := hb
  apply Bool.eq_false_iff.mpr
  intro hcon
  simp only [conflict, Bool.or_eq_true, List.any_eq_true, Bool.and_eq_true, beq_iff_eq, bne_iff_ne] at hcon
  rcases hcon with ⟨p, hp, q, hq, hn, hv⟩ | hobj
  · have hin : p.name ∈ inNames c.segs := by simpa using hai p hp
    obtain ⟨v, hv'⟩ := mem_segs_of_inNames hin
    have h1 : a.hasInput p.name v = true := hac _ hv'
    have h2 : b.hasInput q.name v = true := by rw [← hn]; exact hbc _ hv'
    have e1 := val_of_hasInput hwa hp h1
    have e2 := val_of_hasInput hwb hq h2
    exact hv (by rw [e1, e2])
  · cases hoa : a.obj with
    | none => simp [hoa] at hobj
    | some x =>
      cases hob : b.obj with
      | none => simp [hoa, hob] at hobj
      | some y =>
        simp only [hoa, hob, bne_iff_ne] at hobj
        have hne : (objsOf c.segs).isEmpty = false := by
          simp only [hoa, Option.isNone_some, Bool.false_or, Bool.not_eq_true'] at hao
          exact hao
        obtain ⟨o, ho⟩ := mem_segs_of_objs hne
        have h1 : a.relatesToObject o = true := hac _ ho
        have h2 : b.relatesToObject o = true := hbc _ ho
        simp only [Exp.relatesToObject, hoa, hob, beq_iff_eq] at h1 h2
        exact hobj (by rw [h1, h2])

theorem modifyFirst_append_of {p : Exp → Bool} {f : Exp → Exp} : ∀ (l1 : List Exp) {x : Exp} {l2 : List Exp},
    (∀ y ∈ l1, p y = false) → p x = true → modifyFirst p f (l1 ++ x :: l2) = l1 ++ f x :: l2
  | [], _, _, _, hx => by simp [modifyFirst, hx]
  | a :: l1, _, _, h, hx => by
    have ha : p a = false := h a (by simp)
    simp only [List.cons_append, modifyFirst, ha, Bool.false_eq_true, if_false]
    rw [modifyFirst_append_of l1 (fun y hy => h y (by simp [hy])) hx]

theorem norm_callWasMade (e : Exp) (k : Nat) : (e.callWasMade k).norm = e.norm.bump k := by
  simp [Exp.callWasMade, Exp.norm, Exp.reset, Exp.bump, List.map_map, Function.comp_def]
  rfl

theorem clean_resetCands_elem (x : Exp) (h : x.cand = false → x.clean = true) :
    (if x.cand then x.reset else x).clean = true := by
  split
  · exact reset_clean x
  · next hc => exact h (by simpa using hc)

theorem clean_callWasMade (e : Exp) (k : Nat) : (e.callWasMade k).clean = true := by
  unfold Exp.callWasMade
  exact reset_clean _

theorem find_append_of {p : Exp → Bool} : ∀ (l1 : List Exp) {x : Exp} {l2 : List Exp},
    (∀ y ∈ l1, p y = false) → p x = true → (l1 ++ x :: l2).find? p = some x
  | [], _, _, _, hx => by simp [hx]
  | a :: l1, _, _, h, hx => by
    have ha : p a = false := h a (by simp)
    simp only [List.cons_append, List.find?_cons, ha]
    exact find_append_of l1 (fun y hy => h y (by simp [hy])) hx

theorem failCall_fail_ne (cs : CS) (msg : String) (hs : cs.call.state ≠ .failed) (hf : cs.fail = none) :
    (failCall cs msg).fail ≠ none := by
  rw [failCall_fail hs hf]; simp

/-- what finishing a call does to one expectation when the call has succeeded -/
def finishE (k : Nat) (e : Exp) : Exp :=
  let e1 := if e.isMatch then e.callWasMade k else e
  if e1.cand then e1.reset else e1

theorem finishE_nomatch (k : Nat) {e : Exp} (h : e.isMatch = false) : finishE k e = if e.cand then e.reset else e := by
  simp [finishE, h]

theorem finishE_match (k : Nat) {e : Exp} (h : e.isMatch = true) (hc : e.cand = false) : finishE k e = e.callWasMade k := by
  have : (e.callWasMade k).cand = false := by simp [Exp.callWasMade, Exp.reset, hc]
  simp [finishE, h, this]

/-- finishing a call whose steps all went through: it succeeds exactly when some expectation
    with capacity has the call's signature, it uses up the first such, and leaves no flags -/
theorem callCheck_spec {c : Call} {cs : CS} {k : Nat}
    (hinv : Inv c c.segs cs) (hchk : cs.call.checked = false) (hord : cs.call.order = k)
    (hun : ∀ a ∈ cs.es, ∀ b ∈ cs.es, a.name = b.name → sameSig a b = true ∨ conflict a b = true)
    (hwfe : ∀ a ∈ cs.es, WFExp a) :
    (cs.es.any (wants c) = true →
      (callCheck cs).fail = none ∧
      (callCheck cs).es.map Exp.norm = modifyFirst (wants c) (fun e => e.bump k) (cs.es.map Exp.norm) ∧
      Clean (callCheck cs).es ∧
      ∃ x, (cs.es.map Exp.norm).find? (wants c) = some x ∧ returnValueOf (callCheck cs).es = x.ret ∧
        ∃ y ∈ (callCheck cs).es, y.isMatch = true ∧ y.norm = x.bump k) ∧
    (cs.es.any (wants c) = false → (callCheck cs).fail ≠ none) := by
  rcases hinv.pos with hnom | ⟨l1, x, l2, hl, hx, h1, h2⟩
  · -- no match: the call is still in progress and nothing is complete
    have hno : anyMatch cs.es = false := (anyMatch_false_iff _).mpr hnom
    have hst : cs.call.state = .inProgress := by rw [hinv.st, hno]; rfl
    have hnw : cs.es.any (wants c) = false := by
      apply Bool.eq_false_iff.mpr
      intro hw
      simp only [List.any_eq_true] at hw
      obtain ⟨y, hy, hwy⟩ := hw
      have hyc : y.cand = true := by
        rcases (hinv.elems y hy).keep hwy with h | h
        · exact h
        · rw [hnom y hy] at h; cases h
      have := hinv.noMF hno y hy hyc
      simp only [wants, fits, Bool.and_eq_true] at hwy
      rw [hwy.2.2] at this; cases this
    refine ⟨fun h => (by rw [hnw] at h; cases h), fun _ => ?_⟩
    have hMF : ∀ y ∈ cs.es, isMF y = false := by
      intro y hy
      cases hc : y.cand with
      | false => simp [isMF, hc]
      | true =>
        rw [isMF_of_flagsOK ((hinv.elems y hy).cand hc).2.2.2 (hinv.elems y hy).plain, hc, hinv.noMF hno y hy hc]; rfl
    have hany : cs.es.any isMF = false := by
      apply Bool.eq_false_iff.mpr
      intro h
      simp only [List.any_eq_true] at h
      obtain ⟨y, hy, hyy⟩ := h
      rw [hMF y hy] at hyy; cases hyy
    have hfind : cs.es.find? isM = none := by
      rw [find_congr' (fun a ha => isM_eq_isMF (hinv.elems a ha).plain)]
      apply List.find?_eq_none.mpr
      intro y hy; rw [hMF y hy]; simp
    unfold callCheck
    rw [if_neg (by rw [hchk]; simp)]
    simp only [hst]
    unfold finishInProgress
    simp only [hany, Bool.false_eq_true, if_false, hfind]
    split
    · apply failCall_fail_ne
      · simp
      · exact hinv.nofail
    · apply failCall_fail_ne
      · simp
      · exact hinv.nofail
  · -- a match: it is the first expectation the call wants
    have hany : anyMatch cs.es = true := by rw [hl]; exact anyMatch_of_pos hx
    have hst : cs.call.state = .succeed := by rw [hinv.st, hany]; rfl
    have hxmem : x ∈ cs.es := by rw [hl]; simp
    obtain ⟨hxc, hxal, hxcomp, hxfl, hxcov⟩ := (hinv.elems x hxmem).mtch hx
    have hxw : wants c x = true := by
      simp only [alive, Bool.and_eq_true] at hxal
      simp [wants, fits, hxal.1, hxal.2, hxcomp, hxcov]
    have hl1w : ∀ y ∈ l1, wants c y = false := by
      intro y hy
      apply Bool.eq_false_iff.mpr
      intro hwy
      have hym : y ∈ cs.es := by rw [hl]; simp [hy]
      have hfy : fits y c = true := by simp only [wants, Bool.and_eq_true] at hwy; exact hwy.2
      have hfx : fits x c = true := by simp only [wants, Bool.and_eq_true] at hxw; exact hxw.2
      have hname : y.name = x.name := by
        simp only [fits, Bool.and_eq_true, beq_iff_eq] at hfy hfx
        rw [hfy.1.1, hfx.1.1]
      rcases hun y hym x hxmem hname with hs | hcf
      · exact (h1 y hy).2 ⟨hwy, hs⟩
      · rw [fits_no_conflict (hwfe y hym) (hwfe x hxmem) hfy hfx] at hcf; cases hcf
    have hes : (callCheck cs).es = cs.es.map (finishE k) := by
      unfold callCheck
      rw [if_neg (by rw [hchk]; simp)]
      simp only [hst, hord, resetCands, List.map_map]
      rfl
    have hfail : (callCheck cs).fail = none := by
      unfold callCheck
      rw [if_neg (by rw [hchk]; simp)]
      simp only [hst]
      exact hinv.nofail
    have hfx : finishE k x = x.callWasMade k := finishE_match k hx hxc
    have hfy : ∀ y, y.isMatch = false → (finishE k y).norm = y.norm ∧ (finishE k y).isMatch = false := by
      intro y hy
      rw [finishE_nomatch k hy]
      split
      · exact ⟨norm_reset y, by simp [Exp.reset, hy]⟩
      · exact ⟨rfl, hy⟩
    have hmap1 : (l1.map (finishE k)).map Exp.norm = l1.map Exp.norm := by
      rw [List.map_map]; apply List.map_congr_left
      intro y hy; exact (hfy y (h1 y hy).1).1
    have hmap2 : (l2.map (finishE k)).map Exp.norm = l2.map Exp.norm := by
      rw [List.map_map]; apply List.map_congr_left
      intro y hy; exact (hfy y (h2 y hy)).1
    have hl1n : ∀ y ∈ l1.map Exp.norm, wants c y = false := by
      intro y hy
      simp only [List.mem_map] at hy
      obtain ⟨z, hz, rfl⟩ := hy
      rw [wants_norm]; exact hl1w z hz
    refine ⟨fun _ => ⟨hfail, ?_, ?_, ?_⟩, fun h => ?_⟩
    · rw [hes, hl]
      simp only [List.map_append, List.map_cons, hmap1, hmap2, hfx, norm_callWasMade]
      rw [modifyFirst_append_of _ hl1n (by rw [wants_norm]; exact hxw)]
    · rw [hes]
      intro y hy
      simp only [List.mem_map] at hy
      obtain ⟨z, hz, rfl⟩ := hy
      cases hzm : z.isMatch with
      | true =>
        have hzc := ((hinv.elems z hz).mtch hzm).1
        rw [finishE_match k hzm hzc]; exact clean_callWasMade z k
      | false =>
        rw [finishE_nomatch k hzm]
        exact clean_resetCands_elem z (fun hc => (hinv.elems z hz).dead hc hzm)
    · refine ⟨x.norm, ?_, ?_, ⟨x.callWasMade k, ?_, by simp [Exp.callWasMade, Exp.reset, hx], norm_callWasMade x k⟩⟩
      · rw [hl]
        simp only [List.map_append, List.map_cons]
        exact find_append_of _ hl1n (by rw [wants_norm]; exact hxw)
      rotate_left
      · rw [hes]
        exact List.mem_map.mpr ⟨x, hxmem, hfx⟩
      · rw [hes, hl]
        simp only [List.map_append, List.map_cons, returnValueOf]
        have hp1 : ∀ y ∈ l1.map (finishE k), (fun e : Exp => e.isMatch) y = false := by
          intro y hy
          simp only [List.mem_map] at hy
          obtain ⟨z, hz, rfl⟩ := hy
          exact (hfy z (h1 z hz).1).2
        have hpx : (fun e : Exp => e.isMatch) (finishE k x) = true := by
          rw [hfx]; simp [Exp.callWasMade, Exp.reset, hx]
        rw [find_append_of _ hp1 hpx]
        rw [hfx]
        simp [Exp.callWasMade, Exp.reset, Exp.norm]
    · have : cs.es.any (wants c) = true := by
        simp only [List.any_eq_true]; exact ⟨x, hxmem, hxw⟩
      rw [this] at h; cases h

theorem failCall_fail_some (cs : CS) (msg m : String) (h : cs.fail = some m) : (failCall cs msg).fail = some m := by
  unfold failCall
  split
  · exact h
  · simp [h]

theorem callCheck_fail_some (cs : CS) (m : String) (h : cs.fail = some m) : (callCheck cs).fail = some m := by
  unfold callCheck
  split
  · exact h
  · simp only
    split
    · exact h
    · exact h
    · unfold finishInProgress
      simp only
      split
      · exact failCall_fail_some _ _ _ h
      · split
        · exact h
        · split <;> exact failCall_fail_some _ _ _ h

theorem WFExp_norm (e : Exp) : WFExp e.norm ↔ WFExp e := by
  simp [WFExp, Exp.norm, Exp.reset, List.map_map, Function.comp_def]

theorem conflict_norm (a b : Exp) : conflict a.norm b.norm = conflict a b := by
  simp [conflict, Exp.norm, Exp.reset, List.any_map, Function.comp_def]

theorem conflict_static {a b a' b' : Exp} (ha : a.norm = a'.norm) (hb : b.norm = b'.norm) : conflict a b = conflict a' b' := by
  rw [← conflict_norm a b, ha, hb, conflict_norm]

theorem mem_of_map_norm_eq {l1 l2 : List Exp} (h : l1.map Exp.norm = l2.map Exp.norm) {a : Exp} (ha : a ∈ l1) :
    ∃ a0 ∈ l2, a0.norm = a.norm := by
  have : a.norm ∈ l1.map Exp.norm := List.mem_map.mpr ⟨a, ha, rfl⟩
  rw [h] at this
  obtain ⟨a0, h0, h1⟩ := List.mem_map.mp this
  exact ⟨a0, h0, h1⟩

theorem unambiguous_transfer {l1 l2 : List Exp} (h : l1.map Exp.norm = l2.map Exp.norm) (hun : Unambiguous l2) :
    ∀ a ∈ l1, ∀ b ∈ l1, a.name = b.name → sameSig a b = true ∨ conflict a b = true := by
  intro a ha b hb hn
  obtain ⟨a0, ha0, hna⟩ := mem_of_map_norm_eq h ha
  obtain ⟨b0, hb0, hnb⟩ := mem_of_map_norm_eq h hb
  have hn0 : a0.name = b0.name := by
    have e1 : a0.name = a.name := static_eq (fun e => e.name) (fun _ => rfl) hna
    have e2 : b0.name = b.name := static_eq (fun e => e.name) (fun _ => rfl) hnb
    rw [e1, e2, hn]
  rw [sameSig_static hna.symm hnb.symm, conflict_static hna.symm hnb.symm]
  exact hun a0 ha0 b0 hb0 hn0

theorem wfexp_transfer {l1 l2 : List Exp} (h : l1.map Exp.norm = l2.map Exp.norm) (hwf : ∀ e ∈ l2, WFExp e) :
    ∀ a ∈ l1, WFExp a := by
  intro a ha
  obtain ⟨a0, ha0, hna⟩ := mem_of_map_norm_eq h ha
  rw [← WFExp_norm, ← hna, WFExp_norm]
  exact hwf a0 ha0

/-- **One actual call, from clean flags** (plain, unambiguous expectations; well-formed call):
    the call is fulfilled iff some expectation with capacity has its signature; it then uses up
    the first such in declaration order, returns its value, and leaves all matching flags clean. -/
theorem callFull_spec {es : List Exp} {c : Call} (k : Nat) (buf : List UInt8)
    (hclean : Clean es) (hplain : Plain es) (hun : Unambiguous es) (hwfe : ∀ e ∈ es, WFExp e) (hwf : WFCall c) :
    (es.any (wants c) = true →
      (callFull es k c.name c.segs buf).fail = none ∧
      (callFull es k c.name c.segs buf).es.map Exp.norm = modifyFirst (wants c) (fun e => e.bump k) (es.map Exp.norm) ∧
      Clean (callFull es k c.name c.segs buf).es ∧
      ∃ x, (es.map Exp.norm).find? (wants c) = some x ∧ returnValueOf (callFull es k c.name c.segs buf).es = x.ret ∧
        ∃ y ∈ (callFull es k c.name c.segs buf).es, y.isMatch = true ∧ y.norm = x.bump k) ∧
    (es.any (wants c) = false → (callFull es k c.name c.segs buf).fail ≠ none) := by
  obtain ⟨a1, a2, a3, a4, a5⟩ := withName_inv (c := c) k hclean hplain
  unfold callFull
  cases hwfail : (withName { es := beginCall es, call := newCall k, fail := none } c.name).fail with
  | some m =>
    have hne : (withName { es := beginCall es, call := newCall k, fail := none } c.name).fail ≠ none := by rw [hwfail]; simp
    have hnw := a2 hne
    rw [segsFrom_failed _ _ _ hne]
    refine ⟨fun h => (by rw [hnw] at h; cases h), fun _ => ?_⟩
    rw [callCheck_fail_some _ m hwfail]; simp
  | none =>
    have hinv0 := a1 hwfail
    obtain ⟨b1, b2, b3, b4, b5⟩ := segsFrom_inv buf hwf c.segs [] _ (by simp) hinv0
    have hnorm : (segsFrom (withName { es := beginCall es, call := newCall k, fail := none } c.name) buf c.segs).es.map Exp.norm
        = es.map Exp.norm := by rw [b3, a3]
    have hwants := any_wants_congr c hnorm
    cases hsfail : (segsFrom (withName { es := beginCall es, call := newCall k, fail := none } c.name) buf c.segs).fail with
    | some m =>
      have hne : (segsFrom (withName { es := beginCall es, call := newCall k, fail := none } c.name) buf c.segs).fail ≠ none := by
        rw [hsfail]; simp
      have hnw : es.any (wants c) = false := by
        rw [← any_wants_congr c a3]; exact b2 hne
      refine ⟨fun h => (by rw [hnw] at h; cases h), fun _ => ?_⟩
      rw [callCheck_fail_some _ m hsfail]; simp
    | none =>
      have hinv := b1 hsfail
      obtain ⟨c1, c2⟩ := callCheck_spec (k := k) hinv (by rw [b4, a4]) (by rw [b5, a5])
        (unambiguous_transfer hnorm hun) (wfexp_transfer hnorm hwfe)
      rw [hwants, hnorm] at c1
      rw [hwants] at c2
      exact ⟨c1, c2⟩

/-! ### a whole run refines the abstract consumption -/

theorem mem_modifyFirst {p : Exp → Bool} {f : Exp → Exp} : ∀ {l : List Exp} {y : Exp},
    y ∈ modifyFirst p f l → y ∈ l ∨ ∃ x ∈ l, y = f x
  | [], _, h => by simp [modifyFirst] at h
  | a :: l, y, h => by
    simp only [modifyFirst] at h
    split at h
    · simp only [List.mem_cons] at h
      rcases h with rfl | h
      · exact Or.inr ⟨a, by simp, rfl⟩
      · exact Or.inl (by simp [h])
    · simp only [List.mem_cons] at h
      rcases h with rfl | h
      · exact Or.inl (by simp)
      · rcases mem_modifyFirst h with h | ⟨x, hx, rfl⟩
        · exact Or.inl (by simp [h])
        · exact Or.inr ⟨x, by simp [hx], rfl⟩

theorem modifyFirst_map_comm (p : Exp → Bool) (f : Exp → Exp) (g : Exp → Exp)
    (hp : ∀ e, p (g e) = p e) (hf : ∀ e, g (f e) = f (g e)) :
    ∀ l : List Exp, (modifyFirst p f l).map g = modifyFirst p f (l.map g)
  | [] => rfl
  | a :: l => by
    simp only [modifyFirst, List.map_cons, hp]
    split
    · simp [hf]
    · simp [modifyFirst_map_comm p f g hp hf l]

theorem norm_bump (e : Exp) (k : Nat) : (e.bump k).norm = e.norm.bump k := by
  simp [Exp.bump, Exp.norm, Exp.reset]
  rfl

theorem unambiguous_bump {es : List Exp} {c : Call} {k : Nat} (h : Unambiguous es) :
    Unambiguous (modifyFirst (wants c) (fun e => e.bump k) es) := by
  intro a ha b hb hn
  rcases mem_modifyFirst ha with ha | ⟨a0, ha0, rfl⟩ <;> rcases mem_modifyFirst hb with hb | ⟨b0, hb0, rfl⟩
  · exact h a ha b hb hn
  · exact h a ha b0 hb0 hn
  · exact h a0 ha0 b hb hn
  · exact h a0 ha0 b0 hb0 hn

theorem plain_bump {es : List Exp} {c : Call} {k : Nat} (h : Plain es) :
    Plain (modifyFirst (wants c) (fun e => e.bump k) es) := by
  intro a ha
  rcases mem_modifyFirst ha with ha | ⟨a0, ha0, rfl⟩
  · exact h a ha
  · exact h a0 ha0

theorem wfexp_bump {es : List Exp} {c : Call} {k : Nat} (h : ∀ e ∈ es, WFExp e) :
    ∀ e ∈ modifyFirst (wants c) (fun e => e.bump k) es, WFExp e := by
  intro a ha
  rcases mem_modifyFirst ha with ha | ⟨a0, ha0, rfl⟩
  · exact h a ha
  · exact h a0 ha0

theorem plain_transfer {l1 l2 : List Exp} (h : l1.map Exp.norm = l2.map Exp.norm) (hp : Plain l2) : Plain l1 := by
  intro a ha
  obtain ⟨a0, ha0, hna⟩ := mem_of_map_norm_eq h ha
  rw [← iop_static hna]; exact hp a0 ha0

theorem any_wants_norm (c : Call) (es : List Exp) : (es.map Exp.norm).any (wants c) = es.any (wants c) := by
  simp [List.any_map, Function.comp_def, wants_norm]

/-- the run of the code on clean, plain, unambiguous expectations is the fold of `consume`
    followed by the end-of-test check -/
theorem run_refines : ∀ (calls : List Call) (es : List Exp) (k : Nat),
    Clean es → Plain es → Unambiguous es → (∀ e ∈ es, WFExp e) → (∀ c ∈ calls, WFCall c) →
    (∀ es', consumeAll (es.map Exp.norm) k calls = some es' → run es k calls = endCheck es') ∧
    (consumeAll (es.map Exp.norm) k calls = none → run es k calls ≠ none)
  | [], es, k, _, _, _, _, _ => by
    refine ⟨fun es' h => ?_, fun h => by simp [consumeAll] at h⟩
    simp only [consumeAll, Option.some.injEq] at h
    subst h
    simp only [run, endCheck, List.any_map, Function.comp_def]
    rfl
  | c :: rest, es, k, hclean, hplain, hun, hwfe, hwfc => by
    obtain ⟨s1, s2⟩ := callFull_spec (c := c) (k + 1) bufInit hclean hplain hun hwfe (hwfc c (by simp))
    simp only [consumeAll, consume, any_wants_norm, run]
    cases hany : es.any (wants c) with
    | false =>
      have hf := s2 hany
      refine ⟨fun es' h => by simp at h, fun _ => ?_⟩
      cases hff : (callFull es (k + 1) c.name c.segs bufInit).fail with
      | none => exact absurd hff hf
      | some m => simp
    | true =>
      obtain ⟨t1, t2, t3, _⟩ := s1 hany
      simp only [if_true, t1]
      have hcomm : modifyFirst (wants c) (fun e => e.bump (k + 1)) (es.map Exp.norm)
          = (modifyFirst (wants c) (fun e => e.bump (k + 1)) es).map Exp.norm :=
        (modifyFirst_map_comm (wants c) (fun e => e.bump (k + 1)) Exp.norm (wants_norm c) (fun e => norm_bump e (k + 1)) es).symm
      have hnorm : (callFull es (k + 1) c.name c.segs bufInit).es.map Exp.norm
          = (modifyFirst (wants c) (fun e => e.bump (k + 1)) es).map Exp.norm := by rw [t2, hcomm]
      have ih := run_refines rest (callFull es (k + 1) c.name c.segs bufInit).es (k + 1) t3
        (plain_transfer hnorm (plain_bump hplain))
        (unambiguous_transfer hnorm (unambiguous_bump hun))
        (wfexp_transfer hnorm (wfexp_bump hwfe))
        (fun c' hc' => hwfc c' (by simp [hc']))
      rw [t2] at ih
      exact ih

/-! ### counting: the fold of `consume` ends full iff the multisets agree -/

theorem hasInput_of_param {a : Exp} {p : Param} (hw : WFExp a) (hp : p ∈ a.ins) : a.hasInput p.name p.val = true := by
  unfold Exp.hasInput
  rw [find_unique_param a.ins p hw.1 hp]
  simp

theorem sameSig_refl {e : Exp} (hw : WFExp e) : sameSig e e = true := by
  simp only [sameSig, Bool.and_eq_true, List.all_eq_true, beq_self_eq_true, true_and]
  refine ⟨⟨⟨fun p hp => hasInput_of_param hw hp, fun p hp => hasInput_of_param hw hp⟩, ?_⟩, ?_⟩ <;>
  · intro p hp
    simp only [Exp.hasOutputNamed, List.any_eq_true]
    exact ⟨p, hp, by simp⟩

theorem hasOutput_of_named {a : Exp} {n : String} (h : a.hasOutputNamed n = true) : a.hasOutput n = true := by
  obtain ⟨q, hq, hn⟩ := hasOutputNamed_true h
  unfold Exp.hasOutput
  cases hf : a.outs.find? (fun p => p.name == n) with
  | some _ => rfl
  | none =>
    have := List.find?_eq_none.mp hf q hq
    simp [hn] at this

theorem fits_of_sameSig {a b : Exp} {c : Call} (ha : a.iop = false) (hb : b.iop = false)
    (hs : sameSig a b = true) (hf : fits b c = true) : fits a c = true := by
  have hcov := covered_eq_of_sameSig c.segs hb ha hs
  simp only [sameSig, Bool.and_eq_true, List.all_eq_true, beq_iff_eq] at hs
  obtain ⟨⟨⟨⟨⟨hn, ho⟩, _⟩, hba⟩, _⟩, hoba⟩ := hs
  simp only [fits, Bool.and_eq_true, beq_iff_eq, compat, List.all_eq_true] at hf ⊢
  refine ⟨⟨by rw [hn]; exact hf.1.1, ?_⟩, by rw [hcov]; exact hf.2⟩
  intro s hs
  have hbs := hf.1.2 s hs
  cases s with
  | inp n v =>
    obtain ⟨q, hq, hqn, hqv⟩ := hasInput_plain hb hbs
    have := hba q hq
    rw [hqn, hqv] at this
    exact this
  | out n =>
    obtain ⟨q, hq, hqn⟩ := hasOutput_plain hb hbs
    have := hoba q hq
    rw [hqn] at this
    exact hasOutput_of_named this
  | obj o =>
    simp only [compatSeg, Exp.relatesToObject] at hbs ⊢
    rw [ho]; exact hbs

theorem sameSig_of_fits {a b : Exp} {c : Call} (hwa : WFExp a) (hwb : WFExp b)
    (hu : sameSig a b = true ∨ conflict a b = true) (hfa : fits a c = true) (hfb : fits b c = true) :
    sameSig a b = true := by
  rcases hu with h | h
  · exact h
  · rw [fits_no_conflict hwa hwb hfa hfb] at h; cases h

/-- capacity an expectation `x` contributes to the signature class of `e` -/
def capOf (e x : Exp) : Nat := if sameSig e x then x.expected - x.actual else 0

theorem capLeft_eq_sum (N : List Exp) (e : Exp) : capLeft N e = (N.map (capOf e)).sum := by
  unfold capLeft
  induction N with
  | nil => rfl
  | cons a N ih =>
    simp only [List.filter_cons, List.map_cons, List.sum_cons, capOf]
    split
    · simp [ih]
    · simp [ih]

theorem capLeft_append (l1 l2 : List Exp) (e : Exp) : capLeft (l1 ++ l2) e = capLeft l1 e + capLeft l2 e := by
  simp [capLeft_eq_sum, List.sum_append]

theorem capLeft_cons (x : Exp) (l : List Exp) (e : Exp) : capLeft (x :: l) e = capOf e x + capLeft l e := by
  simp [capLeft_eq_sum]

theorem capOf_le_capLeft {N : List Exp} {x : Exp} (e : Exp) (hx : x ∈ N) : capOf e x ≤ capLeft N e := by
  induction N with
  | nil => simp at hx
  | cons a N ih =>
    rw [capLeft_cons]
    simp only [List.mem_cons] at hx
    rcases hx with rfl | hx
    · omega
    · have := ih hx; omega

theorem exists_capOf_pos {N : List Exp} (e : Exp) (h : 0 < capLeft N e) : ∃ y ∈ N, 0 < capOf e y := by
  induction N with
  | nil => simp [capLeft] at h
  | cons a N ih =>
    rw [capLeft_cons] at h
    by_cases ha : 0 < capOf e a
    · exact ⟨a, by simp, ha⟩
    · have : 0 < capLeft N e := by omega
      obtain ⟨y, hy, hp⟩ := ih this
      exact ⟨y, by simp [hy], hp⟩

theorem sum_zero_of_all_zero : ∀ (l : List Nat), (∀ n ∈ l, n = 0) → l.sum = 0
  | [], _ => rfl
  | a :: l, h => by
    simp only [List.sum_cons]
    rw [h a (by simp), sum_zero_of_all_zero l (fun n hn => h n (by simp [hn]))]

theorem demand_cons (c : Call) (rest : List Call) (e : Exp) :
    demand (c :: rest) e = (if fits e c then 1 else 0) + demand rest e := by
  simp only [demand, List.countP_cons]
  split <;> omega

theorem consumeAll_full_iff : ∀ (calls : List Call) (N : List Exp) (k : Nat),
    Plain N → Unambiguous N → (∀ e ∈ N, WFExp e) → (∀ e ∈ N, e.actual ≤ e.expected) →
    ((∃ N', consumeAll N k calls = some N' ∧ ∀ x ∈ N', x.actual = x.expected) ↔ MultisetEq N calls)
  | [], N, k, _, _, hwf, hle => by
    simp only [consumeAll, Option.some.injEq, exists_eq_left', MultisetEq, List.not_mem_nil, false_imp_iff,
      implies_true, true_and, demand, List.countP_nil]
    constructor
    · intro h e _
      rw [capLeft_eq_sum]
      symm
      apply sum_zero_of_all_zero
      intro n hn
      simp only [List.mem_map] at hn
      obtain ⟨x, hx, rfl⟩ := hn
      simp only [capOf]
      split
      · rw [h x hx]; omega
      · rfl
    · intro h x hx
      have h1 := capOf_le_capLeft x hx
      rw [← h x hx] at h1
      simp only [capOf, sameSig_refl (hwf x hx), if_true] at h1
      have := hle x hx
      omega
  | c :: rest, N, k, hplain, hun, hwf, hle => by
    simp only [consumeAll, consume]
    cases hany : N.any (wants c) with
    | false =>
      simp only [Bool.false_eq_true, if_false]
      constructor
      · rintro ⟨_, h, _⟩; cases h
      · intro hm
        exfalso
        obtain ⟨e, he, hfe⟩ := hm.1 c (by simp)
        have hd := hm.2 e he
        rw [demand_cons, hfe] at hd
        have hpos : 0 < capLeft N e := by simp at hd; omega
        obtain ⟨y, hy, hyp⟩ := exists_capOf_pos e hpos
        simp only [capOf] at hyp
        split at hyp
        · next hs =>
          have hfy : fits y c = true := fits_of_sameSig (hplain y hy) (hplain e he) (sameSig_symm hs) hfe
          have hw : wants c y = true := by
            simp only [wants, Exp.canMatch, Bool.and_eq_true, decide_eq_true_eq]
            exact ⟨by omega, hfy⟩
          have := List.any_eq_false.mp hany y hy
          exact this hw
        · omega
    | true =>
      simp only [if_true]
      have hfind : ∃ x, N.find? (wants c) = some x := by
        cases hf : N.find? (wants c) with
        | some x => exact ⟨x, rfl⟩
        | none =>
          have := find_none' hf
          simp only [List.any_eq_true] at hany
          obtain ⟨y, hy, hwy⟩ := hany
          rw [this y hy] at hwy; cases hwy
      obtain ⟨x, hfx⟩ := hfind
      obtain ⟨l1, l2, hl, hxw, _, hmod⟩ := find_decomp hfx
      rw [hmod]
      have hxmem : x ∈ N := by rw [hl]; simp
      have hxfit : fits x c = true := by simp only [wants, Bool.and_eq_true] at hxw; exact hxw.2
      have hxcap : x.actual < x.expected := by
        simp only [wants, Exp.canMatch, Bool.and_eq_true, decide_eq_true_eq] at hxw; exact hxw.1
      have hN1 : modifyFirst (wants c) (fun e => e.bump (k + 1)) N = l1 ++ x.bump (k + 1) :: l2 := hmod _
      have ih := consumeAll_full_iff rest (l1 ++ x.bump (k + 1) :: l2) (k + 1)
        (by rw [← hN1]; exact plain_bump hplain) (by rw [← hN1]; exact unambiguous_bump hun)
        (by rw [← hN1]; exact wfexp_bump hwf)
        (by
          intro e he
          simp only [List.mem_append, List.mem_cons] at he
          rcases he with he | rfl | he
          · exact hle e (by rw [hl]; simp [he])
          · show x.actual + 1 ≤ x.expected; omega
          · exact hle e (by rw [hl]; simp [he]))
      rw [ih]
      -- relate the two multiset statements
      have hfitsig : ∀ e ∈ N, (fits e c = true ↔ sameSig e x = true) := by
        intro e he
        constructor
        · intro hf
          have hname : e.name = x.name := by
            simp only [fits, Bool.and_eq_true, beq_iff_eq] at hf hxfit
            rw [hf.1.1, hxfit.1.1]
          exact sameSig_of_fits (hwf e he) (hwf x hxmem) (hun e he x hxmem hname) hf hxfit
        · intro hs
          exact fits_of_sameSig (hplain e he) (hplain x hxmem) hs hxfit
      have hcap : ∀ e ∈ N, capLeft N e = capLeft (l1 ++ x.bump (k + 1) :: l2) e + (if fits e c then 1 else 0) := by
        intro e he
        rw [hl, capLeft_append, capLeft_append, capLeft_cons, capLeft_cons]
        have : capOf e x = capOf e (x.bump (k + 1)) + (if fits e c then 1 else 0) := by
          simp only [capOf]
          have e1 : sameSig e (x.bump (k + 1)) = sameSig e x := rfl
          rw [e1]
          cases hs : sameSig e x with
          | true =>
            rw [(hfitsig e he).mpr hs]
            show x.expected - x.actual = x.expected - (x.actual + 1) + 1
            omega
          | false =>
            have : fits e c = false := by
              apply Bool.eq_false_iff.mpr
              intro hf; rw [(hfitsig e he).mp hf] at hs; cases hs
            simp [this]
        omega
      constructor
      · intro hm
        refine ⟨?_, ?_⟩
        · intro c' hc'
          simp only [List.mem_cons] at hc'
          rcases hc' with rfl | hc'
          · exact ⟨x, hxmem, hxfit⟩
          · obtain ⟨e, he, hf⟩ := hm.1 c' hc'
            simp only [List.mem_append, List.mem_cons] at he
            rcases he with he | rfl | he
            · exact ⟨e, by rw [hl]; simp [he], hf⟩
            · exact ⟨x, hxmem, hf⟩
            · exact ⟨e, by rw [hl]; simp [he], hf⟩
        · intro e he
          rw [demand_cons, hcap e he]
          have hmem : e ∈ l1 ∨ e = x ∨ e ∈ l2 := by
            rw [hl] at he; simpa using he
          have : demand rest e = capLeft (l1 ++ x.bump (k + 1) :: l2) e := by
            rcases hmem with h | rfl | h
            · exact hm.2 e (by simp [h])
            · have := hm.2 (e.bump (k + 1)) (by simp)
              exact this
            · exact hm.2 e (by simp [h])
          omega
      · intro hm
        refine ⟨?_, ?_⟩
        · intro c' hc'
          obtain ⟨e, he, hf⟩ := hm.1 c' (by simp [hc'])
          rw [hl] at he
          simp only [List.mem_append, List.mem_cons] at he
          rcases he with he | rfl | he
          · exact ⟨e, by simp [he], hf⟩
          · exact ⟨e.bump (k + 1), by simp, hf⟩
          · exact ⟨e, by simp [he], hf⟩
        · intro e he
          simp only [List.mem_append, List.mem_cons] at he
          have key : ∀ e0 ∈ N, demand rest e0 = capLeft (l1 ++ x.bump (k + 1) :: l2) e0 := by
            intro e0 he0
            have h1 := hm.2 e0 he0
            rw [demand_cons, hcap e0 he0] at h1
            omega
          rcases he with he | rfl | he
          · exact key e (by rw [hl]; simp [he])
          · exact key x hxmem
          · exact key e (by rw [hl]; simp [he])

theorem capLeft_norm (es : List Exp) (e : Exp) : capLeft (es.map Exp.norm) e.norm = capLeft es e := by
  simp only [capLeft_eq_sum, List.map_map]
  congr 1
  apply List.map_congr_left
  intro x _
  simp only [Function.comp, capOf, sameSig_norm_left, sameSig_norm_right]
  rfl

theorem demand_norm (calls : List Call) (e : Exp) : demand calls e.norm = demand calls e := by
  simp [demand, fits_norm]

theorem multisetEq_norm (es : List Exp) (calls : List Call) : MultisetEq (es.map Exp.norm) calls ↔ MultisetEq es calls := by
  simp only [MultisetEq, List.mem_map]
  constructor
  · rintro ⟨h1, h2⟩
    refine ⟨fun c hc => ?_, fun e he => ?_⟩
    · obtain ⟨e', ⟨e, he, rfl⟩, hf⟩ := h1 c hc
      exact ⟨e, he, by rw [← fits_norm]; exact hf⟩
    · have := h2 e.norm ⟨e, he, rfl⟩
      rw [demand_norm, capLeft_norm] at this
      exact this
  · rintro ⟨h1, h2⟩
    refine ⟨fun c hc => ?_, ?_⟩
    · obtain ⟨e, he, hf⟩ := h1 c hc
      exact ⟨e.norm, ⟨e, he, rfl⟩, by rw [fits_norm]; exact hf⟩
    · rintro e' ⟨e, he, rfl⟩
      rw [demand_norm, capLeft_norm]
      exact h2 e he

theorem noOrder_consumeAll : ∀ (calls : List Call) (N : List Exp) (k : Nat) (N' : List Exp),
    NoOrder N → consumeAll N k calls = some N' → NoOrder N'
  | [], N, k, N', h, hc => by
    simp only [consumeAll, Option.some.injEq] at hc; subst hc; exact h
  | c :: rest, N, k, N', h, hc => by
    simp only [consumeAll] at hc
    cases hcons : consume N (k + 1) c with
    | none => rw [hcons] at hc; cases hc
    | some N1 =>
      rw [hcons] at hc
      simp only [consume] at hcons
      split at hcons
      · simp only [Option.some.injEq] at hcons
        subst hcons
        refine noOrder_consumeAll rest _ (k + 1) N' ?_ hc
        intro e he
        rcases mem_modifyFirst he with he | ⟨e0, he0, rfl⟩
        · exact h e he
        · obtain ⟨h1, h2⟩ := h e0 he0
          exact ⟨h1, by simp [Exp.bump, h1, h2]⟩
      · cases hcons

theorem endCheck_none_iff (N : List Exp) :
    endCheck N = none ↔ (∀ x ∈ N, x.actual = x.expected) ∧ (∀ x ∈ N, x.outOfOrder = false) := by
  unfold endCheck
  constructor
  · intro h
    split at h
    · cases h
    · next h1 =>
      split at h
      · cases h
      · next h2 =>
        have h1' : (N.any fun e => !e.isFulfilled) = false := Bool.eq_false_iff.mpr h1
        have h2' : (N.any fun e => e.outOfOrder) = false := Bool.eq_false_iff.mpr h2
        refine ⟨fun x hx => ?_, fun x hx => ?_⟩
        · have := List.any_eq_false.mp h1' x hx
          simpa [Exp.isFulfilled] using this
        · have := List.any_eq_false.mp h2' x hx
          simpa using this
  · rintro ⟨h1, h2⟩
    have e1 : (N.any fun e => !e.isFulfilled) = false := by
      apply List.any_eq_false.mpr
      intro x hx; simp [Exp.isFulfilled, h1 x hx]
    have e2 : (N.any fun e => e.outOfOrder) = false := by
      apply List.any_eq_false.mpr
      intro x hx; simp [h2 x hx]
    simp [e1, e2]

/-! ### strict order -/

/-- the expectation list while every call so far was the declared one: a fulfilled prefix, one
    expectation in progress whose next unit is number `k+1`, and an untouched rest -/
def InOrder : Nat → List Exp → Prop
  | _, [] => True
  | k, e :: es => e.outOfOrder = false ∧ e.lo ≠ 0 ∧
      ((e.actual = e.expected ∧ e.hi ≤ k ∧ InOrder k es) ∨
       (e.actual < e.expected ∧ e.lo + e.actual = k + 1 ∧ e.hi + 1 = e.lo + e.expected ∧ windowsFrom e.hi es))

theorem inOrder_of_windows : ∀ (es : List Exp) (k : Nat), windowsFrom k es → InOrder k es
  | [], _, _ => trivial
  | e :: es, k, h => by
    obtain ⟨h1, h2, h3, h4, h5⟩ := h
    refine ⟨h4, by omega, ?_⟩
    by_cases h0 : e.expected = 0
    · left
      refine ⟨by omega, by omega, ?_⟩
      have := inOrder_of_windows es (k + e.expected) h5
      rw [h0] at this; simpa using this
    · right
      refine ⟨by omega, by omega, by omega, ?_⟩
      rw [h2]; exact h5

theorem inOrder_mono : ∀ (es : List Exp) (k : Nat), InOrder k es → (∀ e ∈ es, e.actual = e.expected) → InOrder (k + 1) es
  | [], _, _, _ => trivial
  | e :: es, k, h, hall => by
    obtain ⟨h1, h2, h3⟩ := h
    refine ⟨h1, h2, ?_⟩
    rcases h3 with ⟨a, b, c⟩ | ⟨a, _, _, _⟩
    · left; exact ⟨a, by omega, inOrder_mono es k c (fun x hx => hall x (by simp [hx]))⟩
    · have := hall e (by simp); omega

theorem windows_lo : ∀ (es : List Exp) (h : Nat), windowsFrom h es → ∀ x ∈ es, h + 1 ≤ x.lo ∧ x.actual = 0 ∧ x.lo ≠ 0
  | [], _, _, x, hx => by simp at hx
  | e :: es, h, hw, x, hx => by
    obtain ⟨h1, h2, h3, _, h5⟩ := hw
    simp only [List.mem_cons] at hx
    rcases hx with rfl | hx
    · exact ⟨by omega, h3, by omega⟩
    · have := windows_lo es (h + e.expected) h5 x hx
      exact ⟨by omega, this.2.1, this.2.2⟩

theorem seqFits_replicate_bump (n : Nat) (e : Exp) (k : Nat) (l : List Exp) : ∀ (cs : List Call),
    SeqFits (List.replicate n (e.bump k) ++ l) cs ↔ SeqFits (List.replicate n e ++ l) cs := by
  induction n with
  | zero => intro cs; simp
  | succ n ih =>
    intro cs
    cases cs with
    | nil => simp [List.replicate_succ, SeqFits]
    | cons c cs =>
      simp only [List.replicate_succ, List.cons_append, SeqFits]
      rw [ih cs]
      have : fits (e.bump k) c = fits e c := rfl
      rw [this]

theorem expand_cons (e : Exp) (es : List Exp) :
    expandInOrder (e :: es) = List.replicate (e.expected - e.actual) e ++ expandInOrder es := by
  simp [expandInOrder]

theorem consume_cons_skip {e : Exp} {es : List Exp} {c : Call} {k : Nat} (h : wants c e = false) :
    consume (e :: es) k c = (consume es k c).map (fun l => e :: l) := by
  simp only [consume, List.any_cons, h, Bool.false_or, modifyFirst, Bool.false_eq_true, if_false]
  split <;> rfl

theorem consume_cons_take {e : Exp} {es : List Exp} {c : Call} {k : Nat} (h : wants c e = true) :
    consume (e :: es) k c = some (e.bump k :: es) := by
  simp [consume, List.any_cons, h, modifyFirst]

/-- one call against an in-order state -/
theorem strict_step : ∀ (N : List Exp) (k : Nat) (c : Call), InOrder k N →
    (expandInOrder N = [] → consume N (k + 1) c = none) ∧
    (∀ u tl, expandInOrder N = u :: tl →
      (fits u c = true → ∃ N1, consume N (k + 1) c = some N1 ∧ InOrder (k + 1) N1 ∧
          ∀ cs, SeqFits (expandInOrder N1) cs ↔ SeqFits tl cs) ∧
      (fits u c = false → consume N (k + 1) c = none ∨
          ∃ N1, consume N (k + 1) c = some N1 ∧ ∃ y ∈ N1, y.outOfOrder = true))
  | [], k, c, _ => by
    refine ⟨fun _ => (by simp [consume]), fun u tl h => (by simp [expandInOrder] at h)⟩
  | e :: es, k, c, h => by
    obtain ⟨h1, h2, h3⟩ := h
    rcases h3 with ⟨hfull, hhi, hrest⟩ | ⟨hlt, hpos, hwin, hfresh⟩
    · -- a fulfilled expectation: skipped
      have hw : wants c e = false := by simp [wants, Exp.canMatch, hfull]
      have hex : expandInOrder (e :: es) = expandInOrder es := by
        rw [expand_cons, hfull]; simp
      obtain ⟨i1, i2⟩ := strict_step es k c hrest
      rw [hex, consume_cons_skip hw]
      refine ⟨fun hnil => (by rw [i1 hnil]; rfl), fun u tl hu => ?_⟩
      obtain ⟨j1, j2⟩ := i2 u tl hu
      refine ⟨fun hf => ?_, fun hf => ?_⟩
      · obtain ⟨N1, a, b, d⟩ := j1 hf
        refine ⟨e :: N1, by rw [a]; rfl, ⟨h1, h2, Or.inl ⟨hfull, by omega, b⟩⟩, fun cs => ?_⟩
        have : expandInOrder (e :: N1) = expandInOrder N1 := by rw [expand_cons, hfull]; simp
        rw [this]; exact d cs
      · rcases j2 hf with a | ⟨N1, a, y, hy, hyo⟩
        · left; rw [a]; rfl
        · right; exact ⟨e :: N1, by rw [a]; rfl, y, by simp [hy], hyo⟩
    · -- the expectation in progress: its next unit is number k+1
      have hn : e.expected - e.actual = (e.expected - e.actual - 1) + 1 := by omega
      have hex : expandInOrder (e :: es) = e :: (List.replicate (e.expected - e.actual - 1) e ++ expandInOrder es) := by
        rw [expand_cons, hn, List.replicate_succ]; rfl
      refine ⟨fun hnil => (by rw [hex] at hnil; cases hnil), fun u tl hu => ?_⟩
      rw [hex] at hu
      simp only [List.cons.injEq] at hu
      obtain ⟨rfl, rfl⟩ := hu
      refine ⟨fun hf => ?_, fun hf => ?_⟩
      · have hw : wants c e = true := by simp [wants, Exp.canMatch, hlt, hf]
        refine ⟨e.bump (k + 1) :: es, consume_cons_take hw, ?_, fun cs => ?_⟩
        · have hoo : (e.bump (k + 1)).outOfOrder = false := by
            simp only [Exp.bump, h1, Bool.false_or, Bool.and_eq_false_imp, bne_iff_ne, ne_eq,
              Bool.or_eq_false_iff, decide_eq_false_iff_not, Nat.not_lt]
            intro _; constructor <;> omega
          refine ⟨hoo, h2, ?_⟩
          by_cases hdone : e.actual + 1 = e.expected
          · left
            refine ⟨hdone, ?_, ?_⟩
            · show e.hi ≤ k + 1; omega
            · have : e.hi = k + 1 := by omega
              rw [← this]; exact inOrder_of_windows es e.hi hfresh
          · right
            refine ⟨?_, ?_, hwin, hfresh⟩
            · show e.actual + 1 < e.expected; omega
            · show e.lo + (e.actual + 1) = k + 1 + 1; omega
        · rw [expand_cons]
          have : (e.bump (k + 1)).expected - (e.bump (k + 1)).actual = e.expected - e.actual - 1 := by
            show e.expected - (e.actual + 1) = _; omega
          rw [this]
          exact seqFits_replicate_bump _ e (k + 1) _ cs
      · have hw : wants c e = false := by simp [wants, hf]
        rw [consume_cons_skip hw]
        cases hc : consume es (k + 1) c with
        | none => left; rfl
        | some N1 =>
          right
          refine ⟨e :: N1, rfl, ?_⟩
          simp only [consume] at hc
          split at hc
          · next hany =>
            simp only [Option.some.injEq] at hc
            subst hc
            obtain ⟨x, hfx⟩ : ∃ x, es.find? (wants c) = some x := by
              cases hf' : es.find? (wants c) with
              | some x => exact ⟨x, rfl⟩
              | none =>
                have := find_none' hf'
                simp only [List.any_eq_true] at hany
                obtain ⟨y, hy, hwy⟩ := hany
                rw [this y hy] at hwy; cases hwy
            obtain ⟨l1, l2, hl, _, _, hmod⟩ := find_decomp hfx
            have hxm : x ∈ es := by rw [hl]; simp
            obtain ⟨w1, w2, w3⟩ := windows_lo es e.hi hfresh x hxm
            refine ⟨x.bump (k + 1), by rw [hmod]; simp, ?_⟩
            simp only [Exp.bump, Bool.or_eq_true, Bool.and_eq_true, bne_iff_ne, ne_eq, decide_eq_true_eq]
            right
            exact ⟨w3, Or.inl (by omega)⟩
          · cases hc

theorem mem_modifyFirst_of_mem {p : Exp → Bool} {f : Exp → Exp} : ∀ {l : List Exp} {y : Exp},
    y ∈ l → y ∈ modifyFirst p f l ∨ f y ∈ modifyFirst p f l
  | [], _, h => by simp at h
  | a :: l, y, h => by
    simp only [List.mem_cons] at h
    simp only [modifyFirst]
    split
    · rcases h with rfl | h
      · right; simp
      · left; simp [h]
    · rcases h with rfl | h
      · left; simp
      · rcases mem_modifyFirst_of_mem (p := p) (f := f) h with h' | h'
        · left; simp [h']
        · right; simp [h']

theorem outOfOrder_persists : ∀ (calls : List Call) (N : List Exp) (k : Nat) (N' : List Exp),
    (∃ y ∈ N, y.outOfOrder = true) → consumeAll N k calls = some N' → ∃ y ∈ N', y.outOfOrder = true
  | [], N, k, N', h, hc => by
    simp only [consumeAll, Option.some.injEq] at hc; subst hc; exact h
  | c :: rest, N, k, N', h, hc => by
    simp only [consumeAll] at hc
    cases hcons : consume N (k + 1) c with
    | none => rw [hcons] at hc; cases hc
    | some N1 =>
      rw [hcons] at hc
      simp only [consume] at hcons
      split at hcons
      · simp only [Option.some.injEq] at hcons
        subst hcons
        refine outOfOrder_persists rest _ (k + 1) N' ?_ hc
        obtain ⟨y, hy, hyo⟩ := h
        rcases mem_modifyFirst_of_mem (p := wants c) (f := fun e => e.bump (k + 1)) hy with h' | h'
        · exact ⟨y, h', hyo⟩
        · exact ⟨y.bump (k + 1), h', by simp [Exp.bump, hyo]⟩
      · cases hcons

theorem endCheck_ne_none_of_outOfOrder {N : List Exp} (h : ∃ y ∈ N, y.outOfOrder = true) : endCheck N ≠ none := by
  intro hn
  rw [endCheck_none_iff] at hn
  obtain ⟨y, hy, hyo⟩ := h
  rw [hn.2 y hy] at hyo; cases hyo

theorem inOrder_facts : ∀ (N : List Exp) (k : Nat), InOrder k N →
    (∀ x ∈ N, x.outOfOrder = false) ∧ (expandInOrder N = [] ↔ ∀ x ∈ N, x.actual = x.expected)
  | [], _, _ => by simp [expandInOrder]
  | e :: es, k, h => by
    obtain ⟨h1, _, h3⟩ := h
    rcases h3 with ⟨hfull, _, hrest⟩ | ⟨hlt, _, _, hfresh⟩
    · obtain ⟨i1, i2⟩ := inOrder_facts es k hrest
      refine ⟨?_, ?_⟩
      · intro x hx; simp only [List.mem_cons] at hx
        rcases hx with rfl | hx
        · exact h1
        · exact i1 x hx
      · rw [expand_cons, hfull]
        simp only [Nat.sub_self, List.replicate_zero, List.nil_append, i2, List.mem_cons, forall_eq_or_imp, hfull, true_and]
    · obtain ⟨i1, _⟩ := inOrder_facts es e.hi (inOrder_of_windows es e.hi hfresh)
      refine ⟨?_, ?_⟩
      · intro x hx; simp only [List.mem_cons] at hx
        rcases hx with rfl | hx
        · exact h1
        · exact i1 x hx
      · have hn : e.expected - e.actual = (e.expected - e.actual - 1) + 1 := by omega
        rw [expand_cons, hn, List.replicate_succ]
        constructor
        · intro h; cases h
        · intro h; have := h e (by simp); omega

/-- **strict order, abstractly**: from an in-order state the fold of `consume` passes the
    end-of-test check iff the calls are, one by one, the declared units -/
theorem strict_core : ∀ (calls : List Call) (N : List Exp) (k : Nat), InOrder k N →
    ((∃ N', consumeAll N k calls = some N' ∧ endCheck N' = none) ↔ SeqFits (expandInOrder N) calls)
  | [], N, k, h => by
    obtain ⟨f1, f2⟩ := inOrder_facts N k h
    simp only [consumeAll, Option.some.injEq, exists_eq_left', endCheck_none_iff]
    constructor
    · intro ⟨a, _⟩
      rw [f2.mpr a]; trivial
    · intro hs
      cases hex : expandInOrder N with
      | nil => exact ⟨f2.mp hex, f1⟩
      | cons u tl => rw [hex] at hs; cases hs
  | c :: rest, N, k, h => by
    obtain ⟨s1, s2⟩ := strict_step N k c h
    simp only [consumeAll]
    cases hex : expandInOrder N with
    | nil =>
      rw [s1 hex]
      simp [SeqFits]
    | cons u tl =>
      obtain ⟨t1, t2⟩ := s2 u tl hex
      simp only [SeqFits]
      cases hf : fits u c with
      | true =>
        obtain ⟨N1, a, b, d⟩ := t1 hf
        rw [a]
        simp only [true_and]
        rw [← d rest]
        exact strict_core rest N1 (k + 1) b
      | false =>
        simp only [Bool.false_eq_true, false_and, iff_false]
        rintro ⟨N', hc, he⟩
        rcases t2 hf with a | ⟨N1, a, hy⟩
        · rw [a] at hc; cases hc
        · rw [a] at hc
          exact endCheck_ne_none_of_outOfOrder (outOfOrder_persists rest N1 (k + 1) N' hy hc) he

theorem expandInOrder_norm (es : List Exp) : expandInOrder (es.map Exp.norm) = (expandInOrder es).map Exp.norm := by
  induction es with
  | nil => rfl
  | cons e es ih =>
    rw [List.map_cons, expand_cons, expand_cons, ih, List.map_append, List.map_replicate]
    rfl

theorem seqFits_norm : ∀ (us : List Exp) (cs : List Call), SeqFits (us.map Exp.norm) cs ↔ SeqFits us cs
  | [], [] => by simp [SeqFits]
  | [], _ :: _ => by simp [SeqFits]
  | _ :: _, [] => by simp [SeqFits]
  | u :: us, c :: cs => by
    simp only [List.map_cons, SeqFits, fits_norm]
    rw [seqFits_norm us cs]

theorem windowsFrom_norm : ∀ (es : List Exp) (k : Nat), windowsFrom k es → windowsFrom k (es.map Exp.norm)
  | [], _, _ => trivial
  | e :: es, k, h => by
    obtain ⟨h1, h2, h3, h4, h5⟩ := h
    exact ⟨h1, h2, h3, h4, windowsFrom_norm es _ h5⟩

/-! ### what `expectNCalls` builds satisfies the hypotheses about flags and order windows -/

theorem new_clean (name : String) (n lo hi : Nat) : (Exp.new name n lo hi).clean = true := rfl

theorem addSeg_clean (e : Exp) (s : ESeg) (h : e.clean = true) : (e.addSeg s).clean = true := by
  simp only [Exp.clean, Bool.and_eq_true, List.all_eq_true, Bool.not_eq_true', beq_iff_eq] at h ⊢
  obtain ⟨⟨⟨h1, h2⟩, h3⟩, h4⟩ := h
  cases s with
  | inp n v =>
    refine ⟨⟨⟨?_, h2⟩, h3⟩, h4⟩
    intro p hp
    simp only [Exp.addSeg, List.mem_append, List.mem_singleton] at hp
    rcases hp with hp | rfl
    · exact h1 p hp
    · rfl
  | out n b =>
    refine ⟨⟨⟨h1, ?_⟩, h3⟩, h4⟩
    intro p hp
    simp only [Exp.addSeg, List.mem_append, List.mem_singleton] at hp
    rcases hp with hp | rfl
    · exact h2 p hp
    · rfl
  | obj o => exact ⟨⟨⟨h1, h2⟩, rfl⟩, h4⟩
  | ret v => exact ⟨⟨⟨h1, h2⟩, h3⟩, h4⟩
  | iop => exact ⟨⟨⟨h1, h2⟩, h3⟩, h4⟩

theorem foldl_addSeg_clean (segs : List ESeg) : ∀ (e : Exp), e.clean = true → (segs.foldl Exp.addSeg e).clean = true := by
  induction segs with
  | nil => intro e h; exact h
  | cons s segs ih => intro e h; exact ih _ (addSeg_clean e s h)

theorem addSeg_order (e : Exp) (s : ESeg) :
    (e.addSeg s).lo = e.lo ∧ (e.addSeg s).hi = e.hi ∧ (e.addSeg s).expected = e.expected ∧
    (e.addSeg s).actual = e.actual ∧ (e.addSeg s).outOfOrder = e.outOfOrder := by
  cases s <;> exact ⟨rfl, rfl, rfl, rfl, rfl⟩

theorem foldl_addSeg_order (segs : List ESeg) : ∀ (e : Exp),
    (segs.foldl Exp.addSeg e).lo = e.lo ∧ (segs.foldl Exp.addSeg e).hi = e.hi ∧
    (segs.foldl Exp.addSeg e).expected = e.expected ∧ (segs.foldl Exp.addSeg e).actual = e.actual ∧
    (segs.foldl Exp.addSeg e).outOfOrder = e.outOfOrder := by
  induction segs with
  | nil => intro e; exact ⟨rfl, rfl, rfl, rfl, rfl⟩
  | cons s segs ih =>
    intro e
    obtain ⟨a, b, c, d, f⟩ := ih (e.addSeg s)
    obtain ⟨a', b', c', d', f'⟩ := addSeg_order e s
    simp only [List.foldl_cons]
    exact ⟨by rw [a, a'], by rw [b, b'], by rw [c, c'], by rw [d, d'], by rw [f, f']⟩

/-- `expectNCalls` (and its modifiers) leaves every expectation with clean matching flags -/
theorem expectN_clean (sc : Scope) (n : Nat) (fn : String) (segs : List ESeg) (h : Clean sc.es) :
    Clean (sc.expectN n fn segs).es := by
  unfold Scope.expectN
  split
  · exact h
  · intro e he
    simp only [List.mem_append, List.mem_singleton] at he
    rcases he with he | rfl
    · exact h e he
    · apply foldl_addSeg_clean
      split <;> rfl

def totalExpected (es : List Exp) : Nat := (es.map (·.expected)).sum

theorem windowsFrom_snoc : ∀ (es : List Exp) (k : Nat) (e : Exp), windowsFrom k es →
    e.lo = k + totalExpected es + 1 → e.hi = k + totalExpected es + e.expected → e.actual = 0 → e.outOfOrder = false →
    windowsFrom k (es ++ [e])
  | [], k, e, _, h1, h2, h3, h4 => by
    simp only [totalExpected, List.map_nil, List.sum_nil, Nat.add_zero] at h1 h2
    exact ⟨h1, h2, h3, h4, trivial⟩
  | a :: es, k, e, hw, h1, h2, h3, h4 => by
    obtain ⟨w1, w2, w3, w4, w5⟩ := hw
    refine ⟨w1, w2, w3, w4, ?_⟩
    apply windowsFrom_snoc es (k + a.expected) e w5
    · simp only [totalExpected, List.map_cons, List.sum_cons] at h1 ⊢; omega
    · simp only [totalExpected, List.map_cons, List.sum_cons] at h2 ⊢; omega
    · exact h3
    · exact h4

/-- under `strictOrder()` `expectNCalls` numbers the expected units consecutively -/
theorem expectN_windows (sc : Scope) (k n : Nat) (fn : String) (segs : List ESeg)
    (hs : sc.strict = true) (hen : sc.enabled = true)
    (hw : windowsFrom k sc.es) (ho : sc.expectedOrder = k + totalExpected sc.es) :
    windowsFrom k (sc.expectN n fn segs).es ∧
    (sc.expectN n fn segs).expectedOrder = k + totalExpected (sc.expectN n fn segs).es ∧
    (sc.expectN n fn segs).strict = true ∧ (sc.expectN n fn segs).enabled = true := by
  unfold Scope.expectN
  simp only [hen, Bool.not_true, Bool.false_eq_true, if_false, hs, if_true]
  obtain ⟨a, b, c, d, f⟩ := foldl_addSeg_order segs (Exp.new (sc.fullName fn) n (sc.expectedOrder + 1) (sc.expectedOrder + n))
  refine ⟨?_, ?_, trivial, trivial⟩
  · apply windowsFrom_snoc sc.es k _ hw
    · rw [a, ← ho]; rfl
    · rw [b, c, ← ho]; rfl
    · rw [d]; rfl
    · rw [f]; rfl
  · simp only [totalExpected, List.map_append, List.sum_append, List.map_cons, List.map_nil, List.sum_cons, List.sum_nil, c]
    simp only [totalExpected] at ho
    show sc.expectedOrder + n = _
    rw [ho]
    show _ = k + ((sc.es.map (·.expected)).sum + (n + 0))
    omega

/-! ### exactness of the candidate list, and the diagnosis of a failing call -/

theorem any_static (p : Exp → Bool) (hp : ∀ e, p e.norm = p e) {l1 l2 : List Exp}
    (h : l1.map Exp.norm = l2.map Exp.norm) : l1.any p = l2.any p := by
  have h1 : l1.any p = (l1.map Exp.norm).any p := by simp [List.any_map, Function.comp_def, hp]
  have h2 : l2.any p = (l2.map Exp.norm).any p := by simp [List.any_map, Function.comp_def, hp]
  rw [h1, h2, h]

theorem filter_isEmpty_eq_not_any (p : Exp → Bool) (l : List Exp) : (l.filter p).isEmpty = !l.any p := by
  induction l with
  | nil => rfl
  | cons a l ih =>
    simp only [List.filter_cons, List.any_cons]
    cases hp : p a <;> simp [ih]

theorem msgUnexpectedInput_static {l1 l2 : List Exp} (h : l1.map Exp.norm = l2.map Exp.norm) (fn pn : String) :
    msgUnexpectedInput l1 fn pn = msgUnexpectedInput l2 fn pn := by
  unfold msgUnexpectedInput
  rw [filter_isEmpty_eq_not_any, filter_isEmpty_eq_not_any,
    any_static (fun e => e.name == fn && e.hasInputNamed pn) (fun e => by simp [name_norm, hasInputNamed_norm]) h]

theorem msgUnexpectedOutput_static {l1 l2 : List Exp} (h : l1.map Exp.norm = l2.map Exp.norm) (fn pn : String) :
    msgUnexpectedOutput l1 fn pn = msgUnexpectedOutput l2 fn pn := by
  unfold msgUnexpectedOutput
  rw [filter_isEmpty_eq_not_any, filter_isEmpty_eq_not_any,
    any_static (fun e => e.name == fn && e.hasOutputNamed pn) (fun e => by simp [name_norm, hasOutputNamed_norm]) h]

theorem foldl_actual_norm (l : List Exp) (n : String) (acc : Nat) :
    ((l.map Exp.norm).filter (fun e => e.name == n)).foldl (fun a e => a + e.actual) acc
      = (l.filter (fun e => e.name == n)).foldl (fun a e => a + e.actual) acc := by
  rw [List.filter_map, List.foldl_map]
  rfl

theorem totalActualFor_static {l1 l2 : List Exp} (h : l1.map Exp.norm = l2.map Exp.norm) (n : String) :
    totalActualFor l1 n = totalActualFor l2 n := by
  unfold totalActualFor
  rw [← foldl_actual_norm l1 n 0, ← foldl_actual_norm l2 n 0, h]

theorem msgUnexpectedCall_static {l1 l2 : List Exp} (h : l1.map Exp.norm = l2.map Exp.norm) (n : String) :
    msgUnexpectedCall l1 n = msgUnexpectedCall l2 n := by
  unfold msgUnexpectedCall
  rw [totalActualFor_static h n]

theorem msgForSeg_static {l1 l2 : List Exp} (h : l1.map Exp.norm = l2.map Exp.norm) (fn : String) (s : Seg) :
    msgForSeg l1 fn s = msgForSeg l2 fn s := by
  cases s with
  | inp n v => exact msgUnexpectedInput_static h fn n
  | out n => exact msgUnexpectedOutput_static h fn n
  | obj o => rfl

/-- every expectation with capacity that is compatible with the steps so far is still in play -/
structure Exact (c : Call) (pre : List Seg) (cs : CS) : Prop where
  all : ∀ x ∈ cs.es, alive c x = true → compat x pre = true → x.cand = true ∨ x.isMatch = true
  name : cs.call.name = c.name

theorem paramE_keepAll {c : Call} {pre : List Seg} {s : Seg} {pass : Exp → Exp} {x : Exp}
    (hpc : ∀ e, (pass e).cand = e.cand)
    (hcs : ∀ e, e.iop = false → covered e pre = true → compatSeg e s = false)
    (h : ElemOK c pre x) (hK : alive c x = true → compat x pre = true → x.cand = true ∨ x.isMatch = true)
    (hal : alive c x = true) (hco : compat x (pre ++ [s]) = true) : (paramE s pass x).cand = true := by
  rw [compat_snoc, Bool.and_eq_true] at hco
  obtain ⟨hcp, hcseg⟩ := hco
  rcases hK hal hcp with hc | hm
  · obtain ⟨hnm, _, _, hfl⟩ := h.cand hc
    have hcov : covered x pre = false := by
      cases hcv : covered x pre with
      | false => rfl
      | true => rw [hcs x h.plain hcv] at hcseg; cases hcseg
    have hmf : isMF x = false := by rw [isMF_of_flagsOK hfl h.plain, hc, hcov]; rfl
    have hd : discardE x = x := by simp [discardE, hnm, hmf]
    rw [paramE_cand s pass hpc x, hd]
    simp [hc, hcseg]
  · obtain ⟨_, _, _, _, hcov⟩ := h.mtch hm
    rw [hcs x h.plain hcov] at hcseg; cases hcseg

theorem complete_exact {c : Call} {pre : List Seg} {cs : CS}
    (hall : ∀ x ∈ cs.es, alive c x = true → compat x pre = true → x.cand = true)
    (hname : cs.call.name = c.name) : Exact c pre (complete cs) := by
  unfold complete
  cases hfind : cs.es.find? isMF with
  | some e =>
    obtain ⟨l1, l2, hl, _, _, hmod⟩ := find_decomp hfind
    simp only [hmod]
    refine ⟨?_, hname⟩
    intro y hy hal hco
    simp only [List.mem_append, List.mem_cons] at hy
    rcases hy with hy | rfl | hy
    · exact Or.inl (hall y (by rw [hl]; simp [hy]) hal hco)
    · exact Or.inr rfl
    · exact Or.inl (hall y (by rw [hl]; simp [hy]) hal hco)
  | none =>
    simp only
    split
    · exact ⟨fun x hx a b => Or.inl (hall x hx a b), hname⟩
    · exact ⟨fun x hx a b => Or.inl (hall x hx a b), hname⟩

theorem alive_paramE {c : Call} {s : Seg} {pass : Exp → Exp} {x : Exp} (hn : (paramE s pass x).norm = x.norm) :
    alive c (paramE s pass x) = alive c x := alive_static hn

/-- a parameter step: either it succeeds, the candidate list stays exact and is not empty, or
    it fails with the step's diagnosis because nothing with capacity is compatible any more -/
theorem checkParam_exact {c : Call} {pre : List Seg} {s : Seg} {pass : Exp → Exp} {msg : String} {cs : CS}
    (hinv : Inv c pre cs) (hex : Exact c pre cs)
    (hpn : ∀ e, (pass e).norm = e.norm) (hpc : ∀ e, (pass e).cand = e.cand) (hpm : ∀ e, (pass e).isMatch = e.isMatch)
    (hpf : ∀ e, FlagsOK pre e → FlagsOK (pre ++ [s]) (pass e))
    (hcs : ∀ e, e.iop = false → covered e pre = true → compatSeg e s = false)
    (hkw : ∀ e, wants c e = true → compatSeg e s = true) :
    ((checkParam cs (fun e => compatSeg e s) pass msg).fail = none →
        Exact c (pre ++ [s]) (checkParam cs (fun e => compatSeg e s) pass msg) ∧
        ∃ x ∈ cs.es, alive c x = true ∧ compat x (pre ++ [s]) = true) ∧
    ((checkParam cs (fun e => compatSeg e s) pass msg).fail ≠ none →
        (checkParam cs (fun e => compatSeg e s) pass msg).fail = some msg ∧
        ∀ x ∈ cs.es, ¬(alive c x = true ∧ compat x (pre ++ [s]) = true)) := by
  have hnew : ∀ e, e.iop = false → wants c e = true → covered e pre = false := by
    intro e hp hw
    cases hcv : covered e pre with
    | false => rfl
    | true =>
      have h1 := hcs e hp hcv
      rw [hkw e hw] at h1; cases h1
  have hE := fun x (hx : x ∈ cs.es) => elemOK_paramE hpn hpc hpm hpf hnew hkw (hinv.elems x hx)
  have hcandAll : ∀ x ∈ cs.es, alive c x = true → compat x (pre ++ [s]) = true → (paramE s pass x).cand = true :=
    fun x hx hal hco => paramE_keepAll hpc hcs (hinv.elems x hx) (hex.all x hx) hal hco
  have hmap : ((cs.es.map discardE).map (fun e => if e.cand && !compatSeg e s then ({ e.reset with cand := false } : Exp) else e)).map
        (fun e => if e.cand then pass e else e) = cs.es.map (paramE s pass) := by
    simp only [List.map_map]; rfl
  have hcand : anyCand ((cs.es.map discardE).map (fun e => if e.cand && !compatSeg e s then ({ e.reset with cand := false } : Exp) else e))
      = anyCand (cs.es.map (paramE s pass)) := by
    simp only [anyCand, List.map_map, List.any_map, Function.comp_def]
    congr 1
    funext x
    rw [paramE_cand s pass hpc x]
  unfold checkParam
  rw [if_neg (state_ne_failed hinv)]
  simp only
  rw [hcand]
  cases hany : anyCand (cs.es.map (paramE s pass)) with
  | true =>
    simp only [if_true, hmap]
    have hm := complete_meta { es := cs.es.map (paramE s pass), call := { cs.call with state := .inProgress }, fail := cs.fail }
    refine ⟨fun _ => ⟨?_, ?_⟩, fun h => ?_⟩
    · apply complete_exact
      · intro y hy hal hco
        simp only [List.mem_map] at hy
        obtain ⟨x, hx, rfl⟩ := hy
        have hn := (hE x hx).2.2
        rw [alive_static hn] at hal
        rw [compat_static _ hn] at hco
        exact hcandAll x hx hal hco
      · exact hex.name
    · simp only [anyCand, List.any_eq_true, List.mem_map] at hany
      obtain ⟨y, ⟨x, hx, rfl⟩, hyc⟩ := hany
      obtain ⟨hok, _, hn⟩ := hE x hx
      obtain ⟨_, hal, hco, _⟩ := hok.cand hyc
      exact ⟨x, hx, by rw [← alive_static hn]; exact hal, by rw [← compat_static _ hn]; exact hco⟩
    · rw [hm.2.2.2] at h
      exact absurd hinv.nofail h
  | false =>
    simp only [Bool.false_eq_true, if_false]
    refine ⟨fun h => ?_, fun _ => ⟨?_, ?_⟩⟩
    · exfalso
      have := failCall_fail_ne { es := (cs.es.map discardE).map (fun e => if e.cand && !compatSeg e s then ({ e.reset with cand := false } : Exp) else e), call := { cs.call with state := .inProgress }, fail := cs.fail } msg (by simp) hinv.nofail
      exact this h
    · exact failCall_fail (by simp) hinv.nofail
    · intro x hx ⟨hal, hco⟩
      have := hcandAll x hx hal hco
      have hf := (anyCand_false_iff _).mp hany _ (List.mem_map.mpr ⟨x, hx, rfl⟩)
      rw [this] at hf; cases hf

theorem onObject_exact {c : Call} {pre : List Seg} {o : Nat} {cs : CS}
    (hinv : Inv c pre cs) (hex : Exact c pre cs) (hobj : objsOf pre = [])
    (hkw : ∀ e, wants c e = true → e.relatesToObject o = true) :
    ((onObject cs o).fail = none →
        Exact c (pre ++ [.obj o]) (onObject cs o) ∧ ∃ x ∈ cs.es, alive c x = true ∧ compat x (pre ++ [.obj o]) = true) ∧
    ((onObject cs o).fail ≠ none →
        (onObject cs o).fail = some (msgUnexpectedObject c.name) ∧
        ∀ x ∈ cs.es, ¬(alive c x = true ∧ compat x (pre ++ [.obj o]) = true)) := by
  have hE := fun x (hx : x ∈ cs.es) => elemOK_objE hobj hkw (hinv.elems x hx)
  have hkeep : ∀ x ∈ cs.es, alive c x = true → compat x (pre ++ [.obj o]) = true →
      (objE o x).cand = true ∨ (objE o x).isMatch = true := by
    intro x hx hal hco
    rw [compat_snoc, Bool.and_eq_true] at hco
    rcases hex.all x hx hal hco.1 with hc | hm
    · left; rw [objE_cand, hc]; simpa [compatSeg] using hco.2
    · right; rw [objE_isMatch]; exact hm
  have hmap : (cs.es.map (fun e => if e.cand && !e.relatesToObject o then ({ e.reset with cand := false } : Exp) else e)).map
        (fun e => if e.cand then ({ e with passedObj := true } : Exp) else e) = cs.es.map (objE o) := by
    simp only [List.map_map]; rfl
  have hmatch1 : anyMatch (cs.es.map (fun e => if e.cand && !e.relatesToObject o then ({ e.reset with cand := false } : Exp) else e))
      = anyMatch cs.es := by
    simp only [anyMatch, List.any_map, Function.comp_def]
    congr 1; funext x
    split <;> simp [Exp.reset]
  have hmatch2 : anyMatch (cs.es.map (objE o)) = anyMatch cs.es := by
    simp only [anyMatch, List.any_map, Function.comp_def, objE_isMatch]
  have hcand1 : anyCand (cs.es.map (fun e => if e.cand && !e.relatesToObject o then ({ e.reset with cand := false } : Exp) else e))
      = anyCand (cs.es.map (objE o)) := by
    simp only [anyCand, List.any_map, Function.comp_def, objE_cand]
    congr 1; funext x
    cases hc : x.cand <;> cases hr : x.relatesToObject o <;> simp [hc]
  have hexact : ∀ y ∈ cs.es.map (objE o), alive c y = true → compat y (pre ++ [.obj o]) = true → y.cand = true ∨ y.isMatch = true := by
    intro y hy hal hco
    simp only [List.mem_map] at hy
    obtain ⟨x, hx, rfl⟩ := hy
    rw [alive_static (objE_norm o x)] at hal
    rw [compat_static _ (objE_norm o x)] at hco
    exact hkeep x hx hal hco
  unfold onObject
  rw [if_neg (state_ne_failed hinv)]
  simp only
  rw [hmatch1, hcand1, hmap, hmatch2]
  cases hm : anyMatch cs.es with
  | true =>
    simp only [Bool.not_true, Bool.false_and, Bool.false_eq_true, if_false, if_true]
    refine ⟨fun _ => ⟨⟨hexact, hex.name⟩, ?_⟩, fun h => absurd hinv.nofail h⟩
    simp only [anyMatch, List.any_eq_true] at hm
    obtain ⟨x, hx, hxm⟩ := hm
    have hok := hE x hx
    have hxm' : (objE o x).isMatch = true := by rw [objE_isMatch]; exact hxm
    obtain ⟨_, hal, hco, _⟩ := hok.mtch hxm'
    exact ⟨x, hx, by rw [← alive_static (objE_norm o x)]; exact hal, by rw [← compat_static _ (objE_norm o x)]; exact hco⟩
  | false =>
    have hnom := (anyMatch_false_iff _).mp hm
    cases hany : anyCand (cs.es.map (objE o)) with
    | false =>
      simp only [Bool.not_false, Bool.and_self, if_true]
      refine ⟨fun h => ?_, fun _ => ⟨?_, ?_⟩⟩
      · exfalso
        exact failCall_fail_ne { cs with es := cs.es.map (fun e => if e.cand && !e.relatesToObject o then ({ e.reset with cand := false } : Exp) else e) }
          (msgUnexpectedObject cs.call.name) (state_ne_failed (cs := cs) hinv) hinv.nofail h
      · rw [← hex.name]
        exact failCall_fail (cs := { cs with es := cs.es.map (fun e => if e.cand && !e.relatesToObject o then ({ e.reset with cand := false } : Exp) else e) })
          (state_ne_failed (cs := cs) hinv) hinv.nofail
      · intro x hx ⟨hal, hco⟩
        rcases hkeep x hx hal hco with h1 | h1
        · have := (anyCand_false_iff _).mp hany _ (List.mem_map.mpr ⟨x, hx, rfl⟩)
          rw [h1] at this; cases this
        · rw [objE_isMatch, hnom x hx] at h1; cases h1
    | true =>
      simp only [Bool.not_false, Bool.not_true, Bool.and_false, Bool.false_eq_true, if_false]
      have hmeta := complete_meta { cs with es := cs.es.map (objE o) }
      refine ⟨fun _ => ⟨?_, ?_⟩, fun h => ?_⟩
      · apply complete_exact
        · intro y hy hal hco
          rcases hexact y hy hal hco with h1 | h1
          · exact h1
          · simp only [List.mem_map] at hy
            obtain ⟨x, hx, rfl⟩ := hy
            rw [objE_isMatch, hnom x hx] at h1; cases h1
        · exact hex.name
      · simp only [anyCand, List.any_eq_true, List.mem_map] at hany
        obtain ⟨y, ⟨x, hx, rfl⟩, hyc⟩ := hany
        obtain ⟨_, hal, hco, _⟩ := (hE x hx).cand hyc
        exact ⟨x, hx, by rw [← alive_static (objE_norm o x)]; exact hal, by rw [← compat_static _ (objE_norm o x)]; exact hco⟩
      · rw [hmeta.2.2.2] at h
        exact absurd hinv.nofail h

theorem withName_exact {c : Call} {es : List Exp} (k : Nat) :
    ((withName { es := beginCall es, call := newCall k, fail := none } c.name).fail = none →
        Exact c [] (withName { es := beginCall es, call := newCall k, fail := none } c.name) ∧ es.any (alive c) = true) ∧
    ((withName { es := beginCall es, call := newCall k, fail := none } c.name).fail ≠ none →
        (withName { es := beginCall es, call := newCall k, fail := none } c.name).fail = some (msgUnexpectedCall es c.name) ∧
        es.any (alive c) = false) := by
  have hmap : (beginCall es).map (fun e => ({ e with cand := e.cand && e.name == c.name } : Exp)) = es.map (initE c.name) := by
    simp only [beginCall, List.map_map]; rfl
  have hn : ∀ e, (initE c.name e).norm = e.norm := fun e => by simp [initE, Exp.norm, Exp.reset]
  have hbn : (beginCall es).map Exp.norm = es.map Exp.norm := by
    simp only [beginCall, List.map_map]
    apply List.map_congr_left
    intro e _
    simp [Exp.norm, Exp.reset]
  have hmsg : msgUnexpectedCall (beginCall es) c.name = msgUnexpectedCall es c.name := msgUnexpectedCall_static hbn _
  have hcand : ∀ e, (initE c.name e).cand = alive c e := fun e => rfl
  unfold withName
  simp only [hmap]
  cases hany : anyCand (es.map (initE c.name)) with
  | true =>
    simp only [if_true]
    have hmeta := complete_meta { es := es.map (initE c.name), call := { newCall k with name := c.name, state := .inProgress }, fail := none }
    refine ⟨fun _ => ⟨?_, ?_⟩, fun h => ?_⟩
    · apply complete_exact
      · intro y hy hal _
        simp only [List.mem_map] at hy
        obtain ⟨e, _, rfl⟩ := hy
        rw [hcand, ← alive_static (hn e)]; exact hal
      · rfl
    · simp only [anyCand, List.any_map, Function.comp_def, hcand] at hany
      exact hany
    · rw [hmeta.2.2.2] at h; exact absurd rfl h
  | false =>
    simp only [Bool.false_eq_true, if_false]
    refine ⟨fun h => ?_, fun _ => ⟨?_, ?_⟩⟩
    · exfalso
      exact failCall_fail_ne { es := es.map (initE c.name), call := { newCall k with name := c.name, state := .inProgress }, fail := none }
        (msgUnexpectedCall (beginCall es) c.name) (by simp) rfl h
    · rw [← hmsg]
      exact failCall_fail (cs := { es := es.map (initE c.name), call := { newCall k with name := c.name, state := .inProgress }, fail := none })
        (by simp) rfl
    · simp only [anyCand, List.any_map, Function.comp_def, hcand] at hany
      exact hany

theorem fresh_inp {c : Call} {pre rest : List Seg} {n : String} {v : Val}
    (hsegs : c.segs = pre ++ Seg.inp n v :: rest) (hwf : WFCall c) :
    ∀ e, e.iop = false → covered e pre = true → compatSeg e (.inp n v) = false := by
  intro e hp hcov
  apply Bool.eq_false_iff.mpr
  intro hc
  obtain ⟨q, hq, hqn, _⟩ := hasInput_plain hp hc
  simp only [covered, Bool.and_eq_true, List.all_eq_true] at hcov
  have hin := hcov.1.1 q hq
  rw [hqn] at hin
  have hnd := hwf.1
  rw [hsegs, inNames_append] at hnd
  have : inNames (Seg.inp n v :: rest) = n :: inNames rest := rfl
  rw [this] at hnd
  exact (List.nodup_append.mp hnd).2.2 n (by simpa using hin) n (by simp) rfl

theorem fresh_out {c : Call} {pre rest : List Seg} {n : String}
    (hsegs : c.segs = pre ++ Seg.out n :: rest) (hwf : WFCall c) :
    ∀ e, e.iop = false → covered e pre = true → compatSeg e (.out n) = false := by
  intro e hp hcov
  apply Bool.eq_false_iff.mpr
  intro hc
  obtain ⟨q, hq, hqn⟩ := hasOutput_plain hp hc
  simp only [covered, Bool.and_eq_true, List.all_eq_true] at hcov
  have hin := hcov.1.2 q hq
  rw [hqn] at hin
  have hnd := hwf.2.1
  rw [hsegs, outNames_append] at hnd
  have : outNames (Seg.out n :: rest) = n :: outNames rest := rfl
  rw [this] at hnd
  exact (List.nodup_append.mp hnd).2.2 n (by simpa using hin) n (by simp) rfl

theorem exact_congr {c : Call} {pre : List Seg} {cs cs' : CS} (h1 : cs'.es = cs.es) (h2 : cs'.call.name = cs.call.name)
    (h : Exact c pre cs) : Exact c pre cs' := ⟨by rw [h1]; exact h.all, by rw [h2]; exact h.name⟩

theorem any_alive_compat_static (c : Call) (pre : List Seg) {l1 l2 : List Exp} (h : l1.map Exp.norm = l2.map Exp.norm) :
    l1.any (fun e => alive c e && compat e pre) = l2.any (fun e => alive c e && compat e pre) :=
  any_static _ (fun e => by rw [compat_norm]; rfl) h

theorem any_of_exists {l : List Exp} {p : Exp → Bool} (h : ∃ x ∈ l, p x = true) : l.any p = true := by
  simpa [List.any_eq_true] using h

theorem any_false_of_forall {l : List Exp} {p : Exp → Bool} (h : ∀ x ∈ l, ¬ p x = true) : l.any p = false := by
  apply Bool.eq_false_iff.mpr
  intro ha
  simp only [List.any_eq_true] at ha
  obtain ⟨x, hx, hp⟩ := ha
  exact h x hx hp

/-- one step of a call: invariant, exactness, and the step's verdict -/
theorem applySeg_step {c : Call} {es : List Exp} (buf : List UInt8) (hwf : WFCall c) {pre rest : List Seg} {s : Seg} {cs : CS}
    (hsegs : c.segs = pre ++ s :: rest) (hinv : Inv c pre cs) (hex : Exact c pre cs)
    (hnorm : cs.es.map Exp.norm = es.map Exp.norm) :
    ((applySeg cs buf s).fail = none →
        Inv c (pre ++ [s]) (applySeg cs buf s) ∧ Exact c (pre ++ [s]) (applySeg cs buf s) ∧
        es.any (fun e => alive c e && compat e (pre ++ [s])) = true) ∧
    ((applySeg cs buf s).fail ≠ none →
        (applySeg cs buf s).fail = some (msgForSeg es c.name s) ∧
        es.any (fun e => alive c e && compat e (pre ++ [s])) = false) ∧
    (applySeg cs buf s).es.map Exp.norm = es.map Exp.norm ∧
    (applySeg cs buf s).call.checked = cs.call.checked ∧ (applySeg cs buf s).call.order = cs.call.order := by
  have hkw : ∀ e, wants c e = true → compatSeg e s = true := fun e hw => compatSeg_of_wants hw (by rw [hsegs]; simp)
  have hany1 : ∀ {r : CS}, (∃ x ∈ cs.es, alive c x = true ∧ compat x (pre ++ [s]) = true) →
      es.any (fun e => alive c e && compat e (pre ++ [s])) = true := by
    intro _ h
    rw [← any_alive_compat_static c (pre ++ [s]) hnorm]
    obtain ⟨x, hx, h1, h2⟩ := h
    exact any_of_exists ⟨x, hx, by simp [h1, h2]⟩
  have hany2 : (∀ x ∈ cs.es, ¬(alive c x = true ∧ compat x (pre ++ [s]) = true)) →
      es.any (fun e => alive c e && compat e (pre ++ [s])) = false := by
    intro h
    rw [← any_alive_compat_static c (pre ++ [s]) hnorm]
    exact any_false_of_forall (fun x hx hp => h x hx (by simpa using hp))
  cases s with
  | inp n v =>
    obtain ⟨i1, _, i3, i4, i5⟩ := checkParam_inv (s := .inp n v) (msg := msgUnexpectedInput cs.es cs.call.name n) hinv
      (fun e => norm_passInput e n) (fun _ => rfl) (fun _ => rfl)
      (fun e he => flagsOK_passInput n v he) (not_covered_inp hsegs hwf) hkw
    obtain ⟨e1, e2⟩ := checkParam_exact (s := .inp n v) (msg := msgUnexpectedInput cs.es cs.call.name n) hinv hex
      (fun e => norm_passInput e n) (fun _ => rfl) (fun _ => rfl)
      (fun e he => flagsOK_passInput n v he) (fresh_inp hsegs hwf) hkw
    refine ⟨fun h => ⟨i1 h, (e1 h).1, hany1 (r := cs) (e1 h).2⟩, fun h => ⟨?_, hany2 (e2 h).2⟩, by rw [← hnorm]; exact i3, i4, i5⟩
    have hm : msgUnexpectedInput cs.es cs.call.name n = msgForSeg es c.name (.inp n v) := by
      rw [msgUnexpectedInput_static hnorm, hex.name]; rfl
    exact (e2 h).1.trans (congrArg some hm)
  | out n =>
    have hinv' : Inv c pre { cs with call := { cs.call with bufs := cs.call.bufs ++ [(n, buf)] } } :=
      inv_congr (cs := cs) rfl rfl rfl hinv
    have hex' : Exact c pre { cs with call := { cs.call with bufs := cs.call.bufs ++ [(n, buf)] } } :=
      exact_congr (cs := cs) rfl rfl hex
    obtain ⟨i1, _, i3, i4, i5⟩ := checkParam_inv (s := .out n) (msg := msgUnexpectedOutput cs.es cs.call.name n) hinv'
      (fun e => norm_passOutput e n) (fun _ => rfl) (fun _ => rfl)
      (fun e he => flagsOK_passOutput n he) (not_covered_out hsegs hwf) hkw
    obtain ⟨e1, e2⟩ := checkParam_exact (s := .out n) (msg := msgUnexpectedOutput cs.es cs.call.name n) hinv' hex'
      (fun e => norm_passOutput e n) (fun _ => rfl) (fun _ => rfl)
      (fun e he => flagsOK_passOutput n he) (fresh_out hsegs hwf) hkw
    refine ⟨fun h => ⟨i1 h, (e1 h).1, hany1 (r := cs) (e1 h).2⟩, fun h => ⟨?_, hany2 (e2 h).2⟩, by rw [← hnorm]; exact i3, i4, i5⟩
    have hm : msgUnexpectedOutput cs.es cs.call.name n = msgForSeg es c.name (.out n) := by
      rw [msgUnexpectedOutput_static hnorm, hex.name]; rfl
    exact (e2 h).1.trans (congrArg some hm)
  | obj o =>
    have hkw' : ∀ e, wants c e = true → e.relatesToObject o = true := fun e hw => hkw e hw
    obtain ⟨i1, _, i3, i4, i5⟩ := onObject_inv hinv (objs_pre_nil hsegs hwf) hkw'
    obtain ⟨e1, e2⟩ := onObject_exact hinv hex (objs_pre_nil hsegs hwf) hkw'
    exact ⟨fun h => ⟨i1 h, (e1 h).1, hany1 (r := cs) (e1 h).2⟩, fun h => ⟨(e2 h).1, hany2 (e2 h).2⟩, by rw [← hnorm]; exact i3, i4, i5⟩

/-- all the steps: either they all go through, or the first failing step gives the diagnosis -/
theorem segsFrom_diag {c : Call} {es : List Exp} (buf : List UInt8) (hwf : WFCall c) :
    ∀ (rest pre : List Seg) (cs : CS), c.segs = pre ++ rest → Inv c pre cs → Exact c pre cs →
      cs.es.map Exp.norm = es.map Exp.norm →
      ((segsFrom cs buf rest).fail = none →
          Inv c c.segs (segsFrom cs buf rest) ∧ Exact c c.segs (segsFrom cs buf rest) ∧
          diagRest es c pre rest = diagEnd es c) ∧
      ((segsFrom cs buf rest).fail ≠ none → (segsFrom cs buf rest).fail = diagRest es c pre rest) ∧
      (segsFrom cs buf rest).es.map Exp.norm = es.map Exp.norm ∧
      (segsFrom cs buf rest).call.checked = cs.call.checked ∧ (segsFrom cs buf rest).call.order = cs.call.order
  | [], pre, cs, hsegs, hinv, hex, hnorm => by
    have : c.segs = pre := by simpa using hsegs
    rw [this]
    exact ⟨fun _ => ⟨hinv, hex, rfl⟩, fun h => absurd hinv.nofail h, hnorm, rfl, rfl⟩
  | s :: rest, pre, cs, hsegs, hinv, hex, hnorm => by
    have hsegs' : c.segs = (pre ++ [s]) ++ rest := by simp [hsegs]
    obtain ⟨h1, h2, h3, h4, h5⟩ := applySeg_step (es := es) buf hwf hsegs hinv hex hnorm
    simp only [segsFrom, hinv.nofail, Option.isSome_none, Bool.false_eq_true, if_false]
    cases hf : (applySeg cs buf s).fail with
    | none =>
      obtain ⟨a, b, d⟩ := h1 hf
      obtain ⟨i1, i2, i3, i4, i5⟩ := segsFrom_diag buf hwf rest (pre ++ [s]) (applySeg cs buf s) hsegs' a b h3
      simp only [diagRest, d, if_true]
      exact ⟨i1, i2, i3, by rw [i4, h4], by rw [i5, h5]⟩
    | some m =>
      have hne : (applySeg cs buf s).fail ≠ none := by rw [hf]; simp
      obtain ⟨a, b⟩ := h2 hne
      rw [segsFrom_failed _ _ _ hne]
      simp only [diagRest, b, Bool.false_eq_true, if_false]
      exact ⟨fun h => absurd h hne, fun _ => a, h3, h4, h5⟩

theorem any_congr' {α} {l : List α} {f g : α → Bool} (h : ∀ a ∈ l, f a = g a) : l.any f = l.any g := by
  induction l with
  | nil => rfl
  | cons a l ih =>
    simp only [List.any_cons]
    rw [h a (by simp), ih (fun b hb => h b (by simp [hb]))]

theorem paramsMatching_of_flagsOK {pre : List Seg} {x : Exp} (h : FlagsOK pre x) : x.paramsMatching = paramsCovered x pre := by
  unfold Exp.paramsMatching paramsCovered
  rw [all_congr' h.ins, all_congr' h.outs]

theorem paramsCovered_norm (e : Exp) (segs : List Seg) : paramsCovered e.norm segs = paramsCovered e segs := by
  simp [paramsCovered, Exp.norm, Exp.reset, List.all_map, Function.comp_def]

/-- finishing a call whose steps all went through: fulfilled, or the end-of-call diagnosis -/
theorem callCheck_diag {c : Call} {es : List Exp} {cs : CS} {k : Nat}
    (hinv : Inv c c.segs cs) (hex : Exact c c.segs cs) (hchk : cs.call.checked = false) (hord : cs.call.order = k)
    (hun : ∀ a ∈ cs.es, ∀ b ∈ cs.es, a.name = b.name → sameSig a b = true ∨ conflict a b = true)
    (hwfe : ∀ a ∈ cs.es, WFExp a) (hnorm : cs.es.map Exp.norm = es.map Exp.norm) :
    (callCheck cs).fail = diagEnd es c := by
  obtain ⟨s1, _⟩ := callCheck_spec (k := k) hinv hchk hord hun hwfe
  have hw : es.any (wants c) = cs.es.any (wants c) := (any_wants_congr c hnorm).symm
  unfold diagEnd
  rw [hw]
  cases hany : cs.es.any (wants c) with
  | true => simp only [if_true]; exact (s1 hany).1
  | false =>
    simp only [Bool.false_eq_true, if_false]
    have hnom : ∀ y ∈ cs.es, y.isMatch = false := by
      rcases hinv.pos with h | ⟨l1, x, l2, hl, hx, _, _⟩
      · exact h
      · exfalso
        have hxmem : x ∈ cs.es := by rw [hl]; simp
        obtain ⟨_, hxal, hxcomp, _, hxcov⟩ := (hinv.elems x hxmem).mtch hx
        have hxw : wants c x = true := by
          simp only [alive, Bool.and_eq_true] at hxal
          simp [wants, fits, hxal.1, hxal.2, hxcomp, hxcov]
        have := List.any_eq_false.mp hany x hxmem
        exact this hxw
    have hno : anyMatch cs.es = false := (anyMatch_false_iff _).mpr hnom
    have hst : cs.call.state = .inProgress := by rw [hinv.st, hno]; rfl
    have hMF : ∀ y ∈ cs.es, isMF y = false := by
      intro y hy
      cases hc : y.cand with
      | false => simp [isMF, hc]
      | true =>
        rw [isMF_of_flagsOK ((hinv.elems y hy).cand hc).2.2.2 (hinv.elems y hy).plain, hc, hinv.noMF hno y hy hc]; rfl
    have hanyMF : cs.es.any isMF = false := any_false_of_forall (fun y hy h => by rw [hMF y hy] at h; cases h)
    have hfind : cs.es.find? isM = none := by
      rw [find_congr' (fun a ha => isM_eq_isMF (hinv.elems a ha).plain)]
      apply List.find?_eq_none.mpr
      intro y hy; rw [hMF y hy]; simp
    have hcond : cs.es.any (fun e => e.cand && !e.paramsMatching)
        = es.any (fun e => alive c e && compat e c.segs && !paramsCovered e c.segs) := by
      rw [← any_static (fun e => alive c e && compat e c.segs && !paramsCovered e c.segs)
        (fun e => by rw [compat_norm, paramsCovered_norm]; rfl) hnorm]
      apply any_congr'
      intro x hx
      cases hc : x.cand with
      | true =>
        obtain ⟨_, hal, hco, hfl⟩ := (hinv.elems x hx).cand hc
        rw [paramsMatching_of_flagsOK hfl, hal, hco]; rfl
      | false =>
        have : (alive c x && compat x c.segs) = false := by
          apply Bool.eq_false_iff.mpr
          intro h
          simp only [Bool.and_eq_true] at h
          rcases hex.all x hx h.1 h.2 with h1 | h1
          · rw [hc] at h1; cases h1
          · rw [hnom x hx] at h1; cases h1
        rw [this]; rfl
    unfold callCheck
    rw [if_neg (by rw [hchk]; simp)]
    simp only [hst]
    unfold finishInProgress
    simp only [hanyMF, Bool.false_eq_true, if_false, hfind, hcond, hex.name]
    split
    · exact failCall_fail (by simp) hinv.nofail
    · exact failCall_fail (by simp) hinv.nofail

/-- **the diagnosis of one call**: the failure the code reports (or none) is `Spec.diagnose` -/
theorem callFull_diagnose {es : List Exp} {c : Call} (k : Nat) (buf : List UInt8)
    (hclean : Clean es) (hplain : Plain es) (hun : Unambiguous es) (hwfe : ∀ e ∈ es, WFExp e) (hwf : WFCall c) :
    (callFull es k c.name c.segs buf).fail = diagnose es c := by
  obtain ⟨a1, _, a3, a4, a5⟩ := withName_inv (c := c) k hclean hplain
  obtain ⟨x1, x2⟩ := withName_exact (c := c) (es := es) k
  unfold callFull diagnose
  cases hwfail : (withName { es := beginCall es, call := newCall k, fail := none } c.name).fail with
  | some m =>
    have hne : (withName { es := beginCall es, call := newCall k, fail := none } c.name).fail ≠ none := by rw [hwfail]; simp
    obtain ⟨y1, y2⟩ := x2 hne
    rw [segsFrom_failed _ _ _ hne, callCheck_fail_some _ m hwfail, y2]
    simp only [Bool.false_eq_true, if_false]
    rw [← y1, hwfail]
  | none =>
    obtain ⟨y1, y2⟩ := x1 hwfail
    rw [y2]
    simp only [if_true]
    obtain ⟨b1, b2, b3, b4, b5⟩ := segsFrom_diag (es := es) buf hwf c.segs [] _ (by simp) (a1 hwfail) y1 a3
    cases hsfail : (segsFrom (withName { es := beginCall es, call := newCall k, fail := none } c.name) buf c.segs).fail with
    | some m =>
      have hne : (segsFrom (withName { es := beginCall es, call := newCall k, fail := none } c.name) buf c.segs).fail ≠ none := by
        rw [hsfail]; simp
      rw [callCheck_fail_some _ m hsfail, ← b2 hne, hsfail]
    | none =>
      obtain ⟨i1, i2, i3⟩ := b1 hsfail
      rw [i3]
      exact callCheck_diag (k := k) i1 i2 (by rw [b4, a4]) (by rw [b5, a5])
        (unambiguous_transfer b3 hun) (wfexp_transfer b3 hwfe) b3

theorem diagEnd_static (c : Call) {l1 l2 : List Exp} (h : l1.map Exp.norm = l2.map Exp.norm) : diagEnd l1 c = diagEnd l2 c := by
  unfold diagEnd
  rw [any_wants_congr c h,
    any_static (fun e => alive c e && compat e c.segs && !paramsCovered e c.segs)
      (fun e => by rw [compat_norm, paramsCovered_norm]; rfl) h]

theorem diagRest_static (c : Call) {l1 l2 : List Exp} (h : l1.map Exp.norm = l2.map Exp.norm) :
    ∀ (rest pre : List Seg), diagRest l1 c pre rest = diagRest l2 c pre rest
  | [], _ => diagEnd_static c h
  | s :: rest, pre => by
    simp only [diagRest]
    rw [any_alive_compat_static c (pre ++ [s]) h, msgForSeg_static h, diagRest_static c h rest (pre ++ [s])]

theorem diagnose_static (c : Call) {l1 l2 : List Exp} (h : l1.map Exp.norm = l2.map Exp.norm) : diagnose l1 c = diagnose l2 c := by
  unfold diagnose
  rw [any_static (alive c) (fun _ => rfl) h, diagRest_static c h, msgUnexpectedCall_static h]

theorem map_norm_norm (es : List Exp) : (es.map Exp.norm).map Exp.norm = es.map Exp.norm := by
  simp [List.map_map, Function.comp_def, norm_norm]

/-- the run of the code is the specification run -/
theorem run_eq_specRun : ∀ (calls : List Call) (es : List Exp) (k : Nat),
    Clean es → Plain es → Unambiguous es → (∀ e ∈ es, WFExp e) → (∀ c ∈ calls, WFCall c) →
    run es k calls = specRun (es.map Exp.norm) k calls
  | [], es, k, _, _, _, _, _ => by
    simp only [run, specRun, endCheck, List.any_map, Function.comp_def]
    rfl
  | c :: rest, es, k, hclean, hplain, hun, hwfe, hwfc => by
    have hwf := hwfc c (by simp)
    have hd := callFull_diagnose (c := c) (k + 1) bufInit hclean hplain hun hwfe hwf
    obtain ⟨s1, s2⟩ := callFull_spec (c := c) (k + 1) bufInit hclean hplain hun hwfe hwf
    simp only [run, specRun]
    rw [diagnose_static c (map_norm_norm es), ← hd]
    cases hf : (callFull es (k + 1) c.name c.segs bufInit).fail with
    | some m => rfl
    | none =>
      simp only
      have hany : es.any (wants c) = true := by
        cases ha : es.any (wants c) with
        | true => rfl
        | false => exact absurd hf (s2 ha)
      obtain ⟨_, t2, t3, _⟩ := s1 hany
      have hcomm : modifyFirst (wants c) (fun e => e.bump (k + 1)) (es.map Exp.norm)
          = (modifyFirst (wants c) (fun e => e.bump (k + 1)) es).map Exp.norm :=
        (modifyFirst_map_comm (wants c) (fun e => e.bump (k + 1)) Exp.norm (wants_norm c) (fun e => norm_bump e (k + 1)) es).symm
      have hnorm : (callFull es (k + 1) c.name c.segs bufInit).es.map Exp.norm
          = (modifyFirst (wants c) (fun e => e.bump (k + 1)) es).map Exp.norm := by rw [t2, hcomm]
      have ih := run_eq_specRun rest (callFull es (k + 1) c.name c.segs bufInit).es (k + 1) t3
        (plain_transfer hnorm (plain_bump hplain))
        (unambiguous_transfer hnorm (unambiguous_bump hun))
        (wfexp_transfer hnorm (wfexp_bump hwfe))
        (fun c' hc' => hwfc c' (by simp [hc']))
      rw [ih, t2]

/-! ### output parameters: the buffers hold a copy from the expectation that is the match -/

theorem copyOne_norm (e : Exp) (b : String × List UInt8) : copyOne e.norm b = copyOne e b := by
  simp only [copyOne, Exp.norm, Exp.reset, find_unpassO]
  cases e.outs.find? (fun p => p.name == b.1) <;> rfl

theorem copyOutputs_norm (e : Exp) (bufs : List (String × List UInt8)) : copyOutputs e.norm bufs = copyOutputs e bufs := by
  unfold copyOutputs
  apply List.map_congr_left
  intro b _
  exact copyOne_norm e b

theorem copyOutputs_static {a b : Exp} (h : a.norm = b.norm) (bufs : List (String × List UInt8)) :
    copyOutputs a bufs = copyOutputs b bufs := by
  rw [← copyOutputs_norm a, ← copyOutputs_norm b, h]

theorem copyOne_fst (e : Exp) (b : String × List UInt8) : (copyOne e b).1 = b.1 := by
  unfold copyOne
  split <;> rfl

theorem copyOutputs_names (e : Exp) (bufs : List (String × List UInt8)) : (copyOutputs e bufs).map (·.1) = bufs.map (·.1) := by
  simp [copyOutputs, List.map_map, Function.comp_def, copyOne_fst]

/-- the registered output buffers are those of the steps made so far, and while an expectation
    is the match the buffers hold a copy of its output bytes -/
structure BufOK (pre : List Seg) (cs : CS) : Prop where
  regs : cs.call.bufs.map (·.1) = outNames pre
  copied : ∀ x ∈ cs.es, x.isMatch = true → ∃ b0, cs.call.bufs = copyOutputs x b0 ∧ b0.map (·.1) = outNames pre

theorem complete_bufOK {pre : List Seg} {cs : CS} (hregs : cs.call.bufs.map (·.1) = outNames pre)
    (hnom : ∀ x ∈ cs.es, x.isMatch = false) : BufOK pre (complete cs) := by
  unfold complete
  cases hfind : cs.es.find? isMF with
  | some e =>
    obtain ⟨l1, l2, hl, _, _, hmod⟩ := find_decomp hfind
    simp only [hmod]
    refine ⟨by rw [copyOutputs_names]; exact hregs, ?_⟩
    intro y hy hym
    simp only [List.mem_append, List.mem_cons] at hy
    rcases hy with hy | rfl | hy
    · rw [hnom y (by rw [hl]; simp [hy])] at hym; cases hym
    · exact ⟨cs.call.bufs, rfl, hregs⟩
    · rw [hnom y (by rw [hl]; simp [hy])] at hym; cases hym
  | none =>
    simp only
    split
    · refine ⟨by rw [copyOutputs_names]; exact hregs, fun y hy hym => ?_⟩
      rw [hnom y hy] at hym; cases hym
    · exact ⟨hregs, fun y hy hym => by rw [hnom y hy] at hym; cases hym⟩

theorem failCall_bufs (cs : CS) (msg : String) : (failCall cs msg).call.bufs = cs.call.bufs := by
  unfold failCall; split <;> rfl

theorem discard_prune_isMatch (s : Seg) (x : Exp) :
    (if (discardE x).cand && !compatSeg (discardE x) s then ({ (discardE x).reset with cand := false } : Exp) else discardE x).isMatch = false := by
  have hd : (discardE x).isMatch = false := by
    unfold discardE
    split
    · rfl
    · next h =>
      split
      · simpa [Exp.reset] using h
      · simpa using h
  split
  · simpa [Exp.reset] using hd
  · exact hd

theorem ite_pass_isMatch (pass : Exp → Exp) (hpm : ∀ e, (pass e).isMatch = e.isMatch) (z : Exp) :
    (if z.cand then pass z else z).isMatch = z.isMatch := by
  split
  · rw [hpm]
  · rfl

theorem checkParam_bufOK {c : Call} {pre : List Seg} {s : Seg} {pass : Exp → Exp} {msg : String} {cs : CS}
    (hinv : Inv c pre cs) (hregs : cs.call.bufs.map (·.1) = outNames (pre ++ [s]))
    (hpm : ∀ e, (pass e).isMatch = e.isMatch) :
    BufOK (pre ++ [s]) (checkParam cs (fun e => compatSeg e s) pass msg) := by
  unfold checkParam
  rw [if_neg (state_ne_failed hinv)]
  simp only
  split
  · apply complete_bufOK
    · exact hregs
    intro y hy
    simp only [List.mem_map] at hy
    obtain ⟨z, ⟨w, ⟨x, _, rfl⟩, rfl⟩, rfl⟩ := hy
    rw [ite_pass_isMatch pass hpm]
    exact discard_prune_isMatch s x
  · refine ⟨by rw [failCall_bufs]; exact hregs, ?_⟩
    intro y hy hym
    rw [(failCall_meta _ _).2.2] at hy
    simp only [List.mem_map] at hy
    obtain ⟨w, ⟨x, _, rfl⟩, rfl⟩ := hy
    rw [discard_prune_isMatch s x] at hym; cases hym

theorem onObject_bufOK {c : Call} {pre : List Seg} {o : Nat} {cs : CS}
    (hinv : Inv c pre cs) (hb : BufOK pre cs) : BufOK (pre ++ [.obj o]) (onObject cs o) := by
  have hnames : outNames (pre ++ [Seg.obj o]) = outNames pre := by simp [outNames]
  have hmap : (cs.es.map (fun e => if e.cand && !e.relatesToObject o then ({ e.reset with cand := false } : Exp) else e)).map
        (fun e => if e.cand then ({ e with passedObj := true } : Exp) else e) = cs.es.map (objE o) := by
    simp only [List.map_map]; rfl
  have hmatch2 : anyMatch (cs.es.map (objE o)) = anyMatch cs.es := by
    simp only [anyMatch, List.any_map, Function.comp_def, objE_isMatch]
  unfold onObject
  rw [if_neg (state_ne_failed hinv)]
  simp only
  split
  · refine ⟨by rw [failCall_bufs, hnames]; exact hb.regs, ?_⟩
    next hcond =>
    intro y hy hym
    rw [(failCall_meta _ _).2.2] at hy
    simp only [List.mem_map] at hy
    obtain ⟨x, hx, rfl⟩ := hy
    have hxm : x.isMatch = true := by
      split at hym
      · simpa [Exp.reset] using hym
      · exact hym
    exfalso
    simp only [Bool.and_eq_true, Bool.not_eq_true'] at hcond
    have hno := (anyMatch_false_iff _).mp hcond.1
    have := hno _ (List.mem_map.mpr ⟨x, hx, rfl⟩)
    split at this
    · simp [Exp.reset, hxm] at this
    · rw [hxm] at this; cases this
  · rw [hmap, hmatch2]
    cases hm : anyMatch cs.es with
    | true =>
      simp only [if_true]
      refine ⟨by rw [hnames]; exact hb.regs, ?_⟩
      intro y hy hym
      simp only [List.mem_map] at hy
      obtain ⟨x, hx, rfl⟩ := hy
      rw [objE_isMatch] at hym
      obtain ⟨b0, h1, h2⟩ := hb.copied x hx hym
      exact ⟨b0, by rw [copyOutputs_static (objE_norm o x)]; exact h1, by rw [hnames]; exact h2⟩
    | false =>
      simp only [Bool.false_eq_true, if_false]
      apply complete_bufOK
      · rw [hnames]; exact hb.regs
      intro y hy
      simp only [List.mem_map] at hy
      obtain ⟨x, hx, rfl⟩ := hy
      rw [objE_isMatch]; exact (anyMatch_false_iff _).mp hm x hx

theorem withName_bufOK {c : Call} {es : List Exp} (k : Nat) :
    BufOK [] (withName { es := beginCall es, call := newCall k, fail := none } c.name) := by
  have hmap : (beginCall es).map (fun e => ({ e with cand := e.cand && e.name == c.name } : Exp)) = es.map (initE c.name) := by
    simp only [beginCall, List.map_map]; rfl
  have hnom : ∀ y ∈ es.map (initE c.name), y.isMatch = false := by
    intro y hy
    simp only [List.mem_map] at hy
    obtain ⟨e, _, rfl⟩ := hy
    rfl
  unfold withName
  simp only [hmap]
  split
  · apply complete_bufOK
    · rfl
    · exact hnom
  · refine ⟨by rw [failCall_bufs]; rfl, ?_⟩
    intro y hy hym
    rw [(failCall_meta _ _).2.2] at hy
    rw [hnom y hy] at hym; cases hym

theorem segsFrom_bufOK {c : Call} (buf : List UInt8) (hwf : WFCall c) :
    ∀ (rest pre : List Seg) (cs : CS), c.segs = pre ++ rest → Inv c pre cs → BufOK pre cs →
      (segsFrom cs buf rest).fail = none → BufOK c.segs (segsFrom cs buf rest)
  | [], pre, cs, hsegs, _, hb, _ => by
    have : c.segs = pre := by simpa using hsegs
    rw [this]; exact hb
  | s :: rest, pre, cs, hsegs, hinv, hb, hfail => by
    have hsegs' : c.segs = (pre ++ [s]) ++ rest := by simp [hsegs]
    have hkw : ∀ e, wants c e = true → compatSeg e s = true := fun e hw => compatSeg_of_wants hw (by rw [hsegs]; simp)
    simp only [segsFrom, hinv.nofail, Option.isSome_none, Bool.false_eq_true, if_false] at hfail ⊢
    have hstepfail : (applySeg cs buf s).fail = none := by
      cases hf : (applySeg cs buf s).fail with
      | none => rfl
      | some m =>
        have hne : (applySeg cs buf s).fail ≠ none := by rw [hf]; simp
        rw [segsFrom_failed _ _ _ hne, hf] at hfail; cases hfail
    have hstep : Inv c (pre ++ [s]) (applySeg cs buf s) ∧ BufOK (pre ++ [s]) (applySeg cs buf s) := by
      cases s with
      | inp n v =>
        have i := checkParam_inv (s := .inp n v) (msg := msgUnexpectedInput cs.es cs.call.name n) hinv
          (fun e => norm_passInput e n) (fun _ => rfl) (fun _ => rfl)
          (fun e he => flagsOK_passInput n v he) (not_covered_inp hsegs hwf) hkw
        refine ⟨i.1 hstepfail, ?_⟩
        apply checkParam_bufOK hinv
        · rw [hb.regs]; simp [outNames]
        · intro _; rfl
      | out n =>
        have hinv' : Inv c pre { cs with call := { cs.call with bufs := cs.call.bufs ++ [(n, buf)] } } :=
          inv_congr (cs := cs) rfl rfl rfl hinv
        have i := checkParam_inv (s := .out n) (msg := msgUnexpectedOutput cs.es cs.call.name n) hinv'
          (fun e => norm_passOutput e n) (fun _ => rfl) (fun _ => rfl)
          (fun e he => flagsOK_passOutput n he) (not_covered_out hsegs hwf) hkw
        refine ⟨i.1 hstepfail, ?_⟩
        apply checkParam_bufOK hinv'
        · simp only [List.map_append, List.map_cons, List.map_nil, hb.regs]
          simp [outNames]
        · intro _; rfl
      | obj o =>
        have hkw' : ∀ e, wants c e = true → e.relatesToObject o = true := fun e hw => hkw e hw
        have i := onObject_inv hinv (objs_pre_nil hsegs hwf) hkw'
        exact ⟨i.1 hstepfail, onObject_bufOK hinv hb⟩
    exact segsFrom_bufOK buf hwf rest (pre ++ [s]) (applySeg cs buf s) hsegs' hstep.1 hstep.2 hfail

theorem callCheck_bufs (cs : CS) : (callCheck cs).call.bufs = cs.call.bufs := by
  unfold callCheck
  split
  · rfl
  · simp only
    split
    · rfl
    · rfl
    · unfold finishInProgress
      simp only
      split
      · exact failCall_bufs _ _
      · split
        · rfl
        · split <;> exact failCall_bufs _ _

theorem copyOutputs_bump (e : Exp) (k : Nat) (b : List (String × List UInt8)) : copyOutputs (e.bump k) b = copyOutputs e b := rfl

/-- **outputs of one call**: after a fulfilled call every registered output buffer (in the
    order of the `withOutputParameter` steps) holds a copy of the consumed expectation's bytes
    for that name -/
theorem callFull_outputs {es : List Exp} {c : Call} (k : Nat) (buf : List UInt8)
    (hclean : Clean es) (hplain : Plain es) (hun : Unambiguous es) (hwfe : ∀ e ∈ es, WFExp e) (hwf : WFCall c)
    (hok : (callFull es k c.name c.segs buf).fail = none) :
    ∃ x b0, es.find? (wants c) = some x ∧ (callFull es k c.name c.segs buf).call.bufs = copyOutputs x b0 ∧
      b0.map (·.1) = outNames c.segs := by
  obtain ⟨s1, s2⟩ := callFull_spec (c := c) k buf hclean hplain hun hwfe hwf
  have hany : es.any (wants c) = true := by
    cases ha : es.any (wants c) with
    | true => rfl
    | false => exact absurd hok (s2 ha)
  obtain ⟨_, _, _, xn, hxn, _, y, hy, hym, hyn⟩ := s1 hany
  -- the first wanted expectation of `es` itself
  have hfm : (es.map Exp.norm).find? (wants c) = (es.find? (wants c)).map Exp.norm := by
    rw [List.find?_map]; congr 1
    exact find_congr' (fun a _ => wants_norm c a)
  rw [hfm] at hxn
  cases hfx : es.find? (wants c) with
  | none => rw [hfx] at hxn; cases hxn
  | some x =>
    rw [hfx] at hxn
    simp only [Option.map_some, Option.some.injEq] at hxn
    -- the state before the finishing check
    obtain ⟨a1, _, a3, a4, a5⟩ := withName_inv (c := c) k hclean hplain
    have hsf : (segsFrom (withName { es := beginCall es, call := newCall k, fail := none } c.name) buf c.segs).fail = none := by
      cases hf : (segsFrom (withName { es := beginCall es, call := newCall k, fail := none } c.name) buf c.segs).fail with
      | none => rfl
      | some m =>
        have := callCheck_fail_some _ m hf
        unfold callFull at hok
        rw [this] at hok; cases hok
    have hwfail : (withName { es := beginCall es, call := newCall k, fail := none } c.name).fail = none := by
      cases hf : (withName { es := beginCall es, call := newCall k, fail := none } c.name).fail with
      | none => rfl
      | some m =>
        have hne : (withName { es := beginCall es, call := newCall k, fail := none } c.name).fail ≠ none := by rw [hf]; simp
        rw [segsFrom_failed _ _ _ hne, hf] at hsf; cases hsf
    have hinv0 := a1 hwfail
    obtain ⟨b1, _, _, b4, b5⟩ := segsFrom_inv buf hwf c.segs [] _ (by simp) hinv0
    have hinv := b1 hsf
    have hbuf := segsFrom_bufOK buf hwf c.segs [] _ (by simp) hinv0 (withName_bufOK k) hsf
    -- the match element of the final list comes from the match element before finishing
    have hanym : anyMatch (segsFrom (withName { es := beginCall es, call := newCall k, fail := none } c.name) buf c.segs).es = true := by
      cases hm : anyMatch (segsFrom (withName { es := beginCall es, call := newCall k, fail := none } c.name) buf c.segs).es with
      | true => rfl
      | false =>
        exfalso
        have hst : (segsFrom (withName { es := beginCall es, call := newCall k, fail := none } c.name) buf c.segs).call.state = .inProgress := by
          rw [hinv.st, hm]; rfl
        have hes : (callFull es k c.name c.segs buf).es.any (fun e => e.isMatch) = false := by
          unfold callFull callCheck
          rw [if_neg (by rw [b4, a4]; simp)]
          simp only [hst]
          unfold finishInProgress
          simp only
          have hnom := (anyMatch_false_iff _).mp hm
          split
          · rw [(failCall_meta _ _).2.2]; exact (anyMatch_false_iff _).mpr hnom |> fun h => by simpa [anyMatch] using h
          · split
            · next e he =>
              exfalso
              have hmem := List.mem_of_find?_eq_some he
              have hp := List.find?_some he
              have hplainE := (hinv.elems e hmem).plain
              rw [isM_eq_isMF hplainE] at hp
              have hc : e.cand = true := by simp [isMF] at hp; exact hp.1
              have hfl := ((hinv.elems e hmem).cand hc).2.2.2
              rw [isMF_of_flagsOK hfl hplainE, hc, hinv.noMF hm e hmem hc] at hp
              cases hp
            · split
              · rw [(failCall_meta _ _).2.2]; simpa [anyMatch] using hm
              · rw [(failCall_meta _ _).2.2]; simpa [anyMatch] using hm
        have := List.any_eq_false.mp hes y hy
        exact this hym
    have hst : (segsFrom (withName { es := beginCall es, call := newCall k, fail := none } c.name) buf c.segs).call.state = .succeed := by
      rw [hinv.st, hanym]; rfl
    have hes : (callFull es k c.name c.segs buf).es
        = (segsFrom (withName { es := beginCall es, call := newCall k, fail := none } c.name) buf c.segs).es.map (finishE k) := by
      unfold callFull callCheck
      rw [if_neg (by rw [b4, a4]; simp)]
      simp only [hst, b5, a5, resetCands, List.map_map]
      rfl
    rw [hes] at hy
    simp only [List.mem_map] at hy
    obtain ⟨m, hm, rfl⟩ := hy
    have hmm : m.isMatch = true := by
      cases hmi : m.isMatch with
      | true => rfl
      | false =>
        have := finishE_nomatch k hmi
        rw [this] at hym
        split at hym
        · simp [Exp.reset, hmi] at hym
        · rw [hmi] at hym; cases hym
    obtain ⟨b0, hb0, hb0n⟩ := hbuf.copied m hm hmm
    have hmc := ((hinv.elems m hm).mtch hmm).1
    rw [finishE_match k hmm hmc, norm_callWasMade] at hyn
    refine ⟨x, b0, rfl, ?_, hb0n⟩
    unfold callFull
    rw [callCheck_bufs, hb0]
    -- copyOutputs only reads the static output list
    have e1 : copyOutputs m b0 = copyOutputs (m.norm.bump k) b0 := by rw [copyOutputs_bump, copyOutputs_norm]
    have e2 : copyOutputs x b0 = copyOutputs (xn.bump k) b0 := by rw [copyOutputs_bump, ← hxn, copyOutputs_norm]
    rw [e1, e2, hyn]

/-! ### the per-scope functions the driver uses compose to `callFull` -/

theorem cs_eta (cs : CS) (h : cs.fail = none) : ({ es := cs.es, call := cs.call, fail := none } : CS) = cs := by
  cases cs; simp_all

/-- the steps of a call statement on a scope are `segsFrom` on the scope's expectation list -/
theorem segsLoop_eq (buf : List UInt8) : ∀ (segs : List Seg) (sc : Scope) (c : ACall), sc.last = some c →
    segsLoop sc buf segs =
      ({ sc with es := (segsFrom { es := sc.es, call := c, fail := none } buf segs).es,
                 last := some (segsFrom { es := sc.es, call := c, fail := none } buf segs).call },
       (segsFrom { es := sc.es, call := c, fail := none } buf segs).fail)
  | [], sc, c, hl => by
    simp only [segsLoop, segsFrom]
    cases sc; simp_all
  | s :: rest, sc, c, hl => by
    simp only [segsLoop, Scope.seg, hl, segsFrom, Option.isSome_none, Bool.false_eq_true, if_false]
    cases hf : (applySeg { es := sc.es, call := c, fail := none } buf s).fail with
    | some f =>
      have hne : (applySeg { es := sc.es, call := c, fail := none } buf s).fail ≠ none := by rw [hf]; simp
      rw [segsFrom_failed _ _ _ hne, hf]
    | none =>
      simp only
      have ih := segsLoop_eq buf rest
        { sc with es := (applySeg { es := sc.es, call := c, fail := none } buf s).es,
                  last := some (applySeg { es := sc.es, call := c, fail := none } buf s).call }
        (applySeg { es := sc.es, call := c, fail := none } buf s).call rfl
      rw [ih]
      simp only [cs_eta _ hf]

/-- **glue.** On a scope without a call in flight (enabled, the function not ignored) a call
    statement that is finished right away reports exactly `callFull`'s failure, and — when it does
    not fail — leaves exactly `callFull`'s expectation list. -/
theorem scope_callNow_is_callFull (sc : Scope) (fn : String) (segs : List Seg) (buf : List UInt8)
    (hlast : sc.last = none) (hen : sc.enabled = true) (hioc : sc.ioc = false) :
    (sc.callNow fn segs buf).2 = (callFull sc.es (sc.actualOrder + 1) (sc.fullName fn) segs buf).fail ∧
    ((sc.callNow fn segs buf).2 = none →
      (sc.callNow fn segs buf).1.es = (callFull sc.es (sc.actualOrder + 1) (sc.fullName fn) segs buf).es ∧
      (sc.callNow fn segs buf).1.actualOrder = sc.actualOrder + 1) := by
  have hact : sc.actualCall fn =
      { sc := { sc with es := (withName { es := beginCall sc.es, call := newCall (sc.actualOrder + 1), fail := none } (sc.fullName fn)).es,
                        actualOrder := sc.actualOrder + 1,
                        last := some (withName { es := beginCall sc.es, call := newCall (sc.actualOrder + 1), fail := none } (sc.fullName fn)).call },
        fail := (withName { es := beginCall sc.es, call := newCall (sc.actualOrder + 1), fail := none } (sc.fullName fn)).fail,
        ignored := false } := by
    unfold Scope.actualCall Scope.checkLast Scope.startCall
    simp only [hlast, hen, hioc]
    cases sc; simp_all [Scope.fullName]
  unfold Scope.callNow callFull
  rw [hact]
  simp only
  cases hw : (withName { es := beginCall sc.es, call := newCall (sc.actualOrder + 1), fail := none } (sc.fullName fn)).fail with
  | some f =>
    have hne : (withName { es := beginCall sc.es, call := newCall (sc.actualOrder + 1), fail := none } (sc.fullName fn)).fail ≠ none := by
      rw [hw]; simp
    simp only
    rw [segsFrom_failed _ _ _ hne, callCheck_fail_some _ f hw]
    exact ⟨rfl, fun h => by cases h⟩
  | none =>
    simp only
    rw [segsLoop_eq buf segs _ _ rfl]
    simp only [cs_eta _ hw]
    cases hs : (segsFrom (withName { es := beginCall sc.es, call := newCall (sc.actualOrder + 1), fail := none } (sc.fullName fn)) buf segs).fail with
    | some f =>
      simp only
      rw [callCheck_fail_some _ f hs]
      exact ⟨rfl, fun h => by cases h⟩
    | none =>
      simp only [Scope.checkLast, cs_eta _ hs]
      exact ⟨by first | rfl | trivial, fun _ => ⟨by first | rfl | trivial, by first | rfl | trivial⟩⟩

/-- `MockSupport::checkExpectations` on a world that is just the global mock, with no call in
    flight, is `endCheck` of its expectation list -/
theorem world_check_is_endCheck (sc : Scope) (hname : sc.name = "") (hlast : sc.last = none) :
    (World.check { glob := sc, subs := [] } "").2 = endCheck sc.es := by
  simp [World.check, World.touch, World.covered, checkLasts, Scope.checkLast, hlast, endCheck,
    Scope.hasUnfulfilled, Scope.hasOutOfOrder, World.putAll, World.put, hname]
  split
  · simp_all
  · split <;> simp_all

/-! ### no call leaves matching state behind — for EVERY expectation list (also with
    ignoreOtherParameters, ambiguous sets, ill-formed calls) -/

/-- what holds of the expectation list at every point of a call, whatever the expectations are:
    an expectation that is neither a candidate nor the match carries no matching flags; only a
    succeeded call has a match; a failed call has reported its failure -/
structure G (cs : CS) : Prop where
  dead : ∀ e ∈ cs.es, e.cand = false → e.isMatch = false → e.clean = true
  nom : cs.call.state ≠ .succeed → ∀ e ∈ cs.es, e.isMatch = false
  failed : cs.call.state = .failed → cs.fail ≠ none

theorem G_complete {cs : CS} (h : G cs) : G (complete cs) := by
  unfold complete
  cases hfind : cs.es.find? isMF with
  | some e =>
    obtain ⟨l1, l2, hl, _, _, hmod⟩ := find_decomp hfind
    simp only [hmod]
    refine ⟨?_, fun hs => absurd rfl hs, fun hs => by cases hs⟩
    intro y hy hc hm
    simp only [List.mem_append, List.mem_cons] at hy
    rcases hy with hy | rfl | hy
    · exact h.dead y (by rw [hl]; simp [hy]) hc hm
    · cases hm
    · exact h.dead y (by rw [hl]; simp [hy]) hc hm
  | none =>
    simp only
    split
    · exact ⟨h.dead, h.nom, h.failed⟩
    · exact h

theorem G_failCall {cs : CS} (msg : String) (h : G cs) (hnom : ∀ e ∈ cs.es, e.isMatch = false) : G (failCall cs msg) := by
  unfold failCall
  split
  · exact h
  · refine ⟨h.dead, fun _ => hnom, fun _ => ?_⟩
    simp only
    cases cs.fail <;> simp

theorem discardE_isMatch (x : Exp) : (discardE x).isMatch = false := by
  unfold discardE
  split
  · rfl
  · next h =>
    split
    · simpa [Exp.reset] using h
    · simpa using h

theorem clean_reset_with (e : Exp) (b c : Bool) : ({ e.reset with cand := b, isMatch := c } : Exp).clean = true := by
  simp [Exp.clean, Exp.reset, List.all_map, Function.comp_def]

theorem discardE_dead {x : Exp} (hx : x.cand = false → x.isMatch = false → x.clean = true) :
    (discardE x).cand = false → (discardE x).clean = true := by
  unfold discardE
  split
  · intro _; simp [Exp.clean, Exp.reset, List.all_map, Function.comp_def]
  · next hm =>
    split
    · intro _; simp [Exp.clean, Exp.reset, List.all_map, Function.comp_def]
    · intro hc; exact hx hc (by simpa using hm)

theorem G_checkParam {cs : CS} (keep : Exp → Bool) (pass : Exp → Exp) (msg : String)
    (hpc : ∀ e, (pass e).cand = e.cand) (hpm : ∀ e, (pass e).isMatch = e.isMatch) (h : G cs) :
    G (checkParam cs keep pass msg) := by
  unfold checkParam
  split
  · exact h
  · simp only
    -- the list after discarding and pruning
    have hprop : ∀ y ∈ (cs.es.map discardE).map (fun e => if e.cand && !keep e then ({ e.reset with cand := false } : Exp) else e),
        y.isMatch = false ∧ (y.cand = false → y.clean = true) := by
      intro y hy
      simp only [List.mem_map] at hy
      obtain ⟨w, ⟨x, hx, rfl⟩, rfl⟩ := hy
      have hm := discardE_isMatch x
      have hd := discardE_dead (h.dead x hx)
      split
      · exact ⟨by simpa [Exp.reset] using hm, fun _ => by simp [Exp.clean, Exp.reset, List.all_map, Function.comp_def]⟩
      · exact ⟨hm, hd⟩
    split
    · apply G_complete
      refine ⟨?_, fun _ => ?_, fun hs => by cases hs⟩
      · intro y hy hc _
        simp only [List.mem_map] at hy
        obtain ⟨z, hz, rfl⟩ := hy
        obtain ⟨_, h2⟩ := hprop z (List.mem_map.mpr (by simpa using hz))
        split at hc
        · next hzc => rw [hpc] at hc; rw [hzc] at hc; cases hc
        · next hzc => rw [if_neg hzc]; exact h2 hc
      · intro y hy
        simp only [List.mem_map] at hy
        obtain ⟨z, hz, rfl⟩ := hy
        obtain ⟨h1, _⟩ := hprop z (List.mem_map.mpr (by simpa using hz))
        split
        · rw [hpm]; exact h1
        · exact h1
    · apply G_failCall
      · exact ⟨fun y hy hc _ => (hprop y hy).2 hc, fun _ y hy => (hprop y hy).1, fun hs => by cases hs⟩
      · exact fun y hy => (hprop y hy).1

theorem G_onObject {cs : CS} (o : Nat) (h : G cs) : G (onObject cs o) := by
  unfold onObject
  split
  · exact h
  · next hst =>
    simp only
    have hprop : ∀ y ∈ cs.es.map (fun e => if e.cand && !e.relatesToObject o then ({ e.reset with cand := false } : Exp) else e),
        (y.cand = false → y.isMatch = false → y.clean = true) ∧ (cs.call.state ≠ .succeed → y.isMatch = false) := by
      intro y hy
      simp only [List.mem_map] at hy
      obtain ⟨x, hx, rfl⟩ := hy
      split
      · exact ⟨fun _ _ => by simp [Exp.clean, Exp.reset, List.all_map, Function.comp_def],
               fun hs => by simpa [Exp.reset] using h.nom hs x hx⟩
      · exact ⟨h.dead x hx, fun hs => h.nom hs x hx⟩
    split
    · next hcond =>
      apply G_failCall
      · exact ⟨fun y hy => (hprop y hy).1, fun hs y hy => (hprop y hy).2 hs, fun hs => absurd hs hst⟩
      · rw [Bool.and_eq_true, Bool.not_eq_true', Bool.not_eq_true'] at hcond
        exact (anyMatch_false_iff _).mp hcond.1
    · have hprop2 : ∀ y ∈ (cs.es.map (fun e => if e.cand && !e.relatesToObject o then ({ e.reset with cand := false } : Exp) else e)).map
            (fun e => if e.cand then ({ e with passedObj := true } : Exp) else e),
          (y.cand = false → y.isMatch = false → y.clean = true) ∧ (cs.call.state ≠ .succeed → y.isMatch = false) := by
        intro y hy
        simp only [List.mem_map] at hy
        obtain ⟨z, hz, rfl⟩ := hy
        obtain ⟨h1, h2⟩ := hprop z (List.mem_map.mpr (by simpa using hz))
        split
        · next hzc => exact ⟨fun hc => by simp [hzc] at hc, h2⟩
        · exact ⟨h1, h2⟩
      have hG2 : G { es := ((cs.es.map (fun e => if e.cand && !e.relatesToObject o then ({ e.reset with cand := false } : Exp) else e)).map (fun e => if e.cand then ({ e with passedObj := true } : Exp) else e)), call := cs.call, fail := cs.fail } :=
        ⟨fun y hy => (hprop2 y hy).1, fun hs y hy => (hprop2 y hy).2 hs, fun hs => absurd hs hst⟩
      split
      · exact hG2
      · exact G_complete hG2

theorem G_applySeg {cs : CS} (buf : List UInt8) (s : Seg) (h : G cs) : G (applySeg cs buf s) := by
  cases s with
  | inp n v => exact G_checkParam _ _ _ (fun _ => rfl) (fun _ => rfl) h
  | out n =>
    exact G_checkParam (cs := { cs with call := { cs.call with bufs := cs.call.bufs ++ [(n, buf)] } }) _ _ _
      (fun _ => rfl) (fun _ => rfl) ⟨h.dead, h.nom, h.failed⟩
  | obj o => exact G_onObject o h

theorem G_segsFrom (buf : List UInt8) : ∀ (segs : List Seg) (cs : CS), G cs → G (segsFrom cs buf segs)
  | [], _, h => h
  | s :: rest, cs, h => by
    simp only [segsFrom]
    split
    · exact h
    · exact G_segsFrom buf rest _ (G_applySeg buf s h)

theorem G_withName {es : List Exp} (k : Nat) (n : String) (hclean : Clean es) :
    G (withName { es := beginCall es, call := newCall k, fail := none } n) := by
  have hprop : ∀ y ∈ (beginCall es).map (fun e => ({ e with cand := e.cand && e.name == n } : Exp)),
      y.isMatch = false ∧ y.clean = true := by
    intro y hy
    simp only [beginCall, List.map_map, List.mem_map] at hy
    obtain ⟨e, he, rfl⟩ := hy
    refine ⟨rfl, ?_⟩
    have := hclean e he
    simpa [Exp.clean] using this
  unfold withName
  simp only
  split
  · apply G_complete
    exact ⟨fun y hy _ _ => (hprop y hy).2, fun _ y hy => (hprop y hy).1, fun hs => by cases hs⟩
  · apply G_failCall
    · exact ⟨fun y hy _ _ => (hprop y hy).2, fun _ y hy => (hprop y hy).1, fun hs => by cases hs⟩
    · exact fun y hy => (hprop y hy).1

/-- the general form of the checked flag along a call -/
theorem checkParam_checked (cs : CS) (keep : Exp → Bool) (pass : Exp → Exp) (msg : String) :
    (checkParam cs keep pass msg).call.checked = cs.call.checked := by
  unfold checkParam
  split
  · rfl
  · simp only
    split
    · exact (complete_meta _).1
    · exact (failCall_meta _ _).1

theorem onObject_checked (cs : CS) (o : Nat) : (onObject cs o).call.checked = cs.call.checked := by
  unfold onObject
  split
  · rfl
  · simp only
    split
    · exact (failCall_meta _ _).1
    · split
      · rfl
      · exact (complete_meta _).1

theorem applySeg_checked (cs : CS) (buf : List UInt8) (s : Seg) : (applySeg cs buf s).call.checked = cs.call.checked := by
  cases s with
  | inp n v => exact checkParam_checked _ _ _ _
  | out n => exact checkParam_checked _ _ _ _
  | obj o => exact onObject_checked _ _

theorem segsFrom_checked (buf : List UInt8) : ∀ (segs : List Seg) (cs : CS), (segsFrom cs buf segs).call.checked = cs.call.checked
  | [], _ => rfl
  | s :: rest, cs => by
    simp only [segsFrom]
    split
    · rfl
    · rw [segsFrom_checked buf rest, applySeg_checked]

theorem withName_checked (cs : CS) (n : String) : (withName cs n).call.checked = cs.call.checked := by
  unfold withName
  simp only
  split
  · exact (complete_meta _).1
  · exact (failCall_meta _ _).1

theorem failCall_ne_none_of_state (cs : CS) (msg : String) (hs : cs.call.state ≠ .failed) : (failCall cs msg).fail ≠ none := by
  unfold failCall
  rw [if_neg hs]
  simp only
  cases cs.fail <;> simp

/-- finishing a call that reports no failure leaves every expectation clean -/
theorem callCheck_clean {cs : CS} (h : G cs) (hchk : cs.call.checked = false) (hf : (callCheck cs).fail = none) :
    Clean (callCheck cs).es := by
  unfold callCheck at hf ⊢
  rw [if_neg (by rw [hchk]; simp)] at hf ⊢
  simp only at hf ⊢
  cases hst : cs.call.state with
  | succeed =>
    simp only [hst]
    intro y hy
    simp only [resetCands, List.map_map, List.mem_map] at hy
    obtain ⟨x, hx, rfl⟩ := hy
    simp only [Function.comp]
    cases hm : x.isMatch with
    | true =>
      simp only [if_true]
      split
      · exact reset_clean _
      · exact clean_callWasMade x _
    | false =>
      simp only [Bool.false_eq_true, if_false]
      split
      · exact reset_clean _
      · next hc => exact h.dead x hx (by simpa using hc) hm
  | failed =>
    exfalso
    simp only [hst] at hf
    exact h.failed hst hf
  | inProgress =>
    simp only [hst] at hf ⊢
    have hnom := h.nom (by rw [hst]; simp)
    unfold finishInProgress at hf ⊢
    simp only at hf ⊢
    split at hf
    · exfalso
      exact failCall_ne_none_of_state _ _ (by simp) hf
    · next hany =>
      rw [if_neg hany]
      split at hf
      · next e he =>
        simp only [he]
        intro y hy
        simp only [resetCands, List.mem_map] at hy
        obtain ⟨z, hz, rfl⟩ := hy
        rcases mem_modifyFirst hz with hz | ⟨x, _, rfl⟩
        · split
          · exact reset_clean _
          · next hc => exact h.dead z hz (by simpa using hc) (hnom z hz)
        · split
          · exact reset_clean _
          · exact clean_callWasMade _ _
      · next hnone =>
        exfalso
        split at hf <;> exact failCall_ne_none_of_state _ _ (by simp) hf

/-- **no stale matching state, in every class**: a call that reports no failure leaves all
    matching flags clean, whatever the expectations (ignoreOtherParameters, ambiguous sets) and
    whatever the call's steps -/
theorem callFull_clean (es : List Exp) (k : Nat) (n : String) (segs : List Seg) (buf : List UInt8)
    (hclean : Clean es) (hf : (callFull es k n segs buf).fail = none) : Clean (callFull es k n segs buf).es := by
  unfold callFull at hf ⊢
  apply callCheck_clean (G_segsFrom buf segs _ (G_withName k n hclean)) _ hf
  rw [segsFrom_checked, withName_checked]
  rfl

end Mock
