import CppUModel.Proofs.Mock
/-! The invariant chain of a call for EVERY unambiguous expectation set, also with
    `ignoreOtherParameters` (C08): the match of such expectations is only taken when the call is finished. -/
namespace Mock

/-! ### `sameClass` -/

theorem sameClass_norm_left (a b : Exp) : sameClass a.norm b = sameClass a b := by
  simp only [sameClass, hasOutputNamed_norm, name_norm, obj_norm, iop_norm]
  simp [Exp.norm, Exp.reset, List.all_map, List.any_map, Function.comp_def]

theorem sameClass_norm_right (a b : Exp) : sameClass a b.norm = sameClass a b := by
  simp only [sameClass, hasOutputNamed_norm, name_norm, obj_norm, iop_norm]
  simp [Exp.norm, Exp.reset, List.all_map, List.any_map, Function.comp_def]

theorem sameClass_static {a b a' b' : Exp} (ha : a.norm = a'.norm) (hb : b.norm = b'.norm) : sameClass a b = sameClass a' b' := by
  rw [← sameClass_norm_left a b, ← sameClass_norm_right a.norm b, ha, hb, sameClass_norm_left, sameClass_norm_right]

theorem sameClass_symm {x y : Exp} (h : sameClass x y = true) : sameClass y x = true := by
  simp only [sameClass, Bool.and_eq_true, beq_iff_eq] at h ⊢
  obtain ⟨⟨⟨⟨⟨⟨h1, h2⟩, h3⟩, h4⟩, h5⟩, h6⟩, h7⟩ := h
  exact ⟨⟨⟨⟨⟨⟨h1.symm, h2.symm⟩, h3.symm⟩, h5⟩, h4⟩, h7⟩, h6⟩

theorem sameClass_refl (e : Exp) : sameClass e e = true := by
  simp only [sameClass, Bool.and_eq_true, List.all_eq_true, beq_self_eq_true, true_and, List.any_eq_true]
  refine ⟨⟨⟨fun p hp => ⟨p, hp, by simp⟩, fun p hp => ⟨p, hp, by simp⟩⟩, ?_⟩, ?_⟩ <;>
  · intro p hp
    simp only [Exp.hasOutputNamed, List.any_eq_true]
    exact ⟨p, hp, by simp⟩

theorem sameClass_iop {x y : Exp} (h : sameClass x y = true) : x.iop = y.iop := by
  simp only [sameClass, Bool.and_eq_true, beq_iff_eq] at h
  exact h.1.1.1.1.2

theorem covered_le_of_sameClass {x y : Exp} (pre : List Seg) (hs : sameClass y x = true) (h : covered x pre = true) :
    covered y pre = true := by
  simp only [sameClass, Bool.and_eq_true, List.all_eq_true, beq_iff_eq, List.any_eq_true] at hs
  obtain ⟨⟨⟨⟨⟨⟨_, hobj⟩, _⟩, hyx⟩, _⟩, hoyx⟩, _⟩ := hs
  simp only [covered, Bool.and_eq_true, List.all_eq_true] at h ⊢
  obtain ⟨⟨h1, h2⟩, h3⟩ := h
  refine ⟨⟨?_, ?_⟩, by rw [hobj]; exact h3⟩
  · intro p hp
    obtain ⟨q, hq, hn, _⟩ := hyx p hp
    rw [← hn]; exact h1 q hq
  · intro p hp
    obtain ⟨q, hq, hn⟩ := hasOutputNamed_true (hoyx p hp)
    rw [← hn]; exact h2 q hq

theorem covered_eq_of_sameClass {x y : Exp} (pre : List Seg) (hs : sameClass y x = true) : covered y pre = covered x pre := by
  apply Bool.eq_iff_iff.mpr
  exact ⟨covered_le_of_sameClass pre (sameClass_symm hs), covered_le_of_sameClass pre hs⟩

theorem isMF_general {pre : List Seg} {x : Exp} (h : FlagsOK pre x) : isMF x = (x.cand && covered x pre && !x.iop) := by
  simp [isMF, Exp.isMatchingFinalized, isMatching_of_flagsOK h, h.fin, Bool.and_assoc]

theorem isM_general {pre : List Seg} {x : Exp} (h : FlagsOK pre x) : isM x = (x.cand && covered x pre) := by
  simp [isM, isMatching_of_flagsOK h]

/-! ### the invariant of a call in flight, every class -/

structure ElemOKI (c : Call) (pre : List Seg) (x : Exp) : Prop where
  cand : x.cand = true → x.isMatch = false ∧ alive c x = true ∧ compat x pre = true ∧ FlagsOK pre x
  mtch : x.isMatch = true → x.cand = false ∧ alive c x = true ∧ compat x pre = true ∧ FlagsOK pre x ∧ covered x pre = true ∧ x.iop = false
  dead : x.cand = false → x.isMatch = false → x.clean = true
  keep : wants c x = true → x.cand = true ∨ x.isMatch = true

/-- at most one expectation is the current match, and no earlier expectation that the call
    wants is of the same class -/
def MatchPosI (c : Call) (es : List Exp) : Prop :=
  (∀ y ∈ es, y.isMatch = false) ∨
  ∃ l1 x l2, es = l1 ++ x :: l2 ∧ x.isMatch = true ∧
    (∀ y ∈ l1, y.isMatch = false ∧ ¬(wants c y = true ∧ sameClass y x = true)) ∧ (∀ y ∈ l2, y.isMatch = false)

structure InvI (c : Call) (pre : List Seg) (cs : CS) : Prop where
  elems : ∀ x ∈ cs.es, ElemOKI c pre x
  pos : MatchPosI c cs.es
  /-- without a match, a candidate that is already complete ignores other parameters (it is only
      taken when the call is finished) -/
  noMF : anyMatch cs.es = false → ∀ x ∈ cs.es, x.cand = true → covered x pre = true → x.iop = true
  st : cs.call.state = (if anyMatch cs.es then CState.succeed else CState.inProgress)
  nofail : cs.fail = none

/-- `completeCallWhenMatchIsFound` establishes the invariant from a list without a match -/
theorem complete_invI {c : Call} {pre : List Seg} {cs : CS}
    (helems : ∀ x ∈ cs.es, ElemOKI c pre x) (hnom : ∀ x ∈ cs.es, x.isMatch = false)
    (hst : cs.call.state = .inProgress) (hf : cs.fail = none) : InvI c pre (complete cs) := by
  have hMF : ∀ x ∈ cs.es, isMF x = (x.cand && covered x pre && !x.iop) := by
    intro x hx
    cases hc : x.cand with
    | false => simp [isMF, hc]
    | true => rw [isMF_general ((helems x hx).cand hc).2.2.2, hc]
  have hfail : (complete cs).fail = cs.fail := (complete_meta cs).2.2.2
  cases hfind : cs.es.find? isMF with
  | some x =>
    have hes : (complete cs).es = modifyFirst isMF Exp.take cs.es := by
      unfold complete; simp only [hfind]
    have hstate : (complete cs).call.state = CState.succeed := by
      unfold complete; simp only [hfind]
    obtain ⟨l1, l2, hl, hpx, hl1, hmod⟩ := find_decomp hfind
    have hxmem : x ∈ cs.es := by rw [hl]; simp
    have hxok := helems x hxmem
    have hpx' := hpx
    rw [hMF x hxmem] at hpx'
    simp only [Bool.and_eq_true, Bool.not_eq_true'] at hpx'
    obtain ⟨⟨hxc, hxcov⟩, hxiop⟩ := hpx'
    rw [hmod] at hes
    have htake : ElemOKI c pre x.take := by
      obtain ⟨h1, h2, h3, h4⟩ := hxok.cand hxc
      refine ⟨by simp [Exp.take], fun _ => ⟨rfl, h2, h3, ?_, hxcov, hxiop⟩, by simp [Exp.take], fun _ => Or.inr rfl⟩
      exact ⟨h4.ins, h4.outs, h4.obj, h4.fin⟩
    refine ⟨?_, ?_, ?_, ?_, by rw [hfail]; exact hf⟩
    · rw [hes]
      intro y hy
      simp only [List.mem_append, List.mem_cons] at hy
      rcases hy with hy | rfl | hy
      · exact helems y (by rw [hl]; simp [hy])
      · exact htake
      · exact helems y (by rw [hl]; simp [hy])
    · rw [hes]
      refine Or.inr ⟨l1, x.take, l2, rfl, rfl, ?_, ?_⟩
      · intro y hy
        have hym : y ∈ cs.es := by rw [hl]; simp [hy]
        refine ⟨hnom y hym, ?_⟩
        intro ⟨hw, hs⟩
        have hyok := helems y hym
        have hyc : y.cand = true := by
          rcases hyok.keep hw with h | h
          · exact h
          · rw [hnom y hym] at h; cases h
        have hs' : sameClass y x = true := by
          rw [← sameClass_static (a := y) (a' := y) rfl (norm_take x)]; exact hs
        have hcy : covered y pre = true := by rw [covered_eq_of_sameClass pre hs']; exact hxcov
        have hiy : y.iop = false := by rw [sameClass_iop hs']; exact hxiop
        have h1 := hl1 y hy
        rw [hMF y hym, hyc, hcy, hiy] at h1
        cases h1
      · intro y hy
        exact hnom y (by rw [hl]; simp [hy])
    · intro h
      rw [hes, anyMatch_of_pos (by rfl : x.take.isMatch = true)] at h
      cases h
    · rw [hstate, hes, anyMatch_of_pos (by rfl : x.take.isMatch = true)]
      rfl
  | none =>
    have hes : (complete cs).es = cs.es := by
      unfold complete; simp only [hfind]; split <;> rfl
    have hstate : (complete cs).call.state = cs.call.state := by
      unfold complete; simp only [hfind]; split <;> rfl
    have hnone := find_none' hfind
    have hno : anyMatch cs.es = false := (anyMatch_false_iff _).mpr hnom
    refine ⟨by rw [hes]; exact helems, by rw [hes]; exact Or.inl hnom, ?_, by rw [hstate, hes, hno]; exact hst, by rw [hfail]; exact hf⟩
    rw [hes]
    intro _ x hx hc hcov
    have := hnone x hx
    rw [hMF x hx, hc, hcov] at this
    cases hi : x.iop with
    | true => rfl
    | false => rw [hi] at this; cases this

theorem elemOK_paramEI {c : Call} {pre : List Seg} {s : Seg} {pass : Exp → Exp} {x : Exp}
    (hpn : ∀ e, (pass e).norm = e.norm) (hpc : ∀ e, (pass e).cand = e.cand) (hpm : ∀ e, (pass e).isMatch = e.isMatch)
    (hpf : ∀ e, FlagsOK pre e → FlagsOK (pre ++ [s]) (pass e))
    (hnew : ∀ e, e.iop = false → wants c e = true → covered e pre = false)
    (hkw : ∀ e, wants c e = true → compatSeg e s = true)
    (h : ElemOKI c pre x) :
    ElemOKI c (pre ++ [s]) (paramE s pass x) ∧ (paramE s pass x).isMatch = false ∧ (paramE s pass x).norm = x.norm := by
  have hdead : ∀ (d : Exp), d.norm = x.norm → d.cand = false → d.isMatch = false → d.clean = true →
      (wants c x = true → False) → ElemOKI c (pre ++ [s]) d := by
    intro d hn hc hm hcl hw
    refine ⟨by simp [hc], by simp [hm], fun _ _ => hcl, ?_⟩
    intro hwd
    rw [wants_static hn] at hwd
    exact (hw hwd).elim
  cases hm : x.isMatch with
  | true =>
    obtain ⟨hc, _, _, _, hcov, hiop⟩ := h.mtch hm
    have e1 : paramE s pass x = { x.reset with isMatch := false } := by
      simp [paramE, discardE, hm, Exp.reset, hc]
    rw [e1]
    refine ⟨hdead _ (by rw [norm_isMatch, norm_reset]) (by simp [Exp.reset, hc]) rfl ?_ ?_, rfl, by rw [norm_isMatch, norm_reset]⟩
    · simp [Exp.clean, Exp.reset, List.all_map, Function.comp_def]
    · intro hw
      rw [hnew x hiop hw] at hcov; cases hcov
  | false =>
    cases hc : x.cand with
    | false =>
      have e1 : paramE s pass x = x := by
        simp [paramE, discardE, hm, isMF, hc]
      rw [e1]
      refine ⟨hdead x rfl hc hm (h.dead hc hm) ?_, hm, rfl⟩
      intro hw
      rcases h.keep hw with h1 | h1
      · rw [hc] at h1; cases h1
      · rw [hm] at h1; cases h1
    | true =>
      obtain ⟨_, hal, hcomp, hfl⟩ := h.cand hc
      have hmf : isMF x = (covered x pre && !x.iop) := by rw [isMF_general hfl, hc]; simp
      cases hdrop : (covered x pre && !x.iop) with
      | true =>
        simp only [Bool.and_eq_true, Bool.not_eq_true'] at hdrop
        have e1 : paramE s pass x = { x.reset with cand := false } := by
          simp [paramE, discardE, hm, hmf, hdrop.1, hdrop.2, Exp.reset]
        rw [e1]
        refine ⟨hdead _ (by rw [norm_cand, norm_reset]) rfl (by simp [Exp.reset, hm]) ?_ ?_, by simp [Exp.reset, hm], by rw [norm_cand, norm_reset]⟩
        · simp [Exp.clean, Exp.reset, List.all_map, Function.comp_def]
        · intro hw
          rw [hnew x hdrop.2 hw] at hdrop; cases hdrop.1
      | false =>
        have hd : discardE x = x := by simp [discardE, hm, hmf, hdrop]
        cases hk : compatSeg x s with
        | true =>
          have e1 : paramE s pass x = pass x := by
            simp [paramE, hd, hk, hc]
          rw [e1]
          refine ⟨⟨?_, by simp [hpm, hm], by simp [hpc, hc], fun _ => Or.inl (by rw [hpc, hc])⟩,
                  by rw [hpm, hm], hpn x⟩
          intro _
          refine ⟨by rw [hpm, hm], by rw [alive_static (hpn x)]; exact hal, ?_, hpf x hfl⟩
          rw [compat_snoc, compat_static pre (hpn x), compatSeg_static s (hpn x), hcomp, hk]; rfl
        | false =>
          have e1 : paramE s pass x = { x.reset with cand := false } := by
            simp [paramE, hd, hk, hc, Exp.reset]
          rw [e1]
          refine ⟨hdead _ (by rw [norm_cand, norm_reset]) rfl (by simp [Exp.reset, hm]) ?_ ?_, by simp [Exp.reset, hm], by rw [norm_cand, norm_reset]⟩
          · simp [Exp.clean, Exp.reset, List.all_map, Function.comp_def]
          · intro hw
            rw [hkw x hw] at hk; cases hk

theorem state_ne_failedI {c : Call} {pre : List Seg} {cs : CS} (h : InvI c pre cs) : cs.call.state ≠ .failed := by
  rw [h.st]; split <;> simp

/-- one parameter step (input or output) keeps the invariant, or fails because no expectation
    with capacity has the call's signature -/
theorem checkParam_invI {c : Call} {pre : List Seg} {s : Seg} {pass : Exp → Exp} {msg : String} {cs : CS}
    (hinv : InvI c pre cs)
    (hpn : ∀ e, (pass e).norm = e.norm) (hpc : ∀ e, (pass e).cand = e.cand) (hpm : ∀ e, (pass e).isMatch = e.isMatch)
    (hpf : ∀ e, FlagsOK pre e → FlagsOK (pre ++ [s]) (pass e))
    (hnew : ∀ e, e.iop = false → wants c e = true → covered e pre = false)
    (hkw : ∀ e, wants c e = true → compatSeg e s = true) :
    ((checkParam cs (fun e => compatSeg e s) pass msg).fail = none → InvI c (pre ++ [s]) (checkParam cs (fun e => compatSeg e s) pass msg)) ∧
    ((checkParam cs (fun e => compatSeg e s) pass msg).fail ≠ none → cs.es.any (wants c) = false) ∧
    (checkParam cs (fun e => compatSeg e s) pass msg).es.map Exp.norm = cs.es.map Exp.norm ∧
    (checkParam cs (fun e => compatSeg e s) pass msg).call.checked = cs.call.checked ∧
    (checkParam cs (fun e => compatSeg e s) pass msg).call.order = cs.call.order := by
  have hE := fun x (hx : x ∈ cs.es) => elemOK_paramEI hpn hpc hpm hpf hnew hkw (hinv.elems x hx)
  have hmap : ((cs.es.map discardE).map (fun e => if e.cand && !compatSeg e s then ({ e.reset with cand := false } : Exp) else e)).map
        (fun e => if e.cand then pass e else e) = cs.es.map (paramE s pass) := by
    simp only [List.map_map]; rfl
  have hcand : anyCand ((cs.es.map discardE).map (fun e => if e.cand && !compatSeg e s then ({ e.reset with cand := false } : Exp) else e))
      = anyCand (cs.es.map (paramE s pass)) := by
    simp only [anyCand, List.map_map, List.any_map, Function.comp_def]
    congr 1
    funext x
    rw [paramE_cand s pass hpc x]
  have hnorm : (cs.es.map (paramE s pass)).map Exp.norm = cs.es.map Exp.norm := by
    rw [List.map_map]
    apply List.map_congr_left
    intro x hx
    exact (hE x hx).2.2
  unfold checkParam
  rw [if_neg (state_ne_failedI hinv)]
  simp only
  rw [hcand]
  cases hany : anyCand (cs.es.map (paramE s pass)) with
  | true =>
    simp only [if_true, hmap]
    have hI : InvI c (pre ++ [s]) (complete { es := cs.es.map (paramE s pass), call := { cs.call with state := .inProgress }, fail := cs.fail }) := by
      apply complete_invI
      · intro y hy
        simp only [List.mem_map] at hy
        obtain ⟨x, hx, rfl⟩ := hy
        exact (hE x hx).1
      · intro y hy
        simp only [List.mem_map] at hy
        obtain ⟨x, hx, rfl⟩ := hy
        exact (hE x hx).2.1
      · rfl
      · exact hinv.nofail
    have hm := complete_meta { es := cs.es.map (paramE s pass), call := { cs.call with state := .inProgress }, fail := cs.fail }
    refine ⟨fun _ => hI, fun h => ?_, ?_, hm.1, hm.2.1⟩
    · exact absurd hI.nofail h
    · rw [hm.2.2.1]; exact hnorm
  | false =>
    simp only [Bool.false_eq_true, if_false]
    have hff := failCall_fail (cs := { es := (cs.es.map discardE).map (fun e => if e.cand && !compatSeg e s then ({ e.reset with cand := false } : Exp) else e), call := { cs.call with state := .inProgress }, fail := cs.fail }) (msg := msg) (by simp) hinv.nofail
    have hm := failCall_meta { es := (cs.es.map discardE).map (fun e => if e.cand && !compatSeg e s then ({ e.reset with cand := false } : Exp) else e), call := { cs.call with state := .inProgress }, fail := cs.fail } msg
    refine ⟨fun h => ?_, fun _ => ?_, ?_, hm.1, hm.2.1⟩
    · rw [hff] at h; cases h
    · apply Bool.eq_false_iff.mpr
      intro hw
      simp only [List.any_eq_true] at hw
      obtain ⟨x, hx, hwx⟩ := hw
      obtain ⟨hok, hnm, hn⟩ := hE x hx
      have hwx' : wants c (paramE s pass x) = true := by rw [wants_static hn]; exact hwx
      have hc : (paramE s pass x).cand = false := by
        have := (anyCand_false_iff _).mp hany (paramE s pass x) (List.mem_map.mpr ⟨x, hx, rfl⟩)
        exact this
      rcases hok.keep hwx' with h1 | h1
      · rw [hc] at h1; cases h1
      · rw [hnm] at h1; cases h1
    · rw [hm.2.2]
      show (List.map _ (List.map discardE cs.es)).map Exp.norm = _
      rw [map_map_norm _ (fun e => by split; rw [norm_cand, norm_reset]; rfl), map_map_norm _ norm_discardE]

theorem matchPos_mapI {c : Call} {es : List Exp} (h : Exp → Exp) (hm : ∀ x, (h x).isMatch = x.isMatch)
    (hn : ∀ x, (h x).norm = x.norm) (hp : MatchPosI c es) : MatchPosI c (es.map h) := by
  rcases hp with hp | ⟨l1, x, l2, rfl, hx, h1, h2⟩
  · left
    intro y hy
    simp only [List.mem_map] at hy
    obtain ⟨x, hx, rfl⟩ := hy
    rw [hm]; exact hp x hx
  · right
    refine ⟨l1.map h, h x, l2.map h, by simp, by rw [hm]; exact hx, ?_, ?_⟩
    · intro y hy
      simp only [List.mem_map] at hy
      obtain ⟨z, hz, rfl⟩ := hy
      refine ⟨by rw [hm]; exact (h1 z hz).1, ?_⟩
      rw [wants_static (hn z), sameClass_static (hn z) (hn x)]
      exact (h1 z hz).2
    · intro y hy
      simp only [List.mem_map] at hy
      obtain ⟨z, hz, rfl⟩ := hy
      rw [hm]; exact h2 z hz

theorem elemOK_objEI {c : Call} {pre : List Seg} {o : Nat} {x : Exp}
    (hobj : objsOf pre = []) (hkw : ∀ e, wants c e = true → e.relatesToObject o = true)
    (h : ElemOKI c pre x) : ElemOKI c (pre ++ [.obj o]) (objE o x) := by
  cases hm : x.isMatch with
  | true =>
    obtain ⟨hc, hal, hcomp, hfl, hcov, hiop⟩ := h.mtch hm
    have e1 : objE o x = x := by simp [objE, hc]
    rw [e1]
    have hnone : x.obj.isNone = true := by
      simp only [covered, Bool.and_eq_true, hobj] at hcov
      simpa using hcov.2
    have hrel : x.relatesToObject o = true := by
      cases ho : x.obj with
      | none => simp [Exp.relatesToObject, ho]
      | some v => rw [ho] at hnone; cases hnone
    have hfl' : FlagsOK (pre ++ [.obj o]) x := by
      refine ⟨?_, ?_, ?_, hfl.fin⟩
      · intro p hp; have := hfl.ins p hp; simpa [inNames_append, inNames] using this
      · intro p hp; have := hfl.outs p hp; simpa [outNames_append, outNames] using this
      · rw [hfl.obj, hnone]; simp
    refine ⟨by simp [hc], fun _ => ⟨hc, hal, ?_, hfl', covered_snoc_obj x pre o hcov, hiop⟩, by simp [hm], fun _ => Or.inr hm⟩
    rw [compat_snoc, hcomp]; simpa [compatSeg] using hrel
  | false =>
    cases hc : x.cand with
    | false =>
      have e1 : objE o x = x := by simp [objE, hc]
      rw [e1]
      refine ⟨by simp [hc], by simp [hm], fun _ _ => h.dead hc hm, ?_⟩
      intro hw
      rcases h.keep hw with h1 | h1
      · rw [hc] at h1; cases h1
      · rw [hm] at h1; cases h1
    | true =>
      obtain ⟨_, hal, hcomp, hfl⟩ := h.cand hc
      cases hr : x.relatesToObject o with
      | true =>
        have e1 : objE o x = { x with passedObj := true } := by simp [objE, hc, hr]
        rw [e1]
        refine ⟨fun _ => ⟨hm, hal, ?_, flagsOK_passObj o hfl⟩, by simp [hm], by simp [hc], fun _ => Or.inl hc⟩
        show compat x (pre ++ [.obj o]) = true
        rw [compat_snoc, hcomp]; simpa [compatSeg] using hr
      | false =>
        have e1 : objE o x = { x.reset with cand := false } := by simp [objE, hc, hr, Exp.reset]
        rw [e1]
        refine ⟨by simp, by simp [Exp.reset, hm], fun _ _ => by simp [Exp.clean, Exp.reset, List.all_map, Function.comp_def], ?_⟩
        intro hw
        have : wants c x = true := by
          rw [← wants_static (a := ({ x.reset with cand := false } : Exp)) (by rw [norm_cand, norm_reset])]; exact hw
        rw [hkw x this] at hr; cases hr

/-- `onObject` keeps the invariant, or fails because no expectation with capacity has the
    call's signature -/
theorem onObject_invI {c : Call} {pre : List Seg} {o : Nat} {cs : CS}
    (hinv : InvI c pre cs) (hobj : objsOf pre = [])
    (hkw : ∀ e, wants c e = true → e.relatesToObject o = true) :
    ((onObject cs o).fail = none → InvI c (pre ++ [.obj o]) (onObject cs o)) ∧
    ((onObject cs o).fail ≠ none → cs.es.any (wants c) = false) ∧
    (onObject cs o).es.map Exp.norm = cs.es.map Exp.norm ∧
    (onObject cs o).call.checked = cs.call.checked ∧ (onObject cs o).call.order = cs.call.order := by
  have hE := fun x (hx : x ∈ cs.es) => elemOK_objEI hobj hkw (hinv.elems x hx)
  have hmap : (cs.es.map (fun e => if e.cand && !e.relatesToObject o then ({ e.reset with cand := false } : Exp) else e)).map
        (fun e => if e.cand then ({ e with passedObj := true } : Exp) else e) = cs.es.map (objE o) := by
    simp only [List.map_map]; rfl
  have hmatch1 : anyMatch (cs.es.map (fun e => if e.cand && !e.relatesToObject o then ({ e.reset with cand := false } : Exp) else e))
      = anyMatch cs.es := by
    simp only [anyMatch, List.any_map, Function.comp_def]
    congr 1; funext x
    split <;> simp [Exp.reset]
  have hmatch2 : anyMatch (cs.es.map (objE o)) = anyMatch cs.es := by
    simp only [anyMatch, List.any_map, Function.comp_def, objE_isMatch]
  have hcand1 : anyCand (cs.es.map (fun e => if e.cand && !e.relatesToObject o then ({ e.reset with cand := false } : Exp) else e))
      = anyCand (cs.es.map (objE o)) := by
    simp only [anyCand, List.any_map, Function.comp_def, objE_cand]
    congr 1; funext x
    cases hc : x.cand <;> cases hr : x.relatesToObject o <;> simp [hc]
  have hnorm : (cs.es.map (objE o)).map Exp.norm = cs.es.map Exp.norm := map_map_norm _ (objE_norm o) _
  have helems : ∀ y ∈ cs.es.map (objE o), ElemOKI c (pre ++ [.obj o]) y := by
    intro y hy
    simp only [List.mem_map] at hy
    obtain ⟨x, hx, rfl⟩ := hy
    exact hE x hx
  unfold onObject
  rw [if_neg (state_ne_failedI hinv)]
  simp only
  rw [hmatch1, hcand1, hmap, hmatch2]
  cases hm : anyMatch cs.es with
  | true =>
    simp only [Bool.not_true, Bool.false_and, Bool.false_eq_true, if_false, if_true]
    refine ⟨fun _ => ⟨helems, matchPos_mapI (objE o) (objE_isMatch o) (objE_norm o) hinv.pos, ?_, ?_, hinv.nofail⟩,
            fun h => absurd hinv.nofail h, hnorm, by first | rfl | trivial, by first | rfl | trivial⟩
    · intro h; rw [hmatch2, hm] at h; cases h
    · show cs.call.state = _
      rw [hmatch2, hm, hinv.st, hm]
  | false =>
    have hst : cs.call.state = .inProgress := by rw [hinv.st, hm]; rfl
    cases hany : anyCand (cs.es.map (objE o)) with
    | false =>
      simp only [Bool.not_false, Bool.and_self, if_true]
      have hs : cs.call.state ≠ .failed := state_ne_failedI hinv
      have hff := failCall_fail (cs := { cs with es := cs.es.map (fun e => if e.cand && !e.relatesToObject o then ({ e.reset with cand := false } : Exp) else e) })
        (msg := msgUnexpectedObject cs.call.name) hs hinv.nofail
      have hmeta := failCall_meta { cs with es := cs.es.map (fun e => if e.cand && !e.relatesToObject o then ({ e.reset with cand := false } : Exp) else e) }
        (msgUnexpectedObject cs.call.name)
      refine ⟨fun h => ?_, fun _ => ?_, ?_, hmeta.1, hmeta.2.1⟩
      · rw [hff] at h; cases h
      · apply Bool.eq_false_iff.mpr
        intro hw
        simp only [List.any_eq_true] at hw
        obtain ⟨x, hx, hwx⟩ := hw
        have hwx' : wants c (objE o x) = true := by rw [wants_static (objE_norm o x)]; exact hwx
        have hc : (objE o x).cand = false :=
          (anyCand_false_iff _).mp hany _ (List.mem_map.mpr ⟨x, hx, rfl⟩)
        have hmx : (objE o x).isMatch = false := by
          rw [objE_isMatch]; exact (anyMatch_false_iff _).mp hm x hx
        rcases (hE x hx).keep hwx' with h1 | h1
        · rw [hc] at h1; cases h1
        · rw [hmx] at h1; cases h1
      · rw [hmeta.2.2]
        exact map_map_norm _ (fun e => by split; rw [norm_cand, norm_reset]; rfl) _
    | true =>
      simp only [Bool.not_false, Bool.not_true, Bool.and_false, Bool.false_eq_true, if_false]
      have hI : InvI c (pre ++ [.obj o]) (complete { cs with es := cs.es.map (objE o) }) := by
        apply complete_invI helems
        · intro y hy
          simp only [List.mem_map] at hy
          obtain ⟨x, hx, rfl⟩ := hy
          rw [objE_isMatch]; exact (anyMatch_false_iff _).mp hm x hx
        · exact hst
        · exact hinv.nofail
      have hmeta := complete_meta { cs with es := cs.es.map (objE o) }
      refine ⟨fun _ => hI, fun h => absurd hI.nofail h, ?_, hmeta.1, hmeta.2.1⟩
      rw [hmeta.2.2.1]; exact hnorm

theorem withName_invI {c : Call} {es : List Exp} (k : Nat) (hclean : Clean es) :
    ((withName { es := beginCall es, call := newCall k, fail := none } c.name).fail = none →
        InvI c [] (withName { es := beginCall es, call := newCall k, fail := none } c.name)) ∧
    ((withName { es := beginCall es, call := newCall k, fail := none } c.name).fail ≠ none → es.any (wants c) = false) ∧
    (withName { es := beginCall es, call := newCall k, fail := none } c.name).es.map Exp.norm = es.map Exp.norm ∧
    (withName { es := beginCall es, call := newCall k, fail := none } c.name).call.checked = false ∧
    (withName { es := beginCall es, call := newCall k, fail := none } c.name).call.order = k := by
  have hmap : (beginCall es).map (fun e => ({ e with cand := e.cand && e.name == c.name } : Exp)) = es.map (initE c.name) := by
    simp only [beginCall, List.map_map]; rfl
  have hn : ∀ e, (initE c.name e).norm = e.norm := fun e => by simp [initE, Exp.norm, Exp.reset]
  have hnorm : (es.map (initE c.name)).map Exp.norm = es.map Exp.norm := map_map_norm _ hn _
  have helems : ∀ y ∈ es.map (initE c.name), ElemOKI c [] y := by
    intro y hy
    simp only [List.mem_map] at hy
    obtain ⟨e, he, rfl⟩ := hy
    have hcl : (initE c.name e).clean = true := by
      have := hclean e he
      simpa [initE, Exp.clean] using this
    refine ⟨?_, by simp [initE], fun _ _ => hcl, ?_⟩
    · intro hc
      refine ⟨rfl, ?_, rfl, flagsOK_nil_of_clean hcl⟩
      exact hc
    · intro hw
      left
      simp only [wants, fits, Bool.and_eq_true] at hw
      simp only [initE, Bool.and_eq_true]
      exact ⟨hw.1, hw.2.1.1⟩
  have hnom : ∀ y ∈ es.map (initE c.name), y.isMatch = false := by
    intro y hy
    simp only [List.mem_map] at hy
    obtain ⟨e, _, rfl⟩ := hy
    rfl
  unfold withName
  simp only [hmap]
  cases hany : anyCand (es.map (initE c.name)) with
  | true =>
    simp only [if_true]
    have hI : InvI c [] (complete { es := es.map (initE c.name), call := { newCall k with name := c.name, state := .inProgress }, fail := none }) :=
      complete_invI helems hnom rfl rfl
    have hmeta := complete_meta { es := es.map (initE c.name), call := { newCall k with name := c.name, state := .inProgress }, fail := none }
    refine ⟨fun _ => hI, fun h => absurd hI.nofail h, ?_, hmeta.1, hmeta.2.1⟩
    rw [hmeta.2.2.1]; exact hnorm
  | false =>
    simp only [Bool.false_eq_true, if_false]
    have hff := failCall_fail (cs := { es := es.map (initE c.name), call := { newCall k with name := c.name, state := .inProgress }, fail := none })
      (msg := msgUnexpectedCall (beginCall es) c.name) (by simp) rfl
    have hmeta := failCall_meta { es := es.map (initE c.name), call := { newCall k with name := c.name, state := .inProgress }, fail := none }
      (msgUnexpectedCall (beginCall es) c.name)
    refine ⟨fun h => ?_, fun _ => ?_, ?_, hmeta.1, hmeta.2.1⟩
    · rw [hff] at h; cases h
    · apply Bool.eq_false_iff.mpr
      intro hw
      simp only [List.any_eq_true] at hw
      obtain ⟨x, hx, hwx⟩ := hw
      have hwx' : wants c (initE c.name x) = true := by rw [wants_static (hn x)]; exact hwx
      have hc : (initE c.name x).cand = false :=
        (anyCand_false_iff _).mp hany _ (List.mem_map.mpr ⟨x, hx, rfl⟩)
      rcases (helems _ (List.mem_map.mpr ⟨x, hx, rfl⟩)).keep hwx' with h1 | h1
      · rw [hc] at h1; cases h1
      · cases h1
    · rw [hmeta.2.2]; exact hnorm

theorem inv_congrI {c : Call} {pre : List Seg} {cs cs' : CS} (h1 : cs'.es = cs.es) (h2 : cs'.call.state = cs.call.state)
    (h3 : cs'.fail = cs.fail) (h : InvI c pre cs) : InvI c pre cs' :=
  ⟨by rw [h1]; exact h.elems, by rw [h1]; exact h.pos, by rw [h1]; exact h.noMF, by rw [h1, h2]; exact h.st, by rw [h3]; exact h.nofail⟩

/-- all the steps of a call statement -/
theorem segsFrom_invI {c : Call} (buf : List UInt8) (hwf : WFCall c) :
    ∀ (rest pre : List Seg) (cs : CS), c.segs = pre ++ rest → InvI c pre cs →
      ((segsFrom cs buf rest).fail = none → InvI c c.segs (segsFrom cs buf rest)) ∧
      ((segsFrom cs buf rest).fail ≠ none → cs.es.any (wants c) = false) ∧
      (segsFrom cs buf rest).es.map Exp.norm = cs.es.map Exp.norm ∧
      (segsFrom cs buf rest).call.checked = cs.call.checked ∧ (segsFrom cs buf rest).call.order = cs.call.order
  | [], pre, cs, hsegs, hinv => by
    have : c.segs = pre := by simpa using hsegs
    rw [this]
    exact ⟨fun _ => hinv, fun h => absurd hinv.nofail h, rfl, rfl, rfl⟩
  | s :: rest, pre, cs, hsegs, hinv => by
    have hsegs' : c.segs = (pre ++ [s]) ++ rest := by simp [hsegs]
    have hstep : ((applySeg cs buf s).fail = none → InvI c (pre ++ [s]) (applySeg cs buf s)) ∧
        ((applySeg cs buf s).fail ≠ none → cs.es.any (wants c) = false) ∧
        (applySeg cs buf s).es.map Exp.norm = cs.es.map Exp.norm ∧
        (applySeg cs buf s).call.checked = cs.call.checked ∧ (applySeg cs buf s).call.order = cs.call.order := by
      cases s with
      | inp n v =>
        exact checkParam_invI (s := .inp n v) hinv (fun e => norm_passInput e n) (fun _ => rfl) (fun _ => rfl)
          (fun e he => flagsOK_passInput n v he) (not_covered_inp hsegs hwf)
          (fun e hw => compatSeg_of_wants hw (by rw [hsegs]; simp))
      | out n =>
        have hinv' : InvI c pre { cs with call := { cs.call with bufs := cs.call.bufs ++ [(n, buf)] } } :=
          inv_congrI (cs := cs) rfl rfl rfl hinv
        exact checkParam_invI (s := .out n) hinv' (fun e => norm_passOutput e n) (fun _ => rfl) (fun _ => rfl)
          (fun e he => flagsOK_passOutput n he) (not_covered_out hsegs hwf)
          (fun e hw => compatSeg_of_wants hw (by rw [hsegs]; simp))
      | obj o =>
        exact onObject_invI hinv (objs_pre_nil hsegs hwf)
          (fun e hw => compatSeg_of_wants (s := .obj o) hw (by rw [hsegs]; simp))
    simp only [segsFrom, hinv.nofail, Option.isSome_none, Bool.false_eq_true, if_false]
    obtain ⟨h1, h2, h3, h4, h5⟩ := hstep
    cases hf : (applySeg cs buf s).fail with
    | none =>
      obtain ⟨i1, i2, i3, i4, i5⟩ := segsFrom_invI buf hwf rest (pre ++ [s]) (applySeg cs buf s) hsegs' (h1 hf)
      refine ⟨i1, fun h => ?_, by rw [i3, h3], by rw [i4, h4], by rw [i5, h5]⟩
      rw [← any_wants_congr c h3]; exact i2 h
    | some m =>
      have hne : (applySeg cs buf s).fail ≠ none := by rw [hf]; simp
      rw [segsFrom_failed _ _ _ hne]
      exact ⟨fun h => absurd h hne, fun _ => h2 hne, h3, h4, h5⟩

/-- what finishing does to one expectation when the match is only taken now -/
def finishLateE (k : Nat) (e : Exp) : Exp := ({ e.take with finalized := true }).callWasMade k

theorem norm_finishLateE (k : Nat) (e : Exp) : (finishLateE k e).norm = e.norm.bump k := by
  unfold finishLateE
  rw [norm_callWasMade, norm_finalized, norm_take]

/-- finishing a call whose steps all went through, every class: it succeeds exactly when some
    expectation with capacity has the call's signature, and uses up the first such -/
theorem callCheck_specI {c : Call} {cs : CS} {k : Nat}
    (hinv : InvI c c.segs cs) (hchk : cs.call.checked = false) (hord : cs.call.order = k)
    (hun : ∀ a ∈ cs.es, ∀ b ∈ cs.es, a.name = b.name → sameClass a b = true ∨ conflict a b = true)
    (hwfe : ∀ a ∈ cs.es, WFExp a) :
    (cs.es.any (wants c) = true →
      (callCheck cs).fail = none ∧
      (callCheck cs).es.map Exp.norm = modifyFirst (wants c) (fun e => e.bump k) (cs.es.map Exp.norm) ∧
      ∃ x, (cs.es.map Exp.norm).find? (wants c) = some x ∧ returnValueOf (callCheck cs).es = x.ret) ∧
    (cs.es.any (wants c) = false → (callCheck cs).fail ≠ none) := by
  rcases hinv.pos with hnom | ⟨l1, x, l2, hl, hx, h1, h2⟩
  · -- no match yet: the first complete candidate (it ignores other parameters) is taken now
    have hno : anyMatch cs.es = false := (anyMatch_false_iff _).mpr hnom
    have hst : cs.call.state = .inProgress := by rw [hinv.st, hno]; rfl
    have hMF : ∀ y ∈ cs.es, isMF y = false := by
      intro y hy
      cases hc : y.cand with
      | false => simp [isMF, hc]
      | true =>
        rw [isMF_general ((hinv.elems y hy).cand hc).2.2.2, hc]
        cases hcov : covered y c.segs with
        | false => rfl
        | true => rw [hinv.noMF hno y hy hc hcov]; rfl
    have hanyMF : cs.es.any isMF = false := any_false_of_forall (fun y hy h => by rw [hMF y hy] at h; cases h)
    have hMw : ∀ y ∈ cs.es, isM y = wants c y := by
      intro y hy
      cases hc : y.cand with
      | false =>
        have : wants c y = false := by
          apply Bool.eq_false_iff.mpr
          intro hw
          rcases (hinv.elems y hy).keep hw with h | h
          · rw [hc] at h; cases h
          · rw [hnom y hy] at h; cases h
        simp [isM, hc, this]
      | true =>
        obtain ⟨_, hal, hco, hfl⟩ := (hinv.elems y hy).cand hc
        rw [isM_general hfl, hc]
        simp only [alive, Bool.and_eq_true, beq_iff_eq] at hal
        simp [wants, fits, hal.1, hal.2, hco]
    have hfindeq : cs.es.find? isM = cs.es.find? (wants c) := find_congr' hMw
    have hcc : callCheck cs = finishInProgress { cs with call := { cs.call with checked := true } } := by
      unfold callCheck
      rw [if_neg (by rw [hchk]; simp)]
      simp only [hst]
    rw [hcc]
    unfold finishInProgress
    simp only [hanyMF, Bool.false_eq_true, if_false, hfindeq, hord]
    cases hfw : cs.es.find? (wants c) with
    | none =>
      have hnw : cs.es.any (wants c) = false :=
        any_false_of_forall (fun y hy h => by rw [find_none' hfw y hy] at h; cases h)
      refine ⟨fun h => (by rw [hnw] at h; cases h), fun _ => ?_⟩
      simp only
      split <;> exact failCall_fail_ne _ _ (by simp [hst]) hinv.nofail
    | some e =>
      obtain ⟨l1, l2, hl, hew, hl1, _⟩ := find_decomp hfw
      have hl1M : ∀ y ∈ l1, isM y = false := fun y hy => by
        rw [hMw y (by rw [hl]; simp [hy])]; exact hl1 y hy
      have heM : isM e = true := by rw [hMw e (by rw [hl]; simp)]; exact hew
      have hany : cs.es.any (wants c) = true := any_of_exists ⟨e, by rw [hl]; simp, hew⟩
      refine ⟨fun _ => ⟨hinv.nofail, ?_, ?_⟩, fun h => (by rw [hany] at h; cases h)⟩
      · simp only
        rw [hl, modifyFirst_append_of l1 hl1M heM]
        simp only [resetCands, List.map_append, List.map_cons, List.map_map]
        have hl1n : ∀ y ∈ l1.map Exp.norm, wants c y = false := by
          intro y hy
          simp only [List.mem_map] at hy
          obtain ⟨z, hz, rfl⟩ := hy
          rw [wants_norm]; exact hl1 z hz
        rw [modifyFirst_append_of _ hl1n (by rw [wants_norm]; exact hew)]
        have hr : ∀ (z : Exp), (if z.cand then z.reset else z).norm = z.norm := by
          intro z; split
          · exact norm_reset z
          · rfl
        congr 1
        · apply List.map_congr_left; intro z _; exact hr z
        · congr 1
          · show (if (finishLateE k e).cand then (finishLateE k e).reset else finishLateE k e).norm = _
            rw [hr, norm_finishLateE]
          · apply List.map_congr_left; intro z _; exact hr z
      · refine ⟨e.norm, ?_, ?_⟩
        · rw [hl]
          simp only [List.map_append, List.map_cons]
          have hl1n : ∀ y ∈ l1.map Exp.norm, wants c y = false := by
            intro y hy
            simp only [List.mem_map] at hy
            obtain ⟨z, hz, rfl⟩ := hy
            rw [wants_norm]; exact hl1 z hz
          exact find_append_of _ hl1n (by rw [wants_norm]; exact hew)
        · simp only
          rw [hl, modifyFirst_append_of l1 hl1M heM]
          simp only [resetCands, List.map_append, List.map_cons, returnValueOf]
          have hp1 : ∀ y ∈ l1.map (fun z => if z.cand then z.reset else z), (fun z : Exp => z.isMatch) y = false := by
            intro y hy
            simp only [List.mem_map] at hy
            obtain ⟨z, hz, rfl⟩ := hy
            have := hnom z (by rw [hl]; simp [hz])
            split
            · simpa [Exp.reset] using this
            · exact this
          have hfe : (if (finishLateE k e).cand then (finishLateE k e).reset else finishLateE k e) = finishLateE k e := by
            have : (finishLateE k e).cand = false := by simp [finishLateE, Exp.callWasMade, Exp.reset, Exp.take]
            simp [this]
          have hpx : (fun z : Exp => z.isMatch) (if (finishLateE k e).cand then (finishLateE k e).reset else finishLateE k e) = true := by
            rw [hfe]; simp [finishLateE, Exp.callWasMade, Exp.reset, Exp.take]
          show (match List.find? (fun z => z.isMatch) (l1.map (fun z => if z.cand then z.reset else z) ++
              (if (finishLateE k e).cand then (finishLateE k e).reset else finishLateE k e) :: l2.map (fun z => if z.cand then z.reset else z)) with
            | some e => e.ret | none => some (Val.int 0)) = e.norm.ret
          rw [find_append_of _ hp1 hpx, hfe]
          simp [finishLateE, Exp.callWasMade, Exp.reset, Exp.take, Exp.norm]
  · -- a match taken during the steps: it is the first expectation the call wants
    have hany : anyMatch cs.es = true := by rw [hl]; exact anyMatch_of_pos hx
    have hst : cs.call.state = .succeed := by rw [hinv.st, hany]; rfl
    have hxmem : x ∈ cs.es := by rw [hl]; simp
    obtain ⟨hxc, hxal, hxcomp, hxfl, hxcov, _⟩ := (hinv.elems x hxmem).mtch hx
    have hxw : wants c x = true := by
      simp only [alive, Bool.and_eq_true] at hxal
      simp [wants, fits, hxal.1, hxal.2, hxcomp, hxcov]
    have hl1w : ∀ y ∈ l1, wants c y = false := by
      intro y hy
      apply Bool.eq_false_iff.mpr
      intro hwy
      have hym : y ∈ cs.es := by rw [hl]; simp [hy]
      have hfy : fits y c = true := by simp only [wants, Bool.and_eq_true] at hwy; exact hwy.2
      have hfx : fits x c = true := by simp only [wants, Bool.and_eq_true] at hxw; exact hxw.2
      have hname : y.name = x.name := by
        simp only [fits, Bool.and_eq_true, beq_iff_eq] at hfy hfx
        rw [hfy.1.1, hfx.1.1]
      rcases hun y hym x hxmem hname with hs | hcf
      · exact (h1 y hy).2 ⟨hwy, hs⟩
      · rw [fits_no_conflict (hwfe y hym) (hwfe x hxmem) hfy hfx] at hcf; cases hcf
    have hes : (callCheck cs).es = cs.es.map (finishE k) := by
      unfold callCheck
      rw [if_neg (by rw [hchk]; simp)]
      simp only [hst, hord, resetCands, List.map_map]
      rfl
    have hfail : (callCheck cs).fail = none := by
      unfold callCheck
      rw [if_neg (by rw [hchk]; simp)]
      simp only [hst]
      exact hinv.nofail
    have hfx : finishE k x = x.callWasMade k := finishE_match k hx hxc
    have hfy : ∀ y, y.isMatch = false → (finishE k y).norm = y.norm ∧ (finishE k y).isMatch = false := by
      intro y hy
      rw [finishE_nomatch k hy]
      split
      · exact ⟨norm_reset y, by simp [Exp.reset, hy]⟩
      · exact ⟨rfl, hy⟩
    have hmap1 : (l1.map (finishE k)).map Exp.norm = l1.map Exp.norm := by
      rw [List.map_map]; apply List.map_congr_left
      intro y hy; exact (hfy y (h1 y hy).1).1
    have hmap2 : (l2.map (finishE k)).map Exp.norm = l2.map Exp.norm := by
      rw [List.map_map]; apply List.map_congr_left
      intro y hy; exact (hfy y (h2 y hy)).1
    have hl1n : ∀ y ∈ l1.map Exp.norm, wants c y = false := by
      intro y hy
      simp only [List.mem_map] at hy
      obtain ⟨z, hz, rfl⟩ := hy
      rw [wants_norm]; exact hl1w z hz
    refine ⟨fun _ => ⟨hfail, ?_, ?_⟩, fun h => ?_⟩
    · rw [hes, hl]
      simp only [List.map_append, List.map_cons, hmap1, hmap2, hfx, norm_callWasMade]
      rw [modifyFirst_append_of _ hl1n (by rw [wants_norm]; exact hxw)]
    · refine ⟨x.norm, ?_, ?_⟩
      · rw [hl]
        simp only [List.map_append, List.map_cons]
        exact find_append_of _ hl1n (by rw [wants_norm]; exact hxw)
      · rw [hes, hl]
        simp only [List.map_append, List.map_cons, returnValueOf]
        have hp1 : ∀ y ∈ l1.map (finishE k), (fun e : Exp => e.isMatch) y = false := by
          intro y hy
          simp only [List.mem_map] at hy
          obtain ⟨z, hz, rfl⟩ := hy
          exact (hfy z (h1 z hz).1).2
        have hpx : (fun e : Exp => e.isMatch) (finishE k x) = true := by
          rw [hfx]; simp [Exp.callWasMade, Exp.reset, hx]
        rw [find_append_of _ hp1 hpx]
        rw [hfx]
        simp [Exp.callWasMade, Exp.reset, Exp.norm]
    · have : cs.es.any (wants c) = true := by
        simp only [List.any_eq_true]; exact ⟨x, hxmem, hxw⟩
      rw [this] at h; cases h

theorem unambiguous_transferI {l1 l2 : List Exp} (h : l1.map Exp.norm = l2.map Exp.norm) (hun : UnambiguousI l2) :
    ∀ a ∈ l1, ∀ b ∈ l1, a.name = b.name → sameClass a b = true ∨ conflict a b = true := by
  intro a ha b hb hn
  obtain ⟨a0, ha0, hna⟩ := mem_of_map_norm_eq h ha
  obtain ⟨b0, hb0, hnb⟩ := mem_of_map_norm_eq h hb
  have hn0 : a0.name = b0.name := by
    have e1 : a0.name = a.name := static_eq (fun e => e.name) (fun _ => rfl) hna
    have e2 : b0.name = b.name := static_eq (fun e => e.name) (fun _ => rfl) hnb
    rw [e1, e2, hn]
  rw [sameClass_static hna.symm hnb.symm, conflict_static hna.symm hnb.symm]
  exact hun a0 ha0 b0 hb0 hn0

/-- **One actual call, from clean flags** (plain, unambiguous expectations; well-formed call):
    the call is fulfilled iff some expectation with capacity has its signature; it then uses up
    the first such in declaration order, returns its value, and leaves all matching flags clean. -/
theorem callFull_specI {es : List Exp} {c : Call} (k : Nat) (buf : List UInt8)
    (hclean : Clean es) (hun : UnambiguousI es) (hwfe : ∀ e ∈ es, WFExp e) (hwf : WFCall c) :
    (es.any (wants c) = true →
      (callFull es k c.name c.segs buf).fail = none ∧
      (callFull es k c.name c.segs buf).es.map Exp.norm = modifyFirst (wants c) (fun e => e.bump k) (es.map Exp.norm) ∧
      ∃ x, (es.map Exp.norm).find? (wants c) = some x ∧ returnValueOf (callFull es k c.name c.segs buf).es = x.ret) ∧
    (es.any (wants c) = false → (callFull es k c.name c.segs buf).fail ≠ none) := by
  obtain ⟨a1, a2, a3, a4, a5⟩ := withName_invI (c := c) k hclean
  unfold callFull
  cases hwfail : (withName { es := beginCall es, call := newCall k, fail := none } c.name).fail with
  | some m =>
    have hne : (withName { es := beginCall es, call := newCall k, fail := none } c.name).fail ≠ none := by rw [hwfail]; simp
    have hnw := a2 hne
    rw [segsFrom_failed _ _ _ hne]
    refine ⟨fun h => (by rw [hnw] at h; cases h), fun _ => ?_⟩
    rw [callCheck_fail_some _ m hwfail]; simp
  | none =>
    have hinv0 := a1 hwfail
    obtain ⟨b1, b2, b3, b4, b5⟩ := segsFrom_invI buf hwf c.segs [] _ (by simp) hinv0
    have hnorm : (segsFrom (withName { es := beginCall es, call := newCall k, fail := none } c.name) buf c.segs).es.map Exp.norm
        = es.map Exp.norm := by rw [b3, a3]
    have hwants := any_wants_congr c hnorm
    cases hsfail : (segsFrom (withName { es := beginCall es, call := newCall k, fail := none } c.name) buf c.segs).fail with
    | some m =>
      have hne : (segsFrom (withName { es := beginCall es, call := newCall k, fail := none } c.name) buf c.segs).fail ≠ none := by
        rw [hsfail]; simp
      have hnw : es.any (wants c) = false := by
        rw [← any_wants_congr c a3]; exact b2 hne
      refine ⟨fun h => (by rw [hnw] at h; cases h), fun _ => ?_⟩
      rw [callCheck_fail_some _ m hsfail]; simp
    | none =>
      have hinv := b1 hsfail
      obtain ⟨c1, c2⟩ := callCheck_specI (k := k) hinv (by rw [b4, a4]) (by rw [b5, a5])
        (unambiguous_transferI hnorm hun) (wfexp_transfer hnorm hwfe)
      rw [hwants, hnorm] at c1
      rw [hwants] at c2
      exact ⟨c1, c2⟩

theorem unambiguous_bumpI {es : List Exp} {c : Call} {k : Nat} (h : UnambiguousI es) :
    UnambiguousI (modifyFirst (wants c) (fun e => e.bump k) es) := by
  intro a ha b hb hn
  rcases mem_modifyFirst ha with ha | ⟨a0, ha0, rfl⟩ <;> rcases mem_modifyFirst hb with hb | ⟨b0, hb0, rfl⟩
  · exact h a ha b hb hn
  · exact h a ha b0 hb0 hn
  · exact h a0 ha0 b hb hn
  · exact h a0 ha0 b0 hb0 hn

/-- the run of the code on clean, unambiguous expectations of every class is the fold of `consume`
    followed by the end-of-test check -/
theorem run_refinesI : ∀ (calls : List Call) (es : List Exp) (k : Nat),
    Clean es → UnambiguousI es → (∀ e ∈ es, WFExp e) → (∀ c ∈ calls, WFCall c) →
    (∀ es', consumeAll (es.map Exp.norm) k calls = some es' → run es k calls = endCheck es') ∧
    (consumeAll (es.map Exp.norm) k calls = none → run es k calls ≠ none)
  | [], es, k, _, _, _, _ => by
    refine ⟨fun es' h => ?_, fun h => by simp [consumeAll] at h⟩
    simp only [consumeAll, Option.some.injEq] at h
    subst h
    simp only [run, endCheck, List.any_map, Function.comp_def]
    rfl
  | c :: rest, es, k, hclean, hun, hwfe, hwfc => by
    obtain ⟨s1, s2⟩ := callFull_specI (c := c) (k + 1) bufInit hclean hun hwfe (hwfc c (by simp))
    simp only [consumeAll, consume, any_wants_norm, run]
    cases hany : es.any (wants c) with
    | false =>
      have hf := s2 hany
      refine ⟨fun es' h => by simp at h, fun _ => ?_⟩
      cases hff : (callFull es (k + 1) c.name c.segs bufInit).fail with
      | none => exact absurd hff hf
      | some m => simp
    | true =>
      obtain ⟨t1, t2, _⟩ := s1 hany
      have t3 := callFull_clean es (k + 1) c.name c.segs bufInit hclean t1
      simp only [if_true, t1]
      have hcomm : modifyFirst (wants c) (fun e => e.bump (k + 1)) (es.map Exp.norm)
          = (modifyFirst (wants c) (fun e => e.bump (k + 1)) es).map Exp.norm :=
        (modifyFirst_map_comm (wants c) (fun e => e.bump (k + 1)) Exp.norm (wants_norm c) (fun e => norm_bump e (k + 1)) es).symm
      have hnorm : (callFull es (k + 1) c.name c.segs bufInit).es.map Exp.norm
          = (modifyFirst (wants c) (fun e => e.bump (k + 1)) es).map Exp.norm := by rw [t2, hcomm]
      have ih := run_refinesI rest (callFull es (k + 1) c.name c.segs bufInit).es (k + 1) t3
        (unambiguous_transferI hnorm (unambiguous_bumpI hun))
        (wfexp_transfer hnorm (wfexp_bump hwfe))
        (fun c' hc' => hwfc c' (by simp [hc']))
      rw [t2] at ih
      exact ih

theorem fits_of_sameClass {a b : Exp} {c : Call} (hwa : WFExp a) (hs : sameClass a b = true) (hf : fits b c = true) :
    fits a c = true := by
  have hcov := covered_eq_of_sameClass c.segs hs
  simp only [sameClass, Bool.and_eq_true, List.all_eq_true, beq_iff_eq, List.any_eq_true] at hs
  obtain ⟨⟨⟨⟨⟨⟨hn, ho⟩, hi⟩, hab⟩, hba⟩, hoab⟩, hoba⟩ := hs
  simp only [fits, Bool.and_eq_true, beq_iff_eq, compat, List.all_eq_true] at hf ⊢
  refine ⟨⟨by rw [hn]; exact hf.1.1, ?_⟩, by rw [hcov]; exact hf.2⟩
  intro s hs
  have hbs := hf.1.2 s hs
  cases s with
  | inp n v =>
    simp only [compatSeg, Exp.hasInput] at hbs ⊢
    cases hfb : b.ins.find? (fun p => p.name == n) with
    | some q =>
      rw [hfb] at hbs
      have hq := List.mem_of_find?_eq_some hfb
      have hqn : q.name = n := by simpa using List.find?_some hfb
      obtain ⟨p, hp, hpn, hpv⟩ := hba q hq
      have := hasInput_of_param hwa hp
      simp only [Exp.hasInput] at this
      rw [hpn, hqn] at this
      cases hfa : a.ins.find? (fun p => p.name == n) with
      | none => exact absurd (List.find?_eq_none.mp hfa p hp) (by simp [hpn, hqn])
      | some p' =>
        rw [hfa] at this
        simp only at this ⊢
        have hv : q.val = v := by simpa using hbs
        rw [← hv, ← hpv]; exact this
    | none =>
      rw [hfb] at hbs
      simp only at hbs
      cases hfa : a.ins.find? (fun p => p.name == n) with
      | none => simp only; rw [hi]; exact hbs
      | some p' =>
        exfalso
        have hp' := List.mem_of_find?_eq_some hfa
        have hpn : p'.name = n := by simpa using List.find?_some hfa
        obtain ⟨q, hq, hqn, _⟩ := hab p' hp'
        have := List.find?_eq_none.mp hfb q hq
        simp [hqn, hpn] at this
  | out n =>
    simp only [compatSeg, Exp.hasOutput] at hbs ⊢
    cases hfb : b.outs.find? (fun p => p.name == n) with
    | some q =>
      have hq := List.mem_of_find?_eq_some hfb
      have hqn : q.name = n := by simpa using List.find?_some hfb
      have := hasOutput_of_named (hoba q hq)
      rw [hqn] at this
      simpa [Exp.hasOutput] using this
    | none =>
      rw [hfb] at hbs
      simp only at hbs
      cases hfa : a.outs.find? (fun p => p.name == n) with
      | none => simp only; rw [hi]; exact hbs
      | some p' => rfl
  | obj o =>
    simp only [compatSeg, Exp.relatesToObject] at hbs ⊢
    rw [ho]; exact hbs

theorem sameClass_of_fits {a b : Exp} {c : Call} (hwa : WFExp a) (hwb : WFExp b)
    (hu : sameClass a b = true ∨ conflict a b = true) (hfa : fits a c = true) (hfb : fits b c = true) :
    sameClass a b = true := by
  rcases hu with h | h
  · exact h
  · rw [fits_no_conflict hwa hwb hfa hfb] at h; cases h

/-- capacity an expectation `x` contributes to the signature class of `e` -/
def capOfI (e x : Exp) : Nat := if sameClass e x then x.expected - x.actual else 0

theorem capLeft_eq_sumI (N : List Exp) (e : Exp) : capLeftI N e = (N.map (capOfI e)).sum := by
  unfold capLeftI
  induction N with
  | nil => rfl
  | cons a N ih =>
    simp only [List.filter_cons, List.map_cons, List.sum_cons, capOfI]
    split
    · simp [ih]
    · simp [ih]

theorem capLeft_appendI (l1 l2 : List Exp) (e : Exp) : capLeftI (l1 ++ l2) e = capLeftI l1 e + capLeftI l2 e := by
  simp [capLeft_eq_sumI, List.sum_append]

theorem capLeft_consI (x : Exp) (l : List Exp) (e : Exp) : capLeftI (x :: l) e = capOfI e x + capLeftI l e := by
  simp [capLeft_eq_sumI]

theorem capOf_le_capLeftI {N : List Exp} {x : Exp} (e : Exp) (hx : x ∈ N) : capOfI e x ≤ capLeftI N e := by
  induction N with
  | nil => simp at hx
  | cons a N ih =>
    rw [capLeft_consI]
    simp only [List.mem_cons] at hx
    rcases hx with rfl | hx
    · omega
    · have := ih hx; omega

theorem exists_capOf_posI {N : List Exp} (e : Exp) (h : 0 < capLeftI N e) : ∃ y ∈ N, 0 < capOfI e y := by
  induction N with
  | nil => simp [capLeftI] at h
  | cons a N ih =>
    rw [capLeft_consI] at h
    by_cases ha : 0 < capOfI e a
    · exact ⟨a, by simp, ha⟩
    · have : 0 < capLeftI N e := by omega
      obtain ⟨y, hy, hp⟩ := ih this
      exact ⟨y, by simp [hy], hp⟩

theorem consumeAll_full_iffI : ∀ (calls : List Call) (N : List Exp) (k : Nat),
    UnambiguousI N → (∀ e ∈ N, WFExp e) → (∀ e ∈ N, e.actual ≤ e.expected) →
    ((∃ N', consumeAll N k calls = some N' ∧ ∀ x ∈ N', x.actual = x.expected) ↔ MultisetEqI N calls)
  | [], N, k, _, hwf, hle => by
    simp only [consumeAll, Option.some.injEq, exists_eq_left', MultisetEqI, List.not_mem_nil, false_imp_iff,
      implies_true, true_and, demand, List.countP_nil]
    constructor
    · intro h e _
      rw [capLeft_eq_sumI]
      symm
      apply sum_zero_of_all_zero
      intro n hn
      simp only [List.mem_map] at hn
      obtain ⟨x, hx, rfl⟩ := hn
      simp only [capOfI]
      split
      · rw [h x hx]; omega
      · rfl
    · intro h x hx
      have h1 := capOf_le_capLeftI x hx
      rw [← h x hx] at h1
      simp only [capOfI, sameClass_refl x, if_true] at h1
      have := hle x hx
      omega
  | c :: rest, N, k, hun, hwf, hle => by
    simp only [consumeAll, consume]
    cases hany : N.any (wants c) with
    | false =>
      simp only [Bool.false_eq_true, if_false]
      constructor
      · rintro ⟨_, h, _⟩; cases h
      · intro hm
        exfalso
        obtain ⟨e, he, hfe⟩ := hm.1 c (by simp)
        have hd := hm.2 e he
        rw [demand_cons, hfe] at hd
        have hpos : 0 < capLeftI N e := by simp at hd; omega
        obtain ⟨y, hy, hyp⟩ := exists_capOf_posI e hpos
        simp only [capOfI] at hyp
        split at hyp
        · next hs =>
          have hfy : fits y c = true := fits_of_sameClass (hwf y hy) (sameClass_symm hs) hfe
          have hw : wants c y = true := by
            simp only [wants, Exp.canMatch, Bool.and_eq_true, decide_eq_true_eq]
            exact ⟨by omega, hfy⟩
          have := List.any_eq_false.mp hany y hy
          exact this hw
        · omega
    | true =>
      simp only [if_true]
      have hfind : ∃ x, N.find? (wants c) = some x := by
        cases hf : N.find? (wants c) with
        | some x => exact ⟨x, rfl⟩
        | none =>
          have := find_none' hf
          simp only [List.any_eq_true] at hany
          obtain ⟨y, hy, hwy⟩ := hany
          rw [this y hy] at hwy; cases hwy
      obtain ⟨x, hfx⟩ := hfind
      obtain ⟨l1, l2, hl, hxw, _, hmod⟩ := find_decomp hfx
      rw [hmod]
      have hxmem : x ∈ N := by rw [hl]; simp
      have hxfit : fits x c = true := by simp only [wants, Bool.and_eq_true] at hxw; exact hxw.2
      have hxcap : x.actual < x.expected := by
        simp only [wants, Exp.canMatch, Bool.and_eq_true, decide_eq_true_eq] at hxw; exact hxw.1
      have hN1 : modifyFirst (wants c) (fun e => e.bump (k + 1)) N = l1 ++ x.bump (k + 1) :: l2 := hmod _
      have ih := consumeAll_full_iffI rest (l1 ++ x.bump (k + 1) :: l2) (k + 1)
        (by rw [← hN1]; exact unambiguous_bumpI hun)
        (by rw [← hN1]; exact wfexp_bump hwf)
        (by
          intro e he
          simp only [List.mem_append, List.mem_cons] at he
          rcases he with he | rfl | he
          · exact hle e (by rw [hl]; simp [he])
          · show x.actual + 1 ≤ x.expected; omega
          · exact hle e (by rw [hl]; simp [he]))
      rw [ih]
      -- relate the two multiset statements
      have hfitsig : ∀ e ∈ N, (fits e c = true ↔ sameClass e x = true) := by
        intro e he
        constructor
        · intro hf
          have hname : e.name = x.name := by
            simp only [fits, Bool.and_eq_true, beq_iff_eq] at hf hxfit
            rw [hf.1.1, hxfit.1.1]
          exact sameClass_of_fits (hwf e he) (hwf x hxmem) (hun e he x hxmem hname) hf hxfit
        · intro hs
          exact fits_of_sameClass (hwf e he) hs hxfit
      have hcap : ∀ e ∈ N, capLeftI N e = capLeftI (l1 ++ x.bump (k + 1) :: l2) e + (if fits e c then 1 else 0) := by
        intro e he
        rw [hl, capLeft_appendI, capLeft_appendI, capLeft_consI, capLeft_consI]
        have : capOfI e x = capOfI e (x.bump (k + 1)) + (if fits e c then 1 else 0) := by
          simp only [capOfI]
          have e1 : sameClass e (x.bump (k + 1)) = sameClass e x := rfl
          rw [e1]
          cases hs : sameClass e x with
          | true =>
            rw [(hfitsig e he).mpr hs]
            show x.expected - x.actual = x.expected - (x.actual + 1) + 1
            omega
          | false =>
            have : fits e c = false := by
              apply Bool.eq_false_iff.mpr
              intro hf; rw [(hfitsig e he).mp hf] at hs; cases hs
            simp [this]
        omega
      constructor
      · intro hm
        refine ⟨?_, ?_⟩
        · intro c' hc'
          simp only [List.mem_cons] at hc'
          rcases hc' with rfl | hc'
          · exact ⟨x, hxmem, hxfit⟩
          · obtain ⟨e, he, hf⟩ := hm.1 c' hc'
            simp only [List.mem_append, List.mem_cons] at he
            rcases he with he | rfl | he
            · exact ⟨e, by rw [hl]; simp [he], hf⟩
            · exact ⟨x, hxmem, hf⟩
            · exact ⟨e, by rw [hl]; simp [he], hf⟩
        · intro e he
          rw [demand_cons, hcap e he]
          have hmem : e ∈ l1 ∨ e = x ∨ e ∈ l2 := by
            rw [hl] at he; simpa using he
          have : demand rest e = capLeftI (l1 ++ x.bump (k + 1) :: l2) e := by
            rcases hmem with h | rfl | h
            · exact hm.2 e (by simp [h])
            · have := hm.2 (e.bump (k + 1)) (by simp)
              exact this
            · exact hm.2 e (by simp [h])
          omega
      · intro hm
        refine ⟨?_, ?_⟩
        · intro c' hc'
          obtain ⟨e, he, hf⟩ := hm.1 c' (by simp [hc'])
          rw [hl] at he
          simp only [List.mem_append, List.mem_cons] at he
          rcases he with he | rfl | he
          · exact ⟨e, by simp [he], hf⟩
          · exact ⟨e.bump (k + 1), by simp, hf⟩
          · exact ⟨e, by simp [he], hf⟩
        · intro e he
          simp only [List.mem_append, List.mem_cons] at he
          have key : ∀ e0 ∈ N, demand rest e0 = capLeftI (l1 ++ x.bump (k + 1) :: l2) e0 := by
            intro e0 he0
            have h1 := hm.2 e0 he0
            rw [demand_cons, hcap e0 he0] at h1
            omega
          rcases he with he | rfl | he
          · exact key e (by rw [hl]; simp [he])
          · exact key x hxmem
          · exact key e (by rw [hl]; simp [he])

theorem capLeft_normI (es : List Exp) (e : Exp) : capLeftI (es.map Exp.norm) e.norm = capLeftI es e := by
  simp only [capLeft_eq_sumI, List.map_map]
  congr 1
  apply List.map_congr_left
  intro x _
  simp only [Function.comp, capOfI, sameClass_norm_left, sameClass_norm_right]
  rfl

theorem multisetEq_normI (es : List Exp) (calls : List Call) : MultisetEqI (es.map Exp.norm) calls ↔ MultisetEqI es calls := by
  simp only [MultisetEqI, List.mem_map]
  constructor
  · rintro ⟨h1, h2⟩
    refine ⟨fun c hc => ?_, fun e he => ?_⟩
    · obtain ⟨e', ⟨e, he, rfl⟩, hf⟩ := h1 c hc
      exact ⟨e, he, by rw [← fits_norm]; exact hf⟩
    · have := h2 e.norm ⟨e, he, rfl⟩
      rw [demand_norm, capLeft_normI] at this
      exact this
  · rintro ⟨h1, h2⟩
    refine ⟨fun c hc => ?_, ?_⟩
    · obtain ⟨e, he, hf⟩ := h1 c hc
      exact ⟨e.norm, ⟨e, he, rfl⟩, by rw [fits_norm]; exact hf⟩
    · rintro e' ⟨e, he, rfl⟩
      rw [demand_norm, capLeft_normI]
      exact h2 e he

end Mock
