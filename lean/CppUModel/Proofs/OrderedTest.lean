import CppUModel.Proofs.Registry
import CppUModel.Model.OrderedTest
/-!
Lemmas for the `TEST_ORDERED` installer: list segments under pointer updates, the insertion
lemma, the invariant "registry list = plain tests ++ ordered chain, chain sorted by level".
-/
namespace Registry
open Text (Bytes)

/-! ## the regenerated decisions of OrderedTest.cpp -/

theorem gen_orderedBeforeHead (a b : Int) : Gen.Registry.orderedBeforeHead a b = decide (a < b) := rfl
theorem gen_orderedStopBefore (a b : Int) : Gen.Registry.orderedStopBefore a b = decide (a > b) := rfl
theorem gen_orderedAddAtFront (a b : Option Nat) :
    Gen.Registry.orderedAddAtFront (a == none) (b == a) = true ↔ (a = none ∨ b = a) := by
  simp [Gen.Registry.orderedAddAtFront]

/-! ## list segments -/

/-- following `nx` from `h` visits exactly `l` and arrives at `e` -/
inductive Seg (nx : Next) : Option Nat → List Nat → Option Nat → Prop
  | nil {h : Option Nat} : Seg nx h [] h
  | cons {i : Nat} {l : List Nat} {e : Option Nat} : Seg nx (nx i) l e → Seg nx (some i) (i :: l) e

theorem seg_of_linked {nx : Next} {h : Option Nat} {l : List Nat} (hl : Linked nx h l) :
    Seg nx h l none := by
  induction hl with
  | nil => exact Seg.nil
  | cons _ ih => exact Seg.cons ih

theorem linked_of_seg {nx : Next} : ∀ {l : List Nat} {h : Option Nat}, Seg nx h l none → Linked nx h l
  | [], _, hs => by cases hs; exact Linked.nil
  | _ :: _, _, hs => by cases hs with | cons hs' => exact Linked.cons (linked_of_seg hs')

theorem Seg.append {nx : Next} {a b : List Nat} {h m e : Option Nat}
    (h1 : Seg nx h a m) (h2 : Seg nx m b e) : Seg nx h (a ++ b) e := by
  induction h1 with
  | nil => exact h2
  | cons _ ih => exact Seg.cons (ih h2)

theorem Seg.split {nx : Next} : ∀ {a b : List Nat} {h e : Option Nat}, Seg nx h (a ++ b) e →
    ∃ m, Seg nx h a m ∧ Seg nx m b e
  | [], _, h, _, hs => ⟨h, Seg.nil, hs⟩
  | _ :: a, b, _, _, hs => by
    cases hs with
    | cons hs' =>
      obtain ⟨m, h1, h2⟩ := Seg.split (a := a) (b := b) hs'
      exact ⟨m, Seg.cons h1, h2⟩

theorem Seg.frame {nx : Next} {l : List Nat} {h e : Option Nat} (hs : Seg nx h l e)
    (x : Nat) (v : Option Nat) (hx : x ∉ l) : Seg (setNext nx x v) h l e := by
  induction hs with
  | nil => exact Seg.nil
  | @cons i l' e' _ ih =>
    have hne : i ≠ x := fun e => hx (by simp [e])
    have hx' : x ∉ l' := fun m => hx (by simp [m])
    apply Seg.cons
    have : setNext nx x v i = nx i := by simp [setNext, hne]
    rw [this]
    exact ih hx'

theorem Seg.start {nx : Next} {l : List Nat} {h : Option Nat} (hs : Seg nx h l none) : h = l.head? := by
  cases hs <;> rfl

/-- in a list, the `next` of an element is the head of what follows it -/
theorem linked_next_of_mid {nx : Next} {h : Option Nat} (a : List Nat) (cur : Nat) (b : List Nat)
    (hl : Linked nx h (a ++ cur :: b)) : nx cur = b.head? := by
  obtain ⟨m, _, h2⟩ := Seg.split (seg_of_linked hl)
  cases h2 with
  | cons h3 => exact h3.start

/-- THE insertion step: `i->next = cur->next; cur->next = i` turns `a ++ cur :: b` into
    `a ++ cur :: i :: b` -/
theorem linked_insert {nx : Next} {h : Option Nat} (a b : List Nat) (cur i : Nat)
    (hl : Linked nx h (a ++ cur :: b)) (hnd : (a ++ cur :: b).Nodup) (hi : i ∉ a ++ cur :: b) :
    Linked (setNext (setNext nx i (nx cur)) cur (some i)) h (a ++ cur :: i :: b) := by
  obtain ⟨m, h1, h2⟩ := Seg.split (seg_of_linked hl)
  have hia : i ∉ a := fun hm => hi (by simp [hm])
  have hib : i ∉ b := fun hm => hi (by simp [hm])
  have hic : i ≠ cur := fun e => hi (by simp [e])
  have hca : cur ∉ a := by
    intro hm
    have := List.nodup_append.mp hnd
    exact this.2.2 cur hm cur (by simp) rfl
  have hcb : cur ∉ b := by
    have := (List.nodup_append.mp hnd).2.1
    exact (List.nodup_cons.mp this).1
  cases h2 with
  | cons h3 =>
    apply linked_of_seg
    apply Seg.append ((h1.frame i _ hia).frame cur _ hca)
    apply Seg.cons
    have e1 : setNext (setNext nx i (nx cur)) cur (some i) cur = some i := by simp [setNext]
    rw [e1]
    apply Seg.cons
    have e2 : setNext (setNext nx i (nx cur)) cur (some i) i = nx cur := by simp [setNext, hic]
    rw [e2]
    exact (h3.frame i _ hib).frame cur _ hcb

theorem setNext_comm (nx : Next) (x y : Nat) (u v : Option Nat) (h : x ≠ y) :
    setNext (setNext nx x u) y v = setNext (setNext nx y v) x u := by
  funext k
  simp only [setNext]
  by_cases h1 : k = y
  · by_cases h2 : k = x
    · exact absurd (h2.symm.trans h1) h
    · simp [h1, h2]
      intro e; exact absurd e.symm h
  · simp [h1]

/-! ## `getTestWithNext` on ids -/

theorem prevId_none_snoc : ∀ (a : List Nat) (p : Nat), prevId none (a ++ [p]) = some p
  | [], p => by simp [prevId]
  | [x], p => by simp [prevId]
  | x :: y :: a, p => by
    have := prevId_none_snoc (y :: a) p
    simp only [List.cons_append] at this ⊢
    simp only [prevId]
    simpa using this

theorem prevId_some_mid : ∀ (a : List Nat) (p x : Nat) (b : List Nat), x ∉ a → x ≠ p →
    prevId (some x) (a ++ p :: x :: b) = some p
  | [], p, x, b, _, _ => by simp [prevId]
  | [y], p, x, b, hx, hp => by
    have : ¬ x = p := hp
    simp [prevId, this]
  | y :: z :: a, p, x, b, hx, hp => by
    have hz : ¬ x = z := fun e => hx (by simp [e])
    have hx' : x ∉ z :: a := fun m => hx (by simp at m ⊢; rcases m with m | m <;> simp [m])
    have := prevId_some_mid (z :: a) p x b hx' hp
    simp only [List.cons_append] at this ⊢
    simp only [prevId, Option.some.injEq, hz, if_false]
    exact this


/-- the id-level loop the ordered installer's model uses IS `TestRegistry::getTestWithNext` of
    Model/Registry.lean on the shells of the list -/
theorem prevId_eq_getTestWithNext (target : Option Nat) : ∀ ts : List Test,
    prevId target (ts.map (·.id)) = getTestWithNext target ts
  | [] => rfl
  | [t] => by simp [prevId, getTestWithNext]
  | t :: n :: rest => by
    have ih := prevId_eq_getTestWithNext target (n :: rest)
    simp only [List.map_cons] at ih ⊢
    simp only [prevId, getTestWithNext]
    rw [ih]

theorem prevId_order {r : Reg} (h : r.WF) (target : Option Nat) :
    prevId target r.order = getTestWithNext target r.tests := by
  rw [← tests_ids h, prevId_eq_getTestWithNext]

/-! ## well-formedness from a linked list -/

theorem wf_of_linked (r : Reg) (l : List Nat) (hl : Linked r.next r.head l) (hnd : l.Nodup)
    (hb : ∀ i ∈ l, i < r.objs.size) (hids : ∀ (i : Nat) (t : Test), r.objs[i]? = some t → t.id = i) :
    r.WF ∧ r.order = l := by
  have hlen : l.length ≤ r.objs.size := by
    have hs : l ⊆ List.range r.objs.size := by intro i hi; simpa using hb i hi
    simpa using hnd.length_le_of_subset hs
  have hord : r.order = l := walk_of_linked hl _ hlen
  exact ⟨{ linked := by rw [hord]; exact hl, nodup := by rw [hord]; exact hnd,
           bound := by rw [hord]; exact hb, ids := hids }, hord⟩

theorem newShell_ids {r : Reg} (h : r.WF) (g n f : Bytes) (line : Nat) :
    ∀ (i : Nat) (t : Test), (r.newShell g n f line).objs[i]? = some t → t.id = i := by
  intro i t ht
  simp only [Reg.newShell, Array.getElem?_push] at ht
  split at ht
  · rename_i e; cases ht; exact e.symm
  · exact h.ids i t ht

/-! ## the specification of an ordered insertion, on lists -/

/-- the new shell goes behind every ordered shell whose level is not larger -/
def insLvl (level : Nat → Int) (lvl : Int) (i : Nat) (chain : List Nat) : List Nat :=
  chain.takeWhile (fun c => decide (level c ≤ lvl)) ++ i :: chain.dropWhile (fun c => decide (level c ≤ lvl))

theorem takeWhile_le_append (level : Nat → Int) (lvl : Int) (b : List Nat)
    (hb : ∀ x, b.head? = some x → lvl < level x) : ∀ a : List Nat, (∀ c ∈ a, level c ≤ lvl) →
    (a ++ b).takeWhile (fun c => decide (level c ≤ lvl)) = a
  | [], _ => by
    cases b with
    | nil => rfl
    | cons x b =>
      have := hb x rfl
      have : ¬ level x ≤ lvl := by omega
      simp [this]
  | y :: a, ha => by
    have hy := ha y (by simp)
    simp only [List.cons_append, List.takeWhile, hy, decide_true]
    rw [takeWhile_le_append level lvl b hb a (fun c hc => ha c (by simp [hc]))]

theorem dropWhile_le_append (level : Nat → Int) (lvl : Int) (b : List Nat)
    (hb : ∀ x, b.head? = some x → lvl < level x) : ∀ a : List Nat, (∀ c ∈ a, level c ≤ lvl) →
    (a ++ b).dropWhile (fun c => decide (level c ≤ lvl)) = b
  | [], _ => by
    cases b with
    | nil => rfl
    | cons x b =>
      have := hb x rfl
      have : ¬ level x ≤ lvl := by omega
      simp [this]
  | y :: a, ha => by
    have hy := ha y (by simp)
    simp only [List.cons_append, List.dropWhile, hy, decide_true]
    exact dropWhile_le_append level lvl b hb a (fun c hc => ha c (by simp [hc]))

theorem insLvl_split (level : Nat → Int) (lvl : Int) (i : Nat) (a b : List Nat)
    (ha : ∀ c ∈ a, level c ≤ lvl) (hb : ∀ x, b.head? = some x → lvl < level x) :
    insLvl level lvl i (a ++ b) = a ++ i :: b := by
  unfold insLvl
  rw [takeWhile_le_append level lvl b hb a ha, dropWhile_le_append level lvl b hb a ha]

theorem insLvl_perm (level : Nat → Int) (lvl : Int) (i : Nat) (chain : List Nat) :
    (insLvl level lvl i chain).Perm (i :: chain) := by
  unfold insLvl
  have h := List.takeWhile_append_dropWhile (p := fun c => decide (level c ≤ lvl)) (l := chain)
  have p : (chain.takeWhile (fun c => decide (level c ≤ lvl)) ++ i :: chain.dropWhile (fun c => decide (level c ≤ lvl))).Perm
      (i :: (chain.takeWhile (fun c => decide (level c ≤ lvl)) ++ chain.dropWhile (fun c => decide (level c ≤ lvl)))) :=
    List.perm_middle
  rw [h] at p
  exact p

/-- a sorted chain stays sorted (w.r.t. the levels including the new shell's) -/
theorem insLvl_sorted (level : Nat → Int) (lvl : Int) (i : Nat) (chain : List Nat)
    (hs : chain.Pairwise (fun a b => level a ≤ level b)) (hi : i ∉ chain) :
    (insLvl level lvl i chain).Pairwise
      (fun a b => (if a = i then lvl else level a) ≤ (if b = i then lvl else level b)) := by
  induction chain with
  | nil => simp [insLvl]
  | cons c chain ih =>
    have hci : c ≠ i := fun e => hi (by simp [e])
    have hi' : i ∉ chain := fun m => hi (by simp [m])
    have hs' := (List.pairwise_cons.mp hs)
    by_cases hc : level c ≤ lvl
    · have e : insLvl level lvl i (c :: chain) = c :: insLvl level lvl i chain := by
        simp [insLvl, List.takeWhile, List.dropWhile, hc]
      rw [e]
      apply List.pairwise_cons.mpr
      refine ⟨?_, ih hs'.2 hi'⟩
      intro b hb
      have hb' := (insLvl_perm level lvl i chain).subset hb
      simp only [hci, if_false]
      simp only [List.mem_cons] at hb'
      rcases hb' with rfl | hb'
      · simpa using hc
      · have hbi : b ≠ i := fun e => hi' (e ▸ hb')
        simp only [hbi, if_false]
        exact hs'.1 b hb'
    · have e : insLvl level lvl i (c :: chain) = i :: c :: chain := by
        simp [insLvl, List.takeWhile, List.dropWhile, hc]
      rw [e]
      apply List.pairwise_cons.mpr
      constructor
      · intro b hb
        have hbi : b ≠ i := fun e => hi (e ▸ hb)
        simp only [if_true, hbi, if_false]
        simp only [List.mem_cons] at hb
        rcases hb with rfl | hb
        · omega
        · have := hs'.1 b hb; omega
      · apply List.Pairwise.imp_of_mem _ hs
        intro a b ha hb hab
        have hai : a ≠ i := fun e => hi (e ▸ ha)
        have hbi : b ≠ i := fun e => hi (e ▸ hb)
        simpa [hai, hbi] using hab

/-! ## the invariant -/

/-- registry list = `pre` (plain / ignored shells, newest first) ++ `chain` (the ordered shells);
    the chain is the `_nextOrderedTest` list, on which `next_` and `_nextOrderedTest` agree, and
    it is sorted by level -/
structure OInv (o : OReg) (pre chain : List Nat) : Prop where
  wf     : o.reg.WF
  order  : o.reg.order = pre ++ chain
  olink  : Linked o.onext o.ohead chain
  agree  : ∀ c ∈ chain, o.reg.next c = o.onext c
  sorted : chain.Pairwise (fun a b => o.level a ≤ o.level b)

theorem oinv_empty : OInv {} [] [] :=
  { wf := wf_empty, order := by simp [Reg.empty, Reg.order, walk], olink := Linked.nil,
    agree := by simp, sorted := List.Pairwise.nil }

theorem oinv_addTest {o : OReg} {pre chain : List Nat} (h : OInv o pre chain) (g n : Bytes) (ig : Bool)
    (file : Bytes) (line : Nat) : OInv (o.addTest g n ig file line) (o.reg.objs.size :: pre) chain := by
  have hw := wf_addTest h.wf g n ig file line
  refine { wf := hw.1, order := by simp [OReg.addTest, hw.2, h.order], olink := h.olink, agree := ?_,
           sorted := h.sorted }
  intro c hc
  have hcb : c < o.reg.objs.size := h.wf.bound c (by rw [h.order]; simp [hc])
  have : c ≠ o.reg.objs.size := by omega
  simp only [OReg.addTest, Reg.addTest, setNext, this, if_false]
  exact h.agree c hc

/-- what a `linkAfter` does to an invariant state whose chain is `a ++ cur :: b` -/
theorem oinv_linkAfter {o : OReg} {pre a b : List Nat} {cur i : Nat} (lvl : Int)
    (hw : o.reg.WF) (hord : o.reg.order = pre ++ (a ++ cur :: b))
    (hol : Linked o.onext o.ohead (a ++ cur :: b))
    (hag : ∀ c ∈ a ++ cur :: b, o.reg.next c = o.onext c)
    (hi : i ∉ o.reg.order) (hib : i < o.reg.objs.size) :
    (o.linkAfter cur i).reg.WF ∧ (o.linkAfter cur i).reg.order = pre ++ (a ++ cur :: i :: b) ∧
    Linked (o.linkAfter cur i).onext (o.linkAfter cur i).ohead (a ++ cur :: i :: b) ∧
    (∀ c ∈ a ++ cur :: i :: b, (o.linkAfter cur i).reg.next c = (o.linkAfter cur i).onext c) := by
  have _ := lvl
  have hnd : (pre ++ (a ++ cur :: b)).Nodup := hord ▸ hw.nodup
  have hi' : i ∉ pre ++ (a ++ cur :: b) := hord ▸ hi
  have hndc : (a ++ cur :: b).Nodup := (List.nodup_append.mp hnd).2.1
  have hic : i ∉ a ++ cur :: b := fun m => hi' (by simp at m ⊢; right; exact m)
  have hnc : o.reg.next cur = o.onext cur := hag cur (by simp)
  -- the registry's list
  have hl1 : Linked o.reg.next o.reg.head ((pre ++ a) ++ cur :: b) := by
    have := hw.linked; rw [hord] at this; simpa using this
  have hl2 := linked_insert (pre ++ a) b cur i hl1 (by simpa using hnd) (by simpa using hi')
  rw [hnc] at hl2
  have hwf := wf_of_linked (o.linkAfter cur i).reg ((pre ++ a) ++ cur :: i :: b) hl2
    (by
      have hp : ((pre ++ a) ++ cur :: i :: b).Perm (i :: ((pre ++ a) ++ cur :: b)) := by
        have : (pre ++ a) ++ cur :: i :: b = ((pre ++ a) ++ [cur]) ++ i :: b := by simp
        rw [this]
        have h2 : (pre ++ a) ++ cur :: b = ((pre ++ a) ++ [cur]) ++ b := by simp
        rw [h2]
        exact List.perm_middle
      rw [hp.nodup_iff]
      exact List.nodup_cons.mpr ⟨by simpa using hi', by simpa using hnd⟩)
    (by
      intro k hk
      show k < o.reg.objs.size
      simp only [List.mem_append, List.mem_cons] at hk
      rcases hk with (hk | hk) | rfl | rfl | hk
      · exact hw.bound k (by rw [hord]; simp [hk])
      · exact hw.bound k (by rw [hord]; simp [hk])
      · exact hw.bound k (by rw [hord]; simp)
      · exact hib
      · exact hw.bound k (by rw [hord]; simp [hk]))
    hw.ids
  refine ⟨hwf.1, by rw [hwf.2]; simp, linked_insert a b cur i hol hndc hic, ?_⟩
  intro c hc
  have hci : c ∈ a ++ cur :: b ∨ c = i := by
    simp only [List.mem_append, List.mem_cons] at hc ⊢
    rcases hc with hc | rfl | rfl | hc
    · exact Or.inl (Or.inl hc)
    · exact Or.inl (Or.inr (Or.inl rfl))
    · exact Or.inr rfl
    · exact Or.inl (Or.inr (Or.inr hc))
  simp only [OReg.linkAfter, setNext]
  by_cases e1 : c = cur
  · simp [e1]
  · by_cases e2 : c = i
    · simp [e2]
    · simp only [e1, e2, if_false]
      rcases hci with hci | hci
      · exact hag c hci
      · exact absurd hci e2

/-- the loop of `addOrderedTestInOrderNotAtHeadPosition` finds the last shell whose level is not
    larger than the new one's and links the new shell behind it -/
theorem insertLoop_spec {o : OReg} {i : Nat} (lvl : Int) (hlvl : o.level i = lvl) :
    ∀ (b a : List Nat) (cur : Nat) (f : Nat), Linked o.onext o.ohead (a ++ cur :: b) → i ∉ a ++ cur :: b →
      b.length < f → (∀ c ∈ a ++ [cur], o.level c ≤ lvl) →
      ∃ a' cur' b', a ++ cur :: b = a' ++ cur' :: b' ∧ o.insertLoop i f cur = o.linkAfter cur' i ∧
        (∀ c ∈ a' ++ [cur'], o.level c ≤ lvl) ∧ (∀ x, b'.head? = some x → lvl < o.level x)
  | [], a, cur, f, hl, _, hf, hle => by
    cases f with
    | zero => simp at hf
    | succ f =>
      have hn : o.onext cur = none := by simpa using linked_next_of_mid a cur [] hl
      exact ⟨a, cur, [], rfl, by simp [OReg.insertLoop, hn], hle, by simp⟩
  | x :: b, a, cur, f, hl, hi, hf, hle => by
    cases f with
    | zero => simp at hf
    | succ f =>
      have hn : o.onext cur = some x := by simpa using linked_next_of_mid a cur (x :: b) hl
      by_cases hx : o.level x > o.level i
      · refine ⟨a, cur, x :: b, rfl, by simp [OReg.insertLoop, hn, gen_orderedStopBefore, hx], hle, ?_⟩
        intro y hy
        simp only [List.head?_cons, Option.some.injEq] at hy
        subst hy; omega
      · have hl' : Linked o.onext o.ohead ((a ++ [cur]) ++ x :: b) := by simpa using hl
        have hi' : i ∉ (a ++ [cur]) ++ x :: b := by simpa using hi
        obtain ⟨a', cur', b', e1, e2, e3, e4⟩ := insertLoop_spec lvl hlvl b (a ++ [cur]) x f hl' hi'
          (by simpa using hf)
          (by intro c hc
              simp only [List.mem_append, List.mem_singleton] at hc
              rcases hc with hc | rfl
              · exact hle c (by simpa using hc)
              · omega)
        refine ⟨a', cur', b', by simpa using e1, ?_, e3, e4⟩
        simp only [OReg.insertLoop, hn, gen_orderedStopBefore, hx, decide_false, Bool.false_eq_true, if_false]
        exact e2

theorem insLvl_congr (l1 l2 : Nat → Int) (lvl : Int) (i : Nat) : ∀ chain : List Nat,
    (∀ c ∈ chain, l1 c = l2 c) → insLvl l1 lvl i chain = insLvl l2 lvl i chain
  | [], _ => rfl
  | c :: chain, h => by
    have hc := h c (by simp)
    have ih := insLvl_congr l1 l2 lvl i chain (fun x hx => h x (by simp [hx]))
    unfold insLvl at ih ⊢
    simp only [List.takeWhile, List.dropWhile, hc]
    cases decide (l2 c ≤ lvl)
    · rfl
    · simpa using ih

/-- the shell object exists, nothing is linked yet -/
theorem oinv_created {o : OReg} {pre chain : List Nat} (h : OInv o pre chain) (lvl : Int)
    (g n f : Bytes) (line : Nat) :
    OInv (o.created lvl g n f line) pre chain ∧ o.reg.objs.size ∉ (o.created lvl g n f line).reg.order ∧
      o.reg.objs.size < (o.created lvl g n f line).reg.objs.size ∧
      o.reg.objs.size ∉ pre ++ chain := by
  have hnot : o.reg.objs.size ∉ pre ++ chain := by
    intro hm
    have := h.wf.bound _ (h.order ▸ hm)
    omega
  have hl : Linked (o.created lvl g n f line).reg.next (o.created lvl g n f line).reg.head (pre ++ chain) := by
    have := h.wf.linked; rw [h.order] at this; exact this
  have hw := wf_of_linked (o.created lvl g n f line).reg (pre ++ chain) hl (h.order ▸ h.wf.nodup)
    (by intro k hk
        have := h.wf.bound k (h.order ▸ hk)
        simp only [OReg.created, Reg.newShell, Array.size_push]; omega)
    (newShell_ids h.wf g n f line)
  refine ⟨{ wf := hw.1, order := hw.2, olink := h.olink, agree := h.agree, sorted := ?_ }, ?_, ?_, hnot⟩
  · apply List.Pairwise.imp_of_mem _ h.sorted
    intro a b ha hb hab
    have hai : a ≠ o.reg.objs.size := fun e => hnot (by simp [← e, ha])
    have hbi : b ≠ o.reg.objs.size := fun e => hnot (by simp [← e, hb])
    simpa [OReg.created, hai, hbi] using hab
  · rw [hw.2]; exact hnot
  · simp [OReg.created, Reg.newShell]

/-- `addOrderedTestToHead`: the new shell goes in front of the chain, i.e. behind the plain tests -/
theorem oinv_toHead {o : OReg} {pre chain : List Nat} (h : OInv o pre chain) (i : Nat)
    (hi : i ∉ pre ++ chain) (hib : i < o.reg.objs.size) :
    (o.addOrderedTestToHead i).reg.WF ∧ (o.addOrderedTestToHead i).reg.order = pre ++ i :: chain ∧
    Linked (o.addOrderedTestToHead i).onext (o.addOrderedTestToHead i).ohead (i :: chain) ∧
    (∀ c ∈ i :: chain, (o.addOrderedTestToHead i).reg.next c = (o.addOrderedTestToHead i).onext c) ∧
    (o.addOrderedTestToHead i).level = o.level ∧ (o.addOrderedTestToHead i).reg.objs = o.reg.objs := by
  have hnd : (pre ++ chain).Nodup := h.order ▸ h.wf.nodup
  have hlk : Linked o.reg.next o.reg.head (pre ++ chain) := by
    have := h.wf.linked; rw [h.order] at this; exact this
  have hoh : o.ohead = chain.head? := h.olink.head_eq
  have hic : i ∉ chain := fun m => hi (by simp [m])
  have hbound : ∀ k ∈ pre ++ i :: chain, k < o.reg.objs.size := by
    intro k hk
    simp only [List.mem_append, List.mem_cons] at hk
    rcases hk with hk | rfl | hk
    · exact h.wf.bound k (by rw [h.order]; simp [hk])
    · exact hib
    · exact h.wf.bound k (by rw [h.order]; simp [hk])
  have hnd' : (pre ++ i :: chain).Nodup := by
    have hp : (pre ++ i :: chain).Perm (i :: (pre ++ chain)) := List.perm_middle
    rw [hp.nodup_iff]
    exact List.nodup_cons.mpr ⟨hi, hnd⟩
  -- the ordered chain
  have hol : Linked (setNext o.onext i o.ohead) (some i) (i :: chain) := by
    apply Linked.cons
    have : setNext o.onext i o.ohead i = o.ohead := by simp [setNext]
    rw [this]
    exact h.olink.setNext_of_not_mem _ _ hic
  rcases List.eq_nil_or_concat pre with hp | ⟨a, p, hp⟩
  · -- no plain test in front: `reg->addTest(test)`
    subst hp
    have hrh : o.reg.head = chain.head? := by simpa using hlk.head_eq
    have hcond : o.reg.head = none ∨ o.ohead = o.reg.head := Or.inr (by rw [hoh, hrh])
    have hreg : (o.addOrderedTestToHead i).reg = o.reg.linkFront i := by
      simp only [OReg.addOrderedTestToHead, (gen_orderedAddAtFront _ _).mpr hcond, if_true]
    have hl : Linked (o.reg.linkFront i).next (o.reg.linkFront i).head (i :: chain) := by
      apply Linked.cons
      have : setNext o.reg.next i o.reg.head i = o.reg.head := by simp [setNext]
      simp only [Reg.linkFront]
      rw [this]
      exact (by simpa using hlk : Linked o.reg.next o.reg.head chain).setNext_of_not_mem _ _ hic
    have hwf := wf_of_linked (o.reg.linkFront i) (i :: chain) hl (by simpa using hnd')
      (by intro k hk; exact hbound k (by simpa using hk)) h.wf.ids
    rw [hreg]
    refine ⟨hwf.1, by simpa using hwf.2, hol, ?_, rfl, rfl⟩
    intro c hc
    simp only [Reg.linkFront, OReg.addOrderedTestToHead, setNext]
    by_cases e : c = i
    · simp [e, hoh, hrh]
    · simp only [e, if_false]
      simp only [List.mem_cons] at hc
      rcases hc with hc | hc
      · exact absurd hc e
      · exact h.agree c hc
  · -- behind the last plain test `p`: `getTestWithNext(head)->addTest(test); test->addTest(head);`
    have hp' : pre = a ++ [p] := by simpa using hp
    subst hp'
    have hpi : p ≠ i := fun e => hi (by simp [e])
    have hnp : o.reg.next p = chain.head? := by
      have : Linked o.reg.next o.reg.head (a ++ p :: chain) := by simpa using hlk
      exact linked_next_of_mid a p chain this
    have hpc : p ∉ chain := by
      intro hm
      have := (List.nodup_append.mp hnd).2.2 p (by simp) p hm
      exact this rfl
    have hhead : o.reg.head = (a ++ [p]).head? := by
      have := hlk.head_eq
      cases a <;> simpa using this
    have hcond : ¬ (o.reg.head = none ∨ o.ohead = o.reg.head) := by
      rintro (e | e)
      · rw [hhead] at e; cases a <;> simp at e
      · rw [hoh, hhead] at e
        cases hch : chain with
        | nil => rw [hch] at e; cases a <;> simp at e
        | cons x t =>
          rw [hch] at e
          have hx : x ∈ a ++ [p] := by
            cases a with
            | nil => simp at e; simp [e]
            | cons y a => simp at e; simp [e]
          have := (List.nodup_append.mp hnd).2.2 x hx x (by simp [hch])
          exact this rfl
    have hprev : prevId o.ohead o.reg.order = some p := by
      rw [h.order, hoh]
      cases hch : chain with
      | nil => simpa using prevId_none_snoc a p
      | cons x t =>
        have hxa : x ∉ a := by
          intro hm
          have := (List.nodup_append.mp hnd).2.2 x (by simp [hm]) x (by simp [hch])
          exact this rfl
        have hxp : x ≠ p := fun e => hpc (by simp [hch, e])
        simpa using prevId_some_mid a p x t hxa hxp
    have hreg : (o.addOrderedTestToHead i).reg =
        { o.reg with next := setNext (setNext o.reg.next p (some i)) i o.ohead } := by
      have hcond' : Gen.Registry.orderedAddAtFront (o.reg.head == none) (o.ohead == o.reg.head) = false := by
        cases hb : Gen.Registry.orderedAddAtFront (o.reg.head == none) (o.ohead == o.reg.head)
        · rfl
        · exact absurd ((gen_orderedAddAtFront _ _).mp hb) hcond
      simp only [OReg.addOrderedTestToHead, hcond', Bool.false_eq_true, if_false, hprev]
    have hnext : setNext (setNext o.reg.next p (some i)) i o.ohead =
        setNext (setNext o.reg.next i (o.reg.next p)) p (some i) := by
      rw [setNext_comm _ p i _ _ hpi, hnp, hoh]
    have hl := linked_insert a chain p i (by simpa using hlk) (by simpa using hnd) (by simpa using hi)
    rw [← hnext] at hl
    have hwf := wf_of_linked { o.reg with next := setNext (setNext o.reg.next p (some i)) i o.ohead }
      (a ++ p :: i :: chain) hl (by simpa using hnd') (by intro k hk; exact hbound k (by simpa using hk)) h.wf.ids
    rw [hreg]
    refine ⟨hwf.1, by simpa using hwf.2, hol, ?_, rfl, rfl⟩
    intro c hc
    simp only [OReg.addOrderedTestToHead, setNext]
    by_cases e : c = i
    · simp [e]
    · simp only [e, if_false]
      simp only [List.mem_cons] at hc
      rcases hc with hc | hc
      · exact absurd hc e
      · have hcp : c ≠ p := fun e' => hpc (e' ▸ hc)
        simp only [hcp, if_false]
        exact h.agree c hc

/-- **the installer keeps the invariant**: the registry stays a proper list holding every shell
    once, the plain tests keep their places, and the new ordered shell stands behind every ordered
    shell whose level is not larger (so the chain stays sorted, ties in registration order) -/
theorem oinv_install {o : OReg} {pre chain : List Nat} (h : OInv o pre chain) (lvl : Int)
    (g n f : Bytes) (line : Nat) :
    OInv (o.install lvl g n f line) pre (insLvl o.level lvl o.reg.objs.size chain) ∧
    (o.install lvl g n f line).reg.objs.size = o.reg.objs.size + 1 ∧
    (o.install lvl g n f line).level = (fun k => if k = o.reg.objs.size then lvl else o.level k) := by
  obtain ⟨h1, _, hib, hnot⟩ := oinv_created h lvl g n f line
  have hic : o.reg.objs.size ∉ chain := fun m => hnot (by simp [m])
  have hlevel : (o.created lvl g n f line).level = (fun k => if k = o.reg.objs.size then lvl else o.level k) := rfl
  have hli : (o.created lvl g n f line).level o.reg.objs.size = lvl := by simp [hlevel]
  have hlc : ∀ c ∈ chain, (o.created lvl g n f line).level c = o.level c := by
    intro c hc
    have : c ≠ o.reg.objs.size := fun e => hic (e ▸ hc)
    simp [hlevel, this]
  have hsorted := insLvl_sorted o.level lvl o.reg.objs.size chain h.sorted hic
  have hcongr := insLvl_congr (o.created lvl g n f line).level o.level lvl o.reg.objs.size chain hlc
  have hsz : (o.created lvl g n f line).reg.objs.size = o.reg.objs.size + 1 := by
    simp [OReg.created, Reg.newShell]
  -- the two ways the installer links
  have head_case : (∀ x, chain.head? = some x → lvl < o.level x) →
      (o.created lvl g n f line).linkOrdered o.reg.objs.size =
        (o.created lvl g n f line).addOrderedTestToHead o.reg.objs.size →
      OInv (o.install lvl g n f line) pre (insLvl o.level lvl o.reg.objs.size chain) ∧
      (o.install lvl g n f line).reg.objs.size = o.reg.objs.size + 1 ∧
      (o.install lvl g n f line).level = (fun k => if k = o.reg.objs.size then lvl else o.level k) := by
    intro hgt heq
    obtain ⟨w1, w2, w3, w4, w5, w6⟩ := oinv_toHead h1 o.reg.objs.size hnot hib
    have hins : insLvl o.level lvl o.reg.objs.size chain = o.reg.objs.size :: chain := by
      have := insLvl_split o.level lvl o.reg.objs.size [] chain (by simp) hgt
      simpa using this
    unfold OReg.install
    rw [heq, hins]
    refine ⟨{ wf := w1, order := w2, olink := w3, agree := w4, sorted := ?_ }, by rw [w6]; exact hsz, by rw [w5, hlevel]⟩
    rw [w5, hlevel, ← hins]
    exact hsorted
  cases hoh : (o.created lvl g n f line).ohead with
  | none =>
    have hch : chain = [] := by
      have := h1.olink; rw [hoh] at this; cases this; rfl
    apply head_case
    · intro x hx; rw [hch] at hx; simp at hx
    · simp only [OReg.linkOrdered, hoh]
  | some hd =>
    have hch : ∃ t, chain = hd :: t := by
      have := h1.olink; rw [hoh] at this
      cases this with
      | cons hl' => exact ⟨_, rfl⟩
    obtain ⟨t, hch⟩ := hch
    by_cases hlt : (o.created lvl g n f line).level o.reg.objs.size < (o.created lvl g n f line).level hd
    · apply head_case
      · intro x hx
        rw [hch] at hx
        simp only [List.head?_cons, Option.some.injEq] at hx
        have hlt' := hlt
        rw [hli, hlc hd (by simp [hch])] at hlt'
        rw [← hx]
        exact hlt'
      · simp only [OReg.linkOrdered, hoh, gen_orderedBeforeHead, hlt, decide_true, if_true]
    · have hlo : (o.created lvl g n f line).linkOrdered o.reg.objs.size =
          (o.created lvl g n f line).insertLoop o.reg.objs.size (o.created lvl g n f line).reg.objs.size hd := by
        simp only [OReg.linkOrdered, hoh, gen_orderedBeforeHead, hlt, decide_false, Bool.false_eq_true, if_false]
      have hlen : t.length < (o.created lvl g n f line).reg.objs.size := by
        have := h.wf.order_length_le
        rw [h.order, hch] at this
        simp at this
        rw [hsz]; omega
      obtain ⟨a', cur', b', e1, e2, e3, e4⟩ := insertLoop_spec lvl hli t [] hd _
        (by simpa [hch] using h1.olink) (by simpa [hch] using hic) hlen
        (by intro c hc
            simp only [List.nil_append, List.mem_singleton] at hc
            subst hc
            rw [hli] at hlt
            omega)
      have e1' : chain = a' ++ cur' :: b' := by rw [hch]; simpa using e1
      obtain ⟨w1, w2, w3, w4⟩ := oinv_linkAfter (o := o.created lvl g n f line) (pre := pre) (a := a') (b := b')
        (cur := cur') (i := o.reg.objs.size) lvl h1.wf (by rw [h1.order, e1']) (by rw [← e1']; exact h1.olink)
        (by rw [← e1']; exact h1.agree) (by rw [h1.order]; exact hnot) hib
      have hins : insLvl o.level lvl o.reg.objs.size chain = a' ++ cur' :: o.reg.objs.size :: b' := by
        rw [← hcongr, e1']
        have := insLvl_split (o.created lvl g n f line).level lvl o.reg.objs.size (a' ++ [cur']) b' e3 e4
        simpa using this
      unfold OReg.install
      rw [hlo, e2, hins]
      refine ⟨{ wf := w1, order := w2, olink := w3, agree := w4, sorted := ?_ }, hsz, rfl⟩
      show List.Pairwise (fun a b => (o.created lvl g n f line).level a ≤ (o.created lvl g n f line).level b) _
      rw [hlevel, ← hins]
      exact hsorted

end Registry
