import CppUModel.Model.ThreadSafe
import CppUModel.Proofs.ListLemmas
/-! Helper lemmas for C10 (core Lean only). -/
namespace ThreadSafe
open ListLemmas

/-! ## the table -/

theorem lookup_some_mem {d : Det} {id : Nat} {k : Kind} (h : lookup d id = some k) : (id, k) ∈ d := by
  induction d with
  | nil => simp [lookup] at h
  | cons p d ih =>
    obtain ⟨i, k'⟩ := p
    simp only [lookup] at h
    split at h
    · rename_i hi; subst hi; simp at h; subst h; simp
    · exact List.mem_cons_of_mem _ (ih h)

theorem lookup_none_not_mem {d : Det} {id : Nat} (h : lookup d id = none) : id ∉ ids d := by
  induction d with
  | nil => simp [ids]
  | cons p d ih =>
    obtain ⟨i, k'⟩ := p
    simp only [lookup] at h
    split at h
    · simp at h
    · rename_i hi
      simp only [ids, List.map_cons, List.mem_cons, not_or]
      exact ⟨fun e => hi e.symm, ih h⟩

theorem lookup_isSome_iff_mem (d : Det) (id : Nat) : (lookup d id).isSome ↔ id ∈ ids d := by
  induction d with
  | nil => simp [lookup, ids]
  | cons p d ih =>
    obtain ⟨i, k'⟩ := p
    simp only [lookup, ids, List.map_cons, List.mem_cons]
    split
    · rename_i hi; simp [hi]
    · rename_i hi
      rw [ih]; simp only [ids]
      constructor
      · intro h; exact Or.inr h
      · intro h; rcases h with h | h
        · exact absurd h.symm hi
        · exact h

/-- removing the block that `lookup` found gives back the table minus exactly that block -/
theorem perm_remove {d : Det} {id : Nat} {k : Kind} (h : lookup d id = some k) :
    d.Perm ((id, k) :: remove d id) := by
  induction d with
  | nil => simp [lookup] at h
  | cons p d ih =>
    obtain ⟨i, k'⟩ := p
    simp only [lookup] at h
    simp only [remove]
    split at h
    · rename_i hi; subst hi; simp at h; subst h; simp
    · rename_i hi
      simp only [hi, if_false]
      exact (List.Perm.cons _ (ih h)).trans (List.Perm.swap _ _ _)

theorem ids_remove_of_lookup {d : Det} {id : Nat} {k : Kind} (h : lookup d id = some k) :
    (ids d).Perm (id :: ids (remove d id)) := by
  have := (perm_remove h).map (·.1)
  simpa [ids] using this

theorem remove_sublist (d : Det) (id : Nat) : (remove d id).Sublist d := by
  induction d with
  | nil => simp [remove]
  | cons p d ih =>
    obtain ⟨i, k'⟩ := p
    simp only [remove]
    split
    · exact List.sublist_cons_self _ _
    · exact ih.cons_cons _


/-! ## conservation of one operation and of a run -/

def allocdAll (ops : List DetOp) : List (Nat × Kind) := ops.flatMap (fun op => allocdOf (.det op))
def freedAll (ops : List DetOp) : List (Nat × Kind) := ops.flatMap (fun op => freedOf (.det op))

theorem checkRelease_normal {s u : Kind} {c : Bool} (h : checkRelease s u c = .normal) : s = u ∧ c = false := by
  unfold checkRelease at h
  split at h
  · simp at h
  · rename_i hs
    split at h
    · simp at h
    · rename_i hc
      exact ⟨by simpa using hs, by simpa using hc⟩

/-- a step that reported no misuse neither forgets nor invents a block -/
theorem step_conservation (op : DetOp) (d : Det) (h : (body op d).2 = .normal) :
    ((body op d).1 ++ freedOf (.det op)).Perm (d ++ allocdOf (.det op)) := by
  cases op with
  | alloc id k =>
    simp only [body, freedOf, allocdOf, List.append_nil]
    exact (List.perm_append_singleton _ _).symm
  | free id k c =>
    simp only [body, freeFound] at h ⊢
    cases hl : lookup d id with
    | none => simp [hl, freeFound] at h
    | some st =>
      simp only [hl, freeFound] at h ⊢
      obtain ⟨rfl, -⟩ := checkRelease_normal h
      simp only [freedOf, allocdOf, List.append_nil]
      exact ((perm_remove hl).trans (List.perm_append_singleton _ _).symm).symm
  | realloc old new c =>
    simp only [body] at h ⊢
    cases hl : lookup d old with
    | none => simp [hl, reallocFound] at h
    | some st =>
      simp only [hl, reallocFound] at h ⊢
      cases hc : checkRelease st .malloc c with
      | misuse => simp [hc, reallocChecked] at h
      | normal =>
        obtain ⟨rfl, -⟩ := checkRelease_normal hc
        simp only [reallocChecked, freedOf, allocdOf]
        rw [List.perm_iff_count]; intro x
        have := (perm_remove hl).count_eq x
        simp [List.count_append, List.count_cons] at this ⊢
        omega

theorem stepOk_normal {op : DetOp} {d : Det} (h : stepOk op d = true) : (body op d).2 = .normal := by
  simp only [stepOk, Bool.and_eq_true, beq_iff_eq] at h
  exact h.2

theorem stepOk_fresh {op : DetOp} {d : Det} (h : stepOk op d = true) : fresh op d = true := by
  simp only [stepOk, Bool.and_eq_true] at h
  exact h.1

/-- the same for a whole misuse-free run, of any length -/
theorem run_conservation : ∀ (ops : List DetOp) (d : Det), RunOk ops d = true →
    (runDet ops d ++ freedAll ops).Perm (d ++ allocdAll ops)
  | [], d, _ => by simp [runDet, freedAll, allocdAll]
  | op :: ops, d, h => by
    simp only [RunOk, Bool.and_eq_true] at h
    have h1 := step_conservation op d (stepOk_normal h.1)
    have h2 := run_conservation ops (body op d).1 h.2
    simp only [runDet, freedAll, allocdAll, List.flatMap_cons] at h2 ⊢
    rw [List.perm_iff_count]; intro x
    have e1 := h1.count_eq x; have e2 := h2.count_eq x
    simp only [List.count_append] at e1 e2 ⊢; omega


/-! ## what one thread holds -/

theorem perm_erase_of_contains {α} [BEq α] [LawfulBEq α] {o : List α} {a : α} (h : o.contains a = true) :
    o.Perm (a :: o.erase a) := by
  have : a ∈ o := by simpa using h
  exact List.perm_cons_erase this

/-- one operation of a thread on what it holds -/
theorem hold_step_conservation (o : List (Nat × Kind)) (op : TOp) (h : opOwned o op = true) :
    (holdStep o op ++ freedOf op ++ givenOf op).Perm (o ++ allocdOf op ++ takenOf op) := by
  cases op with
  | det d =>
    cases d with
    | alloc id k =>
      simp only [holdStep, freedOf, givenOf, allocdOf, takenOf, List.append_nil]
      exact (List.perm_append_singleton _ _).symm
    | free id k c =>
      simp only [holdStep, freedOf, givenOf, allocdOf, takenOf, List.append_nil]
      have := perm_erase_of_contains (by simpa [opOwned] using h : o.contains (id, k) = true)
      exact (this.trans (List.perm_append_singleton _ _).symm).symm
    | realloc old new c =>
      simp only [holdStep, freedOf, givenOf, allocdOf, takenOf, List.append_nil]
      have := perm_erase_of_contains (by simpa [opOwned] using h : o.contains (old, Kind.malloc) = true)
      rw [List.perm_iff_count]; intro x
      have e := this.count_eq x
      simp only [List.count_append, List.count_cons, List.count_nil] at e ⊢
      omega
  | give id k to =>
    simp only [holdStep, freedOf, givenOf, allocdOf, takenOf, List.append_nil]
    have := perm_erase_of_contains (by simpa [opOwned] using h : o.contains (id, k) = true)
    exact (this.trans (List.perm_append_singleton _ _).symm).symm
  | take id k =>
    simp only [holdStep, freedOf, givenOf, allocdOf, takenOf, List.append_nil]
    exact (List.perm_append_singleton _ _).symm

/-- per-thread bookkeeping: held + released + handed over = allocated + received -/
theorem thread_conservation : ∀ (ops : List TOp) (o : List (Nat × Kind)), ThreadOk ops o = true →
    (holds ops o ++ ops.flatMap freedOf ++ ops.flatMap givenOf).Perm
      (o ++ ops.flatMap allocdOf ++ ops.flatMap takenOf)
  | [], o, _ => by simp [holds]
  | op :: ops, o, h => by
    simp only [ThreadOk, Bool.and_eq_true] at h
    have ih := thread_conservation ops (holdStep o op) h.2
    have hs := hold_step_conservation o op h.1
    simp only [holds, List.flatMap_cons]
    rw [List.perm_iff_count]; intro x
    have e1 := hs.count_eq x; have e2 := ih.count_eq x
    simp only [List.count_append] at e1 e2 ⊢
    omega

/-! ## sums over the threads of a schedule -/

theorem proj_cons (t u : Nat) (op : TOp) (es : List Event) :
    proj t ((u, op) :: es) = if u = t then op :: proj t es else proj t es := rfl

theorem count_flatMap_ite {α β} [BEq β] [LawfulBEq β] [DecidableEq α] (x : β) (u : α) (L : List β) :
    ∀ (l : List α), l.Nodup →
      List.count x (l.flatMap (fun t => if u = t then L else [])) = if u ∈ l then List.count x L else 0
  | [], _ => by simp
  | a :: l, hn => by
    have hn' := List.nodup_cons.mp hn
    have ih := count_flatMap_ite x u L l hn'.2
    simp only [List.flatMap_cons, List.count_append, ih, List.mem_cons]
    by_cases h : u = a
    · subst h; simp [hn'.1]
    · simp [h]

theorem count_flatMap_add {α β} [BEq β] [LawfulBEq β] (x : β) (f g : α → List β) :
    ∀ (l : List α), List.count x (l.flatMap (fun t => f t ++ g t)) =
      List.count x (l.flatMap f) + List.count x (l.flatMap g)
  | [] => by simp
  | a :: l => by
    have ih := count_flatMap_add x f g l
    simp only [List.flatMap_cons, List.count_append, ih]; omega

theorem count_flatMap_congr {α β} [BEq β] [LawfulBEq β] (x : β) (f g : α → List β) :
    ∀ (l : List α), (∀ t ∈ l, List.count x (f t) = List.count x (g t)) →
      List.count x (l.flatMap f) = List.count x (l.flatMap g)
  | [], _ => by simp
  | a :: l, h => by
    have ih := count_flatMap_congr x f g l (fun t ht => h t (List.mem_cons_of_mem _ ht))
    simp only [List.flatMap_cons, List.count_append, ih, h a (List.mem_cons_self ..)]

/-- summing a per-operation list over the whole schedule = summing it thread by thread -/
theorem count_sched_eq_threads (f : TOp → List (Nat × Kind)) (n : Nat) (x : Nat × Kind) :
    ∀ (sched : List Event), (∀ e ∈ sched, e.1 < n) →
      List.count x (sched.flatMap (fun e => f e.2)) =
        List.count x ((List.range n).flatMap (fun t => (proj t sched).flatMap f))
  | [], _ => by
    have : ∀ l : List Nat, List.count x (l.flatMap (fun t => (proj t []).flatMap f)) = 0 := by
      intro l; induction l with
      | nil => simp
      | cons a l ih =>
        rw [List.flatMap_cons, List.count_append, ih]
        simp [proj]
    simp [this]
  | (u, op) :: es, h => by
    have ih := count_sched_eq_threads f n x es (fun e he => h e (List.mem_cons_of_mem _ he))
    have hu : u < n := h (u, op) (List.mem_cons_self ..)
    have e1 : List.count x ((List.range n).flatMap (fun t => (proj t ((u, op) :: es)).flatMap f)) =
        List.count x ((List.range n).flatMap (fun t => (if u = t then f op else []) ++ (proj t es).flatMap f)) := by
      apply count_flatMap_congr
      intro t _
      rw [proj_cons]
      by_cases hut : u = t
      · simp [hut]
      · simp [hut]
    rw [e1, count_flatMap_add, count_flatMap_ite x u (f op) _ List.nodup_range]
    simp only [List.flatMap_cons, List.count_append, ih, List.mem_range, hu, if_true]

theorem detOps_flatMap (f : TOp → List (Nat × Kind)) (hg : ∀ id k to, f (.give id k to) = [])
    (ht : ∀ id k, f (.take id k) = []) :
    ∀ (sched : List Event), (detOps sched).flatMap (fun op => f (.det op)) = sched.flatMap (fun e => f e.2)
  | [] => by simp [detOps]
  | (u, .det op) :: es => by simp [detOps, List.flatMap_cons, detOps_flatMap f hg ht es]
  | (u, .give id k to) :: es => by simp [detOps, List.flatMap_cons, hg, detOps_flatMap f hg ht es]
  | (u, .take id k) :: es => by simp [detOps, List.flatMap_cons, ht, detOps_flatMap f hg ht es]

end ThreadSafe
