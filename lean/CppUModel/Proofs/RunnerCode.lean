import CppUModel.Model.RunnerCode
import CppUModel.Proofs.Runner
/-!
The regenerated code of the runner (`Gen/RunnerCode.lean`, executed by the interpreters of
`Model/RunnerCode.lean`) EQUALS the hand-written model of `Model/Runner.lean`.  Every theorem here
mentions a regenerated definition, so an edit of the source that changes the statement order, a catch
clause, a guard or a print sequence breaks one of them.
-/
namespace Runner
open Gen.Runner

/-! ## Utest::run, build without exceptions -/

macro "gen_simp_noexc" : tactic => `(tactic|
  simp_all [utestRunGen, utestRunCode, utestRunNoExcCode, utestRunExcCode, execBlocks, execBlock, execStmts, phaseOfNat, findCatch, patMatches, execCatch,
        utestRunNoExc, bodyNoExc, teardownNoExc, noEsc, accOf])

theorem utestRunGen_noexc (cfg : Cfg) (t : Test) (st : TSt) (hx : cfg.exceptions = false) :
    utestRunGen cfg t st = utestRunNoExc cfg t st := by
  cases h1 : setJmp st (phaseFn cfg t .setup) with
  | error f => gen_simp_noexc
  | ok j1 =>
    cases he : j1.esc with
    | some k => gen_simp_noexc
    | none =>
      cases hr : j1.ret with
      | false =>
        cases h3 : setJmp j1.st (phaseFn cfg t .teardown) with
        | error f => gen_simp_noexc
        | ok j3 => cases he3 : j3.esc <;> gen_simp_noexc
      | true =>
        cases h2 : setJmp j1.st (phaseFn cfg t .body) with
        | error f => gen_simp_noexc
        | ok j2 =>
          cases he2 : j2.esc with
          | some k => gen_simp_noexc
          | none =>
            cases h3 : setJmp j2.st (phaseFn cfg t .teardown) with
            | error f => gen_simp_noexc
            | ok j3 => cases he3 : j3.esc <;> gen_simp_noexc

/-! ## Utest::run, build with exceptions -/

macro "gen_simp" : tactic => `(tactic|
  simp_all [utestRunGen, utestRunCode, utestRunNoExcCode, utestRunExcCode, execBlocks, execBlock, execStmts, phaseOfNat, findCatch, patMatches, execCatch,
        utestRunExc, tryBlock1, tryBlock2, afterTry, bodyIfSetupReturned, catchClauses, vv, vvU, vvBefore, vvAfter, restoreJumpBuffer, shellAddFailure, TSt.dec])

def excRest : List TryBlock := utestRunExcCode.drop 1

/-- the blocks after the first one, run from any state, are `tryBlock2` -/
theorem exc_rest (cfg : Cfg) (t : Test) (hx : cfg.exceptions = true) (st : TSt) (evs : List Ev) (jmp : Bool) :
    accOf (execBlocks cfg t excRest ⟨st, evs, jmp⟩) = tryBlock2 cfg t ⟨st, evs⟩ := by
  unfold excRest accOf
  cases h3 : setJmp st (phaseFn cfg t .teardown) with
  | error f => gen_simp
  | ok j3 =>
    cases he3 : j3.esc with
    | none => gen_simp
    | some k => cases hrt : cfg.rethrow <;> cases k <;> gen_simp

theorem exc_split : utestRunExcCode = utestRunExcCode.take 1 ++ excRest := (List.take_append_drop 1 _).symm

theorem execBlocks_append (cfg : Cfg) (t : Test) : ∀ (a b : List TryBlock) (s : ISt),
    execBlocks cfg t (a ++ b) s = (match execBlocks cfg t a s with
      | .error f => .error f
      | .ok s' => execBlocks cfg t b s')
  | [], b, s => by simp [execBlocks]
  | x :: a, b, s => by
    simp only [List.cons_append, execBlocks]
    cases execBlock cfg t x s with
    | error f => rfl
    | ok s' => exact execBlocks_append cfg t a b s'

theorem utestRunGen_exc (cfg : Cfg) (t : Test) (st : TSt) (hx : cfg.exceptions = true) :
    utestRunGen cfg t st = utestRunExc cfg t st := by
  unfold utestRunGen utestRunCode
  rw [if_pos hx, exc_split, execBlocks_append]
  unfold utestRunExc
  cases h1 : setJmp st (phaseFn cfg t .setup) with
  | error f => gen_simp; simp [accOf]
  | ok j1 =>
    cases he : j1.esc with
    | some k =>
      cases hrt : cfg.rethrow <;> cases k <;> gen_simp <;> first | (rw [exc_rest cfg t hx]; gen_simp) | simp [accOf]
    | none =>
      cases hr : j1.ret with
      | false => gen_simp; first | (rw [exc_rest cfg t hx]; gen_simp) | simp [accOf]
      | true =>
        cases h2 : setJmp j1.st (phaseFn cfg t .body) with
        | error f => gen_simp; simp [accOf]
        | ok j2 =>
          cases he2 : j2.esc with
          | none => gen_simp; first | (rw [exc_rest cfg t hx]; gen_simp) | simp [accOf]
          | some k => cases hrt : cfg.rethrow <;> cases k <;> gen_simp <;> first | (rw [exc_rest cfg t hx]; gen_simp) | simp [accOf]

/-- **utestRun_is_the_source**: the hand-written `Utest::run` of the model is what the interpreter makes of
    the regenerated try blocks / statements / catch clauses, in both build variants -/
theorem utestRunGen_eq (cfg : Cfg) (t : Test) (st : TSt) : utestRunGen cfg t st = utestRun cfg t st := by
  unfold utestRun
  cases hx : cfg.exceptions
  · simpa [hx] using utestRunGen_noexc cfg t st hx
  · simpa [hx] using utestRunGen_exc cfg t st hx

/-! ## UtestShell::runOneTestInCurrentProcess -/

macro "one_simp" : tactic => `(tactic|
  simp_all [runOneTestInCurrentProcessGen, oneTestBefore, oneTestTry, oneTestCatchAll, oneTestAfter, execOneOps, execOneOp,
    handlerRethrows, runOneTestInCurrentProcess, beforeRun, afterRun, vv, Stop.prepend])

theorem runOneTestInCurrentProcessGen_eq (cfg : Cfg) (plugins : List Plugin) (t : Test) (st : TSt)
 :
    runOneTestInCurrentProcessGen cfg plugins t st = runOneTestInCurrentProcess cfg plugins t st := by
  have hrun : ∀ s, utestRunGen cfg t s = utestRun cfg t s := utestRunGen_eq cfg t
  cases h : utestRun cfg t { (runAllPre cfg t plugins st).st with current := some t.name } with
  | error f => one_simp
  | ok a => one_simp

/-! ## TestOutput::printFailure -/

theorem layout_gen (r : FailRec) :
    twoLocationLayout (isOutsideTestFile r.testFile r.file) (isInHelperFunction r.testLine r.line) = r.twoLocations := by
  simp [twoLocationLayout, isOutsideTestFile, isInHelperFunction, FailRec.twoLocations]

theorem failureToksGen_eclipse (r : FailRec) : failureToksGen false r = failureToks r := by
  unfold failureToksGen failureToks
  rw [layout_gen]
  cases r.twoLocations <;>
    simp [twoLocationParts, oneLocationParts, renderPart, renderItems, locItems, usesVisualStudioForm,
      eclipseLoc, failureInTest, failureMessage, locToks]

theorem failureToksGen_vs (r : FailRec) : failureToksGen true r = failureToksVS r := by
  unfold failureToksGen failureToksVS
  rw [layout_gen]
  cases r.twoLocations <;>
    simp [twoLocationParts, oneLocationParts, renderPart, renderItems, locItems, usesVisualStudioForm,
      visualStudioLoc, failureInTest, failureMessage, locToksVS]

/-! ## ConsoleTestOutput::printBuffer on a buffered stream; the Visual Studio reader -/

theorem console_print_flushed (s : Stream) (x : String) : consolePrint s x = ⟨s.visible ++ s.pending ++ [x], []⟩ := by
  simp [consolePrint, consolePrintBufferCode, consoleFlushCode, execPrintBuffer, execFlushCode, Stream.flushed]

theorem consolePrintAll_cons : ∀ (xs : List String) (x : String) (s : Stream),
    consolePrintAll s (x :: xs) = ⟨s.visible ++ s.pending ++ x :: xs, []⟩
  | [], x, s => by simp [consolePrintAll, console_print_flushed]
  | y :: xs, x, s => by
    have ih := consolePrintAll_cons xs y (consolePrint s x)
    simp only [consolePrintAll, List.foldl_cons] at ih ⊢
    rw [ih, console_print_flushed]
    simp

/-- every string printed by a process that then ends with `_exit` (the child of `-p`) or is killed has
    reached the file descriptor -/
theorem printed_text_survives_exit (s : Stream) (hs : s.pending = []) (xs : List String) :
    (consolePrintAll s xs).afterExit = s.visible ++ xs ∧ (consolePrintAll s xs).pending = [] := by
  cases xs with
  | nil => simp [consolePrintAll, Stream.afterExit, hs]
  | cons x xs => rw [consolePrintAll_cons]; simp [Stream.afterExit, hs]

/-- why the flush is needed: the same prints through a `printBuffer` that only writes are lost -/
theorem unflushed_text_is_lost (xs : List String) :
    (xs.foldl (fun s x => execPrintBuffer consoleFlushCode x [.fputs] s) ({} : Stream)).afterExit = [] ∧
    (xs.foldl (fun s x => execPrintBuffer consoleFlushCode x [.fputs] s) ({} : Stream)).afterNormalEnd = xs := by
  have h : ∀ (xs : List String) (s : Stream),
      xs.foldl (fun s x => execPrintBuffer consoleFlushCode x [.fputs] s) s = ⟨s.visible, s.pending ++ xs⟩ := by
    intro xs
    induction xs with
    | nil => intro s; simp
    | cons x xs ih => intro s; simp only [List.foldl_cons]; rw [ih]; simp [execPrintBuffer]
  rw [h]
  simp [Stream.afterExit, Stream.afterNormalEnd]

theorem readRecordVS_oneLoc (l f name msg : String) (hmsg : msg ≠ "(") (w B : List String) :
    readRecordVS (" error:" :: "):" :: l :: "(" :: f :: "\n" :: w) (name :: "\n" :: "\t" :: msg :: "\n\n" :: B)
      = some ⟨f, l, name, msg, none⟩ := by
  rcases B with _ | ⟨b1, _ | ⟨b2, B⟩⟩ <;> simp [readRecordVS, parseLocVS, parseTail, hmsg]

theorem scanFromVS_failureToksVS (r : FailRec) (hc : r.cleanVS) (w B : List String) :
    scanFromVS w (failureToksVS r ++ B) = r.printed :: scanFromVS ((failureToksVS r).reverse ++ w) B := by
  obtain ⟨hmsg, h2, h3, h4, h5⟩ := hc
  simp only [markers, List.mem_cons, List.mem_nil_iff, or_false, not_or] at h2 h3 h4 h5
  have hm := h2.1; have hf := h3.1; have htf := h4.1; have hn := h5.1
  have hr : ∀ n : Nat, n.repr ≠ " Failure in " := repr_ne_marker
  unfold failureToksVS
  cases h2 : r.twoLocations with
  | true =>
    simp [locToksVS, scanFromVS, failureMarker, hm, hf, htf, hn, hr, readRecordVS, parseLocVS, parseTail, FailRec.printed, h2]
  | false =>
    simp [locToksVS, scanFromVS, failureMarker, hm, hf, hn, hr, readRecordVS_oneLoc _ _ _ _ hmsg, FailRec.printed, h2]

/-! ## the whole console text in the Visual Studio environment -/

theorem scanFromVS_skip : ∀ (A : List String) (w B : List String), (∀ a ∈ A, a ≠ failureMarker) →
    scanFromVS w (A ++ B) = scanFromVS (A.reverse ++ w) B
  | [], w, B, _ => by simp
  | a :: A, w, B, h => by
    have ha : a ≠ failureMarker := h a (by simp)
    simp only [List.cons_append, scanFromVS, ha, if_false]
    rw [scanFromVS_skip A (a :: w) B (fun x hx => h x (by simp [hx]))]
    simp

/-- what the Visual Studio reader asks of the free strings of an event list -/
def CleanEvsVS (evs : List Ev) : Prop :=
  (∀ s ∈ plainToksOf evs, s ∉ markers) ∧ (∀ r ∈ recordsOf evs, r.cleanVS)

theorem scanFromVS_toksOfEnv (c : Bool) : ∀ (evs : List Ev) (w : List String), CleanEvsVS evs →
    scanFromVS w (toksOfEnv true c evs) = (recordsOf evs).map FailRec.printed
  | [], w, _ => by simp [toksOfEnv, scanFromVS]
  | e :: evs, w, h => by
    have htl : CleanEvsVS evs := by
      refine ⟨fun s hs => h.1 s ?_, fun r hr => h.2 r ?_⟩
      · simp [hs]
      · simp [hr]
    have hto : toksOfEnv true c (e :: evs) = Ev.toksEnv true c e ++ toksOfEnv true c evs := by simp [toksOfEnv]
    rw [hto]
    cases e with
    | tok s =>
      have hs : s ≠ failureMarker := by
        have := h.1 s (by simp [Ev.tok?])
        simp only [markers, List.mem_cons, List.mem_nil_iff, or_false, not_or] at this
        exact this.1
      simp only [Ev.toksEnv, List.singleton_append, scanFromVS, hs, if_false]
      simpa [Ev.record?] using scanFromVS_toksOfEnv c evs _ htl
    | failure r =>
      simp only [Ev.toksEnv, if_true]
      rw [scanFromVS_failureToksVS r (h.2 r (by simp [Ev.record?])) w (toksOfEnv true c evs), scanFromVS_toksOfEnv c evs _ htl]
      simp [Ev.record?]
    | sepFailure r =>
      simp only [Ev.toksEnv, if_true]
      rw [scanFromVS_failureToksVS r (h.2 r (by simp [Ev.record?])) w (toksOfEnv true c evs), scanFromVS_toksOfEnv c evs _ htl]
      simp [Ev.record?]
    | summary r time =>
      simp only [Ev.toksEnv]
      rw [scanFromVS_skip _ w _ (summaryToks_noMarker c r time), scanFromVS_toksOfEnv c evs _ htl]
      simp [Ev.record?]
    | enter ph d => simpa [Ev.toksEnv, Ev.record?] using scanFromVS_toksOfEnv c evs w htl
    | mark ph n d => simpa [Ev.toksEnv, Ev.record?] using scanFromVS_toksOfEnv c evs w htl
    | plug n po d => simpa [Ev.toksEnv, Ev.record?] using scanFromVS_toksOfEnv c evs w htl
    | ended d cu f => simpa [Ev.toksEnv, Ev.record?] using scanFromVS_toksOfEnv c evs w htl
    | clock v => simpa [Ev.toksEnv, Ev.record?] using scanFromVS_toksOfEnv c evs w htl
    | ret v => simpa [Ev.toksEnv, Ev.record?] using scanFromVS_toksOfEnv c evs w htl

/-- in the eclipse environment `toksOfEnv` is `toksOf` -/
theorem toksOfEnv_eclipse (c : Bool) (evs : List Ev) : toksOfEnv false c evs = toksOf c evs := by
  have h : Ev.toksEnv false c = Ev.toks c := by
    funext e
    cases e <;> simp [Ev.toksEnv, Ev.toks]
  simp [toksOfEnv, toksOf, h]

/-! ## CompositeTestOutput -/

theorem receivedBy_forward {α} (who : Receiver) : ∀ (calls : List (String × α)),
    (∀ c ∈ calls, receiversOf c.1 = [.one, .two]) → receivedBy who (compositeForward calls) = calls
  | [], _ => rfl
  | c :: calls, h => by
    have ih := receivedBy_forward who calls (fun x hx => h x (by simp [hx]))
    have hc := h c (by simp)
    unfold receivedBy compositeForward at ih ⊢
    rw [List.flatMap_cons, hc, List.filter_append, List.map_append, ih]
    cases who <;> simp [List.filter_cons]

theorem receiversOf_known : ∀ n ∈ ["printTestsStarted", "printTestsEnded", "printCurrentTestStarted", "printCurrentTestEnded",
      "printCurrentGroupStarted", "printCurrentGroupEnded", "verbose", "color", "printBuffer", "print", "printDouble",
      "printFailure", "setProgressIndicator", "printVeryVerbose", "flush"], receiversOf n = [.one, .two] := by
  decide

end Runner
