import CppUModel.Proofs.LeakDetector
import CppUModel.Proofs.ThreadSafe
import CppUModel.Proofs.ThreadSafeOwn
/-!
Helper lemmas of the composition theorems `Props/C10x.lean`: the outstanding-set detector of
`Model/ThreadSafe.lean` (C10) against the finite-map specification of `Spec/LeakDetector.lean` and the
table model `Model/LeakDetector.lean` (C04/C06).
-/
namespace Compose.TS
open LeakDetector ThreadSafe

/-- the allocator family of the table model that a C10 `Kind` stands for -/
def famOf : Kind → Family
  | .new => .new
  | .newArray => .newArray
  | .malloc => .malloc

/-- `operator new/new[]` keep the accounting node inside the block, `malloc` allocates it separately
    (the `allocatNodesSeperately` argument of the wrappers in MemoryLeakWarningPlugin.cpp) -/
def sepOf : Kind → Bool
  | .malloc => true
  | _ => false

/-- The three current allocators are three different objects of three different types
    (`defaultNewAllocator`, `defaultNewArrayAllocator`, `defaultMallocAllocator`). -/
def Distinct (c : Current) : Prop :=
  ∀ f g : Family, f ≠ g → (c.of f).actual.id ≠ (c.of g).actual.id ∧ (c.of f).actual.name ≠ (c.of g).actual.name

theorem famOf_inj {k k' : Kind} (h : famOf k = famOf k') : k = k' := by
  cases k <;> cases k' <;> first | rfl | cases h

/-- with type checking on, a release matches the allocation exactly when the families agree -/
theorem matching_of_distinct {c : Current} (hc : Distinct c) (k k' : Kind) :
    matching true (c.of (famOf k)) (c.of (famOf k')) = decide (k = k') := by
  unfold matching Gen.LeakDetector.matchingAllocation
  by_cases h : k = k'
  · subst h; simp
  · have hf : famOf k ≠ famOf k' := fun e => h (famOf_inj e)
    have := hc _ _ hf
    have h1 : ((c.of (famOf k)).actual.id == (c.of (famOf k')).actual.id) = false := by simpa using this.1
    have h2 : ((c.of (famOf k')).actual.name == (c.of (famOf k)).actual.name) = false := by
      simpa using fun e => this.2 e.symm
    simp [h1, h2, h]

theorem of_famOf_inj {c : Current} (hc : Distinct c) {k k' : Kind} (h : c.of (famOf k) = c.of (famOf k')) : k = k' := by
  by_cases hk : k = k'
  · exact hk
  · have hf : famOf k ≠ famOf k' := fun e => hk (famOf_inj e)
    exact absurd (by rw [h]) (hc _ _ hf).1

/-! ## the relation on the finite map -/

/-- The outstanding-set detector `d` of the C10 model represents the finite map `m` of the C04
    specification: the same addresses are outstanding, each allocated by the current allocator of its
    family; live ids are pairwise distinct; allocation type checking is on. -/
structure RS (c : Current) (m : Spec.State) (d : Det) : Prop where
  look : ∀ id, (m.map id).map (·.allocator) = (ThreadSafe.lookup d id).map (fun k => c.of (famOf k))
  nodup : (ids d).Nodup
  tc : m.typeChecking = true

theorem lookup_remove_self {d : Det} (hn : (ids d).Nodup) (i : Nat) : ThreadSafe.lookup (remove d i) i = none := by
  cases h : ThreadSafe.lookup (remove d i) i with
  | none => rfl
  | some k =>
    have : i ∈ ids (remove d i) := (lookup_isSome_iff_mem _ _).mp (by simp [h])
    exact absurd rfl ((mem_ids_remove d hn i i).mp this).2

theorem lookup_remove {d : Det} (hn : (ids d).Nodup) (i j : Nat) :
    ThreadSafe.lookup (remove d i) j = if j = i then none else ThreadSafe.lookup d j := by
  by_cases h : j = i
  · subst h; simp [lookup_remove_self hn]
  · simp only [h, if_false]
    exact lookup_remove_ne d (fun e => h e.symm)

theorem lookup_cons (d : Det) (i j : Nat) (k : Kind) :
    ThreadSafe.lookup ((i, k) :: d) j = if j = i then some k else ThreadSafe.lookup d j := by
  by_cases h : j = i
  · subst h; simp [ThreadSafe.lookup]
  · have : ¬ i = j := fun e => h e.symm
    simp [ThreadSafe.lookup, h, this]

theorem remove_absent {d : Det} {i : Nat} (h : ThreadSafe.lookup d i = none) : remove d i = d := by
  induction d with
  | nil => rfl
  | cons p d ih =>
    obtain ⟨a, k⟩ := p
    simp only [ThreadSafe.lookup] at h
    split at h
    · cases h
    · rename_i hai
      simp only [remove, hai, if_false, ih h]

theorem RS.live_iff {c : Current} {m : Spec.State} {d : Det} (h : RS c m d) (id : Nat) :
    m.map id = none ↔ ThreadSafe.lookup d id = none := by
  have := h.look id
  cases hm : m.map id <;> cases hl : ThreadSafe.lookup d id <;> simp [hm, hl] at this ⊢

theorem RS.alloc {c : Current} {m : Spec.State} {d : Det} (h : RS c m d) (id : Nat) (k : Kind) (size : Nat)
    (file : String) (line : Nat) (nodeOk : Bool) (fill : UInt8)
    (hz : id ≠ 0) (hfresh : id ∉ ids d) (hsz : sizeOverflows size = false) (hn : sepOf k = true → nodeOk = true) :
    RS c (Spec.step m (.alloc (c.of (famOf k)) size file line (sepOf k) id nodeOk fill)) ((id, k) :: d) := by
  have hcond : ¬ (sizeOverflows size = true ∨ id = 0 ∨ (sepOf k = true ∧ nodeOk = false)) := by
    rintro (h1 | h1 | h1)
    · rw [hsz] at h1; cases h1
    · exact hz h1
    · rw [hn h1.1] at h1; cases h1.2
  refine { look := ?_, nodup := ?_, tc := ?_ }
  · intro x
    simp only [Spec.step, if_neg hcond, Spec.Map.insert, Spec.newNode, lookup_cons]
    by_cases hx : x = id
    · simp [hx]
    · simp only [hx, if_false]; exact h.look x
  · simp only [ids, List.map_cons, List.nodup_cons]
    exact ⟨hfresh, h.nodup⟩
  · simp only [Spec.step, if_neg hcond]; exact h.tc

/-- in-place updates that keep the allocator of every record (`invalidateMemory`, client writes) -/
theorem RS.update {c : Current} {m : Spec.State} {d : Det} (h : RS c m d) (a : Nat) (f : Node → Node)
    (hf : ∀ n, (f n).allocator = n.allocator) : RS c { m with map := m.map.update a f } d := by
  refine { look := ?_, nodup := h.nodup, tc := h.tc }
  intro x
  simp only [Spec.Map.update]
  by_cases hx : x = a
  · simp only [hx, if_true, Option.map_map]
    rw [← h.look a]
    congr 1
    funext n; exact hf n
  · simp only [hx, if_false]; exact h.look x

theorem RS.erase {c : Current} {m : Spec.State} {d : Det} (h : RS c m d) (a : Allocator) (id : Nat) (file : String)
    (line : Nat) (sep : Bool) (hz : id ≠ 0) :
    RS c (Spec.step m (.dealloc a id file line sep)) (remove d id) := by
  refine { look := ?_, nodup := nodup_ids_remove id h.nodup, tc := ?_ }
  · intro x
    simp only [Spec.step, hz, if_false, Spec.Map.erase, lookup_remove h.nodup]
    by_cases hx : x = id
    · simp [hx]
    · simp only [hx, if_false]; exact h.look x
  · simp only [Spec.step, hz, if_false]; exact h.tc

theorem RS.realloc {c : Current} {m : Spec.State} {d : Det} (h : RS c m d) (old new size : Nat) (file : String)
    (line : Nat) (fill : UInt8) (hz : new ≠ 0) (hoz : old ≠ 0) (hlive : ThreadSafe.lookup d old ≠ none)
    (hfresh : new = old ∨ new ∉ ids d) (hsz : sizeOverflows size = false) :
    RS c (Spec.step m (.realloc c.mallocA old size file line true new fill)) ((new, .malloc) :: remove d old) := by
  have hm : ¬ m.map old = none := fun e => hlive ((h.live_iff old).mp e)
  refine { look := ?_, nodup := ?_, tc := ?_ }
  · intro x
    simp only [Spec.step, hsz, Bool.false_eq_true, if_false, hoz, hm, hz, Spec.Map.insert, Spec.Map.erase,
      Spec.newNode, lookup_cons, lookup_remove h.nodup]
    by_cases hx : x = new
    · simp [hx, famOf, Current.of]
    · simp only [hx, if_false]
      by_cases hx2 : x = old
      · simp [hx2]
      · simp only [hx2, if_false]; exact h.look x
  · simp only [ids, List.map_cons, List.nodup_cons]
    refine ⟨?_, nodup_ids_remove old h.nodup⟩
    intro hmem
    have := (mem_ids_remove d h.nodup old new).mp hmem
    rcases hfresh with e | e
    · exact this.2 e
    · exact e this.1
  · simp only [Spec.step, hsz, Bool.false_eq_true, if_false, hoz, hm, hz]; exact h.tc

theorem RS.realloc_unknown {c : Current} {m : Spec.State} {d : Det} (h : RS c m d) (a : Allocator) (old new size : Nat)
    (file : String) (line : Nat) (sep : Bool) (fill : UInt8) (hoz : old ≠ 0) (hdead : ThreadSafe.lookup d old = none)
    (hsz : sizeOverflows size = false) :
    Spec.step m (.realloc a old size file line sep new fill) = m := by
  have hm : m.map old = none := (h.live_iff old).mpr hdead
  simp [Spec.step, hsz, hoz, hm]

end Compose.TS
