import CppUModel.Proofs.LeakPlugin
import CppUModel.Spec.LeakPluginChain
/-! Helper lemmas for the C07 theorems about plugin chains. -/
namespace LeakPlugin
open Hist Gen.LeakCode Gen.LeakChain

/-! ### the chain walk, as regenerated -/

theorem chainPre_cons {π σ : Type} (en : π → Bool) (act : π → σ → σ) (p : π) (rest : List π) (s : σ) :
    chainPre en act (p :: rest) s = chainPre en act rest (if en p then act p s else s) := by
  cases h : en p <;> simp [chainPre, preOrder, guardAct, preGuarded, h]

theorem chainPost_cons {π σ : Type} (en : π → Bool) (act : π → σ → σ) (p : π) (rest : List π) (s : σ) :
    chainPost en act (p :: rest) s = (if en p then act p (chainPost en act rest s) else chainPost en act rest s) := by
  cases h : en p <;> simp [chainPost, postOrder, guardAct, postGuarded, h]

theorem chainPre_append {π σ : Type} (en : π → Bool) (act : π → σ → σ) : ∀ (a b : List π) (s : σ),
    chainPre en act (a ++ b) s = chainPre en act b (chainPre en act a s)
  | [], _, _ => rfl
  | p :: a, b, s => by
    rw [List.cons_append, chainPre_cons, chainPre_cons]; exact chainPre_append en act a b _

theorem chainPost_append {π σ : Type} (en : π → Bool) (act : π → σ → σ) : ∀ (a b : List π) (s : σ),
    chainPost en act (a ++ b) s = chainPost en act a (chainPost en act b s)
  | [], _, _ => rfl
  | p :: a, b, s => by
    rw [List.cons_append, chainPost_cons, chainPost_cons, chainPost_append en act a b s]

theorem runAct_append (w : World) (a b : List Cmd) : runAct w (a ++ b) = runAct (runAct w a) b := by
  simp [runAct, List.foldl_append]

theorem chainPre_others : ∀ (l : List Other) (w : World),
    chainPre Plug.enabled plugPre (l.map .other) w = runAct w (preCmds l)
  | [], _ => rfl
  | o :: l, w => by
    rw [List.map_cons, chainPre_cons, chainPre_others l]
    simp only [preCmds, List.flatMap_cons, Plug.enabled, plugPre]
    by_cases he : o.enabled = true <;> simp [he, runAct_append, runAct]

theorem chainPost_others : ∀ (l : List Other) (w : World),
    chainPost Plug.enabled plugPost (l.map .other) w = runAct w (postCmds l)
  | [], _ => rfl
  | o :: l, w => by
    rw [List.map_cons, chainPost_cons, chainPost_others l]
    simp only [postCmds, List.reverse_cons, List.flatMap_append, List.flatMap_cons, List.flatMap_nil,
      List.append_nil, Plug.enabled, plugPost]
    by_cases he : o.enabled = true <;> simp [he, runAct_append, runAct]

/-! ### plugin actions inside the window -/

theorem sim_execAct {f0 : Nat} {w : World} {h : HState} (s : Sim f0 w h) (c : Cmd) :
    Sim f0 (execAct w c) (hAct h c) := by
  cases c with
  | alloc id size => exact sim_execMem s (.alloc id size)
  | free id => exact sim_execMem s (.free id)
  | realloc id newId size => exact sim_execMem s (.realloc id newId size)
  | reallocFail id size => exact sim_execMem s (.reallocFail id size)
  | envSeq n => exact sim_execMem s (.envSeq n)
  | expectLeaks n => exact s
  | ignoreLeaks => exact s
  | fail =>
    exact { ids := s.ids, chk := s.chk, cur := s.cur, ab := s.ab
            fails := by simp only [execAct, pluginFailureStyle, hAct, s.fails]; omega
            ign := s.ign, exp := s.exp, fc := s.fc }

theorem sim_runAct {f0 : Nat} : ∀ (cs : List Cmd) {w : World} {h : HState}, Sim f0 w h →
    Sim f0 (runAct w cs) (hRunAct h cs)
  | [], _, _, s => s
  | c :: cs, _, _, s => sim_runAct cs (sim_execAct s c)

theorem frame_execAct (w : World) (c : Cmd) : Frame w (execAct w c) := by
  cases c with
  | alloc id size => exact frame_execMem w (.alloc id size)
  | free id => exact frame_execMem w (.free id)
  | realloc id newId size => exact frame_execMem w (.realloc id newId size)
  | reallocFail id size => exact frame_execMem w (.reallocFail id size)
  | envSeq n => exact frame_execMem w (.envSeq n)
  | expectLeaks n => exact Frame.refl w
  | ignoreLeaks => exact Frame.refl w
  | fail => exact ⟨rfl, rfl, rfl, rfl, rfl⟩

theorem frame_runAct : ∀ (cs : List Cmd) (w : World), Frame w (runAct w cs)
  | [], w => Frame.refl w
  | c :: cs, w => (frame_execAct w c).trans (frame_runAct cs (execAct w c))

theorem numInv_execAct {s0 : Nat} {w : World} (h : NumInv s0 w) (c : Cmd) : NumInv s0 (execAct w c) := by
  cases c with
  | alloc id size => exact numInv_execMem h (.alloc id size)
  | free id => exact numInv_execMem h (.free id)
  | realloc id newId size => exact numInv_execMem h (.realloc id newId size)
  | reallocFail id size => exact numInv_execMem h (.reallocFail id size)
  | envSeq n => exact numInv_execMem h (.envSeq n)
  | expectLeaks n => exact h
  | ignoreLeaks => exact h
  | fail => exact { below := h.below, start := h.start, fresh := h.fresh }

theorem numInv_runAct {s0 : Nat} : ∀ (cs : List Cmd) {w : World}, NumInv s0 w → NumInv s0 (runAct w cs)
  | [], _, h => h
  | c :: cs, _, h => numInv_runAct cs (numInv_execAct h c)

/-! ### plugin actions outside the window -/

theorem clean_doRealloc {w : World} (hc : Clean w) (id newId size : Nat) : Clean (doRealloc w id newId size) := by
  unfold doRealloc
  split
  · exact hc
  · split
    · exact hc
    · exact clean_execOutside (clean_execOutside hc (.free id)) (.alloc newId size)

theorem clean_execAct {w : World} (hc : Clean w) (c : Cmd) : Clean (execAct w c) := by
  cases c with
  | alloc id size => exact clean_execOutside hc (.alloc id size)
  | free id => exact clean_execOutside hc (.free id)
  | realloc id newId size => exact clean_doRealloc hc id newId size
  | reallocFail id size => simp only [execAct, execMem, execCmd_reallocFail]; exact hc
  | envSeq n => exact clean_execOutside hc (.envSeq n)
  | expectLeaks n => exact hc
  | ignoreLeaks => exact hc
  | fail =>
    exact { noChecking := hc.noChecking, notChecking := hc.notChecking, numsBelow := hc.numsBelow,
            ignoreOff := hc.ignoreOff, expectedZero := hc.expectedZero }

theorem clean_runAct : ∀ (cs : List Cmd) {w : World}, Clean w → Clean (runAct w cs)
  | [], _, hc => hc
  | c :: cs, _, hc => clean_runAct cs (clean_execAct hc c)

theorem liveIds_doRealloc (w : World) (id newId size : Nat) :
    (doRealloc w id newId size).liveIds = hOutAct w.liveIds (.realloc id newId size) := by
  have e1 : ∀ x, w.det.isLive x = decide (x ∈ w.liveIds) := fun x => isLive_eq w.det x
  unfold doRealloc hOutAct
  rw [e1 id, e1 newId]
  by_cases h1 : id ∈ w.liveIds
  · by_cases h2 : newId = id
    · subst h2
      simp only [h1, decide_true, Bool.not_true, Bool.false_eq_true, if_false, bne_self_eq_false, Bool.false_and,
        not_true_eq_false, ne_eq, false_and]
      exact (liveIds_execOutside (doFree w newId) (.alloc newId size)).trans
        (by rw [show (doFree w newId) = execOutside w (.free newId) from rfl, liveIds_execOutside]; rfl)
    · by_cases h3 : newId ∈ w.liveIds
      · simp [h1, h2, h3]
      · simp only [h1, h2, h3, decide_true, decide_false, Bool.not_true, Bool.false_eq_true, if_false, Bool.and_false,
          not_true_eq_false, ne_eq, not_false_eq_true, and_false]
        exact (liveIds_execOutside (doFree w id) (.alloc newId size)).trans
          (by rw [show (doFree w id) = execOutside w (.free id) from rfl, liveIds_execOutside]; rfl)
  · simp [h1]

theorem liveIds_execAct (w : World) (c : Cmd) : (execAct w c).liveIds = hOutAct w.liveIds c := by
  cases c with
  | alloc id size => exact liveIds_execOutside w (.alloc id size)
  | free id => exact liveIds_execOutside w (.free id)
  | realloc id newId size => exact liveIds_doRealloc w id newId size
  | reallocFail id size => simp only [execAct, execMem, execCmd_reallocFail]; rfl
  | envSeq n => rfl
  | expectLeaks n => rfl
  | ignoreLeaks => rfl
  | fail => rfl

theorem liveIds_runAct : ∀ (cs : List Cmd) (w : World), (runAct w cs).liveIds = liveOut w.liveIds cs
  | [], _ => rfl
  | c :: cs, w => by
    simp only [runAct, liveOut, List.foldl_cons]
    rw [← liveIds_execAct]; exact liveIds_runAct cs (execAct w c)

theorem aborted_execAct (w : World) (c : Cmd) : (execAct w c).aborted = w.aborted := by
  cases c with
  | alloc id size => simp only [execAct, execMem, doAlloc]; split <;> rfl
  | free id => rfl
  | realloc id newId size =>
    simp only [execAct, execMem, doRealloc]
    split
    · rfl
    · split
      · rfl
      · simp only [doAlloc]; split <;> rfl
  | reallocFail id size => simp only [execAct, execMem, execCmd_reallocFail]
  | envSeq n => rfl
  | expectLeaks n => rfl
  | ignoreLeaks => rfl
  | fail => rfl

theorem aborted_runAct : ∀ (cs : List Cmd) (w : World), (runAct w cs).aborted = w.aborted
  | [], _ => rfl
  | c :: cs, w => by
    simp only [runAct, List.foldl_cons]
    exact (aborted_runAct cs (execAct w c)).trans (aborted_execAct w c)

theorem failures_le_execAct (w : World) (c : Cmd) : w.failures ≤ (execAct w c).failures := by
  cases c with
  | alloc id size => simp only [execAct, execMem, doAlloc]; split <;> exact Nat.le_refl _
  | free id => exact Nat.le_refl _
  | realloc id newId size =>
    simp only [execAct, execMem, doRealloc]
    split
    · exact Nat.le_refl _
    · split
      · exact Nat.le_refl _
      · simp only [doAlloc]; split <;> exact Nat.le_refl _
  | reallocFail id size => simp only [execAct, execMem, execCmd_reallocFail]; exact Nat.le_refl _
  | envSeq n => exact Nat.le_refl _
  | expectLeaks n => exact Nat.le_refl _
  | ignoreLeaks => exact Nat.le_refl _
  | fail => simp only [execAct, pluginFailureStyle]; omega

/-! ### the unfolded run under a chain with one enabled leak plugin -/

/-- the state at the leak plugin's pre action -/
def atLeakPre (w : World) (t : ChainSpec) : World := runAct (atStart w t.obj.test) (preCmds t.outer)

/-- the state at the leak plugin's post action -/
def atInnerEnd (w : World) (t : ChainSpec) : World :=
  runAct (runMem (runBody (runMem (runAct (preTestAction (atLeakPre w t)) (preCmds t.inner)) t.obj.ctor) t.obj.test)
    t.obj.dtor) (postCmds t.inner)

theorem runTestChain_eq (w : World) (t : ChainSpec) :
    runTestChain w t.toTest = runAct (postTestAction (atInnerEnd w t)) (postCmds t.outer) := by
  simp only [runTestChain, runOneTestChain, runOneTestOrder, List.foldl_cons, List.foldl_nil, rstepChain,
    ChainSpec.toTest, chainPre_append, chainPost_append, chainPre_cons, chainPost_cons, chainPre_others,
    chainPost_others, Plug.enabled, plugPre, plugPost, if_true]
  rfl

theorem clean_atLeakPre {w : World} (hc : Clean w) (t : ChainSpec) : Clean (atLeakPre w t) :=
  clean_runAct _ (clean_atStart hc t.obj.test)

theorem liveIds_atLeakPre (w : World) (t : ChainSpec) : (atLeakPre w t).liveIds = liveAtLeakPre w.liveIds t := by
  unfold atLeakPre liveAtLeakPre
  rw [liveIds_runAct, liveIds_atStart]

theorem atLeakPre_obs (w : World) (t : ChainSpec) :
    (atLeakPre w t).leakFail = none ∧ (atLeakPre w t).warned = false ∧
    (atLeakPre w t).overloads = w.overloads ∧ (atLeakPre w t).aborted = false := by
  have h := frame_runAct (preCmds t.outer) (atStart w t.obj.test)
  have h0 := atStart_obs w t.obj.test
  exact ⟨h.2.1.trans h0.1, h.2.2.1.trans h0.2.1, h.2.2.2.1.trans h0.2.2.1, (aborted_runAct _ _).trans h0.2.2.2⟩

theorem sim_atInnerEnd {w : World} (hc : Clean w) (t : ChainSpec) :
    Sim (atLeakPre w t).failures (atInnerEnd w t) (atEndChain w.liveIds t) := by
  have hs := sim_pre (clean_atLeakPre hc t) (atLeakPre_obs w t).2.2.2
  rw [liveIds_atLeakPre] at hs
  exact sim_runAct _ (sim_runMem t.obj.dtor (sim_runBody (sim_runMem t.obj.ctor (sim_runAct _ hs)) t.obj.test))

theorem atInnerEnd_obs (w : World) (t : ChainSpec) :
    (atInnerEnd w t).leakFail = none ∧ (atInnerEnd w t).warned = false ∧
    (atInnerEnd w t).overloads = w.overloads ∧ (atInnerEnd w t).det.out = [] := by
  have h : Frame (preTestAction (atLeakPre w t)) (atInnerEnd w t) :=
    ((((frame_runAct _ _).trans (frame_runMem t.obj.ctor _)).trans (frame_runBody _ t.obj.test)).trans
      (frame_runMem t.obj.dtor _)).trans (frame_runAct _ _)
  have h0 := atLeakPre_obs w t
  refine ⟨h.2.1.trans ?_, h.2.2.1.trans ?_, h.2.2.2.1.trans ?_, h.1.trans ?_⟩
  · rw [preTestAction_eq]; exact h0.1
  · rw [preTestAction_eq]; exact h0.2.1
  · rw [preTestAction_eq]; exact h0.2.2.1
  · rw [preTestAction_eq]

theorem numInv_atInnerEnd {w : World} (hc : Clean w) (t : ChainSpec) :
    NumInv (atLeakPre w t).det.seq (atInnerEnd w t) :=
  numInv_runAct _ (numInv_runMem t.obj.dtor (numInv_runBody (numInv_runMem t.obj.ctor
    (numInv_runAct _ (numInv_pre (clean_atLeakPre hc t)))) t.obj.test))

theorem leakFail_runTestChain {w : World} (hc : Clean w) (t : ChainSpec) :
    (runTestChain w t.toTest).leakFail =
      if w.overloads && shouldFailChain w.liveIds t then
        some { entries := (atInnerEnd w t).det.recs.filter (fun r => r.period == .checking),
               total := (blocksOfChain w.liveIds t).length }
      else none := by
  have ho := atInnerEnd_obs w t
  rw [runTestChain_eq, (frame_runAct _ _).2.1, leakFail_post (sim_atInnerEnd hc t) ho.1 ho.2.2.2, ho.2.2.1]
  rfl

theorem clean_runTestChain {w : World} (hc : Clean w) (t : ChainSpec) : Clean (runTestChain w t.toTest) := by
  rw [runTestChain_eq]
  apply clean_runAct
  have hn := numInv_atInnerEnd hc t
  refine { noChecking := ?_, notChecking := by rw [post_cur]; decide, numsBelow := ?_,
           ignoreOff := (post_flags _).1, expectedZero := (post_flags _).2 }
  · intro r hr
    rw [post_recs, List.mem_map] at hr
    obtain ⟨r0, _, rfl⟩ := hr
    exact demoteRec_period r0
  · intro r hr
    rw [post_recs, List.mem_map] at hr
    obtain ⟨r0, hr0, rfl⟩ := hr
    rw [post_seq, demoteRec_num]
    exact hn.below r0 hr0

theorem liveIds_runTestChain {w : World} (hc : Clean w) (t : ChainSpec) :
    (runTestChain w t.toTest).liveIds = liveAfterChain w.liveIds t := by
  rw [runTestChain_eq, liveIds_runAct]
  unfold liveAfterChain
  congr 1
  unfold World.liveIds
  rw [post_recs, List.map_map]
  have : ((fun r : Rec => r.id) ∘ Detector.demoteRec) = (fun r : Rec => r.id) := by
    funext r; exact demoteRec_id r
  rw [this]
  exact (sim_atInnerEnd hc t).ids

theorem overloads_runTestChain (w : World) (t : ChainSpec) : (runTestChain w t.toTest).overloads = w.overloads := by
  rw [runTestChain_eq, (frame_runAct _ _).2.2.2.1, post_overloads]
  exact (atInnerEnd_obs w t).2.2.1

/-! ### failures recorded by plugin actions -/

/-- failures a list of plugin-action commands adds -/
def failCount (cs : List Cmd) : Nat := (cs.filter (fun c => c == .fail)).length

theorem failures_execAct (w : World) (c : Cmd) :
    (execAct w c).failures = w.failures + (if c == .fail then 1 else 0) := by
  cases c with
  | alloc id size => simp only [execAct, execMem, doAlloc]; split <;> rfl
  | free id => rfl
  | realloc id newId size =>
    simp only [execAct, execMem, doRealloc]
    split
    · rfl
    · split
      · rfl
      · simp only [doAlloc]; split <;> rfl
  | reallocFail id size => simp only [execAct, execMem, execCmd_reallocFail]; rfl
  | envSeq n => rfl
  | expectLeaks n => rfl
  | ignoreLeaks => rfl
  | fail => rfl

theorem failures_runAct : ∀ (cs : List Cmd) (w : World), (runAct w cs).failures = w.failures + failCount cs
  | [], _ => rfl
  | c :: cs, w => by
    simp only [runAct, List.foldl_cons]
    have h := failures_runAct cs (execAct w c)
    simp only [runAct] at h
    rw [h, failures_execAct]
    cases hc : (c == Cmd.fail) <;> simp [failCount, List.filter_cons, hc] <;> omega

theorem failures_runTestChain {w : World} (hc : Clean w) (t : ChainSpec) :
    (runTestChain w t.toTest).failures =
      w.failures + failCount (preCmds t.outer) + (atEndChain w.liveIds t).own +
        (if w.overloads && shouldFailChain w.liveIds t then 1 else 0) + failCount (postCmds t.outer) := by
  rw [runTestChain_eq, failures_runAct, failures_post (sim_atInnerEnd hc t), (atInnerEnd_obs w t).2.2.1]
  have h1 : (atLeakPre w t).failures = w.failures + failCount (preCmds t.outer) := by
    unfold atLeakPre; rw [failures_runAct, failures_atStart]
  rw [h1]; rfl

end LeakPlugin
